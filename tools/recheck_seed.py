#!/usr/bin/env python3
# recheck_seed.py <seed name under /verif/seeded> <check ids,comma> : re-runs checks against an already confirmed seeded change
# (scratch worktree of /repo HEAD + patch.diff) and updates meta.json's verification.checks for those ids.
import sys, os, json, subprocess, shutil, time
ROOT = os.path.dirname(os.path.dirname(os.path.abspath(__file__)))
name = sys.argv[1]; checks = sys.argv[2].split(",")
seed = os.path.join(ROOT, "seeded", name); wt = "/tmp/seedchk_" + name; work = "/tmp/seedwork_" + name
def sh(cmd): 
    p = subprocess.run(cmd, shell=True, stdout=subprocess.PIPE, stderr=subprocess.STDOUT, text=True, errors="replace"); return p.returncode, p.stdout
sh("git -C /repo worktree remove --force %s 2>/dev/null; rm -rf %s %s" % (wt, wt, work))
rc, out = sh("git -C /repo worktree add -q --detach %s HEAD" % wt); assert rc == 0, out
try:
    rc, out = sh("git -C %s apply %s/patch.diff" % (wt, seed))
    if rc != 0: rc, out = sh("git -C %s apply -3 %s/patch.diff && git -C %s reset -q" % (wt, seed, wt))
    if rc != 0: print(json.dumps({"name": name, "patch_applies": False, "err": out[-300:]})); sys.exit(0)
    meta = json.load(open(os.path.join(seed, "meta.json"))); ver = meta.setdefault("verification", {}); ver.setdefault("checks", {})
    for cid in checks:
        t0 = time.time(); env = dict(os.environ, VERIF_REPO=wt, VERIF_WORK=work)
        p = subprocess.run([os.path.join(ROOT, "check"), cid, "quick"], cwd=ROOT, env=env, stdout=subprocess.PIPE, stderr=subprocess.STDOUT, text=True, errors="replace", timeout=3600)
        lines = [l for l in p.stdout.split("\n") if l.startswith("VIOLATION") or l.startswith("  ->") or l.startswith("OK ") or l.startswith("ERROR") or l.startswith("KNOWN")]
        ver["checks"][cid] = {"rc": p.returncode, "wall_s": round(time.time() - t0), "lines": [l[:400] for l in lines[:8]], "rechecked": True}
    ver["detected"] = any(v["rc"] == 1 for v in ver["checks"].values())
    json.dump(meta, open(os.path.join(seed, "meta.json"), "w"), indent=1)
    print(json.dumps({"name": name, "checks": {k: (ver["checks"][k]["rc"], ver["checks"][k]["lines"][:2]) for k in checks}}, indent=1))
finally:
    sh("git -C /repo worktree remove --force %s" % wt); shutil.rmtree(work, ignore_errors=True); shutil.rmtree(wt, ignore_errors=True)
