#!/usr/bin/env python3
# prints a markdown table of the seeded breaking changes and which checks caught them (from seeded/*/meta.json)
import json, glob, os
ROOT = os.path.dirname(os.path.dirname(os.path.abspath(__file__)))
rows = []
for f in sorted(glob.glob(ROOT + "/seeded/*/meta.json")):
    m = json.load(open(f)); v = m.get("verification", {})
    name = os.path.basename(os.path.dirname(f))
    checks = v.get("checks", {})
    caught = [k for k, c in checks.items() if c.get("rc") == 1]
    quiet = [k for k, c in checks.items() if c.get("rc") == 0]
    how = ""
    for k in caught:
        ls = checks[k].get("lines", [])
        if ls: how = ("no-failing-input-found" if "no-failing-input-found" in ls[0] else "failing input"); break
    needs = (m.get("needs") or "")[:110].replace("|", "/").replace("\n", " ")
    rows.append("| %s | %s | %s | %s | %s | %s |" % (name, m.get("property", "?"), "yes" if v.get("confirmed") else "NO", ", ".join(caught) or "-", ", ".join(quiet) or "-", needs))
print("| seeded change | property | confirmed (demo fails with / passes without, suite 132/132) | caught by | ran, stayed quiet | needs |")
print("|---|---|---|---|---|---|")
print("\n".join(rows))
