#!/bin/sh
# runs the thorough tier of every check from the directory it is started in (a snapshot made by `vp run`, or /verif); results in thorough_<id>.log
D=$(pwd)
[ -d "$D/build/model" ] || ./setup.sh > thorough_setup.log 2>&1
for c in C03 C06 C02 C01 C04 C05 C07 C08 C09 C10 C11 C12 C13 C14 C15 C16 C17 C18 C19; do
  s=$(date +%s)
  timeout 9000 ./check $c thorough > thorough_$c.log 2>&1
  echo "$c rc=$? wall=$(( $(date +%s) - s ))s $(grep -c '^VIOLATION' thorough_$c.log) violations; $(tail -1 thorough_$c.log | cut -c1-160)"
done
echo ALLDONE
