#!/opt/veriftools/pyvenv/bin/python3
# Numeric evaluation (mpmath, high precision) of the total variation between the distribution a dumped barrier table
# induces and the discrete Gaussian D_{Z,sigma,c}.  NOT a proof: supporting evidence / search for a failing parameter set.
# stdin: JSON {"sigma": "...", "center": "...", "P": bits, "vmin": int, "barriers": [hex,...]}  -> prints log2(TV)
import sys, json
from mpmath import mp, mpf, exp, log, floor
d = json.load(sys.stdin)
mp.prec = max(1200, 4 * d["P"])
P = d["P"]; vmin = d["vmin"]
sigma = mpf(float(d["sigma"]))                      # the constructor takes sigma as a double
if d.get("center_prec"):                            # mpfr_t constructor: the centre as given at that precision
    keep = mp.prec; mp.prec = int(d["center_prec"]); c0 = mpf(d["center"]); mp.prec = keep; c = +c0
else: c = mpf(float(d["center"]))                   # double constructor
B = [int(h, 16) for h in d["barriers"]]
two = mpf(2) ** P
rho = lambda v: exp(-(mpf(v) - c) ** 2 / (2 * sigma ** 2))
# normaliser over a window wide enough that the neglected mass is < 2^-(prec/2)
W = int(floor(abs(c))) + int(60 * float(sigma)) + 80 + len(B)
lo, hi = int(floor(c)) - W, int(floor(c)) + W
S = sum(rho(v) for v in range(lo, hi + 1))
prob = {}
prev = 0
for i, b in enumerate(B):
    prob[vmin + i] = mpf(b - prev) / two; prev = b
prob[vmin + len(B)] = mpf((1 << P) - B[-1]) / two        # strings above the last barrier
tv = mpf(0)
for v in range(min(lo, vmin), max(hi, vmin + len(B)) + 1):
    tv += abs(prob.get(v, mpf(0)) - rho(v) / S)
tv /= 2
print("%.3f" % float(log(tv) / log(2)) if tv > 0 else "-inf")
