#!/usr/bin/env python3
# cxxvec2coq.py -- translator for the SSE / AVX2 kernels of the library (include/nfl/opt/arch/{sse,avx2}.hpp) to Gallina.
# Same principle as cxx2coq.py (clang's JSON AST of explicit instantiations); vector registers become lists of 32-bit words and every
# intrinsic becomes the function of coq/VecSem.v with the same name, so shuffles, blends, widenings and packs are part of the result.
# Scalar set-up arithmetic (p, 2*p, p - 0x80000000 - 1 ...) is translated with cxx2coq's expression translator; there signed `int`
# arithmetic is emitted with two's-complement wrap (sw 32): the values involved are p, small constants and their differences.
#
# usage: cxxvec2coq.py <repo> <out.v>
import sys, os, re, json, importlib.util
HERE = os.path.dirname(os.path.abspath(__file__))
spec = importlib.util.spec_from_file_location("cxx2coq", os.path.join(HERE, "cxx2coq.py"))
_argv = sys.argv; sys.argv = [_argv[0]] + _argv[1:2] + ["/dev/null"]
c2c = importlib.util.module_from_spec(spec); spec.loader.exec_module(c2c)
sys.argv = _argv
REPO = sys.argv[1] if len(sys.argv) > 1 else "/repo"
OUT = sys.argv[2] if len(sys.argv) > 2 else "/dev/stdout"
Unsupported = c2c.Unsupported; walk = c2c.walk

def ptr_name(e):
    k = e["kind"]
    if k in ("ImplicitCastExpr", "ParenExpr", "CStyleCastExpr", "CXXReinterpretCastExpr", "CXXStaticCastExpr"): return ptr_name(e["inner"][0])
    if k == "DeclRefExpr": return e["referencedDecl"]["name"]
    if k == "MemberExpr": return e["name"]
    raise Unsupported("pointer expression " + k)

def vwords(node):
    """number of 32-bit words of a vector-typed node, or None"""
    t = node.get("type", {}); q = t.get("desugaredQualType", "") + " " + t.get("qualType", "")
    if "__m256" in q or "8 * sizeof" in q or "__v8s" in q or "__v4di" in q or "__v16hi" in q or "32 * sizeof" in q or "16 * sizeof(short" in q: return 8
    if "__m128" in q or "4 * sizeof" in q or "__v4s" in q or "__v2di" in q or "__v8hi" in q or "16 * sizeof(char" in q or "2 * sizeof(long" in q: return 4
    return None

LANEWISE = {  # intrinsic -> VecSem function (same for the 128- and 256-bit forms: the functions are generic in the number of words)
    "add_epi32": "mm_add_epi32", "sub_epi32": "mm_sub_epi32", "mullo_epi32": "mm_mullo_epi32", "cmpgt_epi32": "mm_cmpgt_epi32",
    "add_epi16": "mm_add_epi16", "sub_epi16": "mm_sub_epi16", "mullo_epi16": "mm_mullo_epi16", "mulhi_epu16": "mm_mulhi_epu16", "cmpgt_epi16": "mm_cmpgt_epi16",
    "add_epi64": "mm_add_epi64", "sub_epi64": "mm_sub_epi64", "cmpgt_epi64": "mm_cmpgt_epi64", "mul_epu32": "mm_mul_epu32",
    "and_si128": "mm_and", "and_si256": "mm_and",
}

class VTr:
    def __init__(self, objs, bits, tag, consts):
        self.objs = objs; self.bits = bits; self.tag = tag; self.consts = consts
        self.byid = {}; self.byname = {}
        for o in objs:
            for n in walk(o):
                if "id" in n and n.get("kind") in ("FunctionDecl", "CXXMethodDecl", "CXXConstructorDecl") and any(c.get("kind") == "CompoundStmt" for c in n.get("inner", []) or []):
                    self.byid[n["id"]] = n
                    self.byname.setdefault(n.get("name"), n)
        self.defs = []            # generated helper definitions (text), in dependency order
        self.done = {}            # decl id -> (coq name, uses_p)
    # ---- scalars: cxx2coq's translator, signed arithmetic with wrap
    def scalar(self, e, env):
        tr = c2c.Tr(self.bits, self.consts, {})
        tr.env = dict(env)
        def arith(ty, term, k, op=None):
            s, b = ty
            if s == 0: return k(term) if op in (">>", "/", "%", "&", "|", "^") else k("(uw %d %s)" % (b, term))
            return k("(sw %d %s)" % (b, term))
        tr.arith = arith
        t = tr.expr(e, lambda x: x)
        self.uses_p = self.uses_p or ("p" in tr.params)
        return t
    def const(self, e):
        """compile-time integer constant"""
        k = e["kind"]
        if k in ("ParenExpr", "ImplicitCastExpr", "CStyleCastExpr", "ConstantExpr"): return self.const(e["inner"][0])
        if k == "IntegerLiteral": return int(e["value"])
        if k == "BinaryOperator":
            a, b = self.const(e["inner"][0]), self.const(e["inner"][1]); op = e["opcode"]
            return {"|": a | b, "<<": a << b, "+": a + b, "&": a & b, "-": a - b, "*": a * b}[op]
        raise Unsupported("constant " + k)
    # ---- vector expressions
    def vexpr(self, e, env):
        k = e["kind"]
        if k in ("ParenExpr", "ExprWithCleanups", "MaterializeTemporaryExpr", "CXXBindTemporaryExpr", "ConstantExpr"): return self.vexpr(e["inner"][0], env)
        if k in ("ImplicitCastExpr", "CStyleCastExpr", "CXXReinterpretCastExpr", "CXXStaticCastExpr", "CXXFunctionalCastExpr"):
            if e.get("castKind") in ("LValueToRValue", "NoOp", "BitCast", None): return self.vexpr(e["inner"][0], env)
            raise Unsupported("vector cast " + str(e.get("castKind")))
        if k == "DeclRefExpr":
            name = e["referencedDecl"]["name"]
            if name not in env: raise Unsupported("unbound vector " + name)
            return env[name]
        if k == "MemberExpr":
            name = e["name"]
            if name not in env: raise Unsupported("unbound member " + name)
            return env[name]
        if k in ("CallExpr", "CXXOperatorCallExpr", "CXXMemberCallExpr"):
            return self.call(e, env)
        raise Unsupported("vector expression " + k)
    def callee(self, e):
        for n in walk(e["inner"][0]):
            if n.get("kind") in ("DeclRefExpr", "MemberExpr") and "referencedDecl" in n: return n["referencedDecl"]
            if n.get("kind") == "MemberExpr" and "referencedMemberDecl" in n: return {"id": n["referencedMemberDecl"], "name": n.get("name")}
        raise Unsupported("callee")
    def call(self, e, env):
        cd = self.callee(e); name = cd.get("name", ""); args = e["inner"][1:]
        n = vwords(e)
        m = re.match(r"_mm(256)?_(\w+)$", name)
        if m:
            op = m.group(2)
            if op in LANEWISE: return "(%s %s %s)" % (LANEWISE[op], self.vexpr(args[0], env), self.vexpr(args[1], env))
            if op in ("set1_epi32", "set1_epi16", "set1_epi64x"): return "(mm_%s %d %s)" % (op, n, self.scalar(args[0], env))
            if op in ("srli_epi64", "slli_epi64"): return "(mm_%s %s %d)" % (op, self.vexpr(args[0], env), self.const(args[1]))
            if op == "cvtepu16_epi32": return "(%s %s)" % ("mm256_cvtepu16_epi32" if m.group(1) else "mm_cvtepu16_epi32", self.vexpr(args[0], env))
            if op == "packus_epi32" and not m.group(1): return "(mm_packus_epi32 %s %s)" % (self.vexpr(args[0], env), self.vexpr(args[1], env))
            if op == "castsi256_si128": return "(mm256_castsi256_si128 %s)" % self.vexpr(args[0], env)
            if op in ("load_si128", "load_si256"):
                pn = ptr_name(args[0])
                if pn not in self.vin: self.vin.append(pn)
                return env.get("*" + pn, pn)
            raise Unsupported("intrinsic " + name)
        if name in ("__builtin_ia32_pshufd", "__builtin_ia32_pshufd256"): return "(mm_shuffle_epi32 %s %d)" % (self.vexpr(args[0], env), self.const(args[1]))
        if name in ("__builtin_ia32_blendps", "__builtin_ia32_blendps256"): return "(mm_blend_ps %s %s %d)" % (self.vexpr(args[0], env), self.vexpr(args[1], env), self.const(args[2]))
        if name == "__builtin_ia32_psrldqi128_byteshift":
            if self.const(args[1]) != 8: raise Unsupported("byte shift by %d" % self.const(args[1]))
            return "(mm_srli_si128_8 %s)" % self.vexpr(args[0], env)
        if name == "__builtin_ia32_permti256": return "(mm256_permute2x128_si256 %s %s %d)" % (self.vexpr(args[0], env), self.vexpr(args[1], env), self.const(args[2]))
        if name == "operator()":
            # a call to another vector functor of the library: addmod<T, simd>{}(x, y, cm)
            fq = None
            for nn in walk(args[0]):
                q = nn.get("type", {}).get("qualType", "")
                mm = re.search(r"(?:nfl::ops::)?(addmod|submod|mulmod_shoup|muladd_shoup)<([\w ]+), (?:nfl::)?simd::(\w+)>", q)
                if mm: fq = mm; break
            if not fq: raise Unsupported("functor call")
            key = "%s_%s" % (fq.group(3), fq.group(1))
            if key not in self.functors: raise Unsupported("call to untranslated functor " + key)
            self.uses_p = True
            return "(%s p %s)" % (self.functors[key], " ".join(self.vexpr(a, env) for a in args[1:-1]))
        # a helper of the library (mulhi_epu32, finish, shuffle_lh, shift8 ...): translate it on demand
        did = cd.get("id")
        hd = self.byid.get(did) or (self.byname.get(name) if re.match(r"(avx2_)?mulhi_epu(16|32)$", name) else None)
        if hd is not None:
            hname, hp = self.helper(hd)
            vals = []
            for a in args:
                vals.append(self.vexpr(a, env) if vwords(a) else self.scalar(a, env))
            if hp: self.uses_p = True
            return "(%s %s%s)" % (hname, "p " if hp else "", " ".join(vals))
        raise Unsupported("call to " + name)
    def helper(self, decl):
        if decl["id"] in self.done: return self.done[decl["id"]]
        saved = (self.vin, self.uses_p); self.vin = []; self.uses_p = False
        name = "gen_%s_%s_%d" % (self.tag, decl["name"], len(self.done))
        parms = [q["name"] for q in decl["inner"] if q.get("kind") == "ParmVarDecl"]
        body = [c for c in decl["inner"] if c.get("kind") == "CompoundStmt"][0]
        env = {q: q for q in parms}
        code, outs = self.block(body, env)
        hp = self.uses_p
        text = "Definition %s %s%s :=\n  %s." % (name, "(p : Z) " if hp else "", " ".join("(%s : list Z)" % q for q in parms), code)
        self.defs.append(text)
        self.vin, self.uses_p = saved
        self.done[decl["id"]] = (name, hp)
        return name, hp
    # ---- statements: returns (coq text, outputs)
    def block(self, body, env):
        lets = []; outs = {}; ret = None
        for s in body.get("inner", []) or []:
            k = s["kind"]
            if k in ("NullStmt",): continue
            if k == "DeclStmt":
                for d in s.get("inner", []):
                    if d["kind"] != "VarDecl": continue
                    init = [c for c in d.get("inner", []) or [] if c.get("kind") not in ("TypedefDecl",)]
                    if not init: continue
                    if vwords(d):
                        v = "%s_%d" % (re.sub(r"\W", "_", d["name"]), len(lets)); lets.append((v, self.vexpr(init[-1], env))); env[d["name"]] = v
                    else:
                        # a scalar local (p, ...): params<T>::P[cm] becomes the parameter p
                        t = self.scalar(init[-1], env); v = "%s_%d" % (re.sub(r"\W", "_", d["name"]), len(lets)); lets.append((v, t)); env[d["name"]] = v
                continue
            if k == "BinaryOperator" and s.get("opcode") == "=":
                lhs, rhs = s["inner"]
                nm = lhs.get("referencedDecl", {}).get("name") if lhs["kind"] == "DeclRefExpr" else (lhs.get("name") if lhs["kind"] == "MemberExpr" else None)
                if nm is None: raise Unsupported("assignment target " + lhs["kind"])
                v = "%s_%d" % (re.sub(r"\W", "_", nm), len(lets)); lets.append((v, self.vexpr(rhs, env) if vwords(lhs) else self.scalar(rhs, env))); env[nm] = v
                continue
            if k in ("CallExpr", "CXXMemberCallExpr", "ExprWithCleanups"):
                cd = None
                try: cd = self.callee(s if k != "ExprWithCleanups" else s["inner"][0])
                except Unsupported: pass
                nm = (cd or {}).get("name", "")
                if nm.startswith("assert_") or nm.startswith("ASSERT"): continue
                mm = re.match(r"_mm(256)?_store_si(128|256)$", nm)
                if mm:
                    call = s if k != "ExprWithCleanups" else s["inner"][0]
                    pn = ptr_name(call["inner"][1]); outs[pn] = self.vexpr(call["inner"][2], env); env["*" + pn] = outs[pn]
                    continue
                raise Unsupported("statement call " + nm)
            if k == "ReturnStmt":
                ret = self.vexpr(s["inner"][0], env); continue
            raise Unsupported("statement " + k)
        res = ret if ret is not None else "(%s)" % ", ".join(outs[o] for o in sorted(outs))
        code = res
        for v, t in reversed(lets): code = "(let %s := %s in %s)" % (v, t, code)
        return code, sorted(outs)

def find_record(objs, name, pred):
    for o in objs:
        for n in walk(o):
            if n.get("kind") in ("ClassTemplateSpecializationDecl", "CXXRecordDecl") and n.get("name") == name and pred(n): return n
    return None

def main():
    out = ["(* GENERATED by tools/cxxvec2coq.py from include/nfl/opt/arch/{sse,avx2}.hpp on every run -- do not edit. *)",
           "From Coq Require Import ZArith List Bool.", "From NTT Require Import CxxSem VecSem.", "Import ListNotations.", "Local Open Scope Z_scope.", ""]
    index = []
    functors = {}
    for simd, flags in (("sse", ["-DNFL_OPTIMIZED", "-DNTT_SSE", "-msse4.2"]), ("avx2", ["-DNFL_OPTIMIZED", "-DNTT_AVX2", "-mavx2"])):
        for cname, ct, bits in (("uint32_t", "unsigned int", 32), ("uint16_t", "unsigned short", 16)):
            consts = {"kModulusRepresentationBitsize": bits}
            for fn in ("addmod", "submod", "mulmod_shoup", "muladd_shoup", "ntt_loop_body"):
                gname = "gen_%s_%s_u%d" % (simd, fn, bits)
                if fn == "ntt_loop_body":
                    tu = "#include <nfl.hpp>\ntemplate struct nfl::ops::ntt_loop_body<nfl::simd::%s, nfl::poly<%s, 16, 1>, %s>;\n" % (simd, cname, cname)
                else:
                    tu = "#include <nfl.hpp>\ntemplate struct nfl::ops::%s<%s, nfl::simd::%s>;\n" % (fn, cname, simd)
                try:
                    objs = c2c.clang_ast(tu, fn, flags) + c2c.clang_ast(tu, "mulhi_epu", flags)
                    def pred(n):
                        ta = c2c.targs(n)
                        if fn == "ntt_loop_body": return ta[:1] == ["nfl::simd::" + simd] and ta[-1:] == [ct]
                        return ta[:2] == [ct, "nfl::simd::" + simd]
                    rec = find_record(objs, fn, lambda n: pred(n) and any(c.get("kind") == "CXXMethodDecl" and c.get("name") == "operator()" and any(x.get("kind") == "CompoundStmt" for x in c.get("inner", [])) for c in n.get("inner", [])))
                    if rec is None:
                        index.append((gname, "inherits another specialisation (no own operator())")); continue
                    vt = VTr(objs, bits, "%s_%s_u%d" % (simd, fn, bits), consts); vt.functors = functors; vt.vin = []; vt.uses_p = False
                    meth = [c for c in rec["inner"] if c.get("kind") == "CXXMethodDecl" and c.get("name") == "operator()"][0]
                    parms = [q["name"] for q in meth["inner"] if q.get("kind") == "ParmVarDecl" and q.get("name") != "cm"]
                    env = {}
                    pre = []
                    if fn == "ntt_loop_body":
                        ctor = [c for c in rec["inner"] if c.get("kind") == "CXXConstructorDecl" and any(x.get("kind") == "CompoundStmt" for x in c.get("inner", []))][0]
                        cenv = {"p": "p"}
                        ccode, _ = vt.block([c for c in ctor["inner"] if c.get("kind") == "CompoundStmt"][0], cenv)
                        # the constructor only assigns members: re-run it to collect them as lets
                        vt2lets = []
                        for s_ in [c for c in ctor["inner"] if c.get("kind") == "CompoundStmt"][0].get("inner", []):
                            if s_.get("kind") == "BinaryOperator" and s_["inner"][0].get("kind") == "MemberExpr":
                                mname = s_["inner"][0]["name"]; vt2lets.append((mname, vt.vexpr(s_["inner"][1], {"p": "p"})))
                        pre = vt2lets; env = {m_: m_ for m_, _ in vt2lets}; vt.uses_p = True
                        vparms = [q for q in parms]                                   # pointers: vector cells
                        env.update({})
                    else:
                        vparms = parms
                        env.update({q: q for q in parms})
                    body = [c for c in meth["inner"] if c.get("kind") == "CompoundStmt"][0]
                    code, outs = vt.block(body, env)
                    for m_, t_ in reversed(pre): code = "(let %s := %s in %s)" % (m_, t_, code)
                    args = (["p"] if vt.uses_p else []) + (vt.vin if fn == "ntt_loop_body" else vparms)
                    for d_ in vt.defs: out.append(d_); out.append("")
                    out.append("(* nfl::ops::%s<%s, simd::%s>::operator()%s *)" % (fn, cname, simd, (": stores (%s)" % ", ".join(outs)) if outs else ""))
                    out.append("Definition %s %s :=\n  %s." % (gname, " ".join("(%s : %s)" % (a_, "Z" if a_ == "p" else "list Z") for a_ in args), code)); out.append("")
                    functors["%s_%s" % (simd, fn)] = gname if bits == 32 else functors.get("%s_%s" % (simd, fn), gname)
                    functors["%s_%s_u%d" % (simd, fn, bits)] = gname
                    index.append((gname, "ok " + " ".join(args) + ((" -> " + ",".join(outs)) if outs else "")))
                except Unsupported as ex:
                    index.append((gname, "unsupported: %s" % ex))
                except RuntimeError as ex:
                    index.append((gname, "clang: %s" % str(ex)[-200:].replace("\n", " ")))
            # calls between functors must go to the same limb width: reset the short names
            for k_ in list(functors):
                if k_.count("_") == 1: del functors[k_]
    out.append("(* index: " + "; ".join("%s [%s]" % x for x in index) + " *)")
    open(OUT, "w").write("\n".join(out) + "\n")
    for x in index: print(*x, file=sys.stderr)

if __name__ == "__main__":
    main()
