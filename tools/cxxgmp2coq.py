#!/usr/bin/env python3
# cxxgmp2coq.py <repo> <out.v> : translates the big-integer side of nfl::poly (include/nfl/gmp.hpp) from the C++ source:
#   poly<T,Degree,NbModuli>::GMP::GMP()            -- product of the moduli, Shoup value, lifting integers
#   GMP::poly2mpz(std::array<mpz_t,Degree>&, poly const&)   -- CRT lift of every coefficient with its Shoup-style reduction
#   GMP::mpz2poly(poly&, std::array<mpz_t,Degree> const&)   -- residues of big integers
# An mpz_t is an integer (Z); every GMP call is the function of the same name in GmpSem.v (GMP's documented meaning);
# arrays (std::array<mpz_t,.>, the member array lifting_integers, the words of a poly) are lists with bounds-checked access;
# size_t arithmetic wraps at 64 bits.  The functions are instantiated at (degree 16, 2 moduli) and (degree 64, 3 moduli) for the
# three limb types and the two translations must coincide: degree and nmoduli are then parameters of the result.
import sys, os, re, json
sys.path.insert(0, os.path.dirname(os.path.abspath(__file__)))
import cxx2coq as c2c
from cxx2coq import Unsupported, walk, ctype
import cxxloop2coq as L

REPO = sys.argv[1] if len(sys.argv) > 1 else "/repo"
c2c.REPO = REPO; L.REPO = REPO
TN = L.TN

def strip(e):
    while e.get("kind") in ("ImplicitCastExpr", "ParenExpr", "CStyleCastExpr", "ExprWithCleanups", "MaterializeTemporaryExpr") and e.get("inner"): e = e["inner"][0]
    return e
def callee_name(ce):
    for n in walk(ce["inner"][0]):
        if n.get("kind") == "DeclRefExpr": return n["referencedDecl"].get("name")
        if n.get("kind") == "MemberExpr": return n.get("name")
    return None
def is_mpz(n):
    q = n.get("type", {}).get("qualType", "") + n.get("type", {}).get("desugaredQualType", "")
    return "mpz_t" in q or "__mpz_struct" in q

class GTr(c2c.Tr):
    """integer expressions (size_t / limb arithmetic) with the GMP query functions and the accessors of poly"""
    def __init__(self, bits, G):
        super().__init__(bits, {}, {}); self.G = G
    def read_lvalue(self, e):
        s = strip(e)
        if s.get("kind") in ("DeclRefExpr", "MemberExpr"):
            nm = s["referencedDecl"]["name"] if s["kind"] == "DeclRefExpr" else s["name"]
            r = self.G.static(nm, s)
            if r is not None: return r
            self.G.use(nm); return nm
        raise Unsupported("lvalue " + s.get("kind", "?"))
    def expr(self, e, k):
        kind = e["kind"]
        if kind in ("ImplicitCastExpr", "CStyleCastExpr") and e.get("castKind") == "LValueToRValue":
            s = strip(e["inner"][0])
            if s.get("kind") == "CXXOperatorCallExpr": return self.G.word_read(s, k)
            return k(self.read_lvalue(s))
        if kind == "DeclRefExpr": return k(self.read_lvalue(e))
        if kind == "CallExpr":
            nm = callee_name(e); a = e["inner"][1:]
            if nm == "get_modulus": self.G.use("P"); return self.expr(a[0], lambda t: k("(tabP P %s)" % t))
            if nm == "__gmpz_sizeinbase":
                if strip(a[1]).get("value") != "2": raise Unsupported("mpz_sizeinbase in a base other than 2")
                return self.G.mpz_read(a[0], lambda x: k("(gmp_sizeinbase2 %s)" % x))
            if nm == "__gmpz_cmp": return self.G.mpz_read(a[0], lambda x: self.G.mpz_read(a[1], lambda y: k("(gmp_cmp %s %s)" % (x, y))))
            if nm == "__gmpz_fdiv_ui":
                v = self.fresh("r")
                return self.G.mpz_read(a[0], lambda x: self.expr(a[1], lambda d: "(bind (gmp_fdiv_ui %s %s) (fun %s => %s))" % (x, d, v, k(v))))
            raise Unsupported("call of " + str(nm))
        return super().expr(e, k)

class Gmp:
    def __init__(self, bits, D, deg, nm):
        self.bits = bits; self.D = D; self.DEG = deg; self.NM = nm; self.tr = GTr(bits, self); self.used = []; self.locals = set()
        self.lt = L.LTr(bits, D, "serial", deg, {}, nm)
    def use(self, nm):
        if nm not in self.used and nm not in self.locals: self.used.append(nm)
    def static(self, name, ref):
        """static constexpr members: degree / nmoduli symbolic, static_log2<nmoduli>::value = Z.log2 nmoduli (probed), other constants numeric"""
        did = ref.get("referencedDecl", {}).get("id")
        d = self.D.by.get(did)
        if d is None or d.get("kind") != "VarDecl" or (d.get("storageClass") != "static" and not d.get("constexpr")): return None
        par = self.D.parent.get(did); pname = par.get("name") if par else None
        if name in ("degree", "nmoduli") and pname in ("poly", "GMP"): self.use(name); return name
        if pname == "static_log2":
            args = [a.get("value") for a in par.get("inner", []) if a.get("kind") == "TemplateArgument"]
            if args and str(args[0]) == str(self.NM): self.use("nmoduli"); return "(Z.log2 nmoduli)"
            raise Unsupported("static_log2 of %r" % (args,))
        init = [c for c in d.get("inner", []) or [] if c.get("kind", "").endswith(("Expr", "Operator", "Literal"))]
        if not init: return None
        return str(self.lt.const(init[-1]))
    # ---- places holding an mpz: a variable, or an element of an array
    def place(self, e):
        s = strip(e)
        if s["kind"] in ("DeclRefExpr", "MemberExpr"):
            return ("var", s["referencedDecl"]["name"] if s["kind"] == "DeclRefExpr" else s["name"], None)
        if s["kind"] == "CXXOperatorCallExpr" and callee_name(s) == "operator[]":
            b = strip(s["inner"][1]); return ("elt", b["name"] if b["kind"] == "MemberExpr" else b["referencedDecl"]["name"], s["inner"][2])
        if s["kind"] == "ArraySubscriptExpr":
            b = strip(s["inner"][0]); return ("elt", b["name"] if b["kind"] == "MemberExpr" else b["referencedDecl"]["name"], s["inner"][1])
        raise Unsupported("mpz place " + s["kind"])
    def mpz_read(self, e, k):
        kind, nm, idx = self.place(e); self.use(nm)
        if kind == "var": return k(nm)
        v = self.tr.fresh("z")
        return self.tr.expr(idx, lambda ti: "(bind (ld %s %s) (fun %s => %s))" % (nm, ti, v, k(v)))
    def mpz_write(self, e, val, k):
        kind, nm, idx = self.place(e)
        if kind == "var":
            if nm not in self.locals: self.use(nm)
            return "(let %s := %s in %s)" % (nm, val, k())
        self.use(nm)
        return self.tr.expr(idx, lambda ti: "(bind (st %s %s %s) (fun %s => %s))" % (nm, ti, val, nm, k()))
    # ---- words of a poly: op(cm, i) is _data[cm * degree + i] (poly::operator())
    def word_index(self, s, k):
        nm = strip(s["inner"][1])["referencedDecl"]["name"]; self.use(nm); self.use("degree")
        return self.tr.expr(s["inner"][2], lambda tc: self.tr.expr(s["inner"][3], lambda ti: k(nm, "(uw 64 ((uw 64 (%s * degree)) + %s))" % (tc, ti))))
    def word_read(self, s, k):
        if callee_name(s) != "operator()": raise Unsupported("operator call " + str(callee_name(s)))
        v = self.tr.fresh("w")
        return self.word_index(s, lambda nm, ix: "(bind (ld %s %s) (fun %s => %s))" % (nm, ix, v, k(v)))
    # ---- which variables a statement list modifies (in order of first modification)
    WRITES = {"__gmpz_init_set_ui", "__gmpz_mul_ui", "__gmpz_init2", "__gmpz_ui_pow_ui", "__gmpz_tdiv_q", "__gmpz_set_ui", "__gmpz_divexact", "__gmpz_invert",
              "__gmpz_mul", "__gmpz_addmul_ui", "__gmpz_tdiv_q_2exp", "__gmpz_submul", "__gmpz_sub"}
    def mods(self, stmts, skip=()):
        out = []
        def add(n):
            if n not in out and n not in skip: out.append(n)
        for st in stmts:
            for n in walk(st):
                k = n.get("kind")
                if k == "CallExpr":
                    nm = callee_name(n)
                    if nm in self.WRITES: add(self.place(n["inner"][1])[1])
                    if nm == "__gmpz_inits":
                        for a in n["inner"][1:]:
                            if strip(a).get("kind") != "CXXNullPtrLiteralExpr": add(self.place(a)[1])
                if k == "BinaryOperator" and n.get("opcode") == "=":
                    l = strip(n["inner"][0])
                    if l["kind"] == "CXXOperatorCallExpr": add(strip(l["inner"][1])["referencedDecl"]["name"])
                    elif l["kind"] in ("MemberExpr", "DeclRefExpr"): add(l["name"] if l["kind"] == "MemberExpr" else l["referencedDecl"]["name"])
                if k == "VarDecl" and is_mpz(n): pass
        return out
    def tup(self, names): return names[0] if len(names) == 1 else "(%s)" % ", ".join(names)
    def pat(self, names): return names[0] if len(names) == 1 else "'(%s)" % ", ".join(names)
    # ---- statements
    def block(self, items, k):
        if not items: return k()
        return self.stmt(items[0], lambda: self.block(items[1:], k))
    def stmt(self, s, k):
        kind = s["kind"]
        if kind in ("ExprWithCleanups",): return self.stmt(s["inner"][0], k)
        if kind == "NullStmt": return k()
        if kind == "CompoundStmt": return self.block(s.get("inner", []) or [], k)
        if kind == "DeclStmt":
            ds = [d for d in s.get("inner", []) if d["kind"] == "VarDecl"]
            def go(i):
                if i == len(ds): return k()
                d = ds[i]; self.locals.add(d["name"])
                if is_mpz(d): return "(let %s := 0 in %s)" % (d["name"], go(i + 1))       # not yet initialised: mpz_init* gives it a value before any use
                if not d.get("inner"): raise Unsupported("uninitialised local " + d["name"])
                return self.tr.expr(d["inner"][-1], lambda t: "(let %s := %s in %s)" % (d["name"], t, go(i + 1)))
            return go(0)
        if kind == "CallExpr":
            nm = callee_name(s); a = s["inner"][1:]; R = self.mpz_read; W = self.mpz_write; E = self.tr.expr
            if nm in ("__gmpz_clear", "__gmpz_clears"): return k()
            if nm == "__gmpz_inits":
                tg = [x for x in a if strip(x).get("kind") != "CXXNullPtrLiteralExpr"]
                def go(i): return k() if i == len(tg) else W(tg[i], "0", lambda: go(i + 1))
                return go(0)
            if nm == "__gmpz_init2": return E(a[1], lambda n: W(a[0], "0", k))
            if nm in ("__gmpz_init_set_ui", "__gmpz_set_ui"): return E(a[1], lambda u: W(a[0], u, k))
            if nm == "__gmpz_mul_ui": return R(a[1], lambda x: E(a[2], lambda u: W(a[0], "(%s * %s)" % (x, u), k)))
            if nm == "__gmpz_ui_pow_ui": return E(a[1], lambda b: E(a[2], lambda e_: W(a[0], "(%s ^ %s)" % (b, e_), k)))
            if nm == "__gmpz_mul": return R(a[1], lambda x: R(a[2], lambda y: W(a[0], "(%s * %s)" % (x, y), k)))
            if nm == "__gmpz_sub": return R(a[1], lambda x: R(a[2], lambda y: W(a[0], "(%s - %s)" % (x, y), k)))
            if nm == "__gmpz_addmul_ui": return R(a[0], lambda r: R(a[1], lambda x: E(a[2], lambda u: W(a[0], "(%s + %s * %s)" % (r, x, u), k))))
            if nm == "__gmpz_submul": return R(a[0], lambda r: R(a[1], lambda x: R(a[2], lambda y: W(a[0], "(%s - %s * %s)" % (r, x, y), k))))
            if nm == "__gmpz_tdiv_q_2exp": return R(a[1], lambda x: E(a[2], lambda n: W(a[0], "(gmp_tdiv_q_2exp %s %s)" % (x, n), k)))
            if nm in ("__gmpz_tdiv_q", "__gmpz_divexact", "__gmpz_invert"):
                f = {"__gmpz_tdiv_q": "gmp_tdiv_q", "__gmpz_divexact": "gmp_divexact", "__gmpz_invert": "gmp_invert"}[nm]; v = self.tr.fresh("q")
                return R(a[1], lambda x: R(a[2], lambda y: "(bind (%s %s %s) (fun %s => %s))" % (f, x, y, v, W(a[0], v, k))))
            raise Unsupported("call of " + str(nm))
        if kind == "BinaryOperator" and s.get("opcode") == "=":
            l = strip(s["inner"][0])
            if l["kind"] == "CXXOperatorCallExpr":      # rop(cm, i) = e
                ety = ctype(l)
                return self.word_index(l, lambda nm, ix: self.tr.expr(s["inner"][1], lambda tv: "(bind (st %s %s %s) (fun %s => %s))" % (nm, ix, tv, nm, k())))
            if l["kind"] in ("MemberExpr", "DeclRefExpr"):
                nm = l["name"] if l["kind"] == "MemberExpr" else l["referencedDecl"]["name"]
                if nm not in self.locals: self.use(nm)
                return self.tr.expr(s["inner"][1], lambda tv: "(let %s := %s in %s)" % (nm, tv, k()))
        if kind == "ForStmt":
            init, _, cond, inc, body = s["inner"]
            vd = [d for d in init.get("inner", []) if d["kind"] == "VarDecl"]
            if init.get("kind") != "DeclStmt" or len(vd) != 1: raise Unsupported("for init")
            var = vd[0]["name"]; lo = self.tr.expr(vd[0]["inner"][-1], lambda x: x)
            if cond.get("kind") != "BinaryOperator" or cond.get("opcode") != "<" or strip(cond["inner"][0]).get("referencedDecl", {}).get("name") != var: raise Unsupported("for condition")
            if not (inc.get("kind") == "UnaryOperator" and inc.get("opcode") == "++" and strip(inc["inner"][0]).get("referencedDecl", {}).get("name") == var): raise Unsupported("for increment")
            hi = self.tr.expr(cond["inner"][1], lambda x: x)
            items = (body.get("inner", []) or []) if body["kind"] == "CompoundStmt" else [body]
            ms = self.mods(items, skip=(var,))
            if var in self.mods(items): raise Unsupported("loop counter modified")
            self.locals.add(var)
            # locals declared inside the body are not part of the loop state
            inner_decl = {d["name"] for it in items for d in walk(it) if d.get("kind") == "VarDecl"}
            ms = [m for m in ms if m not in inner_decl]
            for m in ms:
                if m not in self.locals: self.use(m)
            tb = self.block(items, lambda: "Some %s" % self.tup(ms))
            return "(bind (for_up %s %s 1 (fun %s %s => %s) %s) (fun %s => %s))" % (lo, hi, var, self.pat(ms), tb, self.tup(ms), self.pat(ms), k())
        if kind == "IfStmt":
            parts = s["inner"]
            if len(parts) > 2: raise Unsupported("if/else")
            then = parts[1]; items = (then.get("inner", []) or []) if then["kind"] == "CompoundStmt" else [then]
            ms = self.mods(items)
            for m in ms:
                if m not in self.locals: self.use(m)
            def fin(tc):
                tt = self.block(items, lambda: "Some %s" % self.tup(ms))
                return "(bind (if %s then %s else Some %s) (fun %s => %s))" % (tc, tt, self.tup(ms), self.pat(ms), k())
            return self.tr.expr(parts[0], fin)
        raise Unsupported("statement " + kind)
    def function(self, m, fname):
        body = [c for c in m.get("inner", []) if c.get("kind") == "CompoundStmt"][0]
        items = body.get("inner", []) or []
        outs = [x for x in self.mods(items) if x not in {d["name"] for it in items for d in walk(it) if d.get("kind") == "VarDecl" and not is_mpz(d)}]
        code = self.block(items, lambda: "Some %s" % self.tup(outs))
        ins = [u for u in self.used if u not in self.locals]
        order = ["degree", "nmoduli", "P"]
        ins = [u for u in order if u in ins] + [u for u in ins if u not in order]
        LISTS = {"P", "lifting_integers", "rop", "op", "poly_mpz"}
        sig = " ".join("(%s : %s)" % (u, "list Z" if u in LISTS else "Z") for u in ins)
        return "Definition %s %s :=\n  %s." % (fname, sig, code), outs

def probe_static_log2_all():
    """static_log2<N>::value is floor(log2 N) for every N a number of moduli can take (1..1024)"""
    import subprocess, math
    tu = "#include <nfl/meta.hpp>\n" + "".join("static_assert(nfl::static_log2<%d>::value == %d, \"\");\n" % (n, n.bit_length() - 1) for n in range(1, 1025))
    p = "/tmp/cxxgmp_probe_%d.cpp" % os.getpid(); open(p, "w").write(tu)
    r = subprocess.run(["clang++", "-std=c++11", "-fsyntax-only", "-I%s/include" % REPO, p], stdout=subprocess.PIPE, stderr=subprocess.PIPE, text=True); os.remove(p)
    return r.returncode == 0, r.stderr[-300:]

def one(ct, deg, nm):
    cname, bits = TN[ct]
    tu = ("#include <nfl.hpp>\nvoid force_instantiation(nfl::poly<%s, %d, %d>& a, std::array<mpz_t, %d>& r) { a.poly2mpz(r); a.mpz2poly(r); }\n" % (cname, deg, nm, deg))
    objs = c2c.clang_ast(tu, "nfl", []); D = L.Decls(); D.add(objs)
    found = {}
    for o in objs:
        for n in walk(o):
            if n.get("kind") in ("CXXMethodDecl", "CXXConstructorDecl") and n.get("name") in ("poly2mpz", "mpz2poly", "GMP") and any(b.get("kind") == "CompoundStmt" for b in n.get("inner", [])):
                ps = [x for x in n.get("inner", []) if x.get("kind") == "ParmVarDecl"]
                txt = json.dumps(n)
                if "type-parameter" in txt or "<dependent type>" in txt: continue
                par = D.parent.get(n.get("id"));
                found.setdefault(n["name"] + str(len(ps)), n)
    out = []; index = []
    for key, name in (("GMP0", "gen_gmp_ctor_u%d"), ("poly2mpz2", "gen_poly2mpz_u%d"), ("mpz2poly2", "gen_mpz2poly_u%d")):
        nm_ = name % bits
        try:
            if key not in found: raise Unsupported("%s not found" % key)
            g = Gmp(bits, D, deg, nm); text, outs = g.function(found[key], nm_)
            out.append(("(* %s of poly<%s,.,.>::GMP -- returns (%s) *)" % (key[:-1], cname, ", ".join(outs)), nm_, text)); index.append((nm_, "ok"))
        except Unsupported as ex:
            index.append((nm_, "unsupported: %s" % ex))
    return out, index

def main():
    OUT = sys.argv[2]
    hdr = ["(* GENERATED by tools/cxxgmp2coq.py from include/nfl/gmp.hpp on every run -- do not edit. *)",
           "From Coq Require Import ZArith Bool List.", "From NTT Require Import CxxSem MemSem GmpSem.", "Import ListNotations.", "Local Open Scope Z_scope.", ""]
    ok, err = probe_static_log2_all()
    index = [("static_log2<N> = floor(log2 N) for N = 1..1024", "ok" if ok else "FAILED " + err)]; body = []
    import multiprocessing
    jobs = [(ct, deg, nm) for ct in TN for (deg, nm) in ((16, 2), (64, 3))]
    with multiprocessing.Pool(len(jobs)) as pool: res = pool.starmap(one, jobs)
    R = {(j[0], j[1]): r for j, r in zip(jobs, res)}
    for ct in TN:
        a, ia = R[(ct, 16)]; b, ib = R[(ct, 64)]
        if [t for _, _, t in a] != [t for _, _, t in b] or ia != ib:
            index.append(("gmp/%s" % TN[ct][0], "NOT UNIFORM in degree / number of moduli")); index += [(n_ + " (16,2)", s_) for n_, s_ in ia if s_ != "ok"] + [(n_ + " (64,3)", s_) for n_, s_ in ib if s_ != "ok"]; continue
        for (cm, nm_, t) in a: body += [cm, t, ""]
        index += ia
    if not ok: body = []
    body.append("(* index: " + "; ".join("%s [%s]" % x for x in index) + " *)")
    open(OUT, "w").write("\n".join(hdr + body) + "\n")
    for x in index: print(*x, file=sys.stderr)

if __name__ == "__main__":
    main()
