#!/usr/bin/env python3
# cxxopnodes2coq.py <repo> <out.v>: how the arithmetic / comparison operators of include/nfl/ops.hpp BUILD expression nodes, read from clang's AST
# (uint32_t limbs, serial and AVX2 builds).
#  (1) SHAPES.  For OP in + - * == != and the operand kinds poly/poly, poly/expr, expr/poly, expr/expr (and for shoup(a * b, c)), the TYPE of the
#      expression -- decltype(a OP (b + c)) ... read as the type of a probe variable -- is parsed into the tree of functors it denotes, e.g.
#      "a - (b + c)" : submod(P, addmod(P, P)): the functor of the operator at the root, the operands' trees left and right.
#  (2) ORDER.  Every instantiated operator overload returns make_op<...>(op0, op1) with its two parameters in that order; make_op passes its
#      arguments on in order; _make_op::operator() builds expr<Op, Args...>{args...} in order (the shoup specialisation: the two operands of the
#      product, then the third); expr's constructor initialises its tuple from its parameters in order.
# The trees are listed in gen_op_nodes (OpNodesSpec.v compares them with what the syntax of each expression says); a violated order makes the
# list `unsupported`.
import sys, os, re, multiprocessing
sys.path.insert(0, os.path.dirname(os.path.abspath(__file__)))
REPO = sys.argv[1] if len(sys.argv) > 1 else "/repo"
OUT = sys.argv[2] if len(sys.argv) > 2 else "/dev/stdout"
_argv = sys.argv; sys.argv = [_argv[0], REPO]
import cxx2coq as c2c
sys.argv = _argv
walk = c2c.walk
class Unsupported(Exception): pass
MODES = {"serial": [], "avx2": ["-DNFL_OPTIMIZED", "-DNTT_AVX2", "-mavx2"]}
OPS = (("+", "add"), ("-", "sub"), ("*", "mul"), ("==", "eq"), ("!=", "neq"))
SHAPES = (("pp", "a %s b"), ("pe", "a %s (b + c)"), ("ep", "(a + b) %s c"), ("ee", "(a + b) %s (c - d)"))

def strip(e):
    while e.get("kind") in ("ImplicitCastExpr", "ParenExpr", "ExprWithCleanups", "MaterializeTemporaryExpr", "CXXBindTemporaryExpr", "ConstantExpr") and e.get("inner"): e = e["inner"][0]
    return e

def parse_type(t):
    """expr<F<..>, A, B..> -> F(tree(A), tree(B)..) ; poly<..> -> P"""
    t = t.replace("nfl::", "").replace("ops::", "").replace("simd::", "").strip()
    def split_args(s):
        out = []; d = 0; cur = ""
        for ch in s:
            if ch == "<": d += 1
            if ch == ">": d -= 1
            if ch == "," and d == 0: out.append(cur.strip()); cur = ""
            else: cur += ch
        if cur.strip(): out.append(cur.strip())
        return out
    def go(s):
        s = s.strip()
        if s.startswith("poly<"): return "P"
        m = re.match(r"expr<(.*)>$", s)
        if not m: raise Unsupported("type %s" % s[:60])
        args = split_args(m.group(1))
        f = re.match(r"(\w+)<", args[0])
        if not f: raise Unsupported("functor %s" % args[0][:40])
        return "%s(%s)" % (f.group(1), ", ".join(go(a) for a in args[1:]))
    return go(t)

def order_checks(objs):
    n_ops = n_mk = n_mo = n_ex = 0
    for o in objs:
        for n in walk(o):
            body = [c for c in n.get("inner", []) or [] if c.get("kind") == "CompoundStmt"]
            if not body: continue
            if any(q.get("kind") == "PackExpansionExpr" or "<dependent type>" in q.get("type", {}).get("qualType", "") for q in walk(body[0])): continue    # a template pattern, not an instantiation
            ps = [q for q in n.get("inner", []) if q.get("kind") == "ParmVarDecl"]
            stmts = body[0].get("inner", []) or []
            def args_in_order(call_args):
                return len(call_args) == len(ps) and all(strip(a).get("kind") == "DeclRefExpr" and strip(a)["referencedDecl"].get("id") == p["id"] for a, p in zip(call_args, ps))
            if n.get("kind") == "FunctionDecl" and n.get("name") in ("operator+", "operator-", "operator*", "operator==", "operator!=") and len(ps) == 2 and \
               all(re.search(r"\b(poly|expr)<", p_["type"].get("qualType", "")) for p_ in ps):
                rets = [s for s in stmts if s.get("kind") == "ReturnStmt"]
                if len(rets) != 1: raise Unsupported("%s: body" % n["name"])
                c = strip(rets[0]["inner"][0])
                while c.get("kind") == "CXXConstructExpr" and len(c.get("inner", [])) == 1: c = strip(c["inner"][0])
                if not (c.get("kind") == "CallExpr" and strip(c["inner"][0]).get("referencedDecl", {}).get("name") == "make_op" and args_in_order(c["inner"][1:])): raise Unsupported("%s %s does not return make_op<...>(op0, op1)" % (n["name"], n["type"]["qualType"][:80]))
                n_ops += 1
            elif n.get("kind") == "FunctionDecl" and n.get("name") == "make_op":
                c = strip(stmts[0]["inner"][0]) if len(stmts) == 1 and stmts[0].get("kind") == "ReturnStmt" else {}
                while c.get("kind") == "CXXConstructExpr" and len(c.get("inner", [])) == 1: c = strip(c["inner"][0])
                if not (c.get("kind") == "CXXOperatorCallExpr" and args_in_order(c["inner"][2:])): raise Unsupported("make_op does not pass its arguments on in order")
                n_mk += 1
            elif n.get("kind") == "CXXMethodDecl" and n.get("name") == "operator()" and ps and ps[0].get("name") in ("args", "from0"):
                c = strip(stmts[0]["inner"][0]) if len(stmts) == 1 and stmts[0].get("kind") == "ReturnStmt" else {}
                while c.get("kind") in ("CXXConstructExpr", "CXXFunctionalCastExpr", "CXXTemporaryObjectExpr") and len(c.get("inner", [])) == 1 and strip(c["inner"][0]).get("kind") in ("InitListExpr", "CXXConstructExpr", "CXXTemporaryObjectExpr"): c = strip(c["inner"][0])
                items = c.get("inner", []) or []
                if ps[0].get("name") == "args":
                    if not args_in_order(items): raise Unsupported("_make_op::operator() does not build expr<Op, Args...>{args...} in order")
                else:
                    if not (len(items) == 3 and strip(items[2]).get("kind") == "DeclRefExpr" and strip(items[2])["referencedDecl"].get("id") == ps[1]["id"]): raise Unsupported("shoup specialisation: third operand")
                    g = [strip(items[0]), strip(items[1])]
                    for k, e in enumerate(g):
                        if not (e.get("kind") == "CallExpr" and any(q.get("kind") == "MemberExpr" and q.get("name") == "args" for q in walk(e))): raise Unsupported("shoup specialisation: operand %d" % k)
                        fn = strip(e["inner"][0]); tq = fn.get("type", {}).get("qualType", "") + str(fn.get("referencedDecl", {}).get("type", {}))
                        # std::get<k>: the instantiation's template argument
                        fd = fn.get("referencedDecl", {})
                        if fd.get("name") != "get": raise Unsupported("shoup specialisation: operand %d is not std::get" % k)
                    n_mo += 1; continue
                n_mo += 1
            elif n.get("kind") == "CXXConstructorDecl" and n.get("name") == "expr" and ps and ps[0].get("name") == "args":
                inits = [c for c in n.get("inner", []) if c.get("kind") == "CXXCtorInitializer"]
                if len(inits) != 1: raise Unsupported("expr constructor")
                c = strip(inits[0]["inner"][0])
                while c.get("kind") in ("CXXConstructExpr", "InitListExpr") and len(c.get("inner", [])) == 1 and strip(c["inner"][0]).get("kind") in ("InitListExpr", "CXXConstructExpr"): c = strip(c["inner"][0])
                if not args_in_order(c.get("inner", []) or []): raise Unsupported("expr's constructor does not initialise its tuple from its parameters in order")
                n_ex += 1
    if n_ops < 10 or n_mk < 5 or n_mo < 5 or n_ex < 5: raise Unsupported("too few construction functions found (%d operators, %d make_op, %d _make_op, %d expr constructors)" % (n_ops, n_mk, n_mo, n_ex))
    return n_ops, n_mk, n_mo, n_ex

def one(mode):
    probes = []
    for sym, k in OPS:
        for sk, shape in SHAPES: probes.append(("%s_%s" % (k, sk), shape % sym))
    probes.append(("shoup", "nfl::shoup(a * b, c)"))
    probes.append(("cshoup_p", "nfl::compute_shoup(a)")); probes.append(("cshoup_e", "nfl::compute_shoup(a + b)"))
    tu = ("#include <nfl.hpp>\ntemplate <class X> struct probe_t {};\ntypedef nfl::poly<uint32_t, 16, 2> P;\nvoid force_instantiation(P& a, P& b, P& c, P& d, P& r) {\n" +
          "".join("  probe_t<decltype(%s)> probe_%s; (void)probe_%s;\n" % (e, n, n) for n, e in probes) +
          "  r = a - (b + c); r = (a + b) - c; r = (a + b) - (c - d); r = a - b; r = a * b; r = a + b; r = nfl::shoup(a * b, c);\n  bool t = (a == b) && (a != b) && ((a + b) == c) && (a != (b + c)) && ((a + b) == (c + d)); (void)t;\n}\n")
    try:
        objs = c2c.clang_ast(tu, "force_instantiation", MODES[mode]) + c2c.clang_ast(tu, "nfl", MODES[mode]) + c2c.clang_ast(tu, "operator", MODES[mode])
        types = {}
        for o in objs:
            for n in walk(o):
                if n.get("kind") == "VarDecl" and str(n.get("name", "")).startswith("probe_"):
                    m = re.match(r"probe_t<(.*)>$", n["type"].get("desugaredQualType", "").strip())
                    if m: types[n["name"][6:]] = m.group(1)
        res = []
        for n, e in probes:
            if n not in types: raise Unsupported("type of `%s` could not be probed" % e)
            res.append((e.replace("nfl::", ""), parse_type(types[n])))
        counts = order_checks(objs)
        return mode, res, counts, "ok"
    except Unsupported as ex:
        return mode, None, None, "unsupported: %s" % ex
    except RuntimeError as ex:
        return mode, None, None, "clang: %s" % str(ex)[-200:]

def main():
    with multiprocessing.Pool(2) as pool: res = pool.map(one, list(MODES))
    out = []; index = []
    for mode, r, counts, st in res:
        index.append("gen_op_nodes_%s [%s]" % (mode, st))
        if r is not None:
            out.append("(* order of the operands checked in %d operator overloads, %d make_op, %d _make_op::operator(), %d expr constructors *)" % counts)
            out.append("Definition gen_op_nodes_%s : list (string * string) := (\n  %s :: nil)%%string.\n" % (mode, " ::\n  ".join('("%s", "%s")' % x for x in r)))
    txt = ["(" + "* GENERATED by tools/cxxopnodes2coq.py from include/nfl/ops.hpp -- do not edit.  The expression node each operator builds (read from the TYPE of the", "   expression; P = a polynomial), after checking that every construction function passes its operands on in order. *)",
           "From Coq Require Import String List.", ""] + out + ["(* index: " + "; ".join(index).replace("*)", "* )").replace("(*", "( *") + " *)"]
    open(OUT, "w").write("\n".join(txt) + "\n")
    for i in index: print(i)

if __name__ == "__main__":
    main()
