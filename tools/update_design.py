#!/usr/bin/env python3
# refreshes the seeded-changes table of DESIGN.md from seeded/*/meta.json
import os, subprocess, re
ROOT = os.path.dirname(os.path.dirname(os.path.abspath(__file__)))
tab = subprocess.check_output(["python3", ROOT + "/tools/seed_table.py"]).decode()
p = ROOT + "/DESIGN.md"; s = open(p).read()
s = re.sub(r"<!-- SEED_TABLE_BEGIN -->.*?<!-- SEED_TABLE_END -->", "<!-- SEED_TABLE_BEGIN -->\n" + tab.replace("\\", "\\\\") + "<!-- SEED_TABLE_END -->", s, flags=re.S)
open(p, "w").write(s)
