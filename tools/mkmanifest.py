#!/usr/bin/env python3
# Generates /verif/MANIFEST.json from the table below (so that it is always schema-valid).
import json, os
ROOT = os.path.dirname(os.path.dirname(os.path.abspath(__file__)))
TB = ("Trusted: Coq 8.16.1 kernel + vm_compute (no native_compute); axioms per theorem as printed by Print Assumptions into the evidence "
      "(none declared by this development); ExtrOcamlBasic extraction (no Extract Constant) + ocaml/driver.ml (zarith only for decimal I/O); "
      "the hand-written Gallina model is tied to /repo by the correspondence check (differential run of extracted model vs the library built from the working tree). ")
P = {
 "C06": dict(live=True, cat="proof", technique="Coq proof (vm_compute primality certificates + Euler criterion) over tables regenerated from params.hpp by a translator",
   text="Every row of the three tables, as the C++ compiler evaluates params.hpp on this run, is proved prime of w-2 bits, =1 mod 2*maxdeg, distinct, with root of exact order 2*maxdeg, true n^-1 and Newton quotient (table_valid); corollaries for every degree 2^k<=maxdeg and pairwise coprimality. A changed cell breaks the closed theorem; the failing row/conjunct is then named by an independent numeric re-check.",
   note=TB + "Tie = translator harness/dump_params.cpp (prints the constexpr arrays) re-run every time; MathComp Euler_exp_totient (axiom-free)."),
}
P.update({
 "C01": dict(live=True, cat="proof", technique="Coq proof (DIF NTT = DFT in bit-reversed order, orthogonality, negacyclic multiplicativity) closed over all table rows and degrees + differential correspondence with nfl::poly on 3 back ends",
   text="For every row of the generated tables and every degree 2<=2^k<=maxdeg the executable list-level model of ntt_pow_phi / pointwise product / invntt_pow_invphi (tables built as core::initialize() does, lazy Harvey butterflies with machine-word wrap) is proved to return the schoolbook negacyclic product (transform_ok, conjunct 5); the model is run against the real library (serial, SSE, AVX2; poly with 1..3 moduli; operator* and shoup(a*b,compute_shoup(b)), and a +,-,* circuit) on boundary-directed inputs and every stored word compared, with an independent zarith schoolbook spec.",
   note=TB + "Modelled not verified: the C++ loops (fused last two layers, SIMD unrolled loops) are tied by correspondence only; several moduli = independent per-modulus runs."),
 "C02": dict(live=True, cat="proof", technique="Coq proof (inverse DFT via orthogonality of a principal root, bit-reversal involution) closed over all table rows and degrees + differential correspondence on 3 back ends",
   text="inv(fwd x)=x, fwd(inv y)=y, canonical outputs and additivity are proved for the executable model for every row and every degree (degree 1 separately); correspondence runs fwd, inv, both round trips and linearity on unit vectors, all-(p-1), lazy-boundary patterns and random inputs for degrees 1..64 (quick) / ..1024 (thorough) on serial, SSE, AVX2, all stored words compared. Found and fixed: degree-2 outputs were not canonical.",
   note=TB + "Same model as C01."),
 "C03": dict(live=True, cat="proof", technique="Coq proof of every scalar functor with explicit machine-word wrap (Shoup / Barrett-Newton range lemmas) closed over the generated tables + differential correspondence on 4 builds and every SIMD lane",
   text="addmod, submod, mulmod (division and 64-bit Barrett-Newton), compute_shoup on every word, mulmod_shoup, muladd (both), lazy muladd_shoup are proved exact for every row of the generated tables and all canonical operands (functors_exact); the SSE/AVX2 addmod kernel is proved lane-wise equal to the scalar functor. Correspondence: extracted model vs nfl::ops functors (serial, NFL_OPTIMIZED, SSE, AVX2), cases solved for the comparison boundaries (x+y in {p-1,p,p+1}, x*y = 0,1,p-1, Shoup remainder >= p, words >= p), each vector kernel in a rotating lane with all other lanes cross-checked.",
   note=TB + "16-bit functors go through C++ integer promotion; the model wraps at limb width (equal under the proved preconditions). Vector kernels other than addmod: correspondence only."),
 "C07": dict(live=True, cat="proof", technique="Coq proof by induction over expression trees (functor exactness) + aliasing-tolerant blockwise assignment theorem + differential correspondence over 22 shapes x destinations x poly/poly_p x 3 back ends",
   text="For trees of unbounded depth over canonical leaves the functor chain with machine-word wrap equals exact modular evaluation (eval_exact), shoup(a*b,compute_shoup(b)) needs no side condition, and assignment in blocks of any vector width with the destination aliasing any operand writes the element-wise value on the ORIGINAL operands and nothing else (assign_eval, width-independent). Correspondence: every shape of a 22-entry list x destination in {fresh,a,b,c} x {poly,poly_p} x {assign,construct,add/sub/mul helpers} on serial/SSE/AVX2, all four operands printed after the statement; the compiler's accept/reject relation per (back end, limb, kind) is pinned in expr_table.json.",
   note=TB + "Mode/typing rules (which functor specialisation evaluates which node) are not modelled: they are observable only through accept/reject (pinned table) and through results (compared)."),
 "C08": dict(live=True, cat="proof", technique="Coq proof of the any-of / all-of scans (eq_spec, neq_spec, complementarity, refutation of the pinned any-of ==) + differential correspondence at every position",
   text="a != b <-> some word differs, a == b <-> all words equal, complementary (proved for any length); bool(expr) <-> some non-zero word. Correspondence on 13 comparison shapes (plain, expression on either side, self, shared-handle copy) for pairs equal / differing / equal-exactly-at / differing-exactly-at every position, poly and poly_p, 3 back ends. Found and fixed: a == b was true when ANY residue matched.",
   note=TB + "GCC vector-extension == on __m128i/__m256i compares 64-bit lanes; that is covered by correspondence on the SIMD builds, not by the model."),
 "C04": dict(live=True, cat="proof", technique="Coq proof of the CRT lift (lifting integers, Shoup-style big-integer reduction with one conditional subtraction, uniqueness via Gauss) + differential correspondence with GMP-backed poly2mpz/mpz2poly",
   text="poly2mpz_coef (executable model of GMP::GMP() and poly2mpz: extended-Euclid inverse, lifting integers, accumulate, reduceQ) returns the integer in [0,Q) congruent to every residue, unique for pairwise coprime moduli; mpz2poly stores floor residues for integers of any sign/size; both compositions are proved (v mod Q, identity). Correspondence: residue patterns (all p-1, one-hot, zero, random) and integers (0, Q-1, Q, Q+1, -1, -Q, +-2^700 ...) for 1..15 moduli (quick) / up to 291 and 1000 moduli (thorough) against the model (<= 12 moduli) and an independent zarith CRT; ring add/sub/negacyclic product against big-integer arithmetic in Z_Q[X]/(X^n+1).",
   note=TB + "The theorems carry the hypothesis that every modular inverse was found (all_some (modinvs ps)); it is discharged at run time by the model (None otherwise) and by an Example; GMP's integer semantics are modelled, not verified."),
 "C05": dict(live=True, cat="proof", technique="Coq proofs that modelled vector kernels/loops equal the scalar ones (addmod lanes, layer nth-characterisation, width-independent assignment) + exhaustive-by-construction cross-build differential (serial/NFL_OPTIMIZED/SSE/AVX2) on one workload",
   text="The same case files (functors in every lane, transforms, products, circuits, 22 expression shapes, 13 comparison shapes, CRT, serialised evaluation-form data written by one build and consumed by the others) run through the three/four builds and must agree word for word; each family is additionally tied to the Coq model by C01/C02/C03/C07/C08.",
   note=TB + "Only the addmod vector kernel and the layer/assignment structure are proved equal to scalar code; mulmod_shoup/muladd_shoup vector kernels and the unrolled NTT loops are covered by the differential (real intrinsics on this CPU)."),
 "C15": dict(live=True, cat="proof", technique="Coq proof of the setter loop (iterator rewind, reduce/verbatim, zero fill, throw) for all lengths + differential correspondence over every length 0..n*nm+2",
   text="set_list is the literal loop of poly::set / set_mpz; the three documented cases (k<=n, k=n*nm, otherwise throw with the polynomial untouched) and the reduction rule are proved for all n, nm, lists. Correspondence: every length 0..n*nm+2 for small configurations x {iterator range, pointer range, std::array, constructor} x reduce on/off x poly/poly_p, values 0,p-1,p,2^w-1, big integers of both signs up to 2^700, scalar set/assign; stored words, thrown or not, content after a throw.",
   note=TB),
 "C16": dict(live=True, cat="proof", technique="Coq proof of raw (de)serialisation incl. truncated streams (overlay model of istream::read) + differential correspondence at every truncation offset under ASan, cereal archives compared byte for byte",
   text="deserialize (serialize ws ++ rest) = (ws, rest, ok), exact length, little-endian limbs, every truncation fails, and after a short read the object holds restored-prefix ++ old-suffix (so nothing outside is written). Correspondence: raw writer/reader, back-to-back streams, truncation at every byte offset with guard objects on both sides under AddressSanitizer, cereal binary / portable binary / JSON archives written and re-read, text form; poly and poly_p.",
   note=TB + "Partial: cereal and the text printer are compared with driver-side models, nothing is proved about them (parse-back theorem for the text form not yet proved)."),
 "C13": dict(live=True, cat="proof", technique="Coq proof over request histories of the generator state machine (nonce = request number, one seeding) on top of a Gallina Salsa20/20 + differential correspondence with the repository's assembly",
   text="For every history of fewer than 2^64 requests, request i returns firstn len_i of stream(key, LE64 i) (history_correct), nonces are pairwise distinct, the key is drawn once, the stream is prefix-consistent and the write touches only [off,off+len). Partial: the qhasm assembly is compared with the Gallina Salsa20 (763 requests incl. lengths 0,1,63,64,65,...,multi-block, 20 kB; thorough: > 2^20 bytes and 12 000 consecutive requests), not proved.",
   note=TB + "Partial: assembly compared, not verified. One process per history (static generator state)."),
 "C14": dict(live=True, cat="proof", technique="Coq refinement proof (copy-on-write heap of reference-counted cells refines plain values, for all operation sequences; no leak, no double free) + bounded-exhaustive and random operation sequences under ASan/LSan",
   text="run_refines: for every operation sequence respecting the moved-from discipline the observable value of each handle equals the value-semantics run, with count = number of handles and each cell freed at most once. Correspondence: all sequences of length <= 2 after a shared pair and <= 3 from the empty state (thorough: 3 / 4) over create/copy-construct/copy-assign/move-construct/move-assign/self-assign/element write/const read/transform/scalar and list assignment/expression assignment/compare/destroy on three handles, plus long random sequences; values AND sharing classes compared after every step; sanitizer report = violation.",
   note=TB + "shared_ptr semantics trusted; sharing observed via address equality."),
 "C18": dict(live=True, cat="proof", technique="Coq invariant proof over all schedules of an interleaving model (one-time seeding + atomic counter) + schedule-driven correspondence through NFLLIB_VERIF hook points + free-running / TSan stress",
   text="For every thread count, program and schedule of the model: handed-out nonces are exactly 0..ctr-1 (gap-free), no two requests share one, the key is seeded at most once. The real fastrandombytes.cpp is driven through its hook points by a cooperative scheduler over ALL schedule prefixes of length 9 (2 threads x 2 requests) and 6 (3 x 1) plus random ones; the nonce of each request is identified from the returned bytes and compared with the model; free-running stress on 2..16 threads checks the nonce set is [0,N). Found and fixed: the pinned code reused nonces under threads.",
   note=TB + "fetch_add atomicity and C++11 thread-safe static initialisation are trusted; real data races only observable at run time (TSan stress in the thorough tier)."),
 "C19": dict(live=True, cat="proof", technique="Coq proof by induction over OS event lists (all fault sequences, all call sequences) + fault enumeration against the real randombytes.cpp under a scripted OS",
   text="randombytes_correct / calls_correct: on every event list on which the calls complete the output is exactly the delivered bytes in order, total xlen, at most one successful open ever. Correspondence: randombytes.cpp textually included with open/read/sleep scripted; all fault sequences up to length 4 (thorough 6) over {open fails, -1, 0, short 1, short k-1, full}, multi-call histories, exhausted scripts (must stay blocked), the 2^20 chunk limit; bytes, read sizes, opens, sleeps compared.",
   note=TB + "Progress (fuel adequacy) is not stated as a theorem; an OS returning more than asked is outside the model."),
 "C09": dict(live=True, cat="proof", technique="Coq proofs about the per-word decoders of every sampler (canonical range, one signed value across all moduli) + tape-driven differential correspondence",
   text="uniform: any word decodes into [0,p); bounded with amplifier, ternary, Gaussian wrapper: the stored word is (signed value) mod p for every modulus with the value bound stated; refutation of the pinned p+1 encoding. Correspondence: nfl::fastrandombytes replaced at link time by a scripted tape; boundary words (mask, p-1, p, p+1, 2B-2, 2B-1, B-1, B, all-ones), every byte value x thresholds, random index/sign tapes for every weight; the implementation's own output is checked for canonicity and cross-modulus consistency, and compared word for word with the extracted model. Found and fixed: +1 stored as p+1.",
   note=TB + "Hypothesis A*(B-1) < p for the amplified bounded sampler (the code does not check it). Setters from constants/lists/big integers are covered by C15; the Gaussian wrapper's correspondence by C10/C11."),
 "C12": dict(live=True, cat="proof", technique="Coq proofs of preimage counts (uniform, ternary by finite vm_compute sweep, rejection step) and of reservoir-sampling uniformity for all (h,m) + exhaustive tape enumeration against the formulas",
   text="Uniform: residue r has exactly the preimages r, r+p; ternary: for all 256 thresholds #non-zero = rho+1, imbalance <= 2, 0 for 0x7F; reservoir sampling: every h-subset occurs m! times over all draw tuples (all h, m); rejection step uniform on [0,k]. Exhaustive enumeration on the real code: all 2^16 words through both 16-bit moduli, every masked word for each (B,A), all 256 bytes per threshold, every reduced index tape for every (n,h) with n in {2,4,8} (thorough: up to 40 320 tapes) - measured multiplicities must equal the proved formulas. Found and fixed: reservoir index drawn from [0,k).",
   note=TB + "The slot-array -> subset refinement of hwt_dist is tied by exhaustive enumeration for n <= 8, not proved in general."),
 "C17": dict(live=True, cat="proof", technique="Coq determinism theorem over all schedules of the interleaving model (disjoint footprints) + static-state audit of the binary + table digests + multi-threaded workload vs sequential under ThreadSanitizer",
   text="C17_deterministic: for all programs of well-behaved operations with pairwise disjoint footprints and all schedules, each thread ends with its sequential result. The gap between model and code (an operation that writes shared state) is checked on the binary: nm audit of every writable nfl symbol against the modelled set (poly::base, poly::gmp and their guards; generator state belongs to C18), digests of base/gmp before and after, and a 2..16-thread workload (construct, +,-,*, shoup, transforms, ==, big-integer conversion both ways, serialise, poly_p) whose per-thread digests must equal the sequential ones, also under TSan.",
   note=TB + "Partial: real data races are run-time phenomena; TSan + audit are supporting evidence for the model's footprint assumption."),
})
ALL = ["C%02d" % i for i in range(1, 20)]
checks, na = [], []
for pid in ALL:
    e = P.get(pid)
    if not e or not e.get("live"):
        na.append({"property_id": pid, "reason": (e or {}).get("na", "check not yet wired into ./check in this revision (core theorem exists in /verif/coq; see DESIGN.md status map)")})
        continue
    checks.append({
        "property_id": pid,
        "quick_cmd": "./check %s quick" % pid,
        "thorough_cmd": "./check %s thorough" % pid,
        "evidence_file": "/verif/evidence/%s.json" % pid,
        "replay_cmd_template": "./check %s --replay {path}" % pid,
        "engine": "coq-proof+correspondence",
        "level_claimed": {"category": e["cat"], "text": e["text"], "design_ref": "DESIGN.md section 5, " + pid},
        "level_note": e["note"],
        "technique": e["technique"],
    })
m = {
 "version": 1,
 "setup_cmd": "./setup.sh",
 "hooks": {"guard": "NFLLIB_VERIF", "enable": "harnesses that need hooks are compiled with -DNFLLIB_VERIF by ./check (only C18)",
           "baseline_off_cmd": "cmake -S /repo -B /repo/_build >/dev/null && cmake --build /repo/_build -j8 >/dev/null && ctest --test-dir /repo/_build -j8 --timeout 900",
           "source_commits": ["d18a1f3"], "add_only": True},
 "engines": [{"name": "coq-proof+correspondence", "path": "/verif/check", "serves_properties": [c["property_id"] for c in checks],
              "kind_free_text": "Rocq/Coq 8.16 theorems over hand-written executable Gallina models (coq/), params tables regenerated by a translator, extracted OCaml model run against the real library built from /repo on every run"}],
 "checks": checks,
 "not_applicable": na,
 "notes": "Single entry point ./check <Cnn> [quick|thorough]. known_findings.json lists recorded/fixed defects. See DESIGN.md.",
}
json.dump(m, open(os.path.join(ROOT, "MANIFEST.json"), "w"), indent=1)
print("checks:", [c["property_id"] for c in checks], "na:", len(na))
