#!/usr/bin/env python3
# cxxlayout2coq.py <repo> <out.v>: the storage layout of class poly (include/nfl/poly.hpp) read from clang's AST for the three limb types:
#   - the only data member is `T _data[N]` (aligned), N initialised with `Degree * NbModuli`, `degree = Degree`, `nmoduli = NbModuli`;
#   - operator()(cm, i), const and non-const, returns `_data[INDEX]`, INDEX translated by the general expression translator (unsigned wrap-around);
#   - begin / cbegin are std::begin(_data), end / cend are std::end(_data)  (the iterators run over exactly the N stored words, in storage order);
#   - the cereal hook archives `_data` and nothing else.
import sys, os, re, multiprocessing
sys.path.insert(0, os.path.dirname(os.path.abspath(__file__)))
REPO = sys.argv[1] if len(sys.argv) > 1 else "/repo"
OUT = sys.argv[2] if len(sys.argv) > 2 else "/dev/stdout"
_argv = sys.argv; sys.argv = [_argv[0], REPO]
import cxx2coq as c2c
sys.argv = _argv
from cxx2coq import Unsupported, walk
TN = {"unsigned short": ("uint16_t", 16), "unsigned int": ("uint32_t", 32), "unsigned long": ("uint64_t", 64)}

def strip(e):
    while e.get("kind") in ("ImplicitCastExpr", "ParenExpr", "ExprWithCleanups", "MaterializeTemporaryExpr", "ConstantExpr") and e.get("inner"): e = e["inner"][0]
    return e
def need(c, what):
    if not c: raise Unsupported(what)
def tparam(e):
    e = strip(e)
    if e.get("kind") != "SubstNonTypeTemplateParmExpr": return None
    nm = [c.get("name") for c in e.get("inner", []) if c.get("kind") == "NonTypeTemplateParmDecl"]
    return nm[0] if nm else None
def is_data(e):
    e = strip(e); return e.get("kind") == "MemberExpr" and e.get("name") == "_data" and strip(e["inner"][0]).get("kind") == "CXXThisExpr"

class ITr(c2c.Tr):
    def __init__(self): super().__init__(64, {}, {}); self.env = {"cm": "cm", "i": "i", "degree": "degree"}
    def read_lvalue(self, e):
        kind, name = self.lvalue_name(e)
        if kind != "var" or name not in self.env: raise Unsupported("variable %s" % name)
        return self.env[name]

def one(ct):
    cname, bits = TN[ct]; name = "gen_index_u%d" % bits
    tu = ("#include <nfl.hpp>\n#include <cereal/archives/binary.hpp>\ntypedef nfl::poly<%s, 16, 2> P;\nunsigned long force_instantiation(P& a, P const& b, cereal::BinaryOutputArchive& ar) { unsigned long s = a(1,2) + b(1,2); for (auto v : a) s += v; for (auto v : b) s += v; s += *a.cbegin() + (a.cend() - a.cbegin()); ar(a); return s; }\n" % cname)
    try:
        objs = c2c.clang_ast(tu, "nfl", [])
        cls = None
        for o in objs:
            for n in walk(o):
                if n.get("kind") == "ClassTemplateSpecializationDecl" and n.get("name") == "poly" and any(c.get("kind") == "CXXMethodDecl" and c.get("name") == "operator()" and any(x.get("kind") == "CompoundStmt" for x in c.get("inner", [])) for c in n.get("inner", [])): cls = n
        need(cls is not None, "class poly not found")
        mem = cls.get("inner", [])
        fields = [c for c in mem if c.get("kind") == "FieldDecl"]
        need([f.get("name") for f in fields] == ["_data"], "data members other than _data: %s" % [f.get("name") for f in fields])
        need(re.fullmatch(re.escape(ct) + r"\[32\]", fields[0]["type"]["qualType"].strip()) is not None, "_data is not T[N] (N = 32 here): %s" % fields[0]["type"]["qualType"])
        need(any(c.get("kind") == "AlignedAttr" for c in fields[0].get("inner", [])), "_data is not aligned")
        def var(nm): 
            r = [c for c in mem if c.get("kind") == "VarDecl" and c.get("name") == nm]; need(len(r) == 1 and r[0].get("inner"), "static constexpr %s" % nm); return r[0]
        e = strip(var("N")["inner"][0])
        need(e.get("kind") == "BinaryOperator" and e.get("opcode") == "*" and tparam(e["inner"][0]) == "Degree" and tparam(e["inner"][1]) == "NbModuli", "N = Degree * NbModuli")
        need(tparam(var("degree")["inner"][0]) == "Degree", "degree = Degree"); need(tparam(var("nmoduli")["inner"][0]) == "NbModuli", "nmoduli = NbModuli")
        idx = []
        for m in mem:
            if m.get("kind") == "CXXMethodDecl" and m.get("name") == "operator()":
                b = [x for x in m.get("inner", []) if x.get("kind") == "CompoundStmt"]; need(b, "operator() without body")
                st = b[0].get("inner", []) or []
                need(len(st) == 1 and st[0].get("kind") == "ReturnStmt", "operator() body")
                a = strip(st[0]["inner"][0])
                need(a.get("kind") == "ArraySubscriptExpr" and is_data(a["inner"][0]), "operator() does not return _data[...]")
                ps = [q for q in m["inner"] if q.get("kind") == "ParmVarDecl"]
                need([p["name"] for p in ps] == ["cm", "i"] and all(c2c.ctype(p) == (0, 64) for p in ps), "operator()(size_t cm, size_t i)")
                idx.append(ITr().expr(a["inner"][1], lambda t: t))
        need(len(idx) == 2 and idx[0] == idx[1], "the const and the non-const operator() index differently")
        for nm, fn in (("begin", "begin"), ("end", "end"), ("cbegin", "begin"), ("cend", "end")):
            ms = [m for m in mem if m.get("kind") == "CXXMethodDecl" and m.get("name") == nm and any(x.get("kind") == "CompoundStmt" for x in m.get("inner", []))]
            need(len(ms) >= 1, "%s() not instantiated" % nm)
            for m in ms:
                st = [x for x in m["inner"] if x.get("kind") == "CompoundStmt"][0].get("inner", []) or []
                need(len(st) == 1 and st[0].get("kind") == "ReturnStmt", "%s() body" % nm)
                c = strip(st[0]["inner"][0])
                need(c.get("kind") == "CallExpr" and strip(c["inner"][0]).get("referencedDecl", {}).get("name") == fn and len(c["inner"]) == 2 and is_data(c["inner"][1]), "%s() is not std::%s(_data)" % (nm, fn))
        # cereal hook
        sers = [q for c in mem if c.get("kind") == "FunctionTemplateDecl" and c.get("name") == "serialize" for q in c.get("inner", []) if q.get("kind") == "CXXMethodDecl" and any(x.get("kind") == "CompoundStmt" for x in q.get("inner", []))]
        need(sers, "serialize(Archive&) not instantiated")
        for m in sers:
            st = [x for x in m["inner"] if x.get("kind") == "CompoundStmt"][0].get("inner", []) or []
            need(len(st) == 1, "serialize body")
            c = strip(st[0])
            need(c.get("kind") == "CXXOperatorCallExpr" and len(c["inner"]) == 3 and strip(c["inner"][1]).get("referencedDecl", {}).get("name") == "archive" and is_data(c["inner"][2]), "serialize is not archive(_data)")
        return name, "Definition %s (degree cm i : Z) : Z := %s." % (name, idx[0]), "ok"
    except Unsupported as ex:
        return name, None, "unsupported: %s" % ex
    except RuntimeError as ex:
        return name, None, "clang: %s" % str(ex)[-200:]

def main():
    with multiprocessing.Pool(3) as pool: res = pool.map(one, list(TN))
    out = []; index = []
    for name, text, st in res:
        index.append("%s [%s]" % (name, st))
        if text: out.append(text)
    txt = ["(" + "* GENERATED by tools/cxxlayout2coq.py from include/nfl/poly.hpp -- do not edit.  The index of coefficient i of modulus cm in the one array `T _data[Degree * NbModuli]`", "   (operator()(cm, i)); begin()/end() = std::begin/end(_data); the cereal hook archives _data. *)",
           "From Coq Require Import ZArith.", "From NTT Require Import CxxSem.", "Local Open Scope Z_scope.", ""] + out + ["", "(* index: " + "; ".join(index).replace("*)", "* )").replace("(*", "( *") + " *)"]
    open(OUT, "w").write("\n".join(txt) + "\n")
    for i in index: print(i)

if __name__ == "__main__":
    main()
