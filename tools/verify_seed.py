#!/usr/bin/env python3
# verify_seed.py <seed_dir> <check ids,comma> : confirms a seeded breaking change independently and runs our checks against it.
#  1. scratch worktree of /repo HEAD; demo must PASS on the clean tree
#  2. apply patch.diff; demo must FAIL; the repository's own suite must still pass (132)
#  3. run ./check <id> quick with VERIF_REPO=<scratch> and a private VERIF_WORK; record VIOLATION lines
#  4. store everything under /verif/seeded/<name>/ ; remove the scratch worktree and work dir
import sys, os, re, json, subprocess, shutil, time
ROOT = os.path.dirname(os.path.dirname(os.path.abspath(__file__)))
seed = os.path.abspath(sys.argv[1]); checks = sys.argv[2].split(",")
name = os.path.basename(seed.rstrip("/"))
wt = "/tmp/seedchk_" + name; work = "/tmp/seedwork_" + name
def sh(cmd, **kw):
    p = subprocess.run(cmd, shell=True, stdout=subprocess.PIPE, stderr=subprocess.STDOUT, text=True, errors="replace", **kw)
    return p.returncode, p.stdout
sh("git -C /repo worktree remove --force %s 2>/dev/null; rm -rf %s %s" % (wt, wt, work))
rc, out = sh("git -C /repo worktree add -q --detach %s HEAD" % wt)
assert rc == 0, out
res = {"name": name, "checks": {}}
try:
    demo = os.path.join(seed, "demo.cpp"); demosh = os.path.join(seed, "demo.sh")
    src = open(demo).read() if os.path.exists(demo) else ""
    flags = []
    head = src[:3000] + (open(demosh).read() if os.path.exists(demosh) else "")
    # flags come from the compile line(s) only when the demo gives one (prose in the header may mention flags that were merely tried)
    def joincmd(t):
        # a compile command may run over several comment lines (with or without a trailing backslash): join the lines after a `g++` line
        # until the one that names the output (-o)
        t = re.sub(r"\\\n\s*(//|#)?", " ", t); ls = t.split("\n"); out = []; i = 0
        while i < len(ls):
            l = ls[i]
            if "g++" in l and " -o" not in l:
                j = i + 1
                while j < len(ls) and j <= i + 4 and re.match(r"\s*(//|#|\*)", ls[j]) and " -o" not in l:
                    l += " " + re.sub(r"^\s*(//|#|\*)\s*", "", ls[j]); j += 1
                i = j - 1
            out.append(l); i += 1
        return "\n".join(out)
    _hl = joincmd(head)
    _cl = " ".join(re.findall(r"g\+\+[^\n]*", _hl))
    full_head = head
    if _cl: head = _cl
    if "-mavx2" in head: flags += ["-DNFL_OPTIMIZED", "-DNTT_AVX2", "-mavx2"]
    elif "-msse4.2" in head: flags += ["-DNFL_OPTIMIZED", "-DNTT_SSE", "-msse4.2"]
    elif "-DNFL_OPTIMIZED" in head: flags += ["-DNFL_OPTIMIZED"]
    if "pthread" in head: flags += ["-pthread"]
    if "-fsanitize=address" in head: flags += ["-fsanitize=address", "-g"]
    if "-fsanitize=thread" in head: flags += ["-fsanitize=thread", "-g"]
    for m in re.findall(r"-D[A-Z_]+(?:=\w+)?", head):
        if m not in flags and m not in ("-DNFL_OPTIMIZED", "-DNTT_AVX2", "-DNTT_SSE", "-DCMAKE_BUILD_TYPE=RelWithDebInfo"): flags.append(m)
    wrap = re.findall(r"-Wl,--wrap=[\w,=\-]+", head)
    flags += wrap
    def build_run(tag):
        if os.path.exists(demosh):
            # the agent's script refers to its own worktree: point it at ours
            import re as _re
            tmpd = "/tmp/seeddemo_%s_%s_dir" % (name, tag); shutil.rmtree(tmpd, ignore_errors=True); shutil.copytree(seed, tmpd)
            txt = _re.sub(r"/tmp/wt_C\d\d(?!_)", wt, open(os.path.join(tmpd, "demo.sh")).read())
            txt = _re.sub(r"/tmp/wt_C\d\d_scratch", tmpd, txt)
            open(os.path.join(tmpd, "demo.sh"), "w").write(txt)
            r = sh("sh demo.sh", cwd=tmpd, timeout=900); shutil.rmtree(tmpd, ignore_errors=True); return r
        exe = "/tmp/seeddemo_%s_%s" % (name, tag)
        # link exactly the library sources the demo's own compile line mentions (demos that supply their own
        # nfl::randombytes / nfl::fastrandombytes leave the corresponding file out)
        hl = joincmd(head)
        hl = " ".join(re.findall(r"g\+\+[^\n]*", hl)) if "g++" in hl else hl       # only the compile line(s), not prose
        mentions = lambda f: (f in hl)
        # a demo may name the agent's worktree by absolute path inside the source (e.g. #include "/tmp/wt_C13/lib/..."): build a copy pointing at ours
        demo_src = demo
        if re.search(r"/tmp/wt_C\d\d(?!_)", src):
            demo_src = "/tmp/seeddemo_%s_%s_src.cpp" % (name, tag)
            open(demo_src, "w").write(re.sub(r"/tmp/wt_C\d\d(?!_)", wt, src))
        parts = [demo_src]
        if mentions("params.cpp") or "g++" not in hl: parts.append("%s/lib/params/params.cpp" % wt)
        if mentions("fastrandombytes.cpp") or "g++" not in hl: parts.append("%s/lib/prng/fastrandombytes.cpp" % wt)
        if re.search(r"(?<!fast)randombytes\.cpp", hl) or "g++" not in hl: parts.append("%s/lib/prng/randombytes.cpp" % wt)
        if mentions("salsa20_amd64_xmm6.s") or "g++" not in hl: parts.append("%s/lib/prng/nfl_crypto_stream_salsa20_amd64_xmm6.s" % wt)
        srcs = " ".join(parts)
        cmd = "g++ -std=c++11 -O1 -w %s -I%s/include -I%s/include/nfl -I%s/include/nfl/prng -I%s/tests %s -lgmpxx -lgmp -lmpfr -o %s" % (" ".join(flags), wt, wt, wt, wt, srcs, exe)
        rc, out = sh(cmd, timeout=600)
        if rc != 0: return -99, "COMPILE FAILED: " + out[-1500:]
        rc, out = sh(exe, timeout=900, cwd=seed)
        os.remove(exe)
        return rc, out[-1500:]
    rc0, out0 = build_run("clean")
    res["demo_clean"] = {"rc": rc0, "tail": out0[-400:]}
    rc, out = sh("git -C %s apply %s/patch.diff" % (wt, seed))
    if rc != 0:
        # the patch was made against an earlier HEAD (before one of the fix: commits): three-way apply, then keep the rebased diff
        rc, out = sh("git -C %s apply -3 %s/patch.diff && git -C %s reset -q" % (wt, seed, wt))
        res["patch_rebased"] = (rc == 0)
    res["patch_applies"] = (rc == 0)
    if rc != 0: res["patch_error"] = out[-500:]
    rebased_diff = sh("git -C %s diff" % wt)[1] if res["patch_applies"] else None
    rc1, out1 = build_run("patched")
    res["demo_patched"] = {"rc": rc1, "tail": out1[-600:]}
    # the repository's own suite on the patched tree
    b = "/tmp/seedsuite_" + name
    sh("rm -rf %s; cmake -G Ninja -S %s -B %s -DCMAKE_BUILD_TYPE=RelWithDebInfo; cmake --build %s -j16" % (b, wt, b, b), timeout=1800)
    # build every test binary in ONE ninja invocation (parallel `cmake --build` calls from ctest -j race on the ninja log)
    sh("ninja -C %s -j16 $(ctest --test-dir %s -N -R '^run_' | sed -n 's/.*: run_//p')" % (b, b), timeout=1800)
    rc, out = sh("ctest --test-dir %s -j8 --timeout 900 | tail -6" % b, timeout=1800)
    m = re.search(r"(\d+)% tests passed, (\d+) tests failed out of (\d+)", out)
    res["suite"] = m.group(0) if m else out[-300:]
    shutil.rmtree(b, ignore_errors=True)
    for cid in checks:
        t0 = time.time()
        env = dict(os.environ, VERIF_REPO=wt, VERIF_WORK=work)
        p = subprocess.run([os.path.join(ROOT, "check"), cid, "quick"], cwd=ROOT, env=env, stdout=subprocess.PIPE, stderr=subprocess.STDOUT, text=True, errors="replace", timeout=3600)
        lines = [l for l in p.stdout.split("\n") if l.startswith("VIOLATION") or l.startswith("  ->") or l.startswith("OK ") or l.startswith("ERROR") or l.startswith("KNOWN")]
        res["checks"][cid] = {"rc": p.returncode, "wall_s": round(time.time() - t0), "lines": [l[:400] for l in lines[:8]]}
    res["confirmed"] = bool(res["patch_applies"] and rc0 == 0 and rc1 not in (0, -99) and m and m.group(2) == "0")
    res["detected"] = any(v["rc"] == 1 for v in res["checks"].values())
finally:
    sh("git -C /repo worktree remove --force %s" % wt); shutil.rmtree(work, ignore_errors=True); shutil.rmtree(wt, ignore_errors=True)
dst = os.path.join(ROOT, "seeded", name); os.makedirs(dst, exist_ok=True)
for f in os.listdir(seed):
    if os.path.isfile(os.path.join(seed, f)) and os.path.getsize(os.path.join(seed, f)) < 300000: shutil.copy(os.path.join(seed, f), dst)
meta = {}
try: meta = json.load(open(os.path.join(seed, "meta.json")))
except Exception as e: meta = {"meta_parse_error": str(e)}
if res.get("patch_rebased") and rebased_diff:
    shutil.copy(os.path.join(seed, "patch.diff"), os.path.join(dst, "patch.orig.diff"))
    open(os.path.join(dst, "patch.diff"), "w").write(rebased_diff)
meta["verification"] = res
json.dump(meta, open(os.path.join(dst, "meta.json"), "w"), indent=1)
print(json.dumps({"name": name, "confirmed": res.get("confirmed"), "detected": res.get("detected"), "suite": res.get("suite"),
                  "demo_clean_rc": res["demo_clean"]["rc"], "demo_patched_rc": res["demo_patched"]["rc"],
                  "checks": {k: (v["rc"], v["lines"][:2]) for k, v in res["checks"].items()}}, indent=1))
