#!/usr/bin/env python3
# cxxexprbool2coq.py <repo> <out.v>: ops::expr<Op, Args...>::operator bool() of include/nfl/ops.hpp -- the conversion behind `a == b`, `a != b`
# and `if (expression)` -- read from clang's AST at the instantiations  poly == poly,  poly != poly,  poly - poly  for the three limb types
# and the three builds.  The function is matched structurally against the loop nest
#     for (cm = 0; cm < nmoduli; ++cm) { for (j = 0; j < vector_bound; j += vector_size) { T tmp[vector_size]; store(tmp, load<simd_mode>(cm, j));
#        for (k = 0; k < vector_size; ++k) if (REQ ? !tmp[k] : !!tmp[k]) return !REQ; } } return REQ;
# (REQ = bool_requires_all<Op>::value, vector_bound = degree / vector_size * vector_size with the static_assert vector_bound == degree)
# and emitted as ExprSem.scan REQ VS degree nmoduli val, where VS is read from the type of tmp and REQ is probed per operator through
# template argument deduction (probe<bool_requires_all<Op>::value>), val cm i being the value the expression has at (cm, i) (C07's subject).
import sys, os, re, multiprocessing
sys.path.insert(0, os.path.dirname(os.path.abspath(__file__)))
REPO = sys.argv[1] if len(sys.argv) > 1 else "/repo"
OUT = sys.argv[2] if len(sys.argv) > 2 else "/dev/stdout"
_argv = sys.argv; sys.argv = [_argv[0], REPO]
import cxx2coq as c2c
sys.argv = _argv
walk = c2c.walk

class Unsupported(Exception): pass
MODES = {"serial": [], "sse": ["-DNFL_OPTIMIZED", "-DNTT_SSE", "-msse4.2"], "avx2": ["-DNFL_OPTIMIZED", "-DNTT_AVX2", "-mavx2"]}
TN = {"unsigned short": ("uint16_t", 16), "unsigned int": ("uint32_t", 32), "unsigned long": ("uint64_t", 64)}
OPS = (("eq", "eqmod", "a == b"), ("neq", "neqmod", "a != b"), ("sub", "submod", "a - b"))

def strip(e):
    while e.get("kind") in ("ImplicitCastExpr", "ParenExpr", "ConstantExpr", "ExprWithCleanups", "MaterializeTemporaryExpr", "CXXBindTemporaryExpr") and e.get("inner"):
        e = e["inner"][0]
    return e
def ref(e): return strip(e).get("referencedDecl", {})

def one(mode, ct):
    cname, bits = TN[ct]; res = []
    tu = ("#include <nfl.hpp>\ntemplate <bool B> struct probe_req {};\ntypedef nfl::poly<%s, 64, 2> P;\n" % cname +
          "bool force_instantiation(P& a, P& b) { bool r = false; if (a == b) r = !r; if (a != b) r = !r; if (a - b) r = !r;\n" +
          "".join("  probe_req<nfl::ops::bool_requires_all<nfl::ops::%s<%s, CC_SIMD>>::value> probe_%s; (void)probe_%s;\n" % (o, cname, k, k) for k, o, _ in OPS) + "  return r; }\n")
    try:
        objs = c2c.clang_ast(tu, "", MODES[mode]) if False else c2c.clang_ast(tu, "force_instantiation", MODES[mode]) + c2c.clang_ast(tu, "nfl", MODES[mode])
    except RuntimeError as ex:
        return [("gen_expr_bool_%s_%s_u%d" % (k, mode, bits), None, "clang: %s" % str(ex)[-200:]) for k, _, _ in OPS]
    # REQ per operator, from the type of the probe variables
    req = {}
    for o in objs:
        for n in walk(o):
            if n.get("kind") == "VarDecl" and str(n.get("name", "")).startswith("probe_"):
                m = re.search(r"probe_req<(true|false)>", n["type"].get("qualType", "") + " " + n["type"].get("desugaredQualType", ""))
                if m: req[n["name"][6:]] = (m.group(1) == "true")
    for k, opname, _ in OPS:
        name = "gen_expr_bool_%s_%s_u%d" % (k, mode, bits)
        try:
            if k not in req: raise Unsupported("bool_requires_all could not be probed")
            fn = None
            for o in objs:
                for n in walk(o):
                    if n.get("kind") == "CXXConversionDecl" and "operator bool" in n.get("name", "") and any(c.get("kind") == "CompoundStmt" for c in n.get("inner", [])):
                        th = [q for q in walk(n) if q.get("kind") == "CXXThisExpr"]
                        if th and ("expr<nfl::ops::%s<" % opname) in th[0]["type"]["qualType"].replace("const ", ""): fn = n
            if fn is None: raise Unsupported("operator bool of expr<%s> not instantiated" % opname)
            vs = match(fn)
            res.append((name, "Definition %s (degree : Z) (nmoduli : Z) (val : Z -> Z -> Z) : option bool := scan %s %d degree nmoduli val." % (name, "true" if req[k] else "false", vs), "ok"))
        except Unsupported as ex:
            res.append((name, None, "unsupported: %s" % ex))
    return res

def match(fn):
    body = [c for c in fn["inner"] if c.get("kind") == "CompoundStmt"][0].get("inner", []) or []
    if len(body) != 2 or body[0].get("kind") != "ForStmt" or body[1].get("kind") != "ReturnStmt": raise Unsupported("body is not `for ...; return ...;`")
    def is_req(e):
        e = strip(e); return e.get("kind") == "DeclRefExpr" and e["referencedDecl"].get("name") == "value" and e["type"]["qualType"].replace("const ", "") == "bool"
    if not is_req(body[1]["inner"][0]): raise Unsupported("final return is not bool_requires_all<Op>::value")
    def loop(fs, bound_name, step_var=None):
        init, _, cond, inc, b = fs["inner"]
        vd = init["inner"][0]
        if strip(vd["inner"][0]).get("value") != "0": raise Unsupported("loop start")
        if not (cond.get("opcode") == "<" and ref(cond["inner"][0]).get("id") == vd["id"] and ref(cond["inner"][1]).get("name") == bound_name): raise Unsupported("loop bound %s" % bound_name)
        if step_var is None:
            if not (inc.get("kind") == "UnaryOperator" and inc.get("opcode") == "++" and ref(inc["inner"][0]).get("id") == vd["id"]): raise Unsupported("loop step")
        elif not (inc.get("kind") == "CompoundAssignOperator" and inc.get("opcode") == "+=" and ref(inc["inner"][0]).get("id") == vd["id"] and ref(inc["inner"][1]).get("id") == step_var): raise Unsupported("loop step")
        return vd["id"], ((b.get("inner", []) or []) if b.get("kind") == "CompoundStmt" else [b])
    cm, b1 = loop(body[0], "nmoduli")
    # constexpr vector_size = elt_count::value; constexpr vector_bound = degree / vector_size * vector_size; static_assert(vector_bound == degree); for j
    ds = [x for x in b1 if x.get("kind") == "DeclStmt"]; fors = [x for x in b1 if x.get("kind") == "ForStmt"]
    if len(fors) != 1 or len(ds) != 3 or len(b1) != 4: raise Unsupported("modulus loop body")
    vsd = ds[0]["inner"][0]; vbd = ds[1]["inner"][0]; sa = ds[2]["inner"][0]
    if vsd.get("name") != "vector_size" or ref(vsd["inner"][0]).get("name") != "value": raise Unsupported("vector_size")
    e = strip(vbd["inner"][0])
    if not (vbd.get("name") == "vector_bound" and e.get("opcode") == "*" and strip(e["inner"][0]).get("opcode") == "/" and ref(strip(e["inner"][0])["inner"][0]).get("name") == "degree" and
            ref(strip(e["inner"][0])["inner"][1]).get("id") == vsd["id"] and ref(e["inner"][1]).get("id") == vsd["id"]): raise Unsupported("vector_bound")
    sc = strip(sa["inner"][0]) if sa.get("kind") == "StaticAssertDecl" else None
    if sc is None or not (sc.get("opcode") == "==" and ref(sc["inner"][0]).get("id") == vbd["id"] and ref(sc["inner"][1]).get("name") == "degree"): raise Unsupported("static_assert(vector_bound == degree)")
    j, b2 = loop(fors[0], "vector_bound", vsd["id"])
    if len(b2) != 3 or b2[0].get("kind") != "DeclStmt" or b2[2].get("kind") != "ForStmt": raise Unsupported("vector loop body")
    tmp = b2[0]["inner"][0]
    m = re.search(r"\[(\d+)\]$", tmp["type"].get("desugaredQualType", tmp["type"]["qualType"]).strip())
    if not m: raise Unsupported("tmp is not an array")
    vs = int(m.group(1))
    st = strip(b2[1])
    if not (st.get("kind") == "CallExpr" and ref(st["inner"][0]).get("name") == "store" and ref(st["inner"][1]).get("id") == tmp["id"]): raise Unsupported("store(tmp, ...)")
    ld = strip(st["inner"][2])
    if not (ld.get("kind") == "CXXMemberCallExpr" and strip(ld["inner"][0]).get("name") == "load" and strip(strip(ld["inner"][0])["inner"][0]).get("kind") == "CXXThisExpr" and ref(ld["inner"][1]).get("id") == cm and ref(ld["inner"][2]).get("id") == j): raise Unsupported("load<simd_mode>(cm, j)")
    k, b3 = loop(b2[2], "vector_size")
    if ref(b2[2]["inner"][2]["inner"][1]).get("id") != vsd["id"]: raise Unsupported("inner bound")
    if len(b3) != 1 or b3[0].get("kind") != "IfStmt" or len(b3[0]["inner"]) != 2: raise Unsupported("inner body")
    c, th = b3[0]["inner"]; c = strip(c)
    def tmpk(e):
        e = strip(e); return e.get("kind") == "ArraySubscriptExpr" and ref(e["inner"][0]).get("id") == tmp["id"] and ref(e["inner"][1]).get("id") == k
    def nots(e, n_):
        for _ in range(n_):
            e = strip(e)
            if not (e.get("kind") == "UnaryOperator" and e.get("opcode") == "!"): return False
            e = e["inner"][0]
        return tmpk(e)
    if not (c.get("kind") == "ConditionalOperator" and is_req(c["inner"][0]) and nots(c["inner"][1], 1) and nots(c["inner"][2], 2)): raise Unsupported("test is not REQ ? !tmp[k] : !!tmp[k]")
    r = strip(th["inner"][0]) if th.get("kind") == "ReturnStmt" else None
    if r is None or not (r.get("kind") == "UnaryOperator" and r.get("opcode") == "!" and is_req(r["inner"][0])): raise Unsupported("early return is not !REQ")
    return vs

def main():
    jobs = [(m, ct) for m in MODES for ct in TN]
    with multiprocessing.Pool(min(9, len(jobs))) as pool: res = pool.starmap(one, jobs)
    out = []; index = []
    for r in res:
        for name, text, st in r:
            index.append("%s [%s]" % (name, st))
            if text: out.append(text)
    txt = ["(* GENERATED by tools/cxxexprbool2coq.py from include/nfl/ops.hpp -- do not edit.  ops::expr<Op, ...>::operator bool() for Op = eqmod, neqmod, submod (an",
           "   arithmetic operator), three limb types, three builds: the scan of ExprSem.v with the polarity bool_requires_all<Op>::value and the vector width read from the source. *)",
           "From Coq Require Import ZArith Bool.", "From NTT Require Import ExprSem.", "Local Open Scope Z_scope.", ""] + out + ["", "(* index: " + "; ".join(index) + " *)"]
    open(OUT, "w").write("\n".join(txt) + "\n")
    for i in index: print(i)

if __name__ == "__main__":
    main()
