#!/usr/bin/env python3
# cxxpolyp2coq.py <repo> <out.v>: the handle layer of include/nfl/poly_p.hpp (the copy-on-write handle of C14) read from clang's AST and
# emitted over the shared_ptr operations of coq/ShSem.v.  A small statement reader for exactly the constructs the special members of
# poly_p are written with: member initialisers of _p (copy, std::move, make_pointer(...)), `if (this != &o)`, `_p = o._p`,
# `_p = std::move(o._p)`, `if (!_p.unique()) { _p = make_pointer(*_p); }`, `detach(); return *_p;`, and
# make_pointer = std::allocate_shared<poly_type>(aligned_allocator<poly_type, 32>, forward(args)...).  Anything else is refused (the
# definition is then missing and the obligations that mention it fail).
import sys, os, re
sys.path.insert(0, os.path.dirname(os.path.abspath(__file__)))
REPO = sys.argv[1] if len(sys.argv) > 1 else "/repo"
OUT = sys.argv[2] if len(sys.argv) > 2 else "/dev/stdout"
_argv = sys.argv; sys.argv = [_argv[0], REPO]
import cxx2coq as c2c
sys.argv = _argv
walk = c2c.walk

class Unsupported(Exception): pass

def strip(e):
    while e.get("kind") in ("ImplicitCastExpr", "ParenExpr", "ConstantExpr", "ExprWithCleanups", "MaterializeTemporaryExpr", "CXXBindTemporaryExpr", "CXXConstCastExpr", "CXXFunctionalCastExpr") and e.get("inner"):
        e = e["inner"][0]
    return e

TU = """#include <nfl.hpp>
typedef nfl::poly_p<uint32_t,16,2> PP;
void force_instantiation(PP& a, PP const& b, PP&& c) { PP d(b); PP e(a); PP f(std::move(c)); PP g(nfl::uniform{}); a = b; a = std::move(f); a.poly_obj(); a = nfl::uniform{}; }
"""

def body_of(m):
    bs = [c for c in m.get("inner", []) if c.get("kind") == "CompoundStmt"]
    return (bs[0].get("inner", []) or []) if bs else None

def is_member_p(e, of_param=None, of_this=False):
    e = strip(e)
    if e.get("kind") != "MemberExpr" or e.get("name") != "_p": return False
    b = strip(e["inner"][0])
    if of_this: return b.get("kind") == "CXXThisExpr"
    return b.get("kind") == "DeclRefExpr" and b["referencedDecl"]["id"] == of_param

def is_move_of_p(e, pid):
    e = strip(e)
    return e.get("kind") == "CallExpr" and any(q.get("kind") == "DeclRefExpr" and q["referencedDecl"].get("name") == "move" for q in walk(e["inner"][0])) and is_member_p(e["inner"][1], of_param=pid)

def is_call_named(e, name):
    e = strip(e)
    return e.get("kind") in ("CallExpr", "CXXMemberCallExpr") and any((q.get("kind") == "DeclRefExpr" and q["referencedDecl"].get("name") == name) or (q.get("kind") == "MemberExpr" and q.get("name") == name) or
                                                                       (q.get("kind") == "UnresolvedLookupExpr" and q.get("name") == name) for q in walk(e["inner"][0]))

def init_of(ctor):
    inits = [c for c in ctor.get("inner", []) if c.get("kind") == "CXXCtorInitializer"]
    if len(inits) != 1: raise Unsupported("member initialisers")
    e = strip(inits[0]["inner"][0])
    while e.get("kind") == "CXXConstructExpr" and e.get("inner"): e = strip(e["inner"][0])
    return e

def main():
    objs = c2c.clang_ast(TU, "nfl", [])
    cls = None
    for o in objs:
        for n in walk(o):
            if n.get("kind") == "ClassTemplateSpecializationDecl" and n.get("name") == "poly_p" and any(c.get("kind") == "CXXMethodDecl" and c.get("name") == "detach" and body_of(c) is not None for c in n.get("inner", [])): cls = n
    out = []; index = []
    def emit(name, comment, fn):
        try:
            out.append("(* %s *)\n%s" % (comment.replace("(*", "( *").replace("*)", "* )"), fn())); index.append("%s [ok]" % name)
        except Unsupported as ex:
            index.append("%s [unsupported: %s]" % (name, ex))
    if cls is None:
        index.append("poly_p [not found]")
    else:
        members = cls.get("inner", [])
        ctors = [c for c in members if c.get("kind") == "CXXConstructorDecl" and body_of(c) is not None]
        def ctor_with(pred):
            r = [c for c in ctors if pred([q for q in c.get("inner", []) if q.get("kind") == "ParmVarDecl"])]
            if len(r) != 1: raise Unsupported("constructor not found (%d)" % len(r))
            return r[0]
        def only_p_member():
            fields = [c for c in members if c.get("kind") == "FieldDecl"]
            if [f.get("name") for f in fields] != ["_p"] or "shared_ptr" not in fields[0]["type"].get("desugaredQualType", fields[0]["type"]["qualType"]) and "ptr_type" not in fields[0]["type"]["qualType"]: raise Unsupported("data members are not exactly the shared_ptr _p")
        def copy_ctor(constref):
            def f():
                only_p_member()
                c = ctor_with(lambda ps: len(ps) == 1 and ps[0]["type"]["qualType"].replace(" ", "") == ("constnfl::poly_p<unsignedint,16,2>&" if constref else "nfl::poly_p<unsignedint,16,2>&"))
                ps = [q for q in c["inner"] if q.get("kind") == "ParmVarDecl"]
                if body_of(c): raise Unsupported("constructor body is not empty")
                if not is_member_p(init_of(c), of_param=ps[0]["id"]): raise Unsupported("initialiser is not _p(o._p)")
                return "Definition gen_pp_ctor_copy%s {V : Type} (s : st V) (h g : nat) : st V := sp_init_copy V s h g." % ("" if constref else "_nc")
            return f
        emit("gen_pp_ctor_copy", "poly_p(poly_p const& o) : _p(o._p) {}", copy_ctor(True))
        emit("gen_pp_ctor_copy_nc", "poly_p(poly_p& o) : _p(const_cast<poly_p const&>(o)._p) {}", copy_ctor(False))
        def move_ctor():
            c = ctor_with(lambda ps: len(ps) == 1 and ps[0]["type"]["qualType"].replace(" ", "") == "nfl::poly_p<unsignedint,16,2>&&")
            ps = [q for q in c["inner"] if q.get("kind") == "ParmVarDecl"]
            if body_of(c): raise Unsupported("constructor body is not empty")
            if not is_move_of_p(init_of(c), ps[0]["id"]): raise Unsupported("initialiser is not _p(std::move(o._p))")
            return "Definition gen_pp_ctor_move {V : Type} (s : st V) (h g : nat) : st V := sp_init_move V s h g."
        emit("gen_pp_ctor_move", "poly_p(poly_p&& o) : _p(std::move(o._p)) {}", move_ctor)
        # make_pointer (instantiated for the uniform argument and for poly const&)
        mps = [q for c in members if c.get("kind") == "FunctionTemplateDecl" and c.get("name") == "make_pointer" for q in c.get("inner", []) if q.get("kind") == "CXXMethodDecl" and body_of(q) is not None]
        def make_pointer():
            if not mps: raise Unsupported("make_pointer not instantiated")
            for m in mps:
                b = body_of(m)
                decls = [x for x in b if x.get("kind") == "DeclStmt"]; rets = [x for x in b if x.get("kind") == "ReturnStmt"]
                if len(b) != 2 or len(decls) != 1 or len(rets) != 1: raise Unsupported("make_pointer body")
                vd = decls[0]["inner"][0]
                if "aligned_allocator" not in vd["type"].get("desugaredQualType", vd["type"]["qualType"]): raise Unsupported("make_pointer: allocator")
                ce = strip(rets[0]["inner"][0])
                while ce.get("kind") == "CXXConstructExpr" and ce.get("inner"): ce = strip(ce["inner"][0])
                if not (ce.get("kind") == "CallExpr" and any(q.get("kind") == "DeclRefExpr" and q["referencedDecl"].get("name") == "allocate_shared" for q in walk(ce["inner"][0]))): raise Unsupported("make_pointer does not return allocate_shared(...)")
                if "poly<unsigned int, 16, 2>" not in ce["type"]["qualType"]: raise Unsupported("allocate_shared of another type")
                a0 = strip(ce["inner"][1])
                if not (a0.get("kind") == "DeclRefExpr" and a0["referencedDecl"]["id"] == vd["id"]): raise Unsupported("allocate_shared is not given the aligned allocator")
                ps = [q for q in m["inner"] if q.get("kind") == "ParmVarDecl"]
                fw = ce["inner"][2:]
                if len(fw) != len(ps): raise Unsupported("make_pointer does not forward all its arguments")
                for a, p_ in zip(fw, ps):
                    a = strip(a)
                    if a.get("kind") == "CallExpr" and any(q.get("kind") == "DeclRefExpr" and q["referencedDecl"].get("name") == "forward" for q in walk(a["inner"][0])): a = strip(a["inner"][1])
                    if not (a.get("kind") == "DeclRefExpr" and a["referencedDecl"]["id"] == p_["id"]): raise Unsupported("make_pointer does not forward its arguments in order")
            return "Definition gen_pp_make {V : Type} (s : st V) (h : nat) (v : V) : st V := sp_init_make V s h v."
        def variadic_ctor():
            vs = [q for c in members if c.get("kind") == "FunctionTemplateDecl" and c.get("name") == "poly_p" for q in c.get("inner", []) if q.get("kind") == "CXXConstructorDecl" and body_of(q) is not None]
            if not vs: raise Unsupported("variadic constructor not instantiated")
            for c in vs:
                if body_of(c): raise Unsupported("variadic constructor body is not empty")
                e = strip(init_of(c))
                if not is_call_named(e, "make_pointer"): raise Unsupported("variadic constructor does not initialise _p with make_pointer(...)")
        emit("gen_pp_make", "poly_p(Args&&... args) : _p(make_pointer(std::forward<Args>(args)...)) {}  with  make_pointer = std::allocate_shared<poly_type>(aligned_allocator<poly_type, 32>, std::forward<Args>(args)...); v is the payload the arguments construct", lambda: (variadic_ctor(), make_pointer())[1])
        def assign(move):
            def f():
                ms = [c for c in members if c.get("kind") == "CXXMethodDecl" and c.get("name") == "operator=" and body_of(c) is not None and
                      [q["type"]["qualType"].replace(" ", "") for q in c["inner"] if q.get("kind") == "ParmVarDecl"] == [("nfl::poly_p<unsignedint,16,2>&&" if move else "constnfl::poly_p<unsignedint,16,2>&")]]
                if len(ms) != 1: raise Unsupported("operator= not found")
                m = ms[0]; pid = [q for q in m["inner"] if q.get("kind") == "ParmVarDecl"][0]["id"]; b = body_of(m)
                if len(b) != 2 or b[0].get("kind") != "IfStmt" or b[1].get("kind") != "ReturnStmt" or len(b[0]["inner"]) != 2: raise Unsupported("operator= body")
                cond = strip(b[0]["inner"][0])
                if not (cond.get("kind") == "BinaryOperator" and cond.get("opcode") == "!=" and strip(cond["inner"][0]).get("kind") == "CXXThisExpr" and strip(cond["inner"][1]).get("kind") == "UnaryOperator" and strip(cond["inner"][1]).get("opcode") == "&"
                        and strip(strip(cond["inner"][1])["inner"][0]).get("referencedDecl", {}).get("id") == pid): raise Unsupported("guard is not `this != &o`")
                th = b[0]["inner"][1]; items = (th.get("inner", []) or []) if th.get("kind") == "CompoundStmt" else [th]
                if len(items) != 1: raise Unsupported("guarded block")
                a = strip(items[0])
                if not (a.get("kind") == "CXXOperatorCallExpr" and any(q.get("kind") == "DeclRefExpr" and q["referencedDecl"].get("name") == "operator=" for q in walk(a["inner"][0])) and is_member_p(a["inner"][1], of_this=True)): raise Unsupported("guarded statement is not an assignment to _p")
                if move:
                    if not is_move_of_p(a["inner"][2], pid): raise Unsupported("right-hand side is not std::move(o._p)")
                elif not is_member_p(a["inner"][2], of_param=pid): raise Unsupported("right-hand side is not o._p")
                r = strip(b[1]["inner"][0])
                if not (r.get("kind") == "UnaryOperator" and r.get("opcode") == "*" and strip(r["inner"][0]).get("kind") == "CXXThisExpr"): raise Unsupported("does not return *this")
                return "Definition gen_pp_assign_%s {V : Type} (s : st V) (h g : nat) : st V := if negb (h =? g) then sp_assign_%s V s h g else s." % (("move", "move") if move else ("copy", "copy"))
            return f
        emit("gen_pp_assign_copy", "poly_p& operator=(poly_p const& o) { if (this != &o) { _p = o._p; } return *this; }   (this != &o: the handles are different objects)", assign(False))
        emit("gen_pp_assign_move", "poly_p& operator=(poly_p&& o) { if (this != &o) { _p = std::move(o._p); } return *this; }", assign(True))
        def detach():
            ms = [c for c in members if c.get("kind") == "CXXMethodDecl" and c.get("name") == "detach" and body_of(c) is not None]
            if len(ms) != 1: raise Unsupported("detach not found")
            b = body_of(ms[0])
            if len(b) != 1 or b[0].get("kind") != "IfStmt" or len(b[0]["inner"]) != 2: raise Unsupported("detach body")
            cond = strip(b[0]["inner"][0])
            if not (cond.get("kind") == "UnaryOperator" and cond.get("opcode") == "!"): raise Unsupported("detach condition")
            u = strip(cond["inner"][0])
            if not (u.get("kind") == "CXXMemberCallExpr" and strip(u["inner"][0]).get("name") == "unique" and is_member_p(strip(u["inner"][0])["inner"][0], of_this=True)): raise Unsupported("detach condition is not !_p.unique()")
            th = b[0]["inner"][1]; items = (th.get("inner", []) or []) if th.get("kind") == "CompoundStmt" else [th]
            if len(items) != 1: raise Unsupported("detach block")
            a = strip(items[0])
            if not (a.get("kind") == "CXXOperatorCallExpr" and any(q.get("kind") == "DeclRefExpr" and q["referencedDecl"].get("name") == "operator=" for q in walk(a["inner"][0])) and is_member_p(a["inner"][1], of_this=True)): raise Unsupported("detach does not assign to _p")
            rhs = strip(a["inner"][2])
            if not is_call_named(rhs, "make_pointer") or len(rhs["inner"]) != 2: raise Unsupported("detach does not assign make_pointer(one argument)")
            arg = strip(rhs["inner"][1])
            if not (arg.get("kind") == "CXXOperatorCallExpr" and any(q.get("kind") == "DeclRefExpr" and q["referencedDecl"].get("name") == "operator*" for q in walk(arg["inner"][0])) and is_member_p(arg["inner"][1], of_this=True)): raise Unsupported("detach does not clone *_p")
            make_pointer()
            return "Definition gen_pp_detach {V : Type} (s : st V) (h : nat) : st V := if negb (sp_unique V s h) then sp_assign_clone V s h else s."
        emit("gen_pp_detach", "void detach() { if (!_p.unique()) { _p = make_pointer(*_p); } }", detach)
        def touch_check():
            """in the class template itself, _p is mentioned only by the special members read here, by the const poly_obj() and by the identity shortcut
            _p.get() == o._p.get() of operator== / operator!=: every other member reaches the payload through poly_obj() (non-const: after detach())"""
            tobjs = c2c.clang_ast("#include <nfl.hpp>\n", "poly_p", [])
            rec = None
            for o in tobjs:
                for n in walk(o):
                    if n.get("kind") == "ClassTemplateDecl" and n.get("name") == "poly_p":
                        rs = [c for c in n.get("inner", []) if c.get("kind") == "CXXRecordDecl"]
                        if rs: rec = rs[0]
            if rec is None: raise Unsupported("class template poly_p not found")
            def methods(x):
                for c in x.get("inner", []):
                    if c.get("kind") in ("CXXMethodDecl", "CXXConstructorDecl", "CXXDestructorDecl", "CXXConversionDecl"): yield c
                    if c.get("kind") == "FunctionTemplateDecl":
                        for q in c.get("inner", []):
                            if q.get("kind") in ("CXXMethodDecl", "CXXConstructorDecl"): yield q
            allowed = {"poly_p", "poly_p<T, Degree, NbModuli>", "poly_obj", "operator=", "operator==", "operator!=", "detach"}
            for m in methods(rec):
                uses = [q for q in walk(m) if q.get("kind") in ("MemberExpr", "CXXDependentScopeMemberExpr", "UnresolvedMemberExpr") and (q.get("name") == "_p" or q.get("member") == "_p")]
                if not uses: continue
                if m.get("name") not in allowed: raise Unsupported("member %s touches _p directly" % m.get("name"))
                if m.get("name") == "operator=" and "poly_p<T, Degree, NbModuli>" not in m.get("type", {}).get("qualType", ""): raise Unsupported("a generic operator= touches _p directly")
                if m.get("name") in ("operator==", "operator!="):
                    # only as _p.get()
                    def is_p(e):
                        e = strip(e); return e.get("kind") in ("MemberExpr", "CXXDependentScopeMemberExpr", "UnresolvedMemberExpr") and (e.get("name") == "_p" or e.get("member") == "_p")
                    gets = [q for q in walk(m) if q.get("kind") in ("MemberExpr", "CXXDependentScopeMemberExpr", "UnresolvedMemberExpr") and (q.get("name") == "get" or q.get("member") == "get") and q.get("inner") and is_p(q["inner"][0])]
                    if len(gets) != len(uses): raise Unsupported("%s uses _p other than through get()" % m.get("name"))
            # the generic assignments and every forwarding member go through poly_obj(): checked for the generic operator= explicitly
            gens = [q for c in members if c.get("kind") == "FunctionTemplateDecl" and c.get("name") == "operator=" for q in c.get("inner", []) if q.get("kind") == "CXXMethodDecl" and body_of(q) is not None]
            if not gens: raise Unsupported("generic operator= not instantiated")
            for g_ in gens:
                b = body_of(g_)
                if b is None or len(b) != 2 or b[1].get("kind") != "ReturnStmt": raise Unsupported("generic operator= body")
                a = strip(b[0])
                lhs = strip(a["inner"][0]) if a.get("kind") == "BinaryOperator" else (strip(a["inner"][1]) if a.get("kind") == "CXXOperatorCallExpr" else None)
                if lhs is None or not is_call_named(lhs, "poly_obj"): raise Unsupported("generic operator= does not assign through poly_obj()")
        def poly_obj():
            ms = [c for c in members if c.get("kind") == "CXXMethodDecl" and c.get("name") == "poly_obj" and body_of(c) is not None and "const" not in c["type"]["qualType"].split(")")[-1]]
            if len(ms) != 1: raise Unsupported("poly_obj not found")
            touch_check()
            b = body_of(ms[0])
            if len(b) != 2 or not is_call_named(b[0], "detach") or b[1].get("kind") != "ReturnStmt": raise Unsupported("poly_obj body")
            r = strip(b[1]["inner"][0])
            if not (r.get("kind") == "CXXOperatorCallExpr" and any(q.get("kind") == "DeclRefExpr" and q["referencedDecl"].get("name") == "operator*" for q in walk(r["inner"][0])) and is_member_p(r["inner"][1], of_this=True)): raise Unsupported("poly_obj does not return *_p")
            return "Definition gen_pp_write {V : Type} (s : st V) (h : nat) (f : V -> V) : st V := sp_mutate V (gen_pp_detach s h) h f."
        emit("gen_pp_write", "poly_type& poly_obj() { detach(); return *_p; }  followed by a mutation f of the payload through the returned reference (every non-const member of poly_p goes through poly_obj())", poly_obj)
        def forwarders():
            """every other member of the class template is a one-statement forwarder: the same-named operation of the payload reached through
            poly_obj() (static members: of poly_type), with the member's own parameters in order"""
            src = open(os.path.join(REPO, "include/nfl/poly_p.hpp"), "rb").read()
            def text(n):
                r = n.get("range", {}); b = r.get("begin", {}); e = r.get("end", {})
                b = b.get("expansionLoc", b); e = e.get("expansionLoc", e)
                if "offset" not in b or "offset" not in e: return ""
                return src[b["offset"]: e["offset"] + e.get("tokLen", 0)].decode(errors="replace")
            tobjs = c2c.clang_ast("#include <nfl.hpp>\n", "poly_p", [])
            rec = None
            for o in tobjs:
                for n in walk(o):
                    if n.get("kind") == "ClassTemplateDecl" and n.get("name") == "poly_p":
                        rs = [c for c in n.get("inner", []) if c.get("kind") == "CXXRecordDecl"]
                        if rs: rec = rs[0]
            if rec is None: raise Unsupported("class template poly_p not found")
            def methods(x):
                for c in x.get("inner", []):
                    if c.get("kind") in ("CXXMethodDecl", "CXXConversionDecl"): yield c
                    if c.get("kind") == "FunctionTemplateDecl":
                        for q in c.get("inner", []):
                            if q.get("kind") == "CXXMethodDecl": yield q
            def is_pobj(e, of=None):
                """poly_obj() on *this (of=None) or on parameter `of`"""
                e = strip(e)
                if e.get("kind") != "CallExpr" or len(e.get("inner", [])) != 1: return False
                c = e["inner"][0]
                if of is None: return c.get("kind") in ("UnresolvedMemberExpr", "MemberExpr") and (c.get("name") == "poly_obj" or text(c) == "poly_obj")
                return c.get("kind") in ("CXXDependentScopeMemberExpr", "MemberExpr") and (c.get("member") == "poly_obj" or c.get("name") == "poly_obj") and strip(c["inner"][0]).get("referencedDecl", {}).get("id") == of
            def is_param(e, pid):
                e = strip(e)
                if e.get("kind") == "CallExpr" and any(q.get("kind") in ("DeclRefExpr", "UnresolvedLookupExpr") and (q.get("referencedDecl", {}).get("name") == "forward" or q.get("name") == "forward") for q in walk(e["inner"][0])) and len(e["inner"]) == 2: e = strip(e["inner"][1])
                return e.get("kind") == "DeclRefExpr" and e.get("referencedDecl", {}).get("id") == pid
            names = []
            special = ("poly_obj", "detach", "make_pointer", "operator=")
            for m in methods(rec):
                nm = m.get("name"); b = body_of(m)
                if nm in special or b is None: continue
                ps = [q for q in m.get("inner", []) if q.get("kind") == "ParmVarDecl"]
                sig = "%s %s" % (nm, m.get("type", {}).get("qualType", ""))
                def bad(why): raise Unsupported("member `%s` is not a forwarder (%s)" % (sig[:90], why))
                if nm in ("operator==", "operator!=") and ps and "poly_p<" in ps[0]["type"]["qualType"]:
                    # identity shortcut, then the comparison of *this with the other payload
                    if len(b) != 2 or b[0].get("kind") != "IfStmt" or b[1].get("kind") != "ReturnStmt": bad("body")
                    e = strip(b[1]["inner"][0])
                    if not (e.get("kind") == "CXXOperatorCallExpr" and e["inner"][0].get("name") == nm and is_pobj(e["inner"][2], of=ps[0]["id"])): bad("final comparison")
                    l = strip(e["inner"][1])
                    if not (l.get("kind") in ("CXXOperatorCallExpr", "UnaryOperator") and any(q.get("kind") == "CXXThisExpr" for q in walk(l))): bad("left operand is not *this")
                    rt = strip(b[0]["inner"][1]); rt = strip(rt["inner"][0]) if rt.get("kind") == "CompoundStmt" else rt
                    if not (rt.get("kind") == "ReturnStmt" and strip(rt["inner"][0]).get("kind") == "CXXBoolLiteralExpr" and strip(rt["inner"][0]).get("value") == (nm == "operator==")): bad("shortcut value")
                    names.append(nm + "(poly_p)"); continue
                if len(b) != 1: bad("more than one statement")
                e = strip(b[0]["inner"][0]) if b[0].get("kind") == "ReturnStmt" else strip(b[0])
                if nm in ("operator+", "operator-", "operator*", "operator==", "operator!="):
                    if not (e.get("kind") == "CXXOperatorCallExpr" and len(e["inner"]) == 3 and e["inner"][0].get("name") == nm and len(ps) == 1): bad("not `poly_obj() %s ...`" % nm[8:])
                    if not is_pobj(e["inner"][1]): bad("left operand is not poly_obj()")
                    if not (is_pobj(e["inner"][2], of=ps[0]["id"]) or is_param(e["inner"][2], ps[0]["id"])): bad("right operand")
                elif nm == "operator()":
                    if not (e.get("kind") == "CallExpr" and is_pobj(e["inner"][0]) and len(e["inner"]) == 1 + len(ps) and all(is_param(a, p_["id"]) for a, p_ in zip(e["inner"][1:], ps))): bad("not poly_obj()(cm, i)")
                elif m.get("storageClass") == "static":
                    if not (e.get("kind") == "CallExpr" and e["inner"][0].get("kind") in ("DependentScopeDeclRefExpr", "DeclRefExpr") and text(e["inner"][0]).replace(" ", "") == "poly_type::" + nm and
                            len(e["inner"]) == 1 + len(ps) and all(is_param(a, p_["id"]) for a, p_ in zip(e["inner"][1:], ps))): bad("not poly_type::%s(...)" % nm)
                elif nm == "serialize":
                    if not (e.get("kind") == "CallExpr" and len(ps) == 1 and is_param(e["inner"][0], ps[0]["id"]) and len(e["inner"]) == 2 and is_pobj(e["inner"][1])): bad("not archive(poly_obj())")
                elif nm == "load":
                    c0 = e["inner"][0] if e.get("kind") == "CallExpr" else {}
                    a = strip(e["inner"][1]) if e.get("kind") == "CallExpr" and len(e["inner"]) == 2 else {}
                    inner = strip(a["inner"][1]) if a.get("kind") in ("CXXOperatorCallExpr", "UnaryOperator") and len(a.get("inner", [])) >= 2 else (strip(a["inner"][0]) if a.get("kind") == "UnaryOperator" else {})
                    if not (c0.get("member") == "load" and inner.get("kind") == "CallExpr" and any(q.get("kind") == "CXXThisExpr" for q in walk(inner["inner"][0])) and
                            len(inner["inner"]) == 1 + len(ps) and all(is_param(x, p_["id"]) for x, p_ in zip(inner["inner"][1:], ps))): bad("not M::load(&(*this)(cm, i))")
                else:
                    if not (e.get("kind") == "CallExpr" and e["inner"][0].get("kind") in ("CXXDependentScopeMemberExpr", "MemberExpr") and (e["inner"][0].get("member") == nm or e["inner"][0].get("name") == nm) and
                            is_pobj(e["inner"][0]["inner"][0])): bad("not poly_obj().%s(...)" % nm)
                    if not (len(e["inner"]) == 1 + len(ps) and all(is_param(a, p_["id"]) for a, p_ in zip(e["inner"][1:], ps))): bad("arguments are not the parameters in order")
                names.append(nm)
            if len(names) < 30: raise Unsupported("only %d forwarding members found" % len(names))
            return "Definition gen_pp_forwarders : list string := (%s)%%string." % " :: ".join('"%s"' % x for x in names + ["nil"]).replace('"nil"', "nil")
        emit("gen_pp_forwarders", "every member of the class template other than the special members above, poly_obj, detach, make_pointer and the assignments: one statement forwarding to the same-named operation of poly_obj() (static members: of poly_type) with the member's own parameters in order", forwarders)
        def dtor():
            ds = [c for c in members if c.get("kind") == "CXXDestructorDecl"]
            if any(body_of(d) for d in ds): raise Unsupported("user-written destructor")
            return "Definition gen_pp_destroy {V : Type} (s : st V) (h : nat) : st V := sp_destroy V s h."
        emit("gen_pp_destroy", "the implicit destructor: the member _p is destroyed", dtor)
    txt = ["(* GENERATED by tools/cxxpolyp2coq.py from include/nfl/poly_p.hpp -- do not edit.  The special members of the copy-on-write handle poly_p over the",
           "   shared_ptr operations of ShSem.v; s is the handle/cell state of PolyP.v, h the handle (object) the member is called on, g the argument. *)",
           "From Coq Require Import Arith Bool String List.", "From NTT Require Import PolyP ShSem.", ""] + [o + "\n" for o in out] + ["(* index: " + "; ".join(index) + " *)"]
    open(OUT, "w").write("\n".join(txt) + "\n")
    for i in index: print(i)

if __name__ == "__main__":
    main()
