#!/usr/bin/env python3
# cxxperm2coq.py <repo> <out.v> : translates include/nfl/permut.hpp (the bit-reversal permutation used by the inverse transform) from the source.
#  * degree <= PERMUT_LIMIT_UNROLL: permut<degree,true>::compute is the template recursion r_set<0,1,degree>{}(y, x).  For every degree 2..1024
#    the instantiated recursion is walked in execution order (each r_set<I,J,degree>::operator() calls two further specialisations, found by
#    the declaration they reference; a leaf executes y[r] = x[I] with r = r_loop<1,degree,0,I>::value, evaluated by following the chain of
#    `value` initialisers down to the substituted template argument): the result is the list of assignments (r, I), per degree.
#  * degree > PERMUT_LIMIT_UNROLL: permut_compute<degree>'s constructor (the table) and permut<degree,false>::compute (y[i] = x[P(i)]) are
#    translated by the loop translator, for 16-bit index types (degrees 2048, 4096 must agree) and 32-bit ones (65536, 131072).
#  * which of the two a degree uses, and the index type, are probed with static_asserts over all powers of two up to 2^20.
import sys, os, re, json, subprocess
sys.path.insert(0, os.path.dirname(os.path.abspath(__file__)))
import cxx2coq as c2c
from cxx2coq import Unsupported, walk
REPO = sys.argv[1] if len(sys.argv) > 1 else "/repo"
c2c.REPO = REPO
sys.argv = [sys.argv[0], REPO] + sys.argv[2:]
import cxxloop2coq as L
L.REPO = REPO

PRE = '#include <cstdint>\n#include <cstddef>\n#include <cassert>\n#include <type_traits>\n#include "nfl/permut.hpp"\n'

def targs(n): return [a.get("value") for a in n.get("inner", []) if a.get("kind") == "TemplateArgument"]

def leaves(Dg):
    objs = c2c.clang_ast(PRE + "void force(unsigned* y, const unsigned* x) { nfl::permut<%d>::compute(y, x); }\n" % Dg, "nfl", [])
    by = {}; specs = {}; parent = {}
    def rec(n, par):
        if "id" in n:
            old = by.get(n["id"])
            if old is None or len(n.get("inner", []) or []) >= len(old.get("inner", []) or []): by[n["id"]] = n; parent[n["id"]] = par
        p2 = n if n.get("kind") == "ClassTemplateSpecializationDecl" else par
        for c in n.get("inner", []) or []: rec(c, p2)
    for o in objs: rec(o, None)
    for n in by.values():
        if n.get("kind") == "ClassTemplateSpecializationDecl" and n.get("name") == "r_set": specs[tuple(targs(n))] = n
    def value_of(vid, depth=0):
        """r_loop<...>::value: follow the initialisers down to the substituted template argument R of the terminal specialisation"""
        if depth > 64: raise Unsupported("r_loop chain too long")
        d = by.get(vid)
        if d is None or d.get("kind") != "VarDecl" or not d.get("inner"): raise Unsupported("r_loop value")
        e = d["inner"][-1]
        while e.get("kind") in ("ImplicitCastExpr", "ConstantExpr", "ParenExpr"): e = e["inner"][0]
        if e.get("kind") == "SubstNonTypeTemplateParmExpr":
            lit = [c for c in e["inner"] if c.get("kind") == "IntegerLiteral"]
            return int(lit[0]["value"])
        if e.get("kind") == "DeclRefExpr": return value_of(e["referencedDecl"]["id"], depth + 1)
        raise Unsupported("r_loop initialiser " + e.get("kind", "?"))
    def body_of(spec):
        ft = [c for c in spec["inner"] if c["kind"] == "FunctionTemplateDecl" and c.get("name") == "operator()"]
        ms = [c for c in ft[0]["inner"] if c["kind"] == "CXXMethodDecl" and any(b.get("kind") == "CompoundStmt" for b in c.get("inner", [])) and "unsigned int *" in c["type"]["qualType"]]
        if len(ms) != 1: raise Unsupported("operator() of r_set%r" % (targs(spec),))
        return ms[0], [b for b in ms[0]["inner"] if b["kind"] == "CompoundStmt"][0]
    out = []
    stack = [("call", specs[(0, 1, Dg)])]
    while stack:
        kind, spec = stack.pop()
        m, body = body_of(spec)
        pend = []
        for st in body.get("inner", []) or []:
            while st.get("kind") in ("ExprWithCleanups",): st = st["inner"][0]
            if st["kind"] == "CXXOperatorCallExpr":
                ref = [n for n in walk(st["inner"][0]) if n.get("kind") == "DeclRefExpr"][0]["referencedDecl"]["id"]
                callee_spec = parent.get(ref)
                # the method belongs to a FunctionTemplateDecl inside the specialisation: climb
                if callee_spec is None or callee_spec.get("name") != "r_set": raise Unsupported("callee of r_set%r" % (targs(spec),))
                args = [strip_name(a) for a in st["inner"][2:4]]
                if args != ["y", "x"]: raise Unsupported("arguments of the recursive call %r" % args)
                pend.append(("call", callee_spec))
            elif st["kind"] == "DeclStmt": continue
            elif st["kind"] == "BinaryOperator" and st.get("opcode") == "=":
                if pend: raise Unsupported("assignment after a call")
                l, r = st["inner"]
                while l.get("kind") in ("ImplicitCastExpr", "ParenExpr"): l = l["inner"][0]
                while r.get("kind") in ("ImplicitCastExpr", "ParenExpr"): r = r["inner"][0]
                if l["kind"] != "ArraySubscriptExpr" or r["kind"] != "ArraySubscriptExpr" or strip_name(l["inner"][0]) != "y" or strip_name(r["inner"][0]) != "x": raise Unsupported("leaf assignment")
                li = l["inner"][1]
                while li.get("kind") in ("ImplicitCastExpr", "ParenExpr"): li = li["inner"][0]
                rv = by.get(li["referencedDecl"]["id"]); e = rv["inner"][-1]
                while e.get("kind") in ("ImplicitCastExpr", "ParenExpr", "ConstantExpr"): e = e["inner"][0]
                rr = value_of(e["referencedDecl"]["id"])
                ri = r["inner"][1]
                while ri.get("kind") in ("ImplicitCastExpr", "ParenExpr"): ri = ri["inner"][0]
                if ri.get("kind") != "SubstNonTypeTemplateParmExpr": raise Unsupported("index of x")
                out.append((rr, int([c for c in ri["inner"] if c.get("kind") == "IntegerLiteral"][0]["value"])))
            else: raise Unsupported("statement in r_set: " + st["kind"])
        for p_ in reversed(pend): stack.append(p_)
    return out

def strip_name(e):
    while e.get("kind") in ("ImplicitCastExpr", "ParenExpr") and e.get("inner"): e = e["inner"][0]
    return e.get("referencedDecl", {}).get("name")

def table_and_copy(Dg):
    objs = c2c.clang_ast(PRE + "void force(unsigned* y, const unsigned* x) { nfl::permut<%d>::compute(y, x); }\n" % Dg, "nfl", [])
    D = L.Decls(); D.add(objs); ctor = comp = None
    for o in objs:
        for n in walk(o):
            if n.get("kind") == "CXXConstructorDecl" and n.get("name") == "permut_compute" and any(c.get("kind") == "CompoundStmt" for c in n.get("inner", [])):
                par = D.parent.get(n["id"])
                if par and par.get("kind") == "ClassTemplateSpecializationDecl": ctor = n
            if n.get("kind") == "CXXMethodDecl" and n.get("name") == "compute" and any(c.get("kind") == "CompoundStmt" for c in n.get("inner", [])):
                ps = [c for c in n.get("inner", []) if c.get("kind") == "ParmVarDecl"]
                if ps and ps[0]["type"]["qualType"] == "unsigned int *" and any(q.get("kind") == "ForStmt" for q in walk(n)): comp = n
    res = {}
    for nm, m in (("table", ctor), ("copy", comp)):
        if m is None: res[nm] = ("unsupported: not found", None); continue
        T = L.LTr(32, D, "serial", Dg, {}, 1); T.general = True; T.distinct_ptr_params = True
        try:
            text, _, cstate, _ = T.function(m, "NAME", {}); res[nm] = ("ok", text)
        except Unsupported as ex:
            res[nm] = ("unsupported: %s" % ex, None)
    return res

def probe_dispatch():
    tu = PRE
    for k in range(1, 21):
        Dg = 1 << k
        tu += "static_assert(std::is_base_of<nfl::details::permut<%d, %s>, nfl::permut<%d>>::value, \"dispatch\");\n" % (Dg, "true" if Dg <= 1024 else "false", Dg)
        if Dg > 1024:
            tu += "static_assert(std::is_same<nfl::details::permut_compute<%d>::idx_type, %s>::value, \"index type\");\n" % (Dg, "uint16_t" if Dg <= 65535 else "uint32_t")
    p = "/tmp/cxxperm_probe_%d.cpp" % os.getpid(); open(p, "w").write(tu)
    r = subprocess.run(["clang++", "-std=c++11", "-fsyntax-only", "-w", "-I%s/include" % REPO, p], stdout=subprocess.PIPE, stderr=subprocess.PIPE, text=True); os.remove(p)
    return r.returncode == 0, r.stderr[-300:]

def safe_leaves(Dg):
    try: return ("ok", leaves(Dg))
    except Unsupported as ex: return ("unsupported: %s" % ex, None)
    except Exception as ex: return ("unsupported: %r" % ex, None)

def main():
    OUT = sys.argv[2]
    hdr = ["(* GENERATED by tools/cxxperm2coq.py from include/nfl/permut.hpp on every run -- do not edit. *)",
           "From Coq Require Import ZArith Bool List.", "From NTT Require Import CxxSem MemSem.", "From NTT Require PermSem.", "Import ListNotations.", "Local Open Scope Z_scope.", ""]
    import multiprocessing
    ok, err = probe_dispatch(); index = [("dispatch: unrolled iff degree <= 1024; index type uint16_t up to 65535, uint32_t above (2^1..2^20)", "ok" if ok else "FAILED " + err)]
    body = []
    degs = [1 << k for k in range(1, 11)]
    with multiprocessing.Pool(10) as pool:
        lv = pool.map(safe_leaves, degs)
        tc = pool.map(table_and_copy, [2048, 4096, 65536, 131072])
    if all(s_ == "ok" for s_, _ in lv):
        body.append("(* permut<degree, true>::compute: the assignments y[r] = x[I] executed by r_set<0,1,degree>{}(y, x), in execution order, as (degree, [(r, I); ...]) *)")
        body.append("Definition gen_permut_leaves : list (Z * list (Z * Z)) :=\n  [%s]." % ";\n   ".join("(%d, [%s])" % (d_, "; ".join("(%d, %d)" % p_ for p_ in l_)) for d_, (_, l_) in zip(degs, lv)))
        index.append(("gen_permut_leaves", "ok"))
    else:
        index.append(("gen_permut_leaves", [s_ for s_, _ in lv if s_ != "ok"][0]))
    for nm, (a, b), tag in (("gen_permut_table_i16", (tc[0], tc[1]), "table"), ("gen_permut_table_i32", (tc[2], tc[3]), "table"), ("gen_permut_copy", (tc[0], tc[1]), "copy")):
        sa, ta = a[tag]; sb, tb = b[tag]
        if sa != "ok" or sb != "ok": index.append((nm, sa if sa != "ok" else sb)); continue
        if ta != tb: index.append((nm, "NOT UNIFORM in the degree")); continue
        if tag == "copy" and (tc[2]["copy"][1] != ta or tc[3]["copy"][1] != ta): index.append((nm, "NOT UNIFORM across index types")); continue
        body += ["", "(* %s *)" % ("permut_compute<degree>::permut_compute(): the table data_" if tag == "table" else "permut<degree, false>::compute: y[i] = x[P(i)]"), ta.replace("NAME", nm)]
        index.append((nm, "ok"))
    if all(st_ == "ok" for _, st_ in index):
        body += ["", "(* permut<degree>::compute(y, x): the unrolled recursion up to PERMUT_LIMIT_UNROLL, the table of the static object P (zero-initialised storage,",
                 "   constructed before use) and the copy loop above it; the limits are the ones the static_asserts of this run confirmed *)",
                 "Definition gen_permut (fuel : nat) (degree : Z) (y : list Z) (y_o : Z) (x : list Z) (x_o : Z) : option (list Z) :=",
                 "  if degree <=? 1024 then bind (PermSem.leaves_of gen_permut_leaves degree) (fun L => PermSem.run_leaves L y y_o x x_o)",
                 "  else bind ((if degree <=? 65535 then gen_permut_table_i16 else gen_permut_table_i32) fuel degree (repeat 0 (Z.to_nat degree))) (fun P => gen_permut_copy degree P y y_o x x_o)."]
        index.append(("gen_permut", "ok"))
    if not ok: body = []
    body.append("(* index: " + "; ".join("%s [%s]" % x for x in index) + " *)")
    open(OUT, "w").write("\n".join(hdr + body) + "\n")
    for x in index: print(*x, file=sys.stderr)

if __name__ == "__main__":
    main()
