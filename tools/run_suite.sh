#!/bin/sh
# Runs the repository's own test suite (guard off) on a scratch copy of /repo's working tree; prints the ctest summary.
# (build_* tests are run first: run_nfllib_demo*/run_poly_serialize_cereal* declare their DEPENDS on a non-existent name,
#  so a cold parallel ctest would start them before their binaries exist.)
D=$(mktemp -d /tmp/nfl_suite_XXXX)
trap 'rm -rf "$D"' EXIT
rsync -a --exclude _build --exclude .git /repo/ "$D/src/"
cmake -G Ninja -S "$D/src" -B "$D/b" -DCMAKE_BUILD_TYPE=RelWithDebInfo >/dev/null 2>&1
cmake --build "$D/b" -j16 >/dev/null 2>&1
ninja -C "$D/b" -j16 $(ctest --test-dir "$D/b" -N -R '^run_' | sed -n 's/.*: run_//p') >/dev/null 2>&1
ctest --test-dir "$D/b" -j8 --timeout 900 2>&1 | grep -v "Passed\|Start " | tail -25
