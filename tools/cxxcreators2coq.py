#!/usr/bin/env python3
# cxxcreators2coq.py <repo> <out.v>: the constructors, assignment operators and setter wrappers of class poly (include/nfl/poly.hpp, core.hpp, gmp.hpp)
# read from clang's AST at poly<uint32_t,16,2>: each of them must be a ONE-CALL wrapper of set(...) / set_mpz(...) on the same object (operator=:
# followed by `return *this`), its arguments being
#   - the wrapper's own parameters in order (missing trailing ones: the callee's default arguments),
#   - or `p0.begin(), p0.end()` followed by the remaining parameters in order  (container -> iterator range),
#   - or the one-element list `{p0}` / `{mpz_class(p0)}`                         (single big integer -> list of one).
# poly() must delegate to poly(value) with the constant 0.  The wrappers found are listed (gen_poly_creators); a member of these kinds with any
# other body makes the list `unsupported`.  The functions they end in -- set(It, It, bool), set_mpz(It, It), set(value_type, bool), set(uniform) ...
# -- are the ones translated by cxxloop2coq.py / cxxhwt2coq.py and proved to be the models (C09, C12, C15).
import sys, os, re
sys.path.insert(0, os.path.dirname(os.path.abspath(__file__)))
REPO = sys.argv[1] if len(sys.argv) > 1 else "/repo"
OUT = sys.argv[2] if len(sys.argv) > 2 else "/dev/stdout"
_argv = sys.argv; sys.argv = [_argv[0], REPO]
import cxx2coq as c2c
sys.argv = _argv
walk = c2c.walk
class Unsupported(Exception): pass

TU = '''#include <nfl.hpp>
typedef nfl::poly<uint32_t,16,2> P;
void force_instantiation(P& a, nfl::uniform u, nfl::non_uniform nu, nfl::hwt_dist h, nfl::ZO_dist z, nfl::gaussian<uint8_t,uint32_t,2> g, mpz_class mc, std::array<mpz_class,16> am, const uint32_t* f, const uint32_t* l) {
  mpz_t mz; mpz_init(mz);
  { P x; } { P x(5u, true); } { P x{1u,2u}; } { P x(f, l, true); } { P x(u); } { P x(nu); } { P x(g); } { P x(z); } { P x(h); } { P x(mz); } { P x(mc); } { P x{mc, mc}; } { P x(am); }
  a = 5u; a = u; a = nu; a = h; a = z; a = {1u,2u}; a = g; a = mz; a = mc; a = am; a = {mc, mc};
  a.set_mpz(mz); a.set_mpz(mc); a.set_mpz(am); a.set_mpz({mc,mc}); a.set({1u,2u}, true);
}
'''
def strip(e):
    while e.get("kind") in ("ImplicitCastExpr", "ParenExpr", "ExprWithCleanups", "MaterializeTemporaryExpr", "CXXBindTemporaryExpr", "ConstantExpr") and e.get("inner"): e = e["inner"][0]
    return e
def short(t):
    t = t.replace("const ", "").replace("&", "").replace("nfl::", "").replace("std::", "").strip()
    t = re.sub(r"poly<unsigned int, 16, 2>::", "", t)
    t = t.replace("unsigned int *", "It").replace("__gmp_expr<mpz_t, mpz_t> *", "It").replace("__gmp_expr<mpz_t, mpz_t>", "mpz_class")
    t = re.sub(r"gaussian<[^>]*>", "gaussian", t)
    t = t.replace("16UL", "Degree").replace(", 16>", ", Degree>")
    return re.sub(r"\s+", " ", t).strip()

def main():
    index = []; out = []
    try:
        objs = c2c.clang_ast(TU, "nfl", [])
        cls = None
        for o in objs:
            for n in walk(o):
                if n.get("kind") == "ClassTemplateSpecializationDecl" and n.get("name") == "poly":
                    k = sum(1 for c in walk(n) if c.get("kind") in ("CXXConstructorDecl", "CXXMethodDecl") and any(x.get("kind") == "CompoundStmt" for x in c.get("inner", [])))
                    if k > 10: cls = n
        if cls is None: raise Unsupported("class poly<uint32_t,16,2> not found")
        def members(x):
            for c in x.get("inner", []):
                if c.get("kind") in ("CXXConstructorDecl", "CXXMethodDecl"): yield c
                if c.get("kind") == "FunctionTemplateDecl":
                    for q in c.get("inner", []):
                        if q.get("kind") in ("CXXConstructorDecl", "CXXMethodDecl"): yield q
        found = []
        for m in members(cls):
            b = [x for x in m.get("inner", []) if x.get("kind") == "CompoundStmt"]
            if not b or m.get("isImplicit"): continue
            nm = m.get("name"); ps = [q for q in m.get("inner", []) if q.get("kind") == "ParmVarDecl"]
            ptys = [short(p["type"]["qualType"]) for p in ps]
            sig = "%s(%s)" % (nm, ", ".join(ptys))
            is_ctor = m.get("kind") == "CXXConstructorDecl"
            # which members are wrappers: every constructor but the expression one and the copy/move ones; every operator= but the expression one;
            # set / set_mpz taking a container or a single big integer
            if is_ctor and (any("expr<" in t for t in ptys) or (len(ps) == 1 and ptys[0].startswith("poly<"))): continue
            if nm == "operator=" and (any("expr<" in t for t in ptys) or ptys[0].startswith("poly<")): continue
            if not is_ctor and nm not in ("operator=", "set", "set_mpz"): continue
            if nm == "set" and not (ptys and ptys[0].startswith("initializer_list")): continue       # the other set(...) are the implementations
            if nm == "set_mpz" and ptys == ["It", "It"]: continue                                    # the implementation
            def bad(why): raise Unsupported("`%s` is not a one-call wrapper (%s)" % (sig, why))
            stmts = b[0].get("inner", []) or []
            if is_ctor and not stmts:
                inits = [c for c in m.get("inner", []) if c.get("kind") == "CXXCtorInitializer"]
                if len(ps) == 0 and len(inits) == 1:
                    ce = strip(inits[0]["inner"][0]); a0 = strip(ce["inner"][0]) if ce.get("kind") == "CXXConstructExpr" and ce.get("inner") else {}
                    if a0.get("kind") == "DeclRefExpr" and a0["referencedDecl"].get("name") == "value" and "integral_constant" in str(a0):   # std::integral_constant<T, 0>::value
                        found.append(("poly", "", "poly", "value_type, bool", "(0)")); continue
                    if a0.get("kind") == "DeclRefExpr" and a0["referencedDecl"].get("name") == "value": found.append(("poly", "", "poly", "value_type, bool", "(0)")); continue
                bad("empty body")
            if nm == "operator=":
                if len(stmts) != 2 or stmts[1].get("kind") != "ReturnStmt": bad("body")
                r = strip(stmts[1]["inner"][0])
                if not (r.get("kind") == "UnaryOperator" and r.get("opcode") == "*" and strip(r["inner"][0]).get("kind") == "CXXThisExpr"): bad("does not return *this")
                stmts = stmts[:1]
            if len(stmts) != 1: bad("%d statements" % len(stmts))
            c = strip(stmts[0])
            if not (c.get("kind") == "CXXMemberCallExpr" and c["inner"][0].get("kind") == "MemberExpr" and c["inner"][0].get("name") in ("set", "set_mpz") and strip(c["inner"][0]["inner"][0]).get("kind") == "CXXThisExpr"): bad("not this->set(...) / this->set_mpz(...)")
            callee = c["inner"][0]["name"]
            # the overload chosen: the parameter types of the member the call resolves to
            tgt = [d for d in members(cls) if d.get("id") == c["inner"][0].get("referencedMemberDecl")]
            if len(tgt) != 1: bad("callee not found")
            ctys = ", ".join(short(q["type"]["qualType"]) for q in tgt[0].get("inner", []) if q.get("kind") == "ParmVarDecl")
            pid = {p["id"]: i for i, p in enumerate(ps)}
            def arg(e):
                e = strip(e)
                if e.get("kind") == "CXXDefaultArgExpr": return "default"
                if e.get("kind") == "CXXConstructExpr" and len(e.get("inner", [])) == 1: return arg(e["inner"][0])           # a copy of the parameter
                if e.get("kind") == "DeclRefExpr" and e["referencedDecl"]["id"] in pid: return "p%d" % pid[e["referencedDecl"]["id"]]
                if e.get("kind") == "CXXMemberCallExpr" and e["inner"][0].get("name") in ("begin", "end") and len(e["inner"]) == 1:
                    base = strip(e["inner"][0]["inner"][0])
                    if base.get("kind") == "DeclRefExpr" and base["referencedDecl"]["id"] in pid: return "p%d.%s" % (pid[base["referencedDecl"]["id"]], e["inner"][0]["name"])
                if e.get("kind") == "CXXStdInitializerListExpr":
                    il = strip(e["inner"][0])
                    if il.get("kind") == "InitListExpr" and len(il.get("inner", [])) == 1:
                        x = strip(il["inner"][0])
                        while x.get("kind") in ("CXXConstructExpr", "CXXFunctionalCastExpr") and len(x.get("inner", [])) == 1: x = strip(x["inner"][0])
                        if x.get("kind") == "DeclRefExpr" and x["referencedDecl"]["id"] in pid: return "{p%d}" % pid[x["referencedDecl"]["id"]]
                return "?"
            args = [arg(a) for a in c["inner"][1:]]
            while args and args[-1] == "default": args.pop()
            n = len(ps)
            plain = ["p%d" % i for i in range(n)]
            rng = ["p0.begin", "p0.end"] + ["p%d" % i for i in range(1, n)]
            one = ["{p0}"]
            if args == plain: form = "(%s)" % ", ".join(plain)
            elif args == rng: form = "(%s)" % ", ".join(rng)
            elif n == 1 and args == one: form = "({p0})"
            else: bad("arguments %s" % args)
            found.append((nm, ", ".join(ptys), callee, ctys, form))
        if len(found) < 25: raise Unsupported("only %d wrappers found" % len(found))
        out.append("(* (wrapper, its parameter types, the member it calls, the parameter types of the overload chosen, the arguments) *)")
        out.append("Definition gen_poly_creators : list (string * string * string * string * string) := (\n  %s :: nil)%%string." % " ::\n  ".join('("%s", "%s", "%s", "%s", "%s")' % x for x in found))
        index.append("gen_poly_creators [ok]")
    except Unsupported as ex:
        index.append("gen_poly_creators [unsupported: %s]" % ex)
    except RuntimeError as ex:
        index.append("gen_poly_creators [clang: %s]" % str(ex)[-200:])
    txt = ["(" + "* GENERATED by tools/cxxcreators2coq.py from include/nfl/{poly,core,gmp}.hpp -- do not edit.  The constructors, assignment operators and setter wrappers of",
           "   class poly: each a one-call wrapper of set(...) / set_mpz(...) with the arguments shown (p<k> = its k-th parameter). *)",
           "From Coq Require Import String List.", ""] + out + ["", "(* index: " + "; ".join(index).replace("*)", "* )").replace("(*", "( *") + " *)"]
    open(OUT, "w").write("\n".join(txt) + "\n")
    for i in index: print(i)

if __name__ == "__main__":
    main()
