#!/usr/bin/env python3
# cxxhwt2coq.py <repo> <out.v>: poly<T,Degree,NbModuli>::set(hwt_dist const&) of include/nfl/core.hpp -- the fixed-Hamming-weight sampler (reservoir
# sampling of the positions by rejection from 64-bit words, sort, clear, one sign word per position reused for every modulus) -- read from clang's
# AST for the three limb types.  The CONTROL SKELETON (two std::vector<size_t>, std::iota, the iterator pair rnd_ptr / rnd_end, the position loop
# with its endless rejection loop, std::sort, memset, the refill, the modulus loop with its range-for) is matched statement by statement; every
# integer EXPRESSION in it (loop start, the rejection bound, the acceptance test, the reduction, the slot test, the byte counts, p - 1, the stored
# value, the offset update) is translated by the general expression translator of cxx2coq.py (C++ integer semantics: unsigned wrap-around at the
# type's width, conversions) and passed to HwtSem.hwt_prog, the skeleton over the memory operations of MemSem.v.
import sys, os, re, multiprocessing
sys.path.insert(0, os.path.dirname(os.path.abspath(__file__)))
REPO = sys.argv[1] if len(sys.argv) > 1 else "/repo"
OUT = sys.argv[2] if len(sys.argv) > 2 else "/dev/stdout"
_argv = sys.argv; sys.argv = [_argv[0], REPO]
import cxx2coq as c2c
sys.argv = _argv
from cxx2coq import Unsupported, walk
TN = {"unsigned short": ("uint16_t", 16), "unsigned int": ("uint32_t", 32), "unsigned long": ("uint64_t", 64)}
DEG, NM = 64, 2

def strip(e):
    while e.get("kind") in ("ImplicitCastExpr", "ParenExpr", "ConstantExpr", "ExprWithCleanups", "MaterializeTemporaryExpr", "CXXBindTemporaryExpr", "CXXConstructExpr", "CStyleCastExpr") and e.get("inner"):
        if e["kind"] == "CXXConstructExpr" and len([c for c in e["inner"] if c.get("kind") != "CXXDefaultArgExpr"]) != 1: break
        e = e["inner"][0]
    return e
def ref(e): return strip(e).get("referencedDecl", {})
def callee(e):
    for n in walk(e["inner"][0]):
        if n.get("kind") == "DeclRefExpr": return n["referencedDecl"].get("name")
    return None
def member_call(e, meth):
    """x.meth() -> name of x, else None"""
    e = strip(e)
    if e.get("kind") != "CXXMemberCallExpr": return None
    m = e["inner"][0]
    if m.get("kind") != "MemberExpr" or m.get("name") != meth: return None
    return ref(m["inner"][0]).get("name")

class HTr(c2c.Tr):
    """integer expressions of the sampler over named Coq variables"""
    def __init__(self, bits):
        super().__init__(bits, {}, {})
        self.env = {"hwt": "h", "degree": "degree", "N": "(degree * nmoduli)"}
        self.sizes = {}
    def expr(self, e, k):
        kd = e.get("kind")
        if kd == "SubstNonTypeTemplateParmExpr":
            nm = [c.get("name") for c in e.get("inner", []) if c.get("kind") == "NonTypeTemplateParmDecl"]
            if nm[:1] == ["Degree"]: return k("degree")
            if nm[:1] == ["NbModuli"]: return k("nmoduli")
            raise Unsupported("template parameter %s" % nm)
        if kd == "CallExpr" and callee(e) == "max" and len(e["inner"]) == 1 and c2c.ctype(e) == (0, 64): return k("18446744073709551615")   # std::numeric_limits<size_t>::max()
        if kd == "UnaryExprOrTypeTraitExpr" and e.get("name") == "sizeof":
            q = e.get("argType", {}); q = q.get("desugaredQualType", q.get("qualType", "")).replace("const ", "").strip()
            if q not in c2c.TYPES: raise Unsupported("sizeof(%s)" % q)
            return k(str(c2c.TYPES[q][1] // 8))
        if kd == "CXXMemberCallExpr" and member_call(e, "size") in self.sizes: return k(self.sizes[member_call(e, "size")])
        if kd in ("ImplicitCastExpr",) and e.get("castKind") == "LValueToRValue" and e["inner"][0].get("kind") == "ArraySubscriptExpr":
            sub = e["inner"][0]
            if self.ptr_name(sub["inner"][0]) == "P": return self.expr(sub["inner"][1], lambda ti: k("(tabP P %s)" % ti))
            raise Unsupported("array read")
        if kd == "MemberExpr" and e.get("name") == "hwt": return k("h")
        return super().expr(e, k)
    def read_lvalue(self, e):
        kind, name = self.lvalue_name(e)
        if kind != "var" or name not in self.env: raise Unsupported("variable %s" % name)
        return self.env[name]
    def pure(self, e, **binds):
        old = dict(self.env); self.env.update(binds)
        try: return self.expr(e, lambda t: t)
        finally: self.env = old

def find_set(objs, ct):
    for o in objs:
        for n in walk(o):
            if n.get("kind") == "CXXMethodDecl" and n.get("name") == "set" and any(c.get("kind") == "CompoundStmt" for c in n.get("inner", [])):
                ps = [q for q in n.get("inner", []) if q.get("kind") == "ParmVarDecl"]
                if len(ps) == 1 and "hwt_dist" in ps[0]["type"].get("qualType", "") and \
                   any(q.get("kind") == "CXXThisExpr" and ("poly<%s, %d, %d>" % (ct, DEG, NM)) in q.get("type", {}).get("qualType", "") for q in walk(n)): return n
    return None

def need(c, what):
    if not c: raise Unsupported(what)

def vec_decl(s, name):
    need(s.get("kind") == "DeclStmt" and len(s["inner"]) == 1 and s["inner"][0].get("name") == name and "vector<" in s["inner"][0]["type"].get("desugaredQualType", s["inner"][0]["type"]["qualType"]) and
         "unsigned long" in s["inner"][0]["type"].get("desugaredQualType", ""), "std::vector<size_t> %s" % name)
    ce = s["inner"][0]["inner"][0]
    while ce.get("kind") in ("ExprWithCleanups",): ce = ce["inner"][0]
    need(ce.get("kind") == "CXXConstructExpr", "%s(count)" % name)
    args = [c for c in ce["inner"] if c.get("kind") != "CXXDefaultArgExpr"]
    need(len(args) == 1, "%s(count)" % name)
    return args[0]

def begin_end(call, fn, vec):
    """fn(vec.begin(), vec.end() [, extra])"""
    c = strip(call)
    need(c.get("kind") == "CallExpr" and callee(c) == fn and member_call(c["inner"][1], "begin") == vec and member_call(c["inner"][2], "end") == vec, "%s(%s.begin(), %s.end())" % (fn, vec, vec))
    return c["inner"][3:]

def frb(call, vec, T):
    c = strip(call)
    need(c.get("kind") == "CallExpr" and callee(c) == "fastrandombytes" and member_call(c["inner"][1], "data") == vec, "fastrandombytes((unsigned char*)%s.data(), ...)" % vec)
    return T.pure(c["inner"][2])

def iter_assign(s, it, vec, meth):
    c = strip(s)
    need(c.get("kind") == "CXXOperatorCallExpr" and callee(c) == "operator=" and ref(c["inner"][1]).get("name") == it and member_call(c["inner"][2], meth) == vec, "%s = %s.%s()" % (it, vec, meth))

def deref_postinc(e, it):
    """*it++"""
    c = strip(e)
    if not (c.get("kind") == "CXXOperatorCallExpr" and callee(c) == "operator*"): return False
    a = strip(c["inner"][1])
    return a.get("kind") == "CXXOperatorCallExpr" and callee(a) == "operator++" and len(a["inner"]) == 3 and ref(a["inner"][1]).get("name") == it

def memset0(s, target_pred, T):
    c = strip(s)
    need(c.get("kind") == "CallExpr" and callee(c) == "memset" and target_pred(c["inner"][1]) and strip(c["inner"][2]).get("value") == "0", "memset(..., 0, ...)")
    return T.pure(c["inner"][3])

def one(ct):
    cname, bits = TN[ct]; name = "gen_set_hwt_u%d" % bits
    tu = "#include <nfl.hpp>\nvoid force_instantiation(nfl::poly<%s, %d, %d>& a) { a.set(nfl::hwt_dist(3)); }\n" % (cname, DEG, NM)
    try:
        objs = c2c.clang_ast(tu, "nfl", [])
        fn = find_set(objs, ct)
        need(fn is not None, "set(hwt_dist const&) not found")
        body = [c for c in fn["inner"] if c.get("kind") == "CompoundStmt"][0].get("inner", []) or []
        T = HTr(bits)
        # the assert is no statement of the function for this purpose (NDEBUG removes it): skip a leading assert
        if body and any(q.get("kind") == "DeclRefExpr" and q["referencedDecl"].get("name") == "__assert_fail" for q in walk(body[0])): body = body[1:]
        need(len(body) == 11, "11 statements expected, found %d" % len(body))
        s_hit, s_iota, s_rnd, s_end, s_ptr, s_loop, s_sort, s_clear, s_fill, s_mods, s_wipe = body
        hsz = T.pure(vec_decl(s_hit, "hitted"))
        iota = begin_end(s_iota, "iota", "hitted"); need(len(iota) == 1, "iota start"); iota0 = T.pure(iota[0])
        need(member_call(vec_decl(s_rnd, "rnd"), "size") == "hitted", "rnd(hitted.size())")
        T.sizes = {"rnd": "rnd_size", "hitted": "rnd_size"}
        d = s_end["inner"][0]; need(s_end.get("kind") == "DeclStmt" and d.get("name") == "rnd_end" and member_call(d["inner"][0], "end") == "rnd", "auto rnd_end = rnd.end()")
        d = s_ptr["inner"][0]; need(s_ptr.get("kind") == "DeclStmt" and d.get("name") == "rnd_ptr" and ref(d["inner"][0]).get("name") == "rnd_end", "auto rnd_ptr = rnd_end")
        # ---- the position loop
        need(s_loop.get("kind") == "ForStmt", "position loop")
        init, _, cond, inc, lb = s_loop["inner"]
        kd = init["inner"][0]; need(init.get("kind") == "DeclStmt" and kd.get("name") == "k" and c2c.ctype(kd) == (0, 64), "size_t k")
        k0 = T.pure(kd["inner"][0])
        need(cond.get("opcode") == "<" and ref(cond["inner"][0]).get("name") == "k" and ref(cond["inner"][1]).get("name") == "degree", "k < degree")
        need(inc.get("kind") == "UnaryOperator" and inc.get("opcode") == "++" and ref(inc["inner"][0]).get("name") == "k", "++k")
        lb = lb.get("inner", []) or []
        need(len(lb) == 4, "position loop body")
        dpos, drej, inner, slot = lb
        need(dpos.get("kind") == "DeclStmt" and dpos["inner"][0].get("name") == "pos" and c2c.ctype(dpos["inner"][0]) == (0, 64) and strip(dpos["inner"][0]["inner"][0]).get("value") == "0", "size_t pos = 0")
        need(drej.get("kind") == "DeclStmt" and drej["inner"][0].get("name") == "reject_sample" and c2c.ctype(drej["inner"][0]) == (0, 64), "size_t reject_sample")
        rej = T.pure(drej["inner"][0]["inner"][0], k="k")
        need(inner.get("kind") == "ForStmt" and all(not x for x in inner["inner"][:4]), "for (;;)")
        ib = inner["inner"][4].get("inner", []) or []
        need(len(ib) == 3, "rejection loop body")
        refill, take, test = ib
        need(refill.get("kind") == "IfStmt" and len(refill["inner"]) == 2, "refill test")
        rc = strip(refill["inner"][0])
        need(rc.get("kind") == "CXXOperatorCallExpr" and callee(rc) == "operator==" and ref(rc["inner"][1]).get("name") == "rnd_ptr" and ref(rc["inner"][2]).get("name") == "rnd_end", "rnd_ptr == rnd_end")
        rb = refill["inner"][1].get("inner", []) or []
        need(len(rb) == 2, "refill body")
        nb1 = frb(rb[0], "rnd", T); iter_assign(rb[1], "rnd_ptr", "rnd", "begin")
        tk = strip(take)
        need(tk.get("kind") == "BinaryOperator" and tk.get("opcode") == "=" and ref(tk["inner"][0]).get("name") == "pos" and deref_postinc(tk["inner"][1], "rnd_ptr"), "pos = *rnd_ptr++")
        need(test.get("kind") == "IfStmt" and len(test["inner"]) == 2, "acceptance test")
        acc = T.pure(test["inner"][0], pos="w", reject_sample="r", k="k")
        tb = test["inner"][1].get("inner", []) or []
        need(len(tb) == 2 and tb[1].get("kind") == "BreakStmt" and tb[0].get("kind") == "CompoundAssignOperator" and tb[0].get("opcode") == "%=" and ref(tb[0]["inner"][0]).get("name") == "pos", "pos %= ...; break")
        old = dict(T.env); T.env.update({"pos": "w", "k": "k"})
        try: red = T.expr(tb[0]["inner"][1], lambda tb_: "(w mod %s)" % tb_)
        finally: T.env = old
        need(c2c.ctype({"type": tb[0]["computeResultType"]}) == (0, 64) and c2c.ctype(tb[0]["inner"][0]) == (0, 64), "pos %= in size_t")
        need(slot.get("kind") == "IfStmt" and len(slot["inner"]) == 2, "slot test")
        hit = T.pure(slot["inner"][0], pos="pos")
        sa = strip(slot["inner"][1])
        need(sa.get("kind") == "BinaryOperator" and sa.get("opcode") == "=", "hitted[pos] = k")
        l = strip(sa["inner"][0])
        need(l.get("kind") == "CXXOperatorCallExpr" and callee(l) == "operator[]" and ref(l["inner"][1]).get("name") == "hitted" and ref(l["inner"][2]).get("name") == "pos" and ref(sa["inner"][1]).get("name") == "k", "hitted[pos] = k")
        # ---- sort, clear, refill
        need(begin_end(s_sort, "sort", "hitted") == [], "std::sort(hitted.begin(), hitted.end())")
        def is_data(e):
            e = strip(e); return e.get("kind") == "MemberExpr" and e.get("name") == "_data" and strip(e["inner"][0]).get("kind") == "CXXThisExpr"
        zb = memset0(s_clear, is_data, T)
        nb2 = frb(s_fill, "rnd", T)
        # ---- the modulus loop
        need(s_mods.get("kind") == "ForStmt", "modulus loop")
        init, _, cond, inc, mb = s_mods["inner"]
        ds = init.get("inner", [])
        need(init.get("kind") == "DeclStmt" and [x.get("name") for x in ds] == ["cm", "offset"] and all(c2c.ctype(x) == (0, 64) and strip(x["inner"][0]).get("value") == "0" for x in ds), "size_t cm = 0, offset = 0")
        need(cond.get("opcode") == "<" and ref(cond["inner"][0]).get("name") == "cm" and T.pure(cond["inner"][1]) == "nmoduli", "cm < NbModuli")
        need(inc.get("kind") == "BinaryOperator" and inc.get("opcode") == "," and inc["inner"][0].get("opcode") == "++" and ref(inc["inner"][0]["inner"][0]).get("name") == "cm" and
             inc["inner"][1].get("kind") == "CompoundAssignOperator" and inc["inner"][1].get("opcode") == "+=" and ref(inc["inner"][1]["inner"][0]).get("name") == "offset" and c2c.ctype({"type": inc["inner"][1]["computeResultType"]}) == (0, 64), "++cm, offset += ...")
        old = dict(T.env)
        try: offinc = T.expr(inc["inner"][1]["inner"][1], lambda t: "(uw 64 (offset + %s))" % t)
        finally: T.env = old
        mb = mb.get("inner", []) or []
        need(len(mb) == 3, "modulus loop body")
        dpm, rewind, rf = mb
        pd = dpm["inner"][0]
        need(dpm.get("kind") == "DeclStmt" and pd.get("name") == "pm" and c2c.ctype(pd) == (0, bits), "const T pm")
        pm = T.pure(pd["inner"][0], cm="cm")
        iter_assign(rewind, "rnd_ptr", "rnd", "begin")
        need(rf.get("kind") == "CXXForRangeStmt", "range-for over hitted")
        parts = rf["inner"]
        need(ref(parts[1]["inner"][0]["inner"][0]).get("name") == "hitted", "for (... : hitted)")
        lv = parts[-2]["inner"][0]
        need(parts[-2].get("kind") == "DeclStmt" and lv.get("name") == "pos" and c2c.ctype(lv) == (0, 64) and "&" not in lv["type"]["qualType"], "size_t pos")
        stt = strip(parts[-1])
        need(stt.get("kind") == "BinaryOperator" and stt.get("opcode") == "=", "_data[pos + offset] = ...")
        l = strip(stt["inner"][0])
        need(l.get("kind") == "ArraySubscriptExpr" and is_data(l["inner"][0]) and c2c.ctype(l) == (0, bits), "_data[...]")
        idx = T.pure(l["inner"][1], pos="pos", offset="offset")
        # the stored value: the one occurrence of *rnd_ptr++ is the word w
        vexp = stt["inner"][1]; cnt = [0]
        class VT(HTr):
            def expr(s2, e, k):
                if deref_postinc(e, "rnd_ptr"): cnt[0] += 1; return k("w")
                return HTr.expr(s2, e, k)
        V = VT(bits); V.env.update({"pm": "pm"})
        val = V.expr(vexp, lambda t: t)
        need(cnt[0] == 1, "one read of *rnd_ptr++ per stored value")
        need(memset0(s_wipe, lambda e: member_call(e, "data") == "hitted", T) is not None, "memset(hitted.data(), 0, ...)")
        text = ("Definition %s (fuel : nat) (degree : Z) (_data : list Z) (h : Z) (nmoduli : Z) (P : list Z) (tape : list Z) : option (list Z * list Z) :=\n"
                "  hwt_prog fuel %d degree nmoduli _data tape\n"
                "    %s %s %s\n"
                "    (fun k => %s)\n    (fun w r k => %s)\n    (fun w k => %s)\n    (fun pos => %s)\n"
                "    (fun rnd_size => %s) (fun rnd_size => %s) %s\n"
                "    (fun cm => %s) (fun pos offset => %s) (fun w pm => %s) (fun offset => %s).") % (name, bits // 8, hsz, iota0, k0, rej, acc, red, hit, nb1, nb2, zb, pm, idx, val, offinc)
        return name, text, "ok"
    except Unsupported as ex:
        return name, None, "unsupported: %s" % ex
    except RuntimeError as ex:
        return name, None, "clang: %s" % str(ex)[-200:]

def main():
    with multiprocessing.Pool(3) as pool: res = pool.map(one, list(TN))
    out = []; index = []
    for name, text, st in res:
        index.append("%s [%s]" % (name, st))
        if text: out.append(text + "\n")
    txt = ["( * GENERATED by tools/cxxhwt2coq.py from include/nfl/core.hpp -- do not edit.  poly::set(hwt_dist const&): the control skeleton HwtSem.hwt_prog with every".replace("( *", "(*"),
           "   integer expression of the source translated (C++ integer semantics). *)",
           "From Coq Require Import ZArith Bool List.", "From NTT Require Import CxxSem MemSem HwtSem.", "Local Open Scope Z_scope.", ""] + out + ["(* index: " + "; ".join(index) + " *)"]
    open(OUT, "w").write("\n".join(txt) + "\n")
    for i in index: print(i)

if __name__ == "__main__":
    main()
