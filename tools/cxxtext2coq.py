#!/usr/bin/env python3
# cxxtext2coq.py <repo> <out.v>: operator<<(std::ostream&, poly<T,Degree,NbModuli> const&) of include/nfl/core.hpp -- the textual form of a polynomial --
# translated from clang's AST for the three limb types.  The state is (first : bool, term : string, outs : the characters appended to the stream);
# statements: declarations of the bool and of the string, `term = "literal"`, `if (typeid(A) == typeid(B))` (decided at translation time: both types are
# known in the instantiation), chains `outs << piece << piece ...` (a piece is a string literal, the string `term`, or an UNSIGNED integer variable,
# printed in decimal: Text.dec), `if (first) ... else ...`, `first = false`, the range-for over the polynomial (its words in storage order), and
# `return outs << ...`.  Strings are lists of character codes.
import sys, os, re, multiprocessing
sys.path.insert(0, os.path.dirname(os.path.abspath(__file__)))
REPO = sys.argv[1] if len(sys.argv) > 1 else "/repo"
OUT = sys.argv[2] if len(sys.argv) > 2 else "/dev/stdout"
_argv = sys.argv; sys.argv = [_argv[0], REPO]
import cxx2coq as c2c
sys.argv = _argv
from cxx2coq import Unsupported, walk
TN = {"unsigned short": ("uint16_t", 16), "unsigned int": ("uint32_t", 32), "unsigned long": ("uint64_t", 64)}
UNSIGNED = ("unsigned short", "unsigned int", "unsigned long", "unsigned long long")

def strip(e):
    while e.get("kind") in ("ImplicitCastExpr", "ParenExpr", "ExprWithCleanups", "MaterializeTemporaryExpr", "CXXBindTemporaryExpr") and e.get("inner"): e = e["inner"][0]
    return e
def callee(e):
    for n in walk(e["inner"][0]):
        if n.get("kind") == "DeclRefExpr": return n["referencedDecl"].get("name")
    return None
def dq(t): return t.get("desugaredQualType", t.get("qualType", "")).replace("const ", "").strip()
def lit(s):
    v = s["value"]
    if not (v.startswith('"') and v.endswith('"')) or "\\" in v: raise Unsupported("string literal %s" % v)
    return "[" + "; ".join(str(ord(c)) for c in v[1:-1]) + "]%N"

class TT:
    def __init__(self, ct): self.ct = ct; self.vars = {}
    def piece(self, e):
        e = strip(e)
        if e.get("kind") == "StringLiteral": return lit(e)
        if e.get("kind") == "DeclRefExpr":
            nm = e["referencedDecl"]["name"]
            if self.vars.get(nm) == "string": return nm
            if self.vars.get(nm) == "word":
                if dq(e["type"]) not in UNSIGNED: raise Unsupported("stream insertion of %s, which is not an unsigned integer" % dq(e["type"]))
                return "(dec %s)" % nm
        raise Unsupported("stream insertion of " + e.get("kind", "?"))
    def chain(self, e):
        """outs << a << b ... -> list of pieces, innermost first"""
        e = strip(e)
        if e.get("kind") == "DeclRefExpr" and e["referencedDecl"]["name"] == "outs": return []
        if e.get("kind") == "CXXOperatorCallExpr" and callee(e) == "operator<<" and len(e["inner"]) == 3: return self.chain(e["inner"][1]) + [self.piece(e["inner"][2])]
        raise Unsupported("not a chain of insertions into outs")
    def ins(self, e):
        t = "outs"
        for p in self.chain(e): t = "(%s ++ %s)" % (t, p)
        return t
    def block(self, items, k):
        if not items: return k()
        return self.stmt(items[0], lambda: self.block(items[1:], k))
    def body(self, s): return (s.get("inner", []) or []) if s.get("kind") == "CompoundStmt" else [s]
    def stmt(self, s, k):
        kd = s.get("kind")
        if kd == "DeclStmt" and len(s["inner"]) == 1:
            d = s["inner"][0]
            if dq(d["type"]) == "bool" and strip(d["inner"][0]).get("kind") == "CXXBoolLiteralExpr":
                self.vars[d["name"]] = "bool"; return "(let %s := %s in %s)" % (d["name"], "true" if strip(d["inner"][0])["value"] else "false", k())
            if "basic_string<char>" in dq(d["type"]) and d["inner"][0].get("kind") == "CXXConstructExpr" and not d["inner"][0].get("inner"):
                self.vars[d["name"]] = "string"; return "(let %s := (@nil N) in %s)" % (d["name"], k())
            raise Unsupported("declaration of %s" % d.get("name"))
        if kd == "IfStmt":
            parts = s["inner"]; c = strip(parts[0])
            if c.get("kind") == "CXXOperatorCallExpr" and callee(c) == "operator==" and all(x.get("kind") == "CXXTypeidExpr" for x in c["inner"][1:]):
                same = dq(c["inner"][1]["typeArg"]) == dq(c["inner"][2]["typeArg"])
                chosen = parts[1] if same else (parts[2] if len(parts) > 2 else None)
                return self.block(self.body(chosen), k) if chosen is not None else k()
            if c.get("kind") == "DeclRefExpr" and self.vars.get(c["referencedDecl"]["name"]) == "bool" and len(parts) == 3:
                return "(let '(first, outs) := (if %s then %s else %s) in %s)" % (c["referencedDecl"]["name"], self.block(self.body(parts[1]), lambda: "(first, outs)"), self.block(self.body(parts[2]), lambda: "(first, outs)"), k())
            raise Unsupported("condition")
        if kd == "CXXOperatorCallExpr" and callee(s) == "operator=" and strip(s["inner"][1]).get("kind") == "DeclRefExpr" and self.vars.get(strip(s["inner"][1])["referencedDecl"]["name"]) == "string":
            return "(let %s := %s in %s)" % (strip(s["inner"][1])["referencedDecl"]["name"], lit(strip(s["inner"][2])), k())
        if kd == "BinaryOperator" and s.get("opcode") == "=" and strip(s["inner"][0]).get("kind") == "DeclRefExpr" and self.vars.get(strip(s["inner"][0])["referencedDecl"]["name"]) == "bool" and strip(s["inner"][1]).get("kind") == "CXXBoolLiteralExpr":
            return "(let %s := %s in %s)" % (strip(s["inner"][0])["referencedDecl"]["name"], "true" if strip(s["inner"][1])["value"] else "false", k())
        if kd == "CXXOperatorCallExpr" and callee(s) == "operator<<": return "(let outs := %s in %s)" % (self.ins(s), k())
        if kd == "CXXForRangeStmt":
            parts = s["inner"]
            rng = parts[1]["inner"][0]
            if strip(rng["inner"][0]).get("referencedDecl", {}).get("name") != "p": raise Unsupported("range-for over something else than the polynomial")
            lv = parts[-2]["inner"][0]
            if dq(lv["type"]) != self.ct or "&" in lv["type"]["qualType"]: raise Unsupported("loop variable of type %s, the limb type is %s" % (lv["type"]["qualType"], self.ct))
            d = strip(lv["inner"][0])
            if not (d.get("kind") == "UnaryOperator" and d.get("opcode") == "*"): raise Unsupported("loop variable initialiser")
            self.vars[lv["name"]] = "word"
            body = self.block(self.body(parts[-1]), lambda: "(first, outs)")
            return "(let '(first, outs) := fold_left (fun (st_ : bool * list N) (%s : N) => let '(first, outs) := st_ in %s) data (first, outs) in %s)" % (lv["name"], body, k())
        if kd == "ReturnStmt": return self.ins(s["inner"][0])
        raise Unsupported("statement " + str(kd))

def one(ct):
    cname, bits = TN[ct]; name = "gen_print_u%d" % bits
    tu = "#include <nfl.hpp>\nvoid force_instantiation(nfl::poly<%s, 64, 2>& a) { std::cout << a; }\n" % cname
    try:
        objs = c2c.clang_ast(tu, "nfl", [])
        fn = None
        for o in objs:
            for n in walk(o):
                if n.get("kind") == "FunctionDecl" and n.get("name") == "operator<<" and any(c.get("kind") == "CompoundStmt" for c in n.get("inner", [])):
                    ps = [q for q in n["inner"] if q.get("kind") == "ParmVarDecl"]
                    if len(ps) == 2 and ("poly<%s, 64UL, 2UL>" % ct) in ps[1]["type"].get("qualType", "") and ps[0].get("name") == "outs" and ps[1].get("name") == "p": fn = n
        if fn is None: raise Unsupported("operator<<(std::ostream& outs, poly const& p) not found")
        T = TT(ct)
        items = [c for c in fn["inner"] if c.get("kind") == "CompoundStmt"][0].get("inner", []) or []
        if not items or items[-1].get("kind") != "ReturnStmt": raise Unsupported("no final return")
        text = T.block(items, lambda: "outs")
        return name, "Definition %s (data : list N) : list N :=\n  (let outs := (@nil N) in %s)." % (name, text), "ok"
    except Unsupported as ex:
        return name, None, "unsupported: %s" % ex
    except RuntimeError as ex:
        return name, None, "clang: %s" % str(ex)[-200:]

def main():
    with multiprocessing.Pool(3) as pool: res = pool.map(one, list(TN))
    out = []; index = []
    for name, text, st in res:
        index.append("%s [%s]" % (name, st))
        if text: out.append(text + "\n")
    txt = ["(" + "* GENERATED by tools/cxxtext2coq.py from include/nfl/core.hpp -- do not edit.  operator<<(std::ostream&, poly const&): the characters appended to the stream. *)",
           "From Coq Require Import NArith List.", "From NTT Require Import Text.", "Import ListNotations.", "Local Open Scope N_scope.", ""] + out + ["(* index: " + "; ".join(index) + " *)"]
    open(OUT, "w").write("\n".join(txt) + "\n")
    for i in index: print(i)

if __name__ == "__main__":
    main()
