#!/usr/bin/env python3
# cxx2coq.py -- translator from (a small, expression-level subset of) the library's C++ to Gallina.
# It asks clang for the JSON AST of EXPLICIT INSTANTIATIONS of the functors (so every implicit conversion and integer promotion is an
# explicit, concretely typed node) and emits one Coq definition per (function, limb type).  The semantics of the emitted operators is
# in coq/CxxSem.v: unsigned arithmetic wraps at the width of its C type, conversions to signed types are two's complement, signed
# arithmetic that leaves its type is undefined behaviour (None).  Every generated function returns an option.
#
# usage: cxx2coq.py <repo> <out.v>
import sys, os, json, subprocess, re

REPO = sys.argv[1] if len(sys.argv) > 1 else "/repo"
OUT = sys.argv[2] if len(sys.argv) > 2 else "/dev/stdout"

TYPES = {  # canonical C type -> (signed, bits)
    "unsigned char": (0, 8), "unsigned short": (0, 16), "unsigned int": (0, 32), "unsigned long": (0, 64), "unsigned long long": (0, 64),
    "unsigned __int128": (0, 128), "__uint128_t": (0, 128),
    "signed char": (1, 8), "char": (1, 8), "short": (1, 16), "int": (1, 32), "long": (1, 64), "long long": (1, 64), "__int128": (1, 128),
    "bool": (0, 1),
}
LIMB = {"unsigned short": 16, "unsigned int": 32, "unsigned long": 64}

class Unsupported(Exception): pass

def ctype(node):
    t = node.get("type", {})
    q = t.get("desugaredQualType", t.get("qualType", ""))
    q = q.replace("const ", "").replace("volatile ", "").strip()
    if q in TYPES: return TYPES[q]
    if q.endswith("*") or q.endswith("]"): return ("ptr", q)
    raise Unsupported("type %r" % t)

def clang_ast(tu_text, flt, extra=()):
    p = "/tmp/cxx2coq_%d.cpp" % os.getpid()
    open(p, "w").write(tu_text)
    cmd = ["clang++", "-std=c++11", "-fsyntax-only", "-w", "-I%s/include" % REPO, "-I%s/include/nfl" % REPO] + list(extra) + \
          ["-Xclang", "-ast-dump=json", "-Xclang", "-ast-dump-filter=" + flt, p]
    r = subprocess.run(cmd, stdout=subprocess.PIPE, stderr=subprocess.PIPE, text=True)
    os.remove(p)
    if r.returncode != 0: raise RuntimeError("clang failed: " + r.stderr[-2000:])
    txt = r.stdout; dec = json.JSONDecoder(); i = 0; objs = []
    while i < len(txt):
        while i < len(txt) and txt[i] in " \n\r\t": i += 1
        if i >= len(txt): break
        if txt[i] != "{":
            j = txt.find("\n", i); i = j + 1 if j >= 0 else len(txt); continue
        o, j = dec.raw_decode(txt, i); objs.append(o); i = j
    return objs

def walk(n):
    yield n
    for c in n.get("inner", []) or []:
        yield from walk(c)

# ---------------------------------------------------------------- expression translation (CPS: k receives a pure Coq term)
class Tr:
    def __init__(self, limb_bits, consts, calls):
        self.w = limb_bits; self.consts = consts; self.calls = calls
        self.env = {}          # C variable name -> current Coq name
        self.n = 0
        self.cells_in = []     # input cells (pointer / array reads), in order of first use
        self.cells_out = {}    # written cells -> Coq term
        self.params = []       # scalar value parameters
    def fresh(self, base):
        self.n += 1; return "%s_%d" % (re.sub(r"\W", "_", base), self.n)
    def conv(self, dst, src, term):
        """integral conversion of a value of C type src to C type dst"""
        if dst == src: return term
        if dst[0] == "ptr" or src[0] == "ptr": raise Unsupported("pointer conversion")
        ds, db = dst; ss, sb = src
        if db == 1 and ds == 0: return "(negb (%s =? 0))" % term          # to bool
        if re.fullmatch(r"\d+", term) and int(term) < 2 ** (db - ds): return term   # a literal that fits
        if src == (0, 1): term = "(Z.b2z %s)" % term; ss, sb = 0, 1
        if ds == 0:
            if ss == 0 and sb <= db: return term
            return "(uw %d %s)" % (db, term)
        else:
            if ss == 0 and sb < db: return term
            if ss == 1 and sb <= db: return term
            return "(sw %d %s)" % (db, term)
    def cell(self, name):
        if name in self.cells_out: return self.cells_out[name]
        if name not in self.cells_in: self.cells_in.append(name)
        return name
    def lvalue_name(self, e):
        """name of the storage an lvalue expression denotes: ('var', name) or ('cell', name)"""
        k = e["kind"]
        if k == "ParenExpr": return self.lvalue_name(e["inner"][0])
        if k == "DeclRefExpr": return ("var", e["referencedDecl"]["name"])
        if k == "UnaryOperator" and e.get("opcode") == "*":
            return ("cell", self.ptr_name(e["inner"][0]))
        if k == "ArraySubscriptExpr":
            base = self.ptr_name(e["inner"][0]); idx = self.const_int(e["inner"][1])
            return ("cell", "%s_%d" % (base, idx))
        if k == "MemberExpr": return ("var", e["name"])
        raise Unsupported("lvalue " + k)
    def ptr_name(self, e):
        k = e["kind"]
        if k in ("ImplicitCastExpr", "ParenExpr"): return self.ptr_name(e["inner"][0])
        if k == "DeclRefExpr": return e["referencedDecl"]["name"]
        if k == "MemberExpr": return e["name"]
        raise Unsupported("pointer expression " + k)
    def const_int(self, e):
        k = e["kind"]
        if k in ("ImplicitCastExpr", "ParenExpr"): return self.const_int(e["inner"][0])
        if k == "IntegerLiteral": return int(e["value"])
        raise Unsupported("non-constant index " + k)
    def read_lvalue(self, e):
        kind, name = self.lvalue_name(e)
        if kind == "cell": return self.cell(name)
        if name in self.consts: return str(self.consts[name])
        if name not in self.env:
            if name not in self.params: self.params.append(name)
            self.env[name] = name
        return self.env[name]
    def expr(self, e, k):
        kind = e["kind"]
        if kind in ("ParenExpr", "ExprWithCleanups", "MaterializeTemporaryExpr", "ConstantExpr", "CXXBindTemporaryExpr"): return self.expr(e["inner"][0], k)
        if kind == "IntegerLiteral": return k(str(int(e["value"])))
        if kind == "CXXBoolLiteralExpr": return k("true" if e["value"] else "false")
        if kind in ("ImplicitCastExpr", "CStyleCastExpr", "CXXStaticCastExpr", "CXXFunctionalCastExpr"):
            ck = e.get("castKind")
            sub = e["inner"][0]
            if ck == "LValueToRValue":
                # params<T>::P[cm] / Pn[cm]: table cells become the parameters p / pn
                if sub["kind"] == "ArraySubscriptExpr":
                    base = self.ptr_name(sub["inner"][0])
                    if base == "P": self.note_param("p"); return k("p")
                    if base == "Pn": self.note_param("pn"); return k("pn")
                return k(self.read_lvalue(sub))
            if ck in ("NoOp", "ConstructorConversion", "UserDefinedConversion"): return self.expr(sub, k)
            if ck in ("IntegralCast", "IntegralToBoolean"):
                dst = ctype(e); src = ctype(sub)
                return self.expr(sub, lambda t: k(self.conv(dst, src, t)))
            raise Unsupported("cast " + str(ck))
        if kind == "DeclRefExpr":
            name = e["referencedDecl"]["name"]
            if name in self.consts: return k(str(self.consts[name]))
            return k(self.read_lvalue(e))
        if kind == "UnaryOperator":
            op = e["opcode"]; sub = e["inner"][0]
            if op == "!": return self.expr(sub, lambda t: k("(negb %s)" % t))
            if op == "-":
                ty = ctype(e)
                return self.expr(sub, lambda t: self.arith(ty, "(- %s)" % t, k))
            raise Unsupported("unary " + op)
        if kind == "BinaryOperator":
            op = e["opcode"]; a, b = e["inner"]
            if op in ("<", "<=", ">", ">=", "==", "!="):
                cop = {"<": "<?", "<=": "<=?", ">": ">?", ">=": ">=?", "==": "=?"}.get(op)
                if op == "!=": return self.expr(a, lambda ta: self.expr(b, lambda tb: k("(negb (%s =? %s))" % (ta, tb))))
                return self.expr(a, lambda ta: self.expr(b, lambda tb: k("(%s %s %s)" % (ta, cop, tb))))
            if op in ("&&", "||"):
                cop = "&&" if op == "&&" else "||"
                return self.expr(a, lambda ta: self.expr(b, lambda tb: k("(%s %s %s)" % (ta, cop, tb))))
            ty = ctype(e)
            return self.expr(a, lambda ta: self.expr(b, lambda tb: self.arith(ty, self.binop(op, ta, tb), k, op)))
        if kind == "ConditionalOperator":
            c, a, b = e["inner"]
            return self.expr(c, lambda tc: self.expr(a, lambda ta: self.expr(b, lambda tb: k("(if %s then %s else %s)" % (tc, ta, tb)))))
        if kind in ("CXXOperatorCallExpr", "CallExpr"):
            callee = None
            for n in walk(e["inner"][0]):
                if n.get("kind") == "DeclRefExpr" and n.get("referencedDecl", {}).get("name") == "operator()": callee = n
            args = e["inner"][1:]
            # the object argument (functor temporary) tells which functor is called
            fname = None
            for n in walk(args[0]):
                q = n.get("type", {}).get("qualType", "")
                m = re.search(r"nfl::ops::(\w+)<", q)
                if m: fname = m.group(1); break
            if callee is None or fname not in self.calls: raise Unsupported("call to %s" % fname)
            vals = args[1:-1]                                   # drop the functor object and the modulus index cm
            def go(i, acc):
                if i == len(vals):
                    self.note_param("p"); cn = self.calls[fname]
                    if isinstance(cn, tuple):                                   # (name, extra modulus-dependent parameters such as pn)
                        for x_ in cn[1]: self.note_param(x_)
                        cn = cn[0] + " p " + " ".join(cn[1])
                    else: cn = cn + " p"
                    return "(bind (%s %s) (fun %s => %s))" % (cn, " ".join(acc), "r_call", k("r_call"))
                return self.expr(vals[i], lambda t: go(i + 1, acc + [t]))
            return go(0, [])
        raise Unsupported("expression " + kind)
    def note_param(self, name):
        if name not in self.params: self.params.append(name)
    def binop(self, op, a, b):
        if op in ("+", "-", "*"): return "(%s %s %s)" % (a, op, b)
        if op == "/": return "(%s / %s)" % (a, b)
        if op == "%": return "(%s mod %s)" % (a, b)
        if op == ">>": return "(%s / 2 ^ %s)" % (a, b)
        if op == "<<": return "(%s * 2 ^ %s)" % (a, b)
        if op == "&": return "(Z.land %s %s)" % (a, b)
        if op == "|": return "(Z.lor %s %s)" % (a, b)
        if op == "^": return "(Z.lxor %s %s)" % (a, b)
        raise Unsupported("binary " + op)
    def arith(self, ty, term, k, op=None):
        """result of an arithmetic operator computed in C type ty"""
        s, b = ty
        if s == 0:
            if op in (">>", "/", "%", "&", "|", "^"): return k(term)          # cannot leave the type
            return k("(uw %d %s)" % (b, term))
        v = self.fresh("s")
        return "(bind (chk %d %s) (fun %s => %s))" % (b, term, v, k(v))
    # ------------------------------------------------------------ statements: return Coq text with a hole for the continuation
    def assign(self, lhs, term, k):
        kind, name = self.lvalue_name(lhs)
        if kind == "cell":
            v = self.fresh(name); self.cells_out[name] = v
            return "(let %s := %s in %s)" % (v, term, k())
        v = self.fresh(name); self.env[name] = v
        return "(let %s := %s in %s)" % (v, term, k())
    def stmt(self, s, k):
        """k() gives the translation of what follows; returns the translation of s followed by that"""
        kind = s["kind"]
        if kind == "NullStmt": return k()
        if kind == "CompoundStmt":
            items = s.get("inner", []) or []
            def go(i):
                if i == len(items): return k()
                return self.stmt(items[i], lambda: go(i + 1))
            return go(0)
        if kind == "DeclStmt":
            items = [d for d in s.get("inner", []) if d["kind"] == "VarDecl"]
            def go(i):
                if i == len(items): return k()
                d = items[i]
                if "inner" not in d or not d["inner"]:
                    self.env[d["name"]] = "0"; return go(i + 1)          # uninitialised local: assigned before use
                def bindv(t, d=d, i=i):
                    v = self.fresh(d["name"]); self.env[d["name"]] = v
                    return "(let %s := %s in %s)" % (v, t, go(i + 1))
                return self.expr(d["inner"][-1], bindv)
            return go(0)
        if kind == "ReturnStmt":
            self.returned = True
            return self.expr(s["inner"][0], lambda t: self.finish(t))
        if kind == "BinaryOperator" and s.get("opcode") == "=":
            lhs, rhs = s["inner"]
            return self.expr(rhs, lambda t: self.assign(lhs, t, k))
        if kind == "CompoundAssignOperator":
            lhs, rhs = s["inner"]; op = s["opcode"][:-1]
            lty = ctype(lhs)
            def types(key):
                t = s.get(key, {}); q = t.get("desugaredQualType", t.get("qualType", "")).replace("const ", "").strip()
                return TYPES[q]
            clt, crt = types("computeLHSType"), types("computeResultType")
            cur = self.read_lvalue(lhs)
            a = self.conv(clt, lty, cur)
            return self.expr(rhs, lambda tb: self.arith(crt, self.binop(op, a, tb), lambda r: self.assign(lhs, self.conv(lty, crt, r), k), op))
        if kind == "IfStmt":
            parts = s["inner"]; cond, then = parts[0], parts[1]; els = parts[2] if len(parts) > 2 else None
            # only assignments to locals/cells inside the branches: translate each branch to the tuple of the variables it may modify
            mod = sorted(self.modified(then) | (self.modified(els) if els else set()))
            if not mod: raise Unsupported("if without effect")
            saved_env, saved_out = dict(self.env), dict(self.cells_out)
            def branch(b):
                self.env, self.cells_out = dict(saved_env), dict(saved_out)
                if b is None: return "Some (%s)" % ", ".join(self.cur(m) for m in mod)
                return self.stmt(b, lambda: "Some (%s)" % ", ".join(self.cur(m) for m in mod))
            def after(tc):
                tb = branch(then); eb = branch(els)
                self.env, self.cells_out = dict(saved_env), dict(saved_out)
                names = []
                for m in mod:
                    v = self.fresh(m[1]); names.append(v)
                    if m[0] == "cell": self.cells_out[m[1]] = v
                    else: self.env[m[1]] = v
                pat = names[0] if len(names) == 1 else "'(%s)" % ", ".join(names)
                return "(bind (if %s then %s else %s) (fun %s => %s))" % (tc, tb, eb, pat, k())
            return self.expr(cond, after)
        if kind == "WhileStmt":
            cond, body = s["inner"][-2], s["inner"][-1]
            mod = sorted(self.modified(body))
            if len(mod) != 1 or mod[0][0] != "var": raise Unsupported("while modifying %s" % (mod,))
            name = mod[0][1]; cur = self.cur(mod[0])
            saved = dict(self.env)
            lv = self.fresh(name); self.env[name] = lv
            tc = self.expr(cond, lambda t: t)
            tb = self.stmt(body, lambda: "Some %s" % self.cur(mod[0]))
            self.env = dict(saved)
            nv = self.fresh(name); self.env[name] = nv
            return "(bind (while1 fuel (fun %s => %s) (fun %s => %s) %s) (fun %s => %s))" % (lv, tc, lv, tb, cur, nv, k())
        raise Unsupported("statement " + kind)
    def cur(self, m):
        if m[0] == "cell": return self.cell(m[1])
        if m[1] not in self.env:
            self.note_param(m[1]); self.env[m[1]] = m[1]
        return self.env[m[1]]
    def modified(self, s):
        out = set()
        if s is None: return out
        for n in walk(s):
            if (n.get("kind") == "BinaryOperator" and n.get("opcode") == "=") or n.get("kind") == "CompoundAssignOperator":
                out.add(self.lvalue_name(n["inner"][0]))
        return out
    def finish(self, ret=None):
        outs = [self.cells_out[c] for c in self.out_order()]
        if ret is not None: outs = [ret] + outs
        return "Some (%s)" % ", ".join(outs) if len(outs) != 1 else "Some %s" % outs[0]
    def out_order(self):
        return sorted(self.cells_out)

def translate_body(body, limb_bits, consts, calls, name, fixed_params=None):
    tr = Tr(limb_bits, consts, calls); tr.returned = False
    code = tr.stmt(body, lambda: tr.finish())
    params = list(fixed_params) if fixed_params else []
    used = tr.params + tr.cells_in
    for p_ in ["p", "pn", "_p"] + body.get("_params", []) + used:          # modulus first, then the C++ parameter order
        if p_ in used and p_ not in params: params.append(p_)
    uses_fuel = "while1 fuel" in code
    sig = (["fuel"] if uses_fuel else []) + params
    return "Definition %s %s :=\n  %s." % (name, " ".join("(%s : %s)" % (p_, "nat" if p_ == "fuel" else "Z") for p_ in sig), code), sig, tr.out_order()

# ---------------------------------------------------------------- what is translated
def find_method(objs, record_pred, method="operator()"):
    for o in objs:
        for n in walk(o):
            if n.get("kind") in ("ClassTemplateSpecializationDecl", "CXXRecordDecl") and record_pred(n):
                for c in n.get("inner", []) or []:
                    if c.get("kind") == "CXXMethodDecl" and c.get("name") == method:
                        for b in c.get("inner", []) or []:
                            if b.get("kind") == "CompoundStmt":
                                b["_params"] = [q_["name"] for q_ in c.get("inner", []) if q_.get("kind") == "ParmVarDecl" and q_.get("name") != "cm"]
                                return b
    return None

def targs(n):
    return [a.get("type", {}).get("qualType") for a in n.get("inner", []) if a.get("kind") == "TemplateArgument"]

def main():
    out = ["(* GENERATED by tools/cxx2coq.py from the library's C++ on every run -- do not edit. *)",
           "From Coq Require Import ZArith Bool.", "From NTT Require Import CxxSem.", "Local Open Scope Z_scope.", ""]
    index = []
    tnames = {"unsigned short": ("uint16_t", 16), "unsigned int": ("uint32_t", 32), "unsigned long": ("uint64_t", 64)}
    functors = [("addmod", "ops.hpp", []), ("submod", "ops.hpp", []), ("mulmod", "ops.hpp", []), ("compute_shoup", "ops.hpp", []), ("mulmod_shoup", "ops.hpp", []),
                ("muladd", "opt", ["-DNFL_OPTIMIZED"]), ("muladd_shoup", "opt", ["-DNFL_OPTIMIZED"])]
    for ct, (cname, bits) in tnames.items():
        consts = {"kModulusRepresentationBitsize": bits, "kModulusBitsize": bits - 2, "shift": bits}
        calls = {}
        for fn, _, extra in functors:
            tu = "#include <nfl.hpp>\ntemplate struct nfl::ops::%s<%s, nfl::simd::serial>;\n" % (fn, cname)
            objs = clang_ast(tu, fn, extra)
            body = find_method(objs, lambda n: n.get("name") == fn and targs(n)[:2] == [ct, "nfl::simd::serial"] and any(c.get("kind") == "CXXMethodDecl" for c in n.get("inner", [])))
            if body is None:
                # the generic (partial) specialisation is instantiated implicitly: search every record of that name with the right arguments
                body = find_method(objs, lambda n: n.get("name") == fn and ct in (targs(n) or [None])[:1])
            gname = "gen_%s_u%d" % (fn, bits)
            if body is None:
                index.append((gname, None, "not found")); continue
            try:
                c2 = dict(consts)
                if fn in ("mulmod", "muladd") and bits == 64: c2.pop("shift")      # there `shift` is a local initialised from the constant
                text, sig, outs = translate_body(body, bits, c2, calls, gname)
                out.append("(* nfl::ops::%s<%s, simd::serial>::operator() *)" % (fn, cname)); out.append(text); out.append("")
                index.append((gname, sig, "ok")); calls[fn] = gname if "fuel" not in sig else gname + " fuel"
            except Unsupported as ex:
                index.append((gname, None, "unsupported: %s" % ex))
        # the scalar Harvey butterfly
        tu = "#include <nfl.hpp>\ntemplate struct nfl::ops::ntt_loop_body<nfl::simd::serial, nfl::poly<%s, 16, 1>, %s>;\n" % (cname, cname)
        objs = clang_ast(tu, "ntt_loop_body")
        body = find_method(objs, lambda n: n.get("name") == "ntt_loop_body" and (targs(n) or [None])[0] == "nfl::simd::serial" and ct in (targs(n) or [])[-1:])
        gname = "gen_bfly_u%d" % bits
        try:
            if body is None: raise Unsupported("not found")
            text, sig, outs = translate_body(body, bits, consts, calls, gname, fixed_params=["_p"])
            out.append("(* nfl::ops::ntt_loop_body<simd::serial, poly<%s,.,.>>::operator(): outputs (%s) *)" % (cname, ", ".join(outs))); out.append(text); out.append("")
            index.append((gname, sig, "ok outputs=" + ",".join(outs)))
        except Unsupported as ex:
            index.append((gname, None, "unsupported: %s" % ex))
        # the hand-fused last two layers: body of the `for (r...)` loop of poly<T,16,1>::core::ntt, and its degree-2 special case
        tu = "#include <nfl.hpp>\nvoid force_instantiation(nfl::poly<%s, 16, 1>& a) { a.ntt_pow_phi(); }\n" % cname
        objs = clang_ast(tu, "poly")
        fbody = None; d2 = None
        for o in objs:
            for n in walk(o):
                if n.get("kind") == "CXXMethodDecl" and n.get("name") == "ntt" and any(c.get("kind") == "CompoundStmt" for c in n.get("inner", [])):
                    parms = [c for c in n.get("inner", []) if c.get("kind") == "ParmVarDecl"]
                    pt = parms[0].get("type", {}) if parms else {}
                    if ct not in pt.get("desugaredQualType", "") and ("poly<%s," % ct) not in pt.get("qualType", ""): continue      # the instantiation, not the pattern
                    for m in walk(n):
                        if m.get("kind") == "ForStmt" and fbody is None and any(x.get("kind") == "DeclRefExpr" and x.get("referencedDecl", {}).get("name") == "M" for x in walk(m)):
                            fbody = [c for c in m["inner"] if c.get("kind") == "CompoundStmt"][-1]
                        if m.get("kind") == "IfStmt" and d2 is None and any(x.get("kind") == "IntegerLiteral" and x.get("value") == "2" for x in walk(m["inner"][0])):
                            d2 = m["inner"][1]
        gname = "gen_fused_u%d" % bits
        try:
            if fbody is None: raise Unsupported("not found")
            text, sig, outs = translate_body(fbody, bits, consts, calls, gname, fixed_params=["p"])
            out.append("(* last two layers of poly<%s,.,.>::core::ntt, one group of four: outputs (%s) *)" % (cname, ", ".join(outs))); out.append(text); out.append("")
            index.append((gname, sig, "ok outputs=" + ",".join(outs)))
        except Unsupported as ex:
            index.append((gname, None, "unsupported: %s" % ex))
        gname = "gen_deg2_u%d" % bits
        try:
            if d2 is None: raise Unsupported("not found")
            # the block ends with `return true`: cut it off, the outputs are the written cells
            d2 = dict(d2); d2["inner"] = [c for c in d2["inner"] if c.get("kind") != "ReturnStmt"]
            text, sig, outs = translate_body(d2, bits, consts, calls, gname, fixed_params=["p"])
            out.append("(* degree-2 special case of poly<%s,.,.>::core::ntt: outputs (%s) *)" % (cname, ", ".join(outs))); out.append(text); out.append("")
            index.append((gname, sig, "ok outputs=" + ",".join(outs)))
        except Unsupported as ex:
            index.append((gname, None, "unsupported: %s" % ex))
    out.append("(* index: " + "; ".join("%s %s [%s]" % (g, " ".join(s) if s else "-", st) for g, s, st in index) + " *)")
    open(OUT, "w").write("\n".join(out) + "\n")
    for g, s, st in index: print(g, s, st, file=sys.stderr)

if __name__ == "__main__":
    main()
