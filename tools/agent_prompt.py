#!/usr/bin/env python3
# prints the prompt given to a fresh sub-agent asked to seed a property-breaking change (gets nothing from /verif except the property text)
import json, sys
pid = sys.argv[1]
n = sys.argv[2] if len(sys.argv) > 2 else "2"
for l in open('/verif/properties.jsonl'):
    p = json.loads(l)
    if p['id'] == pid: break
print(f"""You are helping to test a verification setup by playing the role of a developer who introduces a subtle regression.

Repository: a scratch git worktree of quarkslab/NFLlib (header-only C++11 library for ideal-lattice cryptography: RNS/CRT polynomial arithmetic mod X^n+1, NTT, SSE/AVX2 kernels, samplers) at /tmp/wt_{pid}. Work ONLY inside /tmp/wt_{pid} (and scratch files under /tmp/wt_{pid}_scratch). Do NOT read or touch /verif, /repo, or /root/.vp, and do not look at other /tmp/wt_* directories.

The semantic property that should hold of the library:

  Title: {p['title']}
  Statement: {p['statement']}

Your task: produce {n} DIFFERENT candidate changes to the library sources (under include/ or lib/), each of which
  (1) still compiles,
  (2) still passes the repository's existing test suite unchanged,
  (3) BREAKS the property above, and
  (4) needs something specific to manifest — an unusual input (boundary operands, a particular table row / modulus index, a particular degree or number of moduli, a particular SIMD build or vector lane), a multi-step sequence of operations, a particular interleaving or fault, or two cooperating sites that each look fine alone — NOT something ordinary use or random testing would expose at once. Prefer realistic regressions (an off-by-one in a comparison, a wrong constant in one specialisation, an 'optimisation' that is wrong on a boundary, a changed table cell, a skipped reduction on one path...).

For each candidate i (1..{n}) create the directory /tmp/wt_{pid}/_seeded/{pid}_<short-name>/ containing:
  - patch.diff : `git diff` of the change against HEAD (the change must be applied alone on a clean tree; reset between candidates with `git checkout -- .`)
  - demo.cpp (or demo.sh) : a small demonstration program that FAILS (non-zero exit, prints what differs) with the change and PASSES without it; say in a comment how to compile/run it
  - meta.json : {{"property": "{pid}", "what": "<one paragraph: what was changed>", "needs": "<what specific input/config/sequence is needed for it to manifest>", "ran": "<the commands you ran and what you observed>"}}
Leave the worktree clean (git checkout -- .) at the end; the _seeded directory is untracked and stays.

Practical facts:
  - Build + run the existing suite on the (changed) worktree:  rm -rf /tmp/wt_{pid}_scratch/b && cmake -G Ninja -S /tmp/wt_{pid} -B /tmp/wt_{pid}_scratch/b -DCMAKE_BUILD_TYPE=RelWithDebInfo >/dev/null && cmake --build /tmp/wt_{pid}_scratch/b -j8 >/dev/null 2>&1; ctest --test-dir /tmp/wt_{pid}_scratch/b -R '^build_' -j4 >/dev/null 2>&1; ctest --test-dir /tmp/wt_{pid}_scratch/b -j8 | tail -5   (132 tests must pass; about 1 minute). The suite is built WITHOUT the SSE/AVX2 kernels (NFL_OPTIMIZED off) and with NDEBUG.
  - Compile a demo against the worktree: g++ -std=c++11 -O1 -I/tmp/wt_{pid}/include -I/tmp/wt_{pid}/include/nfl -I/tmp/wt_{pid}/include/nfl/prng -I/tmp/wt_{pid}/tests demo.cpp /tmp/wt_{pid}/lib/params/params.cpp /tmp/wt_{pid}/lib/prng/fastrandombytes.cpp /tmp/wt_{pid}/lib/prng/randombytes.cpp /tmp/wt_{pid}/lib/prng/nfl_crypto_stream_salsa20_amd64_xmm6.s -lgmpxx -lgmp -lmpfr -o demo   (add `-DNFL_OPTIMIZED -DNTT_SSE -msse4.2` or `-DNFL_OPTIMIZED -DNTT_AVX2 -mavx2` for the SIMD builds; the CPU has AVX2). `#include <nfl.hpp>`.
  - nfl::poly<T,degree,nmoduli> objects must be 32-byte aligned: allocate with alloc_aligned<P,32>(1) from tests/tools.h (plain `new` is not enough); never keep an expression template in an `auto` variable across statements (write `c = a * b;`); SIMD builds reject degree < 8 (16/32-bit limbs).
  - The file include/nfl/params.hpp has very long lines: never cat/grep it without cutting lines (use `cut -c1-200`).
  - No network. Keep everything small; remove /tmp/wt_{pid}_scratch when done.

Finish with a short report listing, per candidate, the directory, what it changes and what it needs to manifest, and confirm for each that you observed: suite 132/132 passing with the change, demo failing with the change, demo passing without it.""")
