#!/usr/bin/env python3
# cxxassign2coq.py <repo> <out.v>: poly<T,Degree,NbModuli>::operator=(ops::expr<Op, Args...> const&) of include/nfl/core.hpp -- the evaluation of an
# expression template into its destination -- read from clang's AST at the instantiations  c = a + b,  c = a - b,  c = a * b  for the three limb
# types and the three builds.  The function is matched structurally against
#     using E = ops::expr<Op, Args...>; constexpr vector_size = E::simd_mode::elt_count<T>::value; constexpr vector_bound = degree / vector_size * vector_size;
#     static_assert(vector_bound == degree);
#     for (cm = 0; cm < nmoduli; ++cm) for (j = 0; j < vector_bound; j += vector_size) E::simd_mode::store(&(*this)(cm, j), expr.load<E::simd_mode>(cm, j));
#     return *this;
# and emitted as ExprSem.assign_prog VS degree nmoduli blk, blk cm j being the effect of the one statement of the loop body (store the VS values
# the expression has at (cm, j .. j+VS-1), computed from the CURRENT memory: the destination may be one of the operands); VS is probed per
# operator and build through the type of a variable probe_n<decltype(a OP b)::simd_mode::elt_count<T>::value>.
import sys, os, re, multiprocessing
sys.path.insert(0, os.path.dirname(os.path.abspath(__file__)))
REPO = sys.argv[1] if len(sys.argv) > 1 else "/repo"
OUT = sys.argv[2] if len(sys.argv) > 2 else "/dev/stdout"
_argv = sys.argv; sys.argv = [_argv[0], REPO]
import cxx2coq as c2c
sys.argv = _argv
walk = c2c.walk

class Unsupported(Exception): pass
MODES = {"serial": [], "sse": ["-DNFL_OPTIMIZED", "-DNTT_SSE", "-msse4.2"], "avx2": ["-DNFL_OPTIMIZED", "-DNTT_AVX2", "-mavx2"]}
TN = {"unsigned short": ("uint16_t", 16), "unsigned int": ("uint32_t", 32), "unsigned long": ("uint64_t", 64)}
OPS = (("add", "addmod", "+"), ("sub", "submod", "-"), ("mul", "mulmod", "*"))

def strip(e):
    while e.get("kind") in ("ImplicitCastExpr", "ParenExpr", "ConstantExpr", "ExprWithCleanups", "MaterializeTemporaryExpr", "CXXBindTemporaryExpr") and e.get("inner"): e = e["inner"][0]
    return e
def ref(e): return strip(e).get("referencedDecl", {})
def need(c, what):
    if not c: raise Unsupported(what)

def match(fn):
    body = [c for c in fn["inner"] if c.get("kind") == "CompoundStmt"][0].get("inner", []) or []
    need(len(body) == 6 and [b.get("kind") for b in body] == ["DeclStmt", "DeclStmt", "DeclStmt", "DeclStmt", "ForStmt", "ReturnStmt"], "statements")
    need(body[0]["inner"][0].get("kind") == "TypeAliasDecl", "using E = ...")
    vsd = body[1]["inner"][0]; vbd = body[2]["inner"][0]; sa = body[3]["inner"][0]
    need(vsd.get("name") == "vector_size" and ref(vsd["inner"][0]).get("name") == "value", "vector_size = ...::elt_count<T>::value")
    e = strip(vbd["inner"][0])
    need(vbd.get("name") == "vector_bound" and e.get("opcode") == "*" and strip(e["inner"][0]).get("opcode") == "/" and ref(strip(e["inner"][0])["inner"][0]).get("name") == "degree" and
         ref(strip(e["inner"][0])["inner"][1]).get("id") == vsd["id"] and ref(e["inner"][1]).get("id") == vsd["id"], "vector_bound = degree / vector_size * vector_size")
    sc = strip(sa["inner"][0]) if sa.get("kind") == "StaticAssertDecl" else None
    need(sc is not None and sc.get("opcode") == "==" and ref(sc["inner"][0]).get("id") == vbd["id"] and ref(sc["inner"][1]).get("name") == "degree", "static_assert(vector_bound == degree)")
    def loop(fs, bound_pred, step_var=None):
        init, _, cond, inc, b = fs["inner"]
        vd = init["inner"][0]
        need(strip(vd["inner"][0]).get("value") == "0", "loop start")
        need(cond.get("opcode") == "<" and ref(cond["inner"][0]).get("id") == vd["id"] and bound_pred(ref(cond["inner"][1])), "loop bound")
        if step_var is None: need(inc.get("kind") == "UnaryOperator" and inc.get("opcode") == "++" and ref(inc["inner"][0]).get("id") == vd["id"], "loop step")
        else: need(inc.get("kind") == "CompoundAssignOperator" and inc.get("opcode") == "+=" and ref(inc["inner"][0]).get("id") == vd["id"] and ref(inc["inner"][1]).get("id") == step_var, "loop step")
        return vd["id"], ((b.get("inner", []) or []) if b.get("kind") == "CompoundStmt" else [b])
    cm, b1 = loop(body[4], lambda r: r.get("name") == "nmoduli")
    need(len(b1) == 1 and b1[0].get("kind") == "ForStmt", "modulus loop body")
    j, b2 = loop(b1[0], lambda r: r.get("id") == vbd["id"], vsd["id"])
    need(len(b2) == 1, "vector loop body")
    st = strip(b2[0])
    need(st.get("kind") == "CallExpr" and ref(st["inner"][0]).get("name") == "store" and len(st["inner"]) == 3, "store(...)")
    ad = strip(st["inner"][1])
    need(ad.get("kind") == "UnaryOperator" and ad.get("opcode") == "&", "&(*this)(cm, j)")
    ce = strip(ad["inner"][0])
    need(ce.get("kind") == "CXXOperatorCallExpr" and any(q.get("kind") == "CXXThisExpr" for q in walk(ce["inner"][1])) and ref(ce["inner"][2]).get("id") == cm and ref(ce["inner"][3]).get("id") == j, "&(*this)(cm, j)")
    ld = strip(st["inner"][2])
    need(ld.get("kind") == "CXXMemberCallExpr" and strip(ld["inner"][0]).get("name") == "load" and ref(strip(ld["inner"][0])["inner"][0]).get("name") == "expr" and
         ref(ld["inner"][1]).get("id") == cm and ref(ld["inner"][2]).get("id") == j, "expr.load<simd_mode>(cm, j)")
    r = strip(body[5]["inner"][0])
    need(r.get("kind") == "UnaryOperator" and r.get("opcode") == "*" and strip(r["inner"][0]).get("kind") == "CXXThisExpr", "return *this")

def one(mode, ct):
    cname, bits = TN[ct]
    tu = ("#include <nfl.hpp>\ntemplate <unsigned long N> struct probe_n {};\ntypedef nfl::poly<%s, 64, 2> P;\n" % cname +
          "void force_instantiation(P& a, P& b, P& c) { c = a + b; c = a - b; c = a * b;\n" +
          "".join("  probe_n<decltype(a %s b)::simd_mode::template elt_count<%s>::value> probe_%s; (void)probe_%s;\n" % (sym, cname, k, k) for k, _, sym in OPS) + "}\n")
    names = ["gen_assign_%s_%s_u%d" % (k, mode, bits) for k, _, _ in OPS]
    try:
        objs = c2c.clang_ast(tu, "force_instantiation", MODES[mode]) + c2c.clang_ast(tu, "nfl", MODES[mode])
    except RuntimeError as ex:
        return [(n, None, "clang: %s" % str(ex)[-200:]) for n in names]
    vs = {}
    for o in objs:
        for n in walk(o):
            if n.get("kind") == "VarDecl" and str(n.get("name", "")).startswith("probe_"):
                m = re.search(r"probe_n<(\d+)>", n["type"].get("desugaredQualType", ""))
                if m: vs[n["name"][6:]] = int(m.group(1))
    res = []
    for (k, opname, _), name in zip(OPS, names):
        try:
            need(k in vs, "vector width could not be probed")
            fn = None
            for o in objs:
                for n in walk(o):
                    if n.get("kind") == "CXXMethodDecl" and n.get("name") == "operator=" and any(c.get("kind") == "CompoundStmt" for c in n.get("inner", [])):
                        ps = [q for q in n["inner"] if q.get("kind") == "ParmVarDecl"]
                        if len(ps) == 1 and ("expr<%s<" % opname) in ps[0]["type"]["qualType"].replace("nfl::", "").replace("ops::", ""): fn = n
            need(fn is not None, "operator=(expr<%s> const&) not instantiated" % opname)
            match(fn)
            res.append((name, "Definition %s {S : Type} (degree nmoduli : Z) (blk : Z -> Z -> S -> option S) (s : S) : option S := assign_prog %d degree nmoduli blk s." % (name, vs[k]), "ok"))
        except Unsupported as ex:
            res.append((name, None, "unsupported: %s" % ex))
    return res

def main():
    jobs = [(m, ct) for m in MODES for ct in TN]
    with multiprocessing.Pool(min(9, len(jobs))) as pool: res = pool.starmap(one, jobs)
    out = []; index = []
    for r in res:
        for name, text, st in r:
            index.append("%s [%s]" % (name, st))
            if text: out.append(text)
    txt = ["(" + "* GENERATED by tools/cxxassign2coq.py from include/nfl/core.hpp -- do not edit.  poly::operator=(ops::expr<Op, ...> const&) at c = a + b, a - b, a * b, three limb",
           "   types, three builds: the loop nest ExprSem.assign_prog with the vector width the source gives each of them. *)",
           "From Coq Require Import ZArith.", "From NTT Require Import ExprSem.", "Local Open Scope Z_scope.", ""] + out + ["", "(* index: " + "; ".join(index) + " *)"]
    open(OUT, "w").write("\n".join(txt) + "\n")
    for i in index: print(i)

if __name__ == "__main__":
    main()
