#!/usr/bin/env python3
# cxxos2coq.py <repo> <out.v> : translates lib/prng/randombytes.cpp (nfl::randombytes: the key source of the generator) from the C++ source.
# The program state is a record with one field per variable (the namespace-scope static `fd`, the parameters, the locals; a pointer
# parameter is a buffer and an offset) plus the world: the script of OS answers still to come and the number of sleep() calls.  Statements
# become the combinators of OsSem.v (sseq / sif / sloop / swhile / sbreak / scontinue / sassign); open(2), read(2), sleep(3) are the
# oracle functions os_open / os_read / a counter; integer expressions follow CxxSem.v (unsigned wrap, signed overflow = no result).
import sys, os, re, json
sys.path.insert(0, os.path.dirname(os.path.abspath(__file__)))
import cxx2coq as c2c
from cxx2coq import Unsupported, walk, ctype

REPO = sys.argv[1] if len(sys.argv) > 1 else "/repo"
c2c.REPO = REPO

def strip(e):
    while e.get("kind") in ("ImplicitCastExpr", "ParenExpr", "CStyleCastExpr") and e.get("inner"): e = e["inner"][0]
    return e
def is_ptr(n):
    q = n.get("type", {}).get("qualType", ""); return q.rstrip().endswith("*")
def callee(ce):
    for n in walk(ce["inner"][0]):
        if n.get("kind") == "DeclRefExpr": return n["referencedDecl"].get("name")
    return None

class XTr(c2c.Tr):
    """integer expressions over the fields of the state `s`"""
    def __init__(self, T): super().__init__(64, {}, {}); self.T = T
    def read_lvalue(self, e):
        s = strip(e)
        if s.get("kind") == "DeclRefExpr": return "(%s s)" % self.T.field(s["referencedDecl"]["name"])
        raise Unsupported("lvalue " + s.get("kind", "?"))
    def expr(self, e, k):
        if e["kind"] == "DeclRefExpr": return k(self.read_lvalue(e))
        if e["kind"] in ("ImplicitCastExpr", "CStyleCastExpr") and e.get("castKind") == "LValueToRValue": return k(self.read_lvalue(e["inner"][0]))
        if e["kind"] == "UnaryOperator" and e.get("opcode") == "-" and strip(e["inner"][0]).get("kind") == "IntegerLiteral": return k("(- %s)" % strip(e["inner"][0])["value"])
        return super().expr(e, k)

class OsTr:
    def __init__(self): self.vars = []; self.ptrs = []; self.tr = XTr(self); self.uses_fuel = False
    def field(self, name):
        if name in self.ptrs: raise Unsupported("pointer %s used as a value" % name)
        if name not in self.vars: self.vars.append(name)
        return "v_" + name
    def fields(self):
        fs = []
        for v in self.vars: fs.append(("v_" + v, "Z"))
        for p in self.ptrs: fs += [("b_" + p, "list Z"), ("o_" + p, "Z")]
        return fs + [("w_os", "list ev"), ("w_sleeps", "Z")]
    def pure(self, e):
        t = self.tr.expr(e, lambda x: x)
        if "bind" in t: raise Unsupported("expression with a side condition where a pure one is needed")
        return t
    def setf(self, f, val): return "(set_%s s %s)" % (f, val)
    def assign_scalar(self, name, e):
        """name = e with e free of calls: Some (state with the field updated), None on signed overflow"""
        f = self.field(name)
        return "(sassign (fun s => %s))" % self.tr.expr(e, lambda t: "Some (set_%s s %s)" % (f, t))
    def stmt(self, s):
        k = s["kind"]
        if k == "CompoundStmt":
            items = [self.stmt(x) for x in (s.get("inner", []) or [])]
            items = [x for x in items if x != "sskip"]
            if not items: return "sskip"
            r = items[-1]
            for x in reversed(items[:-1]): r = "(sseq %s %s)" % (x, r)
            return r
        if k == "NullStmt": return "sskip"
        if k == "DeclStmt":
            for d in s.get("inner", []):
                if d["kind"] != "VarDecl" or d.get("inner"): raise Unsupported("declaration with an initialiser")
                self.field(d["name"])
            return "sskip"                      # an uninitialised local: its field keeps whatever value it had
        if k == "BreakStmt": return "sbreak"
        if k == "ContinueStmt": return "scontinue"
        if k == "IfStmt":
            if len(s["inner"]) > 2: raise Unsupported("if/else")
            return "(sif (fun s => %s) %s)" % (self.pure(s["inner"][0]), self.stmt(s["inner"][1]))
        if k == "ForStmt":
            init, _, cond, inc, body = s["inner"]
            if init.get("kind") or cond.get("kind") or inc.get("kind"): raise Unsupported("for loop other than for (;;)")
            self.uses_fuel = True; return "(sloop fuel %s)" % self.stmt(body)
        if k == "WhileStmt":
            self.uses_fuel = True; return "(swhile fuel (fun s => %s) %s)" % (self.pure(s["inner"][-2]), self.stmt(s["inner"][-1]))
        if k == "CallExpr":
            if callee(s) == "sleep": return "(sassign (fun s => Some (set_w_sleeps s (w_sleeps s + 1))))"
            raise Unsupported("call of " + str(callee(s)))
        if k == "BinaryOperator" and s.get("opcode") == "=":
            l = strip(s["inner"][0]); r = s["inner"][1]; rc = strip(r)
            if l.get("kind") != "DeclRefExpr" or is_ptr(l): raise Unsupported("assignment target")
            name = l["referencedDecl"]["name"]
            if rc.get("kind") == "CallExpr":
                fn = callee(rc); dst = ctype(l); f = self.field(name)
                if fn == "open":
                    # fd = open(path, flags): the next answer of the script
                    return "(sassign (fun s => bind (os_open (w_os s)) (fun '(r, rest) => Some (set_w_os (set_%s s r) rest))))" % f
                if fn == "read":
                    # i = read(fd, buf, count): the descriptor must be the one the script opened; the delivered bytes go to buf
                    a = rc["inner"][1:]; fdt = self.pure(a[0]); pn = strip(a[1])["referencedDecl"]["name"]; cnt = self.pure(a[2])
                    if pn not in self.ptrs: raise Unsupported("read into " + pn)
                    conv = self.tr.conv(dst, ctype(rc), "r")
                    return ("(sassign (fun s => bind (os_read (w_os s) %s) (fun '(r, bs, rest) => bind (store_bytes (b_%s s) (o_%s s) bs) (fun nb => "
                            "if %s =? (-1) then None else Some (set_w_os (set_b_%s (set_%s s %s) nb) rest)))))" % (cnt, pn, pn, fdt, pn, f, conv))
                raise Unsupported("call of " + str(fn))
            return self.assign_scalar(name, r)
        if k == "CompoundAssignOperator":
            l = strip(s["inner"][0]); name = l["referencedDecl"]["name"]; op = s["opcode"][:-1]
            if is_ptr(l):
                if op != "+": raise Unsupported("pointer " + s["opcode"])
                return "(sassign (fun s => Some (set_o_%s s (o_%s s + %s))))" % (name, name, self.pure(s["inner"][1]))
            ty = ctype(l); f = self.field(name)
            return "(sassign (fun s => %s))" % self.tr.expr(s["inner"][1], lambda t: self.tr.arith(ty, self.tr.binop(op, "(%s s)" % f, t), lambda r: "Some (set_%s s %s)" % (f, r), op))
        raise Unsupported("statement " + k)

def main():
    OUT = sys.argv[2]
    hdr = ["(* GENERATED by tools/cxxos2coq.py from lib/prng/randombytes.cpp on every run -- do not edit. *)",
           "From Coq Require Import ZArith Bool List.", "From NTT Require Import CxxSem OsSem.", "Import ListNotations.", "Local Open Scope Z_scope.", ""]
    body = []; status = "ok"
    try:
        objs = c2c.clang_ast('#include "%s/lib/prng/randombytes.cpp"\n' % REPO, "randombytes", ["-I%s/include/nfl/prng" % REPO])
        fn = [o for o in objs if o.get("kind") == "FunctionDecl" and any(c.get("kind") == "CompoundStmt" for c in o.get("inner", []))]
        if len(fn) != 1: raise Unsupported("definition of randombytes not found")
        fn = fn[0]; T = OsTr()
        for pv in [c for c in fn["inner"] if c["kind"] == "ParmVarDecl"]:
            if is_ptr(pv): T.ptrs.append(pv["name"])
            else: T.field(pv["name"])
        code = T.stmt([c for c in fn["inner"] if c["kind"] == "CompoundStmt"][0])
        fs = T.fields()
        body.append("Record st := mk { %s }." % "; ".join("%s : %s" % f for f in fs))
        for i, (f, t) in enumerate(fs):
            body.append("Definition set_%s (s : st) (v : %s) : st := mk %s." % (f, t, " ".join("v" if j == i else "(%s s)" % g for j, (g, _) in enumerate(fs))))
        body.append("")
        body.append("(* void nfl::randombytes(unsigned char *x, unsigned long long xlen); `fd` is the namespace-scope static *)")
        body.append("Definition gen_randombytes %s: stmt st :=\n  %s." % ("(fuel : nat) " if T.uses_fuel else "", code))
    except Unsupported as ex:
        status = "unsupported: %s" % ex; body = []
    body.append("(* index: gen_randombytes [%s] *)" % status)
    open(OUT, "w").write("\n".join(hdr + body) + "\n")
    print("gen_randombytes", status, file=sys.stderr)

if __name__ == "__main__":
    main()
