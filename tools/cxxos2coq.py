#!/usr/bin/env python3
# cxxos2coq.py <repo> <out.v> : translates lib/prng/randombytes.cpp (nfl::randombytes: the key source of the generator) from the C++ source.
# The program state is a record with one field per variable (the namespace-scope static `fd`, the parameters, the locals; a pointer
# parameter is a buffer and an offset) plus the world: the script of OS answers still to come and the number of sleep() calls.  Statements
# become the combinators of OsSem.v (sseq / sif / sloop / swhile / sbreak / scontinue / sassign); open(2), read(2), sleep(3) are the
# oracle functions os_open / os_read / a counter; integer expressions follow CxxSem.v (unsigned wrap, signed overflow = no result).
import sys, os, re, json
sys.path.insert(0, os.path.dirname(os.path.abspath(__file__)))
import cxx2coq as c2c
from cxx2coq import Unsupported, walk, ctype

REPO = sys.argv[1] if len(sys.argv) > 1 else "/repo"
c2c.REPO = REPO

def strip(e):
    while e.get("kind") in ("ImplicitCastExpr", "ParenExpr", "CStyleCastExpr") and e.get("inner"): e = e["inner"][0]
    return e
def is_ptr(n):
    q = n.get("type", {}).get("qualType", ""); return q.rstrip().endswith("*")
def callee(ce):
    for n in walk(ce["inner"][0]):
        if n.get("kind") == "DeclRefExpr": return n["referencedDecl"].get("name")
    return None

class XTr(c2c.Tr):
    """integer expressions over the fields of the state `s`"""
    def __init__(self, T): super().__init__(64, {}, {}); self.T = T
    def read_lvalue(self, e):
        s = strip(e)
        if s.get("kind") == "DeclRefExpr":
            nm = s["referencedDecl"]["name"]
            if nm in self.T.consts: return str(self.T.consts[nm])
            return "(%s s)" % self.T.field(nm)
        raise Unsupported("lvalue " + s.get("kind", "?"))
    def expr(self, e, k):
        if e["kind"] == "DeclRefExpr": return k(self.read_lvalue(e))
        if e["kind"] in ("ImplicitCastExpr", "CStyleCastExpr") and e.get("castKind") == "LValueToRValue": return k(self.read_lvalue(e["inner"][0]))
        if e["kind"] == "UnaryOperator" and e.get("opcode") == "-" and strip(e["inner"][0]).get("kind") == "IntegerLiteral": return k("(- %s)" % strip(e["inner"][0])["value"])
        if e["kind"] == "CXXBoolLiteralExpr": return k("1" if e.get("value") else "0")
        return super().expr(e, k)

class OsTr:
    def __init__(self, objs=None):
        self.vars = []; self.ptrs = []; self.arrays = []; self.guards = []; self.consts = {}; self.world = [("w_os", "list ev"), ("w_sleeps", "Z")]
        self.tr = XTr(self); self.uses_fuel = False; self.objs = objs or []; self.uses_stream = False
    def array(self, name):
        if name not in self.arrays: self.arrays.append(name)
        return "a_" + name
    def find_fn(self, name):
        for o in self.objs:
            for n in walk(o):
                if n.get("kind") == "FunctionDecl" and n.get("name") == name and any(c.get("kind") == "CompoundStmt" for c in n.get("inner", [])): return n
        return None
    def is_array(self, n):
        q = n.get("type", {}).get("qualType", ""); return q.rstrip().endswith("]")
    def field(self, name):
        if name in self.consts: return None
        if name in self.ptrs: raise Unsupported("pointer %s used as a value" % name)
        if name not in self.vars: self.vars.append(name)
        return "v_" + name
    def fields(self):
        fs = []
        for v in self.vars: fs.append(("v_" + v, "Z"))
        for p in self.ptrs: fs += [("b_" + p, "list Z"), ("o_" + p, "Z")]
        for a in self.arrays: fs.append(("a_" + a, "list Z"))
        for g in self.guards: fs.append(("g_" + g, "Z"))
        return fs + self.world
    def pure(self, e):
        t = self.tr.expr(e, lambda x: x)
        if "bind" in t: raise Unsupported("expression with a side condition where a pure one is needed")
        return t
    def setf(self, f, val): return "(set_%s s %s)" % (f, val)
    def assign_scalar(self, name, e):
        """name = e with e free of calls: Some (state with the field updated), None on signed overflow"""
        f = self.field(name)
        return "(sassign (fun s => %s))" % self.tr.expr(e, lambda t: "Some (set_%s s %s)" % (f, t))
    def stmt(self, s):
        k = s["kind"]
        if k == "CompoundStmt":
            items = [self.stmt(x) for x in (s.get("inner", []) or [])]
            items = [x for x in items if x != "sskip"]
            if not items: return "sskip"
            r = items[-1]
            for x in reversed(items[:-1]): r = "(sseq %s %s)" % (x, r)
            return r
        if k == "NullStmt": return "sskip"
        if k == "DeclStmt":
            out = []
            for d in s.get("inner", []):
                if d["kind"] != "VarDecl": raise Unsupported("declaration " + d["kind"])
                if self.is_array(d):
                    if d.get("inner"): raise Unsupported("array with an initialiser")
                    self.array(d["name"]); continue          # an uninitialised local array: its field keeps whatever it held
                if not d.get("inner"): self.field(d["name"]); continue      # an uninitialised local
                init = {"kind": "BinaryOperator", "opcode": "=", "inner": [{"kind": "DeclRefExpr", "referencedDecl": {"name": d["name"]}, "type": d["type"]}, d["inner"][-1]]}
                code = self.stmt(init)
                if d.get("storageClass") == "static":
                    # a function-local static: initialised by the first execution that reaches it (C++11 guarantees exactly once)
                    if d["name"] not in self.guards: self.guards.append(d["name"])
                    code = "(sif (fun s => (g_%s s) =? 0) (sseq %s (sassign (fun s => Some (set_g_%s s 1)))))" % (d["name"], code, d["name"])
                out.append(code)
            if not out: return "sskip"
            r = out[-1]
            for x in reversed(out[:-1]): r = "(sseq %s %s)" % (x, r)
            return r
        if k == "CStyleCastExpr" and s.get("castKind") == "ToVoid": return "sskip"
        if k == "BreakStmt": return "sbreak"
        if k == "ContinueStmt": return "scontinue"
        if k == "IfStmt":
            if len(s["inner"]) > 2: raise Unsupported("if/else")
            return "(sif (fun s => %s) %s)" % (self.pure(s["inner"][0]), self.stmt(s["inner"][1]))
        if k == "ForStmt":
            init, _, cond, inc, body = s["inner"]
            if not (init.get("kind") or cond.get("kind") or inc.get("kind")):
                self.uses_fuel = True; return "(sloop fuel %s)" % self.stmt(body)
            # for (init; cond; inc) body  ==  init; while (cond) { body; inc }   (no `continue` in the body, which would skip inc here)
            if any(n.get("kind") == "ContinueStmt" for n in walk(body)): raise Unsupported("continue inside a counted for loop")
            if not (init.get("kind") and cond.get("kind") and inc.get("kind")): raise Unsupported("for loop with a missing clause")
            self.uses_fuel = True
            return "(sseq %s (swhile fuel (fun s => %s) (sseq %s %s)))" % (self.stmt(init), self.pure(cond), self.stmt(body), self.stmt(inc))
        if k == "UnaryOperator" and s.get("opcode") == "++":
            l = strip(s["inner"][0]); name = l["referencedDecl"]["name"]; ty = ctype(l); f = self.field(name)
            return "(sassign (fun s => %s))" % self.tr.arith(ty, "((%s s) + 1)" % f, lambda r: "Some (set_%s s %s)" % (f, r), "+")
        if k == "WhileStmt":
            self.uses_fuel = True; return "(swhile fuel (fun s => %s) %s)" % (self.pure(s["inner"][-2]), self.stmt(s["inner"][-1]))
        if k == "CallExpr":
            fn = callee(s)
            if fn == "sleep": return "(sassign (fun s => Some (set_w_sleeps s (w_sleeps s + 1))))"
            if fn == "randombytes":
                # nfl::randombytes(buf, n): the key source, an oracle here (its own behaviour is C19): the next n bytes of the key tape
                an = strip(s["inner"][1])["referencedDecl"]["name"]; cnt = self.pure(s["inner"][2])
                if ("w_keytape", "list Z") not in self.world: self.world.append(("w_keytape", "list Z"))
                return "(sassign (fun s => bind (rb_fill (%s s) %s (w_keytape s)) (fun '(nb, rest) => Some (set_w_keytape (set_%s s nb) rest))))" % (self.array(an), cnt, self.array(an))
            if fn and "crypto_stream" in fn:
                # the keystream routine (assembly): an oracle -- `stream key nonce len`, written at r[0 .. len)
                a = s["inner"][1:]; pn = strip(a[0])["referencedDecl"]["name"]; ln = self.pure(a[1]); nn = strip(a[2])["referencedDecl"]["name"]; kn = strip(a[3])["referencedDecl"]["name"]
                if pn not in self.ptrs: raise Unsupported("stream into " + pn)
                self.uses_stream = True
                return "(sassign (fun s => bind (stream_write stream (b_%s s) (o_%s s) %s (%s s) (%s s)) (fun nb => Some (set_b_%s s nb))))" % (pn, pn, ln, self.array(nn), self.array(kn), pn)
            raise Unsupported("call of " + str(fn))
        if k == "BinaryOperator" and s.get("opcode") == "=":
            l = strip(s["inner"][0]); r = s["inner"][1]; rc = strip(r)
            if l.get("kind") == "ArraySubscriptExpr":
                # a[idx] = e on a fixed-size array: bounds-checked store
                an = strip(l["inner"][0])["referencedDecl"]["name"]; af = self.array(an); idx = self.pure(l["inner"][1])
                return "(sassign (fun s => %s))" % self.tr.expr(r, lambda t: "bind (MemSem.st (%s s) %s %s) (fun na => Some (set_%s s na))" % (af, idx, t, af))
            if l.get("kind") != "DeclRefExpr" or is_ptr(l): raise Unsupported("assignment target")
            name = l["referencedDecl"]["name"]
            if rc.get("kind") == "CallExpr":
                fn = callee(rc); dst = ctype(l); f = self.field(name)
                if fn == "open":
                    # fd = open(path, flags): the next answer of the script
                    return "(sassign (fun s => bind (os_open (w_os s)) (fun '(r, rest) => Some (set_w_os (set_%s s r) rest))))" % f
                if fn == "read":
                    # i = read(fd, buf, count): the descriptor must be the one the script opened; the delivered bytes go to buf
                    a = rc["inner"][1:]; fdt = self.pure(a[0]); pn = strip(a[1])["referencedDecl"]["name"]; cnt = self.pure(a[2])
                    if pn not in self.ptrs: raise Unsupported("read into " + pn)
                    conv = self.tr.conv(dst, ctype(rc), "r")
                    return ("(sassign (fun s => bind (os_read (w_os s) %s) (fun '(r, bs, rest) => bind (store_bytes (b_%s s) (o_%s s) bs) (fun nb => "
                            "if %s =? (-1) then None else Some (set_w_os (set_b_%s (set_%s s %s) nb) rest)))))" % (cnt, pn, pn, fdt, pn, f, conv))
                tgt = self.find_fn(fn)
                if tgt is not None and not [c for c in tgt["inner"] if c["kind"] == "ParmVarDecl"]:
                    # a function of this translation unit without parameters: its body, then the returned value
                    items = [c for c in tgt["inner"] if c["kind"] == "CompoundStmt"][0].get("inner", []) or []
                    if not items or items[-1]["kind"] != "ReturnStmt" or any(n.get("kind") == "ReturnStmt" for it in items[:-1] for n in walk(it)): raise Unsupported("shape of " + fn)
                    pre = self.stmt({"kind": "CompoundStmt", "inner": items[:-1]})
                    return "(sseq %s %s)" % (pre, self.assign_scalar(name, items[-1]["inner"][0]))
                raise Unsupported("call of " + str(fn))
            if rc.get("kind") == "CXXMemberCallExpr" and any(n.get("kind") == "MemberExpr" and n.get("name") == "fetch_add" for n in walk(rc["inner"][0])):
                # x = counter.fetch_add(d) on std::atomic<unsigned long long>: the old value; the counter wraps at 64 bits (atomicity: C18)
                cd = [n for n in walk(rc["inner"][0]) if n.get("kind") == "DeclRefExpr"][0]
                cn = cd["referencedDecl"]["name"]; cf = self.field(cn); f = self.field(name); d_ = self.pure(rc["inner"][1])
                # the width at which the counter wraps is the width of the atomic's value type (std::atomic<unsigned long long>: 64)
                tq = cd.get("type", {}); tq = tq.get("desugaredQualType", tq.get("qualType", ""))
                m_ = re.search(r"atomic<([^<>]*)>", tq)
                if not m_ or m_.group(1).strip() not in c2c.TYPES or c2c.TYPES[m_.group(1).strip()][0] != 0: raise Unsupported("fetch_add on %s" % tq)
                cw = c2c.TYPES[m_.group(1).strip()][1]
                return "(sassign (fun s => Some (set_%s (set_%s s (%s s)) (uw %d ((%s s) + %s)))))" % (cf, f, cf, cw, cf, d_)
            return self.assign_scalar(name, r)
        if k == "CompoundAssignOperator":
            l = strip(s["inner"][0]); name = l["referencedDecl"]["name"]; op = s["opcode"][:-1]
            if is_ptr(l):
                if op != "+": raise Unsupported("pointer " + s["opcode"])
                return "(sassign (fun s => Some (set_o_%s s (o_%s s + %s))))" % (name, name, self.pure(s["inner"][1]))
            ty = ctype(l); f = self.field(name)
            return "(sassign (fun s => %s))" % self.tr.expr(s["inner"][1], lambda t: self.tr.arith(ty, self.tr.binop(op, "(%s s)" % f, t), lambda r: "Some (set_%s s %s)" % (f, r), op))
        raise Unsupported("statement " + k)

def emit(T, code, recname, fname, comment, extra_params=""):
    fs = T.fields(); body = []
    body.append("Record %s := mk { %s }." % (recname, "; ".join("%s : %s" % f for f in fs)))
    for i, (f, t) in enumerate(fs):
        body.append("Definition set_%s (s : %s) (v : %s) : %s := mk %s." % (f, recname, t, recname, " ".join("v" if j == i else "(%s s)" % g for j, (g, _) in enumerate(fs))))
    body.append(""); body.append(comment)
    body.append("Definition %s %s%s: stmt %s :=\n  %s." % (fname, extra_params, "(fuel : nat) " if T.uses_fuel else "", recname, code))
    return body

def main():
    OUT = sys.argv[2]
    hdr = ["(* GENERATED by tools/cxxos2coq.py from lib/prng/randombytes.cpp and lib/prng/fastrandombytes.cpp on every run -- do not edit. *)",
           "From Coq Require Import ZArith Bool List.", "From NTT Require Import CxxSem MemSem OsSem.", "Import ListNotations.", "Local Open Scope Z_scope.", ""]
    body = []; status = "ok"
    try:
        objs = c2c.clang_ast('#include "%s/lib/prng/randombytes.cpp"\n' % REPO, "randombytes", ["-I%s/include/nfl/prng" % REPO])
        fn = [o for o in objs if o.get("kind") == "FunctionDecl" and any(c.get("kind") == "CompoundStmt" for c in o.get("inner", []))]
        if len(fn) != 1: raise Unsupported("definition of randombytes not found")
        fn = fn[0]; T = OsTr()
        for pv in [c for c in fn["inner"] if c["kind"] == "ParmVarDecl"]:
            if is_ptr(pv): T.ptrs.append(pv["name"])
            else: T.field(pv["name"])
        code = T.stmt([c for c in fn["inner"] if c["kind"] == "CompoundStmt"][0])
        body += emit(T, code, "st", "gen_randombytes", "(* void nfl::randombytes(unsigned char *x, unsigned long long xlen); `fd` is the namespace-scope static *)")
    except Unsupported as ex:
        status = "unsupported: %s" % ex; body = []
    # fastrandombytes.cpp: the generator (sequential meaning of one request; atomicity of the counter and of the one-time seeding is C18)
    status2 = "ok"; body2 = []
    try:
        objs = c2c.clang_ast('#include "%s/lib/prng/fastrandombytes.cpp"\n' % REPO, "nfl", ["-I%s/include" % REPO, "-I%s/include/nfl/prng" % REPO])
        T = OsTr(objs); T.world = []
        for o in objs:
            for n in walk(o):
                if n.get("kind") == "VarDecl" and n.get("storageClass") == "static" and "const" in n.get("type", {}).get("qualType", "") and n.get("inner") and strip(n["inner"][-1]).get("kind") == "IntegerLiteral":
                    T.consts[n["name"]] = int(strip(n["inner"][-1])["value"])
        fn = T.find_fn("fastrandombytes")
        if fn is None: raise Unsupported("definition of fastrandombytes not found")
        for pv in [c for c in fn["inner"] if c["kind"] == "ParmVarDecl"]:
            if is_ptr(pv): T.ptrs.append(pv["name"])
            else: T.field(pv["name"])
        code = T.stmt([c for c in fn["inner"] if c["kind"] == "CompoundStmt"][0])
        body2 = ["", "Module Frb."] + emit(T, code, "st", "gen_fastrandombytes", "(* void nfl::fastrandombytes(unsigned char *r, unsigned long long rlen); key, nonce_counter: namespace-scope statics; seeded: function-local static *)",
                                          "(stream : list Z -> list Z -> nat -> list Z) " if T.uses_stream else "") + ["End Frb."]
    except Unsupported as ex:
        status2 = "unsupported: %s" % ex; body2 = []
    body += body2
    body.append("(* index: gen_randombytes [%s]; gen_fastrandombytes [%s] *)" % (status, status2))
    open(OUT, "w").write("\n".join(hdr + body) + "\n")
    print("gen_randombytes", status, "; gen_fastrandombytes", status2, file=sys.stderr)

if __name__ == "__main__":
    main()
