#!/usr/bin/env python3
# Recomputes /verif/expr_table.json: which expression shapes each (back end, limb width, poly kind) build accepts
# (g++ -fsyntax-only on one shape per TU).  The committed table is the expected accept/reject relation of C07.
import sys, os, json, subprocess
ROOT = os.path.dirname(os.path.dirname(os.path.abspath(__file__)))
sys.path.insert(0, ROOT + '/lib'); sys.path.insert(0, ROOT + '/props')
import vf, expr_common as ec
from concurrent.futures import ThreadPoolExecutor
def compute(outdir):
    os.makedirs(outdir, exist_ok=True)
    jobs = []
    for b in ('serial', 'sse', 'avx2'):
        for w in (16, 32, 64):
            for kind in ('poly', 'polyp'):
                for k, lst in (('S', ec.SHAPES), ('B', ec.BOOLS)):
                    for i, sh in enumerate(lst):
                        fam = {kind: ([(i, sh)] if k == 'S' else [], [(i, sh)] if k == 'B' else [])}
                        src = ec.gen_source(fam, [(w, 32, 2)])
                        p = '%s/%s_%d_%s_%s%d.cpp' % (outdir, b, w, kind, k, i); open(p, 'w').write(src)
                        jobs.append((b, w, kind, sh[0], p))
    def f(j):
        b, w, kind, name, p = j
        cmd = ['g++', '-std=c++11', '-w', '-fsyntax-only', '-I%s/include' % vf.REPO, '-I%s/include/nfl' % vf.REPO, '-I%s/include/nfl/prng' % vf.REPO, '-I%s/tests' % vf.REPO] + vf.BACKENDS[b] + [p]
        return j, subprocess.run(cmd, stdout=subprocess.PIPE, stderr=subprocess.STDOUT).returncode == 0
    with ThreadPoolExecutor(16) as ex: res = list(ex.map(f, jobs))
    tab = {}
    for (b, w, kind, name, p), ok in res: tab.setdefault("%s/%d/%s" % (b, w, kind), {})[name] = ok
    return tab
if __name__ == "__main__":
    import tempfile, shutil
    d = tempfile.mkdtemp(prefix="exprtab_")
    tab = compute(d); shutil.rmtree(d)
    if len(sys.argv) > 1 and sys.argv[1] == "--write":
        json.dump(tab, open(ROOT + '/expr_table.json', 'w'), indent=1, sort_keys=True)
    old = json.load(open(ROOT + '/expr_table.json'))
    diff = [(k, n, old.get(k, {}).get(n), v) for k, d2 in tab.items() for n, v in d2.items() if old.get(k, {}).get(n) != v]
    print(json.dumps({"differences": diff, "rejected": {k: [n for n, v in d2.items() if not v] for k, d2 in tab.items()}}, indent=1))
