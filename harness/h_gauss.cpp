// C10/C11 harness: FastGaussianNoise with a scripted random tape (nfl::fastrandombytes defined here), private state read
// through `#define private public`.  Line: g <inbits 8|16> <depth 1|2> <sigma> <lambda> <m> <center> <ctor d|m:<prec>> <rlen> T <hex tape | - >
// (tag q instead of g: do not dump the barriers; tag p: <rlen> independent getNoise(out,1) calls fed consecutively from the tape)
// Output: wp=.. nb=.. vmin=.. f1=.. f2=.. B=<hex>,<hex>,.. | out= v v v | reqs=a,b, consumed=k [EXHAUSTED]
#include <cstdio>
#include <cstdlib>
#include <cstring>
#include <string>
#include <vector>
#include <iostream>
#include <sstream>
static std::vector<unsigned char> tape; static size_t tpos; static std::vector<size_t> reqs; static bool exhausted;
namespace nfl { void fastrandombytes(unsigned char* r, unsigned long long len) {
  reqs.push_back((size_t)len);
  for (unsigned long long i = 0; i < len; i++) { if (tpos < tape.size()) r[i] = tape[tpos++]; else { exhausted = true; r[i] = 0; } }
} }
#include <gmp.h>
#include <mpfr.h>
#include <new>
#include <cstring>
#include <cstdlib>
#define private public
#include "nfl/prng/FastGaussianNoise.hpp"
#undef private

static bool quiet, probes; static long second_len = -1; static size_t first_consumed = 0;   // tag s<k>: getNoise(rlen) then getNoise(k) on the SAME object; the outputs and requests of the second call are reported
template <class IN, unsigned D> static void run(double sigma, unsigned lambda, unsigned m, const std::string& center, const std::string& ctor, unsigned long rlen, std::ostringstream& os) {
  typedef nfl::FastGaussianNoise<IN, uint32_t, D> G;
  // the object is built in storage that held other data before (0x5a pattern): a member a constructor forgets to set is then visibly indeterminate
  G* g; void* mem = malloc(sizeof(G)); memset(mem, 0x5a, sizeof(G)); asm volatile("" ::: "memory");   // (the barrier keeps the fill: -flifetime-dse may drop stores made before a constructor runs)
  if (ctor[0] == 'd') g = new (mem) G(sigma, lambda, m, atof(center.c_str()));
  else { mpfr_t c; mpfr_init2(c, atoi(ctor.c_str() + 2)); mpfr_set_str(c, center.c_str(), 10, MPFR_RNDN); g = new (mem) G(sigma, lambda, m, c); mpfr_clear(c); }
  int nb = (int)g->_number_of_barriers;
  os << "wp=" << g->_word_precision << " nb=" << nb << " vmin=" << (-(nb - 1) / 2 + g->rounded_center) << " f1=" << g->_flag_ctr1 << " f2=" << g->_flag_ctr2 << " B=";
  if (quiet) os << "-"; else for (int i = 0; i < nb; i++) { for (unsigned j = 0; j < g->_word_precision; j++) { char h[8]; sprintf(h, sizeof(IN) == 1 ? "%02x" : "%04x", (unsigned)g->barriers[i][j]); os << h; } os << (i + 1 < nb ? "," : ""); }
  std::vector<uint32_t> out(rlen + 4, 0xDEADBEEFu);
  reqs.clear(); tpos = 0; exhausted = false;
  if (probes) { for (unsigned long i = 0; i < rlen; i++) g->getNoise(out.data() + 2 + i, 1); }   // rlen independent one-sample requests
  else g->getNoise(out.data() + 2, rlen);
  if (second_len >= 0) {
    first_consumed = tpos; reqs.clear();
    rlen = (unsigned long)second_len; out.assign(rlen + 4, 0xDEADBEEFu);
    g->getNoise(out.data() + 2, rlen);
  }
  os << " | out=";
  for (unsigned long i = 0; i < rlen; i++) os << " " << (int32_t)out[2 + i];
  os << ((out[0] == 0xDEADBEEFu && out[1] == 0xDEADBEEFu && out[rlen + 2] == 0xDEADBEEFu && out[rlen + 3] == 0xDEADBEEFu) ? "" : " OUTPUT-OVERRUN");
  g->~G(); free(mem);
}

int main() {
  std::string line; std::ostringstream os;
  while (std::getline(std::cin, line)) {
    std::istringstream is(line); std::string tag, center, ctor, tk, hex; unsigned inb, depth, lambda, m; double sigma; unsigned long rlen;
    if (!(is >> tag >> inb >> depth >> sigma >> lambda >> m >> center >> ctor >> rlen >> tk >> hex)) continue;
    quiet = (tag == "q" || tag == "p" || tag[0] == 's'); probes = (tag == "p"); second_len = tag[0] == 's' ? atol(tag.c_str() + 1) : -1; first_consumed = 0;
    tape.clear();
    if (hex != "-") for (size_t i = 0; i + 1 < hex.size(); i += 2) tape.push_back((unsigned char)strtoul(hex.substr(i, 2).c_str(), 0, 16));
    if (inb == 8 && depth == 1) run<uint8_t, 1>(sigma, lambda, m, center, ctor, rlen, os);
    else if (inb == 8 && depth == 2) run<uint8_t, 2>(sigma, lambda, m, center, ctor, rlen, os);
    else if (inb == 16 && depth == 1) run<uint16_t, 1>(sigma, lambda, m, center, ctor, rlen, os);
    else run<uint16_t, 2>(sigma, lambda, m, center, ctor, rlen, os);
    os << " | reqs="; for (size_t r : reqs) os << r << ","; os << " consumed=" << tpos << " first=" << first_consumed << (exhausted ? " EXHAUSTED" : "") << "\n";
  }
  fputs(os.str().c_str(), stdout);
  return 0;
}
