// C16 harness: raw serialiser / deserialiser (with truncated streams and guard zones), cereal archives, text form.
#include <cstdio>
#include <cstdlib>
#include <cstring>
#include <string>
#include <vector>
#include <iostream>
#include <sstream>
#include <nfl.hpp>
#include <cereal/archives/binary.hpp>
#include <cereal/archives/portable_binary.hpp>
#include <cereal/archives/json.hpp>
#include "tools.h"
#include NTT_CFG_H
typedef unsigned long long ull;

static std::string hex(const std::string& s) { static const char* d = "0123456789abcdef"; std::string o; for (unsigned char c : s) { o += d[c >> 4]; o += d[c & 15]; } return o; }
static std::string unhex(const std::string& h) { std::string o; for (size_t i = 0; i + 1 < h.size(); i += 2) o += (char)strtoul(h.substr(i, 2).c_str(), 0, 16); return o; }

template <class P> static void put(P& a, const std::vector<std::string>& v, size_t off) {
  for (size_t cm = 0; cm < P::nmoduli; cm++) for (size_t i = 0; i < P::degree; i++) a(cm, i) = (typename P::value_type)strtoull(v[off + cm * P::degree + i].c_str(), 0, 10);
}
template <class P> static void show(std::ostringstream& os, P const& a) { for (size_t cm = 0; cm < P::nmoduli; cm++) for (size_t i = 0; i < P::degree; i++) os << " " << (ull)a(cm, i); }

// a second object made from the target before it is read into (for poly_p: a handle SHARING the target's storage): reading into the target must
// leave it as it was ("plain and shared-handle classes")
template <class P> struct Other {
  P* keep; std::vector<ull> before;
  Other(P& target, bool fill) {
    if (fill) for (size_t cm = 0; cm < P::nmoduli; cm++) for (size_t i = 0; i < P::degree; i++) target(cm, i) = (typename P::value_type)(0x3C3C3C3C3C3C3C3CULL + 7 * (cm * P::degree + i));
    keep = alloc_aligned<P, 32>(1); *keep = static_cast<P const&>(target); P const& k = *keep;
    for (size_t cm = 0; cm < P::nmoduli; cm++) for (size_t i = 0; i < P::degree; i++) before.push_back((ull)k(cm, i));
  }
  const char* verdict() const { P const& k = *keep; size_t j = 0; for (size_t cm = 0; cm < P::nmoduli; cm++) for (size_t i = 0; i < P::degree; i++) if ((ull)k(cm, i) != before[j++]) return " OTHER-OBJECT-CHANGED"; return ""; }
  ~Other() { free_aligned(1, keep); }
};

template <class P> static void run(const std::string& op, const std::vector<std::string>& v, std::ostringstream& os) {
  typedef typename P::value_type T;
  const size_t N = P::degree * P::nmoduli;
  // three objects in one aligned block: guards on both sides of the target
  static P* x = alloc_aligned<P, 32>(3);
  P &g0 = x[0], &a = x[1], &g1 = x[2];
  for (size_t cm = 0; cm < P::nmoduli; cm++) for (size_t i = 0; i < P::degree; i++) { g0(cm, i) = (T)0xA5A5A5A5A5A5A5A5ULL; g1(cm, i) = (T)0x5A5A5A5A5A5A5A5AULL; a(cm, i) = (T)(9 + cm * P::degree + i); }
  if (op == "ser") { put(a, v, 0); std::ostringstream ss; a.serialize_manually(ss); os << hex(ss.str()); }
  else if (op == "text") { put(a, v, 0); std::ostringstream ss; ss << a; os << ss.str(); }
  else if (op == "deser") {      // v[0] = hex stream
    std::istringstream ss(unhex(v[0] == "-" ? "" : v[0]));
    Other<P> other(a, false);
    a.deserialize_manually(ss);
    bool ok = !ss.fail();
    long consumed = ok ? (long)ss.tellg() : (long)ss.gcount();
    bool guards = true;
    for (size_t cm = 0; cm < P::nmoduli; cm++) for (size_t i = 0; i < P::degree; i++) if (g0(cm, i) != (T)0xA5A5A5A5A5A5A5A5ULL || g1(cm, i) != (T)0x5A5A5A5A5A5A5A5AULL) guards = false;
    os << (ok ? "ok" : "fail") << " " << consumed << " " << (guards ? "guards-intact" : "GUARD-OVERWRITTEN"); show(os, a); os << other.verdict();
  } else if (op == "deser2") {   // two polynomials back to back from one stream
    std::istringstream ss(unhex(v[0]));
    Other<P> other(a, false);
    a.deserialize_manually(ss); os << (ss.fail() ? "fail" : "ok"); show(os, a);
    a.deserialize_manually(ss); os << " | " << (ss.fail() ? "fail" : "ok") << " " << (long)ss.tellg(); show(os, a); os << other.verdict();
  } else if (op == "cereal_bin" || op == "cereal_pbin" || op == "cereal_json") {
    put(a, v, 0); std::stringstream ss;
    if (op == "cereal_bin") { { cereal::BinaryOutputArchive ar(ss); ar(a); } os << hex(ss.str()); P* b = alloc_aligned<P, 32>(1); { Other<P> other(*b, true); { cereal::BinaryInputArchive ia(ss); ia(*b); } os << " |"; show(os, *b); os << other.verdict(); } free_aligned(1, b); }
    else if (op == "cereal_pbin") { { cereal::PortableBinaryOutputArchive ar(ss); ar(a); } os << hex(ss.str()); P* b = alloc_aligned<P, 32>(1); { Other<P> other(*b, true); { cereal::PortableBinaryInputArchive ia(ss); ia(*b); } os << " |"; show(os, *b); os << other.verdict(); } free_aligned(1, b); }
    else { { cereal::JSONOutputArchive ar(ss); ar(a); } std::string j = ss.str(), c; for (char ch : j) if (ch != ' ' && ch != '\n' && ch != '\t') c += ch; os << c; P* b = alloc_aligned<P, 32>(1); { Other<P> other(*b, true); { cereal::JSONInputArchive ia(ss); ia(*b); } os << " |"; show(os, *b); os << other.verdict(); } free_aligned(1, b); }
  } else if (op == "cereal_in") {   // read a binary archive written elsewhere (hex in v[0])
    std::stringstream ss(unhex(v[0])); Other<P> other(a, false); { cereal::BinaryInputArchive ia(ss); ia(a); } show(os, a); os << other.verdict();
  } else os << "badop";
}

int main() {
  std::string line; std::ostringstream os;
  while (std::getline(std::cin, line)) {
    std::istringstream is(line);
    std::string op, pk; unsigned w, n, nm;
    if (!(is >> op >> w >> n >> nm >> pk)) continue;
    std::vector<std::string> v; std::string x; while (is >> x) v.push_back(x);
    bool done = false;
#define X(T, N, NM) if (!done && w == 8 * sizeof(T) && n == N && nm == NM) { done = true; if (pk == "poly") run<nfl::poly<T, N, NM> >(op, v, os); else run<nfl::poly_p<T, N, NM> >(op, v, os); }
    CONFIGS
#undef X
    if (!done) os << "noconfig";
    os << "\n";
  }
  fputs(os.str().c_str(), stdout);
  return 0;
}
