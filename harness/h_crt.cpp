// C04 harness: poly2mpz / mpz2poly / ring operations seen through the big-integer lift, on compiled-in configurations.
#include <cstdio>
#include <cstdlib>
#include <string>
#include <vector>
#include <iostream>
#include <sstream>
#include <nfl.hpp>
#include "tools.h"
#include NTT_CFG_H
typedef unsigned long long ull;

template <class P> static void put(P& a, const std::vector<std::string>& v, size_t off) {
  for (size_t cm = 0; cm < P::nmoduli; cm++)
    for (size_t i = 0; i < P::degree; i++) a(cm, i) = (typename P::value_type)strtoull(v[off + cm * P::degree + i].c_str(), 0, 10);
}
template <class P> static void show(std::ostringstream& os, P const& a) {
  for (size_t cm = 0; cm < P::nmoduli; cm++) for (size_t i = 0; i < P::degree; i++) os << (ull)a(cm, i) << " ";
}
template <class P> static void showmpz(std::ostringstream& os, P& a) {
  std::array<mpz_t, P::degree> arr = a.poly2mpz();
  for (size_t i = 0; i < P::degree; i++) { char* s = mpz_get_str(0, 10, arr[i]); os << s << " "; free(s); mpz_clear(arr[i]); }
}

template <class T, size_t N, size_t NM> static void run(const std::string& op, const std::vector<std::string>& v, std::ostringstream& os) {
  typedef nfl::poly<T, N, NM> P;
  static P* x = alloc_aligned<P, 32>(3);
  P &a = x[0], &b = x[1], &c = x[2];
  const size_t sz = N * NM;
  if (op == "lift") { put(a, v, 0); showmpz(os, a); }
  else if (op == "lift_inplace") {   // the overload that fills a caller-provided array: the array holds stale non-zero values
    put(a, v, 0);
    std::array<mpz_t, N> arr;
    for (size_t i = 0; i < N; i++) { mpz_init_set_ui(arr[i], 123456789UL + i); mpz_mul_2exp(arr[i], arr[i], 70); }
    a.poly2mpz(arr);
    for (size_t i = 0; i < N; i++) { char* s = mpz_get_str(0, 10, arr[i]); os << s << " "; free(s); }
    put(b, v, 0); b.poly2mpz(arr);   // and a second conversion into the same array
    os << "| "; for (size_t i = 0; i < N; i++) { char* s = mpz_get_str(0, 10, arr[i]); os << s << " "; free(s); mpz_clear(arr[i]); }
  }
  else if (op == "unlift" || op == "rt") {
    std::array<mpz_t, N> arr;
    for (size_t i = 0; i < N; i++) mpz_init_set_str(arr[i], v[i].c_str(), 10);
    a.mpz2poly(arr);
    if (op == "unlift") show(os, a); else showmpz(os, a);
    for (size_t i = 0; i < N; i++) mpz_clear(arr[i]);
  } else if (op == "unlift_set" || op == "unlift_ctor") {   // the other big-integer entry points: set_mpz / the mpz_class constructors and operator=
    std::array<mpz_class, N> arr;
    for (size_t i = 0; i < N; i++) arr[i] = mpz_class(v[i], 10);
    if (op == "unlift_set") { a.set_mpz(arr); show(os, a); }
    else { P* q = alloc_aligned<P, 32>(1, arr); show(os, *q); free_aligned(1, q); }
  } else if (op == "lift_unlift") {   // residues -> integers -> residues
    put(a, v, 0);
    std::array<mpz_t, N> arr = a.poly2mpz();
    b.mpz2poly(arr); show(os, b);
    for (size_t i = 0; i < N; i++) mpz_clear(arr[i]);
  } else if (op == "ringadd" || op == "ringsub" || op == "ringmul") {
    put(a, v, 0); put(b, v, sz);
    if (op == "ringadd") c = a + b;
    else if (op == "ringsub") c = a - b;
    else { a.ntt_pow_phi(); b.ntt_pow_phi(); c = a * b; c.invntt_pow_invphi(); }
    showmpz(os, c);
    if (op != "ringmul") {
      // the same ring operations inside compound expressions (every overload of the operators: poly/poly, poly/expr, expr/poly, expr/expr) must
      // agree with the two-operand forms the model is compared with:  (a + b) - (b + b) = a - b,  (a - b) - (b - a) = (a - b) + (a - b),
      // a - (b + b) + b = a - b,  (a + a) - a = a
      static P* y = alloc_aligned<P, 32>(6);
      P &d = y[0], &e = y[1], &t1 = y[2], &t2 = y[3], &r1 = y[4], &r2 = y[5];
      d = a - b; e = d + d;
      // (compared word by word: the library's own != does not compile in SIMD builds when the degree is below the vector width)
      auto differ = [](P const& u, P const& w) { for (size_t cm = 0; cm < P::nmoduli; cm++) for (size_t i = 0; i < P::degree; i++) if (u(cm, i) != w(cm, i)) return true; return false; };
      bool okc = true;
      r1 = (a + b) - (b + b); if (differ(r1, d)) okc = false;
      r1 = (a - b) - (b - a); if (differ(r1, e)) okc = false;
      t1 = b + b; r1 = a - (b + b); r2 = a - t1; if (differ(r1, r2)) okc = false;
      r1 = (a + a) - a; if (differ(r1, a)) okc = false;
      t1 = a + b; t2 = b - a; r1 = (a + b) + (b - a); r2 = t1 + t2; if (differ(r1, r2)) okc = false;
      if (!okc) os << "COMPOUND-EXPRESSION-DISAGREES ";
    }
  } else os << "badop";
}

int main() {
  std::string line; std::ostringstream os;
  while (std::getline(std::cin, line)) {
    std::istringstream is(line);
    std::string op; unsigned w, n, nm;
    if (!(is >> op >> w >> n >> nm)) continue;
    std::vector<std::string> v; std::string x;
    while (is >> x) v.push_back(x);
    bool done = false;
#define X(T, N, NM) if (!done && w == 8 * sizeof(T) && n == N && nm == NM) { run<T, N, NM>(op, v, os); done = true; }
    CONFIGS
#undef X
    if (!done) os << "noconfig";
    os << "\n";
  }
  fputs(os.str().c_str(), stdout);
  return 0;
}
