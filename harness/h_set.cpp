// C15 harness: coefficient-list setters (iterator range, std::array, constructor, scalar, big integers), poly and poly_p.
// Output: "ok <words>" or "throw <words after the throw>"; the polynomial is pre-filled with the pattern 5+index.
#include <cstdio>
#include <cstdlib>
#include <string>
#include <vector>
#include <array>
#include <iostream>
#include <sstream>
#include <stdexcept>
#include <nfl.hpp>
#include "tools.h"
#include NTT_CFG_H
typedef unsigned long long ull;

template <class P> static void prefill(P& a) { for (size_t cm = 0; cm < P::nmoduli; cm++) for (size_t i = 0; i < P::degree; i++) a(cm, i) = (typename P::value_type)(5 + cm * P::degree + i); }
template <class P> static void show(std::ostringstream& os, P const& a) { for (size_t cm = 0; cm < P::nmoduli; cm++) for (size_t i = 0; i < P::degree; i++) os << " " << (ull)a(cm, i); }

template <class P> static void run(const std::string& src, bool reduce, const std::string& kind, const std::vector<std::string>& v, std::ostringstream& os) {
  typedef typename P::value_type T;
  static P* x = alloc_aligned<P, 32>(1);
  P& a = x[0];
  prefill(a);
  bool thrown = false;
  try {
    if (kind == "native") {
      std::vector<T> vals; for (auto& s : v) vals.push_back((T)strtoull(s.c_str(), 0, 10));
      if (src == "range") a.set(vals.begin(), vals.end(), reduce);
      else if (src == "ptr") a.set(vals.data(), vals.data() + vals.size(), reduce);
      else if (src == "array") { std::array<T, P::degree> arr; for (size_t i = 0; i < P::degree; i++) arr[i] = vals[i]; a.set(arr.begin(), arr.end(), reduce); }
      else if (src == "ctor") { P* b = alloc_aligned<P, 32>(1, vals.begin(), vals.end(), reduce); os << "ok"; show(os, *b); free_aligned(1, b); return; }
      else if (src == "scalar") a.set(vals[0], reduce);
      else if (src == "assign") a = vals[0];
    } else {
      std::vector<mpz_class> vals; for (auto& s : v) vals.push_back(mpz_class(s, 10));
      if (src == "range") a.set_mpz(vals.begin(), vals.end());
      else if (src == "scalar") a.set_mpz(vals[0]);
      // every other single-integer entry point: set_mpz(mpz_t), operator=(mpz_class), operator=(mpz_t), the two constructors
      else if (src == "scalar_t") { mpz_t z; mpz_init_set(z, vals[0].get_mpz_t()); a.set_mpz(z); mpz_clear(z); }
      else if (src == "assign") a = vals[0];
      else if (src == "assign_t") { mpz_t z; mpz_init_set(z, vals[0].get_mpz_t()); a = z; mpz_clear(z); }
      else if (src == "ctor") { P* b = alloc_aligned<P, 32>(1, vals[0]); os << "ok"; show(os, *b); free_aligned(1, b); return; }
      else if (src == "ctor_t") { mpz_t z; mpz_init_set(z, vals[0].get_mpz_t()); P* b = alloc_aligned<P, 32>(1, z); mpz_clear(z); os << "ok"; show(os, *b); free_aligned(1, b); return; }
      else if (src == "array") { std::array<mpz_class, P::degree> arr; for (size_t i = 0; i < P::degree; i++) arr[i] = vals[i]; a.set_mpz(arr); }
    }
  } catch (std::runtime_error const&) { thrown = true; }
  os << (thrown ? "throw" : "ok"); show(os, a);
}

int main() {
  std::string line; std::ostringstream os;
  while (std::getline(std::cin, line)) {
    std::istringstream is(line);
    std::string op, pk, src, kind; unsigned w, n, nm; int reduce;
    if (!(is >> op >> w >> n >> nm >> pk >> src >> reduce >> kind)) continue;
    std::vector<std::string> v; std::string x; while (is >> x) v.push_back(x);
    bool done = false;
#define X(T, N, NM) if (!done && w == 8 * sizeof(T) && n == N && nm == NM) { done = true; if (pk == "poly") run<nfl::poly<T, N, NM> >(src, reduce, kind, v, os); else run<nfl::poly_p<T, N, NM> >(src, reduce, kind, v, os); }
    CONFIGS
#undef X
    if (!done) os << "noconfig";
    os << "\n";
  }
  fputs(os.str().c_str(), stdout);
  return 0;
}
