// C01/C02/C05 harness: public transform API of nfl::poly on compiled-in configurations (CONFIGS comes from the
// generated header NTT_CFG_H).  One output line per case: every stored word, modulus-major.
#include <cstdio>
#include <cstdlib>
#include <string>
#include <vector>
#include <iostream>
#include <sstream>
#include <nfl.hpp>
#include "tools.h"
#include NTT_CFG_H

typedef unsigned long long ull;

template <class P> static void put(P& a, const std::vector<ull>& v, size_t off) {
  for (size_t cm = 0; cm < P::nmoduli; cm++)
    for (size_t i = 0; i < P::degree; i++) a(cm, i) = (typename P::value_type)v[off + cm * P::degree + i];
}
template <class P> static void show(std::ostringstream& os, P const& a) {
  for (size_t cm = 0; cm < P::nmoduli; cm++)
    for (size_t i = 0; i < P::degree; i++) os << (ull)a(cm, i) << " ";
}

template <class T, size_t N, size_t NM> static void run(const std::string& op, const std::vector<ull>& v, std::ostringstream& os) {
  typedef nfl::poly<T, N, NM> P;
  static P* a = alloc_aligned<P, 32>(1);
  static P* b = alloc_aligned<P, 32>(1);
  static P* c = alloc_aligned<P, 32>(1);
  const size_t sz = N * NM;
  put(*a, v, 0);
  if (op == "fwd") { a->ntt_pow_phi(); show(os, *a); }
  else if (op == "inv") { a->invntt_pow_invphi(); show(os, *a); }
  else if (op == "geneq") { P* t = alloc_aligned<P, 32>(1); *t = *a; a->ntt_pow_phi(); t->invntt_pow_invphi();
    for (size_t cm = 0; cm < P::nmoduli; cm++) { for (size_t i = 0; i < P::degree; i++) os << (ull)(*a)(cm, i) << " "; for (size_t i = 0; i < P::degree; i++) os << (ull)(*t)(cm, i) << " "; }
    free_aligned(1, t); }
  else if (op == "rt_fi") { a->ntt_pow_phi(); a->invntt_pow_invphi(); show(os, *a); }
  else if (op == "rt_if") { a->invntt_pow_invphi(); a->ntt_pow_phi(); show(os, *a); }
  else if (op == "mul" || op == "mulshoup") {
    put(*b, v, sz);
    a->ntt_pow_phi(); b->ntt_pow_phi();
    if (op == "mul") *c = *a * *b;
    else { static P* bs = alloc_aligned<P, 32>(1); *bs = nfl::compute_shoup(*b); *c = nfl::shoup(*a * *b, *bs); }
    c->invntt_pow_invphi(); show(os, *c);
  } else if (op == "addfwd") {
    put(*b, v, sz);
    *c = *a + *b; c->ntt_pow_phi(); show(os, *c);
    a->ntt_pow_phi(); b->ntt_pow_phi(); *c = *a + *b; os << "| "; show(os, *c);
  } else if (op == "circuit") {   // (a*b + a) - b evaluated in evaluation form, transformed back
    put(*b, v, sz);
    a->ntt_pow_phi(); b->ntt_pow_phi();
    *c = *a * *b; *c = *c + *a; *c = *c - *b;
    c->invntt_pow_invphi(); show(os, *c);
  } else os << "badop";
}

int main() {
  std::string line;
  std::ostringstream os;
  while (std::getline(std::cin, line)) {
    std::istringstream is(line);
    std::string op; unsigned w, n, nm;
    if (!(is >> op >> w >> n >> nm)) continue;
    std::vector<ull> v; ull x;
    while (is >> x) v.push_back(x);
    bool done = false;
#define X(T, N, NM) if (!done && w == 8 * sizeof(T) && n == N && nm == NM) { run<T, N, NM>(op, v, os); done = true; }
    CONFIGS
#undef X
    if (!done) os << "noconfig";
    os << "\n";
  }
  fputs(os.str().c_str(), stdout);
  return 0;
}
