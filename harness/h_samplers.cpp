// C09/C12 harness: the samplers of nfl::poly driven by a scripted random tape (nfl::fastrandombytes is defined HERE and
// reads the tape; lib/prng/*.cpp is not linked).  Line: <dist> <w> <n> <nm> <params..> T <hex tape>
// Output: "ok <words> | reqs=<len,len,..> consumed=<k>[ EXHAUSTED]"  or "throw | ..."
#include <cstdio>
#include <cstdlib>
#include <cstring>
#include <string>
#include <vector>
#include <iostream>
#include <sstream>
#include <stdexcept>
static std::vector<unsigned char> tape; static size_t tpos; static std::vector<size_t> reqs; static bool exhausted;
namespace nfl { void fastrandombytes(unsigned char* r, unsigned long long len) {
  reqs.push_back((size_t)len);
  for (unsigned long long i = 0; i < len; i++) { if (tpos < tape.size()) r[i] = tape[tpos++]; else { exhausted = true; r[i] = 0; } }
} }
#include <nfl.hpp>
#include "tools.h"
#include NTT_CFG_H
typedef unsigned long long ull;
template <class P> static void show(std::ostringstream& os, P const& a) { for (size_t cm = 0; cm < P::nmoduli; cm++) for (size_t i = 0; i < P::degree; i++) os << " " << (ull)a(cm, i); }

template <class T, size_t N, size_t NM> static void run(const std::string& dist, const std::vector<std::string>& prm, std::ostringstream& os) {
  typedef nfl::poly<T, N, NM> P;
  static P* x = alloc_aligned<P, 32>(1);
  P& a = x[0];
  for (size_t cm = 0; cm < NM; cm++) for (size_t i = 0; i < N; i++) a(cm, i) = (T)(3 + i);
  bool thrown = false;
  try {
    if (dist == "uniform") a = nfl::uniform();
    else if (dist == "bounded") a = nfl::non_uniform(strtoull(prm[0].c_str(), 0, 10), strtoull(prm[1].c_str(), 0, 10));
    else if (dist == "zo") a = nfl::ZO_dist((uint8_t)strtoul(prm[0].c_str(), 0, 10));
    else if (dist == "hwt") a = nfl::hwt_dist((uint32_t)strtoul(prm[0].c_str(), 0, 10));
    else if (dist == "gauss") {   // prm: amplifier sigma centre ; the noise vector is printed too (same tape replayed)
      nfl::FastGaussianNoise<uint8_t, T, 1> fg(atof(prm[1].c_str()), 40, 1024, atof(prm[2].c_str()));
      size_t mark = tpos;
      a = nfl::gaussian<uint8_t, T, 1>(&fg, strtoull(prm[0].c_str(), 0, 10));
      size_t endpos = tpos; std::vector<size_t> r1 = reqs;
      tpos = mark; std::vector<T> noise(N);
      fg.getNoise(noise.data(), N);
      tpos = endpos; reqs = r1;
      os << "ok"; show(os, a); os << " noise="; for (size_t i = 0; i < N; i++) os << (ull)noise[i] << ",";
      return;
    }
    else { os << "baddist"; return; }
  } catch (std::runtime_error const&) { thrown = true; }
  os << (thrown ? "throw" : "ok"); if (!thrown) show(os, a);
}

int main() {
  std::string line; std::ostringstream os;
  while (std::getline(std::cin, line)) {
    std::istringstream is(line); std::string dist; unsigned w, n, nm;
    if (!(is >> dist >> w >> n >> nm)) continue;
    std::vector<std::string> prm; std::string tok, hex;
    while (is >> tok) { if (tok == "T") { is >> hex; break; } prm.push_back(tok); }
    tape.clear(); tpos = 0; reqs.clear(); exhausted = false;
    if (hex != "-") for (size_t i = 0; i + 1 < hex.size(); i += 2) tape.push_back((unsigned char)strtoul(hex.substr(i, 2).c_str(), 0, 16));
    bool done = false;
#define X(T, N, NM) if (!done && w == 8 * sizeof(T) && n == N && nm == NM) { done = true; run<T, N, NM>(dist, prm, os); }
    CONFIGS
#undef X
    if (!done) os << "noconfig";
    os << " | reqs="; for (size_t r : reqs) os << r << ","; os << " consumed=" << tpos << (exhausted ? " EXHAUSTED" : "") << "\n";
  }
  fputs(os.str().c_str(), stdout);
  return 0;
}
