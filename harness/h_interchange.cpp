// C05: write = transform to evaluation form and serialise (hex); read = deserialise, multiply by itself, inverse transform, CRT-lift.
#include <cstdio>
#include <cstdlib>
#include <string>
#include <vector>
#include <iostream>
#include <sstream>
#include <nfl.hpp>
#include "tools.h"
#include NTT_CFG_H
typedef unsigned long long ull;
static std::string hex(const std::string& s) { static const char* d = "0123456789abcdef"; std::string o; for (unsigned char c : s) { o += d[c >> 4]; o += d[c & 15]; } return o; }
static std::string unhex(const std::string& h) { std::string o; for (size_t i = 0; i + 1 < h.size(); i += 2) o += (char)strtoul(h.substr(i, 2).c_str(), 0, 16); return o; }
template <class T, size_t N, size_t NM> static void run(const std::string& op, const std::vector<std::string>& v, std::ostringstream& os) {
  typedef nfl::poly<T, N, NM> P;
  static P* x = alloc_aligned<P, 32>(2);
  P &a = x[0], &b = x[1];
  if (op == "write") {
    for (size_t cm = 0; cm < NM; cm++) for (size_t i = 0; i < N; i++) a(cm, i) = (T)strtoull(v[cm * N + i].c_str(), 0, 10);
    a.ntt_pow_phi(); std::ostringstream ss; a.serialize_manually(ss); os << hex(ss.str());
  } else {
    std::istringstream ss(unhex(v[0])); a.deserialize_manually(ss);
    b = a * a; b = b + a; b.invntt_pow_invphi();
    std::array<mpz_t, N> arr = b.poly2mpz();
    for (size_t i = 0; i < N; i++) { char* s = mpz_get_str(0, 16, arr[i]); os << s << " "; free(s); mpz_clear(arr[i]); }
    os << (a == a ? "eq" : "NEQ") << (a != b ? " ne" : " same");
  }
}
int main() {
  std::string line; std::ostringstream os;
  while (std::getline(std::cin, line)) {
    std::istringstream is(line); std::string op; unsigned w, n, nm;
    if (!(is >> op >> w >> n >> nm)) continue;
    std::vector<std::string> v; std::string x; while (is >> x) v.push_back(x);
    bool done = false;
#define X(T, N, NM) if (!done && w == 8 * sizeof(T) && n == N && nm == NM) { done = true; run<T, N, NM>(op, v, os); }
    CONFIGS
#undef X
    os << "\n";
  }
  fputs(os.str().c_str(), stdout); return 0;
}
