// C13 harness: the repository's fastrandombytes.cpp + the Salsa20 assembly, linked with a fixed-key nfl::randombytes stub
// that counts its calls.  ONE history per process (the generator state is static): stdin holds a single line
// "<keyseed> <len> <len> ..."  -> per request: hex (<= 96 bytes) or FNV hash, canary flag; then "| seedings=<k>".
#include <cstdio>
#include <cstdlib>
#include <cstring>
#include <string>
#include <vector>
#include <iostream>
#include <sstream>
#include <stdint.h>
static int seed_calls; static unsigned keyseed;
// ---- a portable Salsa20/20 block function (the specification's double rounds), used only for requests too long for the model runner: sampled
// 64-byte blocks of a multi-gigabyte request are compared with Salsa20(key, nonce = request number, block counter = offset / 64)
static inline uint32_t rotl32(uint32_t v, int c) { return (v << c) | (v >> (32 - c)); }
static inline uint32_t ld32(const unsigned char* p) { return (uint32_t)p[0] | ((uint32_t)p[1] << 8) | ((uint32_t)p[2] << 16) | ((uint32_t)p[3] << 24); }
static void salsa20_block(unsigned char out[64], const unsigned char key[32], uint64_t nonce, uint64_t ctr) {
  uint32_t in[16], x[16];
  in[0] = 0x61707865u; in[5] = 0x3320646eu; in[10] = 0x79622d32u; in[15] = 0x6b206574u;
  for (int i = 0; i < 4; i++) { in[1 + i] = ld32(key + 4 * i); in[11 + i] = ld32(key + 16 + 4 * i); }
  in[6] = (uint32_t)nonce; in[7] = (uint32_t)(nonce >> 32); in[8] = (uint32_t)ctr; in[9] = (uint32_t)(ctr >> 32);
  memcpy(x, in, sizeof x);
#define QR(a, b, c, d) x[b] ^= rotl32(x[a] + x[d], 7); x[c] ^= rotl32(x[b] + x[a], 9); x[d] ^= rotl32(x[c] + x[b], 13); x[a] ^= rotl32(x[d] + x[c], 18);
  for (int r = 0; r < 10; r++) {
    QR(0, 4, 8, 12) QR(5, 9, 13, 1) QR(10, 14, 2, 6) QR(15, 3, 7, 11)
    QR(0, 1, 2, 3) QR(5, 6, 7, 4) QR(10, 11, 8, 9) QR(15, 12, 13, 14)
  }
#undef QR
  for (int i = 0; i < 16; i++) { uint32_t v = x[i] + in[i]; out[4 * i] = (unsigned char)v; out[4 * i + 1] = (unsigned char)(v >> 8); out[4 * i + 2] = (unsigned char)(v >> 16); out[4 * i + 3] = (unsigned char)(v >> 24); }
}
namespace nfl { void randombytes(unsigned char* x, unsigned long long xlen) { seed_calls++; for (unsigned long long i = 0; i < xlen; i++) x[i] = (unsigned char)(keyseed + 7 * i + 1); } }
namespace nfl { void fastrandombytes(unsigned char* r, unsigned long long rlen); }

int main() {
  std::string line; std::ostringstream os;
  if (std::getline(std::cin, line)) {
    std::istringstream is(line); unsigned long len; std::string mode;
    is >> keyseed;
    seed_calls = 0;
    size_t req = 0;
    while (is >> len) {
      size_t off = 64 + (req * 13) % 64;           // every alignment 0..63 over the history
      if (len > (1UL << 30)) {
        // a multi-gigabyte request: sampled blocks against the portable block function (first, last, around every multiple of 2^32 bytes, 256 others)
        unsigned char* big = (unsigned char*)malloc(len + 256);
        if (!big) { os << "huge:" << len << ":NOMEM "; req++; continue; }
        memset(big, 0xCC, len + 256);
        nfl::fastrandombytes(big + off, len);
        unsigned char key[32]; for (int i = 0; i < 32; i++) key[i] = (unsigned char)(keyseed + 7 * i + 1);
        std::vector<uint64_t> blocks; uint64_t nb = (len + 63) / 64;
        for (uint64_t b = 0; b < 4 && b < nb; b++) { blocks.push_back(b); blocks.push_back(nb - 1 - b); }
        for (uint64_t m = 1; m * (1ULL << 26) < nb + 4; m++) for (int d = -3; d <= 3; d++) { uint64_t b = m * (1ULL << 26) + d; if (b < nb) blocks.push_back(b); }
        uint64_t z = 88172645463325252ULL; for (int i = 0; i < 256; i++) { z ^= z << 13; z ^= z >> 7; z ^= z << 17; blocks.push_back(z % nb); }
        long long bad = -1;
        for (uint64_t b : blocks) {
          unsigned char ref[64]; salsa20_block(ref, key, (uint64_t)req, b);
          size_t n = (size_t)((b * 64 + 64 <= len) ? 64 : len - b * 64);
          if (memcmp(ref, big + off + b * 64, n) != 0) { for (size_t i = 0; i < n; i++) if (ref[i] != big[off + b * 64 + i]) { bad = (long long)(b * 64 + i); break; } break; }
        }
        bool canary = true;
        for (size_t i = 0; i < off; i++) if (big[i] != 0xCC) canary = false;
        for (size_t i = off + len; i < len + 256; i++) if (big[i] != 0xCC) canary = false;
        os << "huge:" << len << ":"; if (bad < 0) os << "ok"; else os << "MISMATCH@" << bad; os << (canary ? " " : " CANARY-OVERWRITTEN ");
        free(big); req++; continue;
      }
      std::vector<unsigned char> buf(len + 256, 0xCC);
      nfl::fastrandombytes(buf.data() + off, len);
      bool canary = true;
      for (size_t i = 0; i < off; i++) if (buf[i] != 0xCC) canary = false;
      for (size_t i = off + len; i < buf.size(); i++) if (buf[i] != 0xCC) canary = false;
      if (len <= 96) { for (size_t i = 0; i < len; i++) { char h[3]; sprintf(h, "%02x", buf[off + i]); os << h; } if (len == 0) os << "-"; }
      else { unsigned long long hsh = 1469598103934665603ULL; for (size_t i = 0; i < len; i++) { hsh ^= buf[off + i]; hsh *= 1099511628211ULL; } os << "h" << hsh; }
      os << (canary ? " " : " CANARY-OVERWRITTEN ");
      req++;
    }
    os << "| seedings=" << seed_calls << "\n";
  }
  fputs(os.str().c_str(), stdout);
  return 0;
}
