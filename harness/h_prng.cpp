// C13 harness: the repository's fastrandombytes.cpp + the Salsa20 assembly, linked with a fixed-key nfl::randombytes stub
// that counts its calls.  ONE history per process (the generator state is static): stdin holds a single line
// "<keyseed> <len> <len> ..."  -> per request: hex (<= 96 bytes) or FNV hash, canary flag; then "| seedings=<k>".
#include <cstdio>
#include <cstdlib>
#include <cstring>
#include <string>
#include <vector>
#include <iostream>
#include <sstream>
static int seed_calls; static unsigned keyseed;
namespace nfl { void randombytes(unsigned char* x, unsigned long long xlen) { seed_calls++; for (unsigned long long i = 0; i < xlen; i++) x[i] = (unsigned char)(keyseed + 7 * i + 1); } }
namespace nfl { void fastrandombytes(unsigned char* r, unsigned long long rlen); }

int main() {
  std::string line; std::ostringstream os;
  if (std::getline(std::cin, line)) {
    std::istringstream is(line); unsigned long len; std::string mode;
    is >> keyseed;
    seed_calls = 0;
    size_t req = 0;
    while (is >> len) {
      size_t off = 64 + (req * 13) % 64;           // every alignment 0..63 over the history
      std::vector<unsigned char> buf(len + 256, 0xCC);
      nfl::fastrandombytes(buf.data() + off, len);
      bool canary = true;
      for (size_t i = 0; i < off; i++) if (buf[i] != 0xCC) canary = false;
      for (size_t i = off + len; i < buf.size(); i++) if (buf[i] != 0xCC) canary = false;
      if (len <= 96) { for (size_t i = 0; i < len; i++) { char h[3]; sprintf(h, "%02x", buf[off + i]); os << h; } if (len == 0) os << "-"; }
      else { unsigned long long hsh = 1469598103934665603ULL; for (size_t i = 0; i < len; i++) { hsh ^= buf[off + i]; hsh *= 1099511628211ULL; } os << "h" << hsh; }
      os << (canary ? " " : " CANARY-OVERWRITTEN ");
      req++;
    }
    os << "| seedings=" << seed_calls << "\n";
  }
  fputs(os.str().c_str(), stdout);
  return 0;
}
