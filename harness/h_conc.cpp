// C17 harness: T threads run the same deterministic workload on thread-private polynomials (construct, transform, add,
// multiply, compare, big-integer conversion both ways, serialise; polynomials built by the random distributions: consistency only, the
// byte stream is shared); every thread's digest must equal the digest of the
// sequential run, and the shared tables (poly::base, poly::gmp) must be byte-identical before and after.
// Usage: h_conc <threads> <rounds>   -> prints "ref=<d> ok=<k>/<T> tables=<unchanged|CHANGED> "
#include <cstdio>
#include <cstdlib>
#include <cstring>
#include <string>
#include <vector>
#include <thread>
#include <sstream>
#include <nfl.hpp>
#include "tools.h"
typedef unsigned long long ull;
namespace nfl { namespace tests {
template <class P> class poly_tests_proxy {
public:
  static ull tables_digest() {
    ull h = 1469598103934665603ULL;
    const unsigned char* b = reinterpret_cast<const unsigned char*>(&P::base);
    for (size_t i = 0; i < sizeof(P::base); i++) { h ^= b[i]; h *= 1099511628211ULL; }
    char* s = mpz_get_str(0, 16, P::gmp.moduli_product); for (char* c = s; *c; c++) { h ^= (unsigned char)*c; h *= 1099511628211ULL; } free(s);
    s = mpz_get_str(0, 16, P::gmp.modulus_shoup); for (char* c = s; *c; c++) { h ^= (unsigned char)*c; h *= 1099511628211ULL; } free(s);
    for (size_t cm = 0; cm < P::nmoduli; cm++) { s = mpz_get_str(0, 16, P::gmp.lifting_integers[cm]); for (char* c = s; *c; c++) { h ^= (unsigned char)*c; h *= 1099511628211ULL; } free(s); }
    h ^= P::gmp.shift_modulus_shoup; h *= 1099511628211ULL;
    return h;
  }
};
} }
// the bit-reversal table of the non-unrolled permutation (written by static initialisation only) is part of the immutable set
template <size_t degree, bool small = (degree <= PERMUT_LIMIT_UNROLL)> struct permut_digest { static ull get() { return 0; } };
template <size_t degree> struct permut_digest<degree, false> {
  static ull get() { ull h = 1469598103934665603ULL; for (size_t i = 0; i < degree; i++) { h ^= (ull)nfl::details::permut<degree, false>::P.data_[i]; h *= 1099511628211ULL; } return h; }
};
template <class P> static ull workload(unsigned seed, int rounds) {
  ull h = 1469598103934665603ULL;
  auto mix = [&](ull v) { h ^= v; h *= 1099511628211ULL; };
  P* x = alloc_aligned<P, 32>(4);
  P &a = x[0], &b = x[1], &c = x[2], &d = x[3];
  for (int r = 0; r < rounds; r++) {
    for (size_t cm = 0; cm < P::nmoduli; cm++) for (size_t i = 0; i < P::degree; i++) {
      a(cm, i) = (typename P::value_type)(((ull)(seed + r) * 2654435761ULL + i * 40503ULL + cm * 977ULL) % P::get_modulus(cm));
      b(cm, i) = (typename P::value_type)(((ull)(seed + 3 * r + 1) * 40503ULL + i * 2654435761ULL + cm) % P::get_modulus(cm));
    }
    c = a + b; d = a - b;
    a.ntt_pow_phi(); b.ntt_pow_phi();
    c = a * b; c = c + a; d = nfl::shoup(a * b, nfl::compute_shoup(b));
    mix((c == d) ? 1 : 0); mix((c != d) ? 1 : 0);
    c.invntt_pow_invphi(); d.invntt_pow_invphi();
    std::array<mpz_t, P::degree> arr = c.poly2mpz();
    for (size_t i = 0; i < P::degree; i++) mix(mpz_fdiv_ui(arr[i], 4294967291UL));
    d.mpz2poly(arr);
    for (size_t i = 0; i < P::degree; i++) mpz_clear(arr[i]);
    std::ostringstream ss; d.serialize_manually(ss); std::string s = ss.str();
    for (unsigned char ch : s) mix(ch);
    std::istringstream is(s); a.deserialize_manually(is);
    for (size_t cm = 0; cm < P::nmoduli; cm++) for (size_t i = 0; i < P::degree; i++) mix(a(cm, i));
    nfl::poly_p<typename P::value_type, P::degree, P::nmoduli> pp; pp = {1, 2, 3}; pp.ntt_pow_phi(); mix(pp(0, 1));
  }
  free_aligned(4, x);
  return h;
}
// handles that SHARE one payload, one per thread: each thread mutates only its own handle (copy-on-write must isolate them)
template <class P> static bool shared_handles(int T, int rounds) {
  typedef nfl::poly_p<typename P::value_type, P::degree, P::nmoduli> H;
  bool ok = true;
  for (int r = 0; r < rounds * 20 && ok; r++) {
    // exactly T owners of one payload (no extra owner kept alive by the harness)
    std::vector<H*> hs; hs.push_back(new H());
    for (size_t i = 0; i < P::degree; i++) (*hs[0])(0, i) = (typename P::value_type)(i + 1 + r);
    for (int t = 1; t < T; t++) hs.push_back(new H(*hs[0]));
    std::vector<std::thread> th;
    for (int t = 0; t < T; t++) th.emplace_back([&, t] { H& mine = *hs[t]; mine(P::nmoduli - 1, P::degree - 1) = (typename P::value_type)(1000 + t); mine(0, t % P::degree) = (typename P::value_type)(7 + t); });
    for (auto& x : th) x.join();
    for (int t = 0; t < T; t++) {
      H const& c = *hs[t];
      for (size_t i = 0; i < P::degree; i++) {
        typename P::value_type want = (typename P::value_type)(i + 1 + r);
        if (i == (size_t)(t % P::degree)) want = (typename P::value_type)(7 + t);
        if (P::nmoduli == 1 && i == P::degree - 1) want = (typename P::value_type)(1000 + t);
        if (c(0, i) != want) ok = false;
      }
      if (c(P::nmoduli - 1, P::degree - 1) != (typename P::value_type)(1000 + t)) ok = false;
      delete hs[t];
    }
  }
  return ok;
}
// thread-private polynomials built by every random distribution (each thread has its own polynomial and its own Gaussian sampler; the
// byte generator is the shared one, C18): residues canonical, and for every distribution but the uniform one the residues of a coefficient
// represent ONE small signed integer across the moduli (C09) -- also when other threads sample at the same time.  Returns the violations.
template <class P> static ull sampler_bad(int rounds, nfl::FastGaussianNoise<uint8_t, typename P::value_type, 2>* fg) {
  typedef typename P::value_type T;
  P* x = alloc_aligned<P, 32>(1); P& a = x[0]; ull bad = 0;
  auto check = [&](bool small) {
    for (size_t i = 0; i < P::degree; i++) { long long v0 = 0;
      for (size_t cm = 0; cm < P::nmoduli; cm++) { ull r = a(cm, i), p = P::get_modulus(cm); if (r >= p) bad++;
        if (small) { long long v = (r > p / 2) ? (long long)r - (long long)p : (long long)r; if (cm == 0) v0 = v; else if (v != v0) bad++; } } } };
  for (int r = 0; r < rounds; r++) {
    a.set(nfl::uniform()); check(false);
    a.set(nfl::non_uniform(5)); check(true);
    a.set(nfl::ZO_dist()); check(true);
    a.set(nfl::hwt_dist(P::degree / 4 + 1)); check(true);
    a.set(nfl::gaussian<uint8_t, T, 2>(fg)); check(true);
    a.set(nfl::gaussian<uint8_t, T, 2>(fg, 3)); check(true);
  }
  free_aligned(1, x);
  return bad;
}
template <class P> static void go_samplers(int T, int rounds, std::ostringstream& os) {
  typedef nfl::FastGaussianNoise<uint8_t, typename P::value_type, 2> G;
  std::vector<G*> fg; for (int t = 0; t < T; t++) fg.push_back(new G(3.0, 40, 1024));      // built one after the other, before any thread starts
  ull seq = 0; for (int t = 0; t < T; t++) seq += sampler_bad<P>(rounds, fg[t]);
  std::vector<ull> got(T, 0); std::vector<std::thread> th;
  for (int t = 0; t < T; t++) th.emplace_back([&, t] { got[t] = sampler_bad<P>(rounds * 4, fg[t]); });
  for (auto& x : th) x.join();
  ull par = 0; for (int t = 0; t < T; t++) par += got[t];
  for (int t = 0; t < T; t++) delete fg[t];
  os << "samplers=" << ((seq == 0 && par == 0) ? "consistent" : "INCONSISTENT") << "(" << seq << "," << par << ") ";
}
static int g_mode = 0;   // 0 = everything, 1 = private-object workload only, 2 = shared-payload handles only
template <class P> static void go(int T, int rounds, std::ostringstream& os) {
  if (g_mode == 2) { os << "shared-handles=" << (shared_handles<P>(T, rounds) ? "isolated" : "CORRUPTED") << " "; return; }
  typedef nfl::tests::poly_tests_proxy<P> X;
  { P* warm = alloc_aligned<P, 32>(1); free_aligned(1, warm); }
  ull t0 = X::tables_digest() ^ permut_digest<P::degree>::get();
  std::vector<ull> ref(T), got(T);
  for (int t = 0; t < T; t++) ref[t] = workload<P>(1000 + t, rounds);
  ull t1 = X::tables_digest() ^ permut_digest<P::degree>::get();
  std::vector<std::thread> th;
  for (int t = 0; t < T; t++) th.emplace_back([&, t] { got[t] = workload<P>(1000 + t, rounds); });
  for (auto& x : th) x.join();
  ull t2 = X::tables_digest() ^ permut_digest<P::degree>::get();
  int ok = 0; for (int t = 0; t < T; t++) if (ref[t] == got[t]) ok++;
  os << "ok=" << ok << "/" << T << " tables=" << ((t0 == t1 && t1 == t2) ? "unchanged" : "CHANGED") << " shared-handles=" << (g_mode == 1 ? "skipped" : (shared_handles<P>(T, rounds) ? "isolated" : "CORRUPTED")) << " ";
}
int main(int argc, char** argv) {
  int T = argc > 1 ? atoi(argv[1]) : 4, rounds = argc > 2 ? atoi(argv[2]) : 3;
  g_mode = argc > 3 ? atoi(argv[3]) : 0;
  std::ostringstream os;
  go<nfl::poly<uint16_t, 64, 2> >(T, rounds, os);
  go<nfl::poly<uint32_t, 256, 3> >(T, rounds, os);
  go<nfl::poly<uint64_t, 128, 2> >(T, rounds, os);
  if (g_mode != 2) { go_samplers<nfl::poly<uint16_t, 64, 2> >(T, rounds, os); go_samplers<nfl::poly<uint32_t, 256, 3> >(T, rounds, os); go_samplers<nfl::poly<uint64_t, 128, 2> >(T, rounds, os); }
  // the largest degrees (size-dependent code paths: scratch areas, table slices), fewer threads and one round
  { int keep = g_mode; if (g_mode != 2) { g_mode = 1; int Tb = T < 4 ? T : 4;
      go<nfl::poly<uint16_t, 512, 2> >(Tb, 1, os); go<nfl::poly<uint32_t, 32768, 1> >(Tb, 1, os); go<nfl::poly<uint64_t, 8192, 2> >(Tb, 1, os); }
    g_mode = keep; }
  // a large payload makes the copy in detach() long enough for another thread's write to land inside it if isolation is broken
  if (g_mode != 1) os << "shared-handles-large=" << ((shared_handles<nfl::poly<uint32_t, 32768, 1> >(2, 6) && shared_handles<nfl::poly<uint32_t, 32768, 1> >(3, 2)) ? "isolated" : "CORRUPTED") << " ";
  puts(os.str().c_str());
  return 0;
}
