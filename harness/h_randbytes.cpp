// C19 harness: the repository's randombytes.cpp, textually included, against a scripted operating system.
// Line: "<ev> <ev> ... | <xlen> <xlen> ..."   events: OF OK RE RZ RD<c>.   Output per call: hex bytes, then the state.
#include <fcntl.h>
#include <sys/stat.h>
#include <sys/types.h>
#include <unistd.h>
#include <cstdio>
#include <cstdlib>
#include <cstring>
#include <string>
#include <vector>
#include <iostream>
#include <sstream>

struct Blocked {};
static std::vector<std::string> script; static size_t pos;
static long opens_ok, sleeps; static int curfd = -7; static std::vector<long> asked; static unsigned long dataseq;
static unsigned char nextbyte() { unsigned char b = (unsigned char)((dataseq * 7 + 3) & 0xff); dataseq++; return b; }
static int my_open(const char*, int) {
  if (pos >= script.size()) throw Blocked();
  std::string e = script[pos];
  if (e == "OF") { pos++; return -1; }
  if (e == "OK") { pos++; opens_ok++; curfd = 42; return 42; }
  if (e == "OK0") { pos++; opens_ok++; curfd = 0; return 0; }       // a successful open may return descriptor 0 (stdin closed)
  throw Blocked();   // wrong kind of answer
}
static long my_read(int fd, void* buf, size_t k) {
  asked.push_back((long)k);
  if (fd != curfd) { fprintf(stderr, "read on bad fd\n"); abort(); }
  if (pos >= script.size()) { asked.pop_back(); throw Blocked(); }
  std::string e = script[pos];
  if (e == "RE") { pos++; return -1; }
  if (e == "RZ") { pos++; return 0; }
  if (e.substr(0, 2) == "RD") {
    size_t c = strtoul(e.c_str() + 2, 0, 10);
    if (c < 1 || c > k) { asked.pop_back(); throw Blocked(); }
    pos++;
    for (size_t i = 0; i < c; i++) ((unsigned char*)buf)[i] = nextbyte();
    return (long)c;
  }
  asked.pop_back(); throw Blocked();
}
static unsigned my_sleep(unsigned) { sleeps++; return 0; }
#define open my_open
#define read my_read
#define sleep my_sleep
#include "randombytes.cpp"
#undef open
#undef read
#undef sleep

int main() {
  std::string line; std::ostringstream os;
  while (std::getline(std::cin, line)) {
    script.clear(); pos = 0; opens_ok = 0; sleeps = 0; curfd = -7; asked.clear(); dataseq = 0; nfl::fd = -1;
    std::istringstream is(line); std::string tok; std::vector<unsigned long> lens; bool second = false;
    while (is >> tok) { if (tok == "|") { second = true; continue; } if (second) lens.push_back(strtoul(tok.c_str(), 0, 10)); else script.push_back(tok); }
    for (unsigned long xlen : lens) {
      std::vector<unsigned char> buf(xlen + 32, 0xCC);
      bool blocked = false;
      try { nfl::randombytes(buf.data() + 16, xlen); } catch (Blocked&) { blocked = true; }
      if (blocked) { os << "blocked "; break; }
      bool canary = true;
      for (int i = 0; i < 16; i++) if (buf[i] != 0xCC || buf[16 + xlen + i] != 0xCC) canary = false;
      if (xlen <= 64) { for (unsigned long i = 0; i < xlen; i++) { char h[3]; sprintf(h, "%02x", buf[16 + i]); os << h; } }
      else { unsigned long long hsh = 1469598103934665603ULL; for (unsigned long i = 0; i < xlen; i++) { hsh ^= buf[16 + i]; hsh *= 1099511628211ULL; } os << "h" << hsh; }
      os << (canary ? " " : " CANARY-OVERWRITTEN ");
    }
    os << "| opens=" << opens_ok << " sleeps=" << sleeps << " consumed=" << pos << " asked=";
    for (long a : asked) os << a << ",";
    os << "\n";
  }
  fputs(os.str().c_str(), stdout);
  return 0;
}
