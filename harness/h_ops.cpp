// C03/C05 harness: calls the functors of nfl::ops directly (scalar and, when built with a SIMD back end, every
// vector specialisation, with the case placed in a rotating lane).  One output line per input line:
//   <serial> [<sse lane>] [<avx2 lane>]      (+ " LANE_MISMATCH" if some other lane differs from the scalar functor)
#include <cstdio>
#include <cstdlib>
#include <cstring>
#include <string>
#include <vector>
#include <iostream>
#include <sstream>
#include <nfl.hpp>

typedef unsigned long long ull;
using namespace nfl;

template <class T> static int find_cm(ull p) {
  for (unsigned i = 0; i < params<T>::kMaxNbModuli; i++) if ((ull)params<T>::P[i] == p) return (int)i;
  return -1;
}

static bool lane_bad;

template <class T, class M> struct VecOps {
  static constexpr size_t L = M::template elt_count<T>::value;
  typedef decltype(M::load((T const*)nullptr)) V;

  static void fill(T* dst, ull v, size_t lane, size_t idx, T p, int k) {
    for (size_t j = 0; j < L; j++) dst[j] = (j == lane) ? (T)v : (T)(((v % p) + (j + 1) * 7919ULL * (k + 1) + idx * 31ULL) % p);
  }
  static ull add(ull x, ull y, size_t cm, size_t idx, bool sub) {
    T p = params<T>::P[cm]; size_t lane = idx % L;
    alignas(32) T a[L], b[L], o[L];
    fill(a, x, lane, idx, p, 0); fill(b, y, lane, idx, p, 1);
    V r = sub ? ops::submod<T, M>{}(M::load(a), M::load(b), cm) : ops::addmod<T, M>{}(M::load(a), M::load(b), cm);
    M::store(o, r);
    for (size_t j = 0; j < L; j++) {
      T s = sub ? ops::submod<T, simd::serial>{}(a[j], b[j], cm) : ops::addmod<T, simd::serial>{}(a[j], b[j], cm);
      if (s != o[j]) lane_bad = true;
    }
    return o[lane];
  }
  static ull mulshoup(ull x, ull y, size_t cm, size_t idx) {
    typedef typename ops::mulmod_shoup<T, M>::simd_mode FM;   // e.g. <uint16_t, avx2> works on SSE registers
    constexpr size_t FL = FM::template elt_count<T>::value;
    T p = params<T>::P[cm]; size_t lane = idx % FL;
    alignas(32) T a[L], b[L], bp[L], o[L];
    fill(a, x, lane, idx, p, 0); fill(b, y, lane, idx, p, 1);
    for (size_t j = 0; j < L; j++) bp[j] = ops::compute_shoup<T, simd::serial>{}(b[j], cm);
    auto r = ops::mulmod_shoup<T, M>{}(FM::load(a), FM::load(b), FM::load(bp), cm);
    FM::store(o, r);
    for (size_t j = 0; j < FL; j++) if (ops::mulmod_shoup<T, simd::serial>{}(a[j], b[j], bp[j], cm) != o[j]) lane_bad = true;
    return o[lane];
  }
#ifdef NFL_OPTIMIZED
  static ull muladdshoup(ull z, ull x, ull y, size_t cm, size_t idx) {
    typedef typename ops::muladd_shoup<T, M>::simd_mode FM;
    constexpr size_t FL = FM::template elt_count<T>::value;
    T p = params<T>::P[cm]; size_t lane = idx % FL;
    alignas(32) T c[L], a[L], b[L], bp[L], o[L];
    fill(c, z, lane, idx, p, 2); fill(a, x, lane, idx, p, 0); fill(b, y, lane, idx, p, 1);
    for (size_t j = 0; j < L; j++) bp[j] = ops::compute_shoup<T, simd::serial>{}(b[j], cm);
    auto r = ops::muladd_shoup<T, M>{}(FM::load(c), FM::load(a), FM::load(b), FM::load(bp), cm);
    FM::store(o, r);
    for (size_t j = 0; j < FL; j++) if (ops::muladd_shoup<T, simd::serial>{}(c[j], a[j], b[j], bp[j], cm) != o[j]) lane_bad = true;
    return o[lane];
  }
#endif
  // the vector butterfly ntt_loop_body<M, poly, T> on arbitrary lane contents (case in a rotating lane)
  static std::string bfly(ull wt, ull a, ull b, size_t cm, size_t idx) {
    typedef poly<T, 16, 1> P;
    T p = params<T>::P[cm]; size_t lane = idx % L;
    alignas(32) T x0[L], x1[L], w[L], wi[L], s0[L], s1[L];
    for (size_t j = 0; j < L; j++) {
      ull k = (j + 1) * 104729ULL + idx * 131ULL;
      x0[j] = (j == lane) ? (T)a : (T)(a + k); x1[j] = (j == lane) ? (T)b : (T)(b * 3 + k);
      w[j] = (j == lane) ? (T)wt : (T)((wt + k) % p); wi[j] = ops::compute_shoup<T, simd::serial>{}(w[j], cm);
      s0[j] = x0[j]; s1[j] = x1[j];
    }
    ops::ntt_loop_body<M, P, T> body(p); body(x0, x1, wi, w);
    ops::ntt_loop_body<simd::serial, P, T> sbody(p);
    for (size_t j = 0; j < L; j++) { sbody(&s0[j], &s1[j], &wi[j], &w[j]); if (s0[j] != x0[j] || s1[j] != x1[j]) lane_bad = true; }
    return std::to_string((ull)x0[lane]) + ":" + std::to_string((ull)x1[lane]);
  }
};

// which vector specialisations exist (the others inherit the scalar functor and take scalars)
template <class T> struct HasVec { static const bool addsub = false, mulshoup_sse = false, mulshoup_avx2 = false, muladd = false; };
template <> struct HasVec<uint16_t> { static const bool addsub = true, mulshoup_sse = true, mulshoup_avx2 = true, muladd = true; };
template <> struct HasVec<uint32_t> { static const bool addsub = true, mulshoup_sse = true, mulshoup_avx2 = false, muladd = false; };

#if defined(NFL_OPTIMIZED) && defined(NTT_SSE)
#define HAVE_SSE 1
#endif
#if defined(NFL_OPTIMIZED) && defined(NTT_AVX2)
#define HAVE_SSE 1
#define HAVE_AVX2 1
#endif

template <class T> static void run_case(const std::vector<std::string>& t, size_t idx, std::ostringstream& os) {
  const std::string& op = t[0];
  ull p = strtoull(t[2].c_str(), 0, 10);
  int cmi = find_cm<T>(p);
  if (cmi < 0) { os << "nomodulus"; return; }
  size_t cm = (size_t)cmi;
  auto A = [&](size_t i) { return (ull)strtoull(t[i].c_str(), 0, 10); };
  if (op == "addmod" || op == "submod") {
    bool sub = op == "submod";
    ull x = A(3), y = A(4);
    os << (ull)(sub ? ops::submod<T, simd::serial>{}((T)x, (T)y, cm) : ops::addmod<T, simd::serial>{}((T)x, (T)y, cm));
#ifdef HAVE_SSE
    if (HasVec<T>::addsub) os << " " << VecOps<typename std::conditional<HasVec<T>::addsub, T, uint32_t>::type, simd::sse>::add(x, y, cm, idx, sub);
#endif
#ifdef HAVE_AVX2
    if (HasVec<T>::addsub) os << " " << VecOps<typename std::conditional<HasVec<T>::addsub, T, uint32_t>::type, simd::avx2>::add(x, y, cm, idx, sub);
#endif
  } else if (op == "bfly") {
    ull wt = A(3), a = A(4), b = A(5);
    T x0 = (T)a, x1 = (T)b, w = (T)wt, wi = ops::compute_shoup<T, simd::serial>{}(w, cm);
    ops::ntt_loop_body<simd::serial, poly<T, 16, 1>, T> body((T)p); body(&x0, &x1, &wi, &w);
    os << (ull)x0 << ":" << (ull)x1;
#ifdef HAVE_SSE
    if (HasVec<T>::addsub) os << " " << VecOps<typename std::conditional<HasVec<T>::addsub, T, uint32_t>::type, simd::sse>::bfly(wt, a, b, cm, idx);
#endif
#ifdef HAVE_AVX2
    if (HasVec<T>::addsub) os << " " << VecOps<typename std::conditional<HasVec<T>::addsub, T, uint32_t>::type, simd::avx2>::bfly(wt, a, b, cm, idx);
#endif
  } else if (op == "mulmod") {
    os << (ull)ops::mulmod<T, simd::serial>{}((T)A(4), (T)A(5), cm);
  } else if (op == "compute_shoup") {
    os << (ull)ops::compute_shoup<T, simd::serial>{}((T)A(3), cm);
  } else if (op == "mulmod_shoup") {
    ull x = A(3), y = A(4);
    T yp = ops::compute_shoup<T, simd::serial>{}((T)y, cm);
    os << (ull)ops::mulmod_shoup<T, simd::serial>{}((T)x, (T)y, yp, cm);
#ifdef HAVE_SSE
    if (HasVec<T>::mulshoup_sse) os << " " << VecOps<typename std::conditional<HasVec<T>::mulshoup_sse, T, uint32_t>::type, simd::sse>::mulshoup(x, y, cm, idx);
#endif
#ifdef HAVE_AVX2
    if (HasVec<T>::mulshoup_avx2) os << " " << VecOps<typename std::conditional<HasVec<T>::mulshoup_avx2, T, uint16_t>::type, simd::avx2>::mulshoup(x, y, cm, idx);
#endif
#ifdef NFL_OPTIMIZED
  } else if (op == "muladd") {
    os << (ull)ops::muladd<T, simd::serial>{}((T)A(4), (T)A(5), (T)A(6), cm);
  } else if (op == "muladd_shoup") {
    ull z = A(3), x = A(4), y = A(5);
    T yp = ops::compute_shoup<T, simd::serial>{}((T)y, cm);
    os << (ull)ops::muladd_shoup<T, simd::serial>{}((T)z, (T)x, (T)y, yp, cm);
#ifdef HAVE_SSE
    if (HasVec<T>::muladd) os << " " << VecOps<typename std::conditional<HasVec<T>::muladd, T, uint16_t>::type, simd::sse>::muladdshoup(z, x, y, cm, idx);
#endif
#ifdef HAVE_AVX2
    if (HasVec<T>::muladd) os << " " << VecOps<typename std::conditional<HasVec<T>::muladd, T, uint16_t>::type, simd::avx2>::muladdshoup(z, x, y, cm, idx);
#endif
#else
  } else if (op == "muladd" || op == "muladd_shoup") {
    os << "skip";
#endif
  } else os << "badop";
}

int main() {
  std::string line;
  size_t idx = 0;
  std::ostringstream os;
  while (std::getline(std::cin, line)) {
    std::vector<std::string> t;
    std::istringstream is(line);
    std::string tok;
    while (is >> tok) t.push_back(tok);
    if (t.empty()) continue;
    lane_bad = false;
    int w = atoi(t[1].c_str());
    if (w == 16) run_case<uint16_t>(t, idx, os);
    else if (w == 32) run_case<uint32_t>(t, idx, os);
    else run_case<uint64_t>(t, idx, os);
    if (lane_bad) os << " LANE_MISMATCH";
    os << "\n";
    idx++;
  }
  fputs(os.str().c_str(), stdout);
  return 0;
}
