// C18 harness: schedule-driven execution of the repository's fastrandombytes.cpp (compiled with -DNFLLIB_VERIF) under a
// cooperative scheduler, and a free-running stress mode (no hooks needed).
//   sched <T> | <len,len,..>;<len,..>;.. | <t t t ...>   one schedule entry = let thread t run to its next scheduling point
//   stress <T> <R>                                        T threads x R requests of 16 bytes, free running
// Output: per thread "t<k>: <nonce>/<len> ..." (nonce identified from the returned bytes), "| seedings=<k> order=<fetch order>"
#include <cstdio>
#include <cstdlib>
#include <cstring>
#include <string>
#include <vector>
#include <thread>
#include <mutex>
#include <condition_variable>
#include <atomic>
#include <chrono>
#include <iostream>
#include <sstream>
#include "nfl/prng/crypto_stream_salsa20.h"

static std::atomic<int> seed_calls(0);
static unsigned char refkey[32];
namespace nfl {
void randombytes(unsigned char* x, unsigned long long xlen) { seed_calls++; for (unsigned long long i = 0; i < xlen; i++) x[i] = (unsigned char)(7 * i + 1); }
void fastrandombytes(unsigned char* r, unsigned long long rlen);
}
static long identify(const unsigned char* out, size_t len, long maxn) {
  unsigned char ref[64];
  for (long n = 0; n <= maxn; n++) {
    unsigned char nonce[8]; for (int i = 0; i < 8; i++) nonce[i] = (unsigned char)(((unsigned long long)n >> (8 * i)) & 0xff);
    nfl_crypto_stream_salsa20_amd64_xmm6(ref, len < 64 ? len : 64, nonce, refkey);
    if (memcmp(ref, out, len < 64 ? len : 64) == 0) return n;
  }
  return -1;
}

// ---------------- one Gaussian sampler object shared by several threads ----------------
// calls to nfl::fastrandombytes made by the sampler code are interposed (-Wl,--wrap): in recording mode the nonce each call
// obtained is identified from the returned bytes; in replay mode the keystream of a recorded nonce is served instead.
#include <gmp.h>
#include <mpfr.h>
#include "nfl/prng/FastGaussianNoise.hpp"
extern "C" void __real__ZN3nfl15fastrandombytesEPhy(unsigned char*, unsigned long long);
static thread_local std::vector<long>* tl_log = 0; static thread_local const std::vector<long>* tl_replay = 0; static thread_local size_t tl_rpos = 0;
static long g_maxn = 0;
extern "C" void __wrap__ZN3nfl15fastrandombytesEPhy(unsigned char* r, unsigned long long len) {
  if (tl_replay) {
    long n = tl_rpos < tl_replay->size() ? (*tl_replay)[tl_rpos] : -1; tl_rpos++;
    unsigned char nonce[8]; for (int i = 0; i < 8; i++) nonce[i] = (unsigned char)(((unsigned long long)n >> (8 * i)) & 0xff);
    nfl_crypto_stream_salsa20_amd64_xmm6(r, len, nonce, refkey);
    return;
  }
  __real__ZN3nfl15fastrandombytesEPhy(r, len);
  if (tl_log) tl_log->push_back(len >= 8 ? identify(r, (size_t)len, g_maxn) : -2);
}
static void gshare(int T, int R, size_t LEN, std::ostringstream& os) {
  typedef nfl::FastGaussianNoise<uint8_t, uint32_t, 2> G;
  G shared(3.0, 64, 1024);
  std::vector<std::vector<std::vector<long> > > nonces(T, std::vector<std::vector<long> >(R));
  std::vector<std::vector<std::vector<uint32_t> > > outs(T, std::vector<std::vector<uint32_t> >(R, std::vector<uint32_t>(LEN)));
  g_maxn = (long)T * R * (LEN >= 64 ? 6 : 40) + 64;
  std::atomic<int> gate(0);
  std::vector<std::thread> th;
  for (int t = 0; t < T; t++) th.emplace_back([&, t] { gate++; while (gate.load() < T) {} for (int r = 0; r < R; r++) { tl_log = &nonces[t][r]; shared.getNoise(outs[t][r].data(), LEN); tl_log = 0; } });
  for (auto& x : th) x.join();
  std::vector<int> seen(g_maxn + 1, 0); long bad = 0, total = 0, mism = 0;
  for (int t = 0; t < T; t++) for (int r = 0; r < R; r++) {
    for (long n : nonces[t][r]) { total++; if (n < 0 || n > g_maxn) bad++; else seen[n]++; }
    G priv(3.0, 64, 1024); std::vector<uint32_t> ref(LEN);
    tl_replay = &nonces[t][r]; tl_rpos = 0; priv.getNoise(ref.data(), LEN); tl_replay = 0;
    if (ref != outs[t][r]) mism++;
  }
  long dup = 0, gaps = 0; for (long n = 0; n < total; n++) { if (seen[n] > 1) dup++; if (seen[n] == 0) gaps++; }
  os << "gshare requests=" << total << " unidentified=" << bad << " reused=" << dup << " gaps=" << gaps << " outputs_not_from_own_keystream=" << mism << " seedings=" << seed_calls.load();
}

// ---------------- cooperative scheduler ----------------
static std::mutex mu; static std::condition_variable cv;
static bool cooperative = false;
struct TS { int parked_at = -1; unsigned long long val = 0; bool go = false; bool done = false; bool probing = false; bool virtual0 = false; };
static int passed_unseeded = 0;   // requests that got past the one-time initialisation while another thread was still inside it
static std::vector<TS> ts; static thread_local int my_tid = -1;
static int once_owner = -1; static bool once_done = false;     // replica of the one-time initialisation state, for the "blocked" rule
static std::vector<int> fetch_order;

extern "C" void nfl_verif_point(int point, unsigned long long value) {
  if (!cooperative || my_tid < 0) return;
  std::unique_lock<std::mutex> lk(mu);
  if (point == 1) once_owner = my_tid;
  if (point == 2 && once_owner == my_tid) once_done = true;
  if (point == 3) fetch_order.push_back(my_tid);
  // a thread that was released into the one-time initialisation while another one owned it (see the scheduler) arrives here only after the
  // owner has finished: for the model it is still at point 0, its next scheduled step is the step 0 -> 2 it has already made
  if (ts[my_tid].probing) { ts[my_tid].probing = false; if (point == 2) ts[my_tid].virtual0 = true; }
  ts[my_tid].parked_at = point; ts[my_tid].val = value; ts[my_tid].go = false;
  cv.notify_all();
  cv.wait(lk, [&] { return ts[my_tid].go; });
  ts[my_tid].parked_at = -1;
}

int main() {
  for (int i = 0; i < 32; i++) refkey[i] = (unsigned char)(7 * i + 1);
  std::string line; std::getline(std::cin, line);
  std::istringstream is(line); std::string mode; is >> mode;
  std::ostringstream os;
  if (mode == "gshare") { int T, R; size_t LEN = 200; is >> T >> R; if (!(is >> LEN)) LEN = 200; gshare(T, R, LEN, os); puts(os.str().c_str()); return 0; }
  if (mode == "stress") {
    int T, R; is >> T >> R;
    std::vector<std::vector<std::vector<unsigned char> > > outs(T, std::vector<std::vector<unsigned char> >(R, std::vector<unsigned char>(16)));
    std::vector<std::thread> th;
    std::atomic<int> gate(0);
    for (int t = 0; t < T; t++) th.emplace_back([&, t] { gate++; while (gate.load() < T) {} for (int r = 0; r < R; r++) nfl::fastrandombytes(outs[t][r].data(), 16); });
    for (auto& x : th) x.join();
    std::vector<int> seen(T * R + 8, 0); long bad = 0;
    for (int t = 0; t < T; t++) for (int r = 0; r < R; r++) { long n = identify(outs[t][r].data(), 16, T * R + 4); if (n < 0 || n >= T * R) bad++; else seen[n]++; }
    long dup = 0, missing = 0; for (int n = 0; n < T * R; n++) { if (seen[n] > 1) dup++; if (seen[n] == 0) missing++; }
    os << "stress unidentified=" << bad << " reused=" << dup << " gaps=" << missing << " seedings=" << seed_calls.load();
    puts(os.str().c_str()); return 0;
  }
  int T; is >> T; std::string bar; is >> bar;
  std::string rest; std::getline(is, rest);
  size_t p2 = rest.find('|');
  std::string progs = rest.substr(0, p2), sched = rest.substr(p2 + 1);
  std::vector<std::vector<size_t> > prog(T);
  { std::istringstream ps(progs); std::string one; int t = 0; while (std::getline(ps, one, ';') && t < T) { for (char& c : one) if (c == ',') c = ' '; std::istringstream o(one); size_t l; while (o >> l) prog[t].push_back(l); t++; } }
  ts.assign(T, TS()); cooperative = true;
  std::vector<std::vector<std::pair<std::vector<unsigned char>, size_t> > > results(T);
  std::vector<std::thread> th;
  for (int t = 0; t < T; t++) th.emplace_back([&, t] {
    my_tid = t;
    for (size_t l : prog[t]) { std::vector<unsigned char> b(l); nfl::fastrandombytes(b.data(), l); std::unique_lock<std::mutex> lk(mu); results[t].push_back(std::make_pair(b, l)); }
    std::unique_lock<std::mutex> lk(mu); ts[t].done = true; cv.notify_all();
  });
  auto settled = [&](int t) { return ts[t].done || ts[t].parked_at >= 0; };
  { std::unique_lock<std::mutex> lk(mu); cv.wait(lk, [&] { for (int t = 0; t < T; t++) if (!settled(t)) return false; return true; }); }
  std::istringstream ss(sched); int t;
  while (ss >> t) {
    std::unique_lock<std::mutex> lk(mu);
    if (t < 0 || t >= T || ts[t].done) continue;
    if ((ts[t].parked_at == 0 || ts[t].probing) && once_owner >= 0 && !once_done && once_owner != t) {
      // the model: this thread blocks inside the one-time initialisation another thread is performing -- a no-op step.  The real code is ASKED:
      // the thread is released and must NOT arrive at a further point while the owner is still inside (it stays released; it moves on by
      // itself once the owner has finished, see nfl_verif_point)
      if (!ts[t].probing) { ts[t].probing = true; ts[t].go = true; ts[t].parked_at = -1; cv.notify_all(); }
      if (cv.wait_for(lk, std::chrono::milliseconds(25), [&] { return settled(t); })) passed_unseeded++;
      continue;
    }
    if (ts[t].probing) cv.wait(lk, [&] { return settled(t); });      // the owner has finished: the released thread is on its way to point 2
    if (ts[t].virtual0) { ts[t].virtual0 = false; continue; }         // the step 0 -> 2 the thread has already made
    ts[t].go = true; ts[t].parked_at = -1; cv.notify_all();
    cv.wait(lk, [&] { return settled(t); });
  }
  { std::unique_lock<std::mutex> lk(mu); bool all = true; for (int t2 = 0; t2 < T; t2++) if (!ts[t2].done) all = false;
    if (!all) { os << "INCOMPLETE "; cooperative = false; for (int t2 = 0; t2 < T; t2++) { ts[t2].go = true; } cv.notify_all(); } }
  for (auto& x : th) x.join();
  long total = 0; for (int t2 = 0; t2 < T; t2++) total += (long)prog[t2].size();
  for (int t2 = 0; t2 < T; t2++) { os << "t" << t2 << ":"; for (auto& r : results[t2]) os << " " << identify(r.first.data(), r.second, total + 4) << "/" << r.second; os << " "; }
  if (passed_unseeded) os << "| PASSED-UNSEEDED=" << passed_unseeded << " ";
  os << "| seedings=" << seed_calls.load() << " order=";
  for (int x : fetch_order) os << x << ",";
  puts(os.str().c_str());
  return 0;
}
