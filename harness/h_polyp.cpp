// C14 harness: interpreter of operation sequences over three copy-on-write handles (poly_p<uint32_t,8,1>).
// One line = one sequence "op;op;...": after every op prints, per handle, '-' or "<class>:<words>" where <class> numbers the
// distinct underlying objects (address of the const poly_obj()) in order of appearance.  Built with ASan+LSan.
#include <cstdio>
#include <cstdlib>
#include <string>
#include <vector>
#include <map>
#include <iostream>
#include <sstream>
#include <stdexcept>
#include <nfl.hpp>
#include <cereal/archives/binary.hpp>
typedef unsigned long long ull;
typedef nfl::poly_p<uint32_t, 8, 1> P;
static const int H = 3;

static void snapshot(P* s[], std::ostringstream& os) {
  std::map<const void*, int> cls;
  for (int h = 0; h < H; h++) {
    if (!s[h]) { os << " -"; continue; }
    P const& c = *s[h];
    const void* addr = &c.poly_obj();
    if (!cls.count(addr)) { int k = (int)cls.size(); cls[addr] = k; }
    os << " " << cls[addr] << ":";
    for (size_t i = 0; i < 8; i++) os << (ull)c(0, i) << (i < 7 ? "," : "");
  }
  os << " |";
}

int main() {
  std::string line; std::ostringstream os;
  while (std::getline(std::cin, line)) {
    P* s[H] = {0, 0, 0};
    std::istringstream ls(line); std::string tok;
    while (std::getline(ls, tok, ';')) {
      std::istringstream is(tok); std::string op; int h = 0, g = 0, k = 0; ull v = 0;
      is >> op;
      if (op == "create") { is >> h >> v; s[h] = new P((uint32_t)v); }
      else if (op == "createl") { is >> h >> v; s[h] = new P(); *s[h] = {(uint32_t)v, (uint32_t)(v + 1), (uint32_t)(v + 2)}; }
      else if (op == "copyc") { is >> h >> g; P const& src = *s[g]; s[h] = new P(src); }          // copy-construct from const
      else if (op == "copyn") { is >> h >> g; s[h] = new P(*s[g]); }                               // copy-construct from non-const
      else if (op == "copya") { is >> h >> g; P const& src = *s[g]; *s[h] = src; }                 // copy-assign from const (incl. self)
      else if (op == "movec") { is >> h >> g; s[h] = new P(std::move(*s[g])); delete s[g]; s[g] = 0; }
      else if (op == "movea") { is >> h >> g; if (h != g) { *s[h] = std::move(*s[g]); delete s[g]; s[g] = 0; } else { *s[h] = std::move(*s[g]); } }
      else if (op == "write") { is >> h >> k >> v; (*s[h])(0, k) = (uint32_t)v; }
      else if (op == "read") { is >> h >> k; P const& c = *s[h]; volatile uint32_t x = c(0, k); (void)x; }  // const access: must not detach
      else if (op == "setu") { is >> h >> v; *s[h] = (uint32_t)v; }
      else if (op == "setl") { is >> h >> v; *s[h] = {(uint32_t)v, (uint32_t)(v + 1)}; }
      else if (op == "ntt") { is >> h; s[h]->ntt_pow_phi(); }
      else if (op == "intt") { is >> h; s[h]->invntt_pow_invphi(); }
      else if (op == "add") { is >> h >> g >> k; *s[h] = *s[g] + *s[k]; }
      else if (op == "mul") { is >> h >> g >> k; *s[h] = *s[g] * *s[k]; }
      else if (op == "cmp") { is >> h >> g; os << " eq=" << ((*s[h] == *s[g]) ? 1 : 0) << ",ne=" << ((*s[h] != *s[g]) ? 1 : 0); }
      else if (op == "setbad") {      // an overwrite that throws (list longer than the degree but not degree*moduli): value must survive
        is >> h; std::vector<uint32_t> vals(11, 9u);
        try { s[h]->set(vals.begin(), vals.end()); os << " NOTHROW"; } catch (std::runtime_error const&) {}
      }
      else if (op == "nubad") {       // bounded sampler with a bound above the modulus: throws
        is >> h; try { s[h]->set(nfl::non_uniform(4000000000ULL)); os << " NOTHROW"; } catch (std::runtime_error const&) {}
      }
      else if (op == "deserbad") {    // deserialisation from a stream holding only 6 bytes: first word and a half overwritten, rest kept
        is >> h; std::string six("\x11\x22\x33\x44\x55\x66", 6); std::istringstream st(six); s[h]->deserialize_manually(st);
      }
      else if (op == "createbad") {   // construction whose polynomial constructor throws (wrong list length): nothing may be left behind
        is >> h; std::vector<uint32_t> vals(11, 9u);
        try { s[h] = new P(vals.begin(), vals.end()); os << " NOTHROW"; } catch (std::runtime_error const&) { s[h] = 0; }
      }
      else if (op == "fma") { is >> h >> g >> k; *s[h] = *s[h] + *s[g] * *s[k]; }                  // destination read inside a nested expression
      else if (op == "ilbad") {       // initializer-list assignment of a wrong length: throws, value must survive
        is >> h; try { *s[h] = {1u, 2u, 3u, 4u, 5u, 6u, 7u, 8u, 9u, 10u, 11u}; os << " NOTHROW"; } catch (std::runtime_error const&) {}
      }
      else if (op == "cload") {       // cereal: archive written from handle g, loaded into handle h (which may share its payload)
        is >> h >> g; std::stringstream ss; { cereal::BinaryOutputArchive oa(ss); P const& src = *s[g]; P tmp(src); oa(tmp); }
        { cereal::BinaryInputArchive ia(ss); ia(*s[h]); }
      }
      else if (op == "csave") {       // cereal: saving must not change anything (the archive bytes are the raw words)
        is >> h; std::stringstream ss; { cereal::BinaryOutputArchive oa(ss); oa(*s[h]); } os << " bytes=" << ss.str().size();
      }
      else if (op == "destroy") { is >> h; delete s[h]; s[h] = 0; }
      else { os << " badop"; }
      snapshot(s, os);
    }
    for (int h = 0; h < H; h++) delete s[h];
    os << "\n";
  }
  fputs(os.str().c_str(), stdout);
  return 0;
}
