# C17 — concurrent arithmetic on distinct polynomials is race-free and deterministic.
# Theorem: determinism over all schedules of the interleaving model (operations are functions of immutable tables and
# thread-private objects).  Tie: (1) static-state audit of the compiled library code (no writable static beyond the modelled
# set), (2) shared tables byte-identical before/after, (3) multi-threaded workload = sequential digests, under ThreadSanitizer.
import vf, os, re

ALLOWED = [r"^guard variable for nfl::poly<.*>::(gmp|base)$", r"^nfl::poly<.*>::(gmp|base)$",
           # bit-reversal table of the non-unrolled permutation (degree > PERMUT_LIMIT_UNROLL): static initialisation only, digested with the tables
           r"^(guard variable for )?nfl::details::permut<\d+ul, false>::P$",
           # the random generator's state is C18's subject (synchronised there), not touched by the operations of this property
           r"^guard variable for nfl::fastrandombytes\(unsigned char\*, unsigned long long\)::seeded$", r"^nfl::nonce_counter$", r"^nfl::fd$", r"^nfl::key$"]

def build(flags, name, backend="serial"):
    exe = os.path.join(vf.BUILD, "harness", name); os.makedirs(os.path.dirname(exe), exist_ok=True)
    cmd = ["g++", "-std=c++11", "-O1", "-w", "-pthread"] + vf.BACKENDS[backend] + flags + ["-I%s/include" % vf.REPO, "-I%s/include/nfl" % vf.REPO, "-I%s/include/nfl/prng" % vf.REPO, "-I%s/tests" % vf.REPO,
           os.path.join(vf.ROOT, "harness/h_conc.cpp")] + [os.path.join(vf.REPO, s) for s in vf.LIBSRC + vf.PRNGSRC] + ["-lgmpxx", "-lgmp", "-lmpfr", "-o", exe]
    rc, out = vf.sh(cmd, timeout=900)
    return (exe if rc == 0 else None), out

def audit(exe):
    rc, out = vf.sh(["nm", "-C", "--defined-only", exe])
    bad, seen = [], []
    for l in out.split("\n"):
        m = re.match(r"^[0-9a-f]+ ([bBdDuUgGsS]) (.*)$", l)
        if not m: continue
        name = m.group(2)
        if "nfl" not in name: continue
        if re.match(r"^(typeinfo|typeinfo name|vtable) for ", name) or "workload<" in name or re.search(r"\bgo<", name): continue   # read-only RTTI / the harness itself
        seen.append(name)
        if not any(re.match(p, name) for p in ALLOWED): bad.append("%s %s" % (m.group(1), name))
    return bad, seen

def run(ck):
    ck.proof = vf.prove("Properties_C17")
    q = ck.quick(); fails = []
    runs = 0
    aux = getattr(ck, "aux", False)     # run as a dependency of another property: the scalar build, no sanitizer
    for backend in (("serial",) if aux else ("serial", "sse", "avx2")):
        exe, out = build([], "h_conc_" + backend, backend)
        if not exe:
            ck.violation("h_conc does not compile (%s)" % backend, {"compiler_output": out[-3000:]}, tag="build_" + backend, no_input=True); continue
        bad, seen = audit(exe)
        ck.cov.setdefault("writable_statics", {})[backend] = seen
        for b in bad[:3]:
            fails.append(("static-state audit (%s build)" % backend, "nm -C %s" % os.path.basename(exe), "writable static storage outside the modelled immutable set: %s" % b))
        # quick: the SIMD builds get the static-state audit and one workload run (their kernels may hold state the scalar build lacks)
        for T, R in (((2, 3), (8, 3), (16, 2)) if backend == "serial" or not q else ((4, 2),)) + (() if q else ((16, 20), (4, 50))):
            rc, o, e = vf.run_io([exe, str(T), str(R)], "", timeout=600); runs += 1
            if rc != 0 or "CHANGED" in o or "CORRUPTED" in o or "INCONSISTENT" in o or any(x.split("=")[1].split("/")[0] != x.split("/")[1] for x in o.split() if x.startswith("ok=")):
                fails.append(("threads vs sequential (%s build)" % backend, "h_conc %d %d" % (T, R), (o.strip() + " " + e[-300:])[:400]))
    tx, out = (True, "") if aux else build(["-fsanitize=thread", "-g"], "h_conc_tsan")
    if aux: pass
    elif not tx:
        ck.violation("h_conc does not compile with ThreadSanitizer", {"compiler_output": out[-3000:]}, tag="build_tsan", no_input=True)
    else:
        for T, R in ((4, 2), (8, 1)) + (() if q else ((16, 5),)):
            # (a) thread-private objects: must be silent
            rc, o, e = vf.run_io([tx, str(T), str(R), "1"], "", timeout=900, env={"TSAN_OPTIONS": "halt_on_error=0 exitcode=66"}); runs += 1
            if rc != 0 or "ThreadSanitizer" in e:
                fails.append(("ThreadSanitizer", "h_conc_tsan %d %d 1" % (T, R), (e[e.find("WARNING"):][:900] if "WARNING" in e else o + e[-300:])))
            # (b) distinct handles that share one copy-on-write payload
            rc, o, e = vf.run_io([tx, str(T), str(R), "2"], "", timeout=900, env={"TSAN_OPTIONS": "halt_on_error=0 exitcode=66"}); runs += 1
            if "CORRUPTED" in o: fails.append(("shared-payload handles", "h_conc_tsan %d %d 2" % (T, R), o.strip()))
            for rep in re.split(r"={10,}", e):
                if "data race" not in rep: continue
                # the recorded finding: a detach() copy (aligned_allocator::construct reading the payload) against the in-place write of the last owner
                if "aligned_allocator" in rep and "::construct" in rep and "shared_handles" in rep and "Previous read" in rep:
                    ck.violation("formal data race in copy-on-write detach", {"report": rep[:3000]}, tag="tsan_cow", key="cow-detach-unique-race")
                else:
                    fails.append(("ThreadSanitizer (shared-payload handles)", "h_conc_tsan %d %d 2" % (T, R), rep[rep.find("WARNING"):][:900])); break
    ck.stream("workload runs: threads x rounds, digests vs sequential, tables hashed before/after", runs, max(2, runs))
    ck.stream("static-state audit: writable nfl symbols of the linked harness", 1, 2)
    ck.samples = ["h_conc 8 3 (poly<u16,64,2>, poly<u32,256,3>, poly<u64,128,2>: construct (also by every random distribution), +,-, ntt, *, shoup, ==, !=, invntt, poly2mpz, mpz2poly, serialise, deserialise, poly_p)"]
    for s, l, v in fails[:3]:
        ck.violation("%s: %s (%s)" % (s, v[:500], l), {"stream": s, "command": l, "what": v}, tag="conc")
    if not fails and not ck.proof["ok"]:
        ck.violation("proof obligation no longer checks: %s" % ck.proof["broken"], {"broken_obligation": ck.proof["broken"]}, tag="obligation", no_input=True)
    ck.assumptions = ["an actual data race (C++ memory model) can only be observed at run time: ThreadSanitizer on the workload is supporting evidence, not a proof",
                      "the model's footprint claim (operations write only their own objects) is what the static-state audit and the table digests check on the binary",
                      "randomly built polynomials are checked for canonical, CRT-consistent residues under concurrent sampling (thread-private polynomial and Gaussian sampler); the shared byte generator itself is C18"]
    return ck.finish(trusted=["coqc 8.16.1 kernel", "nm (binutils) symbol audit", "ThreadSanitizer", "h_conc.cpp"], extra_cov={"partial": "determinism proved for the model; footprint audited on the binary"})

def replay(ck, rec):
    print("replay:", rec.get("command")); return 1
