# C03 — coefficient-wise modular operations are exact: proof (ScalarOps.v/Functors.v closed over the generated tables)
# + correspondence extracted model vs nfl::ops functors in four builds (serial, opt, sse, avx2), every vector lane.
import vf, gen_ops, os

BACK = ("serial", "opt", "sse", "avx2")

def check_cases(ck, cases, exes, model):
    data = "\n".join(l for _, l in cases) + "\n"
    rc, mout, merr = vf.run_io([model, "ops"], data)
    if rc != 0:
        raise RuntimeError("model runner failed: " + merr[-500:])
    mlines = mout.strip().split("\n")
    assert len(mlines) == len(cases), (len(mlines), len(cases))
    corr_break, fails = [], []
    for b, exe in exes.items():
        rc, iout, ierr = vf.run_io([exe], data)
        ilines = iout.strip().split("\n")
        if rc != 0 or len(ilines) != len(cases):
            ck.violation("harness %s crashed or truncated output (rc=%s): %s" % (b, rc, ierr[-300:]), {"backend": b, "stderr": ierr[-2000:]}, tag="crash_" + b)
            continue
        for (stream, line), ml, il in zip(cases, mlines, ilines):
            m, s = ml.split()
            vals = il.split()
            if vals == ["skip"]:
                continue
            op = line.split()[0]; p = int(line.split()[2])
            bad_spec = False
            lane_mis = False
            for v in vals:
                if v == "LANE_MISMATCH":
                    if op == "bfly": lane_mis = True      # lazy residues: only the correspondence is at stake
                    else: bad_spec = True
                    continue
                if op == "bfly":
                    if not stream.startswith("bfly:wild"):
                        try:
                            ok = all(int(x) < 2 * p and int(x) % p == int(y) for x, y in zip(v.split(":"), s.split(":"))) and len(v.split(":")) == 2
                        except ValueError: ok = False
                        if not ok: lane_mis = True      # internal lazy invariant of the transform, decided by C02; here: correspondence
                elif op == "muladd_shoup":
                    if not (v.isdigit() and int(v) < 2 * p and int(v) % p == int(s)): bad_spec = True
                elif v != s:
                    bad_spec = True
            if bad_spec:
                fails.append((b, stream, line, vals, m, s))
            elif lane_mis or any(v != m for v in vals if v != "LANE_MISMATCH"):
                corr_break.append((b, stream, line, vals, m, s))
    return fails, corr_break

def run(ck):
    ok, info = vf.translate()
    params = vf.read_params()
    ck.proof = vf.prove("Properties_C03")
    model, minfo = vf.build_model()
    if not model:
        raise RuntimeError(minfo)
    res = vf.build_many([dict(name="h_ops", srcs=["h_ops.cpp"], backend=b) for b in BACK])
    exes = {}
    for b, (exe, err) in zip(BACK, res):
        if exe: exes[b] = exe
        else: ck.violation("harness does not compile for back end %s" % b, {"backend": b, "compiler_output": err}, tag="build_" + b, no_input=True)
    q = ck.quick()
    cases = gen_ops.gen_cases(params, ck.rng, rows_per_w=(3 if q else 10 ** 6), nrand=(30 if q else 12))
    fails, corr = check_cases(ck, cases, exes, model)
    if not fails and (corr or not ck.proof["ok"]):
        # a proof obligation or the correspondence broke: search every row of every table for a failing input
        more = gen_ops.gen_cases(params, ck.rng, rows_per_w=10 ** 6, nrand=4)
        f2, c2 = check_cases(ck, more, exes, model)
        cases += more; fails += f2; corr += c2
        ck.cov["search"] = "all %d rows x boundary operands (%d extra cases) after a broken obligation/correspondence" % (sum(len(d["rows"]) for d in params.values()), len(more))
    seen = {}
    for s, l in cases:
        seen.setdefault(s, set()).add(l)
    for s, ls in sorted(seen.items()):
        ck.stream(s, sum(1 for a, _ in cases if a == s) * len(exes), len(ls))
    ck.samples = [l for _, l in cases[:: max(1, len(cases) // 10)]][:10]
    if not q and "avx2" in exes:
        # exhaustive 16-bit sweep inside the harness (native spec), every lane, both moduli
        rc, out, err = vf.run_io([exes["avx2"], "--exhaustive16"], "", timeout=3000)
        ck.cov["exhaustive16"] = out.strip()[-300:]
    for b, stream, line, vals, m, s in fails[:5]:
        ck.violation("functor result differs from the exact modular value: backend=%s case='%s' impl=%s spec=%s" % (b, line, vals, s),
                     {"backend": b, "stream": stream, "case": line, "impl": vals, "model": m, "spec": s}, tag="ops_" + b)
    if not fails and (corr or not ck.proof["ok"]):
        what = ("correspondence broken (impl != model, impl == spec) on %d cases, e.g. backend=%s case='%s' impl=%s model=%s" % (len(corr), corr[0][0], corr[0][2], corr[0][3], corr[0][4])) if corr else ("proof obligation no longer checks: %s" % ck.proof["broken"])
        ck.violation(what, {"correspondence_stream": corr[0][1] if corr else None, "broken_obligation": ck.proof.get("broken"), "examples": [c[2] for c in corr[:10]]},
                     tag="correspondence", no_input=True)
    ck.assumptions = ["harness calls nfl::ops functors directly; poly-level operators are covered by C07/C05",
                      "16-bit functors run through C++ integer promotion; the model wraps at the limb width (equal under the proved preconditions)"]
    return ck.finish(trusted=["coqc 8.16.1 kernel, vm_compute", "translator dump_params.cpp", "ExtrOcamlBasic extraction, ocaml/driver.ml (zarith for decimal I/O)",
                              "h_ops.cpp harness, g++ 12.2", "SIMD lanes: compared against model, vector kernels proved only for addmod (Simd.v)"],
                     extra_cov={"backends": sorted(exes), "params_sha": info})

def replay(ck, rec):
    model, _ = vf.build_model()
    b = rec.get("backend", "serial")
    exe, err = vf.build_harness("h_ops", ["h_ops.cpp"], backend=b)
    line = rec["case"] + "\n"
    print("impl :", vf.run_io([exe], line)[1].strip())
    print("model spec:", vf.run_io([model, "ops"], line)[1].strip())
    fails, corr = check_cases(ck, [("replay", rec["case"])], {b: exe}, model)
    print("REPLAY:", "still failing" if fails else "passes")
    return 1 if fails else 0
