# C19 — key seeding survives short reads and transient entropy-source failures: proof over all event lists + fault enumeration.
import vf, itertools

def run(ck):
    ck.proof = vf.prove("Properties_C19")
    model, minfo = vf.build_model()
    if not model: raise RuntimeError(minfo)
    import os
    exe = os.path.join(vf.BUILD, "harness", "h_randbytes"); os.makedirs(os.path.dirname(exe), exist_ok=True)
    rc, out = vf.sh(["g++", "-std=c++11", "-O1", "-w", "-I%s/lib/prng" % vf.REPO, "-I%s/include/nfl/prng" % vf.REPO, os.path.join(vf.ROOT, "harness/h_randbytes.cpp"), "-o", exe])
    if rc != 0:
        ck.violation("h_randbytes does not compile", {"compiler_output": out[-3000:]}, tag="build", no_input=True); return ck.finish()
    q = ck.quick(); rng = ck.rng
    lines = []
    # all fault sequences up to length L over {open fails} before the open and {-1, 0, short 1, short k-1, full} before completion
    L = 4 if q else 6
    for xlen in (1, 2, 5, 32):
        faults = ["RE", "RZ", "RD1", "RD%d" % max(1, xlen - 1), "RD%d" % xlen]
        for nopen in range(0, 3):
            for k in range(0, L + 1):
                for seq in itertools.product(faults, repeat=k):
                    # append enough full reads so that the call completes
                    evs = ["OF"] * nopen + ["OK"] + list(seq) + ["RD1"] * xlen
                    lines.append(("all fault sequences <= %d, xlen=%d" % (L, xlen), " ".join(evs) + " | %d" % xlen))
                    if len(lines) > (6000 if q else 60000): break
    # multi-call histories in one process (the descriptor persists), zero-length requests, blocked scripts
    for _ in range(300 if q else 3000):
        ncalls = rng.randrange(1, 5); lens = [rng.choice([0, 1, 3, 8, 32, 33, 64, 65, 100]) for _ in range(ncalls)]
        evs = ["OF"] * rng.randrange(0, 3) + ["OK"]
        need = sum(lens)
        while need > 0:
            e = rng.choice(["RE", "RZ", "RD"])
            if e == "RD":
                c = rng.randrange(1, 9); evs.append("RD%d" % c); need -= c   # may exceed what is asked -> the harness/model stop ("blocked")
            else: evs.append(e)
        if rng.random() < 0.15 and len(evs) > 1: evs = evs[: rng.randrange(1, len(evs))]       # script runs out: the call must still be blocked, not return
        lines.append(("random multi-call histories incl. exhausted scripts", " ".join(evs) + " | " + " ".join(map(str, lens))))
    # a successful open may legitimately return descriptor 0
    for xlen in (1, 5, 32):
        lines.append(("open returns descriptor 0", "OF OK0 RE RD1 RZ " + " ".join(["RD1"] * xlen) + " | %d %d" % (xlen, 1)))
        lines.append(("open returns descriptor 0", "OK0 RD%d RD1 | %d 1" % (xlen, xlen)))
    # the 2^20 chunk limit
    big = (1 << 20) + 5
    lines.append(("chunk limit 2^20", "OK RD1048576 RD5 | %d" % big))
    lines.append(("chunk limit 2^20", "OK RE RD1048575 RD1 RZ RD5 | %d" % big))
    if not q:
        lines.append(("chunk limit 2^20", "OK RD1000000 RD48581 | %d" % big))
    data = "\n".join(l for _, l in lines) + "\n"
    rc, mout, merr = vf.run_io([model, "rb"], data, timeout=1800)
    if rc != 0: raise RuntimeError("model runner failed: " + merr[-500:])
    rc, iout, ierr = vf.run_io([exe], data, timeout=1800)
    ml, il = mout.rstrip("\n").split("\n"), iout.rstrip("\n").split("\n")
    fails = []
    if rc != 0 or len(il) != len(lines):
        ck.violation("h_randbytes crashed: %s" % ierr[-300:], {"stderr": ierr[-2000:]}, tag="crash")
    else:
        norm = lambda s: " ".join(s.split())
        for (st, l), m, i in zip(lines, ml, il):
            mm = norm(m.split("#")[0]); ii = norm(i)
            if "blocked" in mm: ii = ii[: ii.find("blocked") + 7] if "blocked" in ii else ii
            if ii != mm: fails.append((st, l, ii, mm))
    st = {}
    for s, l in lines: st.setdefault(s, set()).add(l)
    for s, ls in sorted(st.items()): ck.stream(s, len(ls))
    ck.samples = [l for _, l in lines[:: max(1, len(lines) // 8)]][:8]
    for s, l, ii, mm in fails[:3]:
        ck.violation("randombytes deviates from the specification under fault script '%s': impl='%s' expected='%s'" % (l[:200], ii[:200], mm[:200]), {"script": l, "impl": ii, "model": mm}, tag="faults")
    if not fails and not ck.proof["ok"]:
        ck.violation("proof obligation no longer checks: %s" % ck.proof["broken"], {"broken_obligation": ck.proof["broken"]}, tag="obligation", no_input=True)
    ck.assumptions = ["open/read/sleep replaced by macros in a translation unit that textually includes /repo/lib/prng/randombytes.cpp (no hook in the repository)",
                      "an OS returning more bytes than asked is outside the model"]
    return ck.finish(level="proof", trusted=["coqc 8.16.1 kernel", "extraction + driver.ml", "h_randbytes.cpp scripted OS"])

def replay(ck, rec):
    print("replay script:", rec.get("script")); return 1
