# C10/C11: Gaussian sampler harness (ASan/UBSan build), barrier dumps, probes and model lines.
import os, vf

PARAMS_QUICK = [(3.0, 128, 1024, "0", "d"), (19.5, 80, 32768, "0.5", "d"), (0.8, 32, 1, "-2.7", "d")]
PARAMS_MORE = [(1.0, 64, 16, "2.5", "d"), (8.0, 128, 1, "0.49", "m:53"), (0.3, 32, 1, "0", "d"), (3.0, 256, 1048576, "-7.25", "d"), (150.3, 64, 1024, "1000000.25", "d")]
VARIANTS = [(8, 1), (8, 2), (16, 1), (16, 2)]

def build():
    exe = os.path.join(vf.BUILD, "harness", "h_gauss_asan"); os.makedirs(os.path.dirname(exe), exist_ok=True)
    rc, out = vf.sh(["g++", "-std=c++11", "-O1", "-w", "-g", "-fsanitize=address,undefined", "-fno-sanitize-recover=all", "-I%s/include" % vf.REPO, "-I%s/include/nfl/prng" % vf.REPO,
                     os.path.join(vf.ROOT, "harness/h_gauss.cpp"), "-lgmp", "-lmpfr", "-o", exe], timeout=600)
    return (exe if rc == 0 else None), out

ENV = {"ASAN_OPTIONS": "detect_leaks=1", "UBSAN_OPTIONS": "halt_on_error=1"}

def head(inb, depth, prm): return "%d %d %s %d %d %s %s" % (inb, depth, repr(prm[0]), prm[1], prm[2], prm[3], prm[4])

def parse(line):
    """-> dict(wp, nb, vmin, f1, f2, barriers(list of hex or None), out(list int), reqs(list int), consumed, flags)"""
    a, b, c = line.split("|")
    d = {}
    for tok in a.split():
        k, v = tok.split("=", 1)
        d[k] = v
    d["wp"], d["nb"], d["vmin"], d["f1"], d["f2"] = int(d["wp"]), int(d["nb"]), int(d["vmin"]), int(d["f1"]), int(d["f2"])
    d["barriers"] = None if d["B"] == "-" else d["B"].split(",")
    o = b.replace("out=", "").split()
    d["overrun"] = "OUTPUT-OVERRUN" in o
    d["out"] = [int(x) for x in o if x.lstrip("-").isdigit()]
    d["reqs"] = [int(x) for x in c.split("reqs=")[1].split()[0].split(",") if x]
    d["exhausted"] = "EXHAUSTED" in c
    d["first"] = int(c.split("first=")[1].split()[0]) if "first=" in c else 0
    return d

def run_lines(exe, lines, timeout=900):
    """returns list of (rc, stdout_line, stderr) per line (one process per line so that a sanitizer abort is attributed)"""
    from concurrent.futures import ThreadPoolExecutor
    def one(l):
        r, o, e = vf.run_io([exe], l + "\n", timeout=timeout, env=ENV)
        return r, o.strip(), e
    with ThreadPoolExecutor(vf.NCPU) as ex: return list(ex.map(one, lines))

def words_hex(ws, wb):
    """tape bytes for a list of words (in_class little-endian in memory)"""
    return "".join("".join("%02x" % ((w >> (8 * i)) & 255) for i in range(wb)) for w in ws)

def barrier_words(hexs, wb):
    return [int(hexs[i:i + 2 * wb], 16) for i in range(0, len(hexs), 2 * wb)]
