# C16 — serialisation round-trips, stable byte layout, safe behaviour on truncated streams.
import vf, ntt_common as nc

def configs(tier):
    c = [(16, 4, 2), (32, 4, 2), (64, 2, 2), (32, 8, 1), (64, 32768, 4)]     # the last one is exactly 1 MiB of raw data
    if tier != "quick": c += [(16, 16, 2), (32, 16, 3), (64, 8, 3), (64, 1, 1)]
    return c

def le(v, wb): return "".join("%02x" % ((v >> (8 * i)) & 255) for i in range(wb))

def gen(ck, params, cfgs):
    cases = []; rng = ck.rng
    for cfg in cfgs:
        w, n, nm = cfg; wb = w // 8; N = n * nm; B = 1 << w
        head = "%d %d %d" % cfg
        if N > 4096:      # large object: raw writer/reader only, one pattern (size = power-of-two number of bytes)
            ws = [(i * 2654435761 + 12345) % B for i in range(N)]
            cases.append(("ser large (1 MiB)", cfg, "ser %s poly %s" % (head, " ".join(map(str, ws)))))
            cases.append(("deser large (1 MiB)", cfg, "deser %s poly %s" % (head, "".join(le(v, wb) for v in ws))))
            continue
        pats = [[rng.randrange(B) for _ in range(N)], [B - 1] * N, [0] * N, [(1 << (8 * (i % wb))) for i in range(N)], [rng.randrange(params[w]["rows"][i // n][0]) for i in range(N)]]
        for pk in ("poly", "polyp"):
            for ws in pats:
                wl = " ".join(map(str, ws))
                for op in ("ser", "text", "cereal_bin", "cereal_pbin", "cereal_json"):
                    cases.append(("%s %s" % (op, pk), cfg, "%s %s %s %s" % (op, head, pk, wl)))
            ws = pats[0]; stream = "".join(le(v, wb) for v in ws)
            extra = "".join("%02x" % rng.randrange(256) for _ in range(5))
            cases.append(("deser exact", cfg, "deser %s %s %s" % (head, pk, stream)))
            cases.append(("deser with trailing bytes", cfg, "deser %s %s %s" % (head, pk, stream + extra)))
            ws2 = pats[4]; s2 = "".join(le(v, wb) for v in ws2)
            cases.append(("deser two back to back", cfg, "deser2 %s %s %s" % (head, pk, stream + s2)))
            cuts = range(0, N * wb) if (ck.quick() and N * wb <= 64) or (not ck.quick() and N * wb <= 256) else sorted(set([0, 1, wb - 1, wb, wb + 1, N * wb - 1, N * wb - wb, N * wb // 2] + [rng.randrange(N * wb) for _ in range(12)]))
            for t in cuts:
                cases.append(("deser truncated at every byte offset", cfg, "deser %s %s %s" % (head, pk, stream[: 2 * t] or "-")))
            cases.append(("cereal binary archive produced by the model's serialiser", cfg, "cereal_in %s %s %s" % (head, pk, stream)))
    return cases

def run(ck):
    ok, info = vf.translate()
    params = vf.read_params()
    ck.proof = vf.prove("Properties_C16")
    model, minfo = vf.build_model()
    if not model: raise RuntimeError(minfo)
    cfgs = configs(ck.tier)
    exes, errs = nc.build(cfgs, ("serial",), name="h_serial", src="h_serial.cpp")
    e2, er2 = nc.build(cfgs, ("serial",), name="h_serial", src="h_serial.cpp", extra=["-fsanitize=address,undefined", "-fno-sanitize-recover=all", "-g"], suffix="_asan")
    exes.update(e2); errs += er2
    for b, ch, err in errs:
        ck.violation("serialisation harness does not compile (%s)" % (ch,), {"compiler_output": err[-3000:]}, tag="build", no_input=True)
    cases = gen(ck, params, cfgs)
    fails, corr, nrun = nc.run_cases(ck, cases, exes, model, family="serial")
    st = {}
    for s, cfg, l in cases: st.setdefault(s, set()).add(l)
    for s, ls in sorted(st.items()): ck.stream(s, len(ls))
    ck.cov["impl_runs"] = nrun
    ck.cov["builds"] = ["serial -O1", "serial + AddressSanitizer/UBSan (a report aborts the harness = crash violation)"]
    ck.samples = [l[:160] for _, _, l in cases[:: max(1, len(cases) // 8)]][:8]
    nc.report(ck, fails, corr, what="serialisation")
    ck.assumptions = ["std::istream::read semantics (copies the bytes present, sets failbit on a short read) is modelled by `overlay`",
                      "cereal archives are compared with a byte/JSON model written in the driver; nothing is proved about cereal; the text form is compared with the extracted Coq printer",
                      "little-endian host"]
    return ck.finish(trusted=["coqc 8.16.1 kernel", "extraction + driver.ml (JSON / text printers are driver glue)", "h_serial.cpp harness (guard objects on both sides), ASan/UBSan", "cereal 1.3 headers", "source readers: cxxloop2coq.py + IoSem.v (raw serialisers), cxxtext2coq.py (operator<<), cxxlayout2coq.py (storage layout)"], extra_cov={"params_sha": info})

def replay(ck, rec):
    model, _ = vf.build_model()
    line = rec["case"]; t = line.split(); cfg = (int(t[1]), int(t[2]), int(t[3]))
    exes, errs = nc.build([cfg], ("serial",), name="h_serial", src="h_serial.cpp")
    fails, corr, _ = nc.run_cases(ck, [("replay", cfg, line)], exes, model, family="serial")
    print("REPLAY:", "still failing" if fails else "passes"); return 1 if fails else 0
