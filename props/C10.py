# C10 — Gaussian sampler: inverse-CDF structure (fast path = full comparison = barrier count, monotone step function)
# proved for any sorted barrier table; the table MPFR builds is dumped and checked; total-variation certificates: see DESIGN.md.
import vf, gauss_common as gc

def run(ck):
    ck.proof = vf.prove("Properties_C10")
    model, minfo = vf.build_model()
    if not model: raise RuntimeError(minfo)
    exe, out = gc.build()
    if not exe:
        ck.violation("h_gauss does not compile", {"compiler_output": out[-3000:]}, tag="build", no_input=True); return ck.finish()
    q = ck.quick(); rng = ck.rng
    prms = gc.PARAMS_QUICK + ([] if q else gc.PARAMS_MORE)
    fails, corr = [], []; nprobe = 0; samples = []; tables = []
    import bisect
    def probe_table(prm, inb, depth, full=False, d0=None):
        """dump the table of one sampler, probe it around its barriers through the real sampler, compare with the barrier count and the model"""
        nonlocal nprobe
        wb = inb // 8; hd = gc.head(inb, depth, prm)
        if d0 is None:
            r, o, e = gc.run_lines(exe, ["g %s 0 T -" % hd])[0]
            if r != 0 or not o:
                fails.append(("construction", "g %s 0 T -" % hd, "rc=%d %s" % (r, e[-300:]))); return
            d0 = gc.parse(o)
        wp = d0["wp"]; P = wp * inb
        bints = [int(h, 16) for h in d0["barriers"]]
        tables.append({"params": hd, "wp": wp, "barriers": d0["nb"], "vmin": d0["vmin"], "flags": [d0["f1"], d0["f2"]], "last_barrier": hex(bints[-1])[-8:]})
        # the table as data: sorted (non-decreasing: far-tail values whose mass is below 2^-P legitimately share a barrier), last barrier 2^P-1 or 2^P-2
        if any(a > b for a, b in zip(bints, bints[1:])): fails.append(("barrier table", hd, "barriers are not sorted"))
        if bints[-1] not in ((1 << P) - 1, (1 << P) - 2): fails.append(("barrier table", hd, "last barrier %x is not 2^P-1 / 2^P-2" % bints[-1]))
        # probes: every (sampled) barrier and its neighbours, cell boundaries of the first two words, extremes, random
        idx = range(len(bints)) if (full or not q or len(bints) <= 90) else sorted(set(list(range(12)) + list(range(len(bints) - 12, len(bints))) + list(range(len(bints) // 2 - 10, len(bints) // 2 + 10)) + [rng.randrange(len(bints)) for _ in range(25)]))
        strs = [0, (1 << P) - 1, (1 << P) - 2, 1]
        for i in idx: strs += [max(0, bints[i] - 1), bints[i], min((1 << P) - 1, bints[i] + 1)]
        for i in idx[:: max(1, len(idx) // 24)]:
            top = bints[i] >> (P - inb); strs += [top << (P - inb), ((top + 1) << (P - inb)) - 1, (bints[i] >> (P - 2 * inb)) << (P - 2 * inb), (((bints[i] >> (P - 2 * inb)) + 1) << (P - 2 * inb)) - 1]
        # the table cells next to the cell that holds a barrier (second-level cell = first two words, first-level cell = first word): start, end
        # and a random string of the following and of the preceding cell -- a cell filled wrongly by the table construction answers without any
        # barrier comparison, so it only shows on strings inside it
        for i in idx:
            for sh_ in (P - 2 * inb, P - inb):
                if sh_ < 0: continue
                cell = bints[i] >> sh_
                for c_ in (cell + 1, cell - 1):
                    if 0 <= c_ < (1 << (P - sh_)): strs += [c_ << sh_, ((c_ + 1) << sh_) - 1, (c_ << sh_) + rng.randrange(1 << sh_)]
        # midpoints between consecutive barriers (a cell chained to the wrong barrier list shows between two barriers, not next to one)
        for i in idx:
            if i + 1 < len(bints): strs.append((bints[i] + bints[i + 1]) // 2)
        strs += [rng.randrange(1 << P) for _ in range(40)]
        strs = [s_ for s_ in strs if 0 <= s_ < (1 << P)]
        def words(s_): return [(s_ >> (inb * (wp - 1 - j))) & ((1 << inb) - 1) for j in range(wp)]
        tape = [w for s_ in strs for w in words(s_) + [0] * wp]     # each one-sample request refills once after its output
        r, o, e = gc.run_lines(exe, ["p %s %d T %s" % (hd, len(strs), gc.words_hex(tape, wb))])[0]
        if r != 0 or not o:
            fails.append(("probe run", "p %s %d ..." % (hd, len(strs)), "rc=%d %s" % (r, " ".join(e.split())[-300:]))); return
        d = gc.parse(o); nprobe += len(strs)
        if d["exhausted"] or len(d["out"]) != len(strs): fails.append(("probe run", hd, "outputs %d for %d probes, exhausted=%s" % (len(d["out"]), len(strs), d["exhausted"]))); return
        for s_, got in zip(strs, d["out"]):
            want = d0["vmin"] + bisect.bisect_right(bints, s_)
            if got != want: fails.append(("fast path vs full comparison", "p %s 1 T %s" % (hd, gc.words_hex(words(s_), wb)), "input string %x decoded to %d, barrier count gives %d" % (s_, got, want)))
        # the same probes through the extracted model: one line per probe string (a one-sample request over a wp-word buffer)
        sub = list(zip(strs, d["out"]))
        if q and len(sub) > 120: sub = sub[:40] + sub[-40:] + rng.sample(sub[40:-40], 40)
        mlines = ["gn %d %d %d %d 1 %d B %s T %s" % (depth, wp, d0["vmin"], wp, wb, ",".join(d0["barriers"]), gc.words_hex(words(s_) + [0] * wp, wb)) for s_, _ in sub]
        rc, mout, merr = vf.run_io([model, "gauss"], "\n".join(mlines) + "\n", timeout=900)
        if rc != 0: raise RuntimeError("model runner failed: " + merr[-300:])
        for (s_, got), mo in zip(sub, mout.rstrip("\n").split("\n")):
            mv = mo.split("#")[0].split("|")[0].split()
            if not mv or int(mv[0]) != got: corr.append(("p %s 1 T %s" % (hd, gc.words_hex(words(s_), wb)), got, mv[:1]))
        samples.append("p %s %d T <%d strings of %d words>" % (hd, len(strs), len(strs), wp))
    for prm in prms:
        for inb, depth in gc.VARIANTS: probe_table(prm, inb, depth)
    # ---- table-shape sweep: the lookup tables depend on how consecutive barriers share their first / second index word.  Dump the
    # barriers for a grid of sigmas, classify the shapes that occur, and probe tables exhibiting each shape (all barriers, midpoints)
    grid = [(round(0.45 + 0.07 * i, 2), 128, 1024, "0", "d") for i in range(80 if q else 160)]
    shapes = {}
    for inb, depth in ((8, 2), (16, 2), (8, 1)):
        res = gc.run_lines(exe, ["g %s 0 T -" % gc.head(inb, depth, g_) for g_ in grid])
        for g_, (r, o, e) in zip(grid, res):
            if r != 0 or not o: fails.append(("construction", "g %s 0 T -" % gc.head(inb, depth, g_), "rc=%d %s" % (r, e[-300:]))); continue
            d0 = gc.parse(o); wp = d0["wp"]; P = wp * inb
            bints = [int(h, 16) for h in d0["barriers"]]
            w1 = [b >> (P - inb) for b in bints]; w2 = [(b >> (P - 2 * inb)) & ((1 << inb) - 1) for b in bints]
            for a in range(len(bints) - 1):
                if w1[a] != w1[a + 1] and w2[a] == w2[a + 1]: sh = "next barrier: other first word, same second word"
                elif w1[a] == w1[a + 1] and w2[a] == w2[a + 1]: sh = "two barriers in one second-level cell"
                elif w1[a] == w1[a + 1]: sh = "two barriers in one first-level cell"
                else: continue
                shapes.setdefault((inb, depth, sh), []).append((g_, d0))
    done = set(); nshape = 0
    for key in sorted(shapes):
        inb, depth, sh = key
        cands = shapes[key]
        for g_, d0 in [cands[0], cands[len(cands) // 2], cands[-1]][: (2 if q else 3)]:
            if (inb, depth, g_) in done: continue
            done.add((inb, depth, g_)); nshape += 1
            probe_table(g_, inb, depth, full=True, d0=d0)
    ck.cov["table_shapes"] = {"%d/%d %s" % k: len(v) for k, v in shapes.items()}
    ck.stream("table-shape sweep: %d sigmas x 3 layouts dumped, tables probed per shape of neighbouring barriers" % len(grid), max(1, nshape))
    # ---- numeric total-variation evaluation (mpmath, >= 1200 bits) of the dumped tables: supporting evidence / search, NOT a proof
    import json, os
    tvs = []
    tvsets = [(p_, 8, 1) for p_ in prms] + [((8.0, 128, 1, "0.49", "m:200"), 8, 1), ((3.0, 64, 16, "2.75", "m:53"), 16, 2)]
    # word-precision rounding: the number of index words kept is ceil(required bits / word size); consecutive lambdas walk the required
    # precision through every residue modulo the word size, for both index widths (a table that keeps too few bits exceeds its bound)
    tvsets += [((3.0, lam, 1, "0.3", "d"), inb, 1) for lam in range(40, 56) for inb in (8, 16)]
    # sigmas whose square is not a double (a constant of the law computed in double instead of at the working precision moves every barrier by
    # about 2^-54 relative: invisible below lambda ~ 50, far above the bound for the usual lambda)
    tvsets += [((3.19, 128, 1024, "0", "d"), 8, 1), ((1.1, 96, 16, "0.3", "d"), 16, 1), ((8.01, 90, 1, "-1.5", "d"), 16, 2)]
    # centres given with more than 53 bits that lie within half a double ulp of a non-zero integer (mpfr_t constructor): a decision taken on the
    # centre rounded to double (is it an integer? which side of the integer?) is wrong for them
    tvsets += [((3.0, 128, 1024, "3.000000000000000000867361737988403547205962240695953369140625", "m:200"), 8, 1), ((3.0, 128, 1024, "-2.9999999999999999999999999999992111390947789881945882714347172137703267935648909769952297210693359375", "m:200"), 16, 2), ((20.0, 128, 16384, "1000.00000000000000088817841970012523233890533447265625", "m:200"), 16, 1)]
    import math
    def tv_one(item):
        prm, inb, depth = item
        hd = gc.head(inb, depth, prm)
        r, o, e = gc.run_lines(exe, ["g %s 0 T -" % hd])[0]
        if r != 0 or not o: return None
        d0 = gc.parse(o)
        req = {"sigma": repr(prm[0]), "center": prm[3], "P": d0["wp"] * inb, "vmin": d0["vmin"], "barriers": d0["barriers"]}
        if prm[4].startswith("m:"): req["center_prec"] = int(prm[4][2:])
        rc, out, err = vf.run_io([os.path.join(vf.ROOT, "tools/gauss_tv.py")], json.dumps(req), timeout=600)
        if rc != 0 or not out.strip(): return {"params": hd, "error": err[-200:]}
        lg = float(out.strip()) if out.strip() != "-inf" else -1e9
        return {"params": hd, "log2_tv": lg, "bound": -prm[1] - math.log2(prm[2]), "kept_bits": d0["wp"] * inb}
    from concurrent.futures import ThreadPoolExecutor as _TPE
    with _TPE(vf.NCPU) as ex: tvres = list(ex.map(tv_one, tvsets))
    for t_ in tvres:
        if t_ is None: continue
        tvs.append(t_)
        if "log2_tv" in t_ and t_["log2_tv"] > t_["bound"]:
            fails.append(("statistical distance (numeric evaluation at >= 1200 bits of the dumped table)", "g %s" % t_["params"], "log2 TV = %.2f exceeds the advertised -lambda - log2(m) = %.2f (the table keeps %d bits)" % (t_["log2_tv"], t_["bound"], t_["kept_bits"])))
    ck.cov["numeric_tv"] = tvs
    # ---- machine-checked certificates: TV(table dumped on this run, D_{Z,sigma,c}) <= 2^-lambda/m, proved by Interval
    import re
    from concurrent.futures import ThreadPoolExecutor
    certsets = [((0.8, 32, 1, "-2.7", "d"), 8, 1), ((3.0, 128, 1024, "0", "d"), 8, 1)] + ([] if q else
               [((19.5, 80, 32768, "0.5", "d"), 8, 1), ((1.0, 64, 16, "2.5", "d"), 16, 2), ((8.0, 128, 1, "0.49", "m:200"), 8, 1), ((0.3, 32, 1, "0", "d"), 8, 1), ((3.0, 256, 1048576, "-7.25", "d"), 16, 1)])
    with vf.Lock("coq"):
        vf.coq_makefile(); vf.sh("make -k -j%d GaussCert.vo" % vf.NCPU, cwd=vf.COQ, timeout=900)
    def cert(idx_set):
        idx, (prm, inb, depth) = idx_set
        hd = gc.head(inb, depth, prm)
        r, o, e = gc.run_lines(exe, ["g %s 0 T -" % hd])[0]
        if r != 0 or not o: return (hd, False, "sampler construction failed", "")
        d0 = gc.parse(o)
        req = {"name": "c%d" % idx, "sigma": repr(prm[0]), "center": prm[3], "P": d0["wp"] * inb, "vmin": d0["vmin"], "barriers": d0["barriers"], "lambda": prm[1], "m": prm[2]}
        if prm[4].startswith("m:"): req["center_prec"] = int(prm[4][2:])
        rc, src, err = vf.run_io([os.path.join(vf.ROOT, "tools/gauss_cert.py")], json.dumps(req), timeout=300)
        if rc != 0: return (hd, False, "certificate generator failed: " + err[-200:], "")
        path = os.path.join(vf.COQ, "gen", "GaussCert_c%d.v" % idx); open(path, "w").write(src)
        rc, out = vf.sh(["coqc", "-Q", ".", "NTT", "gen/GaussCert_c%d.v" % idx], cwd=vf.COQ, timeout=3000)
        axioms = sorted(set(re.findall(r"^([A-Z][\w]*\.[\w.]+)\s*$|^([A-Z][\w]*\.[\w.]+)\s*:", out, re.M)))
        names = sorted({x for pair in axioms for x in pair if x})
        return (hd, rc == 0, " ".join(out.split())[-300:] if rc != 0 else "", names)
    with ThreadPoolExecutor(max(1, vf.NCPU // 2)) as ex: cres = list(ex.map(cert, list(enumerate(certsets))))
    okp = ("ClassicalDedekindReals.", "FunctionalExtensionality.", "Classical_Prop.", "Uint63.", "PrimInt63.", "PrimFloat.", "FloatAxioms.", "FloatOps.", "Sint63.", "SpecFloat.")
    ck.cov["tv_certificates"] = [{"params": hd, "proved": ok_, "theorem": "TV a c vmin qs <= 2^-lambda/m (gen/GaussCert_c*.v, Interval)"} for hd, ok_, msg, ax in cres]
    ck.cov["tv_certificate_axioms"] = sorted({a for _, _, _, ax in cres for a in ax})
    ncert_ok = sum(1 for _, ok_, _, _ in cres if ok_)
    for hd, ok_, msg, ax in cres:
        if not ok_:
            tvm = [t for t in tvs if t.get("params") == hd]
            fails.append(("statistical-distance certificate no longer checks", "g %s" % hd, "Interval could not prove TV <= 2^-lambda/m for the dumped table (%s); numeric log2 TV: %s" % (msg[-160:], tvm[0].get("log2_tv") if tvm else "n/a")))
        elif any(not a.startswith(okp) for a in ax):
            fails.append(("certificate depends on an unexpected axiom", hd, str([a for a in ax if not a.startswith(okp)])))
    ck.stream("machine-checked TV certificates (Interval) for tables dumped on this run", max(1, len(cres)), max(2, len(cres)))
    ck.stream("numeric total-variation evaluations (mpmath)", max(1, len(tvs)), max(2, len(tvs)))
    ck.cov["tables"] = tables[:12]
    ck.stream("probe strings: every (sampled) barrier -1/0/+1, cell boundaries of the first and second word, extremes, random; 4 table layouts x parameter sets", nprobe)
    ck.samples = samples[:6]
    for s, l, v in fails[:3]:
        ck.violation("%s: %s; case '%s'" % (s, v[:300], l[:200]), {"stream": s, "case": l, "what": v}, tag="gauss")
    if not fails and (corr or not ck.proof["ok"]):
        ck.violation(("model and implementation decode %d probe strings differently (both were compared with the barrier count), e.g. %s" % (len(corr), corr[0])) if corr
                     else "proof obligation no longer checks: %s" % ck.proof["broken"], {"examples": [str(c) for c in corr[:5]], "broken_obligation": ck.proof.get("broken")}, tag="correspondence", no_input=True)
    ck.assumptions = ["MPFR (mpfr_exp, RNDN at run-time precision) and libm (log, log2, sqrt, ceil on double) are not modelled: their results enter as data (the dumped barrier table)",
                      "the statistical-distance bound is not proved for all (sigma, lambda, m, c); see DESIGN.md (C10) for what is certified"]
    if ck.proof: ck.proof["obligations"] += len(cres); ck.proof["discharged"] += ncert_ok
    return ck.finish(trusted=["coqc 8.16.1 kernel", "h_gauss.cpp (#define private public, scripted tape)", "tools/gauss_cert.py (certificate generator; its numeric hints are re-checked by Interval)",
                              "Coq Interval 4.x + Coquelicot (classical real axioms; primitive 63-bit integers and floats of the kernel)", "mpmath numeric evaluation (supporting only)"],
                     extra_cov={"partial": "structure proved for every sorted table; distance proved per dumped table for the listed parameter sets (not for all sigma, lambda, m, c)"})

def replay(ck, rec):
    print("replay case:", rec.get("case", "")[:300]); return 1
