# Boundary-directed case generators for the scalar/vector functors (C03, C05).
def inv(a, p):
    return pow(a, p - 2, p)

def gen_cases(params, rng, rows_per_w, nrand, widths=(16, 32, 64), bfly=True):
    """returns list of (stream, line)"""
    out = []
    for w in widths:
        d = params[w]
        rows = d["rows"]
        idxs = sorted(set([0, len(rows) - 1] + [rng.randrange(len(rows)) for _ in range(rows_per_w)])) if rows_per_w < len(rows) else range(len(rows))
        B = 1 << w
        for ri in idxs:
            p, pn = rows[ri][0], rows[ri][1]
            R = lambda: rng.randrange(p)
            def add(stream, op, *a):
                out.append((stream, "%s %d %d %s" % (op, w, p, " ".join(str(v) for v in a))))
            # --- addmod / submod boundaries
            for x in (0, 1, p // 2, p - 1, R(), R()):
                for s in (p - 1, p, p + 1, 0, 2 * p - 2):
                    y = s - x
                    if 0 <= y < p: add("add:boundary x+y in {p-1,p,p+1,0,2p-2}", "addmod", x, y)
                for dd in (-1, 0, 1):
                    y = x - dd
                    if 0 <= y < p: add("sub:boundary x-y in {-1,0,1}", "submod", x, y)
                add("sub:y=0 or p-1", "submod", x, 0); add("sub:y=0 or p-1", "submod", x, p - 1)
            # --- products hitting 0, 1, p-1 and the extremes
            for _ in range(3):
                x = rng.randrange(1, p)
                for t in (1, p - 1, 2, R()):
                    y = inv(x, p) * t % p
                    add("mul:x*y = 1,p-1,2,t mod p", "mulmod", pn, x, y)
                    add("mulshoup:x*y = 1,p-1,2,t mod p", "mulmod_shoup", x, y)
                    add("muladd:z+xy = 0 mod p", "muladd", pn, (p - t) % p, x, y)
                    add("muladdshoup:z+xy = 0 mod p", "muladd_shoup", (p - t) % p, x, y)
                    add("muladdshoup:z+xy = p-1 mod p", "muladd_shoup", (p - 1 - t) % p, x, y)
            for (x, y) in ((0, 0), (0, p - 1), (p - 1, p - 1), (1, p - 1), (p - 1, 1), (p // 2, 2), (p // 2 + 1, 2), (2, p // 2 + 1)):
                add("mul:extremes", "mulmod", pn, x, y); add("mulshoup:extremes", "mulmod_shoup", x, y)
                for z in (0, p - 1):
                    add("muladd:extremes", "muladd", pn, z, x, y); add("muladdshoup:extremes", "muladd_shoup", z, x, y)
            # --- products that fit in ONE limb although they are far above p (a shortcut for 'small' products is wrong there): k*p +- small
            sq = 1 << (w // 2)
            for (x, y) in ((2, p - 1), (3, p - 1), (3, p // 2 + 1), (4, p // 2 + 7), (sq - 1, sq - 1), (sq, sq - 1), (sq + 1, sq - 3), (sq * 3 // 2, sq),
                           (7, (3 * p) // 7 + 1), (5, (B - 1) // 5 % p)):
                if 0 <= x < p and 0 <= y < p:
                    add("mul:product fits in one limb but exceeds 2p", "mulmod", pn, x, y); add("mul:product fits in one limb but exceeds 2p", "mulmod", pn, y, x)
                    add("muladd:product fits in one limb but exceeds 2p", "muladd", pn, p - 1, x, y)
            # --- compute_shoup on arbitrary words (also >= p)
            for y in [0, 1, p - 1, p, p + 1, 2 * p - 1, 2 * p, 3 * p, 4 * p - 1, B - 1, B - 2, B // 2, B // 2 - 1] + [k * p for k in range(4, 9) if k * p < B] + [k * p - 1 for k in range(4, 9) if k * p - 1 < B]:
                if 0 <= y < B: add("cshoup:boundary words incl >= p", "compute_shoup", y)
            # --- quotient precomputation on the rounding boundary: y * 2^w = -s (mod p), small s, also shifted by multiples of p
            ib = pow(B % p, p - 2, p)
            for s_ in (1, 2, 3, 5, 8, 13):
                y = (-s_) * ib % p
                for k in (0, 1, 2, 3):
                    if y + k * p < B: add("cshoup:y*2^w = -s mod p (quotient one below a multiple)", "compute_shoup", y + k * p)
                x = (p - pow(y, p - 2, p)) % p
                add("mulshoup:y on the quotient rounding boundary, x*y = -1", "mulmod_shoup", x, y)
            # --- random
            for _ in range(nrand):
                x, y, z = R(), R(), R()
                add("add:random", "addmod", x, y); add("sub:random", "submod", x, y)
                add("mul:random", "mulmod", pn, x, y); add("mulshoup:random", "mulmod_shoup", x, y)
                add("muladd:random", "muladd", pn, z, x, y); add("muladdshoup:random", "muladd_shoup", z, x, y)
                add("cshoup:random word", "compute_shoup", rng.randrange(B))
            # --- the lazy Harvey butterfly: in-range operands at the edges of [0,2p) and arbitrary words
            if bfly:
                for wt in (1, p - 1, R()):
                    for a in (0, 1, p - 1, p, 2 * p - 1, rng.randrange(2 * p)):
                        for b in (0, p, 2 * p - 1, a, (2 * p - a) % (2 * p), (2 * p - a - 1) % (2 * p), rng.randrange(2 * p)):
                            add("bfly:operands on the edges of [0,2p), sums around 2p", "bfly", wt, a, b)
                for _ in range(nrand):
                    add("bfly:random in range", "bfly", R(), rng.randrange(2 * p), rng.randrange(2 * p))
                    add("bfly:wild arbitrary words (vector body = scalar body, no range assumption)", "bfly", R(), rng.randrange(B), rng.randrange(B))
                for a, b in ((B - 1, B - 1), (B - 1, 0), (0, B - 1), (B // 2, B // 2), (2 * p, 2 * p), (B - 2 * p, 2 * p)):
                    add("bfly:wild arbitrary words (vector body = scalar body, no range assumption)", "bfly", R(), a, b)
            # --- shoup remainder lands in [p, p + x p / B): model-side search for the conditional-subtraction branch
            cand = []
            for it in range(1500):
                x, y = (R(), R()) if it % 3 == 0 else (p - 1 - rng.randrange(64), R())
                yp = (y * B) // p
                q = (x * yp) >> w
                r = x * y - q * p
                if r >= p: cand.append((r, x, y))
            cand.sort(reverse=True)
            # the LARGEST remainders (the lazy multiply-add then reaches its maximum, close to 2p + p^2/2^w) and a few ordinary ones
            for r, x, y in cand[:6] + cand[len(cand) // 2: len(cand) // 2 + 2]:
                add("mulshoup:remainder >= p before the conditional subtraction", "mulmod_shoup", x, y)
                for z in (p - 1, p - 2, (2 * p - 1 - r) % p, (2 * p - r) % p):
                    add("muladdshoup:rop near p-1 on top of a Shoup remainder >= p (largest lazy sum)", "muladd_shoup", z, x, y)
    return out
