# C12 — uniform / bounded / ternary / fixed-weight samplers: exact support and bias bounds.
# Probabilities under a uniform tape are preimage counts: the check enumerates tapes exhaustively where the domain is
# finite and compares the measured multiplicities with the proved formulas, besides the word-level correspondence.
import vf, samp_common as sc, itertools, math
from collections import Counter

def run(ck):
    ok, info = vf.translate(); params = vf.read_params()
    ck.proof = vf.prove("Properties_C12")
    model, minfo = vf.build_model()
    if not model: raise RuntimeError(minfo)
    q = ck.quick(); rng = ck.rng
    CFGS = [(32, 256, 3), (16, 64, 2), (32, 8, 2), (64, 8, 1), (16, 8, 2), (32, 4, 1), (32, 2, 1), (64, 4, 2), (16, 2, 1), (16, 4, 1)]
    exes, errs = sc.build(CFGS)
    for b, ch, err in errs: ck.violation("sampler harness does not compile", {"compiler_output": err[-3000:]}, tag="build", no_input=True)
    fails, corr = [], []
    def collect(cases):
        res = sc.run(ck, cases, exes, model)
        for (stream, cfg, line), st, words, tail, mline in res:
            impl = (st + " " + " ".join(map(str, words))).strip()
            if "EXHAUSTED" not in tail and impl != mline: corr.append((stream, line, impl, mline))
        return res
    # ---- uniform, 16-bit: ALL 2^16 words through both moduli; multiplicity of residue r must be 1 + [r + p < 2^b]
    cfg = (16, 64, 2); w, n, nm = cfg; ps = [params[w]["rows"][cm][0] for cm in range(nm)]
    cases = []
    allw = list(range(1 << 16)) if not q else list(range(0, 1 << 16, 1)) 
    for k in range(0, len(allw), n):
        chunk = allw[k:k + n]
        cases.append(("uniform: every 16-bit word through every modulus", cfg, "uniform 16 64 2 T %s" % ("".join(sc.le(x, 2) for x in chunk) * 2)))
    res = collect(cases)
    hist = [Counter() for _ in ps]
    for (stream, cfg_, line), st, words, tail, mline in res:
        for cm in range(nm): hist[cm].update(words[cm * n:(cm + 1) * n])
    for cm, p in enumerate(ps):
        b = p.bit_length()
        bad = [r for r in range(p) if hist[cm][r] != (1 << (16 - b)) * (1 + (1 if r + p < (1 << b) else 0))]
        extra = [r for r in hist[cm] if r >= p]
        if bad or extra:
            fails.append(("uniform multiplicities", "all 2^16 words, modulus %d" % p, "residue %s has %d preimages, expected %s; out-of-range outputs: %s" % (bad[:1], hist[cm][bad[0]] if bad else -1, "1 or 2 (x2^%d)" % (16 - b), extra[:3])))
    ck.stream("uniform: every 16-bit word through every modulus (multiplicity of each residue = 1 + [r+p < 2^b])", len(cases))
    # ---- bounded: for each (B, A) enumerate ALL masked words; support exactly A*{-(B-1)..B-1}, each value 1 or 2 preimages
    cfg = (32, 8, 2); w, n, nm = cfg; ps = [params[w]["rows"][cm][0] for cm in range(nm)]
    Bs = [1, 2, 3, 4, 5, 7, 8, 9, 15, 16, 17, 31, 32, 33, 63, 64, 65] + ([] if q else [127, 128, 129, 255, 256, 257, 1023, 1024, 1025, 4095, 4096, 4097])
    nb = 0
    for B in Bs:
        for A in ((1, 3) if q else (1, 2, 3, 1024)):
            if A * (B - 1) >= min(ps): continue
            bits = (2 * B - 1).bit_length(); cases = []
            words = list(range(1 << bits))
            for k in range(0, len(words), n):
                chunk = (words[k:k + n] + [0] * n)[:n]
                cases.append(("bounded: every masked word for (B,A)", cfg, "bounded 32 8 2 %d %d T %s" % (B, A, "".join(sc.le(x | (rng.randrange(1 << 8) << 24 if bits <= 24 else 0), 4) for x in chunk))))
            res = collect(cases); nb += len(cases)
            h = Counter(); cnt = 0
            for (stream, cfg_, line), st, wd, tail, mline in res:
                v = sc.verdict("bounded", wd, ps, n)
                if v: fails.append(("bounded", line, v)); continue
                sg = sc.signed(wd, ps, n)
                for j, s in enumerate(sg):
                    if cnt < (1 << bits): h[s] += 1
                    cnt += 1
            support = {A * v for v in range(-(B - 1), B)}
            if set(h) != support: fails.append(("bounded support", "B=%d A=%d all %d masked words" % (B, A, 1 << bits), "support %s != A*{-(B-1)..B-1}" % sorted(set(h) ^ support)[:6]))
            elif max(h.values()) > 2 * min(h.values()): fails.append(("bounded bias", "B=%d A=%d" % (B, A), "max/min multiplicity %d/%d > 2" % (max(h.values()), min(h.values()))))
    ck.stream("bounded: every masked word for each (B,A); support = A*{-(B-1)..B-1}, multiplicities within a factor 2", nb)
    # ---- ternary: all 256 bytes for all thresholds (thorough) / a boundary set (quick)
    cfg = (16, 8, 2); w, n, nm = cfg; ps = [params[w]["rows"][cm][0] for cm in range(nm)]
    rhos = range(256) if not q else [0, 1, 2, 3, 4, 5, 6, 7, 63, 64, 126, 127, 128, 129, 253, 254, 255]
    nt = 0
    for rho in rhos:
        cases = [("ternary: all 256 bytes for threshold rho", cfg, "zo 16 8 2 %d T %s" % (rho, "".join("%02x" % (s + i) for i in range(n)))) for s in range(0, 256, n)]
        res = collect(cases); nt += len(cases)
        h = Counter()
        for (stream, cfg_, line), st, wd, tail, mline in res:
            v = sc.verdict("zo", wd, ps, n)
            if v: fails.append(("ternary", line, v)); continue
            h.update(sc.signed(wd, ps, n))
        if set(h) - {-1, 0, 1} or h[1] + h[-1] != rho + 1 or abs(h[1] - h[-1]) > 2 or (rho == 127 and h[1] != h[-1]):
            fails.append(("ternary counts", "rho=%d all 256 bytes" % rho, "#(+1)=%d #(-1)=%d #0=%d; expected non-zero = rho+1, imbalance <= 2 (0 for rho=127)" % (h[1], h[-1], h[0])))
    ck.stream("ternary: all 256 bytes per threshold; P(non-zero)=(rho+1)/256, |P(1)-P(-1)|<=2/256", nt)
    # ---- fixed weight: ALL reduced index tapes for every (n,h), n in {2,4,8}: every h-subset equally often; exactly h non-zero +-1
    nh = 0
    for cfg in ((16, 2, 1), (16, 4, 1), (32, 8, 2)) if not q else ((16, 2, 1), (16, 4, 1), (32, 8, 2)):
        w, n, nm = cfg; ps = [params[w]["rows"][cm][0] for cm in range(nm)]
        for h in range(1, n + 1):
            total = math.prod(k + 1 for k in range(h, n))
            if q and total > 2000: continue
            cases = []
            for tup in itertools.product(*[range(k + 1) for k in range(h, n)]):
                # index words are consumed h at a time (refill), then h sign words
                idx = list(tup); words = idx + [0] * ((-len(idx)) % h if idx else 0)
                signs = [rng.randrange(4) for _ in range(h)]
                cases.append(("fixed weight: every reduced index tape", cfg, "hwt %d %d %d %d T %s" % (w, n, nm, h, "".join(sc.le(x, 8) for x in words + signs))))
            res = collect(cases); nh += len(cases)
            sub = Counter()
            for (stream, cfg_, line), st, wd, tail, mline in res:
                v = sc.verdict("hwt", wd, ps, n)
                if v: fails.append(("fixed weight", line, v)); continue
                sg = sc.signed(wd, ps, n)
                if sum(1 for s in sg if s != 0) != h or any(s not in (-1, 0, 1) for s in sg):
                    fails.append(("fixed weight", line, "not exactly %d coefficients in {-1,+1}: %s" % (h, sg))); continue
                sub[tuple(i for i, s in enumerate(sg) if s != 0)] += 1
            ncomb = math.comb(n, h)
            if len(sub) != ncomb or len(set(sub.values())) != 1:
                missing = [c for c in itertools.combinations(range(n), h) if c not in sub][:3]
                fails.append(("fixed weight uniformity", "n=%d h=%d, all %d index tapes" % (n, h, total),
                              "position sets are not equally likely: %d of %d subsets reached, counts %s, never chosen e.g. %s" % (len(sub), ncomb, sorted(set(sub.values()))[:4], missing)))
    ck.stream("fixed weight: every reduced index tape for every (n,h); each h-subset Prod(k+1)/C(n,h) times", nh)
    # ---- rejection boundary of the reservoir draw and 64-bit uniform boundary words
    cases = []
    for k1 in (2, 3, 5, 7, 8):
        rs = ((1 << 64) - 1) // k1
        for x in (rs * k1 - 1, rs * k1, (1 << 64) - 1, rs * k1 - k1, k1 - 1, k1):
            h = 1; n = 8
            words = [x, 3, 1, 2, 0, 4, 5, 6, 7, 1, 2, 3, 1, 0, 2] 
            cases.append(("fixed weight: words at the rejection boundary rs*(k+1)", (32, 8, 2), "hwt 32 8 2 %d T %s" % (k1 - 1 if k1 - 1 >= 1 else 1, "".join(sc.le(v, 8) for v in words * 3))))
    res = collect(cases)
    for (stream, cfg_, line), st, wd, tail, mline in res:
        v = sc.verdict("hwt", wd, [params[32]["rows"][cm][0] for cm in range(2)], 8)
        if v: fails.append(("fixed weight", line, v))
    ck.stream("fixed weight: rejection boundary words", len(cases))
    # ---- large weights with several moduli: the scratch buffer of hwt words is refilled many times by the reservoir stage and once more for the
    # signs, which every modulus must read from the same words (one signed value per coefficient); random tapes, compared with the model
    cases = []
    for h in (1, 2, 63, 64, 65, 100, 128, 200, 255, 256):
        for rep in range(2 if q else 6):
            nwords = 256 + 3 * h + 64
            cases.append(("fixed weight: large weights, three moduli", (32, 256, 3), "hwt 32 256 3 %d T %s" % (h, "".join(sc.le(rng.getrandbits(64), 8) for _ in range(nwords)))))
    res = collect(cases); ps3 = [params[32]["rows"][cm][0] for cm in range(3)]
    for (stream, cfg_, line), st, wd, tail, mline in res:
        if "EXHAUSTED" in tail: continue
        v = sc.verdict("hwt", wd, ps3, 256); h = int(line.split()[4])
        if not v:
            sg = [0 if x == 0 else (1 if x == 1 else (-1 if x == ps3[0] - 1 else 9)) for x in wd[:256]]
            if sum(1 for s_ in sg if s_ != 0) != h or any(s_ == 9 for s_ in sg): v = "not exactly %d coefficients in {-1,+1}" % h
        if v: fails.append(("fixed weight (large weight, three moduli)", line[:60], v))
    ck.stream("fixed weight: large weights, three moduli", len(cases))
    ck.samples = ["uniform 16 64 2 T <all 2^16 words>", "bounded 32 8 2 B A T <all masked words>", "zo 16 8 2 rho T <all 256 bytes>", "hwt 32 8 2 4 T <all 1680 reduced index tapes>"] + [c[2][:120] for c in cases[:2]]
    for s, l, v in fails[:3]:
        ck.violation("sampler distribution violates the property: %s: %s (%s)" % (s, v[:300], l[:160]), {"stream": s, "case": l, "what": v}, tag="dist")
    if not fails and (corr or not ck.proof["ok"]):
        ck.violation(("correspondence broken on %d cases, e.g. '%s' impl='%s' model='%s'" % (len(corr), corr[0][1][:120], corr[0][2][:100], corr[0][3][:100])) if corr
                     else "proof obligation no longer checks: %s" % ck.proof["broken"], {"examples": [c[1] for c in corr[:5]], "broken_obligation": ck.proof.get("broken")}, tag="correspondence", no_input=True)
    ck.assumptions = ["probabilities are preimage counts under a uniform tape", "independence across coefficients: each output coefficient is a function of its own tape segment (by construction of the models: map over words)",
                      "fixed weight: the slot-array -> subset refinement is tied by the exhaustive enumeration for n <= 8 (set-level uniformity proved for all n,h in Reservoir.v)"]
    vf.run_deps(ck, ['C09'])
    return ck.finish(trusted=["coqc 8.16.1 kernel", "extraction + driver.ml", "h_samplers.cpp (scripted tape)", "source readers: tools/dump_params (tables), cxxloop2coq.py (samplers), cxxhwt2coq.py + HwtSem.v (set(hwt_dist))"], extra_cov={"params_sha": info, "exhaustive": True})

def replay(ck, rec):
    print("replay case:", rec.get("case", "")[:300]); return 1
