# C14 — shared-handle (copy-on-write) polynomials behave as independent values: refinement proof + op-sequence correspondence.
import vf, itertools

H = 3
def moves(empty):
    """all operations allowed by the discipline in a state (which handles are empty), with small fixed parameters"""
    out = []
    for h in range(H):
        if empty[h]:
            out.append(("create %d %d" % (h, 3 + h), h, None))
            out.append(("createbad %d" % h, None, None))
            for g in range(H):
                if not empty[g] and g != h:
                    out += [("copyc %d %d" % (h, g), h, None), ("movec %d %d" % (h, g), h, g)]
        else:
            out += [("write %d %d %d" % (h, h + 1, 70 + h), None, None), ("ntt %d" % h, None, None), ("setu %d %d" % (h, 9 + h), None, None),
                    ("destroy %d" % h, None, h), ("copya %d %d" % (h, h), None, None), ("read %d 0" % h, None, None),
                    ("setbad %d" % h, None, None), ("nubad %d" % h, None, None), ("deserbad %d" % h, None, None), ("ilbad %d" % h, None, None), ("csave %d" % h, None, None)]
            for g in range(H):
                if not empty[g] and g != h:
                    out += [("copya %d %d" % (h, g), None, None), ("movea %d %d" % (h, g), None, g), ("add %d %d %d" % (h, g, h), None, None), ("cmp %d %d" % (h, g), None, None),
                            ("fma %d %d %d" % (h, g, g), None, None), ("cload %d %d" % (h, g), None, None)]
    return out

def moves_raw(empty):
    """alphabet without arithmetic but with element writes of words ABOVE the modulus (a handle may hold any words)"""
    out = []
    for h in range(H):
        if empty[h]:
            out.append(("create %d %d" % (h, 3 + h), h, None))
            for g in range(H):
                if not empty[g] and g != h: out += [("copyc %d %d" % (h, g), h, None), ("movec %d %d" % (h, g), h, g)]
        else:
            out += [("write %d %d %d" % (h, h + 1, 4294967290 + h), None, None), ("write %d 0 %d" % (h, 1073479681 + h), None, None), ("read %d 0" % h, None, None), ("destroy %d" % h, None, h)]
            for g in range(H):
                if not empty[g] and g != h: out += [("copya %d %d" % (h, g), None, None), ("movea %d %d" % (h, g), None, g)]
    return out

def enum_raw(depth, empty, prefix, out, limit):
    if len(out) >= limit: return
    if prefix: out.append(";".join(prefix))
    if depth == 0: return
    for mv in moves_raw(empty):
        enum_raw(depth - 1, apply(empty, mv), prefix + [mv[0]], out, limit)

def apply(empty, mv):
    e = list(empty)
    if mv[1] is not None: e[mv[1]] = False
    if mv[2] is not None: e[mv[2]] = True
    return tuple(e)

def enum(depth, empty, prefix, out, limit):
    if len(out) >= limit: return
    if prefix: out.append(";".join(prefix))
    if depth == 0: return
    for mv in moves(empty):
        enum(depth - 1, apply(empty, mv), prefix + [mv[0]], out, limit)

def rand_seq(rng, length):
    empty = (True,) * H; seq = []
    extra = ["intt %d", "setl %d 4", "mul %d %d %d"]
    for _ in range(length):
        ms = moves(empty)
        mv = rng.choice(ms)
        seq.append(mv[0]); empty = apply(empty, mv)
        live = [h for h in range(H) if not empty[h]]
        if live and rng.random() < 0.2:
            h = rng.choice(live); e = rng.choice(extra)
            seq.append(e % ((h,) if e.count("%d") == 1 else (h, rng.choice(live), rng.choice(live))))
    return ";".join(seq)

def run(ck):
    ck.proof = vf.prove("Properties_C14")
    model, minfo = vf.build_model()
    if not model: raise RuntimeError(minfo)
    exe, err = vf.build_harness("h_polyp", ["h_polyp.cpp"], extra=["-w", "-fsanitize=address,undefined", "-fno-sanitize-recover=all", "-g"], out_name="h_polyp_asan")
    if not exe:
        ck.violation("h_polyp does not compile", {"compiler_output": err[-3000:]}, tag="build", no_input=True); return ck.finish()
    q = ck.quick()
    seqs = []
    # bounded-exhaustive: after "create 0; copyc 1 0" (a shared pair) and from the empty state
    enum(2 if q else 3, (False, False, True), ["create 0 5", "copyc 1 0"], seqs, 200000)
    n1 = len(seqs)
    enum(3 if q else 4, (True, True, True), [], seqs, 400000)
    n2 = len(seqs) - n1
    n3 = len(seqs)
    enum_raw(3 if q else 4, (False, False, True), ["create 0 5", "write 0 3 4294967295", "copyc 1 0"], seqs, 600000)
    n3 = len(seqs) - n3
    for _ in range(300 if q else 3000): seqs.append(rand_seq(ck.rng, 14 if q else 30))
    data = "\n".join(seqs) + "\n"
    rc, mout, merr = vf.run_io([model, "polyp"], data, timeout=1800)
    if rc != 0: raise RuntimeError("model runner failed: " + merr[-500:])
    env = {"ASAN_OPTIONS": "detect_leaks=1:abort_on_error=0", "UBSAN_OPTIONS": "halt_on_error=1"}
    rc, iout, ierr = vf.run_io([exe], data, timeout=1800, env=env)
    ml = mout.rstrip("\n").split("\n"); il = iout.rstrip("\n").split("\n")
    fails, corr = [], []
    if rc != 0 or len(il) != len(seqs):
        # find the offending sequence by bisection over lines (sanitizer report or crash)
        bad = None
        lo, hi = 0, len(seqs)
        while hi - lo > 1:
            mid = (lo + hi) // 2
            r2, _, _ = vf.run_io([exe], "\n".join(seqs[lo:mid]) + "\n", timeout=900, env=env)
            if r2 != 0: hi = mid
            else: lo = mid
        bad = seqs[lo]
        ck.violation("sanitizer report / crash (memory error, leak or double free) on sequence '%s': %s" % (bad, ierr[-400:].replace("\n", " ")), {"sequence": bad, "stderr": ierr[-3000:]}, tag="sanitizer")
    else:
        norm = lambda s: " ".join(s.split())
        for sq, m, i in zip(seqs, ml, il):
            mm, ss = [norm(x) for x in m.split("#")]
            ii = norm(i)
            # the spec side has no sharing classes: strip "<class>:" from the implementation output
            import re
            ivals = re.sub(r"\b\d+:", "", ii)
            if ivals != ss: fails.append((sq, ii, mm, ss))
            elif ii != mm: corr.append((sq, ii, mm, ss))
    ck.stream("all sequences of length <= %d after a shared pair" % (2 if q else 3), n1)
    ck.stream("all sequences of length <= %d from the empty state" % (3 if q else 4), n2)
    ck.stream("all sequences of length <= %d over copies/moves/raw element writes of words >= p (non-canonical payloads)" % (3 if q else 4), n3)
    ck.stream("random long sequences", len(seqs) - n1 - n2 - n3)
    ck.samples = seqs[:3] + seqs[n1:n1 + 2] + seqs[-3:]
    for sq, ii, mm, ss in fails[:3]:
        ck.violation("handle values differ from value semantics: sequence '%s' impl='%s' spec='%s'" % (sq, ii[-200:], ss[-200:]), {"sequence": sq, "impl": ii, "model": mm, "spec": ss}, tag="cow")
    if not fails and not ck.violations and (corr or not ck.proof["ok"]):
        ck.violation(("sharing structure differs from the model (values agree) on %d sequences, e.g. '%s' impl='%s' model='%s'" % (len(corr), corr[0][0], corr[0][1][-160:], corr[0][2][-160:])) if corr
                     else "proof obligation no longer checks: %s" % ck.proof["broken"], {"examples": [c[0] for c in corr[:5]], "broken_obligation": ck.proof.get("broken")}, tag="correspondence", no_input=True)
    ck.assumptions = ["std::shared_ptr / allocate_shared semantics (reference count = number of handles) trusted", "moved-from handles are only destroyed or assigned to (discipline of the model)",
                      "sharing observed through address equality of the const poly_obj()"]
    vf.run_deps(ck, ['C17', 'C07'])
    return ck.finish(trusted=["coqc 8.16.1 kernel", "extraction + driver.ml", "h_polyp.cpp interpreter, AddressSanitizer + LeakSanitizer + UBSan", "source reader: tools/cxxpolyp2coq.py + ShSem.v (special members, forwarding members of poly_p)"])

def replay(ck, rec):
    print("replay sequence:", rec.get("sequence")); return 1
