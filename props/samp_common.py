# C09/C12: sampler harness build, tape helpers, run + property verdicts on the implementation's own output.
import os, vf, ntt_common as nc

def build(cfgs):
    return nc.build(cfgs, ("serial",), name="h_samplers", src="h_samplers.cpp", extra=[], suffix="") if False else _build(cfgs)

def _build(cfgs):
    hdir = os.path.join(vf.BUILD, "harness"); os.makedirs(hdir, exist_ok=True)
    jobs, keys = [], []
    chunks = [cfgs[i::4] for i in range(4)]
    for ci, ch in enumerate(chunks):
        if not ch: continue
        hp = os.path.join(hdir, "h_samplers_cfg_%d.h" % ci)
        open(hp, "w").write("#define CONFIGS " + " ".join("X(%s,%d,%d)" % (nc.TN[w], n, nm) for w, n, nm in ch) + "\n")
        jobs.append(dict(name="h_samplers", srcs=["h_samplers.cpp"], backend="serial", out_name="h_samplers_%d" % ci, prng=False, extra=["-w", '-DNTT_CFG_H="%s"' % hp]))
        keys.append(ch)
    res = vf.build_many(jobs)
    exes, errs = {}, []
    for ch, (exe, err) in zip(keys, res):
        if exe:
            for c in ch: exes[("serial", c)] = exe
        else: errs.append(("serial", ch, err))
    return exes, errs

def le(v, nbytes): return "".join("%02x" % ((v >> (8 * i)) & 255) for i in range(nbytes))

def parse_impl(line):
    """'ok w w w | reqs=.. consumed=k [EXHAUSTED]' -> (status, words, tail)"""
    head, _, tail = line.partition("|")
    t = head.split()
    noise = [x for x in t if x.startswith("noise=")]
    if noise: tail = tail.strip() + " " + noise[0]; t = [x for x in t if not x.startswith("noise=")]
    return (t[0] if t else "?"), [int(x) for x in t[1:]], tail.strip()

def verdict(dist, words, ps, n):
    """property-level verdict on stored words: canonical, and (non-uniform) one signed value per coefficient across moduli"""
    nm = len(ps)
    if len(words) != n * nm: return "badlen"
    for cm in range(nm):
        for i in range(n):
            v = words[cm * n + i]
            if not (0 <= v < ps[cm]): return "non-canonical word %d at (cm=%d,i=%d), p=%d" % (v, cm, i, ps[cm])
    if dist != "uniform":
        for i in range(n):
            v0 = words[i]
            # one signed integer (|s| < p_min) must explain the residues of every modulus: s = v0 or s = v0 - p0
            if not any(all(s0 % ps[cm] == words[cm * n + i] for cm in range(nm)) for s0 in (v0, v0 - ps[0])):
                return "inconsistent residues at i=%d: %s" % (i, [words[c * n + i] for c in range(nm)])
    return None

def signed(words, ps, n):
    return [(words[i] - ps[0]) if 2 * words[i] > ps[0] else words[i] for i in range(n)]

def run(ck, cases, exes, model, timeout=1800):
    """cases: (stream, cfg, line).  Returns list of (case, impl_status, impl_words, tail, model_line)."""
    data = "\n".join(c[2] for c in cases) + "\n"
    rc, mout, merr = vf.run_io([model, "samp"], data, timeout=timeout)
    if rc != 0: raise RuntimeError("model runner failed: " + merr[-500:])
    ml = mout.rstrip("\n").split("\n")
    out = [None] * len(cases)
    byexe = {}
    for i, c in enumerate(cases):
        byexe.setdefault(exes[("serial", c[1])], []).append(i)
    for exe, idxs in byexe.items():
        rc, o, e = vf.run_io([exe], "\n".join(cases[i][2] for i in idxs) + "\n", timeout=timeout)
        ls = o.rstrip("\n").split("\n")
        if rc != 0 or len(ls) != len(idxs):
            ck.violation("sampler harness crashed: %s" % e[-300:], {"stderr": e[-2000:]}, tag="crash"); continue
        for i, l in zip(idxs, ls):
            st, words, tail = parse_impl(l)
            out[i] = (cases[i], st, words, tail, " ".join(ml[i].split("#")[0].split()))
    return [o for o in out if o]
