# C13 — random bytes = Salsa20/20 keystream under a per-request nonce: generator logic proved, assembly compared.
import vf, os

def run(ck):
    ck.proof = vf.prove("Properties_C13")
    model, minfo = vf.build_model()
    if not model: raise RuntimeError(minfo)
    exe = os.path.join(vf.BUILD, "harness", "h_prng"); os.makedirs(os.path.dirname(exe), exist_ok=True)
    rc, out = vf.sh(["g++", "-std=c++11", "-O1", "-w", "-I%s/lib/prng" % vf.REPO, "-I%s/include" % vf.REPO, "-I%s/include/nfl/prng" % vf.REPO,
                     os.path.join(vf.ROOT, "harness/h_prng.cpp"), os.path.join(vf.REPO, "lib/prng/fastrandombytes.cpp"),
                     os.path.join(vf.REPO, "lib/prng/nfl_crypto_stream_salsa20_amd64_xmm6.s"), "-o", exe])
    if rc != 0:
        ck.violation("h_prng does not compile", {"compiler_output": out[-3000:]}, tag="build", no_input=True); return ck.finish()
    q = ck.quick(); rng = ck.rng
    B = [0, 1, 2, 31, 32, 33, 63, 64, 65, 127, 128, 129, 191, 192, 193, 255, 256, 257, 319, 320, 321, 4 * 64 - 1, 4 * 64 + 1, 511, 512, 513, 1000]
    lines = []
    lines.append(("boundary lengths in one history", "0 " + " ".join(map(str, B))))
    lines.append(("boundary lengths in one history", "9 " + " ".join(map(str, reversed(B)))))
    for k in range(6 if q else 40):
        lines.append(("random histories", "%d " % rng.randrange(256) + " ".join(str(rng.choice(B + [rng.randrange(0, 700)])) for _ in range(rng.randrange(1, 30)))))
    lines.append(("nonce continuity over many requests", "5 " + " ".join(str(rng.choice([0, 1, 1, 2, 64])) for _ in range(600 if q else 12000))))
    lines.append(("empty history / zero-length requests only", "1 0 0 0 1"))
    lines.append(("large request (model and native spec)", "2 20000 3"))
    # requests around and beyond 1 MiB: compared with the native Salsa20 spec of the driver (itself cross-checked against the
    # extracted Gallina Salsa20 on every smaller request of this run)
    lines.append(("requests of 2^20-1, 2^20, 2^20+1 and 3 MiB+17 bytes (native spec)", "7 5 %d %d %d 64 %d 9" % ((1 << 20) - 1, 1 << 20, (1 << 20) + 1, 3 * (1 << 20) + 17)))
    data = "\n".join(l for _, l in lines) + "\n"
    rc, mout, merr = vf.run_io([model, "prng"], data, timeout=3000)
    if rc != 0: raise RuntimeError("model runner failed: " + merr[-500:])
    il, rc, ierr = [], 0, ""
    for _, l in lines:                     # one process per history: the generator's state is static
        r1, o1, e1 = vf.run_io([exe], l + "\n", timeout=600)
        il.append(o1.strip()); rc |= r1; ierr += e1
    ml = mout.rstrip("\n").split("\n")
    fails = []
    if rc != 0 or len(il) != len(lines):
        ck.violation("h_prng crashed: %s" % ierr[-300:], {"stderr": ierr[-2000:]}, tag="crash")
    else:
        norm = lambda s: " ".join(s.split())
        for (st, l), m, i in zip(lines, ml, il):
            mm = norm(m.split("#")[0]); ss = norm(m.split("#")[1]); ii = norm(i)
            if mm != "?" and mm != ss:
                fails.append((st, l, -1, "model/spec disagree", "the extracted Gallina Salsa20 and the native spec differ: machinery inconsistency")); continue
            if mm == "?": mm = ss
            if ii != mm:
                # locate the first differing request
                a, b = ii.split(), mm.split(); k = next((j for j, (x, y) in enumerate(zip(a, b)) if x != y), min(len(a), len(b)))
                fails.append((st, l, k, a[k] if k < len(a) else "", b[k] if k < len(b) else ""))
    # thorough tier: one request of 2^32 + 200 bytes (4 GiB of memory, about 8 s).  The model runner cannot produce 4 GiB of keystream; the
    # harness compares sampled 64-byte blocks (first, last, around the 2^32-byte boundary, 256 others) with a portable block function of its own,
    # which the same run validates against the assembly on the unchanged tree; the requests before and after are compared with the model
    # (a zero-length request takes a nonce like any other)
    if not q and not fails:
        HL = (1 << 32) + 200
        r1, o1, e1 = vf.run_io([exe], "3 5 %d 7\n" % HL, timeout=900)
        rc2, mo2, me2 = vf.run_io([model, "prng"], "3 5 0 7\n", timeout=300)
        it = o1.split(); mt = mo2.split("#")[0].split() if rc2 == 0 else []
        lines.append(("one request of 2^32+200 bytes (sampled blocks, portable reference)", "3 5 %d 7" % HL))
        if r1 != 0 or len(it) < 3: fails.append(("huge request", "3 5 %d 7" % HL, 1, "crash rc=%d %s" % (r1, e1[-200:]), "huge:%d:ok" % HL))
        elif "NOMEM" in it[1]: ck.cov["huge_request"] = "skipped: 4 GiB could not be allocated"
        elif it[1] != "huge:%d:ok" % HL or "CANARY-OVERWRITTEN" in o1: fails.append(("huge request", "3 5 %d 7" % HL, 1, " ".join(it[1:3]), "huge:%d:ok" % HL))
        elif mt and (it[0] != mt[0] or it[2] != mt[2]): fails.append(("huge request", "3 5 %d 7" % HL, 0 if it[0] != mt[0] else 2, it[0] + " .. " + it[2], mt[0] + " .. " + mt[2]))
        else: ck.cov["huge_request"] = "2^32+200 bytes: sampled blocks ok"
    nreq = sum(len(l.split()) - 1 for _, l in lines)
    st = {}
    for s, l in lines: st.setdefault(s, []).append(l)
    for s, ls in sorted(st.items()): ck.stream(s, sum(len(l.split()) - 1 for l in ls))
    ck.cov["requests"] = nreq; ck.cov["bytes"] = sum(int(x) for _, l in lines for x in l.split()[1:])
    ck.samples = [l[:120] for _, l in lines[:6]]
    for s, l, k, a, b in fails[:3]:
        ck.violation("request #%d of history '%s...' differs from the Salsa20/20 keystream under nonce %d: impl=%s expected=%s" % (k, l[:80], k, a[:80], b[:80]),
                     {"history": l, "request_index": k, "impl": a, "model": b}, tag="stream")
    if not fails and not ck.proof["ok"]:
        ck.violation("proof obligation no longer checks: %s" % ck.proof["broken"], {"broken_obligation": ck.proof["broken"]}, tag="obligation", no_input=True)
    ck.assumptions = ["the qhasm assembly nfl_crypto_stream_salsa20_amd64_xmm6.s is compared with, never derived from, the Gallina Salsa20 (specification vectors proved as Examples)",
                      "one process per history (static generator state); nfl::randombytes is a fixed-key stub counting calls",
                      "buffers at rotating alignments inside canary-filled regions; whole region compared"]
    vf.run_deps(ck, ['C18', 'C19'])
    return ck.finish(trusted=["coqc 8.16.1 kernel", "extraction + driver.ml", "h_prng.cpp"], extra_cov={"partial": "assembly compared on %d requests / %d bytes, not proved" % (nreq, ck.cov["bytes"])})

def replay(ck, rec):
    print("replay history:", rec.get("history", "")[:300]); return 1
