# C18 — concurrent sampling never reuses keystream: all-schedules proof over the interleaving model of the repaired
# generator + schedule-driven correspondence through the NFLLIB_VERIF hook points + free-running stress (TSan in thorough).
import vf, os, itertools
from concurrent.futures import ThreadPoolExecutor

def build(flags, name):
    exe = os.path.join(vf.BUILD, "harness", name); os.makedirs(os.path.dirname(exe), exist_ok=True)
    rc, out = vf.sh(["g++", "-std=c++11", "-O1", "-w", "-pthread"] + flags + ["-I%s/include" % vf.REPO, "-I%s/include/nfl/prng" % vf.REPO,
                     os.path.join(vf.ROOT, "harness/h_prngconc.cpp"), os.path.join(vf.REPO, "lib/prng/fastrandombytes.cpp"),
                     os.path.join(vf.REPO, "lib/prng/nfl_crypto_stream_salsa20_amd64_xmm6.s"), "-Wl,--wrap=_ZN3nfl15fastrandombytesEPhy", "-lgmp", "-lmpfr", "-o", exe])
    return (exe if rc == 0 else None), out

def run(ck):
    ck.proof = vf.prove("Properties_C18")
    model, minfo = vf.build_model()
    if not model: raise RuntimeError(minfo)
    exe, out = build(["-DNFLLIB_VERIF"], "h_prngconc")
    if not exe:
        ck.violation("h_prngconc does not compile with -DNFLLIB_VERIF (hook points missing?)", {"compiler_output": out[-3000:]}, tag="build", no_input=True); return ck.finish()
    q = ck.quick(); rng = ck.rng
    lines = []
    def complete(T, total): return " ".join(str(t) for _ in range(4 * total + 4) for t in range(T))
    # all schedules (prefixes of length L at hook granularity, then a fixed completion) for 2 threads x 2 requests and 3 x 1
    for T, progs, L in ((2, "16,24;16,8", 9 if q else 12), (3, "16;24;8", 6 if q else 8)):
        total = sum(len(p.split(",")) for p in progs.split(";"))
        for pre in itertools.product(range(T), repeat=L):
            lines.append(("all schedule prefixes of length %d, %d threads" % (L, T), "sched %d | %s | %s %s" % (T, progs, " ".join(map(str, pre)), complete(T, total))))
    for _ in range(100 if q else 1500):
        T = rng.randrange(2, 5); progs = ";".join(",".join(str(rng.choice([8, 16, 64, 65])) for _ in range(rng.randrange(1, 4))) for _ in range(T))
        total = sum(len(p.split(",")) for p in progs.split(";"))
        pre = [rng.randrange(T) for _ in range(rng.randrange(5, 40))]
        lines.append(("random schedules, 2-4 threads", "sched %d | %s | %s %s" % (T, progs, " ".join(map(str, pre)), complete(T, total))))
    data = "\n".join(l for _, l in lines) + "\n"
    rc, mout, merr = vf.run_io([model, "conc"], data, timeout=1800)
    if rc != 0: raise RuntimeError("model runner failed: " + merr[-500:])
    ml = mout.rstrip("\n").split("\n")
    def one(l):
        r, o, e = vf.run_io([exe], l + "\n", timeout=60)
        return (r, o.strip(), e)
    with ThreadPoolExecutor(8) as ex: res = list(ex.map(one, [l for _, l in lines]))
    fails, corr = [], []
    norm = lambda s: " ".join(s.split())
    for (st, l), m, (r, o, e) in zip(lines, ml, res):
        mm = norm(m.split("#")[0]); ii = norm(o)
        if r != 0: fails.append((st, l, "crash rc=%d %s" % (r, e[-200:]), mm)); continue
        # property on the observed run itself: distinct gap-free nonces, one seeding
        nonces = [int(x.split("/")[0]) for x in ii.split("|")[0].split() if "/" in x]
        seed = ii.split("seedings=")[1].split()[0] if "seedings=" in ii else "?"
        if sorted(nonces) != list(range(len(nonces))) or seed != "1" or "INCOMPLETE" in ii or "PASSED-UNSEEDED" in ii: fails.append((st, l, ii, mm))
        elif ii != mm: corr.append((st, l, ii, mm))
    # free-running stress: every request gets a distinct nonce, the set is gap free, one seeding
    sx, out = build([], "h_prngconc_free")
    stress = []
    if sx:
        for T, R in ((2, 300), (8, 200), (16, 100)) + (() if q else ((16, 2000), (4, 5000))):
            for rep in range(3 if q else 10):
                r, o, e = vf.run_io([sx], "stress %d %d\n" % (T, R), timeout=300)
                stress.append((T, R, o.strip()))
                if r != 0 or "unidentified=0 reused=0 gaps=0 seedings=1" not in o:
                    fails.append(("free-running stress", "stress %d %d" % (T, R), o.strip() + e[-200:], "unidentified=0 reused=0 gaps=0 seedings=1"))
        # one Gaussian sampler object shared by the threads: every call's output must be the decode of the keystreams that call itself obtained
        # request lengths: a whole polynomial (200), and short requests (8, 2, 1 samples: other buffer-management paths of the sampler)
        for T, R, LEN in ((2, 20, 200), (4, 15, 200), (8, 8, 200), (4, 200, 8), (4, 300, 2), (8, 300, 1)) + (() if q else ((16, 20, 200), (16, 500, 4), (8, 2000, 1))):
            r, o, e = vf.run_io([sx], "gshare %d %d %d\n" % (T, R, LEN), timeout=600)
            stress.append((T, R, o.strip()))
            if r != 0 or "unidentified=0 reused=0 gaps=0 outputs_not_from_own_keystream=0 seedings=1" not in o:
                fails.append(("shared Gaussian sampler", "gshare %d %d %d" % (T, R, LEN), o.strip() + e[-200:], "unidentified=0 reused=0 gaps=0 outputs_not_from_own_keystream=0 seedings=1"))
    if not q:
        tx, out = build(["-fsanitize=thread", "-g"], "h_prngconc_tsan")
        if tx:
            for T, R in ((4, 5),):
                r, o, e = vf.run_io([tx], "gshare %d %d 200\n" % (T, R), timeout=600)
                if r != 0 or "WARNING: ThreadSanitizer" in e: fails.append(("ThreadSanitizer (shared Gaussian sampler)", "gshare %d %d" % (T, R), e[-600:], "no data race report"))
            for T, R in ((2, 50), (8, 50), (16, 30)):
                r, o, e = vf.run_io([tx], "stress %d %d\n" % (T, R), timeout=600)
                stress.append((T, R, "tsan:" + o.strip()))
                if r != 0 or "WARNING: ThreadSanitizer" in e: fails.append(("ThreadSanitizer", "stress %d %d" % (T, R), e[-600:], "no data race report"))
    st = {}
    for s, l in lines: st.setdefault(s, set()).add(l)
    for s, ls in sorted(st.items()): ck.stream(s, len(ls))
    ck.stream("free-running stress runs (nonce set = [0,N), one seeding)", max(1, len(stress)), max(2, len(stress)))
    ck.samples = [l[:150] for _, l in lines[:: max(1, len(lines) // 6)]][:6] + [str(s) for s in stress[:2]]
    for s, l, ii, mm in fails[:3]:
        ck.violation("keystream reuse / gap / double seeding or model mismatch under schedule '%s': observed='%s' model='%s'" % (l[:160], ii[:200], mm[:160]), {"stream": s, "schedule": l, "impl": ii, "model": mm}, tag="sched")
    if not fails and (corr or not ck.proof["ok"]):
        ck.violation(("schedule correspondence broken on %d schedules (the property held on each observed run), e.g. '%s' impl='%s' model='%s'" % (len(corr), corr[0][1][:120], corr[0][2][:120], corr[0][3][:120])) if corr
                     else "proof obligation no longer checks: %s" % ck.proof["broken"], {"examples": [c[1] for c in corr[:5]], "broken_obligation": ck.proof.get("broken")}, tag="correspondence", no_input=True)
    ck.assumptions = ["atomicity of std::atomic::fetch_add and the C++11 guarantee that a function-local static is initialised exactly once are trusted",
                      "a thread that would block inside the one-time initialisation is modelled as a no-op step; the cooperative scheduler releases it and requires that it reaches no further point while the owner is inside (25 ms; PASSED-UNSEEDED otherwise)",
                      "real data races are observable only at run time (TSan stress in the thorough tier); the theorem is about the interleaving model"]
    # threads that "sample random polynomials at the same time": the samplers themselves must keep no state of their own (C17 runs every sampler
    # kind concurrently and audits the writable statics of the binary)
    # ... and every request, whatever its length (multi-megabyte ones included), takes exactly one nonce: C13's histories
    vf.run_deps(ck, ['C17', 'C13'])
    return ck.finish(trusted=["coqc 8.16.1 kernel", "extraction + driver.ml", "h_prngconc.cpp cooperative scheduler + hook points (NFLLIB_VERIF)", "ThreadSanitizer (thorough)"])

def replay(ck, rec):
    print("replay schedule:", rec.get("schedule", "")[:300]); return 1
