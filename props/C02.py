# C02 — forward and inverse transforms are exact inverses, linear and canonical.
import vf, ntt_common as nc

BACK = ("serial", "sse", "avx2")
OPS1 = ("fwd", "inv", "rt_fi", "rt_if")

def gen(ck, params, cfgs):
    cases = nc.corpus_cases('C02', cfgs)
    q = ck.quick()
    for (w, n, nm) in cfgs:
        vecs = nc.vec_cases(params, ck.rng, w, n, nm, nrand=(2 if q else 3), full=not q and n <= 64)
        for tag, v in vecs:
            for op in OPS1:
                cases.append(("%s:%s" % (op, tag.split(" e_")[0]), (w, n, nm), "%s %d %d %d %s" % (op, w, n, nm, nc.flat(v))))
        # arbitrary machine words (not reduced): the forward transform still meets its specification (the twist reduces), the inverse
        # has no specification there but the library must equal the source-structured model word for word (lazy butterflies,
        # fused last layers and signed-compare tricks on out-of-range operands)
        B = 1 << w; ps = [params[w]["rows"][cm][0] for cm in range(nm)]
        wild = [("edge words", [[(B - 1, p, 2 * p, 2 * p - 1, 4 * p - 1, B // 2, B // 2 - 1, 0)[(i + cm) % 8] % B for i in range(n)] for cm, p in enumerate(ps)]),
                ("all 2^w-1", [[B - 1] * n for _ in ps])] + [("random words", [[ck.rng.randrange(B) for _ in range(n)] for _ in ps]) for _ in range(2 if q else 4)]
        for tag, v in wild:
            for op in ("fwd", "inv"):
                cases.append(("%s:wild %s" % (op, tag), (w, n, nm), "%s %d %d %d %s" % (op, w, n, nm, nc.flat(v))))
        if n <= 64:
            for tag, v in vecs[-2:]: cases.append(("geneq:structured model = generic model", (w, n, nm), "geneq %d %d %d %s" % (w, n, nm, nc.flat(v))))
        for i in range(0, len(vecs) - 1, 2):
            cases.append(("addfwd:linearity", (w, n, nm), "addfwd %d %d %d %s %s" % (w, n, nm, nc.flat(vecs[i][1]), nc.flat(vecs[i + 1][1]))))
    return cases

def translated_vs_library(ck, params, exes, model):
    """the functions TRANSLATED from the source (initialize, ntt_pow_phi, invntt_pow_invphi of gen/GenLoop.v) evaluated inside Coq on the rows
    of the current tables, against the library itself: validates the translators' reading of the source (a differential test, not a proof)"""
    rng = ck.rng; terms = []; meta = []
    have = sorted({c for (b_, c) in exes if 16 <= c[1] <= 64})
    pick = []
    for w_ in (16, 32, 64):
        cs_ = [c for c in have if c[0] == w_]
        pick += cs_[:1] + ([cs_[-1]] if len(cs_) > 1 else [])
    for (w, n, nm) in pick:
        rows = params[w]["rows"][:nm]
        P = "[%s]" % "; ".join(str(r[0]) for r in rows); Pn = "[%s]" % "; ".join(str(r[1]) for r in rows)
        G = "[%s]" % "; ".join(str(r[2]) for r in rows); IK = "[%s]" % "; ".join(str(r[3]) for r in rows)
        tabs = "roots P Pn invk" if w == 64 else "roots P invk"
        for rep in range(2):
            data = [rng.randrange(rows[cm][0]) if rep else ((rows[cm][0] - 1 - i) % rows[cm][0]) for cm in range(nm) for i in range(n)]
            D = "[%s]" % "; ".join(map(str, data))
            for b in ("serial", "sse", "avx2"):
                t = ("(let P := %s in let Pn := %s in let roots := %s in let invk := %s in let z := fun k => repeat 0 k in "
                     "match gen_initialize_u%d 40%%nat %d (z %d%%nat) (z %d%%nat) (z %d%%nat) (z %d%%nat) (z %d%%nat) (z %d%%nat) (z %d%%nat) %d %s with "
                     "| Some (ph, sph, ipd, ipi, sipi, om, iom) => match gen_ntt_pow_phi_%s_u%d %d %d %s ph sph om P with "
                     "| Some d1 => match gen_invntt_pow_invphi_%s_u%d 40%%nat %d %d d1 iom ipd ipi sipi P (z %d%%nat) with Some (d2, _) => Some (d1 ++ d2) | None => None end "
                     "| None => None end | None => None end)") % (P, Pn, G, IK, w, n, 2 * n * nm, 2 * n * nm, n * nm, n * nm, nm, n * nm, n * nm, nm, tabs, b, w, n, nm, D, b, w, n, nm, n + 1)
                terms.append(t); meta.append((w, n, nm, b, data))
    res, err = vf.coq_eval("C02_translated", "From Coq Require Import ZArith List.\nFrom NTT.gen Require Import GenLoop.\nImport ListNotations.\nLocal Open Scope Z_scope.", terms)
    if err:
        ck.violation("the translated transforms do not evaluate inside Coq: %s" % err[-300:], {"coqc": err}, tag="treval", no_input=True); return 0
    bad = 0
    for (w, n, nm, b, data), r in zip(meta, res):
        cfg = (w, n, nm)
        exe = exes.get((b, cfg)) or exes.get(("serial", cfg))
        if exe is None: continue
        line = "fwd %d %d %d %s" % (w, n, nm, " ".join(map(str, data)))
        rc, o, e = vf.run_io([exe], line + "\n", timeout=120)
        impl = [int(x) for x in o.split()] if rc == 0 else None
        if r is None or impl is None or r[:n * nm] != impl or r[n * nm:] != data:
            bad += 1
            if bad <= 2:
                ck.violation("the source translated on this run (initialize, ntt_pow_phi, invntt_pow_invphi of the %s build, evaluated inside Coq) and the library disagree: case '%s' translated='%s' library='%s'" % (b, line[:120], str(r)[:160], str(impl)[:160]),
                             {"case": line, "backend": b, "translated": r, "library": impl}, tag="treval", no_input=(r is not None and impl is not None and r[n * nm:] == data and False))
    ck.stream("translated initialize / ntt_pow_phi / invntt_pow_invphi evaluated inside Coq vs the library (forward words equal, round trip returns the input)", len(terms), len(terms))
    return len(terms)

def run(ck):
    ok, info = vf.translate()
    params = vf.read_params()
    ck.proof = vf.prove("Properties_C02")
    model, minfo = vf.build_model()
    if not model: raise RuntimeError(minfo)
    cfgs = nc.configs(ck.tier)
    if not ck.proof["ok"] or not ck.quick():
        # degrees above 1024 take the table path of permut.hpp (permut_compute); the quick tier relies on C02_source_permut for it and
        # runs the implementation there only to look for a failing input when an obligation no longer checks
        cfgs = cfgs + [(32, 2048, 1), (32, 4096, 1), (64, 2048, 1)]
    exes, errs = nc.build(cfgs, BACK)
    for b, ch, err in errs:
        ck.violation("harness does not compile for back end %s configs %s" % (b, ch), {"backend": b, "compiler_output": err[-3000:]}, tag="build_" + b, no_input=True)
    cases = gen(ck, params, cfgs)
    fails, corr, nrun = nc.run_cases(ck, cases, exes, model)
    streams = {}
    for s, cfg, l in cases:
        streams.setdefault(s, set()).add(l)
    for s, ls in sorted(streams.items()):
        ck.stream(s, len(ls))
    ck.cov["impl_runs"] = nrun
    ck.cov["configs"] = ["u%d n=%d nm=%d" % c for c in cfgs]
    ck.samples = [l[:200] for _, _, l in cases[:: max(1, len(cases) // 8)]][:8]
    nc.report(ck, fails, corr)
    ck.cov["translated_vs_library"] = translated_vs_library(ck, params, exes, model)
    ck.assumptions = ["list-level lazy transform model (Transform.v/Inverse.v/NTTInst.v) vs nfl::poly::ntt_pow_phi / invntt_pow_invphi, all stored words compared",
                      "SIMD configurations restricted to those the build accepts (n>=8, n>=16 for 16-bit AVX2)"]
    vf.run_deps(ck, ['C03', 'C17'])
    return ck.finish(trusted=["coqc 8.16.1 kernel, vm_compute", "translator dump_params.cpp", "ExtrOcamlBasic extraction + ocaml/driver.ml (zarith I/O and independent spec side)",
                              "h_ntt.cpp harness, g++ 12.2"], extra_cov={"backends": sorted({b for b, _ in exes}), "params_sha": info})

def replay(ck, rec):
    model, _ = vf.build_model()
    line = rec["case"]; t = line.split(); cfg = (int(t[1]), int(t[2]), int(t[3]))
    exes, errs = nc.build([cfg], (rec.get("backend", "serial"),))
    fails, corr, _ = nc.run_cases(ck, [("replay", cfg, line)], exes, model)
    for f in fails: print("impl:", f[3]); print("spec:", f[5])
    print("REPLAY:", "still failing" if fails else ("correspondence differs" if corr else "passes"))
    return 1 if fails else 0
