# C06 — every row of the modulus tables is valid: proof, tied by the params.hpp translator.
import vf, random

def is_prime(n):
    if n < 2: return False
    for q in (2, 3, 5, 7, 11, 13, 17, 19, 23, 29, 31, 37):
        if n % q == 0: return n == q
    d, s = n - 1, 0
    while d % 2 == 0: d //= 2; s += 1
    for a in (2, 3, 5, 7, 11, 13, 17, 19, 23, 29, 31, 37):   # deterministic below 3.3e24
        x = pow(a, d, n)
        if x in (1, n - 1): continue
        for _ in range(s - 1):
            x = x * x % n
            if x == n - 1: break
        else: return False
    return True

def row_failures(w, d, r):
    p, pn, g, ik = r
    md, bits = d["maxdeg"], d["bits"]
    f = []
    if p < 2 or not is_prime(p): f.append("P=%d is not prime" % p)
    if not (2 ** (bits - 1) <= p < 2 ** bits): f.append("P=%d is not a %d-bit number" % (p, bits))
    if p > 0 and (p - 1) % (2 * md) != 0: f.append("P=%d is not 1 mod 2*%d" % (p, md))
    if p > 1:
        if not (0 <= g < p) or pow(g, md, p) != p - 1: f.append("root %d: root^%d != -1 mod %d (order is not 2*maxdeg)" % (g, md, p))
        if not (0 <= ik < p) or ik * md % p != 1: f.append("invkMaxPolyDegree %d is not the inverse of %d mod %d" % (ik, md, p))
        if pn != (2 ** (2 * w) // p) % 2 ** w: f.append("Pn %d != floor(2^%d/P) mod 2^%d = %d" % (pn, 2 * w, w, (2 ** (2 * w) // p) % 2 ** w))
    return f

def search(params):
    """name the failing rows/conjuncts (the failing 'input' of this property is a table row)."""
    found = []
    for w, d in params.items():
        if d["bits"] != d["w"] - 2: found.append({"limb": w, "what": "kModulusBitsize %d != limb-2" % d["bits"]})
        if any(l != d["nmod"] for l in d["lens"]) or len(d["rows"]) != d["nmod"]:
            found.append({"limb": w, "what": "table lengths %s != kMaxNbModuli %d" % (d["lens"], d["nmod"])})
        if d["maxdeg"] & (d["maxdeg"] - 1): found.append({"limb": w, "what": "kMaxPolyDegree %d is not a power of two" % d["maxdeg"]})
        seen = {}
        for i, r in enumerate(d["rows"]):
            if r[0] in seen: found.append({"limb": w, "row": i, "what": "P=%d duplicates row %d" % (r[0], seen[r[0]])})
            seen[r[0]] = i
            for f in row_failures(w, d, r):
                found.append({"limb": w, "row": i, "values": r, "what": f})
    return found

def run(ck):
    ok, info = vf.translate()
    if not ok:
        ck.proof = {"obligations": 1, "discharged": 0, "file": "Properties_C06", "broken": info}
        ck.violation("translator failed: " + info[:200], {"detail": info}, tag="translator", no_input=True)
        return ck.finish()
    params = vf.read_params()
    pr = vf.prove("Properties_C06")
    ck.proof = pr
    nrows = sum(len(d["rows"]) for d in params.values())
    # the search always runs (cheap): an independent numeric re-check of every row, used to name the failing row
    found = search(params)
    ck.stream("rows re-checked numerically (independent Python re-implementation of the row predicate)", nrows)
    for w, d in params.items():
        ck.samples.append({"limb": w, "row0": d["rows"][0] if d["rows"] else None, "nrows": len(d["rows"]), "maxdeg": d["maxdeg"], "bits": d["bits"]})
    if not pr["ok"]:
        if found:
            for f in found[:5]:
                ck.violation("table fact fails: limb %s row %s: %s" % (f.get("limb"), f.get("row"), f["what"]),
                             {"broken_obligation": pr["broken"], "failing_row": f, "all_failures": found[:50],
                              "how_to_replay": "the row is in /repo/include/nfl/params.hpp; ./check C06 re-derives it"},
                             tag="row_l%s_r%s" % (f.get("limb"), f.get("row")))
        else:
            ck.violation("proof obligation no longer checks: " + str(pr["broken"]), {"broken_obligation": pr["broken"], "log": pr["log"][-2000:]},
                         tag="obligation", no_input=True)
    elif found:
        # proof passed but the independent numeric check disagrees: machinery inconsistency, report loudly
        ck.violation("numeric re-check disagrees with the proved checker: %s" % found[0]["what"], {"failures": found[:20]}, tag="inconsistent")
    ck.assumptions = ["the translator dump_params.cpp prints the constexpr tables as g++ evaluates them",
                      "Coq kernel + vm_compute (primality certificates are computed, 16 shards for the 62-bit rows)"]
    return ck.finish(trusted=["coqc 8.16.1 kernel, vm_compute", "harness/dump_params.cpp (translator)", "g++ constexpr evaluation of params.hpp",
                              "MathComp 1.15 (Euler_exp_totient, axiom-free)"],
                     extra_cov={"rows": nrows, "params_sha": info})

def replay(ck, rec):
    vf.translate()
    found = search(vf.read_params())
    for f in found: print("still failing:", f)
    print("REPLAY: %d failing table facts" % len(found))
    return 1 if found else 0
