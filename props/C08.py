# C08 — equality / inequality compare whole polynomials; conversion to bool = "has a non-zero residue".
import vf, ntt_common as nc, expr_common as ec

def gen(ck, params, cfgs):
    cases = []
    q = ck.quick()
    for cfg in cfgs:
        w, n, nm = cfg
        ps = [params[w]["rows"][cm][0] for cm in range(nm)]
        R = lambda: [[ck.rng.randrange(p) for _ in range(n)] for p in ps]
        zero = [[0] * n for _ in ps]
        pairs = []
        base = R()
        pairs.append(("equal", base, base, base))
        pairs.append(("all different", base, [[(x + 1) % p for x in row] for p, row in zip(ps, base)], R()))
        pairs.append(("zero vs zero", zero, zero, zero))
        positions = [(cm, i) for cm in range(nm) for i in range(n)]
        if len(positions) > 40 or q and len(positions) > 16:
            k = 16 if q else 40
            positions = positions[:4] + positions[-4:] + ck.rng.sample(positions[4:-4], k - 8)
        for (cm, i) in positions:
            b1 = [row[:] for row in base]; b1[cm][i] = (b1[cm][i] + 1) % ps[cm]
            pairs.append(("differ exactly at (%d,%d)" % (cm, i), base, b1, zero))
            b2 = [[(x + 1 + j) % p for j, x in enumerate(row)] for p, row in zip(ps, base)]; b2[cm][i] = base[cm][i]
            pairs.append(("equal exactly at (%d,%d)" % (cm, i), base, b2, zero))
            z1 = [row[:] for row in zero]; z1[cm][i] = 1 + ck.rng.randrange(ps[cm] - 1)
            pairs.append(("one non-zero at (%d,%d)" % (cm, i), z1, zero, z1))
            # a single non-zero residue that is a pure power of two (every bit position of the limb that fits below p)
            kbit = ck.rng.choice([k for k in (0, 7, 8, 15, 16, 24, 31, 32, 33, 40, 48, 56, 61) if (1 << k) < ps[cm]][-6:])
            z2 = [row[:] for row in zero]; z2[cm][i] = 1 << kbit
            pairs.append(("one non-zero power of two at (%d,%d)" % (cm, i), z2, zero, z2))
            # a + b == c with c wrong only at one place / right everywhere
            s = [[(x + y) % p for x, y in zip(ra, rb)] for p, ra, rb in zip(ps, base, b2)]
            pairs.append(("sum equal", base, b2, s))
            s2 = [row[:] for row in s]; s2[cm][i] = (s2[cm][i] + 1) % ps[cm]
            pairs.append(("sum differs at (%d,%d)" % (cm, i), base, b2, s2))
        # non-zero polynomials on which an aggregate of the words vanishes (a conversion to bool computed as sum / xor / or of narrowed words
        # instead of a search for a non-zero word answers false on them): words summing to 0 modulo 2^w (and modulo 2^32), equal pairs
        B = 1 << w
        def summing(mod):
            for cm, p in enumerate(ps):
                if n < 5: continue
                last = (-4 * (p - 1)) % mod
                if 0 < last < p:
                    a_ = [row[:] for row in zero]; a_[cm][0] = a_[cm][1] = a_[cm][n // 2] = a_[cm][n - 1] = p - 1; a_[cm][2] = last
                    return a_
            return None
        for mod_, tg in ((B, "2^w"), (1 << 32, "2^32"), (1 << 16, "2^16")):
            if mod_ > B: continue
            a_ = summing(mod_)
            if a_: pairs.append(("non-zero, words sum to 0 modulo %s" % tg, a_, zero, a_))
        x_ = [row[:] for row in zero]; v_ = 1 + ck.rng.randrange(ps[-1] - 1); x_[-1][0] = v_; x_[-1][n - 1] = v_
        if n >= 2: pairs.append(("non-zero, words xor to 0", x_, zero, x_))
        for tag, a, b, c in pairs:
            words = "%s %s %s" % (nc.flat(a), nc.flat(b), nc.flat(c))
            for si, (name, cpp, tree) in enumerate(ec.BOOLS):
                tt = tree.split()
                for kind in ("poly", "polyp"):
                    cases.append(("%s %s: %s" % (name, kind, tag.split(" (")[0].split(" at")[0]), cfg, name, "bool %d %d %d %s %d 0 %s" % (w, n, nm, kind, si, words),
                                  "bool %d %d %d 0 T %d %s %s" % (w, n, nm, len(tt), tree, words)))
    return cases

def run(ck):
    ok, info = vf.translate()
    params = vf.read_params()
    ck.proof = vf.prove("Properties_C08")
    model, minfo = vf.build_model()
    if not model: raise RuntimeError(minfo)
    cfgs = ec.configs(ck.tier)
    exes, errs = ec.build(cfgs, ck.tier)
    for b, w, err in errs:
        ck.violation("expression harness does not compile: backend %s limb %d" % (b, w), {"backend": b, "limb": w, "compiler_output": err[-3000:]}, tag="build_%s_%d" % (b, w), no_input=True)
    cases = gen(ck, params, cfgs)
    fails, corr, nrun = ec.run(ck, cases, exes, model)
    st = {}
    for c in cases: st.setdefault(c[0], set()).add(c[3])
    for s, ls in sorted(st.items()): ck.stream(s, len(ls))
    ck.cov["impl_runs"] = nrun
    ck.samples = [c[3][:160] for c in cases[:: max(1, len(cases) // 8)]][:8]
    for b, stream, line, o, m, s in fails[:3]:
        ck.violation("comparison / bool conversion wrong: backend=%s %s case='%s' impl=%s expected=%s" % (b, stream, line[:140], o, s),
                     {"backend": b, "stream": stream, "case": line, "impl": o, "model": m, "spec": s}, tag="eq_" + b)
    if not fails and (corr or not ck.proof["ok"]):
        ck.violation(("correspondence broken on %d cases, e.g. %s" % (len(corr), corr[0][2][:120])) if corr else "proof obligation no longer checks: %s" % ck.proof["broken"],
                     {"examples": [c[2] for c in corr[:5]], "broken_obligation": ck.proof.get("broken")}, tag="correspondence", no_input=True)
    return ck.finish(trusted=["coqc 8.16.1 kernel", "extraction + driver.ml", "generated h_expr harness (13 comparison shapes, poly and poly_p, 3 back ends)", "source readers: tools/dump_params (tables), cxxloop2coq.py (poly::operator bool), cxxexprbool2coq.py (expr::operator bool)"],
                     extra_cov={"params_sha": info})

def replay(ck, rec):
    print("replay: re-run ./check C08 (case: %s)" % rec.get("case", "")[:200]); return 1
