# C11 — Gaussian sampler: memory safety, exact output count, no randomness reuse, for all parameters and request lengths.
import vf, gauss_common as gc

def run(ck):
    ck.proof = vf.prove("Properties_C11")
    model, minfo = vf.build_model()
    if not model: raise RuntimeError(minfo)
    exe, out = gc.build()
    if not exe:
        ck.violation("h_gauss does not compile", {"compiler_output": out[-3000:]}, tag="build", no_input=True); return ck.finish()
    q = ck.quick(); rng = ck.rng
    # the mpfr_t-centre constructor is in the quick tier too (every variant: both index widths, both depths)
    prms = gc.PARAMS_QUICK + [gc.PARAMS_MORE[1]] + ([] if q else [x for i, x in enumerate(gc.PARAMS_MORE) if i != 1])
    # a security level whose full-precision comparison is longer than 32 words (a fixed-size scratch area sized for the usual lambda = 128 overflows)
    prms = prms + [(3.19, 256, 1024, "0", "d")]
    fails, corr = [], []
    n_cases = 0; samples = []
    for prm in prms:
        for inb, depth in gc.VARIANTS:
            wb = inb // 8; hd = gc.head(inb, depth, prm)
            r, o, e = gc.run_lines(exe, ["g %s 0 T -" % hd])[0]
            if r != 0 or not o:
                fails.append(("construction/destruction", "g %s 0 T -" % hd, "rc=%d %s" % (r, e[-400:]))); continue
            d0 = gc.parse(o); wp = d0["wp"]; bars = [gc.barrier_words(h, wb) for h in d0["barriers"]]
            lines = []
            lens = [0, 1, 2, 3, 5, 8, wp - 1, wp, wp + 1, 64] + ([] if q else [257, 1000, 4096])
            for rlen in lens:
                need = (rlen + 2) * (wp + 2) * 3
                tapes = [("random", [rng.randrange(1 << inb) for _ in range(need)]), ("all-zero", [0] * need), ("all-ones", [(1 << inb) - 1] * need)]
                # directed: the tape is a barrier repeated, so that every comparison runs over its full length (and beyond a short buffer)
                for bi in sorted({0, len(bars) // 2, len(bars) - 1, rng.randrange(len(bars))}):
                    tapes.append(("barrier %d repeated" % bi, (bars[bi] * (need // wp + 1))[:need]))
                    tapes.append(("barrier %d prefix then random" % bi, bars[bi][: max(1, wp // 2)] + [rng.randrange(1 << inb) for _ in range(need)]))
                for tag, ws in tapes:
                    lines.append(("rlen=%s tape=%s" % ("0" if rlen == 0 else ("<wp" if rlen < wp else ">=wp"), tag.split(" ")[0]), "q %s %d T %s" % (hd, rlen, gc.words_hex(ws, wb)), rlen, ws))
            res = gc.run_lines(exe, [l for _, l, _, _ in lines])
            mlines = []
            for (tag, l, rlen, ws), (r, o, e) in zip(lines, res):
                n_cases += 1
                if r != 0 or not o:
                    kind = "AddressSanitizer: heap-buffer-overflow" if "heap-buffer-overflow" in e else ("LeakSanitizer" if "LeakSanitizer" in e else "crash")
                    fails.append(("memory safety", l[:300], "%s (rc=%d): %s" % (kind, r, " ".join(e[e.find("ERROR"):].split())[:400]))); mlines.append(None); continue
                d = gc.parse(o)
                if len(d["out"]) != rlen or d["overrun"]: fails.append(("output count", l[:300], "wrote %d outputs for rlen=%d overrun=%s" % (len(d["out"]), rlen, d["overrun"])))
                if d["exhausted"]: mlines.append(None); continue
                L = d["reqs"][0] // wb if d["reqs"] else 0
                if any(x != d["reqs"][0] for x in d["reqs"]): fails.append(("refill size", l[:300], "requests of different sizes %s" % d["reqs"][:6]))
                mlines.append(("gn %d %d %d %d %d %d B %s T %s" % (depth, wp, d0["vmin"], L, rlen, wb, ",".join(d0["barriers"]), gc.words_hex(ws, wb)), d, l))
            todo = [m for m in mlines if m]
            if todo:
                rc, mout, merr = vf.run_io([model, "gauss"], "\n".join(m[0] for m in todo) + "\n", timeout=1800)
                if rc != 0: raise RuntimeError("model runner failed: " + merr[-400:])
                for (ml, d, l), mo in zip(todo, mout.rstrip("\n").split("\n")):
                    mo = mo.split("#")[0]
                    mouts = [int(x) for x in mo.split("|")[0].split()]
                    oob = "oob=1" in mo
                    starts = (mo.split("starts=")[1].split() or [""])[0] if "starts=" in mo else ""
                    if oob: fails.append(("read beyond the scratch buffer (model replay of the same tape)", l[:300], "a full comparison reaches past the %d-word buffer; starts=%s" % (d["reqs"][0] // wb, starts[:60])))
                    elif mouts != d["out"]: corr.append((l[:300], d["out"][:8], mouts[:8]))
            # ---- several requests to ONE sampler object: a request must behave as the same request to a fresh object fed with the rest of the tape
            # (no state carried from one call to the next: a kept scratch buffer, a stale tail ...), whatever the lengths of the earlier requests
            seqs = []
            for l1, l2 in ((1000, 10), (300, 1), (64, 2), (wp + 3, 1), (5, 64)) if not q else ((300, 1), (64, 2), (1000, 10)):
                need = (l1 + l2 + 4) * (wp + 2) * 3
                for tag, ws in (("random", [rng.randrange(1 << inb) for _ in range(need)]), ("barrier repeated", (bars[len(bars) // 2] * (need // wp + 1))[:need]),
                                ("barrier prefix then random", sum(([*bars[rng.randrange(len(bars))][: wp - 1], rng.randrange(1 << inb)] for _ in range(need // wp + 1)), [])[:need])):
                    seqs.append((tag, l1, l2, ws))
            res1 = gc.run_lines(exe, ["s%d %s %d T %s" % (l2, hd, l1, gc.words_hex(ws, wb)) for _, l1, l2, ws in seqs])
            fresh = []
            for (tag, l1, l2, ws), (r, o, e) in zip(seqs, res1):
                n_cases += 1
                if r != 0 or not o:
                    fails.append(("memory safety (two requests to one object)", "s%d %s %d T ..." % (l2, hd, l1), "rc=%d %s" % (r, " ".join(e[e.find("ERROR"):].split())[:400]))); fresh.append(None); continue
                d = gc.parse(o)
                if d["exhausted"] or d["first"] % wb: fresh.append(None); continue
                fresh.append((d, "q %s %d T %s" % (hd, l2, gc.words_hex(ws[d["first"] // wb:], wb))))
            res2 = gc.run_lines(exe, [f[1] for f in fresh if f])
            it = iter(res2)
            for (tag, l1, l2, ws), f in zip(seqs, fresh):
                if not f: continue
                r, o, e = next(it)
                if r != 0 or not o: continue
                d2 = gc.parse(o)
                if d2["exhausted"]: continue
                if f[0]["out"] != d2["out"] or f[0]["reqs"] != d2["reqs"]:
                    fails.append(("a request after another one on the same object differs from the same request on a fresh object (randomness or state carried over)",
                                  "s%d %s %d T %s" % (l2, hd, l1, gc.words_hex(ws, wb)[:200]), "second call: out=%s reqs=%s; fresh object on the rest of the tape: out=%s reqs=%s" % (f[0]["out"][:8], f[0]["reqs"][:6], d2["out"][:8], d2["reqs"][:6])))
            samples.append("q %s <rlen> T <tape>  (wp=%d, %d barriers, L observed from the request size)" % (hd, wp, d0["nb"]))
    ck.stream("request lengths 0..64 (thorough ..4096) x {random, all-zero, all-ones, barrier-repeated, barrier-prefix} tapes x 12 sampler instances, under ASan/LSan/UBSan", n_cases)
    ck.samples = samples[:6]
    for s, l, v in fails[:3]:
        ck.violation("%s: %s; case '%s'" % (s, v[:400], l[:200]), {"stream": s, "case": l, "what": v}, tag="gauss_mem")
    if not fails and (corr or not ck.proof["ok"]):
        ck.violation(("outputs differ from the model on %d cases, e.g. '%s' impl=%s model=%s" % (len(corr), corr[0][0][:120], corr[0][1], corr[0][2])) if corr
                     else "proof obligation no longer checks: %s" % ck.proof["broken"], {"examples": [c[0] for c in corr[:5]], "broken_obligation": ck.proof.get("broken")}, tag="correspondence", no_input=True)
    ck.assumptions = ["the allocator, MPFR internals and the floating-point termination of newton_raphson are exercised (ASan/LSan/UBSan), not modelled",
                      "the scratch-buffer length is observed (size of the first random request); the float computation of the multiplier is not modelled"]
    return ck.finish(trusted=["coqc 8.16.1 kernel", "extraction + driver.ml", "h_gauss.cpp (#define private public, scripted tape)", "AddressSanitizer/LeakSanitizer/UBSan"],
                     extra_cov={"partial": "index logic proved (reads_in_bounds, consecutive, exact count); allocator/MPFR by sanitizers"})

def replay(ck, rec):
    print("replay case:", rec.get("case", "")[:300]); return 1
