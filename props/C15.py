# C15 — coefficient-list setters follow the documented length and reduction rules.
import vf, ntt_common as nc

def configs(tier):
    c = [(16, 4, 2), (32, 4, 1), (32, 2, 3), (64, 4, 2), (64, 1, 2), (16, 8, 1)]
    if tier != "quick": c += [(32, 8, 3), (64, 8, 5), (16, 16, 2), (32, 1, 1)]
    return c

def gen(ck, params, cfgs):
    cases = []; rng = ck.rng
    for cfg in cfgs:
        w, n, nm = cfg
        ps = [params[w]["rows"][cm][0] for cm in range(nm)]
        B = 1 << w; head = "%d %d %d" % cfg
        def val(): return rng.choice([0, 1, ps[0] - 1, ps[0], ps[-1] + 1, B - 1, rng.randrange(B), rng.randrange(B)])
        for k in range(0, n * nm + 3):
            vals = [val() for _ in range(k)]
            for pk in ("poly", "polyp"):
                for reduce in (1, 0):
                    for src in ("range", "ptr") + (("array",) if k == n else ()) + (("ctor",) if pk == "poly" and (k <= n or k == n * nm) else ()):
                        if k == 0 and src == "ptr": continue
                        cases.append(("native %s k%sn reduce=%d" % (src, "<=" if k <= n else ("=n*nm" if k == n * nm else ">"), reduce), cfg,
                                      "set %s %s %s %d native %s" % (head, pk, src, reduce, " ".join(map(str, vals)))))
            big = [rng.choice([0, -1, 1, -ps[0], ps[0] * ps[-1] + 3, 2 ** 700 + 11, -(2 ** 700), rng.randrange(-B * B, B * B)]) for _ in range(k)]
            for pk in ("poly", "polyp"):
                for src in ("range",) + (("array",) if k == n else ()):
                    cases.append(("mpz %s k%sn" % (src, "<=" if k <= n else ("=n*nm" if k == n * nm else ">")), cfg, "set %s %s %s 1 mpz %s" % (head, pk, src, " ".join(map(str, big)))))
        for v in (0, 1, ps[0] - 1, ps[0], B - 1, rng.randrange(B)):
            for pk in ("poly", "polyp"):
                cases.append(("scalar", cfg, "set %s %s scalar 1 native %d" % (head, pk, v)))
                cases.append(("scalar unreduced", cfg, "set %s %s scalar 0 native %d" % (head, pk, v)))
                cases.append(("scalar assign", cfg, "set %s %s assign 1 native %d" % (head, pk, v)))
        # single big integers through every entry point; values around the word sizes (a shortcut through a native word must not narrow them)
        single = [0, -1, 2 ** 700, -(2 ** 701) - 5, ps[0], B, B + 12345, 2 ** 16, 2 ** 32, 2 ** 32 + ps[-1] + 1, 2 ** 63 + 11, 2 ** 64 - 1, 2 ** 64, 2 ** 64 + 1, -(2 ** 32), -(2 ** 64) + 1, -ps[-1], rng.randrange(2 ** 64)]
        for v in single:
            for src in ("scalar", "scalar_t", "assign", "assign_t", "ctor", "ctor_t"):
                if src != "scalar" and v in (2 ** 700, -(2 ** 701) - 5) : continue
                cases.append(("mpz scalar" if src == "scalar" else "mpz single integer, other entry points", cfg, "set %s poly %s 1 mpz %d" % (head, src, v)))
    return cases

def run(ck):
    ok, info = vf.translate()
    params = vf.read_params()
    ck.proof = vf.prove("Properties_C15")
    model, minfo = vf.build_model()
    if not model: raise RuntimeError(minfo)
    cfgs = configs(ck.tier)
    exes, errs = nc.build(cfgs, ("serial",), name="h_set", src="h_set.cpp")
    for b, ch, err in errs:
        ck.violation("setter harness does not compile (%s)" % (ch,), {"compiler_output": err[-3000:]}, tag="build", no_input=True)
    cases = gen(ck, params, cfgs)
    fails, corr, nrun = nc.run_cases(ck, cases, exes, model, family="set")
    st = {}
    for s, cfg, l in cases: st.setdefault(s, set()).add(l)
    for s, ls in sorted(st.items()): ck.stream(s, len(ls))
    ck.cov["impl_runs"] = nrun
    ck.samples = [l[:160] for _, _, l in cases[:: max(1, len(cases) // 8)]][:8]
    nc.report(ck, fails, corr, what="setter")
    return ck.finish(trusted=["coqc 8.16.1 kernel", "extraction + driver.ml", "h_set.cpp harness", "source readers: tools/dump_params (tables), cxxloop2coq.py (setters), cxxcreators2coq.py (entry points of poly)"], extra_cov={"params_sha": info})

def replay(ck, rec):
    model, _ = vf.build_model()
    line = rec["case"]; t = line.split(); cfg = (int(t[1]), int(t[2]), int(t[3]))
    exes, errs = nc.build([cfg], ("serial",), name="h_set", src="h_set.cpp")
    fails, corr, _ = nc.run_cases(ck, [("replay", cfg, line)], exes, model, family="set")
    print("REPLAY:", "still failing" if fails else "passes"); return 1 if fails else 0
