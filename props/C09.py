# C09 — everything that creates a polynomial yields canonical, CRT-consistent residues.
import vf, samp_common as sc, ntt_common as nc

CFGS = [(16, 8, 2), (32, 8, 2), (32, 4, 3), (64, 4, 2), (64, 8, 3)]

def gen(ck, params):
    rng = ck.rng; q = ck.quick(); cases = []
    for cfg in CFGS:
        w, n, nm = cfg; wb = w // 8; ps = [params[w]["rows"][cm][0] for cm in range(nm)]; B2 = 1 << w
        head = "%d %d %d" % cfg
        def tape_words(ws, nb): return "".join(sc.le(x % (1 << (8 * nb)), nb) for x in ws)
        # uniform: boundary words per modulus (mask, p-1, p, p+1, all ones, 0) and random
        specials = [0, 1, B2 - 1, B2 // 2, B2 // 4, B2 // 4 - 1] + [p + d for p in ps for d in (-1, 0, 1)] + [(1 << (p.bit_length())) - 1 for p in ps]
        for r in range(3 if q else 20):
            ws = [rng.choice(specials) if rng.random() < 0.6 else rng.randrange(B2) for _ in range(n * nm)]
            cases.append(("uniform: boundary words (mask, p-1, p, p+1, all-ones) and random", cfg, "uniform %s T %s" % (head, tape_words(ws, wb))))
        cases.append(("uniform: all-ones tape", cfg, "uniform %s T %s" % (head, "ff" * (n * nm * wb))))
        # bounded: B around powers of two, amplifier 1,2,3; words hitting 2B-2, 2B-1, B-1, B, mask
        # ... and bounds at and next to every power of two the limb can hold (the mask is the bit length of 2B-1: one bit more or less is a
        # different distribution), with words at the mask, one bit above it, and all-ones
        pows = [b_ for k_ in range(5, w - 2) for b_ in (2 ** k_ - 1, 2 ** k_, 2 ** k_ + 1) if b_ < min(ps) and (not q or k_ % 3 == (w // 16) % 3 or k_ >= w - 16)]
        for B in [1, 2, 3, 4, 5, 8, 9, 1000, 4095, 4096, 4097] + ([] if q else [2 ** 10 - 1, 2 ** 12 + 1, 2 ** 13]) + pows + [min(ps) - 1, min(ps), min(ps) + 1]:
            for A in (1, 2, 3):
                if B < min(ps) and A * (B - 1) >= min(ps): continue     # inadmissible amplifier (stated hypothesis of the theorem)
                if B >= min(ps) and A != 1: continue
                m = (1 << ((2 * B - 1).bit_length())) - 1 if B >= 1 else 0
                sp = [0, B - 1, B, 2 * B - 2, 2 * B - 1, m, m - 1, B2 - 1, (2 * m + 1) % B2, (m + 1) % B2, (m + 2 * B) % B2]
                ws = [rng.choice(sp) if rng.random() < 0.7 else rng.randrange(B2) for _ in range(n)]
                cases.append(("bounded: B=%s A=%d boundary words" % ("p_min+-1" if B >= min(ps) - 1 else ("2^k+-1" if B > 8 else "small"), A), cfg, "bounded %s %d %d T %s" % (head, B, A, tape_words(ws, wb))))
        # ternary: every byte value for a few thresholds
        for rho in [0, 1, 2, 3, 126, 127, 128, 254, 255]:
            for start in range(0, 256, n):
                cases.append(("ternary: every byte value x threshold", cfg, "zo %s %d T %s" % (head, rho, "".join("%02x" % ((start + i) % 256) for i in range(n)))))
        # fixed weight: random index/sign words
        for h in range(1, n + 1):
            for r in range(2 if q else 10):
                words = [rng.randrange(0, 3 * n) if rng.random() < 0.7 else rng.randrange(1 << 64) for _ in range(h * (n + 4))]
                cases.append(("fixed weight: random tapes", cfg, "hwt %s %d T %s" % (head, h, tape_words(words, 8))))
        # Gaussian wrapper through the real sampler (small sigma, centres that make negative / positive / large values), amplifiers incl. large ones
        for (sigma, centre) in ((3.0, 0.0), (2.0, -40.0), (2.0, 1000.25), (1.5, -3000.5)):
            for A in (1, 2, 3, 5, 7, 257) + (() if q else (65537, 1000003)):
                if A * (abs(centre) + 14 * sigma) >= min(ps): continue
                tape = "".join("%02x" % rng.randrange(256) for _ in range(n * 40))
                cases.append(("gaussian wrapper: amplifier x negative/positive/large samples", cfg, "gauss %s %d %s %s T %s" % (head, A, repr(sigma), repr(centre), tape)))
    return cases

def run(ck):
    ok, info = vf.translate(); params = vf.read_params()
    ck.proof = vf.prove("Properties_C09")
    model, minfo = vf.build_model()
    if not model: raise RuntimeError(minfo)
    exes, errs = sc.build(CFGS)
    for b, ch, err in errs: ck.violation("sampler harness does not compile", {"compiler_output": err[-3000:]}, tag="build", no_input=True)
    cases = gen(ck, params)
    res = sc.run(ck, cases, exes, model)
    fails, corr, gmodel = [], [], []
    for (stream, cfg, line), st, words, tail, mline in res:
        w, n, nm = cfg; ps = [params[w]["rows"][cm][0] for cm in range(nm)]
        dist = line.split()[0]
        if "EXHAUSTED" in tail: continue
        if st == "ok":
            v = sc.verdict(dist, words, ps, n)
            if v: fails.append((stream, line, v, mline)); continue
        impl = (st + " " + " ".join(map(str, words))).strip()
        if dist == "gauss":
            gmodel.append((stream, line, impl, "gauss %s %s" % (" ".join(line.split()[1:5]), tail.split("noise=")[1].rstrip(",").replace(",", " ") if "noise=" in tail else "")))
            continue
        if impl != mline: corr.append((stream, line, impl, mline))
    if gmodel:   # second model pass: the Gaussian wrapper on the noise vector the real sampler produced
        rc, mout, merr = vf.run_io([model, "samp"], "\n".join(g_[3] for g_ in gmodel) + "\n", timeout=600)
        for (stream, line, impl, ml), mo in zip(gmodel, mout.rstrip("\n").split("\n")):
            mm = " ".join(mo.split("#")[0].split())
            if impl != mm: corr.append((stream, line, impl, mm))
    st = {}
    for s, cfg, l in cases: st.setdefault(s, set()).add(l)
    for s, ls in sorted(st.items()): ck.stream(s, len(ls))
    ck.samples = [l[:140] for _, _, l in cases[:: max(1, len(cases) // 8)]][:8]
    for s, l, v, m in fails[:3]:
        ck.violation("sampler output violates the property: %s; case '%s'" % (v, l[:160]), {"stream": s, "case": l, "verdict": v, "model": m}, tag="sampler")
    if not fails and (corr or not ck.proof["ok"]):
        ck.violation(("correspondence broken on %d cases (outputs canonical and consistent), e.g. '%s' impl='%s' model='%s'" % (len(corr), corr[0][1][:120], corr[0][2][:100], corr[0][3][:100])) if corr
                     else "proof obligation no longer checks: %s" % ck.proof["broken"], {"examples": [c[1] for c in corr[:5]], "broken_obligation": ck.proof.get("broken")}, tag="correspondence", no_input=True)
    ck.assumptions = ["nfl::fastrandombytes replaced at link time by a tape reader (lib/prng not linked)", "floor(log2(double)) + 1 modelled by Z.log2 + 1 (checked by the all-ones tapes: the mask is observable)",
                      "bounded sampler: amplifier with A*(B-1) >= p_min is inadmissible (hypothesis of the theorem; the code does not check it)",
                      "Gaussian wrapper: proved (gauss_store_consistent); its correspondence runs in C10/C11's harness", "constants / lists / big integers: C15"]
    vf.run_deps(ck, ['C15', 'C17'])
    return ck.finish(trusted=["coqc 8.16.1 kernel", "extraction + driver.ml", "h_samplers.cpp (scripted tape)", "translator"], extra_cov={"params_sha": info})

def replay(ck, rec):
    print("replay case:", rec.get("case", "")[:300]); return 1
