# C05 — serial, SSE and AVX2 builds compute bit-identical results: cross-build differential on one workload
# (functors in every lane, transforms, products, expressions, comparisons, CRT, serialised evaluation-form data).
import vf, gen_ops, ntt_common as nc, expr_common as ec, C01, C02, C07, C08

BACK = ("serial", "sse", "avx2")

def run(ck):
    ok, info = vf.translate()
    params = vf.read_params()
    ck.proof = vf.prove("Properties_C05")
    q = ck.quick()
    diffs = []   # (family, case, {backend: output})
    lane_diffs = []
    nrun = 0
    # ---- 1. functors: every value printed by every build must equal the serial functor's value
    res = vf.build_many([dict(name="h_ops", srcs=["h_ops.cpp"], backend=b) for b in ("serial", "opt", "sse", "avx2")])
    exes = {b: e for b, (e, err) in zip(("serial", "opt", "sse", "avx2"), res) if e}
    for b, (e, err) in zip(("serial", "opt", "sse", "avx2"), res):
        if not e: ck.violation("h_ops does not compile for %s" % b, {"compiler_output": err[-2000:]}, tag="build_ops_" + b, no_input=True)
    cases = gen_ops.gen_cases(params, ck.rng, rows_per_w=(3 if q else 40), nrand=(20 if q else 10))
    data = "\n".join(l for _, l in cases) + "\n"
    outs = {b: vf.run_io([e], data)[1].rstrip("\n").split("\n") for b, e in exes.items()}
    for i, (stream, line) in enumerate(cases):
        vals = set()
        for b in outs:
            if i < len(outs[b]): vals.update(v for v in outs[b][i].split() if v != "skip")
        nrun += len(outs)
        if len(vals) > 1:
            # the butterfly works on lazy residues that no caller sees: a difference there breaks the correspondence
            # (the transforms below decide whether a result differs); every other functor's value is a user-visible result
            if line.startswith("bfly"): lane_diffs.append(("all", stream, line, str({b: outs[b][i] for b in outs}), "identical words in every build"))
            else: diffs.append(("functor " + stream, line, {b: outs[b][i] for b in outs}))
    ck.stream("functors: scalar vs SSE lanes vs AVX2 lanes (4 builds)", len(cases))
    # ---- 1b. the per-lane Coq models of the vector kernels (SimdKernels.v, extracted) against the vector lanes of the SSE/AVX2 builds
    model, minfo = vf.build_model()
    nlane = 0
    if model:
        rc, mout, merr = vf.run_io([model, "lanes"], data)
        ml = mout.rstrip("\n").split("\n")
        if rc != 0 or len(ml) != len(cases):
            ck.violation("lane-model runner failed: %s" % merr[-300:], {"stderr": merr[-1000:]}, tag="lanemodel", no_input=True)
        else:
            for i, (stream, line) in enumerate(cases):
                if ml[i] in ("na", "none"): continue
                for b in ("sse", "avx2"):
                    if b in outs and i < len(outs[b]):
                        vec = [v for v in outs[b][i].split()[1:] if v != "LANE_MISMATCH"]
                        nlane += len(vec)
                        if any(v != ml[i] for v in vec):
                            lane_diffs.append((b, stream, line, outs[b][i], ml[i]))
    ck.stream("vector lanes of the SSE/AVX2 kernels vs the extracted per-lane models (addmod, submod, mulmod_shoup, muladd_shoup, butterfly)", max(nlane, 1))
    # ---- 2. transforms / products / expressions / comparisons: identical case files through the three builds
    def cross(name, cases, exes, get_exe):
        nonlocal nrun
        groups = {}
        for idx, c in enumerate(cases):
            for key, val in exes.items():
                b, cfg = key
                if cfg == c[1]:
                    exe = get_exe(val, c)
                    if exe: groups.setdefault((b, exe), []).append(idx)
        out = {}
        for (b, exe), idxs in groups.items():
            rc, o, err = vf.run_io([exe], "\n".join(cases[i][-1 if name == "ntt" else 3] for i in idxs) + "\n")
            ls = o.rstrip("\n").split("\n")
            if rc != 0 or len(ls) != len(idxs):
                ck.violation("%s harness crashed on %s" % (name, b), {"stderr": err[-1000:]}, tag="crash_%s_%s" % (name, b)); continue
            for i, l in zip(idxs, ls): out.setdefault(i, {})[b] = " ".join(l.split())
        for i, d in out.items():
            nrun += len(d)
            if len(set(d.values())) > 1:
                diffs.append((name + " " + cases[i][0], cases[i][-1 if name == "ntt" else 3], d))
    cfgs = [c for c in nc.configs(ck.tier) if c[1] >= 16 or c[0] == 64 and c[1] >= 4]   # configurations all three builds accept
    nexes, errs = nc.build(cfgs, BACK)
    for b, ch, err in errs: ck.violation("h_ntt does not compile for %s" % b, {"compiler_output": err[-2000:]}, tag="build_ntt_" + b, no_input=True)
    ncases = C02.gen(ck, params, cfgs) + C01.gen(ck, params, cfgs)
    cross("ntt", ncases, nexes, lambda exe, c: exe)
    ck.stream("transforms, round trips, linearity, products, circuits (3 builds)", len(ncases))
    ecfgs = [c for c in ec.configs(ck.tier) if c[1] >= ec.lanes("avx2", c[0])]
    eexes, errs = ec.build(ecfgs, ck.tier)
    for b, w, err in errs: ck.violation("h_expr does not compile for %s/%d" % (b, w), {"compiler_output": err[-2000:]}, tag="build_expr_%s" % b, no_input=True)
    ecases = C07.gen(ck, params, ecfgs) + C08.gen(ck, params, ecfgs)
    cross("expr", ecases, eexes, lambda val, c: val[0] if (c[2] is None or c[2] in val[1][c[3].split()[4]]) else None)
    ck.stream("expression shapes and comparisons (3 builds)", len(ecases))
    # ---- 3. serialised evaluation-form data written by one build is read identically by the others
    scfgs = [(16, 16, 2), (32, 8, 2), (64, 8, 2)]
    sexes, errs = nc.build(scfgs, BACK, name="h_interchange", src="h_interchange.cpp")
    for b, ch, err in errs: ck.violation("h_interchange does not compile for %s" % b, {"compiler_output": err[-2000:]}, tag="build_ser_" + b, no_input=True)
    nser = 0
    for cfg in scfgs:
        w, n, nm = cfg
        for tag, v in nc.vec_cases(params, ck.rng, w, n, nm, nrand=2, full=False)[:8]:
            blobs = {}
            for b in BACK:
                if (b, cfg) in sexes:
                    blobs[b] = vf.run_io([sexes[(b, cfg)]], "write %d %d %d %s\n" % (w, n, nm, nc.flat(v)))[1].strip()
            if len(set(blobs.values())) > 1: diffs.append(("serialised evaluation form differs", "write %d %d %d %s" % (w, n, nm, nc.flat(v)), blobs))
            for bw, blob in blobs.items():
                reads = {br: vf.run_io([sexes[(br, cfg)]], "read %d %d %d %s\n" % (w, n, nm, blob))[1].strip() for br in BACK if (br, cfg) in sexes}
                nser += len(reads); nrun += len(reads)
                if len(set(reads.values())) > 1: diffs.append(("data written by %s read differently" % bw, "read %d %d %d %s" % (w, n, nm, blob), reads))
    ck.stream("evaluation-form polynomial serialised by build X, inverse-transformed by build Y", max(nser, 1))
    ck.cov["impl_runs"] = nrun
    ck.samples = [c[1][:150] for c in cases[::max(1, len(cases) // 4)]][:4] + [c[-1][:150] for c in ncases[::max(1, len(ncases) // 4)]][:4]
    for fam, case, d in diffs[:3]:
        ck.violation("builds disagree: %s case='%s' outputs=%s" % (fam, case[:140], {k: v[:80] for k, v in d.items()}), {"family": fam, "case": case, "outputs": d}, tag="xbuild")
    for b, stream, line, got, want in lane_diffs[:3]:
        # the lane model is proved equal to the scalar functor: a vector lane that differs from it while all builds agree is a broken
        # correspondence (no property failure exhibited); when builds disagree the xbuild violation above carries the input
        ck.violation("vector lane differs from the per-lane model: backend=%s case='%s' impl='%s' lane model=%s" % (b, line, got, want),
                     {"backend": b, "stream": stream, "case": line, "impl": got, "lane_model": want}, tag="lanemodel", no_input=not diffs)
    if not diffs and not lane_diffs and not ck.proof["ok"]:
        ck.violation("proof obligation no longer checks: %s" % ck.proof["broken"], {"broken_obligation": ck.proof["broken"]}, tag="obligation", no_input=True)
    ck.assumptions = ["configurations restricted to those all three builds accept", "big-integer conversion and serialisation contain no back-end specific code (single definition in the model; compared here)"]
    return ck.finish(trusted=["coqc 8.16.1 kernel", "g++ 12.2 intrinsics on this CPU (AVX2 available)", "harnesses h_ops/h_ntt/h_expr/h_interchange"], extra_cov={"params_sha": info})

def replay(ck, rec):
    print("replay: re-run ./check C05; case:", rec.get("case", "")[:200]); return 1
