# C07 — expression templates evaluate to their coefficient-wise meaning (any shape, any aliasing, any back end).
import vf, ntt_common as nc, expr_common as ec

def gen(ck, params, cfgs):
    cases = []
    q = ck.quick()
    for cfg in cfgs:
        w, n, nm = cfg
        for vi, (vtag, a, b, c) in enumerate(ec.value_sets(params, ck.rng, w, n, nm, 1 if q else 3)):
            words = "%s %s %s" % (nc.flat(a), nc.flat(b), nc.flat(c))
            for si, (name, cpp, tree, ok) in enumerate(ec.SHAPES):
                tt = tree.split()
                for kind in ("poly", "polyp", "polyps"):
                    for dst in (0, 1, 2, 3):
                        if q and vi > 0 and dst in (0, 3) and kind != "poly": continue
                        if kind == "polyps" and vi > 1: continue
                        cases.append(("assign:%s dst=%s %s [%s]" % (name, "dabc"[dst], kind, vtag), cfg, name,
                                      "assign %d %d %d %s %d %d %s" % (w, n, nm, kind, si, dst, words),
                                      "assign %d %d %d %d T %d %s %s" % (w, n, nm, dst, len(tt), tree, words)))
                    if vi < 2:
                        cases.append(("ctor:%s %s" % (name, kind), cfg, name, "ctor %d %d %d %s %d 0 %s" % (w, n, nm, kind, si, words),
                                      "ctor %d %d %d 0 T %d %s %s" % (w, n, nm, len(tt), tree, words)))
            for si in (0, 1, 2):
                tt = ec.SHAPES[si][2].split()
                cases.append(("helper:%s" % ec.SHAPES[si][0], cfg, ec.SHAPES[si][0], "helper %d %d %d poly %d 0 %s" % (w, n, nm, si, words),
                              "helper %d %d %d 0 T %d %s %s" % (w, n, nm, len(tt), ec.SHAPES[si][2], words)))
    return cases

def run(ck):
    ok, info = vf.translate()
    params = vf.read_params()
    ck.proof = vf.prove("Properties_C07")
    model, minfo = vf.build_model()
    if not model: raise RuntimeError(minfo)
    cfgs = ec.configs(ck.tier)
    exes, errs = ec.build(cfgs, ck.tier)
    for b, w, err in errs:
        ck.violation("expression harness does not compile: backend %s limb %d (a shape the library used to accept is now rejected, or vice versa)" % (b, w),
                     {"backend": b, "limb": w, "compiler_output": err[-3000:]}, tag="build_%s_%d" % (b, w), no_input=True)
    cases = gen(ck, params, cfgs)
    fails, corr, nrun = ec.run(ck, cases, exes, model)
    st = {}
    for c in cases: st.setdefault(c[0].split(" [")[0], set()).add(c[3])
    for s, ls in sorted(st.items()): ck.stream(s, len(ls))
    ck.cov["impl_runs"] = nrun
    ck.cov["shapes"] = [s[1] for s in ec.SHAPES]
    ck.cov["accept_reject_table"] = {k: [n for n, okk in v.items() if not okk] for k, v in ec.table().items()}
    ck.samples = [c[3][:160] for c in cases[:: max(1, len(cases) // 8)]][:8]
    for b, stream, line, o, m, s in fails[:3]:
        ck.violation("expression value differs from coefficient-wise meaning: backend=%s %s case='%s' impl='%s' spec='%s'" % (b, stream, line[:120], o[:120], s[:120]),
                     {"backend": b, "stream": stream, "case": line, "impl": o, "model": m, "spec": s}, tag="expr_" + b)
    if not fails and (corr or not ck.proof["ok"]):
        ck.violation(("correspondence broken on %d cases, e.g. %s" % (len(corr), corr[0][2][:120])) if corr else "proof obligation no longer checks: %s" % ck.proof["broken"],
                     {"examples": [c[2] for c in corr[:5]], "broken_obligation": ck.proof.get("broken")}, tag="correspondence", no_input=True)
    ck.assumptions = ["expressions must be consumed in the full-expression that builds them (expr holds references)",
                      "shapes rejected by the compiler for a back end are outside the claim (table in coverage.accept_reject_table)"]
    vf.run_deps(ck, ['C03'])
    return ck.finish(trusted=["coqc 8.16.1 kernel", "extraction + driver.ml", "generated h_expr harness (22 shapes x 4 destinations x poly/poly_p x 3 back ends)", "source readers: tools/dump_params (tables), cxx2coq.py (functors), cxxassign2coq.py (operator=(expr)), cxxopnodes2coq.py (expression nodes)"],
                     extra_cov={"params_sha": info})

def replay(ck, rec):
    print("replay: re-run ./check C07 (case: %s)" % rec.get("case", "")[:200]); return 1
