# C01 — NTT-domain product equals negacyclic ring multiplication (and circuits in evaluation form).
import vf, ntt_common as nc

BACK = ("serial", "sse", "avx2")
OPS2 = ("mul", "mulshoup", "circuit")

def gen(ck, params, cfgs):
    cases = nc.corpus_cases('C01', cfgs)
    q = ck.quick()
    for (w, n, nm) in cfgs:
        vecs = nc.vec_cases(params, ck.rng, w, n, nm, nrand=(2 if q else 3), full=False)
        pairs = [(vecs[i], vecs[j]) for i in range(len(vecs)) for j in ((i, (i * 7 + 3) % len(vecs)) if q else (i, (i * 7 + 3) % len(vecs), len(vecs) - 1 - i))]
        units = [v for v in vecs if v[0].startswith("unit")]
        pairs += [(u, v) for u in (units[:3] + units[-2:] if q else units) for v in (units[-3:] if q else units)]          # x^i * x^j: wrap-around sign when i+j >= n
        seen = set()
        for (ta, va), (tb, vb) in pairs:
            key = (nc.flat(va), nc.flat(vb))
            if key in seen: continue
            seen.add(key)
            for op in OPS2:
                cases.append(("%s:%s x %s" % (op, ta.split(" e_")[0], tb.split(" e_")[0]), (w, n, nm), "%s %d %d %d %s %s" % (op, w, n, nm, key[0], key[1])))
    return cases

def run(ck):
    ok, info = vf.translate()
    params = vf.read_params()
    ck.proof = vf.prove("Properties_C01")
    model, minfo = vf.build_model()
    if not model: raise RuntimeError(minfo)
    cfgs = nc.configs(ck.tier)
    exes, errs = nc.build(cfgs, BACK)
    for b, ch, err in errs:
        ck.violation("harness does not compile for back end %s configs %s" % (b, ch), {"backend": b, "compiler_output": err[-3000:]}, tag="build_" + b, no_input=True)
    cases = gen(ck, params, cfgs)
    fails, corr, nrun = nc.run_cases(ck, cases, exes, model)
    streams = {}
    for s, cfg, l in cases:
        streams.setdefault(s, set()).add(l)
    for s, ls in sorted(streams.items()):
        ck.stream(s, len(ls))
    ck.cov["impl_runs"] = nrun
    ck.cov["configs"] = ["u%d n=%d nm=%d" % c for c in cfgs]
    ck.samples = [l[:200] for _, _, l in cases[:: max(1, len(cases) // 8)]][:8]
    nc.report(ck, fails, corr, what="transform-domain product")
    ck.assumptions = ["list-level lazy transform model (Transform.v/Inverse.v/NTTInst.v) vs nfl::poly::ntt_pow_phi / invntt_pow_invphi, all stored words compared",
                      "SIMD configurations restricted to those the build accepts (n>=8, n>=16 for 16-bit AVX2)"]
    vf.run_deps(ck, ['C03', 'C14', 'C17'])
    return ck.finish(trusted=["coqc 8.16.1 kernel, vm_compute", "translator dump_params.cpp", "ExtrOcamlBasic extraction + ocaml/driver.ml (zarith I/O and independent spec side)",
                              "h_ntt.cpp harness, g++ 12.2"], extra_cov={"backends": sorted({b for b, _ in exes}), "params_sha": info})

def replay(ck, rec):
    model, _ = vf.build_model()
    line = rec["case"]; t = line.split(); cfg = (int(t[1]), int(t[2]), int(t[3]))
    exes, errs = nc.build([cfg], (rec.get("backend", "serial"),))
    fails, corr, _ = nc.run_cases(ck, [("replay", cfg, line)], exes, model)
    for f in fails: print("impl:", f[3]); print("spec:", f[5])
    print("REPLAY:", "still failing" if fails else ("correspondence differs" if corr else "passes"))
    return 1 if fails else 0
