# C04 — CRT lift: unique representative in [0,Q), mutual inverses mod Q, ring isomorphism.
import vf, ntt_common as nc

def configs(tier):
    q = [(16, 4, 1), (16, 4, 2), (32, 4, 1), (32, 4, 3), (32, 4, 11), (64, 4, 2), (64, 4, 7), (64, 2, 15), (64, 2, 1)]
    # many moduli (the reduction shift has a log2(nmoduli) term): a spread of counts, compared with the independent zarith CRT
    q += [(32, 2, nm) for nm in (17, 20, 29, 30, 33)] + [(64, 2, nm) for nm in (18, 25, 32, 33)]
    if tier != "quick":
        q += [(32, 4, 2), (32, 4, 7), (32, 4, 64), (32, 2, 291), (64, 4, 3), (64, 4, 7), (64, 4, 64), (64, 2, 1000), (16, 64, 2)]
    return q

def gen(ck, params, cfgs):
    cases = []
    rng = ck.rng
    for cfg in cfgs:
        w, n, nm = cfg
        ps = [params[w]["rows"][cm][0] for cm in range(nm)]
        Q = 1
        for p in ps: Q *= p
        def per(f): return [[f(p, cm, i) % p for i in range(n)] for cm, p in enumerate(ps)]
        pats = [("all p-1", per(lambda p, cm, i: p - 1)), ("zero", per(lambda p, cm, i: 0)), ("one", per(lambda p, cm, i: 1)),
                ("one-hot modulus 0", per(lambda p, cm, i: (p - 1) if cm == 0 else 0)), ("one-hot last modulus", per(lambda p, cm, i: 1 if cm == nm - 1 else 0)),
                ("random", per(lambda p, cm, i: rng.randrange(p))), ("random2", per(lambda p, cm, i: rng.randrange(p))),
                ("top of the range (accumulator near its bound)", per(lambda p, cm, i: p - 1 - rng.randrange(max(1, p >> 5)))),
                ("top of the range 2", per(lambda p, cm, i: p - 1 - rng.randrange(max(1, p >> 4)))),
                ("zero residue at modulus 0 only", per(lambda p, cm, i: 0 if cm == 0 else rng.randrange(p)))]
        head = "%d %d %d" % cfg
        for tag, v in pats:
            cases.append(("lift:" + tag, cfg, "lift %s %s" % (head, nc.flat(v))))
            cases.append(("lift_unlift:" + tag, cfg, "lift_unlift %s %s" % (head, nc.flat(v))))
            cases.append(("lift_inplace (reused array):" + tag, cfg, "lift_inplace %s %s" % (head, nc.flat(v))))
        ints = [0, 1, Q - 1, Q, Q + 1, -1, -Q, -Q - 1, -5, 2 ** 63, -(2 ** 63), 2 ** 64 - 1, -(2 ** 64) + 1, 2 ** 64, -(2 ** 64), 2 ** 700, -(2 ** 700) + 12345, Q // 2, rng.randrange(Q), -rng.randrange(Q * Q), ps[0], -ps[-1]]
        for k in range(0, len(ints), n):
            chunk = (ints[k:k + n] + [7] * n)[:n]
            cases.append(("unlift: integers of any sign/magnitude", cfg, "unlift %s %s" % (head, " ".join(map(str, chunk)))))
            cases.append(("unlift through set_mpz(array)", cfg, "unlift_set %s %s" % (head, " ".join(map(str, chunk)))))
            cases.append(("unlift through the mpz_class-array constructor", cfg, "unlift_ctor %s %s" % (head, " ".join(map(str, chunk)))))
            cases.append(("rt: integer -> residues -> integer = v mod Q", cfg, "rt %s %s" % (head, " ".join(map(str, chunk)))))
        for (ta, a), (tb, b) in ((pats[5], pats[6]), (pats[0], pats[0]), (pats[0], pats[2]), (pats[3], pats[5])):
            for op in ("ringadd", "ringsub", "ringmul"):
                cases.append(("%s: %s , %s" % (op, ta, tb), cfg, "%s %s %s %s" % (op, head, nc.flat(a), nc.flat(b))))
    return cases

def run(ck):
    ok, info = vf.translate()
    params = vf.read_params()
    ck.proof = vf.prove("Properties_C04")
    model, minfo = vf.build_model()
    if not model: raise RuntimeError(minfo)
    cfgs = configs(ck.tier)
    exes, errs = nc.build(cfgs, ("serial",), name="h_crt", src="h_crt.cpp")
    if not ck.quick():
        e2, er2 = nc.build([c for c in cfgs if c[1] >= 16 or c[0] == 64], ("avx2",), name="h_crt", src="h_crt.cpp"); exes.update(e2); errs += er2
    for b, ch, err in errs:
        ck.violation("CRT harness does not compile (%s, %s)" % (b, ch), {"compiler_output": err[-3000:]}, tag="build_" + b, no_input=True)
    cases = gen(ck, params, cfgs)
    fails, corr, nrun = nc.run_cases(ck, cases, exes, model, family="crt")
    st = {}
    for s, cfg, l in cases: st.setdefault(s.split(":")[0], set()).add(l)
    for s, ls in sorted(st.items()): ck.stream(s, len(ls))
    ck.cov["impl_runs"] = nrun
    ck.cov["configs"] = ["u%d n=%d nm=%d" % c for c in cfgs]
    ck.cov["model_compared_up_to_nmoduli"] = 12
    ck.samples = [l[:200] for _, _, l in cases[:: max(1, len(cases) // 8)]][:8]
    nc.report(ck, fails, [c for c in corr if "?" not in c[4]], what="CRT conversion")
    ck.assumptions = ["GMP functions modelled by their documented meaning on Z (mpz_fdiv_ui = floor residue, mpz_tdiv_q_2exp on non-negatives = floor shift, mpz_invert = inverse in [0,p))",
                      "extracted model compared for <= 12 moduli (bit-serial Z arithmetic); beyond that the real library is compared with the independent zarith CRT only"]
    vf.run_deps(ck, ['C15', 'C01'])
    return ck.finish(trusted=["coqc 8.16.1 kernel", "extraction + driver.ml (zarith spec side: Z.invert-based CRT)", "h_crt.cpp harness, GMP", "translator"], extra_cov={"params_sha": info})

def replay(ck, rec):
    model, _ = vf.build_model()
    line = rec["case"]; t = line.split(); cfg = (int(t[1]), int(t[2]), int(t[3]))
    exes, errs = nc.build([cfg], ("serial",), name="h_crt", src="h_crt.cpp")
    fails, corr, _ = nc.run_cases(ck, [("replay", cfg, line)], exes, model, family="crt")
    print("REPLAY:", "still failing" if fails else "passes"); return 1 if fails else 0
