# Shared by C01, C02, C05: configurations, harness build, case generation and comparison for the transform API.
import os, vf

TN = {16: "uint16_t", 32: "uint32_t", 64: "uint64_t"}

def admissible(backend, w, n):
    """configurations the build accepts (static_asserts of the SIMD expression/NTT code)."""
    if backend in ("serial", "opt") or w == 64:
        return True
    if backend == "sse":
        return n >= 8
    if backend == "avx2":
        return n >= (16 if w == 16 else 8)
    return False

def configs(tier):
    if tier == "quick":
        return ([(16, n, nm) for n, nm in ((1, 1), (2, 2), (4, 1), (8, 2), (16, 1), (64, 2))] +
                [(32, n, nm) for n, nm in ((1, 2), (2, 1), (4, 2), (8, 1), (16, 3), (64, 1))] +
                [(64, n, nm) for n, nm in ((1, 1), (2, 2), (4, 1), (8, 3), (32, 1))])
    return ([(16, n, nm) for n in (1, 2, 4, 8, 16, 32, 64, 128, 256, 512) for nm in (1, 2)] +
            [(32, n, nm) for n in (1, 2, 4, 8, 16, 32, 64, 256) for nm in (1, 3)] + [(32, 1024, 1), (32, 8, 291)] +
            [(64, n, nm) for n in (1, 2, 4, 8, 16, 64, 256) for nm in (1, 2)] + [(64, 1024, 1), (64, 8, 1000)])

def build(cfgs, backends, name="h_ntt", src="h_ntt.cpp", opt="-O1", extra=(), suffix=""):
    jobs, keys = [], []
    hdir = os.path.join(vf.BUILD, "harness"); os.makedirs(hdir, exist_ok=True)
    for b in backends:
        cs = [c for c in cfgs if admissible(b, c[0], c[1])]
        # split into chunks so that compilation parallelises
        chunks = [cs[i::4] for i in range(4)]
        for ci, ch in enumerate(chunks):
            if not ch: continue
            hp = os.path.join(hdir, "%s_cfg_%s_%d.h" % (name, b, ci))
            open(hp, "w").write("#define CONFIGS " + " ".join("X(%s,%d,%d)" % (TN[w], n, nm) for w, n, nm in ch) + "\n")
            jobs.append(dict(name=name, srcs=[src], backend=b, out_name="%s_%s%s_%d" % (name, b, suffix, ci), extra=["-w", '-DNTT_CFG_H="%s"' % hp] + list(extra), opt=opt))
            keys.append((b + suffix, ci, ch))
    res = vf.build_many(jobs)
    out = {}   # (backend, cfg) -> exe
    errs = []
    for (b, ci, ch), (exe, err) in zip(keys, res):
        if exe:
            for c in ch: out[(b, c)] = exe
        else:
            errs.append((b, ch, err))
    return out, errs

def vec_cases(params, rng, w, n, nm, nrand, full):
    """list of (tag, [per-modulus list]) single-operand inputs, boundary-directed."""
    ps = [params[w]["rows"][cm][0] for cm in range(nm)]
    def per(f): return [[f(p, i) % p for i in range(n)] for p in ps]
    out = [("zero", per(lambda p, i: 0)), ("all p-1", per(lambda p, i: p - 1)), ("ones", per(lambda p, i: 1))]
    pos = range(n) if full or n <= 8 else sorted({0, 1, n // 2 - 1, n // 2, n - 1, rng.randrange(n)})
    for j in pos:
        out.append(("unit e_%d" % j, per(lambda p, i, j=j: 1 if i == j else 0)))
    if n >= 2:
        out.append(("halves p-1/1 (second-layer sums hit 2p)", per(lambda p, i: p - 1 if i < n // 2 else 1)))
        out.append(("alternating 0/p-1", per(lambda p, i: (p - 1) * (i & 1))))
        out.append(("ramp near p", per(lambda p, i: p - 1 - i)))
    for _ in range(nrand):
        out.append(("random", [[rng.randrange(p) for _ in range(n)] for p in ps]))
        out.append(("sparse random", [[rng.randrange(p) if rng.random() < 0.15 else 0 for _ in range(n)] for p in ps]))
    return out

def corpus_cases(pid, cfgs):
    """minimised past failures / boundary witnesses; always run first."""
    out = []
    d = os.path.join(vf.ROOT, "corpus", pid)
    if os.path.isdir(d):
        for f in sorted(os.listdir(d)):
            for line in open(os.path.join(d, f)):
                t = line.split()
                if len(t) > 4 and not line.startswith("#"):
                    cfg = (int(t[1]), int(t[2]), int(t[3]))
                    if cfg in cfgs: out.append(("corpus:" + f, cfg, line.strip()))
    return out

def flat(v):
    return " ".join(str(x) for cm in v for x in cm)

def run_cases(ck, cases, exes, model, family="ntt", timeout=None):
    """cases: list of (stream, cfg, line). exes: {(backend,cfg): exe}. Returns (fails, corr, nrun)."""
    if timeout is None: timeout = 1800 if ck.tier == "quick" else 20000     # the thorough tier runs thousands of large-degree cases through the bit-serial model
    data = "\n".join(l for _, _, l in cases) + "\n"
    rc, mout, merr = vf.run_io([model, family], data, timeout=timeout)
    if rc != 0:
        raise RuntimeError("model runner failed: " + merr[-500:])
    mlines = mout.rstrip("\n").split("\n")
    assert len(mlines) == len(cases), (len(mlines), len(cases))
    fails, corr, nrun = [], [], 0
    byexe = {}
    for idx, (stream, cfg, line) in enumerate(cases):
        for (b, c), exe in exes.items():
            if c == cfg:
                byexe.setdefault((b, exe), []).append(idx)
    for (b, exe), idxs in byexe.items():
        sub = "\n".join(cases[i][2] for i in idxs) + "\n"
        rc, iout, ierr = vf.run_io([exe], sub, timeout=timeout)
        ilines = iout.rstrip("\n").split("\n")
        if rc != 0 or len(ilines) != len(idxs):
            ck.violation("harness crashed (backend %s, rc=%s): %s" % (b, rc, ierr[-300:]), {"backend": b, "stderr": ierr[-2000:], "first_case": cases[idxs[0]][2][:300]}, tag="crash_" + b)
            continue
        for i, il in zip(idxs, ilines):
            nrun += 1
            m, s = [" ".join(x.split()) for x in mlines[i].split("#")]
            il = " ".join(il.split())
            stream, cfg, line = cases[i]
            if "?" not in s and il != s:
                fails.append((b, stream, line, il, m, s))
            elif il != m:
                corr.append((b, stream, line, il, m, s))
    return fails, corr, nrun

def report(ck, fails, corr, what="transform"):
    for b, stream, line, il, m, s in fails[:3]:
        ck.violation("%s result differs from its specification: backend=%s stream='%s' case='%s' impl='%s' spec='%s'" % (what, b, stream, line[:160], il[:160], s[:160]),
                     {"backend": b, "stream": stream, "case": line, "impl": il, "model": m, "spec": s}, tag="ntt_" + b)
    if not fails and (corr or not ck.proof["ok"]):
        if corr:
            msg = "correspondence broken (impl != model while impl == spec) on %d cases, e.g. backend=%s case='%s'" % (len(corr), corr[0][0], corr[0][2][:160])
        else:
            msg = "proof obligation no longer checks: %s" % ck.proof["broken"]
        ck.violation(msg, {"correspondence_stream": corr[0][1] if corr else None, "broken_obligation": ck.proof.get("broken"),
                           "examples": [{"backend": c[0], "case": c[2], "impl": c[3], "model": c[4]} for c in corr[:5]]}, tag="correspondence", no_input=True)
