# C07/C08/C05: expression shapes (C++ text <-> prefix tree for the model), harness generator, cases.
import os, vf, ntt_common as nc

# (name, C++ expression over a,b,c,s (s = compute_shoup(b), precomputed), prefix tree, simd_ok)
SHAPES = [
    ("add",        "a + b",                          "add a b", True),
    ("sub",        "a - b",                          "sub a b", True),
    ("mul",        "a * b",                          "mul a b", True),
    ("add3l",      "a + b + c",                      "add add a b c", True),
    ("add3r",      "a + (b + c)",                    "add a add b c", True),
    ("addsub",     "(a + b) - c",                    "sub add a b c", True),
    ("subsub",     "a - (b - c)",                    "sub a sub b c", True),
    ("subaa",      "a - a",                          "sub a a", True),
    ("muladd",     "a + b * c",                      "add a mul b c", True),
    ("muladd2",    "a * b + c",                      "add mul a b c", True),
    ("mulsub",     "a * b - c * a",                  "sub mul a b mul c a", True),
    ("mul3",       "a * b * c",                      "mul mul a b c", True),
    ("shoup",      "nfl::shoup(a * b, s)",           "shoup3 a b s", True),
    ("addshoup",   "c + nfl::shoup(a * b, s)",       "add c shoup3 a b s", True),
    ("shoupsub",   "nfl::shoup(a * b, s) - c",       "sub shoup3 a b s c", True),
    ("shoupcs",    "nfl::shoup(a * b, nfl::compute_shoup(b))", "shoup3 a b cshoup b", True),
    ("cshoup",     "nfl::compute_shoup(a)",          "cshoup a", True),
    ("deep",       "((a + b) - (c + a)) + (b - c)",  "add sub add a b add c a sub b c", True),
    ("addmulser",  "(a + b) * c",                    "mul add a b c", False),
    ("prodsums",   "(a + b) * (c - a)",              "mul add a b sub c a", False),
    ("cshoupsum",  "nfl::compute_shoup(a + b)",      "cshoup add a b", False),
    ("shoupsum",   "nfl::shoup((a + c) * b, s)",     "shoup3 add a c b s", False),
]
BOOLS = [("eq", "a == b", "eq a b"), ("neq", "a != b", "neq a b"), ("boolsum", "a - b", "nz sub a b"), ("boolpoly", None, "nz a"),
         ("eqexpr", "(a + b) == c", "eq add a b c"), ("neqexpr", "a != (b + c)", "neq a add b c"),
         ("eqself", "a == a", "eq a a"), ("neqself", "a != a", "neq a a"), ("eqcopy", "a == P(a)", "eq a a"), ("neqcopy", "a != P(a)", "neq a a"),
         ("eqexpr2", "c == (a + b)", "eq c add a b"), ("neqexpr2", "(a - b) != c", "neq sub a b c"), ("boolmul", "a * b", "nz mul a b")]

HEAD = r'''
#include <cstdio>
#include <cstdlib>
#include <string>
#include <vector>
#include <iostream>
#include <sstream>
#include <nfl.hpp>
#include "tools.h"
typedef unsigned long long ull;
template <class P> static void put(P& a, const std::vector<ull>& v, size_t off) {
  for (size_t cm = 0; cm < P::nmoduli; cm++) for (size_t i = 0; i < P::degree; i++) a(cm, i) = (typename P::value_type)v[off + cm * P::degree + i];
}
template <class P> static void show(std::ostringstream& os, P const& a) {
  for (size_t cm = 0; cm < P::nmoduli; cm++) for (size_t i = 0; i < P::degree; i++) os << (ull)a(cm, i) << " ";
}
'''

def _family(K, shapes, bools):
    s = "template <class P> static void assign_shape_%s(int shape, P& d, P const& a, P const& b, P const& c, P const& s) {\n  switch (shape) {\n" % K
    for i, (name, cpp, tree, ok) in shapes:
        s += "    case %d: d = %s; break;\n" % (i, cpp)
    s += "    default: abort();\n  }\n}\n"
    s += "template <class P> static void ctor_shape_%s(int shape, std::ostringstream& os, P const& a, P const& b, P const& c, P const& s) {\n  switch (shape) {\n" % K
    for i, (name, cpp, tree, ok) in shapes:
        s += "    case %d: { P* d = alloc_aligned<P, 32>(1, %s); show(os, *d); free_aligned(1, d); } break;\n" % (i, cpp)
    s += "    default: abort();\n  }\n}\n"
    s += "template <class P> static int bool_shape_%s(int shape, P const& a, P const& b, P const& c) {\n  switch (shape) {\n" % K
    for i, (name, cpp, tree) in bools:
        s += ("    case %d: return as_bool(a);\n" % i) if cpp is None else ("    case %d: return (bool)(%s) ? 1 : 0;\n" % (i, cpp))
    s += "    default: abort();\n  }\n}\n"
    s += RUN.replace("@K@", K)
    return s

RUN = r'''
template <class P> static void run_@K@(const std::string& op, int shape, int dst, const std::vector<ull>& v, std::ostringstream& os) {
  static P* x = alloc_aligned<P, 32>(5);
  P &d = x[0], &a = x[1], &b = x[2], &c = x[3], &s = x[4];
  const size_t sz = P::degree * P::nmoduli;
  put(a, v, 0); put(b, v, sz); put(c, v, 2 * sz);
  for (size_t cm = 0; cm < P::nmoduli; cm++) for (size_t i = 0; i < P::degree; i++) d(cm, i) = (typename P::value_type)(7 + i + cm);
  s = nfl::compute_shoup(b);
  if (op == "bool") { os << bool_shape_@K@<P>(shape, a, b, c); return; }
  if (op == "ctor") { ctor_shape_@K@<P>(shape, os, a, b, c, s); return; }
  if (op == "helper") { helper(shape, d, a, b, os); return; }
  P& D = dst == 0 ? d : dst == 1 ? a : dst == 2 ? b : c;
  // "@K@" == "polyps": the destination handle shares its payload with another live handle when the statement runs
  P* keep = (std::string("@K@") == "polyps") ? new P(D) : 0;
  std::ostringstream before; if (keep) show(before, *keep);
  assign_shape_@K@<P>(shape, D, a, b, c, s);
  show(os, d); os << "| "; show(os, a); os << "| "; show(os, b); os << "| "; show(os, c);
  if (keep) { std::ostringstream after; show(after, *keep); if (after.str() != before.str()) os << " SHARED-COPY-CHANGED"; delete keep; }
}
'''

PRE = r'''
template <class T, size_t N, size_t M> static int as_bool(nfl::poly<T, N, M> const& a) { return (bool)a ? 1 : 0; }
template <class T, size_t N, size_t M> static int as_bool(nfl::poly_p<T, N, M> const& a) { return (bool)a.poly_obj() ? 1 : 0; }
// the add/sub/mul helper functions of the documentation exist for plain polynomials only
template <class T, size_t N, size_t M> static void helper(int shape, nfl::poly<T, N, M>& d, nfl::poly<T, N, M> const& a, nfl::poly<T, N, M> const& b, std::ostringstream& os) {
  if (shape == 0) nfl::add(d, a, b); else if (shape == 1) nfl::sub(d, a, b); else nfl::mul(d, a, b);
  show(os, d);
}
template <class T, size_t N, size_t M> static void helper(int, nfl::poly_p<T, N, M>&, nfl::poly_p<T, N, M> const&, nfl::poly_p<T, N, M> const&, std::ostringstream& os) { os << "skip"; }
'''

def gen_source(fam, cfgs):
    """fam: {"poly": (shapes, bools), "polyp": (shapes, bools)} with (index, entry) lists"""
    s = HEAD + PRE
    for K, (shapes, bools) in fam.items():
        s += _family(K, shapes, bools)
    s += r'''
int main() {
  std::string line; std::ostringstream os;
  while (std::getline(std::cin, line)) {
    std::istringstream is(line);
    std::string op, kind; unsigned w, n, nm; int shape, dst;
    if (!(is >> op >> w >> n >> nm >> kind >> shape >> dst)) continue;
    std::vector<ull> v; ull x; while (is >> x) v.push_back(x);
    bool done = false;
'''
    tn = nc.TN
    for (w, n, nm) in cfgs:
        s += '    if (!done && w == %d && n == %d && nm == %d) { done = true; ' % (w, n, nm)
        if "poly" in fam: s += 'if (kind == "poly") run_poly<nfl::poly<%s,%d,%d> >(op, shape, dst, v, os); ' % (tn[w], n, nm)
        if "polyp" in fam: s += 'if (kind == "polyp") run_polyp<nfl::poly_p<%s,%d,%d> >(op, shape, dst, v, os); ' % (tn[w], n, nm)
        if "polyps" in fam: s += 'if (kind == "polyps") run_polyps<nfl::poly_p<%s,%d,%d> >(op, shape, dst, v, os); ' % (tn[w], n, nm)
        s += "}\n"
    s += '    if (!done) os << "noconfig";\n    os << "\\n";\n  }\n  fputs(os.str().c_str(), stdout);\n  return 0;\n}\n'
    return s

BACK = ("serial", "sse", "avx2")

import json
def table():
    return json.load(open(os.path.join(vf.ROOT, "expr_table.json")))

def lanes(backend, w):
    return 1 if backend == "serial" else (16 if backend == "sse" else 32) * 8 // w

def configs(tier):
    base = [(16, 16, 2), (32, 8, 2), (64, 8, 2), (32, 4, 1), (64, 1, 2), (16, 2, 1)]
    if tier != "quick":
        base += [(16, 64, 1), (32, 64, 3), (64, 32, 1), (32, 16, 1), (16, 32, 2), (64, 2, 3)]
    return base

def build(cfgs, tier):
    """one TU per (backend, limb width); shapes per kind from the committed accept/reject table expr_table.json."""
    hdir = os.path.join(vf.BUILD, "harness"); os.makedirs(hdir, exist_ok=True)
    tab = table()
    jobs, keys = [], []
    for b in BACK:
        for w in (16, 32, 64):
            cs = [c for c in cfgs if c[0] == w and c[1] >= lanes(b, w)]
            if not cs: continue
            fam, names = {}, {}
            for K in ("poly", "polyp", "polyps"):
                acc = tab["%s/%d/%s" % (b, w, "polyp" if K == "polyps" else K)]
                fam[K] = ([(i, s) for i, s in enumerate(SHAPES) if acc[s[0]]], [(i, s) for i, s in enumerate(BOOLS) if acc[s[0]]])
                names[K] = {s[0] for s in SHAPES + BOOLS if acc[s[0]]}
            src = gen_source(fam, cs)
            p = os.path.join(hdir, "h_expr_%s_%d.cpp" % (b, w)); open(p, "w").write(src)
            jobs.append(dict(name="h_expr", srcs=[p], backend=b, out_name="h_expr_%s_%d" % (b, w), extra=["-w"]))
            keys.append((b, w, cs, names))
    res = vf.build_many(jobs)
    exes, errs = {}, []
    for (b, w, cs, names), (exe, err) in zip(keys, res):
        if exe:
            for c in cs: exes[(b, c)] = (exe, names)
        else: errs.append((b, w, err))
    return exes, errs

def value_sets(params, rng, w, n, nm, nrand):
    ps = [params[w]["rows"][cm][0] for cm in range(nm)]
    def per(f): return [[f(p, i) % p for i in range(n)] for p in ps]
    R = lambda: [[rng.randrange(p) for _ in range(n)] for p in ps]
    sets = [("all p-1", per(lambda p, i: p - 1), per(lambda p, i: p - 1), per(lambda p, i: p - 1)),
            ("a+b = p", None, None, None), ("zeros/ones", per(lambda p, i: 0), per(lambda p, i: 1), per(lambda p, i: 0))]
    a = R(); sets[1] = ("a+b = p, c = a", a, [[(p - x) % p for x in row] for p, row in zip(ps, a)], a)
    # operands on the rounding boundary of a precomputed quotient: b * 2^w = -s (mod p) for small s (floor(b*2^w/p) is then one below an
    # exact multiple: any quotient computed with less than full precision rounds up there), and a with a*b = -1 (mod p)
    B = 1 << w
    bb = [[(-(1 + (i % 8))) * pow(B % p, p - 2, p) % p for i in range(n)] for p in ps]
    aa = [[(p - pow(x, p - 2, p)) % p if x else 1 for x in row] for p, row in zip(ps, bb)]
    sets.append(("quotient rounding boundary b*2^w = -s mod p, a*b = -1", aa, bb, per(lambda p, i: p - 1 - i)))
    sets.append(("quotient rounding boundary a*2^w = -s mod p (the quotient of a itself is observed)", bb, aa, per(lambda p, i: i)))
    for _ in range(nrand): sets.append(("random", R(), R(), R()))
    return sets

def run(ck, cases, exes, model, timeout=None):
    """cases: (stream, cfg, shape_name or None, harness_line, model_line)"""
    mdata = "\n".join(c[4] for c in cases) + "\n"
    if timeout is None: timeout = 900 if ck.tier == "quick" else 20000
    rc, mout, merr = vf.run_io([model, "expr"], mdata, timeout=timeout)
    if rc != 0: raise RuntimeError("model runner failed: " + merr[-500:])
    mlines = mout.rstrip("\n").split("\n")
    assert len(mlines) == len(cases), (len(mlines), len(cases))
    norm = lambda s: " ".join(s.split())
    fails, corr, nrun = [], [], 0
    groups = {}
    for idx, c in enumerate(cases):
        for (b, cfg), (exe, names) in exes.items():
            kind = c[3].split()[4]
            if cfg == c[1] and (c[2] is None or c[2] in names[kind]):
                groups.setdefault((b, exe), []).append(idx)
    for (b, exe), idxs in groups.items():
        rc, iout, ierr = vf.run_io([exe], "\n".join(cases[i][3] for i in idxs) + "\n", timeout=timeout)
        il = iout.rstrip("\n").split("\n")
        if rc != 0 or len(il) != len(idxs):
            ck.violation("expression harness crashed (backend %s rc=%s) %s" % (b, rc, ierr[-300:]), {"backend": b, "stderr": ierr[-2000:]}, tag="crash_" + b); continue
        for i, out in zip(idxs, il):
            if out.strip() == "skip": continue
            nrun += 1
            m, s = [norm(x) for x in mlines[i].split("#")]
            o = norm(out)
            if o != s: fails.append((b, cases[i][0], cases[i][3], o, m, s))
            elif o != m: corr.append((b, cases[i][0], cases[i][3], o, m, s))
    return fails, corr, nrun
