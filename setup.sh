#!/bin/sh
# Build the framework offline from files on disk: translator -> full Coq .vo build -> extracted model runner.
set -e
cd "$(dirname "$0")"
mkdir -p build coq/gen evidence replays
python3 - <<'PY'
import sys; sys.path.insert(0, 'lib')
import vf
ok, info = vf.translate()
print("translate:", ok, info)
vf.coq_makefile()
PY
( cd coq && timeout 3000 make -k -j16 2>&1 | grep -v 'Warning\|notation-over\|already used\|^COQDEP\|^$' | tail -40 )
python3 - <<'PY'
import sys; sys.path.insert(0, 'lib')
import vf
print("model:", vf.build_model())
PY
echo setup done
