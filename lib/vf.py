# Shared machinery for /verif/check: translate -> prove -> extract -> build harness -> correspond -> verdict -> evidence.
import os, sys, re, json, time, subprocess, hashlib, random, shutil, fcntl

sys.set_int_max_str_digits(0)      # big-integer cases (1000 moduli) exceed Python's default 4300-digit conversion limit
ROOT = os.path.dirname(os.path.dirname(os.path.abspath(__file__)))
REPO = os.environ.get("VERIF_REPO", "/repo")
# VERIF_WORK (optional): a private copy of the mutable state (Coq objects, build products, evidence, replays), so that
# several runs (e.g. against different scratch worktrees of the repository, VERIF_REPO) do not disturb each other.
WORK = os.environ.get("VERIF_WORK", ROOT)
if WORK != ROOT and not os.path.isdir(os.path.join(WORK, "coq")):
    os.makedirs(os.path.join(WORK, "build", "model"), exist_ok=True)
    subprocess.run(["rsync", "-a", os.path.join(ROOT, "coq") + "/", os.path.join(WORK, "coq") + "/"], check=True)
    if os.path.isdir(os.path.join(ROOT, "build", "model")):
        subprocess.run(["rsync", "-a", os.path.join(ROOT, "build", "model") + "/", os.path.join(WORK, "build", "model") + "/"], check=False)
# the OCaml driver is snapshotted with the Coq sources it is compiled against (an isolated run must not see half of a later edit)
if WORK != ROOT and not os.path.isdir(os.path.join(WORK, "ocaml")):
    subprocess.run(["rsync", "-a", os.path.join(ROOT, "ocaml") + "/", os.path.join(WORK, "ocaml") + "/"], check=True)
OCAML = os.path.join(WORK, "ocaml")
BUILD = os.path.join(WORK, "build")
COQ = os.path.join(WORK, "coq")
NCPU = os.cpu_count() or 4

STD_AXIOMS = {  # axioms declared by Coq's standard library itself; may appear, must be reported
    "ClassicalDedekindReals.sig_not_dec", "ClassicalDedekindReals.sig_forall_dec",
    "FunctionalExtensionality.functional_extensionality_dep", "Classical_Prop.classic",
    "Eqdep.Eq_rect_eq.eq_rect_eq", "ProofIrrelevance.proof_irrelevance", "JMeq.JMeq_eq",
    "ClassicalEpsilon.constructive_indefinite_description", "PropExtensionality.propositional_extensionality",
}
FORBIDDEN = re.compile(r"\b(Admitted|admit|Axiom|Axioms|Parameter|Parameters|Conjecture|Hypothesis|Hypotheses|Variable|Variables|Context)\b|Unset Guard|bypass_check|type-in-type|impredicative-set|Admit Obligations")


def log(*a):
    print(*a, flush=True)


def sh(cmd, timeout=600, cwd=None, env=None, stdin=None):
    """run a command (list or shell string); returns (rc, stdout+stderr)."""
    e = dict(os.environ)
    if env:
        e.update(env)
    try:
        p = subprocess.run(cmd, shell=isinstance(cmd, str), cwd=cwd, env=e, input=stdin,
                           stdout=subprocess.PIPE, stderr=subprocess.STDOUT, timeout=timeout, text=True, errors="replace")
        return p.returncode, p.stdout
    except subprocess.TimeoutExpired as ex:
        out = ex.stdout or ""
        if isinstance(out, bytes):
            out = out.decode(errors="replace")
        return 124, out + "\n[timeout after %ss]" % timeout


SHARDABLE = {"ntt", "expr", "ops", "lanes", "crt", "samp", "gauss", "polyp", "set", "serial", "rb"}

def _run_model(cmd, data, timeout, cwd, e):
    # the extracted model recurses on unary nat / long lists: give it an unlimited stack
    cmd = ["bash", "-c", 'ulimit -s unlimited 2>/dev/null; exec "$0" "$@"'] + cmd
    try:
        p = subprocess.run(cmd, cwd=cwd, env=e, input=data, stdout=subprocess.PIPE, stderr=subprocess.PIPE, timeout=timeout, text=True, errors="replace")
        return p.returncode, p.stdout, p.stderr
    except subprocess.TimeoutExpired as ex:
        return 124, "", "[timeout]"

def run_io(cmd, data, timeout=900, cwd=None, env=None):
    """run cmd with `data` on stdin; returns (rc, stdout, stderr)."""
    e = dict(os.environ)
    if env:
        e.update(env)
    if isinstance(cmd, list) and cmd and cmd[0].endswith("/model/driver"):
        # one output line per input line, no state across lines: shard large inputs over the cores (order restored)
        lines = data.split("\n")
        if lines and lines[-1] == "": lines = lines[:-1]
        if len(cmd) > 1 and cmd[1] in SHARDABLE and len(lines) >= 32 and all(l.strip() for l in lines) and not os.environ.get("VERIF_NO_SHARD"):
            from concurrent.futures import ThreadPoolExecutor
            n = min(NCPU, max(1, len(lines) // 8))
            parts = [lines[i::n] for i in range(n)]
            def one(ls): return _run_model(cmd, "\n".join(ls) + "\n", timeout, cwd, e)
            with ThreadPoolExecutor(n) as ex: res = list(ex.map(one, parts))
            bad = [r for r in res if r[0] != 0]
            if bad: return bad[0]
            outs = [r[1].split("\n") for r in res]
            outs = [o[:-1] if o and o[-1] == "" else o for o in outs]
            if any(len(o) != len(pt) for o, pt in zip(outs, parts)): return 1, "", "sharded model run: line count mismatch"
            merged = [None] * len(lines)
            for i in range(n): merged[i::n] = outs[i]
            return 0, "\n".join(merged) + "\n", "".join(r[2] for r in res)
        return _run_model(cmd, data, timeout, cwd, e)
    try:
        p = subprocess.run(cmd, cwd=cwd, env=e, input=data, stdout=subprocess.PIPE, stderr=subprocess.PIPE,
                           timeout=timeout, text=True, errors="replace")
        return p.returncode, p.stdout, p.stderr
    except subprocess.TimeoutExpired as ex:
        return 124, (ex.stdout or b"").decode(errors="replace") if isinstance(ex.stdout, bytes) else (ex.stdout or ""), "[timeout]"


class Lock:
    """serialise the shared Coq/OCaml build between concurrently running checks."""
    def __init__(self, name):
        os.makedirs(BUILD, exist_ok=True)
        self.path = os.path.join(BUILD, name + ".lock")
    def __enter__(self):
        self.f = open(self.path, "w")
        fcntl.flock(self.f, fcntl.LOCK_EX)
        return self
    def __exit__(self, *a):
        fcntl.flock(self.f, fcntl.LOCK_UN)
        self.f.close()


# ---------------------------------------------------------------- translate
def translate():
    """regenerate coq/gen/Params.v from /repo/include/nfl/params.hpp as the compiler sees it."""
    os.makedirs(os.path.join(COQ, "gen"), exist_ok=True)
    exe = os.path.join(BUILD, "dump_params")
    with Lock("translate"):
        rc, out = sh(["g++", "-std=c++11", "-O0", "-I%s/include" % REPO, os.path.join(ROOT, "harness/dump_params.cpp"),
                      os.path.join(REPO, "lib/params/params.cpp"), "-o", exe], timeout=120)
        if rc != 0:
            return False, "translator does not compile against /repo:\n" + out[-3000:]
        rc, out = sh([exe], timeout=60)
        if rc != 0:
            return False, "translator failed:\n" + out[-2000:]
        dst = os.path.join(COQ, "gen/Params.v")
        old = open(dst).read() if os.path.exists(dst) else None
        if old != out:
            with open(dst, "w") as f:
                f.write(out)
    ok2, info2 = translate_source()
    if not ok2:
        return False, info2
    return True, hashlib.sha256(out.encode()).hexdigest()[:16]


def translate_source():
    """regenerate coq/gen/Gen.v (the arithmetic core translated from the C++ by tools/cxx2coq.py through clang's AST); cached on the
    hash of the headers and of the translator."""
    h = hashlib.sha256()
    for root, _, files in sorted(os.walk(os.path.join(REPO, "include"))):
        for f in sorted(files):
            if f.endswith(".hpp") or f.endswith(".h"):
                h.update(open(os.path.join(root, f), "rb").read())
    h.update(open(os.path.join(ROOT, "tools/cxx2coq.py"), "rb").read())
    h.update(open(os.path.join(ROOT, "tools/cxxvec2coq.py"), "rb").read())
    h.update(open(os.path.join(ROOT, "tools/cxxloop2coq.py"), "rb").read())
    h.update(open(os.path.join(ROOT, "tools/cxxgmp2coq.py"), "rb").read())
    h.update(open(os.path.join(ROOT, "tools/cxxos2coq.py"), "rb").read())
    h.update(open(os.path.join(ROOT, "tools/cxxperm2coq.py"), "rb").read())
    h.update(open(os.path.join(ROOT, "tools/cxxpolyp2coq.py"), "rb").read())
    h.update(open(os.path.join(ROOT, "tools/cxxexprbool2coq.py"), "rb").read())
    h.update(open(os.path.join(ROOT, "tools/cxxhwt2coq.py"), "rb").read())
    h.update(open(os.path.join(ROOT, "tools/cxxtext2coq.py"), "rb").read())
    h.update(open(os.path.join(ROOT, "tools/cxxassign2coq.py"), "rb").read())
    h.update(open(os.path.join(ROOT, "tools/cxxcreators2coq.py"), "rb").read())
    h.update(open(os.path.join(ROOT, "tools/cxxopnodes2coq.py"), "rb").read())
    h.update(open(os.path.join(ROOT, "tools/cxxlayout2coq.py"), "rb").read())
    for f in ("lib/prng/randombytes.cpp", "lib/prng/fastrandombytes.cpp", "include/nfl/prng/randombytes.h"):
        if os.path.exists(os.path.join(REPO, f)): h.update(open(os.path.join(REPO, f), "rb").read())
    tag = "(* source-hash %s *)" % h.hexdigest()
    dst = os.path.join(COQ, "gen/Gen.v"); dstv = os.path.join(COQ, "gen/GenVec.v"); dstl = os.path.join(COQ, "gen/GenLoop.v"); dstg = os.path.join(COQ, "gen/GenGmp.v"); dsto = os.path.join(COQ, "gen/GenOs.v"); dstp = os.path.join(COQ, "gen/GenPerm.v"); dstpp = os.path.join(COQ, "gen/GenPolyP.v"); dsteb = os.path.join(COQ, "gen/GenExprBool.v"); dsthw = os.path.join(COQ, "gen/GenHwt.v"); dsttx = os.path.join(COQ, "gen/GenText.v"); dstas = os.path.join(COQ, "gen/GenAssign.v"); dstcr = os.path.join(COQ, "gen/GenCreators.v"); dston = os.path.join(COQ, "gen/GenOpNodes.v"); dstly = os.path.join(COQ, "gen/GenLayout.v")
    with Lock("translate_source"):
        if all(os.path.exists(d) and tag in open(d).read(200) for d in (dst, dstv, dstl, dstg, dsto, dstp, dstpp, dsteb, dsthw, dsttx, dstas, dstcr, dston, dstly)):
            return True, "cached"
        # the storage layout of poly (poly.hpp)
        tmply = dstly + ".tmp"
        rcly, outly = sh([sys.executable, os.path.join(ROOT, "tools/cxxlayout2coq.py"), REPO, tmply], timeout=900)
        if rcly != 0 or not os.path.exists(tmply):
            open(dstly, "w").write(tag + "\n(* translation failed: %s *)\n" % outly[-500:].replace("*)", "* )"))
        else:
            open(dstly, "w").write(tag + "\n" + open(tmply).read()); os.remove(tmply)
        # the expression nodes the operators build (ops.hpp)
        tmpon = dston + ".tmp"
        rcon, outon = sh([sys.executable, os.path.join(ROOT, "tools/cxxopnodes2coq.py"), REPO, tmpon], timeout=900)
        if rcon != 0 or not os.path.exists(tmpon):
            open(dston, "w").write(tag + "\n(* translation failed: %s *)\n" % outon[-500:].replace("*)", "* )"))
        else:
            open(dston, "w").write(tag + "\n" + open(tmpon).read()); os.remove(tmpon)
        # the constructors, assignments and setter wrappers of poly
        tmpcr = dstcr + ".tmp"
        rccr, outcr = sh([sys.executable, os.path.join(ROOT, "tools/cxxcreators2coq.py"), REPO, tmpcr], timeout=900)
        if rccr != 0 or not os.path.exists(tmpcr):
            open(dstcr, "w").write(tag + "\n(* translation failed: %s *)\n" % outcr[-500:].replace("*)", "* )"))
        else:
            open(dstcr, "w").write(tag + "\n" + open(tmpcr).read()); os.remove(tmpcr)
        # the evaluation of an expression into its destination (core.hpp)
        tmpas = dstas + ".tmp"
        rcas, outas = sh([sys.executable, os.path.join(ROOT, "tools/cxxassign2coq.py"), REPO, tmpas], timeout=900)
        if rcas != 0 or not os.path.exists(tmpas):
            open(dstas, "w").write(tag + "\n(* translation failed: %s *)\n" % outas[-500:].replace("*)", "* )"))
        else:
            open(dstas, "w").write(tag + "\n" + open(tmpas).read()); os.remove(tmpas)
        # the textual form (core.hpp)
        tmptx = dsttx + ".tmp"
        rctx, outtx = sh([sys.executable, os.path.join(ROOT, "tools/cxxtext2coq.py"), REPO, tmptx], timeout=900)
        if rctx != 0 or not os.path.exists(tmptx):
            open(dsttx, "w").write(tag + "\n(* translation failed: %s *)\n" % outtx[-500:].replace("*)", "* )"))
        else:
            open(dsttx, "w").write(tag + "\n" + open(tmptx).read()); os.remove(tmptx)
        # the fixed-Hamming-weight sampler (core.hpp)
        tmphw = dsthw + ".tmp"
        rchw, outhw = sh([sys.executable, os.path.join(ROOT, "tools/cxxhwt2coq.py"), REPO, tmphw], timeout=900)
        if rchw != 0 or not os.path.exists(tmphw):
            open(dsthw, "w").write(tag + "\n(* translation failed: %s *)\n" % outhw[-500:].replace("*)", "* )"))
        else:
            open(dsthw, "w").write(tag + "\n" + open(tmphw).read()); os.remove(tmphw)
        # the conversion of expressions to bool (ops.hpp)
        tmpeb = dsteb + ".tmp"
        rceb, outeb = sh([sys.executable, os.path.join(ROOT, "tools/cxxexprbool2coq.py"), REPO, tmpeb], timeout=900)
        if rceb != 0 or not os.path.exists(tmpeb):
            open(dsteb, "w").write(tag + "\n(* translation failed: %s *)\n" % outeb[-500:].replace("*)", "* )"))
        else:
            open(dsteb, "w").write(tag + "\n" + open(tmpeb).read()); os.remove(tmpeb)
        # the copy-on-write handle (poly_p.hpp)
        tmppp = dstpp + ".tmp"
        rcpp, outpp = sh([sys.executable, os.path.join(ROOT, "tools/cxxpolyp2coq.py"), REPO, tmppp], timeout=900)
        if rcpp != 0 or not os.path.exists(tmppp):
            open(dstpp, "w").write(tag + "\n(* translation failed: %s *)\n" % outpp[-500:].replace("*)", "* )"))
        else:
            open(dstpp, "w").write(tag + "\n" + open(tmppp).read()); os.remove(tmppp)
        # the bit-reversal permutation (permut.hpp); GenLoop.v calls it
        tmpp = dstp + ".tmp"
        rcp, outp = sh([sys.executable, os.path.join(ROOT, "tools/cxxperm2coq.py"), REPO, tmpp], timeout=900)
        if rcp != 0 or not os.path.exists(tmpp):
            open(dstp, "w").write(tag + "\n(* translation failed: %s *)\n" % outp[-500:].replace("*)", "* )"))
        else:
            open(dstp, "w").write(tag + "\n" + open(tmpp).read()); os.remove(tmpp)
        # the key source (lib/prng/randombytes.cpp)
        tmpo = dsto + ".tmp"
        rco, outo = sh([sys.executable, os.path.join(ROOT, "tools/cxxos2coq.py"), REPO, tmpo], timeout=300)
        if rco != 0 or not os.path.exists(tmpo):
            open(dsto, "w").write(tag + "\n(* translation failed: %s *)\n" % outo[-500:].replace("*)", "* )"))
        else:
            open(dsto, "w").write(tag + "\n" + open(tmpo).read()); os.remove(tmpo)
        # the big-integer side (gmp.hpp): independent of the other translations
        tmpg = dstg + ".tmp"
        rcg, outg = sh([sys.executable, os.path.join(ROOT, "tools/cxxgmp2coq.py"), REPO, tmpg], timeout=900)
        if rcg != 0 or not os.path.exists(tmpg):
            open(dstg, "w").write(tag + "\n(* translation failed: %s *)\n" % outg[-500:].replace("*)", "* )"))
        else:
            open(dstg, "w").write(tag + "\n" + open(tmpg).read()); os.remove(tmpg)
        # the SSE / AVX2 kernels
        tmpv = dstv + ".tmp"
        rcv, outv = sh([sys.executable, os.path.join(ROOT, "tools/cxxvec2coq.py"), REPO, tmpv], timeout=900)
        if rcv != 0 or not os.path.exists(tmpv):
            open(dstv, "w").write(tag + "\n(* translation failed: %s *)\n" % outv[-500:].replace("*)", "* )"))
        else:
            open(dstv, "w").write(tag + "\n" + open(tmpv).read()); os.remove(tmpv)
        tmp = dst + ".tmp"
        rc, out = sh([sys.executable, os.path.join(ROOT, "tools/cxx2coq.py"), REPO, tmp], timeout=900)
        if rc != 0 or not os.path.exists(tmp):
            # the translator cannot read the source any more: leave an empty module so that the equality proofs fail (obligation broken)
            open(dst, "w").write(tag + "\n(* translation failed: %s *)\n" % out[-500:].replace("*)", "* )"))
            open(dstl, "w").write(tag + "\n(* not translated: Gen.v missing *)\n")
            return True, "translation failed (GenEq.v will not build)"
        open(dst, "w").write(tag + "\n" + open(tmp).read())
        os.remove(tmp)
        # the loop structure of the transforms (reads Gen.v / GenVec.v to call the definitions already generated)
        tmpl = dstl + ".tmp"
        rcl, outl = sh([sys.executable, os.path.join(ROOT, "tools/cxxloop2coq.py"), REPO, tmpl, dst, dstv], timeout=900)
        if rcl != 0 or not os.path.exists(tmpl):
            open(dstl, "w").write(tag + "\n(* translation failed: %s *)\n" % outl[-500:].replace("*)", "* )"))
        else:
            open(dstl, "w").write(tag + "\n" + open(tmpl).read()); os.remove(tmpl)
    return True, "regenerated"


def read_params():
    """parse the generated tables (for generators and the failing-row search)."""
    t = open(os.path.join(COQ, "gen/Params.v")).read()
    res = {}
    for tag in ("16", "32", "64"):
        d = {}
        for k in ("w", "limbbits", "gbits", "bits", "maxdeg", "nmod"):
            d[k] = int(re.search(r"Definition %s%s : Z := (\d+)\." % (k, tag), t).group(1))
        d["lens"] = [int(x) for x in re.search(r"Definition lens%s : list Z := \[([^\]]*)\]" % tag, t).group(1).split(";")]
        m = re.search(r"rows%s : list \(Z \* Z \* Z \* Z\) := \[(.*?)\]\." % tag, t, re.S)
        d["rows"] = [tuple(int(x) for x in r.split(",")) for r in re.findall(r"\(([^)]*)\)", m.group(1))]
        res[int(tag)] = d
    return res


# ---------------------------------------------------------------- evaluation of translated definitions inside Coq
def coq_eval(name, header, terms, timeout=600):
    """terms: Coq terms of type option (list Z).  Evaluates each with vm_compute (one coqc call, the compiled gen/*.vo of the current
    translation) and returns, per term, the list of integers or None (the term evaluated to None / did not evaluate)."""
    d = os.path.join(BUILD, "coq_eval"); os.makedirs(d, exist_ok=True)
    f = os.path.join(d, name + ".v")
    body = header + "\n" + "\n".join('Eval vm_compute in (%d, %s).' % (i, t) for i, t in enumerate(terms)) + "\n"
    open(f, "w").write(body)
    rc, out = sh(["coqc", "-Q", COQ, "NTT", f], timeout=timeout, cwd=d)
    res = [None] * len(terms)
    if rc != 0: return res, out[-1500:]
    flat = " ".join(out.split())
    for m in re.finditer(r"= \((\d+), (Some \[([^\]]*)\]|None)\)", flat):
        i = int(m.group(1))
        if m.group(2) != "None": res[i] = [int(x) for x in m.group(3).replace(";", " ").split()]
    return res, ""

# ---------------------------------------------------------------- prove
def coq_makefile():
    if not all(os.path.exists(os.path.join(COQ, g)) for g in ("gen/Gen.v", "gen/GenVec.v", "gen/GenLoop.v", "gen/GenGmp.v", "gen/GenOs.v", "gen/GenPerm.v", "gen/GenPolyP.v", "gen/GenExprBool.v", "gen/GenHwt.v", "gen/GenText.v", "gen/GenAssign.v", "gen/GenCreators.v", "gen/GenOpNodes.v", "gen/GenLayout.v")):
        translate_source()
    vs = sorted(f for f in os.listdir(COQ) if f.endswith(".v") and f != "Extract.v") + ["gen/Params.v", "gen/Gen.v", "gen/GenVec.v", "gen/GenLoop.v", "gen/GenGmp.v", "gen/GenOs.v", "gen/GenPerm.v", "gen/GenPolyP.v", "gen/GenExprBool.v", "gen/GenHwt.v", "gen/GenText.v", "gen/GenAssign.v", "gen/GenCreators.v", "gen/GenOpNodes.v", "gen/GenLayout.v"]
    txt = "-Q . NTT\n" + "\n".join(vs) + "\n"
    p = os.path.join(COQ, "_CoqProject")
    if not os.path.exists(p) or open(p).read() != txt or not os.path.exists(os.path.join(COQ, "Makefile")):
        open(p, "w").write(txt)
        sh("coq_makefile -f _CoqProject -o Makefile", cwd=COQ)


def scan_forbidden():
    """no Admitted/admit/Axiom/Parameter/... anywhere in the development (comments stripped)."""
    bad = []
    for root, _, files in os.walk(COQ):
        for f in files:
            if not f.endswith(".v"):
                continue
            src = open(os.path.join(root, f)).read()
            src = strip_comments(src)
            insec = 0
            for i, line in enumerate(src.split("\n"), 1):
                if re.match(r"\s*Section\b", line):
                    insec += 1
                if re.match(r"\s*End\b", line) and insec:
                    insec -= 1
                for m in FORBIDDEN.finditer(line):
                    wd = m.group(0)
                    if wd in ("Variable", "Hypothesis", "Variables", "Hypotheses", "Context") and insec:
                        continue
                    bad.append("%s:%d: %s" % (f, i, wd))
    return bad


def strip_comments(s):
    out, depth, i = [], 0, 0
    while i < len(s):
        if s.startswith("(*", i):
            depth += 1; i += 2; continue
        if s.startswith("*)", i) and depth:
            depth -= 1; i += 2; continue
        if depth == 0:
            out.append(s[i])
        elif s[i] == "\n":
            out.append("\n")
        i += 1
    return "".join(out)


def prove(prop_file, timeout=1500):
    """full .vo build of everything Properties_<id>.v depends on, then re-check the property file itself
    (always, so Print Assumptions is captured from this run).  Returns a dict."""
    res = {"file": prop_file, "obligations": 0, "discharged": 0, "theorems": [], "axioms": {}, "ok": False, "log": "", "broken": None}
    src = open(os.path.join(COQ, prop_file + ".v")).read()
    thms = re.findall(r"^\s*(?:Theorem|Corollary)\s+(\w+)", strip_comments(src), re.M)
    res["theorems"] = thms
    res["obligations"] = len(thms)
    translate_source()          # every proof run starts from the translation of the CURRENT source (cached on a hash of the sources and translators)
    with Lock("coq"):
        coq_makefile()
        bad = scan_forbidden()
        if bad:
            res["log"] = "forbidden constructs: " + "; ".join(bad[:10]); res["broken"] = "forbidden:" + bad[0]
            return res
        vo = os.path.join(COQ, prop_file + ".vo")
        if os.path.exists(vo):
            os.remove(vo)
        t0 = time.time()
        rc, out = sh("make -k -j%d %s.vo" % (NCPU, prop_file), cwd=COQ, timeout=timeout)
    res["log"] = out[-6000:]
    res["coq_wall_s"] = round(time.time() - t0, 1)
    if rc != 0 or not os.path.exists(vo):
        m = re.search(r'File "\./([\w/]+)\.v", line (\d+)[^\n]*\n(Error:.*?)(?:\n\n|\Z)', out, re.S)
        if m:
            res["broken"] = "%s.v line %s: %s" % (m.group(1), m.group(2), " ".join(m.group(3).split())[:300])
            if m.group(1) == prop_file:
                # theorems stated before the failing line count as discharged
                ln = int(m.group(2)); done = 0
                for mm in re.finditer(r"^\s*(?:Theorem|Corollary)\s+(\w+)", src, re.M):
                    if src[:mm.start()].count("\n") + 1 < ln:
                        done += 1
                res["discharged"] = max(0, done - 1)
        else:
            res["broken"] = "build failed (rc=%d): %s" % (rc, out[-300:].replace("\n", " "))
        return res
    # parse Print Assumptions output, in order
    blocks = re.split(r"(?=Closed under the global context|Axioms:)", out)
    assum = []
    for b in blocks:
        if b.startswith("Closed under the global context"):
            assum.append([])
        elif b.startswith("Axioms:"):
            names = re.findall(r"^([A-Za-z_][\w.']*)\s*(?::|$)", b[len("Axioms:"):], re.M)
            assum.append([n for n in names if "." in n or n[0].islower()])
    pa = re.findall(r"Print Assumptions\s+(\w+)", strip_comments(src))
    for name, ax in zip(pa, assum):
        res["axioms"][name] = ax
    missing = [t for t in thms if t not in res["axioms"]]
    nonstd = sorted({a for ax in res["axioms"].values() for a in ax if a not in STD_AXIOMS})
    if missing:
        res["broken"] = "no Print Assumptions output for: " + ", ".join(missing)
        return res
    if nonstd:
        res["broken"] = "non-standard axioms: " + ", ".join(nonstd)
        return res
    res["discharged"] = len(thms)
    res["ok"] = True
    return res


# ---------------------------------------------------------------- extract + model runner
def build_model(timeout=900):
    """Extract.v -> build/model/model.ml -> native driver (cached on source hashes)."""
    mdir = os.path.join(BUILD, "model")
    os.makedirs(mdir, exist_ok=True)
    with Lock("coq"):
        coq_makefile()
        rc, out = sh("make -k -j%d ExtractDeps.vo" % NCPU, cwd=COQ, timeout=timeout)
        if rc != 0:
            return None, "model dependencies do not build:\n" + out[-3000:]
        h = hashlib.sha256()
        for f in sorted(os.listdir(COQ)):
            if f.endswith(".v"):
                h.update(open(os.path.join(COQ, f), "rb").read())
        h.update(open(os.path.join(COQ, "gen/Params.v"), "rb").read())
        for f in sorted(os.listdir(OCAML)):
            h.update(open(os.path.join(OCAML, f), "rb").read())
        stamp = os.path.join(mdir, "stamp")
        exe = os.path.join(mdir, "driver")
        if os.path.exists(exe) and os.path.exists(stamp) and open(stamp).read() == h.hexdigest():
            return exe, "cached"
        rc, out = sh("coqc -Q %s NTT %s/Extract.v" % (COQ, COQ), cwd=mdir, timeout=timeout)
        if rc != 0:
            return None, "extraction failed:\n" + out[-3000:]
        for f in os.listdir(OCAML):
            shutil.copy(os.path.join(OCAML, f), mdir)
        rc, out = sh("ocamlfind ocamlopt -package zarith -linkpkg -w -a -o driver model.mli model.ml driver.ml",
                     cwd=mdir, timeout=timeout)
        if rc != 0:
            return None, "model driver does not build:\n" + out[-3000:]
        open(stamp, "w").write(h.hexdigest())
    return exe, "built"


# ---------------------------------------------------------------- implementation harness
BACKENDS = {
    "serial": [],
    "opt": ["-DNFL_OPTIMIZED"],
    "sse": ["-DNFL_OPTIMIZED", "-DNTT_SSE", "-msse4.2"],
    "avx2": ["-DNFL_OPTIMIZED", "-DNTT_AVX2", "-mavx2"],
}
LIBSRC = ["lib/params/params.cpp"]
PRNGSRC = ["lib/prng/fastrandombytes.cpp", "lib/prng/randombytes.cpp", "lib/prng/nfl_crypto_stream_salsa20_amd64_xmm6.s"]


def build_harness(name, srcs, out_name=None, backend="serial", extra=(), libs=("-lgmpxx", "-lgmp", "-lmpfr"), prng=True,
                  opt="-O1", defines=(), timeout=600, compiler="g++"):
    """compile a harness against /repo's *current working tree*; always rebuilt."""
    hdir = os.path.join(BUILD, "harness")
    os.makedirs(hdir, exist_ok=True)
    exe = os.path.join(hdir, out_name or (name + "_" + backend))
    cmd = [compiler, "-std=c++11", opt, "-g0", "-I%s/include" % REPO, "-I%s/include/nfl" % REPO, "-I%s/include/nfl/prng" % REPO,
           "-I%s/tests" % REPO, "-I%s/harness" % ROOT] + BACKENDS[backend] + ["-D%s" % d for d in defines] + list(extra)
    cmd += [s if os.path.isabs(s) else os.path.join(ROOT, "harness", s) for s in srcs]
    cmd += [os.path.join(REPO, s) for s in LIBSRC]
    if prng:
        cmd += [os.path.join(REPO, s) for s in PRNGSRC]
    cmd += ["-o", exe] + list(libs)
    rc, out = sh(cmd, timeout=timeout)
    if rc != 0:
        return None, out[-4000:]
    return exe, ""


def build_many(jobs):
    """jobs: list of kwargs for build_harness; built in parallel.  Returns list of (exe, err)."""
    from concurrent.futures import ThreadPoolExecutor
    with ThreadPoolExecutor(max_workers=NCPU) as ex:
        return list(ex.map(lambda kw: build_harness(**kw), jobs))


# ---------------------------------------------------------------- verdict + evidence
class Check:
    def __init__(self, pid, tier, seed):
        self.pid, self.tier, self.seed = pid, tier, seed
        self.t0 = time.time()
        self.rng = random.Random((seed * 1000003) ^ int(hashlib.sha256(pid.encode()).hexdigest()[:8], 16))
        self.violations = []       # (what, replay_path, no_input)
        self.known_hits = []
        self.cov = {}
        self.assumptions = []
        self.samples = []
        self.streams = {}
        self.proof = None
        self.known = load_known().get(pid, [])
        os.makedirs(os.path.join(WORK, "replays", pid), exist_ok=True)
        os.makedirs(os.path.join(WORK, "evidence"), exist_ok=True)

    def quick(self):
        return self.tier == "quick"

    def replay_path(self, tag):
        return os.path.join(WORK, "replays", self.pid, "%s_%s.json" % (tag, self.seed))

    def violation(self, what, record, tag="fail", no_input=False, key=None):
        """report a violation unless it matches a known finding (matched by key)."""
        for k in self.known:
            if k.get("status") == "open" and key and k.get("key") == key:
                if key not in self.known_hits:
                    self.known_hits.append(key)
                    log("KNOWN-FINDING: property=%s %s" % (self.pid, k.get("what", key)))
                return
        self._ntag = getattr(self, "_ntag", {})
        self._ntag[tag] = self._ntag.get(tag, 0) + 1
        if self._ntag[tag] > 1:
            tag = "%s_%d" % (tag, self._ntag[tag])
        path = self.replay_path(tag)
        record = dict(record); record["property"] = self.pid; record["what"] = what
        record["replay_cmd"] = "./check %s --replay %s" % (self.pid, path)
        with open(path, "w") as f:
            json.dump(record, f, indent=1, default=str)
        self.violations.append((what, path, no_input))

    def stream(self, name, n, distinct=None):
        s = self.streams.setdefault(name, {"cases": 0, "distinct": 0})
        s["cases"] += n
        s["distinct"] += distinct if distinct is not None else n

    def finish(self, level="proof", extra_cov=None, checker_cmd=None, trusted=None, explanation=None):
        cov = dict(self.cov)
        p = self.proof or {}
        cov["obligations"] = p.get("obligations", 0)
        cov["discharged"] = p.get("discharged", 0)
        cov["theorems"] = p.get("theorems", [])
        cov["axioms_per_theorem"] = p.get("axioms", {})
        cov["checker_cmd"] = checker_cmd or ("make -k -jN %s.vo (coqc 8.16.1, full .vo) in /verif/coq, Print Assumptions under every theorem" % p.get("file", "?"))
        cov["trusted_base"] = trusted or []
        cov["streams"] = self.streams
        cov["evaluations"] = sum(s["cases"] for s in self.streams.values())
        cov["distinct_nontrivial"] = sum(s["distinct"] for s in self.streams.values())
        cov["samples"] = self.samples[:12] if self.samples else ["(no correspondence cases in this run)"]
        if explanation:
            cov["explanation"] = explanation
        if extra_cov:
            cov.update(extra_cov)
        if p.get("broken"):
            cov["broken_obligation"] = p["broken"]
        ev = {"property_id": self.pid, "tier": self.tier, "seed": self.seed, "level": level, "coverage": cov,
              "assumptions": self.assumptions, "wall_s": round(time.time() - self.t0, 1), "violations": len(self.violations),
              "known_findings_hit": self.known_hits}
        with open(os.path.join(WORK, "evidence", self.pid + ".json"), "w") as f:
            json.dump(ev, f, indent=1, default=str)
        for what, path, no_input in self.violations:
            log("VIOLATION property=%s replay=%s%s" % (self.pid, path, " no-failing-input-found" if no_input else ""))
            log("  -> " + what)
        if self.violations:
            return 1
        log("OK property=%s tier=%s obligations=%d/%d cases=%d wall=%.0fs" % (self.pid, self.tier, cov["discharged"], cov["obligations"],
                                                                            cov["evaluations"], time.time() - self.t0))
        return 0


def run_deps(ck, pids):
    """dependency checks.  Property X is stated over operations whose correctness is property Y (the product of C01 multiplies with the
    functors of C03 and is reachable through the handles of C14 and from several threads, C17; the creators of C09 include the setters
    of C15; ...): an input on which Y fails is an input on which X fails.  The quick machinery of Y is run and what it finds is
    reported under X (the replay file is Y's).  Not recursive."""
    if getattr(ck, "aux", False):
        return
    import importlib
    for pid in pids:
        sub = Check(pid, "quick", ck.seed)
        sub.aux = True
        sub.finish = lambda *a, **kw: (1 if sub.violations else 0)
        t0 = time.time()
        importlib.import_module(pid).run(sub)
        for what, path, no_input in sub.violations:
            ck.violations.append(("[through %s, on which %s depends] %s" % (pid, ck.pid, what), path, no_input))
        for name, st in sub.streams.items():
            ck.streams["[%s] %s" % (pid, name)] = st
        pr = sub.proof or {}
        ck.cov.setdefault("dependency_checks", {})[pid] = {"obligations": pr.get("obligations", 0), "discharged": pr.get("discharged", 0),
                                                          "theorems": pr.get("theorems", []), "violations": len(sub.violations), "wall_s": round(time.time() - t0, 1)}


def load_known():
    p = os.path.join(ROOT, "known_findings.json")
    if not os.path.exists(p):
        return {}
    d = json.load(open(p))
    out = {}
    for e in d.get("findings", []):
        out.setdefault(e["property"], []).append(e)
    return out


def compare_lines(a, b):
    """index of first differing line, or None."""
    la, lb = a.split("\n"), b.split("\n")
    for i, (x, y) in enumerate(zip(la, lb)):
        if x != y:
            return i
    if len(la) != len(lb):
        return min(len(la), len(lb))
    return None
