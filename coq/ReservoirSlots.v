(* C12: the slot array `hitted` of poly::set(hwt_dist) refines the subset process of Reservoir.v, for every weight h and
   every number of further items m: over all tuples of draws, the characteristic vectors of the final slot arrays are a
   permutation of Reservoir.sets h m -- hence every h-subset is reached by exactly m! tuples. *)
From Coq Require Import List Arith Lia Bool Permutation.
From NTT Require Import Reservoir.
Import ListNotations.

Fixpoint set_slot (l : list nat) (i v : nat) : list nat :=
  match l, i with [], _ => [] | _ :: t, O => v :: t | x :: t, S i' => x :: set_slot t i' v end.
(* one iteration of the reservoir loop at item k with the accepted draw pos in [0,k]:  if (pos < hwt) hitted[pos] = k; *)
Definition slot_step (h : nat) (hit : list nat) (pos k : nat) : list nat := if pos <? h then set_slot hit pos k else hit.
(* all slot arrays after items h .. h+m-1, over all tuples of draws (pos_k in [0,k]) *)
Fixpoint runs (h m : nat) : list (list nat) :=
  match m with
  | O => [seq 0 h]
  | S m' => flat_map (fun hit => map (fun pos => slot_step h hit pos (h + m')) (seq 0 (h + m' + 1))) (runs h m')
  end.
Definition mem (hit : list nat) (i : nat) : bool := existsb (Nat.eqb i) hit.
Definition char (n : nat) (hit : list nat) : vec := map (mem hit) (seq 0 n).

(* ---- basic facts ---- *)
Lemma mem_true hit i : mem hit i = true <-> In i hit.
Proof. unfold mem. rewrite existsb_exists. split; [intros [x [Hx E]]; apply Nat.eqb_eq in E; now subst | intros H; exists i; split; [auto | apply Nat.eqb_refl]]. Qed.
Lemma mem_false hit i : mem hit i = false <-> ~ In i hit.
Proof. rewrite <- mem_true. destruct (mem hit i); split; congruence. Qed.
Lemma char_length n hit : length (char n hit) = n.
Proof. unfold char. now rewrite map_length, seq_length. Qed.
Lemma char_nth n hit i : i < n -> nth i (char n hit) false = mem hit i.
Proof. intros H. unfold char. rewrite (nth_indep _ false (mem hit 0)) by (rewrite map_length, seq_length; auto).
  rewrite map_nth, seq_nth; auto. Qed.
Lemma char_S n hit : char (S n) hit = char n hit ++ [mem hit n].
Proof. unfold char. rewrite seq_S, map_app. reflexivity. Qed.

Lemma set_slot_length l i v : length (set_slot l i v) = length l.
Proof. revert i; induction l; destruct i; simpl; auto. Qed.
Lemma set_slot_In l i v x : i < length l -> (In x (set_slot l i v) <-> x = v \/ (In x l /\ exists j, j <> i /\ j < length l /\ nth j l 0 = x)).
Proof.
  revert i; induction l as [|a l IH]; intros i Hi; simpl in Hi; [lia|]. destruct i as [|i]; simpl.
  - split.
    + intros [->|H]; [now left|]. right. split; [now right|]. apply (In_nth _ _ 0) in H. destruct H as [j [Hj E]]. exists (S j). simpl. repeat split; try lia; auto.
    + intros [->|[_ [j [Hj [Hl E]]]]]; [now left|]. right. destruct j; [congruence|]. simpl in E. subst x. apply nth_In. lia.
  - rewrite IH by lia. split.
    + intros [->|[->|[H [j [Hj [Hl E]]]]]].
      * right. split; [now left|]. exists 0. simpl. repeat split; lia.
      * now left.
      * right. split; [now right|]. exists (S j). simpl. repeat split; try lia; auto.
    + intros [->|[H [j [Hj [Hl E]]]]]; [right; now left|]. destruct j as [|j]; simpl in E.
      * now left.
      * right. right. split; [subst x; apply nth_In; lia|]. exists j. repeat split; try lia; auto.
Qed.

(* invariant of the slot array before item k: h distinct indices below k *)
Definition Slots (h k : nat) (hit : list nat) : Prop := length hit = h /\ NoDup hit /\ forall x, In x hit -> x < k.

Lemma NoDup_nth_inj (l : list nat) i j : NoDup l -> i < length l -> j < length l -> nth i l 0 = nth j l 0 -> i = j.
Proof. intros H. apply NoDup_nth; auto. Qed.

Lemma set_slot_mem hit pos k i : NoDup hit -> pos < length hit -> (forall x, In x hit -> x < k) ->
  mem (set_slot hit pos k) i = if i =? k then true else if i =? nth pos hit 0 then false else mem hit i.
Proof.
  intros ND Hp Hlt. destruct (Nat.eqb_spec i k) as [->|Hik].
  - apply mem_true. apply set_slot_In; auto.
  - destruct (Nat.eqb_spec i (nth pos hit 0)) as [->|Hin].
    + apply mem_false. intros H. apply set_slot_In in H; auto. destruct H as [E|[_ [j [Hj [Hl E]]]]]; [congruence|].
      apply Hj. apply (NoDup_nth_inj hit); auto.
    + destruct (mem hit i) eqn:E.
      * apply mem_true. apply mem_true in E. apply set_slot_In; auto. right. split; auto.
        apply (In_nth _ _ 0) in E. destruct E as [j [Hj Ej]]. exists j. repeat split; auto. intros ->. congruence.
      * apply mem_false. apply mem_false in E. intros H. apply set_slot_In in H; auto. destruct H as [E'|[H _]]; congruence.
Qed.

Lemma upd_char n hit x : x < n -> upd x false (char n hit) = map (fun i => if i =? x then false else mem hit i) (seq 0 n).
Proof.
  intros Hx. apply (nth_ext _ _ false false); [rewrite upd_length, char_length, map_length, seq_length; reflexivity|].
  intros i Hi. rewrite upd_length, char_length in Hi.
  set (f := fun i => if i =? x then false else mem hit i).
  rewrite (nth_indep (map f _) false (f 0)) by (rewrite map_length, seq_length; auto).
  rewrite map_nth, seq_nth by auto. cbn [Nat.add]. unfold f.
  destruct (Nat.eqb_spec i x) as [->|Hne].
  - apply nth_upd_same. rewrite char_length. auto.
  - assert (G : forall (v : vec) a b c, a <> b -> nth a (upd b c v) false = nth a v false).
    { induction v as [|y v IH]; intros [|a] [|b] c Hab; simpl; auto; try congruence. }
    rewrite G by auto. apply char_nth. auto.
Qed.

(* the characteristic vector after one step *)
Lemma char_keep h k hit : Slots h k hit -> char (S k) hit = char k hit ++ [false].
Proof. intros (_ & _ & Hlt). rewrite char_S. f_equal. f_equal. apply mem_false. intros H. apply Hlt in H. lia. Qed.
Lemma char_replace h k hit pos : Slots h k hit -> pos < h ->
  char (S k) (set_slot hit pos k) = upd (nth pos hit 0) false (char k hit) ++ [true].
Proof.
  intros (HL & ND & Hlt) Hp. rewrite char_S. f_equal.
  - assert (Hx : nth pos hit 0 < k) by (apply Hlt, nth_In; lia).
    rewrite upd_char by exact Hx. unfold char. apply map_ext_in. intros i Hi. apply in_seq in Hi.
    rewrite set_slot_mem by (auto; lia). destruct (Nat.eqb_spec i k); [lia | reflexivity].
  - f_equal. rewrite set_slot_mem by (auto; lia). now rewrite Nat.eqb_refl.
Qed.

Lemma Slots_step h k hit pos : Slots h k hit -> Slots h (S k) (slot_step h hit pos k).
Proof.
  intros (HL & ND & Hlt). unfold slot_step. destruct (Nat.ltb_spec pos h) as [Hp|Hp].
  - split; [now rewrite set_slot_length|]. split.
    + (* NoDup via the membership characterisation *)
      apply (NoDup_nth _ 0). intros i j Hi Hj E. rewrite set_slot_length in Hi, Hj.
      assert (N : forall l p v a, a < length l -> nth a (set_slot l p v) 0 = if a =? p then v else nth a l 0).
      { induction l as [|y l IH]; intros [|p] v [|a] Ha; simpl in *; try lia; auto. apply IH. lia. }
      rewrite !N in E by auto.
      destruct (Nat.eqb_spec i pos) as [->|Hi']; destruct (Nat.eqb_spec j pos) as [->|Hj']; auto.
      * exfalso. assert (nth j hit 0 < k) by (apply Hlt, nth_In; auto). lia.
      * exfalso. assert (nth i hit 0 < k) by (apply Hlt, nth_In; auto). lia.
      * apply (NoDup_nth_inj hit); auto.
    + intros x Hx. apply set_slot_In in Hx; [|lia]. destruct Hx as [->|[Hx _]]; [lia | apply Hlt in Hx; lia].
  - split; [auto|]. split; [auto|]. intros x Hx. apply Hlt in Hx. lia.
Qed.

Lemma members_perm h k hit : Slots h k hit -> Permutation (members (char k hit)) hit.
Proof.
  intros (HL & ND & Hlt). apply NoDup_Permutation; [| exact ND |].
  - unfold members. apply NoDup_filter. apply seq_NoDup.
  - intros x. unfold members. rewrite filter_In, in_seq, char_length. split.
    + intros [Hx E]. rewrite char_nth in E by lia. now apply mem_true.
    + intros Hx. pose proof (Hlt x Hx). split; [lia|]. rewrite char_nth by lia. now apply mem_true.
Qed.

Lemma map_nth_seq0 (l : list nat) : map (fun i => nth i l 0) (seq 0 (length l)) = l.
Proof.
  apply (nth_ext _ _ 0 0); [now rewrite map_length, seq_length|]. intros i Hi. rewrite map_length, seq_length in Hi.
  set (f := fun i => nth i l 0). rewrite (nth_indep (map f _) 0 (f 0)) by (rewrite map_length, seq_length; auto).
  rewrite map_nth, seq_nth by auto. reflexivity.
Qed.

Lemma map_const_rep {A B} (l : list A) (c : B) : map (fun _ => c) l = repeat c (length l).
Proof. induction l; simpl; congruence. Qed.

(* one step: the k+1 draws from one slot array give exactly the successors of its characteristic vector in the subset process *)
Lemma step_perm h m hit : Slots h (h + m) hit ->
  Permutation (map (fun pos => char (S (h + m)) (slot_step h hit pos (h + m))) (seq 0 (h + m + 1))) (next (m + 1) (char (h + m) hit)).
Proof.
  intros SL. pose proof SL as (HL & ND & Hlt). set (k := h + m) in *.
  replace (k + 1) with (h + (m + 1)) by lia. rewrite seq_app, map_app. unfold next.
  apply Permutation_trans with (l' := map (fun x => upd x false (char k hit) ++ [true]) hit ++ repeat (char k hit ++ [false]) (m + 1)).
  - apply Permutation_app.
    + (* replacing draws: pos < h, slot by slot *)
      assert (E : map (fun pos => char (S k) (slot_step h hit pos k)) (seq 0 h) = map (fun x => upd x false (char k hit) ++ [true]) hit).
      { transitivity (map (fun pos => upd (nth pos hit 0) false (char k hit) ++ [true]) (seq 0 h)).
        2:{ rewrite <- (map_map (fun pos => nth pos hit 0) (fun x => upd x false (char k hit) ++ [true])), <- HL, map_nth_seq0. reflexivity. }
        apply map_ext_in. intros pos Hp. apply in_seq in Hp.
        unfold slot_step. destruct (Nat.ltb_spec pos h); [|lia]. apply (char_replace h); auto. }
      rewrite E. apply Permutation_refl.
    + (* keeping draws: h <= pos <= k *)
      assert (E : map (fun pos => char (S k) (slot_step h hit pos k)) (seq (0 + h) (m + 1)) = repeat (char k hit ++ [false]) (m + 1)).
      { replace (m + 1) with (length (seq (0 + h) (m + 1))) at 2 by apply seq_length. rewrite <- map_const_rep. apply map_ext_in. intros pos Hp. apply in_seq in Hp.
        unfold slot_step. destruct (Nat.ltb_spec pos h); [lia|]. apply (char_keep h); auto. }
      rewrite E. apply Permutation_refl.
  - rewrite Permutation_app_comm. apply Permutation_app; [apply Permutation_refl|].
    apply Permutation_map. apply Permutation_sym. apply (members_perm h k). exact SL.
Qed.

(* ---- every slot array reached satisfies the invariant ---- *)
Lemma runs_slots h m hit : In hit (runs h m) -> Slots h (h + m) hit.
Proof.
  revert hit. induction m as [|m IH]; intros hit H.
  - destruct H as [<-|[]]. rewrite Nat.add_0_r. split; [apply seq_length|]. split; [apply seq_NoDup|]. intros x Hx. apply in_seq in Hx. lia.
  - cbn [runs] in H. apply in_flat_map in H. destruct H as [hit0 [H0 H]]. apply in_map_iff in H. destruct H as [pos [<- _]].
    replace (h + S m) with (S (h + m)) by lia. apply Slots_step. apply IH. exact H0.
Qed.

(* ---- the refinement: all draw tuples, as characteristic vectors, are the subset process ---- *)
Theorem runs_refine h m : Permutation (map (char (h + m)) (runs h m)) (sets h m).
Proof.
  induction m as [|m IH].
  - cbn [runs sets map]. rewrite Nat.add_0_r.
    assert (E : char h (seq 0 h) = repeat true h).
    { unfold char. rewrite <- (seq_length h 0) at 3. rewrite <- map_const_rep. apply map_ext_in. intros i Hi. apply mem_true. exact Hi. }
    rewrite E. apply Permutation_refl.
  - cbn [runs sets]. replace (h + S m) with (S (h + m)) by lia.
    apply Permutation_trans with (l' := flat_map (next (m + 1)) (map (char (h + m)) (runs h m))).
    + (* pointwise, along the list of reached slot arrays *)
      assert (G : forall L, (forall hit, In hit L -> Slots h (h + m) hit) ->
        Permutation (map (char (S (h + m))) (flat_map (fun hit => map (fun pos => slot_step h hit pos (h + m)) (seq 0 (h + m + 1))) L))
                    (flat_map (next (m + 1)) (map (char (h + m)) L))).
      { induction L as [|hit L IHL]; intros HS; [apply Permutation_refl|]. cbn [flat_map map]. rewrite map_app, map_map.
        apply Permutation_app; [apply step_perm; apply HS; now left | apply IHL; intros x Hx; apply HS; now right]. }
      apply G. intros hit Hh. now apply runs_slots.
    + apply Permutation_flat_map. exact IH.
Qed.

Lemma cnt_perm T L L' : Permutation L L' -> cnt T L = cnt T L'.
Proof. unfold cnt. induction 1; simpl; lia. Qed.

(* every weight-h pattern of length h+m is the final position set of exactly m! of the (h+1)(h+2)...(h+m) draw tuples *)
Corollary slots_uniform h m T : length T = h + m -> weight T = h -> cnt T (map (char (h + m)) (runs h m)) = fact m.
Proof. intros HL HW. rewrite (cnt_perm T _ _ (runs_refine h m)). now apply uniform. Qed.

(* number of draw tuples: (h+1)(h+2)...(h+m) *)
Fixpoint rising (h m : nat) : nat := match m with O => 1 | S m' => rising h m' * (h + m' + 1) end.
Lemma runs_count h m : length (runs h m) = rising h m.
Proof.
  induction m as [|m IH]; [reflexivity|]. cbn [runs rising]. rewrite <- IH.
  generalize (runs h m). induction l as [|a l IHl]; [reflexivity|]. cbn [flat_map length]. rewrite app_length, map_length, seq_length, IHl. lia.
Qed.
Print Assumptions slots_uniform.

(* ---- the slot update of the executable sampler model (SamplersExec.reservoir, slots as Z) is slot_step ---- *)
From Coq Require Import ZArith.
From NTT Require SamplersExec.
Lemma set_slot_Z hit pos k : map Z.of_nat (set_slot hit pos k) = SamplersExec.set_nth (map Z.of_nat hit) pos (Z.of_nat k).
Proof. revert pos; induction hit as [|a hit IH]; intros [|pos]; simpl; auto. now rewrite IH. Qed.
Lemma slot_step_Z h hit pos k :
  map Z.of_nat (slot_step h hit pos k) =
  (if (Z.of_nat pos <? Z.of_nat h)%Z then SamplersExec.set_nth (map Z.of_nat hit) (Z.to_nat (Z.of_nat pos)) (Z.of_nat k) else map Z.of_nat hit).
Proof.
  unfold slot_step. rewrite Nat2Z.id. destruct (Nat.ltb_spec pos h); destruct (Z.ltb_spec (Z.of_nat pos) (Z.of_nat h)); try lia; [apply set_slot_Z | reflexivity].
Qed.
Lemma slots_uniform_count h m T : length T = h + m -> weight T = h ->
  Reservoir.cnt T (map (char (h + m)) (runs h m)) = fact m /\ length (runs h m) = rising h m.
Proof. intros HL HW. split; [now apply slots_uniform | apply runs_count]. Qed.
