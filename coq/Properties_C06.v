(* C06 — every row of the modulus tables supports a valid transform and CRT.
   Statements only; proofs live in TablesOK.v / C06Closed.v.  The tables are gen/Params.v,
   regenerated from /repo/include/nfl/params.hpp on every run. *)
From Coq Require Import ZArith Znumtheory List Bool.
From NTT Require Import NumTheoryMC TablesOK Shards C06Closed.
From NTT.gen Require Import Params.
Local Open Scope Z_scope.

(* every row: prime of exactly `bits = w-2` bits, = 1 mod 2*maxdeg, root of order exactly 2*maxdeg,
   true inverse of maxdeg, true Newton quotient; rows distinct; row count = kMaxNbModuli *)
Theorem C06_tables_valid :
  table_valid w16 bits16 maxdeg16 nmod16 rows16 /\
  table_valid w32 bits32 maxdeg32 nmod32 rows32 /\
  table_valid w64 bits64 maxdeg64 nmod64 rows64.
Proof. exact tables_valid. Qed.
Print Assumptions C06_tables_valid.

(* any two rows of one table are coprime, hence every prefix used as a CRT basis is pairwise coprime *)
Theorem C06_pairwise_coprime : forall w bits maxdeg nmod rows, table_valid w bits maxdeg nmod rows ->
  forall i j, (i < length rows)%nat -> (j < length rows)%nat -> i <> j ->
  rel_prime (fst (fst (fst (nth i rows (0,0,0,0))))) (fst (fst (fst (nth j rows (0,0,0,0))))).
Proof. exact table_pairwise_coprime. Qed.
Print Assumptions C06_pairwise_coprime.

(* every instantiable degree 2^k <= maxdeg has a root phi with phi^(2^k) = -1 and the derived n^-1 is the inverse of n *)
Theorem C06_degree_root : forall w bits K r k, (k <= K)%nat -> row_valid w bits (2 ^ Z.of_nat K) r ->
  let p := fst (fst (fst r)) in let g := snd (fst r) in
  ((g ^ (2 ^ Z.of_nat (K - k))) ^ (2 ^ Z.of_nat k)) mod p = p - 1.
Proof. exact degree_root. Qed.
Print Assumptions C06_degree_root.

Theorem C06_degree_inv : forall w bits K r k, (k <= K)%nat -> row_valid w bits (2 ^ Z.of_nat K) r ->
  let p := fst (fst (fst r)) in let ik := snd r in
  ((ik * 2 ^ Z.of_nat (K - k)) mod p * 2 ^ Z.of_nat k) mod p = 1.
Proof. exact degree_inv. Qed.
Print Assumptions C06_degree_inv.

(* the 64-bit rows have the Barrett-Newton shape assumed by mulmod<uint64_t> (C03) *)
Theorem C06_newton64 :
  forallb (fun r => let '(p, pn, _, _) := r in (2 ^ 61 <? p) && (p <? 2 ^ 62) && (pn =? 2 ^ 128 / p - 2 ^ 66) && (0 <=? pn) && (pn <? 2 ^ 63)) rows64 = true.
Proof. exact newton64_ok. Qed.
Print Assumptions C06_newton64.

(* non-vacuity: the tables are not empty and a concrete row is valid *)
Example C06_nonvacuous : rows16 <> nil /\ rows32 <> nil /\ rows64 <> nil.
Proof. repeat split; discriminate. Qed.
