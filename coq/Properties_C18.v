(* C18 — concurrent sampling never reuses keystream.  Statements only (PrngConc.v): for every number of threads, every
   program (requests per thread) and EVERY schedule of the interleaving model of the repaired generator. *)
From Coq Require Import List Arith.
From NTT Require Import PrngConc.

Theorem C18_invariant : forall prog sched, Inv (run sched (init prog)).
Proof. exact run_inv. Qed.
Print Assumptions C18_invariant.

(* the nonces handed out are exactly 0, 1, ..., ctr-1 in order: gap-free, each taken once *)
Theorem C18_nonces_gap_free : forall prog sched, let s := run sched (init prog) in map snd (log s) = seq 0 (ctr s).
Proof. exact nonces_gap_free. Qed.
Print Assumptions C18_nonces_gap_free.

Theorem C18_no_nonce_shared : forall prog sched t1 t2 n, let s := run sched (init prog) in
  In n (held (thr s t1)) -> In n (held (thr s t2)) -> t1 = t2.
Proof. exact no_nonce_shared. Qed.
Print Assumptions C18_no_nonce_shared.

Theorem C18_no_nonce_twice : forall prog sched t, NoDup (held (thr (run sched (init prog)) t)).
Proof. exact no_nonce_twice. Qed.
Print Assumptions C18_no_nonce_twice.

Theorem C18_key_seeded_at_most_once : forall prog sched, seeds (run sched (init prog)) <= 1.
Proof. exact key_seeded_at_most_once. Qed.
Print Assumptions C18_key_seeded_at_most_once.
