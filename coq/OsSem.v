(* Statement-level semantics used by tools/cxxos2coq.py for lib/prng/randombytes.cpp: structured control flow with break / continue as
   outcomes, loops with explicit fuel (None when exhausted: the call is still blocked), and the operating system as a script of answers
   consumed in order -- open(2) fails or returns a descriptor, read(2) fails, returns 0, or delivers between 1 and `count` bytes; sleep(3)
   only counts.  An answer of the wrong kind, an exhausted script, or read() delivering more than asked have no result (outside the model). *)
From Coq Require Import ZArith List Bool.
Import ListNotations.
Local Open Scope Z_scope.

Inductive ev := OpenFail | OpenOk (fd : Z) | ReadErr | ReadZero | ReadData (bytes : list Z).
Inductive out (S : Type) := Norm (s : S) | Brk (s : S) | Cont (s : S).
Arguments Norm {S} s. Arguments Brk {S} s. Arguments Cont {S} s.
Definition stmt (S : Type) := S -> option (out S).

Section Control.
Context {S : Type}.
Definition sskip : stmt S := fun s => Some (Norm s).
Definition sbreak : stmt S := fun s => Some (Brk s).
Definition scontinue : stmt S := fun s => Some (Cont s).
Definition sassign (f : S -> option S) : stmt S := fun s => match f s with Some s' => Some (Norm s') | None => None end.
Definition sseq (a b : stmt S) : stmt S := fun s => match a s with Some (Norm s') => b s' | r => r end.
Definition sif (c : S -> bool) (a : stmt S) : stmt S := fun s => if c s then a s else Some (Norm s).
(* for (;;) body  /  while (c) body : break leaves the loop, continue and normal completion start the next iteration *)
Fixpoint sloop (fuel : nat) (body : stmt S) (s : S) : option (out S) :=
  match fuel with O => None | Datatypes.S f => match body s with Some (Norm s') | Some (Cont s') => sloop f body s' | Some (Brk s') => Some (Norm s') | None => None end end.
Definition swhile (fuel : nat) (c : S -> bool) (body : stmt S) : stmt S := sloop fuel (fun s => if c s then body s else Some (Brk s)).
End Control.

(* the operating system *)
Definition os_open (evs : list ev) : option (Z * list ev) :=
  match evs with OpenFail :: r => Some (-1, r) | OpenOk fd :: r => if (0 <=? fd) && (fd <? 2 ^ 31) then Some (fd, r) else None | _ => None end.
Definition os_read (evs : list ev) (count : Z) : option (Z * list Z * list ev) :=
  match evs with
  | ReadErr :: r => Some (-1, [], r)
  | ReadZero :: r => Some (0, [], r)
  | ReadData bs :: r => if (1 <=? Z.of_nat (length bs)) && (Z.of_nat (length bs) <=? count) then Some (Z.of_nat (length bs), bs, r) else None
  | _ => None
  end.
(* the bytes read(2) delivered are stored at buf[off ..]; a store outside the buffer has no result *)
Definition store_bytes (buf : list Z) (off : Z) (bs : list Z) : option (list Z) :=
  if (0 <=? off) && (off + Z.of_nat (length bs) <=? Z.of_nat (length buf)) then Some (firstn (Z.to_nat off) buf ++ bs ++ skipn (Z.to_nat off + length bs) buf) else None.

(* nfl::randombytes(buf, n) as an oracle (its own behaviour is C19): the first n bytes of buf become the next n bytes of the key tape *)
Definition rb_fill (buf : list Z) (n : Z) (tape : list Z) : option (list Z * list Z) :=
  if (0 <=? n) && (n <=? Z.of_nat (length buf)) && (n <=? Z.of_nat (length tape)) then Some (firstn (Z.to_nat n) tape ++ skipn (Z.to_nat n) buf, skipn (Z.to_nat n) tape) else None.
(* the keystream routine (the assembly nfl_crypto_stream_salsa20_amd64_xmm6) as an oracle: `stream key nonce len` is written at r[off .. off+len) *)
Definition stream_write (stream : list Z -> list Z -> nat -> list Z) (buf : list Z) (off len : Z) (nonce key : list Z) : option (list Z) :=
  if (0 <=? off) && (0 <=? len) && (off + len <=? Z.of_nat (length buf)) then Some (firstn (Z.to_nat off) buf ++ stream key nonce (Z.to_nat len) ++ skipn (Z.to_nat off + Z.to_nat len) buf) else None.
