(* nfl::randombytes translated from lib/prng/randombytes.cpp (gen/GenOs.v) simulates the hand-written model RandBytes.randombytes on which
   C19 is stated: on every script of OS answers on which the model completes, the translated function completes (given fuel for one loop
   iteration per answer), consumes the same answers, sleeps as often, leaves the descriptor open, and stores exactly the model's bytes at
   x[0 .. xlen).  The theorems of RandBytes.v (exactly xlen bytes, the delivered ones, in order; at most one successful open) thereby hold
   of the translated code. *)
From Coq Require Import ZArith List Lia Bool Arith.
From NTT Require Import CxxSem OsSem.
From NTT Require RandBytes SamplerSpec.
From NTT.gen Require Import GenOs.
Import ListNotations.
Local Open Scope Z_scope.

Definition tr (e : OsSem.ev) : RandBytes.ev :=
  match e with OsSem.OpenFail => RandBytes.OpenFail | OsSem.OpenOk _ => RandBytes.OpenOk | OsSem.ReadErr => RandBytes.ReadErr | OsSem.ReadZero => RandBytes.ReadZero
             | OsSem.ReadData bs => RandBytes.ReadData (map Z.to_nat bs) end.
Definition ev_ok (e : OsSem.ev) : Prop := match e with OsSem.OpenOk fd => 0 <= fd < 2 ^ 31 | OsSem.ReadData bs => Forall (fun b => 0 <= b) bs | _ => True end.

Lemma chunk_Z : Z.of_nat RandBytes.CHUNK = 1048576.
Proof. Local Transparent RandBytes.CHUNK. unfold RandBytes.CHUNK. rewrite Nat2Z.inj_pow. reflexivity. Qed.
Global Opaque RandBytes.CHUNK.
Lemma map_of_to (bs : list Z) : Forall (fun b => 0 <= b) bs -> map Z.of_nat (map Z.to_nat bs) = bs.
Proof. induction 1 as [|b bs Hb _ IH]; [reflexivity|]. cbn [map]. rewrite IH, Z2Nat.id by exact Hb. reflexivity. Qed.

Lemma sw_small_pos b v : 0 < b -> 0 <= v < 2 ^ (b - 1) -> sw b v = v.
Proof.
  intros Hb Hv. unfold sw. cbv zeta. assert (E : 2 ^ b = 2 * 2 ^ (b - 1)) by (replace b with (1 + (b - 1)) at 1 by lia; rewrite Z.pow_add_r by lia; reflexivity).
  rewrite Z.mod_small by lia. destruct (Z.ltb_spec v (2 ^ (b - 1))); [reflexivity | lia].
Qed.
Lemma sloop_S {S} f (body : stmt S) s : sloop (Datatypes.S f) body s = match body s with Some (Norm s') | Some (Cont s') => sloop f body s' | Some (Brk s') => Some (Norm s') | None => None end.
Proof. reflexivity. Qed.

(* the pieces of the generated function *)
Definition open_body : stmt st := (sseq (sassign (fun s => bind (os_open (w_os s)) (fun '(r, rest) => Some (set_w_os (set_v_fd s r) rest)))) (sseq (sif (fun s => (negb ((v_fd s) =? (- 1)))) sbreak) (sassign (fun s => Some (set_w_sleeps s (w_sleeps s + 1)))))).
Definition read_cond : st -> bool := (fun s => ((v_xlen s) >? 0)).
Definition read_body : stmt st := (sseq (sassign (fun s => Some (set_v_i s (sw 32 (if ((v_xlen s) <? 1048576) then (v_xlen s) else 1048576))))) (sseq (sassign (fun s => bind (os_read (w_os s) (uw 64 (v_i s))) (fun '(r, bs, rest) => bind (store_bytes (b_x s) (o_x s) bs) (fun nb => if (v_fd s) =? (-1) then None else Some (set_w_os (set_b_x (set_v_i s (sw 32 r)) nb) rest))))) (sseq (sif (fun s => ((v_i s) <? 1)) (sseq (sassign (fun s => Some (set_w_sleeps s (w_sleeps s + 1)))) scontinue)) (sseq (sassign (fun s => Some (set_o_x s (o_x s + (v_i s))))) (sassign (fun s => Some (set_v_xlen s (uw 64 ((v_xlen s) - (uw 64 (v_i s))))))))))).
Lemma gen_shape fuel : gen_randombytes fuel = sseq (sif (fun s => ((v_fd s) =? (- 1))) (sloop fuel open_body)) (swhile fuel read_cond read_body).
Proof. reflexivity. Qed.

(* ---- the open loop ---- *)
Lemma open_sim : forall evs s hs hs' rest', Forall ev_ok evs -> RandBytes.fd_open hs = false ->
  RandBytes.open_loop (map tr evs) hs = Some (hs', rest') -> w_os s = evs ->
  forall fuel, (length evs < fuel)%nat ->
  exists s' used, sloop fuel open_body s = Some (Norm s') /\ evs = used ++ w_os s' /\ map tr (w_os s') = rest' /\ v_fd s' <> -1 /\
    v_xlen s' = v_xlen s /\ b_x s' = b_x s /\ o_x s' = o_x s /\ w_sleeps s' = w_sleeps s + Z.of_nat (RandBytes.sleeps hs' - RandBytes.sleeps hs) /\ (RandBytes.sleeps hs <= RandBytes.sleeps hs')%nat.
Proof.
  induction evs as [|e evs IH]; intros s hs hs' rest' Hok Hf H Hos fuel Hfu.
  - cbn [map RandBytes.open_loop] in H. rewrite Hf in H. discriminate.
  - destruct fuel as [|fuel]; [cbn in Hfu; lia|]. cbn [map RandBytes.open_loop] in H. rewrite Hf in H. inversion Hok as [|e' l' He Hrest]; subst e' l'.
    rewrite sloop_S. unfold open_body at 1. unfold sseq at 1, sassign at 1. rewrite Hos.
    destruct e as [|fd| | |bs]; cbn [tr] in H; try discriminate H.
    + (* open fails: sleep, next iteration *)
      cbn [os_open bind]. unfold sseq, sif, sassign. cbn [v_fd set_w_os set_v_fd]. change ((-1 =? -1)) with true. cbn [negb].
      set (s1 := set_w_sleeps (set_w_os (set_v_fd s (-1)) evs) (w_sleeps (set_w_os (set_v_fd s (-1)) evs) + 1)).
      destruct (IH s1 {| RandBytes.fd_open := false; RandBytes.opens_ok := RandBytes.opens_ok hs; RandBytes.sleeps := S (RandBytes.sleeps hs); RandBytes.asked := RandBytes.asked hs |} hs' rest' Hrest eq_refl H eq_refl fuel ltac:(cbn in Hfu; lia))
        as (s' & used & E & Eu & Et & Efd & E1 & E2 & E3 & E4 & E5).
      exists s', (OsSem.OpenFail :: used). cbn [RandBytes.sleeps] in E4, E5. split; [exact E|]. split; [cbn [app]; rewrite <- Eu; reflexivity|].
      repeat split; try assumption; try lia. rewrite E4. unfold s1. cbn. lia.
    + (* open succeeds *)
      cbn [ev_ok] in He. cbn [os_open]. replace ((0 <=? fd) && (fd <? 2 ^ 31)) with true by (symmetry; apply andb_true_iff; split; [apply Z.leb_le | apply Z.ltb_lt]; lia). cbn [bind].
      unfold sseq, sif, sbreak. cbn [v_fd set_w_os set_v_fd]. replace (fd =? -1) with false by (symmetry; apply Z.eqb_neq; lia). cbn [negb].
      inversion H; subst hs' rest'. exists (set_w_os (set_v_fd s fd) evs), [OsSem.OpenOk fd]. cbn. repeat split; try reflexivity; try lia.
Qed.

(* ---- the read loop ---- *)
Lemma read_done s (hs : RandBytes.st) (out : list nat) evs fuel : v_xlen s = Z.of_nat 0 -> w_os s = evs ->
  swhile (S fuel) read_cond read_body s = Some (Norm s) /\ out = (out ++ [])%list /\ length (@nil nat) = 0%nat /\ v_xlen s = 0 /\ v_fd s = v_fd s /\ map tr (w_os s) = map tr evs /\
    o_x s = o_x s + Z.of_nat 0 /\ w_sleeps s = w_sleeps s + Z.of_nat (RandBytes.sleeps hs - RandBytes.sleeps hs) /\ (RandBytes.sleeps hs <= RandBytes.sleeps hs)%nat /\
    b_x s = (firstn (Z.to_nat (o_x s)) (b_x s) ++ map Z.of_nat [] ++ skipn (Z.to_nat (o_x s) + 0) (b_x s))%list.
Proof.
  intros Hx Hos. split; [unfold swhile; rewrite sloop_S; unfold read_cond; rewrite Hx; reflexivity|].
  split; [rewrite app_nil_r; reflexivity|]. split; [reflexivity|]. split; [exact Hx|]. split; [reflexivity|]. split; [rewrite Hos; reflexivity|].
  split; [cbn; lia|]. split; [rewrite Nat.sub_diag; cbn; lia|]. split; [lia|]. cbn [map app]. rewrite Nat.add_0_r, firstn_skipn. reflexivity.
Qed.

Lemma read_sim : forall evs s hs rem out hs' res rest', Forall ev_ok evs ->
  RandBytes.read_loop (map tr evs) hs rem out = Some (hs', res, rest') ->
  w_os s = evs -> v_xlen s = Z.of_nat rem -> v_fd s <> -1 -> Z.of_nat rem < 2 ^ 62 -> 0 <= o_x s -> o_x s + Z.of_nat rem <= Z.of_nat (length (b_x s)) ->
  forall fuel, (length evs < fuel)%nat ->
  exists s' nb, swhile fuel read_cond read_body s = Some (Norm s') /\ res = (out ++ nb)%list /\ length nb = rem /\ v_xlen s' = 0 /\ v_fd s' = v_fd s /\ map tr (w_os s') = rest' /\
    o_x s' = o_x s + Z.of_nat rem /\ w_sleeps s' = w_sleeps s + Z.of_nat (RandBytes.sleeps hs' - RandBytes.sleeps hs) /\ (RandBytes.sleeps hs <= RandBytes.sleeps hs')%nat /\
    b_x s' = (firstn (Z.to_nat (o_x s)) (b_x s) ++ map Z.of_nat nb ++ skipn (Z.to_nat (o_x s) + rem) (b_x s))%list.
Proof.
  induction evs as [|e evs IH]; intros s hs rem out hs' res rest' Hok H Hos Hx Hfd Hsm Ho Hroom fuel Hfu.
  - destruct fuel as [|fuel]; [cbn in Hfu; lia|]. destruct rem as [|rem]; cbn [map RandBytes.read_loop] in H; [|discriminate]. inversion H; subst hs' res rest'.
    exists s, []. apply (read_done s hs out [] fuel Hx Hos).
  - destruct fuel as [|fuel]; [cbn in Hfu; lia|]. destruct rem as [|rem].
    + cbn [map RandBytes.read_loop] in H. inversion H; subst hs' res rest'.
      exists s, []. apply (read_done s hs out (e :: evs) fuel Hx Hos).
    + inversion Hok as [|e' l' He Hrest]; subst e' l'.
      unfold swhile. rewrite sloop_S. fold (swhile fuel read_cond read_body). unfold read_cond at 1. rewrite Hx.
      replace (Z.of_nat (S rem) >? 0) with true by (symmetry; rewrite Z.gtb_ltb; apply Z.ltb_lt; lia).
      (* the size asked *)
      set (ask := Nat.min (S rem) RandBytes.CHUNK). pose proof chunk_Z as HC.
      assert (Eask : (if Z.of_nat (S rem) <? 1048576 then Z.of_nat (S rem) else 1048576) = Z.of_nat ask).
      { unfold ask. destruct (Z.ltb_spec (Z.of_nat (S rem)) 1048576); [rewrite Nat.min_l by lia; reflexivity | rewrite Nat.min_r by lia; lia]. }
      assert (Rask : 1 <= Z.of_nat ask <= 1048576) by (unfold ask; pose proof RandBytes.CHUNK_pos; lia). clear HC.
      unfold read_body at 1. unfold sseq at 1, sassign at 1. rewrite Hx, Eask. rewrite (sw_small_pos 32 (Z.of_nat ask) ltac:(lia)) by (change (2 ^ (32 - 1)) with 2147483648; lia).
      set (s1 := set_v_i s (Z.of_nat ask)). unfold sseq at 1, sassign at 1.
      change (w_os s1) with (w_os s). change (v_i s1) with (Z.of_nat ask). change (b_x s1) with (b_x s). change (o_x s1) with (o_x s). change (v_fd s1) with (v_fd s).
      rewrite Hos. rewrite (uw_small 64 (Z.of_nat ask)) by (change (2 ^ 64) with 18446744073709551616; lia).
      cbn [map RandBytes.read_loop] in H. fold ask in H. assert (Hask : (ask <= S rem)%nat) by (unfold ask; lia). clearbody ask.
      destruct e as [|fd| | |bs]; cbn [tr] in H; try discriminate H.
      * (* read fails *)
        cbn [os_read bind]. unfold store_bytes. cbn [length Z.of_nat]. replace ((0 <=? o_x s) && (o_x s + 0 <=? Z.of_nat (length (b_x s)))) with true by (symmetry; apply andb_true_iff; split; apply Z.leb_le; lia).
        cbn [bind app]. replace (v_fd s =? -1) with false by (symmetry; apply Z.eqb_neq; exact Hfd).
        rewrite Nat.add_0_r, firstn_skipn. change (sw 32 (-1)) with (-1).
        set (s2 := set_w_os (set_b_x (set_v_i s1 (-1)) (b_x s)) evs). unfold sseq at 1, sif at 1. change (v_i s2) with (-1). change (-1 <? 1) with true.
        unfold sseq at 1, sassign at 1, scontinue.
        set (s3 := set_w_sleeps s2 (w_sleeps s2 + 1)).
        destruct (IH s3 (RandBytes.note_read hs ask true) (S rem) out hs' res rest' Hrest H eq_refl Hx Hfd Hsm Ho Hroom fuel ltac:(cbn in Hfu; lia))
          as (s' & nb & E & Er & El & E0 & Ef & Et & Eo & Es & Es' & Eb).
        exists s', nb. cbn [RandBytes.note_read RandBytes.sleeps] in Es, Es'. repeat split; try assumption; try lia. rewrite Es. unfold s3, s2, s1. cbn. lia.
      * (* read returns 0 *)
        cbn [os_read bind]. unfold store_bytes. cbn [length Z.of_nat]. replace ((0 <=? o_x s) && (o_x s + 0 <=? Z.of_nat (length (b_x s)))) with true by (symmetry; apply andb_true_iff; split; apply Z.leb_le; lia).
        cbn [bind app]. replace (v_fd s =? -1) with false by (symmetry; apply Z.eqb_neq; exact Hfd).
        rewrite Nat.add_0_r, firstn_skipn. change (sw 32 0) with 0.
        set (s2 := set_w_os (set_b_x (set_v_i s1 0) (b_x s)) evs). unfold sseq at 1, sif at 1. change (v_i s2) with 0. change (0 <? 1) with true.
        unfold sseq at 1, sassign at 1, scontinue.
        set (s3 := set_w_sleeps s2 (w_sleeps s2 + 1)).
        destruct (IH s3 (RandBytes.note_read hs ask true) (S rem) out hs' res rest' Hrest H eq_refl Hx Hfd Hsm Ho Hroom fuel ltac:(cbn in Hfu; lia))
          as (s' & nb & E & Er & El & E0 & Ef & Et & Eo & Es & Es' & Eb).
        exists s', nb. cbn [RandBytes.note_read RandBytes.sleeps] in Es, Es'. repeat split; try assumption; try lia. rewrite Es. unfold s3, s2, s1. cbn. lia.
      * (* data *)
        cbn [ev_ok] in He. rewrite map_length in H.
        destruct ((1 <=? length bs)%nat && (length bs <=? ask)%nat) eqn:C; [|discriminate]. apply andb_true_iff in C. destruct C as [C1 C2]. apply Nat.leb_le in C1, C2.
        cbn [os_read]. replace ((1 <=? Z.of_nat (length bs)) && (Z.of_nat (length bs) <=? Z.of_nat ask)) with true by (symmetry; apply andb_true_iff; split; apply Z.leb_le; lia). cbn [bind].
        assert (Hlb : (length bs <= S rem)%nat) by lia.
        unfold store_bytes. replace ((0 <=? o_x s) && (o_x s + Z.of_nat (length bs) <=? Z.of_nat (length (b_x s)))) with true by (symmetry; apply andb_true_iff; split; apply Z.leb_le; lia).
        cbn [bind]. replace (v_fd s =? -1) with false by (symmetry; apply Z.eqb_neq; exact Hfd).
        rewrite (sw_small_pos 32 (Z.of_nat (length bs)) ltac:(lia)) by (change (2 ^ (32 - 1)) with 2147483648; lia).
        set (B1 := (firstn (Z.to_nat (o_x s)) (b_x s) ++ bs ++ skipn (Z.to_nat (o_x s) + length bs) (b_x s))%list).
        set (s2 := set_w_os (set_b_x (set_v_i s1 (Z.of_nat (length bs))) B1) evs). unfold sseq at 1, sif at 1. change (v_i s2) with (Z.of_nat (length bs)).
        replace (Z.of_nat (length bs) <? 1) with false by (symmetry; apply Z.ltb_ge; lia).
        unfold sseq at 1, sassign at 1. set (s3 := set_o_x s2 (o_x s2 + v_i s2)). unfold sassign at 1.
        change (v_xlen s3) with (v_xlen s). change (v_i s3) with (Z.of_nat (length bs)). rewrite Hx.
        rewrite (uw_small 64 (Z.of_nat (length bs))) by (change (2 ^ 64) with 18446744073709551616; lia).
        rewrite (uw_small 64 (Z.of_nat (S rem) - Z.of_nat (length bs))) by (change (2 ^ 64) with 18446744073709551616; change (2 ^ 62) with 4611686018427387904 in Hsm; lia).
        set (s4 := set_v_xlen s3 (Z.of_nat (S rem) - Z.of_nat (length bs))).
        assert (LB1 : length B1 = length (b_x s)).
        { unfold B1. rewrite !app_length, firstn_length, skipn_length. lia. }
        destruct (IH s4 (RandBytes.note_read hs ask false) (S rem - length bs)%nat (out ++ map Z.to_nat bs)%list hs' res rest' Hrest H eq_refl
                    ltac:(unfold s4; cbn [v_xlen set_v_xlen]; lia) Hfd ltac:(lia) ltac:(unfold s4, s3, s2, s1; cbn [o_x set_v_xlen set_o_x set_w_os set_b_x set_v_i v_i]; lia) ltac:(unfold s4, s3, s2, s1; cbn [o_x b_x set_v_xlen set_o_x set_w_os set_b_x set_v_i v_i]; rewrite LB1; lia) fuel ltac:(cbn [length] in Hfu; lia))
          as (s' & nb & E & Er & El & E0 & Ef & Et & Eo & Es & Es' & Eb).
        exists s', (map Z.to_nat bs ++ nb)%list. cbn [RandBytes.note_read RandBytes.sleeps] in Es, Es'.
        split; [exact E|]. split; [rewrite Er, <- app_assoc; reflexivity|]. split; [rewrite app_length, map_length, El; lia|].
        split; [exact E0|]. split; [rewrite Ef; reflexivity|]. split; [exact Et|].
        split; [rewrite Eo; unfold s4, s3, s2, s1; cbn [o_x set_v_xlen set_o_x set_w_os set_b_x set_v_i v_i]; lia|]. split; [rewrite Es; unfold s4, s3, s2, s1; cbn [w_sleeps set_v_xlen set_o_x set_w_os set_b_x set_v_i]; lia|]. split; [exact Es'|].
        rewrite Eb. unfold s4, s3, s2, s1. cbn [b_x o_x set_v_xlen set_o_x set_w_os set_b_x set_v_i v_i].
        rewrite map_app, (map_of_to bs He).
        replace (Z.to_nat (o_x s + Z.of_nat (length bs))) with (Z.to_nat (o_x s) + length bs)%nat by lia.
        set (a := Z.to_nat (o_x s)). assert (Ha : (a + length bs <= length (b_x s))%nat) by (unfold a; lia).
        unfold B1. fold a.
        assert (F1 : firstn (a + length bs) (firstn a (b_x s) ++ bs ++ skipn (a + length bs) (b_x s)) = (firstn a (b_x s) ++ bs)%list).
        { rewrite app_assoc. assert (L : length (firstn a (b_x s) ++ bs) = (a + length bs)%nat) by (rewrite app_length, firstn_length; lia).
          rewrite <- L. rewrite <- (Nat.add_0_r (length (firstn a (b_x s) ++ bs))). rewrite firstn_app_2. cbn [firstn]. rewrite app_nil_r. reflexivity. }
        assert (F2 : skipn (a + length bs + (S rem - length bs)) (firstn a (b_x s) ++ bs ++ skipn (a + length bs) (b_x s)) = skipn (a + S rem) (b_x s)).
        { rewrite app_assoc. assert (L : length (firstn a (b_x s) ++ bs) = (a + length bs)%nat) by (rewrite app_length, firstn_length; lia).
          rewrite skipn_app. rewrite skipn_all2 by lia. cbn [app]. rewrite L. replace (a + length bs + (S rem - length bs) - (a + length bs))%nat with (S rem - length bs)%nat by lia.
          rewrite SamplerSpec.skipn_add'. f_equal. lia. }
        rewrite F1, F2. rewrite <- !app_assoc. reflexivity.
Qed.

(* ---- one call ---- *)
Theorem source_randombytes evs s hs xlen hs' out rest' : Forall ev_ok evs -> w_os s = evs -> v_xlen s = Z.of_nat xlen -> Z.of_nat xlen < 2 ^ 62 ->
  0 <= o_x s -> o_x s + Z.of_nat xlen <= Z.of_nat (length (b_x s)) -> RandBytes.fd_open hs = negb (v_fd s =? -1) ->
  RandBytes.randombytes (map tr evs) hs xlen = Some (hs', out, rest') ->
  forall fuel, (length evs < fuel)%nat ->
  exists s', gen_randombytes fuel s = Some (Norm s') /\ v_xlen s' = 0 /\ v_fd s' <> -1 /\ map tr (w_os s') = rest' /\ length out = xlen /\
    b_x s' = (firstn (Z.to_nat (o_x s)) (b_x s) ++ map Z.of_nat out ++ skipn (Z.to_nat (o_x s) + xlen) (b_x s))%list /\
    o_x s' = o_x s + Z.of_nat xlen /\ w_sleeps s' = w_sleeps s + Z.of_nat (RandBytes.sleeps hs' - RandBytes.sleeps hs).
Proof.
  intros Hok Hos Hx Hsm Ho Hroom Hrel H fuel Hfu. rewrite gen_shape. unfold RandBytes.randombytes in H.
  destruct (RandBytes.open_loop (map tr evs) hs) as [[h1 r1]|] eqn:EO; [|discriminate].
  unfold sseq at 1, sif at 1.
  destruct (Z.eqb_spec (v_fd s) (-1)) as [Efd|Efd]; cbn [negb] in Hrel.
  - (* the descriptor is not open yet *)
    destruct (open_sim evs s hs h1 r1 Hok Hrel EO Hos fuel Hfu) as (s1 & used & E1 & Eu & Et & Ef1 & Ex1 & Eb1 & Eo1 & Es1 & Es1').
    rewrite E1.
    assert (Hok1 : Forall ev_ok (w_os s1)) by (rewrite Eu in Hok; apply Forall_app in Hok; tauto).
    assert (Hl1 : (length (w_os s1) < fuel)%nat) by (rewrite Eu in Hfu; rewrite app_length in Hfu; lia).
    rewrite <- Et in H.
    destruct (read_sim (w_os s1) s1 h1 xlen [] hs' out rest' Hok1 H eq_refl ltac:(rewrite Ex1; exact Hx) Ef1 Hsm ltac:(rewrite Eo1; exact Ho) ltac:(rewrite Eo1, Eb1; exact Hroom) fuel Hl1)
      as (s' & nb & E & Er & El & E0 & Ef & Et' & Eo & Es & Es' & Eb).
    exists s'. cbn [app] in Er. subst out. split; [exact E|]. split; [exact E0|]. split; [rewrite Ef; exact Ef1|]. split; [exact Et'|]. split; [exact El|].
    split; [rewrite Eb, Eo1, Eb1; reflexivity|]. split; [rewrite Eo, Eo1; reflexivity|]. rewrite Es, Es1. lia.
  - (* already open: the model's open loop returns at once *)
    destruct (map tr evs) as [|e0 r0] eqn:Em; cbn [RandBytes.open_loop] in EO; rewrite Hrel in EO; inversion EO; subst h1 r1; rewrite <- Em in H;
      (destruct (read_sim evs s hs xlen [] hs' out rest' Hok H Hos Hx Efd Hsm Ho Hroom fuel Hfu) as (s' & nb & E & Er & El & E0 & Ef & Et' & Eo & Es & Es' & Eb);
       exists s'; cbn [app] in Er; subst out; split; [exact E|]; split; [exact E0|]; split; [rewrite Ef; exact Efd|]; split; [exact Et'|]; split; [exact El|];
       split; [exact Eb|]; split; [exact Eo|]; exact Es).
Qed.
