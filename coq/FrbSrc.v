(* nfl::fastrandombytes translated from lib/prng/fastrandombytes.cpp (gen/GenOs.v, module Frb: the sequential meaning of one request; the
   atomicity of the counter and of the one-time seeding under threads is C18) is one step of the generator state machine of Prng.v on which
   C13 is stated: the key is drawn on first use only, the eight nonce bytes written by the shift loop are the little-endian encoding of the
   counter value the request took, the counter advances by one modulo 2^64, and the caller's buffer receives `stream key nonce len` at
   r[0 .. len) and nothing else.  The keystream routine is an oracle (the assembly is compared with the Gallina Salsa20 by the check). *)
From Coq Require Import ZArith List Lia Bool Arith.
From NTT Require Import CxxSem MemSem OsSem Small Salsa Prng.
From NTT Require SamplerSpec.
From NTT.gen Require Import GenOs.
Import ListNotations.
Local Open Scope Z_scope.
Import Frb.

Lemma swhile_steps {S} (Q : nat -> S) (c : S -> bool) (b : stmt S) k : (forall j, (j < k)%nat -> c (Q j) = true /\ b (Q j) = Some (Norm (Q (Datatypes.S j)))) -> c (Q k) = false ->
  forall fuel, (k < fuel)%nat -> swhile fuel c b (Q 0%nat) = Some (Norm (Q k)).
Proof.
  intros H Hk. assert (G : forall m j fuel, (j + m = k)%nat -> (m < fuel)%nat -> swhile fuel c b (Q j) = Some (Norm (Q k))).
  { induction m as [|m IH]; intros j fuel Hj Hf; destruct fuel as [|fuel]; try lia; unfold swhile; cbn [sloop].
    - replace j with k by lia. rewrite Hk. reflexivity.
    - destruct (H j ltac:(lia)) as [C B]. rewrite C, B. apply IH; lia. }
  intros fuel Hf. apply (G k 0%nat fuel); lia.
Qed.

Lemma le_encode_nth m : forall x j, (j < m)%nat -> nth j (le_encode m x) 0 = (x / 256 ^ Z.of_nat j) mod 256.
Proof.
  induction m as [|m IH]; intros x j Hj; [lia|]. cbn [le_encode]. destruct j as [|j]; cbn [nth].
  - change (256 ^ Z.of_nat 0) with 1. rewrite Z.div_1_r. reflexivity.
  - rewrite IH by lia. rewrite Nat2Z.inj_succ, Z.pow_succ_r by lia. rewrite Z.div_div by (try lia; apply Z.pow_pos_nonneg; lia). reflexivity.
Qed.
Lemma firstn_S_le m x j : (j < m)%nat -> firstn (S j) (le_encode m x) = (firstn j (le_encode m x) ++ [(x / 256 ^ Z.of_nat j) mod 256])%list.
Proof. intros Hj. rewrite (SamplerSpec.firstn_S_nth' (le_encode m x) j) by (rewrite le_encode_length; exact Hj). rewrite le_encode_nth by exact Hj. reflexivity. Qed.

Definition nonce_loop_body : stmt st := (sseq (sassign (fun s => (bind (chk 32 (8 * (v_i s))) (fun s_1 => bind (MemSem.st (a_nonce s) (v_i s) (uw 8 (Z.land ((v_n s) / 2 ^ s_1) 255))) (fun na => Some (set_a_nonce s na)))))) (sassign (fun s => (bind (chk 32 ((v_i s) + 1)) (fun s_2 => Some (set_v_i s s_2)))))).

Lemma firstn_exact' (a b : list Z) : firstn (length a) (a ++ b) = a.
Proof. rewrite <- (Nat.add_0_r (length a)). rewrite firstn_app_2. cbn [firstn]. apply app_nil_r. Qed.
Lemma skipn_exact' (a b : list Z) c : skipn (length a + c) (a ++ b) = skipn c b.
Proof. induction a as [|x a IH]; [reflexivity|]. cbn [length app Nat.add skipn]. exact IH. Qed.

Lemma nonce_loop s fuel : length (a_nonce s) = 8%nat -> 0 <= v_n s -> (8 < fuel)%nat ->
  swhile fuel (fun s => ((uw 64 (v_i s)) <? 8)) nonce_loop_body (set_v_i s 0) = Some (Norm (set_v_i (set_a_nonce s (le_encode 8 (v_n s))) 8)).
Proof.
  intros Hl Hn Hf.
  set (Q := fun j : nat => set_v_i (set_a_nonce s (firstn j (le_encode 8 (v_n s)) ++ skipn j (a_nonce s))%list) (Z.of_nat j)).
  assert (E0 : set_v_i s 0 = Q 0%nat) by (unfold Q; cbn [firstn skipn app]; destruct s; reflexivity).
  assert (E8 : set_v_i (set_a_nonce s (le_encode 8 (v_n s))) 8 = Q 8%nat).
  { unfold Q. rewrite firstn_all2 by (rewrite le_encode_length; lia). rewrite skipn_all2 by lia. rewrite app_nil_r. reflexivity. }
  rewrite E0, E8. apply swhile_steps; [| unfold Q; cbn [v_i set_v_i]; reflexivity | exact Hf].
  intros j Hj. split; [unfold Q; cbn [v_i set_v_i]; rewrite uw_small by (change (2 ^ 64) with 18446744073709551616; lia); apply Z.ltb_lt; lia|].
  unfold nonce_loop_body, sseq, sassign. unfold Q. cbn [v_i v_n a_nonce set_v_i set_a_nonce].
  rewrite chk_ok by (change (2 ^ (32 - 1)) with 2147483648; lia). cbn [bind].
  set (A := (firstn j (le_encode 8 (v_n s)) ++ skipn j (a_nonce s))%list).
  assert (LA : length A = 8%nat) by (unfold A; rewrite app_length, firstn_length, skipn_length, le_encode_length; lia).
  rewrite st_some by lia. cbn [bind]. rewrite Nat2Z.id.
  cbn [v_i set_v_i set_a_nonce]. rewrite chk_ok by (change (2 ^ (32 - 1)) with 2147483648; lia). cbn [bind].
  assert (Ev : uw 8 (Z.land (v_n s / 2 ^ (8 * Z.of_nat j)) 255) = (v_n s / 256 ^ Z.of_nat j) mod 256).
  { change 255 with (Z.ones 8). rewrite Z.land_ones by lia. change (2 ^ 8) with 256. rewrite Z.pow_mul_r by lia. change (2 ^ 8) with 256.
    apply uw_small. pose proof (Z.mod_pos_bound (v_n s / 256 ^ Z.of_nat j) 256 ltac:(lia)). change (2 ^ 8) with 256. lia. }
  rewrite Ev. f_equal. f_equal.
  assert (EA : upd j ((v_n s / 256 ^ Z.of_nat j) mod 256) A = (firstn (S j) (le_encode 8 (v_n s)) ++ skipn (S j) (a_nonce s))%list).
  { unfold A. rewrite firstn_S_le by lia. set (F := firstn j (le_encode 8 (v_n s))). assert (LF : length F = j) by (unfold F; rewrite firstn_length, le_encode_length; lia).
    rewrite upd_splice by (rewrite app_length, LF, skipn_length; lia). unfold splice. rewrite <- LF at 1. rewrite firstn_exact'. cbn [length].
    rewrite <- LF at 2. rewrite skipn_exact'. rewrite <- app_assoc. cbn [app]. rewrite SamplerSpec.skipn_add'. replace (j + 1)%nat with (S j) by lia. reflexivity. }
  rewrite EA. replace (Z.of_nat j + 1) with (Z.of_nat (S j)) by lia. destruct s. reflexivity.
Qed.

(* ---- one request ---- *)
Theorem source_fastrandombytes (s : st) (gs : gst) fuel len : length (a_key s) = 32%nat -> length (a_nonce s) = 8%nat -> 0 <= v_nonce_counter s < 2 ^ 64 ->
  v_rlen s = Z.of_nat len -> 0 <= o_r s -> o_r s + Z.of_nat len <= Z.of_nat (length (b_r s)) -> (8 < fuel)%nat ->
  (g_seeded s = 0 -> (32 <= length (w_keytape s))%nat) ->
  g_init gs = negb (g_seeded s =? 0) -> (g_init gs = true -> g_key gs = a_key s) -> g_nonce gs = le_encode 8 (v_nonce_counter s) ->
  let oskey := firstn 32 (w_keytape s) in
  exists s', gen_fastrandombytes stream fuel s = Some (Norm s') /\
    b_r s' = write_mem (b_r s) (Z.to_nat (o_r s)) (snd (frb oskey gs len)) /\
    g_init (fst (frb oskey gs len)) = negb (g_seeded s' =? 0) /\ g_key (fst (frb oskey gs len)) = a_key s' /\ g_nonce (fst (frb oskey gs len)) = le_encode 8 (v_nonce_counter s') /\
    v_nonce_counter s' = (v_nonce_counter s + 1) mod 2 ^ 64 /\ a_nonce s' = le_encode 8 (v_nonce_counter s) /\
    w_keytape s' = (if g_seeded s =? 0 then skipn 32 (w_keytape s) else w_keytape s) /\ length (a_key s') = 32%nat /\ o_r s' = o_r s.
Proof.
  intros Lk Ln Hc Hr Ho Hroom Hf Htape Ri Rk Rn oskey.
  (* the one-time seeding *)
  set (s1 := if g_seeded s =? 0 then set_g_seeded (set_v_seeded (set_w_keytape (set_a_key s (firstn 32 (w_keytape s) ++ skipn 32 (a_key s))%list) (skipn 32 (w_keytape s))) 1) 1 else s).
  assert (E1 : (sif (fun s => (g_seeded s) =? 0) (sseq (sseq (sassign (fun s => bind (rb_fill (a_key s) 32 (w_keytape s)) (fun '(nb, rest) => Some (set_w_keytape (set_a_key s nb) rest)))) (sassign (fun s => Some (set_v_seeded s 1)))) (sassign (fun s => Some (set_g_seeded s 1))))) s = Some (Norm s1)).
  { unfold sif, s1. destruct (Z.eqb_spec (g_seeded s) 0) as [E|E]; [|reflexivity]. specialize (Htape E).
    unfold sseq, sassign, rb_fill. rewrite Lk. replace ((0 <=? 32) && (32 <=? Z.of_nat 32) && (32 <=? Z.of_nat (length (w_keytape s)))) with true by (symmetry; rewrite !andb_true_iff; repeat split; apply Z.leb_le; lia).
    cbn [bind]. change (Z.to_nat 32) with 32%nat. reflexivity. }
  assert (K1 : a_key s1 = key_of oskey gs).
  { unfold s1, key_of, oskey. destruct (Z.eqb_spec (g_seeded s) 0) as [E|E]; cbn [negb] in Ri; rewrite Ri.
    - cbn [a_key set_g_seeded set_v_seeded set_w_keytape set_a_key]. rewrite skipn_all2 by lia. rewrite app_nil_r. reflexivity.
    - symmetry. apply Rk. exact Ri. }
  assert (S1 : v_nonce_counter s1 = v_nonce_counter s /\ a_nonce s1 = a_nonce s /\ b_r s1 = b_r s /\ o_r s1 = o_r s /\ v_rlen s1 = v_rlen s /\ (g_seeded s1 =? 0) = false /\ length (a_key s1) = 32%nat /\
               w_keytape s1 = (if g_seeded s =? 0 then skipn 32 (w_keytape s) else w_keytape s)).
  { unfold s1. destruct (Z.eqb_spec (g_seeded s) 0) as [E|E].
    - cbn [v_nonce_counter a_nonce b_r o_r v_rlen g_seeded a_key w_keytape set_g_seeded set_v_seeded set_w_keytape set_a_key]. specialize (Htape E).
      repeat split; try reflexivity. rewrite app_length, firstn_length, skipn_length. lia.
    - repeat split; try reflexivity; try assumption. apply Z.eqb_neq. exact E. }
  destruct S1 as (C1 & N1 & B1 & O1 & R1 & G1 & LK1 & T1).
  (* the counter and the nonce bytes *)
  set (s2 := set_v_nonce_counter (set_v_n s1 (v_nonce_counter s1)) (uw 64 (v_nonce_counter s1 + 1))).
  pose proof (nonce_loop s2 fuel ltac:(unfold s2; cbn [a_nonce set_v_nonce_counter set_v_n]; rewrite N1; exact Ln) ltac:(unfold s2; cbn [v_n set_v_nonce_counter set_v_n]; lia) Hf) as NL.
  set (s3 := set_v_i (set_a_nonce s2 (le_encode 8 (v_n s2))) 8) in NL.
  assert (L3 : b_r s3 = b_r s /\ o_r s3 = o_r s /\ v_rlen s3 = Z.of_nat len /\ a_nonce s3 = le_encode 8 (v_nonce_counter s) /\ a_key s3 = a_key s1 /\ g_seeded s3 = g_seeded s1 /\
               v_nonce_counter s3 = (v_nonce_counter s + 1) mod 2 ^ 64 /\ w_keytape s3 = w_keytape s1).
  { unfold s3, s2. cbn [b_r o_r v_rlen a_nonce a_key g_seeded v_nonce_counter w_keytape v_n set_v_i set_a_nonce set_v_nonce_counter set_v_n]. rewrite B1, O1, R1, C1. repeat split; try reflexivity. exact Hr. }
  destruct L3 as (B3 & O3 & R3 & N3 & K3 & G3 & C3 & T3).
  exists (set_b_r s3 (firstn (Z.to_nat (o_r s)) (b_r s) ++ stream (a_key s1) (le_encode 8 (v_nonce_counter s)) len ++ skipn (Z.to_nat (o_r s) + len) (b_r s))%list).
  split.
  - unfold gen_fastrandombytes. unfold sseq at 1. rewrite E1. unfold sseq at 1, sassign at 1. fold s2. unfold sseq at 1. unfold sseq at 1, sassign at 1.
    fold nonce_loop_body. rewrite NL. unfold sassign, stream_write. rewrite B3, O3, R3, N3, K3.
    replace ((0 <=? o_r s) && (0 <=? Z.of_nat len) && (o_r s + Z.of_nat len <=? Z.of_nat (length (b_r s)))) with true by (symmetry; rewrite !andb_true_iff; repeat split; apply Z.leb_le; lia).
    cbn [bind]. rewrite Nat2Z.id. reflexivity.
  - cbn [b_r a_key a_nonce g_seeded v_nonce_counter w_keytape o_r set_b_r]. unfold frb. cbv zeta. cbn [fst snd g_init g_key g_nonce].
    fold (key_of oskey gs). rewrite <- K1. rewrite Rn.
    split; [unfold write_mem; rewrite stream_length; reflexivity|]. split; [rewrite G3, G1; reflexivity|]. split; [rewrite K3; reflexivity|].
    split; [rewrite C3; unfold nonce_step; rewrite le_decode_encode by (change (256 ^ Z.of_nat 8) with (2 ^ 64); lia); reflexivity|].
    split; [exact C3|]. split; [exact N3|]. split; [rewrite T3; exact T1|]. split; [rewrite K3; exact LK1 | exact O3].
Qed.
