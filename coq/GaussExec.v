(* C10/C11: executable model of FastGaussianNoise::getNoise over a barrier table given as data (the barriers are
   produced by MPFR at run time and dumped by the harness), for both table depths; the fast path equals the barrier count. *)
From Coq Require Import ZArith Lia List Bool Sorted Arith.
From NTT Require Import GaussDecode.
Import ListNotations.
Local Open Scope Z_scope.

Definition snd0 (s : str) : Z := hd 0 (tl s).

Section G.
Variable vmin : Z.
Variable barriers : list str.
Variable wp : nat.                                  (* words per barrier *)

(* ---------- level-2 tables (closed form, as level 1 in GaussDecode.v) ---------- *)
Definition lt2 (b : str) (c d : Z) : bool := (hd0 b <? c) || ((hd0 b =? c) && (snd0 b <? d)).
Definition val2 (c d : Z) : Z := vmin + count (fun b => lt2 b c d) barriers.
Definition list2 (c d : Z) : list str := filter (fun b => (hd0 b =? c) && (snd0 b =? d)) barriers.
Definition flag2 (c d : Z) : bool := negb (match list2 c d with [] => true | _ => false end).

(* cells of the first-level table beyond the last barrier's first word are never written: value 0, not flagged *)
Definition last_first : Z := hd0 (last barriers []).

(* one output decoded from the words at the read pointer: (value, words consumed, words compared by the full comparison) *)
Definition cmp_reads (l : list str) (s : str) : nat :=          (* how far cmp() looks into the noise for this list *)
  fold_left (fun acc b =>
    let fix eqpref (a c : str) : nat := match a, c with x :: a', y :: c' => if x =? y then S (eqpref a' c') else 1%nat | _, _ => O end in
    Nat.max acc (Nat.min wp (eqpref b s))) l O.

Definition decode_at (depth : nat) (s : str) : Z * nat * nat :=
  let c := hd0 s in
  if last_first <? c then (0, 1%nat, 1%nat)
  else if flag1 barriers c then
    match depth with
    | 1%nat => (val1 vmin barriers c + prefix_count (list1 barriers c) (firstn wp s), wp, Nat.max 1 (cmp_reads (list1 barriers c) s))
    | _ => let d := snd0 s in
           if flag2 c d then (val2 c d + prefix_count (list2 c d) (firstn wp s), wp, Nat.max 2 (cmp_reads (list2 c d) s))
           else (val2 c d, 2%nat, 2%nat)
    end
  else (val1 vmin barriers c, 1%nat, 1%nat).

(* ---------- the sampling loop over the scratch buffer ---------- *)
(* state: buffer (L words), read offset `used`, remaining tape.  Each output: decode at `used`; used += consumed;
   if (used + wp >= L) { refill from the tape; used = 0 }.   oob records a comparison reaching beyond the buffer. *)
Fixpoint getnoise (depth : nat) (L : nat) (rlen : nat) (buf : list Z) (used : nat) (tape : list Z) (oob : bool)
  : list Z * list nat * bool * list Z :=            (* outputs, start offsets, out-of-bounds flag, remaining tape *)
  match rlen with
  | O => ([], [], oob, tape)
  | S r =>
      let s := skipn used buf in
      let '(v, c, rd) := decode_at depth s in
      let oob' := oob || (L <? used + rd)%nat in
      let used' := (used + c)%nat in
      let '(buf', used'', tape') := if (L <=? used' + wp)%nat then (firstn L tape, O, skipn L tape) else (buf, used', tape) in
      let '(vs, ss, o, t) := getnoise depth L r buf' used'' tape' oob' in
      (v :: vs, used :: ss, o, t)
  end.
Definition get_noise (depth : nat) (L : nat) (rlen : nat) (tape : list Z) : list Z * list nat * bool * list Z :=
  getnoise depth L rlen (firstn L tape) O (skipn L tape) false.

(* ---------- the fast path equals the barrier count (both depths) ---------- *)
Definition decode_spec (s : str) : Z := vmin + count (fun b => lex_le b s) barriers.

Lemma lex_le_hd_eq a b : a <> [] -> b <> [] -> hd0 a = hd0 b -> lex_le a b = lex_le (tl a) (tl b).
Proof. destruct a, b; try congruence. simpl. intros _ _ ->. rewrite Z.ltb_irrefl. reflexivity. Qed.

Lemma lex_le_lt2 b s : (2 <= length b)%nat -> (2 <= length s)%nat -> lt2 b (hd0 s) (snd0 s) = true -> lex_le b s = true.
Proof.
  destruct b as [|x [|y b]], s as [|u [|v s]]; simpl; try lia. intros _ _. unfold lt2, hd0, snd0. simpl.
  destruct (Z.ltb_spec x u); [reflexivity|]. destruct (Z.eqb_spec x u); simpl; [|discriminate]. subst.
  rewrite Z.ltb_irrefl. intros Hlt. now rewrite Hlt.
Qed.
Lemma lex_le_gt2 b s : (2 <= length b)%nat -> (2 <= length s)%nat -> lt2 b (hd0 s) (snd0 s) = false ->
  negb ((hd0 b =? hd0 s) && (snd0 b =? snd0 s)) = true -> lex_le b s = false.
Proof.
  destruct b as [|x [|y b]], s as [|u [|v s]]; simpl; try lia. intros _ _. unfold lt2, hd0, snd0. simpl.
  destruct (Z.ltb_spec x u); [discriminate|]. destruct (Z.eqb_spec x u); simpl.
  - subst. rewrite Z.ltb_irrefl. destruct (Z.ltb_spec y v); [discriminate|]. destruct (Z.eqb_spec y v); [discriminate|].
    intros _ _. destruct (Z.ltb_spec v y); [reflexivity | lia].
  - intros _ _. destruct (Z.ltb_spec u x); [reflexivity | lia].
Qed.

Theorem decode2_is_count s : (2 <= length s)%nat -> (forall b, In b barriers -> length b = length s) -> sorted barriers ->
  (if flag2 (hd0 s) (snd0 s) then val2 (hd0 s) (snd0 s) + prefix_count (list2 (hd0 s) (snd0 s)) s else val2 (hd0 s) (snd0 s)) = decode_spec s.
Proof.
  intros Hs Hlen Hsort. unfold decode_spec. set (c := hd0 s). set (d := snd0 s).
  set (Plt := fun b : str => lt2 b c d). set (Peq := fun b : str => (hd0 b =? c) && (snd0 b =? d)).
  assert (Split : count (fun b => lex_le b s) barriers = count Plt barriers + count (fun b => lex_le b s && Peq b) barriers).
  { unfold count. induction barriers as [|b r IH]; [reflexivity|]. cbn [filter].
    assert (Lb : length b = length s) by (apply Hlen; now left).
    assert (IH' : Z.of_nat (length (filter (fun b0 => lex_le b0 s) r)) = Z.of_nat (length (filter Plt r)) + Z.of_nat (length (filter (fun b0 => lex_le b0 s && Peq b0) r))).
    { apply IH; [intros; apply Hlen; now right | inversion Hsort; assumption]. }
    unfold Plt, Peq in *. destruct (lt2 b c d) eqn:E1.
    - assert (G1 : lex_le b s = true) by (apply lex_le_lt2; [lia | lia | exact E1]).
      rewrite G1. cbn [andb].
      assert (E2 : (hd0 b =? c) && (snd0 b =? d) = false).
      { unfold lt2 in E1. fold c d in E1. destruct (Z.ltb_spec (hd0 b) c); [destruct (Z.eqb_spec (hd0 b) c); [lia | reflexivity]|].
        cbn [orb] in E1. destruct (Z.eqb_spec (hd0 b) c); [|discriminate]. cbn [andb] in E1 |- *. destruct (Z.ltb_spec (snd0 b) d); [|discriminate].
        destruct (Z.eqb_spec (snd0 b) d); [lia | reflexivity]. }
      rewrite E2. cbn [length]. lia.
    - destruct ((hd0 b =? c) && (snd0 b =? d)) eqn:E2.
      + rewrite andb_true_r. destruct (lex_le b s); cbn [length]; lia.
      + assert (G2 : lex_le b s = false).
        { apply lex_le_gt2; [lia | lia | exact E1 | fold c d; rewrite E2; reflexivity]. }
        rewrite G2. cbn [andb]. lia. }
  rewrite Split. unfold val2. fold c d Plt.
  assert (Pc : prefix_count (list2 c d) s = count (fun b => lex_le b s && Peq b) barriers).
  { unfold list2. fold Peq. rewrite prefix_is_count.
    - apply count_filter.
    - intros b Hb. apply filter_In in Hb. now apply Hlen.
    - now apply sorted_filter. }
  destruct (flag2 c d) eqn:F.
  - rewrite Pc. lia.
  - unfold flag2 in F. apply negb_false_iff in F. destruct (list2 c d) eqn:E; [|discriminate].
    rewrite <- Pc. cbn [prefix_count]. lia.
Qed.

(* monotone step function: a larger input string never gives a smaller output *)
Theorem decode_spec_monotone s t : length s = length t -> (forall b, In b barriers -> length b = length s) -> lex_le s t = true -> decode_spec s <= decode_spec t.
Proof.
  intros Hst Hlen Hle. unfold decode_spec, count.
  assert (G : forall l, (forall b, In b l -> length b = length s) -> (length (filter (fun b => lex_le b s) l) <= length (filter (fun b => lex_le b t) l))%nat).
  { induction l as [|b r IH]; intros Hl; [simpl; lia|]. cbn [filter].
    specialize (IH (fun b0 H0 => Hl b0 (or_intror H0))).
    destruct (lex_le b s) eqn:E.
    - assert (Lb : length b = length s) by (apply Hl; now left).
      assert (T : lex_le b t = true) by (apply (lex_le_trans b s t); auto; lia).
      rewrite T. cbn [length]. lia.
    - destruct (lex_le b t); cbn [length]; lia. }
  specialize (G barriers Hlen). lia.
Qed.
End G.
