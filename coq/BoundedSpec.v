(* poly::set(non_uniform const&) translated from the source = SamplersExec.set_bounded (32- and 64-bit limbs): the range check that throws,
   the bit-length loop of the mask, the reduction and centring of each word, the column-wise writes _data[degree*cm + i]. *)
From Coq Require Import ZArith List Lia Bool Arith.
From NTT Require Import Layer Small Samplers SamplersExec CxxSem MemSem LoopSpec PrepSpec SamplerSpec.
Import ListNotations.
Local Open Scope Z_scope.

Definition St2 := (list Z * list Z)%type.
(* the shape of gen_set_bounded_u32 / _u64; c stands for 2*upper_bound-1 as the code computes it *)
Definition bnd_sh (es : Z) (maskc : Z -> Z) (landk : Z -> Z -> (Z -> option St2) -> option St2) (sub1 : Z -> Z -> Z) (stc1k : Z -> Z -> Z -> (Z -> option St2) -> option St2) (stcA : Z -> Z -> Z -> Z -> Z) (stA : Z -> Z -> Z)
  (fuel : nat) (degree : Z) (_data : list Z) (mode_upper_bound : Z) (mode_amplifier : Z) (nmoduli : Z) (P : list Z) (tape : list Z) : option St2 :=
  (let rnd := (@nil Z) in (let upper_bound_1 := mode_upper_bound in (let amplifier_2 := mode_amplifier in (bind (for_up 0 nmoduli 1 (fun cm_3 '(rnd, _data) => (bind (if (upper_bound_1 >=? (tabP P cm_3)) then None else Some (rnd, _data)) (fun '(rnd, _data) => Some (rnd, _data)))) (rnd, _data)) (fun '(rnd, _data) => (let rnd := (repeat 0 (Z.to_nat degree)) in (let '(rnd, tape) := rand_fill es rnd 0 (degree * es) tape in (let mask_bits_4 := 0 in (let v_5 := (uw 64 ((uw 64 (2 * upper_bound_1)) - 1)) in (bind (while_fuel fuel (fun '(rnd, _data, mask_bits_6, v_7) => (negb (v_7 =? 0))) (fun '(rnd, _data, mask_bits_6, v_7) => (bind (chk 32 (mask_bits_6 + 1)) (fun mask_bits_8 => (let v_9 := (v_7 / 2 ^ 1) in Some (rnd, _data, mask_bits_8, v_9))))) (rnd, _data, mask_bits_4, v_5)) (fun '(rnd, _data, mask_bits_10, v_11) => (bind (if (mask_bits_10 <? 64) then (bind (shl_u 64 1 mask_bits_10) (fun sh_12 => Some (uw 64 (sh_12 - 1)))) else Some (2 ^ 64 - 1 - 0)) (fun c_13 => (let mask_14 := maskc c_13 in (bind (if (amplifier_2 =? 1) then (bind (for_up 0 degree 1 (fun i_15 '(rnd, _data) => (bind (ld rnd (0 + i_15)) (fun ld_16 => (landk ld_16 mask_14 (fun tmp_17 => (bind (if (tmp_17 >=? (uw 64 ((uw 64 (2 * upper_bound_1)) - 1))) then (let tmp_18 := sub1 tmp_17 (uw 64 ((uw 64 (2 * upper_bound_1)) - 1)) in Some (rnd, _data, tmp_18)) else Some (rnd, _data, tmp_17)) (fun '(rnd, _data, tmp_19) => (bind (if (tmp_19 >=? upper_bound_1) then (bind (for_up 0 nmoduli 1 (fun cm_20 '(rnd, _data) => (stc1k (tabP P cm_20) tmp_19 (uw 64 ((uw 64 (2 * upper_bound_1)) - 1)) (fun v => (bind (st _data (0 + (uw 64 ((uw 64 (degree * cm_20)) + i_15))) v) (fun _data => Some (rnd, _data)))))) (rnd, _data)) (fun '(rnd, _data) => Some (rnd, _data))) else (bind (for_up 0 nmoduli 1 (fun cm_21 '(rnd, _data) => (bind (st _data (0 + (uw 64 ((uw 64 (degree * cm_21)) + i_15))) tmp_19) (fun _data => Some (rnd, _data)))) (rnd, _data)) (fun '(rnd, _data) => Some (rnd, _data)))) (fun '(rnd, _data) => Some (rnd, _data)))))))))) (rnd, _data)) (fun '(rnd, _data) => Some (rnd, _data))) else (bind (for_up 0 degree 1 (fun i_22 '(rnd, _data) => (bind (ld rnd (0 + i_22)) (fun ld_23 => (landk ld_23 mask_14 (fun tmp_24 => (bind (if (tmp_24 >=? (uw 64 ((uw 64 (2 * upper_bound_1)) - 1))) then (let tmp_25 := sub1 tmp_24 (uw 64 ((uw 64 (2 * upper_bound_1)) - 1)) in Some (rnd, _data, tmp_25)) else Some (rnd, _data, tmp_24)) (fun '(rnd, _data, tmp_26) => (bind (if (tmp_26 >=? upper_bound_1) then (bind (for_up 0 nmoduli 1 (fun cm_27 '(rnd, _data) => (bind (st _data (0 + (uw 64 ((uw 64 (degree * cm_27)) + i_22))) (stcA (tabP P cm_27) tmp_26 amplifier_2 (uw 64 ((uw 64 (2 * upper_bound_1)) - 1)))) (fun _data => Some (rnd, _data)))) (rnd, _data)) (fun '(rnd, _data) => Some (rnd, _data))) else (bind (for_up 0 nmoduli 1 (fun cm_28 '(rnd, _data) => (bind (st _data (0 + (uw 64 ((uw 64 (degree * cm_28)) + i_22))) (stA tmp_26 amplifier_2)) (fun _data => Some (rnd, _data)))) (rnd, _data)) (fun '(rnd, _data) => Some (rnd, _data)))) (fun '(rnd, _data) => Some (rnd, _data)))))))))) (rnd, _data)) (fun '(rnd, _data) => Some (rnd, _data)))) (fun '(rnd, _data) => Some (rnd, _data))))))))))))))))).

(* ---- column-wise filling of an m x n matrix stored row after row ---- *)
Section Matrix.
Variables (n m : nat).
Hypothesis Hn : (0 < n)%nat.
Variable T : nat -> nat -> Z.            (* row (modulus) c, column (coefficient) r *)
Variable data0 : list Z.
Hypothesis Hd : length data0 = (m * n)%nat.

Definition donej (i cm j : nat) : bool := (j mod n <? i)%nat || ((j mod n =? i)%nat && (j / n <? cm)%nat).
Definition tgt (i cm : nat) : list Z := map (fun j => if donej i cm j then T (j / n) (j mod n) else nth j data0 0) (seq 0 (m * n)).
Lemma tgt_length i cm : length (tgt i cm) = (m * n)%nat. Proof. apply tabz_length. Qed.
Lemma divmod_of c r : (r < n)%nat -> ((n * c + r) / n = c /\ (n * c + r) mod n = r)%nat.
Proof. intros Hr. split; symmetry; [apply (Nat.div_unique _ n c r Hr); reflexivity | apply (Nat.mod_unique _ n c r Hr); reflexivity]. Qed.
Lemma tgt_start : tgt 0 0 = data0.
Proof.
  apply nth_ext0; [rewrite tgt_length; symmetry; exact Hd|]. intros j Hj. rewrite tgt_length in Hj. unfold tgt. rewrite tabz_nth by exact Hj.
  unfold donej. destruct (Nat.ltb_spec (j mod n) 0); destruct (Nat.ltb_spec (j / n) 0); try lia. rewrite andb_false_r. reflexivity.
Qed.
Lemma tgt_step i cm : (cm < m)%nat -> (i < n)%nat -> upd (n * cm + i) (T cm i) (tgt i cm) = tgt i (S cm).
Proof.
  intros Hc Hi. assert (Hlt : (n * cm + i < m * n)%nat) by nia.
  apply nth_ext0; [rewrite upd_length, !tgt_length; reflexivity|]. intros j Hj. rewrite upd_length, tgt_length in Hj.
  rewrite upd_nth, tgt_length. unfold tgt. rewrite !tabz_nth by exact Hj. destruct (divmod_of cm i Hi) as [D1 D2].
  destruct (Nat.eqb_spec j (n * cm + i)) as [->|Hne].
  - replace (n * cm + i <? m * n)%nat with true by (symmetry; apply Nat.ltb_lt; exact Hlt). cbn [andb]. rewrite D1, D2. unfold donej. rewrite D1, D2.
    rewrite Nat.eqb_refl. replace (cm <? S cm)%nat with true by (symmetry; apply Nat.ltb_lt; lia). rewrite orb_true_r. reflexivity.
  - cbn [andb]. replace (donej i (S cm) j) with (donej i cm j); [reflexivity|]. unfold donej. f_equal.
    destruct (Nat.eqb_spec (j mod n) i) as [Em|]; [|reflexivity]. cbn [andb].
    destruct (Nat.ltb_spec (j / n) cm); destruct (Nat.ltb_spec (j / n) (S cm)); try reflexivity; try lia.
    exfalso. apply Hne. assert (j / n = cm)%nat by lia. pose proof (Nat.div_mod j n ltac:(lia)). lia.
Qed.
Lemma tgt_row i : tgt i m = tgt (S i) 0.
Proof.
  apply nth_ext0; [rewrite !tgt_length; reflexivity|]. intros j Hj. rewrite tgt_length in Hj. unfold tgt. rewrite !tabz_nth by exact Hj.
  replace (donej (S i) 0 j) with (donej i m j); [reflexivity|]. unfold donej.
  assert (Hq : (j / n < m)%nat) by (apply Nat.div_lt_upper_bound; lia).
  destruct (Nat.ltb_spec (j mod n) i); destruct (Nat.eqb_spec (j mod n) i); destruct (Nat.ltb_spec (j / n) m); destruct (Nat.ltb_spec (j mod n) (S i));
  destruct (Nat.eqb_spec (j mod n) (S i)); destruct (Nat.ltb_spec (j / n) 0); cbn [orb andb]; try reflexivity; lia.
Qed.
Lemma tgt_done : tgt n 0 = map (fun j => T (j / n) (j mod n)) (seq 0 (m * n)).
Proof.
  apply nth_ext0; [rewrite tgt_length, tabz_length; reflexivity|]. intros j Hj. rewrite tgt_length in Hj. unfold tgt. rewrite !tabz_nth by exact Hj.
  unfold donej. replace (j mod n <? n)%nat with true by (symmetry; apply Nat.ltb_lt; apply Nat.mod_upper_bound; lia). reflexivity.
Qed.
End Matrix.

Lemma nth_concat_rows (f : Z -> Z -> Z) ws : forall ps j, (0 < length ws)%nat -> (j < length ps * length ws)%nat ->
  nth j (concat (map (fun p => map (f p) ws) ps)) 0 = f (nth (j / length ws) ps 0) (nth (j mod length ws) ws 0).
Proof.
  intros ps. induction ps as [|p ps IH]; intros j Hw Hj; [cbn in Hj; lia|]. cbn [map concat length] in *.
  destruct (Nat.ltb_spec j (length ws)) as [Hlt|Hge].
  - rewrite app_nth1 by (rewrite map_length; exact Hlt). rewrite Nat.div_small, Nat.mod_small by exact Hlt. cbn [nth].
    rewrite (nth_indep (map (f p) ws) 0 (f p 0)) by (rewrite map_length; exact Hlt). apply map_nth.
  - rewrite app_nth2 by (rewrite map_length; exact Hge). rewrite map_length. rewrite IH by lia.
    assert (E : j = (length ws * 1 + (j - length ws))%nat) by lia.
    assert (D : ((j - length ws) / length ws = j / length ws - 1)%nat).
    { rewrite E at 2. rewrite Nat.mul_comm, Nat.div_add_l by lia. lia. }
    assert (M : ((j - length ws) mod length ws = j mod length ws)%nat).
    { rewrite E at 2. rewrite Nat.add_comm, Nat.mul_comm, Nat.mod_add by lia. reflexivity. }
    rewrite D, M. assert (1 <= j / length ws)%nat by (apply Nat.div_le_lower_bound; lia).
    replace (j / length ws)%nat with (S (j / length ws - 1)) at 2 by lia. reflexivity.
Qed.

Lemma le_word_range' bs : Forall (fun x => 0 <= x < 256) bs -> 0 <= MemSem.le_word bs < 256 ^ Z.of_nat (length bs).
Proof.
  induction bs as [|x r IH]; intros F; [cbn; lia|]. inversion F as [|? ? Hx Fr]; subst. specialize (IH Fr). cbn [MemSem.le_word length].
  rewrite Nat2Z.inj_succ, Z.pow_succ_r by lia. nia.
Qed.
Lemma words_range' bits wb : bits = 8 * Z.of_nat wb -> forall cnt t, Forall (fun x => 0 <= x < 256) t -> (cnt * wb <= length t)%nat ->
  Forall (fun v => 0 <= v < 2 ^ bits) (MemSem.words_of wb cnt t).
Proof.
  intros Hb. assert (E : 256 ^ Z.of_nat wb = 2 ^ bits) by (change 256 with (2 ^ 8); rewrite <- Z.pow_mul_r by lia; rewrite Hb; reflexivity).
  induction cnt as [|cnt IH]; intros t Ft Hl; [constructor|]. cbn [MemSem.words_of]. constructor.
  - pose proof (le_word_range' (firstn wb t) (Forall_firstn' _ _ _ Ft)) as R. rewrite firstn_length, Nat.min_l in R by nia. rewrite E in R. exact R.
  - apply IH; [apply Forall_skipn'; exact Ft | rewrite skipn_length; nia].
Qed.
Lemma land_mask_mod' w b : 0 <= b -> Z.land w (2 ^ b - 1) = w mod 2 ^ b.
Proof. intros Hb. rewrite <- Z.land_ones by exact Hb. f_equal. rewrite Z.ones_equiv. lia. Qed.

Section Bounded.
Variable bits : Z.
Variable wb : nat.
Hypothesis Hbits8 : bits = 8 * Z.of_nat wb.
Hypothesis Hes : (0 < wb)%nat.
Hypothesis Hbits : bits <= 64.
Variable maskc : Z -> Z.
Variable landk : Z -> Z -> (Z -> option St2) -> option St2.
Variable sub1 : Z -> Z -> Z.
Variable stc1k : Z -> Z -> Z -> (Z -> option St2) -> option St2.
Variable stcA : Z -> Z -> Z -> Z -> Z.
Variable stA : Z -> Z -> Z.
Variables (n m : nat) (P tape data0 : list Z) (B A : Z).
Let c := 2 * B - 1.
Let b := Z.log2 c + 1.
Hypothesis HB : 1 <= B.
Hypothesis Hc : c < 2 ^ (bits - 1).
Hypothesis Hmaskc : maskc (uw 64 (uw 64 (1 * 2 ^ b) - 1)) = 2 ^ b - 1.
Hypothesis Hsub1 : forall t, c <= t < 2 ^ bits -> sub1 t c = t - c.
Hypothesis Hlandk : forall l k, 0 <= l < 2 ^ bits -> landk l (2 ^ b - 1) k = k (Z.land l (2 ^ b - 1)).
Hypothesis Hstc1k : A = 1 -> forall p t k, 0 <= p < 2 ^ bits -> 0 <= t < 2 ^ bits -> stc1k p t c k = k (((p + t * A - c * A) mod 2 ^ 64) mod 2 ^ bits).
Hypothesis HstcA : forall p t, stcA p t A c = ((p + t * A - c * A) mod 2 ^ 64) mod 2 ^ bits.
Hypothesis HstA : forall t, stA t A = ((t * A) mod 2 ^ 64) mod 2 ^ bits.
Hypothesis HPl : (m <= length P)%nat.
Hypothesis Htl : (n * wb <= length tape)%nat.
Hypothesis Htape : Forall (fun x => 0 <= x < 256) tape.
Hypothesis Hd : length data0 = (m * n)%nat.
Hypothesis Hsmall : Z.of_nat (m * n) < 2 ^ 61.
Hypothesis Hn : (0 < n)%nat.
Hypothesis Hmpos : (0 < m)%nat.
Let ws := MemSem.words_of wb n tape.
Let T (cm r : nat) : Z := bnd_store_amp bits (nth cm P 0) B A (bnd_tmp b B (nth r ws 0)).

Lemma c_pos : 1 <= c. Proof. unfold c. lia. Qed.
Lemma bits_pos : 8 <= bits. Proof. lia. Qed.
Lemma b_range : 0 < b <= bits - 1.
Proof. pose proof c_pos. pose proof (Z.log2_nonneg c). assert (Z.log2 c < bits - 1) by (apply Z.log2_lt_pow2; lia). unfold b. lia. Qed.
Lemma c_lt_pow_b : c < 2 ^ b. Proof. pose proof c_pos. unfold b. apply Z.log2_spec. lia. Qed.
Lemma cc_eq : uw 64 (uw 64 (2 * B) - 1) = c.
Proof.
  pose proof bits_pos. assert (2 ^ (bits - 1) <= 2 ^ 63) by (apply Z.pow_le_mono_r; lia). change (2 ^ 63) with 9223372036854775808 in *.
  unfold c in *. rewrite (uw_small 64 (2 * B)) by (change (2 ^ 64) with 18446744073709551616; lia). apply uw_small. change (2 ^ 64) with 18446744073709551616. lia.
Qed.
Lemma ws_len : length ws = n. Proof. unfold ws. clear. revert tape. induction n as [|k IH]; intros t; [reflexivity|]. cbn [MemSem.words_of length]. rewrite IH. reflexivity. Qed.

(* the loop that computes the bit length of c *)
Lemma bitlen_loop fuel : (Z.to_nat b < fuel)%nat ->
  while_fuel fuel (fun '(rnd, _data, mask_bits_6, v_7) => (negb (v_7 =? 0))) (fun '(rnd, _data, mask_bits_6, v_7) => (bind (chk 32 (mask_bits_6 + 1)) (fun mask_bits_8 => (let v_9 := (v_7 / 2 ^ 1) in Some (rnd, _data, mask_bits_8, v_9))))) (ws, data0, 0, c)
  = Some (ws, data0, b, 0).
Proof.
  intros Hf. pose proof b_range as Hb. pose proof c_pos as Hc1. pose proof c_lt_pow_b as Hcb.
  set (PW := fun j : nat => (ws, data0, Z.of_nat j, c / 2 ^ Z.of_nat j)).
  assert (E0 : (ws, data0, 0, c) = PW 0%nat) by (unfold PW; cbn [Z.of_nat]; rewrite Z.pow_0_r, Z.div_1_r; reflexivity).
  rewrite E0. rewrite (while_steps PW (Z.to_nat b)); [| | |exact Hf].
  - unfold PW. rewrite Z2Nat.id by lia. rewrite Z.div_small by lia. reflexivity.
  - intros j Hj. unfold PW. cbv beta iota. assert (Hj' : Z.of_nat j <= Z.log2 c) by (unfold b in Hj; lia).
    assert (Hp : 2 ^ Z.of_nat j <= c).
    { apply Z.le_trans with (2 ^ Z.log2 c); [apply Z.pow_le_mono_r; lia | apply Z.log2_spec; lia]. }
    assert (0 < 2 ^ Z.of_nat j) by (apply Z.pow_pos_nonneg; lia).
    split.
    + apply negb_true_iff. apply Z.eqb_neq. assert (1 <= c / 2 ^ Z.of_nat j) by (apply Z.div_le_lower_bound; lia). lia.
    + rewrite chk_ok by (change (2 ^ (32 - 1)) with 2147483648; lia). cbn [bind]. cbv zeta. rewrite Z.div_div by lia.
      rewrite Nat2Z.inj_succ, Z.pow_succ_r by lia. replace (Z.of_nat j + 1) with (Z.succ (Z.of_nat j)) by lia. rewrite (Z.mul_comm 2). change (2 ^ 1) with 2. reflexivity.
  - unfold PW. cbv beta iota. rewrite Z2Nat.id by lia. rewrite Z.div_small by lia. reflexivity.
Qed.

(* one column: the same reduced word, written for every modulus *)
Lemma column_loop i (V : Z -> Z) : (i < n)%nat -> (forall cm, (cm < m)%nat -> V (Z.of_nat cm) = T cm i) ->
  for_up 0 (Z.of_nat m) 1 (fun cm '(rnd, _data) => (bind (st _data (0 + (uw 64 ((uw 64 (Z.of_nat n * cm)) + Z.of_nat i))) (V cm)) (fun _data => Some (rnd, _data)))) (ws, tgt n m T data0 i 0)
  = Some (ws, tgt n m T data0 i m).
Proof.
  intros Hi HV. assert (Hm61 : Z.of_nat m < 2 ^ 61) by nia.
  rewrite (for_up_steps (fun cm : nat => (ws, tgt n m T data0 i cm)) m); try lia; [reflexivity|].
  intros cm Hcm. replace (0 + 1 * Z.of_nat cm) with (Z.of_nat cm) by lia. cbv beta iota.
  assert (Eidx : 0 + uw 64 (uw 64 (Z.of_nat n * Z.of_nat cm) + Z.of_nat i) = Z.of_nat (n * cm + i)).
  { rewrite (uw_small 64 (Z.of_nat n * Z.of_nat cm)) by nia. rewrite uw_small by nia. nia. }
  rewrite Eidx. rewrite st_some by (rewrite tgt_length; nia). cbn [bind]. rewrite Nat2Z.id. rewrite (HV cm Hcm). rewrite (tgt_step n m Hn T data0 Hd i cm Hcm Hi). reflexivity.
Qed.
(* the same with a store whose value comes through a continuation (16-bit limbs: a checked int sum first) *)
Lemma column_loop_k i (F : Z -> (Z -> option St2) -> option St2) : (i < n)%nat -> (forall cm k, (cm < m)%nat -> F (Z.of_nat cm) k = k (T cm i)) ->
  for_up 0 (Z.of_nat m) 1 (fun cm '(rnd, _data) => F cm (fun v => (bind (st _data (0 + (uw 64 ((uw 64 (Z.of_nat n * cm)) + Z.of_nat i))) v) (fun _data => Some (rnd, _data))))) (ws, tgt n m T data0 i 0)
  = Some (ws, tgt n m T data0 i m).
Proof.
  intros Hi HV. assert (Hm61 : Z.of_nat m < 2 ^ 61) by nia.
  rewrite (for_up_steps (fun cm : nat => (ws, tgt n m T data0 i cm)) m); try lia; [reflexivity|].
  intros cm Hcm. replace (0 + 1 * Z.of_nat cm) with (Z.of_nat cm) by lia. cbv beta iota. rewrite (HV cm _ Hcm).
  assert (Eidx : 0 + uw 64 (uw 64 (Z.of_nat n * Z.of_nat cm) + Z.of_nat i) = Z.of_nat (n * cm + i)).
  { rewrite (uw_small 64 (Z.of_nat n * Z.of_nat cm)) by nia. rewrite uw_small by nia. nia. }
  rewrite Eidx. rewrite st_some by (rewrite tgt_length; nia). cbn [bind]. rewrite Nat2Z.id. rewrite (tgt_step n m Hn T data0 Hd i cm Hcm Hi). reflexivity.
Qed.

Hypothesis HPr : Forall (fun p => 0 <= p < 2 ^ bits) (firstn m P).
Lemma ws_rng i : (i < n)%nat -> 0 <= nth i ws 0 < 2 ^ bits.
Proof.
  intros Hi. apply (Forall_nth_R (fun v => 0 <= v < 2 ^ bits) ws i); [|rewrite ws_len; exact Hi].
  apply (words_range' bits wb Hbits8 n tape Htape). lia.
Qed.

(* the loop over the coefficients, for a given pair of store functions (the two branches on the amplifier) *)
Lemma main_loop (fck : Z -> Z -> (Z -> option St2) -> option St2) (fn : Z -> Z) :
  (forall p t k, 0 <= p < 2 ^ bits -> 0 <= t < 2 ^ bits -> fck p t k = k (((p + t * A - c * A) mod 2 ^ 64) mod 2 ^ bits)) -> (forall t, 0 <= t < 2 ^ bits -> fn t = ((t * A) mod 2 ^ 64) mod 2 ^ bits) ->
  for_up 0 (Z.of_nat n) 1 (fun i_15 '(rnd, _data) => (bind (ld rnd (0 + i_15)) (fun ld_16 => (landk ld_16 (2 ^ b - 1) (fun tmp_17 => (bind (if (tmp_17 >=? (uw 64 ((uw 64 (2 * B)) - 1))) then (let tmp_18 := sub1 tmp_17 (uw 64 ((uw 64 (2 * B)) - 1)) in Some (rnd, _data, tmp_18)) else Some (rnd, _data, tmp_17)) (fun '(rnd, _data, tmp_19) => (bind (if (tmp_19 >=? B) then (bind (for_up 0 (Z.of_nat m) 1 (fun cm_20 '(rnd, _data) => (fck (tabP P cm_20) tmp_19 (fun v => (bind (st _data (0 + (uw 64 ((uw 64 (Z.of_nat n * cm_20)) + i_15))) v) (fun _data => Some (rnd, _data)))))) (rnd, _data)) (fun '(rnd, _data) => Some (rnd, _data))) else (bind (for_up 0 (Z.of_nat m) 1 (fun cm_21 '(rnd, _data) => (bind (st _data (0 + (uw 64 ((uw 64 (Z.of_nat n * cm_21)) + i_15))) (fn tmp_19)) (fun _data => Some (rnd, _data)))) (rnd, _data)) (fun '(rnd, _data) => Some (rnd, _data)))) (fun '(rnd, _data) => Some (rnd, _data)))))))))) (ws, data0)
  = Some (ws, tgt n m T data0 n 0).
Proof.
  intros Hfc Hfn. pose proof b_range as Hb. pose proof c_lt_pow_b as Hcb. pose proof c_pos as Hc1.
  assert (Hn61 : Z.of_nat n < 2 ^ 61) by nia.
  rewrite <- (tgt_start n m Hn T data0 Hd) at 1.
  rewrite (for_up_steps (fun i : nat => (ws, tgt n m T data0 i 0)) n); try lia; [reflexivity|].
  intros i Hi. replace (0 + 1 * Z.of_nat i) with (Z.of_nat i) by lia. cbv beta iota.
  replace (0 + Z.of_nat i) with (Z.of_nat i) by lia. rewrite ld_some by (rewrite ws_len; lia). rewrite Nat2Z.id. cbn [bind]. cbv zeta.
  rewrite cc_eq. pose proof (ws_rng i Hi) as Rw. set (x := nth i ws 0) in *.
  rewrite Hlandk by exact Rw. cbv beta.
  rewrite land_mask_mod' by lia.
  pose proof (Z.mod_pos_bound x (2 ^ b) ltac:(apply Z.pow_pos_nonneg; lia)) as Rm.
  assert (Hpb : 2 ^ b <= 2 ^ bits) by (apply Z.pow_le_mono_r; lia).
  (* the reduced word is bnd_tmp *)
  assert (Et : (if x mod 2 ^ b >=? c then Some (ws, tgt n m T data0 i 0, sub1 (x mod 2 ^ b) c) else Some (ws, tgt n m T data0 i 0, x mod 2 ^ b)) = Some (ws, tgt n m T data0 i 0, bnd_tmp b B x)).
  { unfold bnd_tmp. cbv zeta. fold c. destruct (Z.geb_spec (x mod 2 ^ b) c); [rewrite Hsub1 by lia|]; reflexivity. }
  rewrite Et. cbn [bind]. set (t := bnd_tmp b B x).
  assert (Rt : 0 <= t < 2 ^ bits).
  { unfold t, bnd_tmp. cbv zeta. fold c. destruct (Z.geb_spec (x mod 2 ^ b) c); lia. }
  assert (ET : forall cm, T cm i = bnd_store_amp bits (nth cm P 0) B A t) by (intros cm; unfold T; fold x; reflexivity).
  destruct (Z.geb_spec t B) as [Hge|Hlt].
  - rewrite (column_loop_k i (fun cm => fck (tabP P cm) t) Hi).
    + cbn [bind]. rewrite (tgt_row n m Hn T data0 Hd i). reflexivity.
    + intros cm k Hcm. cbv beta. unfold tabP. rewrite Nat2Z.id. rewrite ET.
      assert (Hp : 0 <= nth cm P 0 < 2 ^ bits).
      { assert (E : nth cm P 0 = nth cm (firstn m P) 0) by (rewrite nth_firstn; replace (cm <? m)%nat with true by (symmetry; apply Nat.ltb_lt; exact Hcm); reflexivity).
        rewrite E. apply (Forall_nth_R (fun p => 0 <= p < 2 ^ bits) (firstn m P) cm HPr). rewrite firstn_length. lia. }
      rewrite Hfc by (try exact Hp; exact Rt). unfold bnd_store_amp. fold c.
      replace (t >=? B) with true by (symmetry; apply Z.geb_le; lia). reflexivity.
  - rewrite (column_loop i (fun cm => fn t) Hi).
    + cbn [bind]. rewrite (tgt_row n m Hn T data0 Hd i). reflexivity.
    + intros cm Hcm. cbv beta. rewrite ET, Hfn by exact Rt. unfold bnd_store_amp.
      replace (t >=? B) with false by (symmetry; destruct (Z.geb_spec t B); [lia | reflexivity]). reflexivity.
Qed.

Lemma final_list : tgt n m T data0 n 0 = concat (map (fun p => map (fun x => bnd_store_amp bits p B A (bnd_tmp b B x)) ws) (firstn m P)).
Proof.
  rewrite (tgt_done n m Hn T data0 Hd).
  assert (Lp : length (firstn m P) = m) by (rewrite firstn_length; lia).
  apply nth_ext0.
  - rewrite tabz_length. assert (G : forall l : list Z, length (concat (map (fun p => map (fun x => bnd_store_amp bits p B A (bnd_tmp b B x)) ws) l)) = (length l * n)%nat).
    { induction l as [|p l IH]; [reflexivity|]. cbn [map concat length]. rewrite app_length, map_length, IH, ws_len. lia. }
    rewrite G, Lp. reflexivity.
  - intros j Hj. rewrite tabz_length in Hj. rewrite tabz_nth by exact Hj.
    rewrite (nth_concat_rows (fun p x => bnd_store_amp bits p B A (bnd_tmp b B x)) ws (firstn m P) j) by (rewrite ?ws_len, ?Lp; lia).
    rewrite ws_len. unfold T. f_equal. rewrite nth_firstn. assert ((j / n < m)%nat) by (apply Nat.div_lt_upper_bound; lia).
    replace (j / n <? m)%nat with true by (symmetry; apply Nat.ltb_lt; assumption). reflexivity.
Qed.

Theorem bounded_ok fuel : (Z.to_nat b < fuel)%nat -> 0 <= A < 2 ^ 64 -> Forall (fun p => B < p) (firstn m P) ->
  bnd_sh (Z.of_nat wb) maskc landk sub1 stc1k stcA stA fuel (Z.of_nat n) data0 B A (Z.of_nat m) P tape =
  Some (ws, concat (map (fun p => map (fun x => bnd_store_amp bits p B A (bnd_tmp b B x)) ws) (firstn m P))).
Proof.
  intros Hf HA HBp. unfold bnd_sh. cbv zeta. pose proof b_range as Hb.
  assert (Hm61 : Z.of_nat m < 2 ^ 61) by nia.
  (* the range check: nobody throws *)
  rewrite (for_up_steps (fun _ : nat => (@nil Z, data0)) m); try lia.
  2:{ intros cm Hcm. replace (0 + 1 * Z.of_nat cm) with (Z.of_nat cm) by lia. cbv beta iota. unfold tabP. rewrite Nat2Z.id.
      assert (B < nth cm P 0).
      { assert (E : nth cm P 0 = nth cm (firstn m P) 0) by (rewrite nth_firstn; replace (cm <? m)%nat with true by (symmetry; apply Nat.ltb_lt; exact Hcm); reflexivity).
        rewrite E. apply (Forall_nth_R (fun p => B < p) (firstn m P) cm HBp). rewrite firstn_length. lia. }
      replace (B >=? nth cm P 0) with false by (symmetry; destruct (Z.geb_spec B (nth cm P 0)); [lia | reflexivity]). reflexivity. }
  cbn [bind].
  (* the random words *)
  unfold rand_fill. change (Z.to_nat 0) with 0%nat. rewrite Nat2Z.id. replace (Z.to_nat (Z.of_nat n * Z.of_nat wb / Z.of_nat wb)) with n by (rewrite Z.div_mul by lia; lia).
  fold ws. rewrite splice_all by (rewrite repeat_length, ws_len, Nat2Z.id; reflexivity).
  (* the bit length *)
  rewrite cc_eq. pose proof (bitlen_loop fuel Hf) as BL. cbv zeta in BL. rewrite BL. clear BL. cbn [bind].
  replace (b <? 64) with true by (symmetry; apply Z.ltb_lt; lia).
  unfold shl_u. destruct (Z.leb_spec 0 b); [|lia]. destruct (Z.ltb_spec b 64); [|lia]. cbn [andb bind].
  rewrite Hmaskc.
  destruct (Z.eqb_spec A 1) as [HA1|HA1].
  - pose proof (main_loop (fun p t k => stc1k p t c k) (fun t => t)) as ML. cbv zeta beta in ML. rewrite cc_eq in ML. rewrite ML; clear ML.
    + cbn [bind]. rewrite final_list. reflexivity.
    + intros p t k Hp Ht. apply Hstc1k; assumption.
    + intros t Rt. rewrite HA1, Z.mul_1_r. assert (2 ^ bits <= 2 ^ 64) by (apply Z.pow_le_mono_r; lia). rewrite (Z.mod_small t (2 ^ 64)) by lia. rewrite Z.mod_small by lia. reflexivity.
  - pose proof (main_loop (fun p t k => k (stcA p t A c)) (fun t => stA t A)) as ML. cbv zeta beta in ML. rewrite cc_eq in ML. rewrite ML; clear ML.
    + cbn [bind]. rewrite final_list. reflexivity.
    + intros p t k Hp Ht. rewrite HstcA. reflexivity.
    + intros t Rt. apply HstA.
Qed.
End Bounded.

(* the range check: the function throws (no result) when the bound reaches some modulus *)
Lemma first_index (Q : nat -> bool) : forall m, (exists j, (j < m)%nat /\ Q j = true) -> exists j0, (j0 < m)%nat /\ Q j0 = true /\ forall j, (j < j0)%nat -> Q j = false.
Proof.
  induction m as [|m IH]; intros (j & Hj & HQ); [lia|].
  destruct (existsb Q (seq 0 m)) eqn:E.
  - apply existsb_exists in E. destruct E as (j' & Hin & HQ'). apply in_seq in Hin. assert (Hlt : (j' < m)%nat) by lia. destruct (IH (ex_intro _ j' (conj Hlt HQ'))) as (j0 & H0 & H1 & H2).
    exists j0. split; [lia|]. split; assumption.
  - exists m. split; [lia|]. assert (Hall : forall j', (j' < m)%nat -> Q j' = false).
    { intros j' Hj'. apply not_true_is_false. intros HT. assert (existsb Q (seq 0 m) = true) by (apply existsb_exists; exists j'; split; [apply in_seq; lia | exact HT]). congruence. }
    split; [|exact Hall]. destruct (Nat.eq_dec j m) as [->|Hne]; [exact HQ|]. rewrite Hall in HQ by lia. discriminate.
Qed.
Theorem bounded_throws es maskc landk sub1 stc1k stcA stA fuel n (data0 : list Z) B A m P tape : Z.of_nat m < 2 ^ 61 ->
  (exists cm, (cm < m)%nat /\ nth cm P 0 <= B) ->
  bnd_sh es maskc landk sub1 stc1k stcA stA fuel n data0 B A (Z.of_nat m) P tape = None.
Proof.
  intros Hm Hex. unfold bnd_sh. cbv zeta.
  destruct (first_index (fun cm => B >=? nth cm P 0) m) as (j0 & Hj0 & HQ & Hbefore).
  { destruct Hex as (cm & Hcm & Hle). exists cm. split; [exact Hcm|]. apply Z.geb_le. lia. }
  rewrite (for_up_fail (fun _ : nat => (@nil Z, data0)) m j0); try lia; [reflexivity | |].
  - intros j Hj. replace (0 + 1 * Z.of_nat j) with (Z.of_nat j) by lia. cbv beta iota. unfold tabP. rewrite Nat2Z.id. rewrite (Hbefore j Hj). reflexivity.
  - replace (0 + 1 * Z.of_nat j0) with (Z.of_nat j0) by lia. cbv beta iota. unfold tabP. rewrite Nat2Z.id. cbv beta in HQ. rewrite HQ. reflexivity.
Qed.
