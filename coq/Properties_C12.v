(* C12 — uniform, bounded, ternary, fixed-weight samplers: exact support and bias bounds.  Statements only.
   A probability under a uniform tape is a preimage count. *)
From Coq Require Import ZArith List Arith.
From NTT Require Import Small Samplers SamplersExec Reservoir ReservoirSlots HwtStore.
Local Open Scope Z_scope.

(* uniform: residue r is produced by exactly the b-bit words r and (if it fits) r+p: every residue reachable, ratio <= 2 *)
Theorem C12_uniform_preimages : forall b p t r, 0 < b -> 2 ^ (b - 1) <= p < 2 ^ b -> 0 <= t < 2 ^ b -> 0 <= r < p ->
  (uni_decode b p t = r <-> (t = r \/ t = r + p)).
Proof. exact uni_preimage. Qed.
Print Assumptions C12_uniform_preimages.

(* bounded: support inside A*{-(B-1)..B-1}, one value per coefficient for all moduli *)
Theorem C12_bounded_support : forall w p B A word, 8 <= w <= 64 -> 1 <= B -> 1 <= A -> B < p -> p < 2 ^ w -> A * (B - 1) < p ->
  let tmp := bnd_tmp (mask_bits (2 * B - 1)) B word in let v := bnd_val B tmp in
  - (B - 1) <= v <= B - 1 /\ 0 <= bnd_store_amp w p B A tmp < p /\ bnd_store_amp w p B A tmp = (A * v) mod p.
Proof. exact bounded_amp_consistent. Qed.
Print Assumptions C12_bounded_support.

(* ternary: for all 256 thresholds: #non-zero bytes = rho+1, |#(+1) - #(-1)| <= 2, exactly balanced for the default 0x7F *)
Theorem C12_ternary_counts : forallb zo_ok Samplers.bytes = true /\ Samplers.cnt (fun y => zo_val 127 y =? 1) = Samplers.cnt (fun y => zo_val 127 y =? -1).
Proof. exact ternary_all_rho. Qed.
Print Assumptions C12_ternary_counts.

(* fixed weight: over all draw tuples of (repaired) reservoir sampling, every weight-h characteristic vector of length h+m
   occurs exactly m! times: the position set is uniform over the h-subsets, for all h and m *)
Theorem C12_reservoir_uniform : forall h m T, length T = (h + m)%nat -> weight T = h -> Reservoir.cnt T (sets h m) = fact m.
Proof. exact uniform. Qed.
Print Assumptions C12_reservoir_uniform.

(* the slot array `hitted` of the code refines that subset process: over ALL tuples of accepted draws (pos_k in [0,k], k = h..h+m-1),
   the final slot arrays -- as position sets -- are a permutation of the subset process, so every h-subset of the h+m positions is
   the final position set of exactly m! of the (h+1)(h+2)...(h+m) tuples; and the update used by the executable model is that step *)
Theorem C12_slots_refine_subsets : forall h m, Permutation.Permutation (map (char (h + m)) (runs h m)) (sets h m).
Proof. exact runs_refine. Qed.
Print Assumptions C12_slots_refine_subsets.
Theorem C12_slots_uniform : forall h m T, length T = (h + m)%nat -> weight T = h ->
  Reservoir.cnt T (map (char (h + m)) (runs h m)) = fact m /\ length (runs h m) = rising h m.
Proof. exact slots_uniform_count. Qed.
Print Assumptions C12_slots_uniform.
Theorem C12_slot_step_is_model_update : forall h hit pos k,
  map Z.of_nat (slot_step h hit pos k) =
  (if Z.of_nat pos <? Z.of_nat h then set_nth (map Z.of_nat hit) (Z.to_nat (Z.of_nat pos)) (Z.of_nat k) else map Z.of_nat hit).
Proof. exact slot_step_Z. Qed.
Print Assumptions C12_slot_step_is_model_update.

(* the store stage: with the loop's slot-array invariant (h distinct indices below n), every row of the stored polynomial has exactly h
   non-zero residues, at exactly the slot positions, each 1 or p-1, and every row is ONE signed polynomial in {-1,0,1} reduced mod its p *)
Theorem C12_hwt_store : forall n h hitn signs p, Slots h n hitn -> (h <= length signs)%nat -> 2 < p ->
  let pos := sort (map Z.of_nat hitn) in
  hwt_row n p pos signs = map (fun i => hwt_val pos signs i mod p) (seq 0 n) /\
  Forall (fun v => 0 <= v < p) (hwt_row n p pos signs) /\
  length (filter (fun i => negb (hwt_val pos signs i =? 0)) (seq 0 n)) = h /\
  (forall i, hwt_val pos signs i <> 0 <-> In i hitn).
Proof. exact hwt_final. Qed.
Print Assumptions C12_hwt_store.
(* ... and these rows are what the executable sampler model stores *)
Theorem C12_hwt_store_is_model : forall n ps h tape hit tape',
  reservoir (length tape + 1) h (map Z.of_nat (seq h (n - h))) (map Z.of_nat (seq 0 h)) nil tape = Some (hit, tape') ->
  set_hwt n ps h tape = Some (concat (map (fun p => hwt_row n p (sort hit) (words_of 8 h tape')) ps)).
Proof. exact set_hwt_rows. Qed.
Print Assumptions C12_hwt_store_is_model.

(* the rejection step maps accepted words uniformly onto [0,k]: index r has exactly rs preimages among the accepted words *)
Theorem C12_draw_preimages : forall k1 r, 0 < k1 <= W64 -> 0 <= r < k1 ->
  let rs := (W64 - 1) / k1 in forall x, (0 <= x < rs * k1 /\ x mod k1 = r) <-> (exists q, 0 <= q < rs /\ x = q * k1 + r).
Proof. exact draw_preimages. Qed.
Print Assumptions C12_draw_preimages.

(* poly::set(hwt_dist const&) OF THE SOURCE (include/nfl/core.hpp), read on every run by tools/cxxhwt2coq.py into gen/GenHwt.v: the control skeleton
   HwtSem.hwt_prog (two vectors, the iterator pair, the position loop with its endless rejection loop, sort, clear, refill, the modulus loop with
   its range-for) with every integer expression of the source translated with C++ semantics.  For the three limb types it IS the executable
   model SamplersExec.set_hwt -- the reservoir the uniformity theorems above are about, followed by the store of C12_hwt_store -- for every
   degree, weight 0 < h <= n, number of moduli, table of moduli and tape on which the model has a result. *)
From NTT Require HwtSrc.
From NTT.gen Require GenHwt.
Theorem C12_source_set_hwt : HwtSrc.hwt_is_model 16 GenHwt.gen_set_hwt_u16 /\ HwtSrc.hwt_is_model 32 GenHwt.gen_set_hwt_u32 /\ HwtSrc.hwt_is_model 64 GenHwt.gen_set_hwt_u64.
Proof. exact HwtSrc.source_set_hwt_is_model. Qed.
Print Assumptions C12_source_set_hwt.
(* the statement in full for one limb type *)
Theorem C12_source_set_hwt_u64 : forall n nm hn P _data tape out,
  (0 < hn <= n)%nat -> Z.of_nat n * Z.of_nat nm < 2 ^ 60 -> Z.of_nat n < 2 ^ 60 -> length _data = (n * nm)%nat -> (nm <= length P)%nat ->
  (forall cm, 0 <= cm < Z.of_nat nm -> 0 < MemSem.tabP P cm < 2 ^ 64) ->
  set_hwt n (firstn nm P) hn tape = Some out ->
  exists tape', GenHwt.gen_set_hwt_u64 (length tape + 1)%nat (Z.of_nat n) _data (Z.of_nat hn) (Z.of_nat nm) P tape = Some (out, tape').
Proof. intros n nm hn P _data tape out A B C D E F H. exact (proj2 (proj2 HwtSrc.source_set_hwt_is_model) n nm hn P _data tape out (conj A (conj B (conj C (conj D (conj E F))))) H). Qed.
Print Assumptions C12_source_set_hwt_u64.
Example C12_source_set_hwt_nonvacuous :
  HwtSrc.hwt_pre 16 8 2 3 (97 :: 193 :: nil) (repeat 7 16) /\
  (exists out tape', set_hwt 8 (97 :: 193 :: nil) 3 HwtSrc.demo_tape = Some out /\ GenHwt.gen_set_hwt_u16 401 8 (repeat 7 16) 3 2 (97 :: 193 :: nil) HwtSrc.demo_tape = Some (out, tape') /\
     length (filter (fun v => negb (v =? 0)) (firstn 8 out)) = 3%nat).
Proof. exact HwtSrc.source_set_hwt_nonvacuous. Qed.
