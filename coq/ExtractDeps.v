(* everything the extracted model runner needs (built by make before Extract.v is run) *)
From NTT Require Export Functors ScalarOps Simd SimdKernels NTTInst Shards ExprExec CRT CRTExec Setters Serial Text PolyP RandBytes Salsa Prng PrngConc Samplers SamplersExec GaussDecode GaussExec.
From NTT.gen Require Export Params.
