(* poly::core::inv_ntt translated from the source (gen_inv_ntt_<build>_uN: bit-reversal copy of x into the local array y[degree+1], core::ntt on
   y, bit-reversal copy back): with permut<degree>::compute translated from permut.hpp and proved to be the model's BR for every degree
   (PermSrc.permut_ok), the translated function returns  BR (F (BR x))  where F is what the translated core::ntt does to the first `degree`
   words of the scratch array.  The scratch array has degree+1 words; the transform theorems (C05_source_loops_all_builds) are stated for an
   array of exactly `degree` words; Frame.v shows that the translated core::ntt of every build leaves the extra word alone (hypothesis NTTpad
   below is discharged in InvNttAll.v). *)
From Coq Require Import ZArith List Lia Bool Arith.
From NTT Require Import Algebra Rev Inverse Permut CxxSem MemSem LoopSpec LoopRun PermSem PermSrc.
From NTT.gen Require Import GenPerm GenLoop.
Import ListNotations.
Local Open Scope Z_scope.

Lemma BR_firstn k0 (l : list Z) pad : length l = (2 ^ S k0)%nat -> BR k0 (l ++ pad) = BR k0 l.
Proof.
  intros Hl. unfold BR, tab. apply map_ext_in. intros i Hi. apply in_seq in Hi. rewrite app_nth1; [reflexivity|]. rewrite Hl. pose proof (rev_lt (S k0) i). lia.
Qed.
Lemma BR_len k0 (l : list Z) : length (BR k0 l) = (2 ^ S k0)%nat. Proof. unfold BR. apply tab_length. Qed.

Section Inv.
Variable ntt : Z -> list Z -> Z -> list Z -> Z -> list Z -> Z -> Z -> option (list Z * Z * Z * Z * bool).
Variable inv : nat -> Z -> list Z -> Z -> list Z -> Z -> list Z -> Z -> Z -> Z -> list Z -> option (list Z * list Z * Z * Z * bool).
Hypothesis Hinv : forall fuel degree x x_o w wo w' wo' invK p y, inv fuel degree x x_o w wo w' wo' invK p y =
  (if (degree =? 1) then Some ((x, y, wo, wo'), true) else (bind (gen_permut fuel degree y 0 x x_o) (fun y => (bind (ntt degree y 0 w wo w' wo' p) (fun '(y, _, _, _, ret_) => (bind (gen_permut fuel degree x x_o y 0) (fun x => Some ((x, y, wo, wo'), true)))))))).
Variables (k0 : nat) (fuel : nat) (W W' : list Z) (p invK : Z) (F : list Z -> list Z).
Notation n := (2 ^ S k0)%nat.
Hypothesis Hk : (S k0 <= 30)%nat.
Hypothesis Hf : (S k0 < fuel)%nat.
Hypothesis HF : forall v, length v = n -> length (F v) = n.
(* the translated core::ntt on the (degree+1)-word scratch array: transforms the first degree words, leaves the last one *)
Variable R : Z -> Prop.
Hypothesis NTTpad : forall v pad, length v = n -> Forall R v -> length pad = 1%nat -> exists a b c, ntt (Z.of_nat n) (v ++ pad) 0 W 0 W' 0 p = Some ((F v ++ pad, a, b, c), true).

Lemma BR_Forall x : length x = n -> Forall R x -> Forall R (BR k0 x).
Proof. intros Hx HR. unfold BR, tab. apply Forall_tab. intros j Hj. apply Forall_nth_R; [exact HR|]. rewrite Hx. apply rev_lt. Qed.
Theorem inv_ntt_ok x y0 : length x = n -> Forall R x -> length y0 = S n ->
  inv fuel (Z.of_nat n) x 0 W 0 W' 0 invK p y0 = Some ((BR k0 (F (BR k0 x)), F (BR k0 x) ++ skipn n y0, 0, 0), true).
Proof.
  intros Hx HRx Hy. rewrite Hinv. assert (Hn1 : (Z.of_nat n =? 1) = false).
  { apply Z.eqb_neq. rewrite pow2_Z. assert (2 ^ 1 <= 2 ^ Z.of_nat (S k0)) by (apply Z.pow_le_mono_r; lia). change (2 ^ 1) with 2 in *. lia. }
  rewrite Hn1. rewrite (permut_ok k0 fuel x y0 Hk Hf) by lia. cbn [bind].
  assert (Lp : length (skipn n y0) = 1%nat) by (rewrite skipn_length; lia).
  destruct (NTTpad (BR k0 x) (skipn n y0) (BR_len k0 x) (BR_Forall x Hx HRx) Lp) as (a & b & c & E). rewrite E. cbn [bind].
  rewrite (permut_ok k0 fuel (F (BR k0 x) ++ skipn n y0) x Hk Hf) by (rewrite ?app_length, ?HF by apply BR_len; lia). cbn [bind].
  rewrite BR_firstn by (apply HF; apply BR_len). rewrite skipn_all2 by lia. rewrite app_nil_r. reflexivity.
Qed.
End Inv.

(* the nine translated functions have exactly that shape *)
Lemma inv_shape_serial_u16 : forall fuel degree x x_o w wo w' wo' invK p y, gen_inv_ntt_serial_u16 fuel degree x x_o w wo w' wo' invK p y = (if (degree =? 1) then Some ((x, y, wo, wo'), true) else (bind (gen_permut fuel degree y 0 x x_o) (fun y => (bind (gen_ntt_serial_u16 degree y 0 w wo w' wo' p) (fun '(y, _, _, _, ret_) => (bind (gen_permut fuel degree x x_o y 0) (fun x => Some ((x, y, wo, wo'), true)))))))). Proof. reflexivity. Qed.
Lemma inv_shape_serial_u32 : forall fuel degree x x_o w wo w' wo' invK p y, gen_inv_ntt_serial_u32 fuel degree x x_o w wo w' wo' invK p y = (if (degree =? 1) then Some ((x, y, wo, wo'), true) else (bind (gen_permut fuel degree y 0 x x_o) (fun y => (bind (gen_ntt_serial_u32 degree y 0 w wo w' wo' p) (fun '(y, _, _, _, ret_) => (bind (gen_permut fuel degree x x_o y 0) (fun x => Some ((x, y, wo, wo'), true)))))))). Proof. reflexivity. Qed.
Lemma inv_shape_serial_u64 : forall fuel degree x x_o w wo w' wo' invK p y, gen_inv_ntt_serial_u64 fuel degree x x_o w wo w' wo' invK p y = (if (degree =? 1) then Some ((x, y, wo, wo'), true) else (bind (gen_permut fuel degree y 0 x x_o) (fun y => (bind (gen_ntt_serial_u64 degree y 0 w wo w' wo' p) (fun '(y, _, _, _, ret_) => (bind (gen_permut fuel degree x x_o y 0) (fun x => Some ((x, y, wo, wo'), true)))))))). Proof. reflexivity. Qed.
Lemma inv_shape_sse_u16 : forall fuel degree x x_o w wo w' wo' invK p y, gen_inv_ntt_sse_u16 fuel degree x x_o w wo w' wo' invK p y = (if (degree =? 1) then Some ((x, y, wo, wo'), true) else (bind (gen_permut fuel degree y 0 x x_o) (fun y => (bind (gen_ntt_sse_u16 degree y 0 w wo w' wo' p) (fun '(y, _, _, _, ret_) => (bind (gen_permut fuel degree x x_o y 0) (fun x => Some ((x, y, wo, wo'), true)))))))). Proof. reflexivity. Qed.
Lemma inv_shape_sse_u32 : forall fuel degree x x_o w wo w' wo' invK p y, gen_inv_ntt_sse_u32 fuel degree x x_o w wo w' wo' invK p y = (if (degree =? 1) then Some ((x, y, wo, wo'), true) else (bind (gen_permut fuel degree y 0 x x_o) (fun y => (bind (gen_ntt_sse_u32 degree y 0 w wo w' wo' p) (fun '(y, _, _, _, ret_) => (bind (gen_permut fuel degree x x_o y 0) (fun x => Some ((x, y, wo, wo'), true)))))))). Proof. reflexivity. Qed.
Lemma inv_shape_sse_u64 : forall fuel degree x x_o w wo w' wo' invK p y, gen_inv_ntt_sse_u64 fuel degree x x_o w wo w' wo' invK p y = (if (degree =? 1) then Some ((x, y, wo, wo'), true) else (bind (gen_permut fuel degree y 0 x x_o) (fun y => (bind (gen_ntt_sse_u64 degree y 0 w wo w' wo' p) (fun '(y, _, _, _, ret_) => (bind (gen_permut fuel degree x x_o y 0) (fun x => Some ((x, y, wo, wo'), true)))))))). Proof. reflexivity. Qed.
Lemma inv_shape_avx2_u16 : forall fuel degree x x_o w wo w' wo' invK p y, gen_inv_ntt_avx2_u16 fuel degree x x_o w wo w' wo' invK p y = (if (degree =? 1) then Some ((x, y, wo, wo'), true) else (bind (gen_permut fuel degree y 0 x x_o) (fun y => (bind (gen_ntt_avx2_u16 degree y 0 w wo w' wo' p) (fun '(y, _, _, _, ret_) => (bind (gen_permut fuel degree x x_o y 0) (fun x => Some ((x, y, wo, wo'), true)))))))). Proof. reflexivity. Qed.
Lemma inv_shape_avx2_u32 : forall fuel degree x x_o w wo w' wo' invK p y, gen_inv_ntt_avx2_u32 fuel degree x x_o w wo w' wo' invK p y = (if (degree =? 1) then Some ((x, y, wo, wo'), true) else (bind (gen_permut fuel degree y 0 x x_o) (fun y => (bind (gen_ntt_avx2_u32 degree y 0 w wo w' wo' p) (fun '(y, _, _, _, ret_) => (bind (gen_permut fuel degree x x_o y 0) (fun x => Some ((x, y, wo, wo'), true)))))))). Proof. reflexivity. Qed.
Lemma inv_shape_avx2_u64 : forall fuel degree x x_o w wo w' wo' invK p y, gen_inv_ntt_avx2_u64 fuel degree x x_o w wo w' wo' invK p y = (if (degree =? 1) then Some ((x, y, wo, wo'), true) else (bind (gen_permut fuel degree y 0 x x_o) (fun y => (bind (gen_ntt_avx2_u64 degree y 0 w wo w' wo' p) (fun '(y, _, _, _, ret_) => (bind (gen_permut fuel degree x x_o y 0) (fun x => Some ((x, y, wo, wo'), true)))))))). Proof. reflexivity. Qed.
