(* prep_wtab as initialize() calls it: BOTH pointers inside one array (omegas[cm] and omegas[cm] + degree).  The translation with the two
   pointer parameters in the same array (gen_prep_wtab1_uN) writes the level tables at the first offset and their Shoup companions at the
   second, leaving everything else of the array alone. *)
From Coq Require Import ZArith List Lia Bool Arith.
From NTT Require Import Layer Tables FlatTable CxxSem MemSem LoopSpec LoopRun PrepSpec.
Import ListNotations.
Local Open Scope Z_scope.

Definition StP1 := (list Z * Z * Z)%type.
Definition prep1_sh (bits : Z) (mm : Z -> Z -> Z -> option Z) (fuel : nat) (degree : Z) (wtab : list Z) (wtab_o : Z) (wtabshoup_o : Z) (w : Z) (cm : Z) (p : Z) : option StP1 :=
  (let K_1 := (uw 32 degree) in (bind (while_fuel fuel (fun '(wtab, wtab_o, wtabshoup_o, K_2, w_3) => (K_2 >=? 2)) (fun '(wtab, wtab_o, wtabshoup_o, K_2, w_3) => (let wi_4 := 1 in (bind (for_up 0 (K_2 / 2) 1 (fun i_5 '(wtab, wtab_o, wtabshoup_o, wi_6) => (bind (st wtab wtab_o (uw bits wi_6)) (fun wtab => (let wtab_o := (wtab_o + 1) in (bind (st wtab wtabshoup_o (uw bits ((uw (2 * bits) (wi_6 * 2 ^ bits)) / p))) (fun wtab => (let wtabshoup_o := (wtabshoup_o + 1) in (bind (mm p (uw bits wi_6) w_3) (fun r_call => (let wi_7 := r_call in Some (wtab, wtab_o, wtabshoup_o, wi_7))))))))))) (wtab, wtab_o, wtabshoup_o, wi_4)) (fun '(wtab, wtab_o, wtabshoup_o, wi_8) => (bind (mm p w_3 w_3) (fun r_call => (let w_9 := r_call in (let K_10 := (K_2 / 2) in Some (wtab, wtab_o, wtabshoup_o, K_10, w_9))))))))) (wtab, wtab_o, wtabshoup_o, K_1, w)) (fun '(wtab, wtab_o, wtabshoup_o, K_11, w_12) => Some (wtab, wtab_o, wtabshoup_o)))).

Lemma tl_app (x y : list Z) : x <> [] -> tl (x ++ y) = tl x ++ y.
Proof. destruct x; [congruence | reflexivity]. Qed.
Lemma skipn_nonnil (l : list Z) j : (j < length l)%nat -> skipn j l <> [].
Proof. intros H E. apply (f_equal (@length Z)) in E. rewrite skipn_length in E. cbn in E. lia. Qed.

Section Prep1.
Variable bits : Z.
Hypothesis Hbits : 0 < bits.
Variable p : Z.
Hypothesis Hp : 1 < p.
Hypothesis Hpb : p < 2 ^ bits.
Variable mm : Z -> Z -> Z -> option Z.
Hypothesis Hmm : forall x y, 0 <= x < p -> 0 <= y < p -> mm p x y = Some ((x * y) mod p).
Notation shoupv := (shoup bits p).

(* one level, written at two places of one array:  U ++ V ++ W ++ Zt  with the cursors at |U| and |U|+|V|+|W| *)
Lemma level_loop1 wv c U V W Zt : 0 <= wv < p -> (c <= length V)%nat -> (c <= length Zt)%nat -> Z.of_nat c < 2 ^ 62 ->
  for_up 0 (Z.of_nat c) 1 (fun i_5 '(wtab, wtab_o, wtabshoup_o, wi_6) => bind (st wtab wtab_o (uw bits wi_6)) (fun wtab0 => bind (st wtab0 wtabshoup_o (uw bits ((uw (2 * bits) (wi_6 * 2 ^ bits)) / p))) (fun wtab1 => bind (mm p (uw bits wi_6) wv) (fun r_call => Some (wtab1, wtab_o + 1, wtabshoup_o + 1, r_call)))))
    (U ++ V ++ W ++ Zt, Z.of_nat (length U), Z.of_nat (length U + length V + length W), 1)
  = Some ((U ++ pows p wv c 1) ++ skipn c V ++ (W ++ map shoupv (pows p wv c 1)) ++ skipn c Zt, Z.of_nat (length U + c), Z.of_nat (length U + length V + length W + c), cur p wv c).
Proof.
  intros Hwv HV HZ Hc. set (lvl := pows p wv c 1).
  set (Q := fun j : nat => ((U ++ firstn j lvl) ++ skipn j V ++ (W ++ map shoupv (firstn j lvl)) ++ skipn j Zt, Z.of_nat (length U + j), Z.of_nat (length U + length V + length W + j), cur p wv j)).
  assert (E0 : (U ++ V ++ W ++ Zt, Z.of_nat (length U), Z.of_nat (length U + length V + length W), 1) = Q 0%nat) by (unfold Q; cbn [firstn skipn map cur]; rewrite !app_nil_r, !Nat.add_0_r; reflexivity).
  rewrite E0. rewrite (for_up_steps Q c); try lia.
  - unfold Q. rewrite firstn_all2 by (unfold lvl; rewrite pows_length; lia). reflexivity.
  - intros j Hj. unfold Q at 1. cbv beta iota zeta. pose proof (cur_range bits p Hp wv j) as Hcj.
    rewrite (uw_small bits (cur p wv j)) by lia. rewrite (shoup_small bits Hbits p Hp Hpb) by lia.
    assert (Lf : length (firstn j lvl) = j) by (rewrite firstn_length; unfold lvl; rewrite pows_length; lia).
    assert (LA : length (U ++ firstn j lvl) = (length U + j)%nat) by (rewrite app_length, Lf; lia).
    rewrite <- LA. rewrite st_append by (intros E; apply app_eq_nil in E; destruct E as [E _]; revert E; apply skipn_nonnil; lia). cbn [bind].
    rewrite tl_app by (apply skipn_nonnil; lia).
    (* second store *)
    set (pre2 := ((U ++ firstn j lvl) ++ [cur p wv j]) ++ tl (skipn j V) ++ (W ++ map shoupv (firstn j lvl))).
    assert (L2 : length pre2 = (length U + length V + length W + j)%nat).
    { unfold pre2. rewrite !app_length, map_length, Lf. cbn [length]. assert (length (tl (skipn j V)) = (length V - j - 1)%nat) by (rewrite <- skipn_S_tl, skipn_length; lia). lia. }
    assert (Eassoc : (((U ++ firstn j lvl) ++ [cur p wv j]) ++ tl (skipn j V) ++ (W ++ map shoupv (firstn j lvl)) ++ skipn j Zt) = pre2 ++ skipn j Zt).
    { unfold pre2. rewrite <- !app_assoc. reflexivity. }
    rewrite Eassoc. rewrite <- L2. rewrite st_append by (apply skipn_nonnil; lia). cbn [bind].
    rewrite Hmm by lia. cbn [bind]. rewrite LA, L2. unfold Q, pre2.
    unfold lvl. rewrite (firstn_S_pows bits p wv c j Hj). rewrite map_app. cbn [map]. rewrite !skipn_S_tl. rewrite <- !app_assoc. cbn [app].
    replace (Z.of_nat (length U + j) + 1) with (Z.of_nat (length U + S j)) by lia.
    replace (Z.of_nat (length U + length V + length W + j) + 1) with (Z.of_nat (length U + length V + length W + S j)) by lia. reflexivity.
Qed.

Variable k : nat.
Hypothesis Hk : (k <= 30)%nat.
Variable w0 : Z.
Hypothesis Hw0 : 0 <= w0 < p.
Notation wlv := (wl p w0).
Notation prev := (pre p k w0).

Theorem prep1_ok fuel H A0 B0 cm : (k < fuel)%nat -> (2 ^ k - 1 <= length A0)%nat -> (2 ^ k - 1 <= length B0)%nat -> Z.of_nat (length H + length A0 + length B0) < 2 ^ 62 ->
  prep1_sh bits mm fuel (Z.of_nat (2 ^ k)) (H ++ A0 ++ B0) (Z.of_nat (length H)) (Z.of_nat (length H + length A0)) w0 cm p =
  Some ((H ++ flat p k w0) ++ skipn (2 ^ k - 1) A0 ++ map shoupv (flat p k w0) ++ skipn (2 ^ k - 1) B0, Z.of_nat (length H + (2 ^ k - 1)), Z.of_nat (length H + length A0 + (2 ^ k - 1))).
Proof.
  intros Hf HA HB Hsm. unfold prep1_sh. cbv zeta.
  assert (Pk : Z.of_nat (2 ^ k) < 2 ^ 31) by (rewrite pow2_Z; apply Z.pow_lt_mono_r; lia).
  rewrite (uw_small 32) by lia.
  set (Q := fun l : nat => ((H ++ prev l) ++ skipn (length (prev l)) A0 ++ map shoupv (prev l) ++ skipn (length (prev l)) B0, Z.of_nat (length H + length (prev l)), Z.of_nat (length H + length A0 + length (prev l)), Z.of_nat (2 ^ (k - l)), wlv l)).
  assert (E0 : (H ++ A0 ++ B0, Z.of_nat (length H), Z.of_nat (length H + length A0), Z.of_nat (2 ^ k), w0) = Q 0%nat).
  { unfold Q. cbn [pre wl app map length skipn]. rewrite Nat.sub_0_r, !Nat.add_0_r, app_nil_r. reflexivity. }
  rewrite E0. rewrite (PrepSpec.while_steps Q k); [| | |exact Hf].
  - unfold Q. cbn [bind]. pose proof (pre_flat bits Hbits p k Hk w0 k ltac:(lia)) as F. rewrite Nat.sub_diag in F. unfold flat at 1 in F. cbn [prep concat] in F. rewrite app_nil_r in F.
    pose proof (pre_length bits Hbits p k Hk w0 k ltac:(lia)) as L. rewrite Nat.sub_diag in L. cbn [Nat.pow] in L.
    replace (length (prev k)) with (2 ^ k - 1)%nat by lia. rewrite F. reflexivity.
  - intros l Hl. unfold Q at 1 2. cbv beta iota zeta. pose proof (pre_length bits Hbits p k Hk w0 l ltac:(lia)) as L. pose proof (wl_range bits p Hp k Hk w0 Hw0 l) as Wr.
    assert (C2 : (2 ^ (k - l) = 2 * 2 ^ (k - l - 1))%nat) by (replace (k - l)%nat with (S (k - l - 1)) at 1 by lia; apply Nat.pow_succ_r').
    assert (Cpos : (0 < 2 ^ (k - l - 1))%nat) by (apply Nat.neq_0_lt_0, Nat.pow_nonzero; lia).
    split; [apply Z.geb_le; lia|].
    replace (Z.of_nat (2 ^ (k - l)) / 2) with (Z.of_nat (2 ^ (k - l - 1))) by (rewrite C2, Nat2Z.inj_mul; change (Z.of_nat 2) with 2; rewrite Z.mul_comm, Z.div_mul by lia; reflexivity).
    set (U := H ++ prev l). set (V := skipn (length (prev l)) A0). set (W := map shoupv (prev l)). set (Zt := skipn (length (prev l)) B0).
    assert (LU : length U = (length H + length (prev l))%nat) by (unfold U; rewrite app_length; reflexivity).
    assert (LV : length V = (length A0 - length (prev l))%nat) by (unfold V; apply skipn_length).
    assert (LW : length W = length (prev l)) by (unfold W; apply map_length).
    assert (Eo2 : (length H + length A0 + length (prev l) = length U + length V + length W)%nat) by lia.
    rewrite <- LU, Eo2.
    rewrite (level_loop1 (wlv l) (2 ^ (k - l - 1)) U V W Zt); try (unfold Zt; rewrite ?skipn_length; lia).
    cbn [bind]. rewrite Hmm by lia. cbn [bind]. unfold Q. cbn [pre wl]. unfold U, V, W, Zt.
    rewrite !skipn_add, map_app, !app_length, map_length, pows_length. replace (k - S l)%nat with (k - l - 1)%nat by lia.
    rewrite <- !app_assoc. rewrite skipn_length.
    replace (Z.of_nat (length H + length (prev l) + 2 ^ (k - l - 1))) with (Z.of_nat (length H + (length (prev l) + 2 ^ (k - l - 1)))) by lia.
    replace (Z.of_nat (length H + length (prev l) + (length A0 - length (prev l)) + length (prev l) + 2 ^ (k - l - 1))) with (Z.of_nat (length H + length A0 + (length (prev l) + 2 ^ (k - l - 1)))) by lia.
    reflexivity.
  - unfold Q. rewrite Nat.sub_diag. reflexivity.
Qed.
End Prep1.
