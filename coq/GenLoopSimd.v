(* The translated loops of the SSE and AVX2 builds compute Structural.ntt_core (same statement as the serial build). *)
From Coq Require Import ZArith List Lia Bool Arith.
From NTT Require Import Functors Fused Tables FlatTable Transform Structural CxxSem VecSem MemSem Layer LoopSpec LoopRun LoopInst GenEq GenLoopEq GenLoopVec.
From NTT.gen Require Import Gen GenVec GenLoop.
Import ListNotations.
Local Open Scope Z_scope.

Section Simd.
Variables (k : nat) (p om : Z).
Hypothesis Hk : (3 <= k <= 30)%nat.
Variables padW padW' : list Z.
Hypothesis HpadW : Forall (fun v => 0 <= v < p) padW.
Let W := flat p k om ++ padW.
Let tws (lvl : nat) : list Z := nth lvl (prep p k om) [].

Theorem ntt_sse_u32_ok x0 : 1 < p -> 4 * p <= 2 ^ 32 -> Forall (fun v => 0 <= v < 2 ^ 32) padW' -> length x0 = (2 ^ k)%nat -> Forall (fun v => 0 <= v < 2 ^ 32) x0 ->
  gen_ntt_sse_u32 (Z.of_nat (2 ^ k)) x0 0 W 0 (Wp k p om padW' 32) 0 p =
  Some ((ntt_core 32 p k tws x0, Z.of_nat (2 ^ k), Z.of_nat (off k (k - 2)), Z.of_nat (off k (k - 2))), true).
Proof.
  intros Hp H4 Hpad' Hx Fx. rewrite ntt_sse_u32_shape, run_sse_u32_shape. destruct (Wlen k p om ltac:(lia) padW padW' 32) as [L1 L2].
  pose proof (WF k p om padW HpadW Hp) as FW. pose proof (WpF k p om ltac:(lia) padW' 32 ltac:(lia) Hp Hpad') as FW'.
  assert (K1 : forall a b wi wt, 0 <= a < 2 ^ 32 -> 0 <= b < 2 ^ 32 -> 0 <= wi < 2 ^ 32 -> 0 <= wt < p -> gen_bfly_u32 p a b wi wt = Some (bf4 32 p a b wi wt))
    by (intros a b wi wt Ha Hb Hwi Hwt; apply gen_bfly32; lia).
  assert (K2 : forall u0 u1 u2 u3 w1' w1, 0 <= u0 < 2 ^ 32 -> 0 <= u1 < 2 ^ 32 -> 0 <= u2 < 2 ^ 32 -> 0 <= u3 < 2 ^ 32 -> 0 <= w1' < 2 ^ 32 -> 0 <= w1 < p ->
    gen_fused_u32 p u0 u1 u2 u3 w1' w1 = Some (fused 32 p w1 w1' u0 u1 u2 u3)) by (intros u0 u1 u2 u3 w1' w1 H0 H1 H2 H3 Hw1' Hw1; apply gen_fused32; lia).
  assert (K3 : forall v, 0 <= v < 2 ^ 32 -> gen_loop_u32_region1 p v = Some (LoopInst.strict1 p v)) by (intros v Hv; apply strict_region32; lia).
  rewrite (ntt_simd_inst 32 ltac:(lia) p k ltac:(lia) W _ FW FW' L1 L2 gen_bfly_u32 K1 gen_deg2_u32 gen_fused_u32 K2 gen_loop_u32_region1 K3
             (row_v 32 4 4 gen_sse_ntt_loop_body_u32) x0 ltac:(lia)); try assumption.
  - unfold W, tws. unfold Wp, W. rewrite (result_is_ntt_core 32 p k om padW padW' x0) by lia. reflexivity.
  - intros lvl Hl. apply (rowok_v 32 ltac:(lia) p k ltac:(lia) W _ FW FW' L1 L2 32 4 gen_sse_ntt_loop_body_u32 2 lvl); [reflexivity | apply kern_sse32; lia | lia].
Qed.
Theorem ntt_avx2_u32_ok x0 : 1 < p -> 4 * p <= 2 ^ 32 -> Forall (fun v => 0 <= v < 2 ^ 32) padW' -> length x0 = (2 ^ k)%nat -> Forall (fun v => 0 <= v < 2 ^ 32) x0 ->
  gen_ntt_avx2_u32 (Z.of_nat (2 ^ k)) x0 0 W 0 (Wp k p om padW' 32) 0 p =
  Some ((ntt_core 32 p k tws x0, Z.of_nat (2 ^ k), Z.of_nat (off k (k - 2)), Z.of_nat (off k (k - 2))), true).
Proof.
  intros Hp H4 Hpad' Hx Fx. rewrite ntt_avx2_u32_shape, run_avx2_u32_shape. destruct (Wlen k p om ltac:(lia) padW padW' 32) as [L1 L2].
  pose proof (WF k p om padW HpadW Hp) as FW. pose proof (WpF k p om ltac:(lia) padW' 32 ltac:(lia) Hp Hpad') as FW'.
  assert (K1 : forall a b wi wt, 0 <= a < 2 ^ 32 -> 0 <= b < 2 ^ 32 -> 0 <= wi < 2 ^ 32 -> 0 <= wt < p -> gen_bfly_u32 p a b wi wt = Some (bf4 32 p a b wi wt))
    by (intros a b wi wt Ha Hb Hwi Hwt; apply gen_bfly32; lia).
  assert (K2 : forall u0 u1 u2 u3 w1' w1, 0 <= u0 < 2 ^ 32 -> 0 <= u1 < 2 ^ 32 -> 0 <= u2 < 2 ^ 32 -> 0 <= u3 < 2 ^ 32 -> 0 <= w1' < 2 ^ 32 -> 0 <= w1 < p ->
    gen_fused_u32 p u0 u1 u2 u3 w1' w1 = Some (fused 32 p w1 w1' u0 u1 u2 u3)) by (intros u0 u1 u2 u3 w1' w1 H0 H1 H2 H3 Hw1' Hw1; apply gen_fused32; lia).
  assert (K3 : forall v, 0 <= v < 2 ^ 32 -> gen_loop_u32_region1 p v = Some (LoopInst.strict1 p v)) by (intros v Hv; apply strict_region32; lia).
  rewrite (ntt_simd_inst 32 ltac:(lia) p k ltac:(lia) W _ FW FW' L1 L2 gen_bfly_u32 K1 gen_deg2_u32 gen_fused_u32 K2 gen_loop_u32_region1 K3
             (row_avx2 32 8 gen_avx2_ntt_loop_body_u32 gen_sse_ntt_loop_body_u32) x0 ltac:(lia)); try assumption.
  - unfold W, tws. unfold Wp, W. rewrite (result_is_ntt_core 32 p k om padW padW' x0) by lia. reflexivity.
  - intros lvl Hl. apply (rowok_avx2 32 ltac:(lia) p k ltac:(lia) W _ FW FW' L1 L2 32 gen_avx2_ntt_loop_body_u32 gen_sse_ntt_loop_body_u32 2 lvl); [reflexivity | reflexivity | apply kern_avx2_32; lia | apply kern_sse32; lia | lia].
Qed.
Theorem ntt_sse_u16_ok x0 : 1 < p -> p < 2 ^ 14 -> Forall (fun v => 0 <= v < 2 ^ 16) padW' -> length x0 = (2 ^ k)%nat -> Forall (fun v => 0 <= v < 2 ^ 16) x0 ->
  gen_ntt_sse_u16 (Z.of_nat (2 ^ k)) x0 0 W 0 (Wp k p om padW' 16) 0 p =
  Some ((ntt_core 16 p k tws x0, Z.of_nat (2 ^ k), Z.of_nat (off k (k - 2)), Z.of_nat (off k (k - 2))), true).
Proof.
  intros Hp P14 Hpad' Hx Fx. rewrite ntt_sse_u16_shape, run_sse_u16_shape. destruct (Wlen k p om ltac:(lia) padW padW' 16) as [L1 L2].
  assert (H4 : 4 * p <= 2 ^ 16) by (change (2 ^ 16) with 65536; change (2 ^ 14) with 16384 in P14; lia).
  pose proof (WF k p om padW HpadW Hp) as FW. pose proof (WpF k p om ltac:(lia) padW' 16 ltac:(lia) Hp Hpad') as FW'.
  assert (K1 : forall a b wi wt, 0 <= a < 2 ^ 16 -> 0 <= b < 2 ^ 16 -> 0 <= wi < 2 ^ 16 -> 0 <= wt < p -> gen_bfly_u16 p a b wi wt = Some (bf4 16 p a b wi wt))
    by (intros a b wi wt Ha Hb Hwi Hwt; apply gen_bfly16; lia).
  assert (K2 : forall u0 u1 u2 u3 w1' w1, 0 <= u0 < 2 ^ 16 -> 0 <= u1 < 2 ^ 16 -> 0 <= u2 < 2 ^ 16 -> 0 <= u3 < 2 ^ 16 -> 0 <= w1' < 2 ^ 16 -> 0 <= w1 < p ->
    gen_fused_u16 p u0 u1 u2 u3 w1' w1 = Some (fused 16 p w1 w1' u0 u1 u2 u3)) by (intros u0 u1 u2 u3 w1' w1 H0 H1 H2 H3 Hw1' Hw1; apply gen_fused16; lia).
  assert (K3 : forall v, 0 <= v < 2 ^ 16 -> gen_loop_u16_region1 p v = Some (LoopInst.strict1 p v)) by (intros v Hv; apply strict_region16; lia).
  rewrite (ntt_simd_inst 16 ltac:(lia) p k ltac:(lia) W _ FW FW' L1 L2 gen_bfly_u16 K1 gen_deg2_u16 gen_fused_u16 K2 gen_loop_u16_region1 K3
             (row_v 16 4 8 gen_sse_ntt_loop_body_u16) x0 ltac:(lia)); try assumption.
  - unfold W, tws. unfold Wp, W. rewrite (result_is_ntt_core 16 p k om padW padW' x0) by lia. reflexivity.
  - intros lvl Hl. apply (rowok_v 16 ltac:(lia) p k ltac:(lia) W _ FW FW' L1 L2 16 4 gen_sse_ntt_loop_body_u16 3 lvl); [reflexivity | apply kern_sse16; lia | lia].
Qed.
Theorem ntt_avx2_u16_ok x0 : 1 < p -> p < 2 ^ 14 -> Forall (fun v => 0 <= v < 2 ^ 16) padW' -> length x0 = (2 ^ k)%nat -> Forall (fun v => 0 <= v < 2 ^ 16) x0 ->
  gen_ntt_avx2_u16 (Z.of_nat (2 ^ k)) x0 0 W 0 (Wp k p om padW' 16) 0 p =
  Some ((ntt_core 16 p k tws x0, Z.of_nat (2 ^ k), Z.of_nat (off k (k - 2)), Z.of_nat (off k (k - 2))), true).
Proof.
  intros Hp P14 Hpad' Hx Fx. rewrite ntt_avx2_u16_shape, run_avx2_u16_shape. destruct (Wlen k p om ltac:(lia) padW padW' 16) as [L1 L2].
  assert (H4 : 4 * p <= 2 ^ 16) by (change (2 ^ 16) with 65536; change (2 ^ 14) with 16384 in P14; lia).
  pose proof (WF k p om padW HpadW Hp) as FW. pose proof (WpF k p om ltac:(lia) padW' 16 ltac:(lia) Hp Hpad') as FW'.
  assert (K1 : forall a b wi wt, 0 <= a < 2 ^ 16 -> 0 <= b < 2 ^ 16 -> 0 <= wi < 2 ^ 16 -> 0 <= wt < p -> gen_bfly_u16 p a b wi wt = Some (bf4 16 p a b wi wt))
    by (intros a b wi wt Ha Hb Hwi Hwt; apply gen_bfly16; lia).
  assert (K2 : forall u0 u1 u2 u3 w1' w1, 0 <= u0 < 2 ^ 16 -> 0 <= u1 < 2 ^ 16 -> 0 <= u2 < 2 ^ 16 -> 0 <= u3 < 2 ^ 16 -> 0 <= w1' < 2 ^ 16 -> 0 <= w1 < p ->
    gen_fused_u16 p u0 u1 u2 u3 w1' w1 = Some (fused 16 p w1 w1' u0 u1 u2 u3)) by (intros u0 u1 u2 u3 w1' w1 H0 H1 H2 H3 Hw1' Hw1; apply gen_fused16; lia).
  assert (K3 : forall v, 0 <= v < 2 ^ 16 -> gen_loop_u16_region1 p v = Some (LoopInst.strict1 p v)) by (intros v Hv; apply strict_region16; lia).
  rewrite (ntt_simd_inst 16 ltac:(lia) p k ltac:(lia) W _ FW FW' L1 L2 gen_bfly_u16 K1 gen_deg2_u16 gen_fused_u16 K2 gen_loop_u16_region1 K3
             (row_avx2 16 16 gen_avx2_ntt_loop_body_u16 gen_sse_ntt_loop_body_u16) x0 ltac:(lia)); try assumption.
  - unfold W, tws. unfold Wp, W. rewrite (result_is_ntt_core 16 p k om padW padW' x0) by lia. reflexivity.
  - intros lvl Hl. apply (rowok_avx2 16 ltac:(lia) p k ltac:(lia) W _ FW FW' L1 L2 16 gen_avx2_ntt_loop_body_u16 gen_sse_ntt_loop_body_u16 3 lvl); [reflexivity | reflexivity | apply kern_avx2_16; lia | apply kern_sse16; lia | lia].
Qed.
End Simd.

(* all builds, all limb types: one statement.  (For 64-bit limbs the SSE and AVX2 builds run the serial loops: ntt_loop<simd::sse, poly, T>
   is ntt_loop<simd::serial, poly, T> unless T is uint16_t or uint32_t -- the translator found that call, the shapes record it.)
   The table arrays may be longer than the tables (the library's have 2*degree cells): padW / padW' is what follows. *)
Theorem source_loops_all_builds k p om padW padW' x0 : (3 <= k <= 30)%nat -> 1 < p -> Forall (fun v => 0 <= v < p) padW -> length x0 = (2 ^ k)%nat ->
  let W := flat p k om ++ padW in let W' := fun w => map (fun v => (v * 2 ^ w) / p) (flat p k om) ++ padW' in let tws := fun lvl => nth lvl (prep p k om) nil in
  let out w := Some ((ntt_core w p k tws x0, Z.of_nat (2 ^ k), Z.of_nat (off k (k - 2)), Z.of_nat (off k (k - 2))), true) in
  (p < 2 ^ 14 -> Forall (fun v => 0 <= v < 2 ^ 16) padW' -> Forall (fun v => 0 <= v < 2 ^ 16) x0 ->
     gen_ntt_serial_u16 (Z.of_nat (2 ^ k)) x0 0 W 0 (W' 16) 0 p = out 16 /\
     gen_ntt_sse_u16 (Z.of_nat (2 ^ k)) x0 0 W 0 (W' 16) 0 p = out 16 /\
     gen_ntt_avx2_u16 (Z.of_nat (2 ^ k)) x0 0 W 0 (W' 16) 0 p = out 16) /\
  (4 * p <= 2 ^ 32 -> Forall (fun v => 0 <= v < 2 ^ 32) padW' -> Forall (fun v => 0 <= v < 2 ^ 32) x0 ->
     gen_ntt_serial_u32 (Z.of_nat (2 ^ k)) x0 0 W 0 (W' 32) 0 p = out 32 /\
     gen_ntt_sse_u32 (Z.of_nat (2 ^ k)) x0 0 W 0 (W' 32) 0 p = out 32 /\
     gen_ntt_avx2_u32 (Z.of_nat (2 ^ k)) x0 0 W 0 (W' 32) 0 p = out 32) /\
  (4 * p <= 2 ^ 64 -> Forall (fun v => 0 <= v < 2 ^ 64) padW' -> Forall (fun v => 0 <= v < 2 ^ 64) x0 ->
     gen_ntt_serial_u64 (Z.of_nat (2 ^ k)) x0 0 W 0 (W' 64) 0 p = out 64 /\
     gen_ntt_sse_u64 (Z.of_nat (2 ^ k)) x0 0 W 0 (W' 64) 0 p = out 64 /\
     gen_ntt_avx2_u64 (Z.of_nat (2 ^ k)) x0 0 W 0 (W' 64) 0 p = out 64).
Proof.
  intros Hk Hp HpadW Hx W W' tws out. assert (Hk2 : (2 <= k <= 30)%nat) by lia.
  split; [|split]; intros H1 Hpad' Fx; (split; [|split]).
  - apply (ntt_serial_u16_ok k p om Hk2 padW padW' HpadW); assumption.
  - apply (ntt_sse_u16_ok k p om Hk padW padW' HpadW); assumption.
  - apply (ntt_avx2_u16_ok k p om Hk padW padW' HpadW); assumption.
  - apply (ntt_serial_u32_ok k p om Hk2 padW padW' HpadW); assumption.
  - apply (ntt_sse_u32_ok k p om Hk padW padW' HpadW); assumption.
  - apply (ntt_avx2_u32_ok k p om Hk padW padW' HpadW); assumption.
  - apply (ntt_serial_u64_ok k p om Hk2 padW padW' HpadW); assumption.
  - rewrite ntt_sse_u64_shape, <- ntt_serial_u64_shape. apply (ntt_serial_u64_ok k p om Hk2 padW padW' HpadW); assumption.
  - rewrite ntt_avx2_u64_shape, <- ntt_serial_u64_shape. apply (ntt_serial_u64_ok k p om Hk2 padW padW' HpadW); assumption.
Qed.
