(* C13: the control structure of nfl_crypto_stream_salsa20_amd64_xmm6 -- four blocks per iteration while at least 256 bytes remain, then
   single blocks, the last one (fewer than 64 bytes) through a stack buffer -- produces the same byte string as the specification-level
   stream (firstn len of consecutive blocks from counter 0).  (The instructions of the assembly are compared, not verified.) *)
From Coq Require Import ZArith Lia List Arith.
From NTT Require Import Salsa.
Import ListNotations.

Section Loop.
Variables key nonce : list Z.

Fixpoint asm_loop (fuel : nat) (ctr : Z) (bytes : nat) : list Z :=
  match fuel with
  | O => []
  | S f =>
      if 256 <=? bytes then blocks key nonce ctr 4 ++ asm_loop f (ctr + 4) (bytes - 256)          (* bytesatleast256 / mainloop1 *)
      else if bytes =? 0 then []                                                                   (* done *)
      else if 64 <? bytes then block key nonce ctr ++ asm_loop f (ctr + 1) (bytes - 64)            (* bytesatleast65 *)
      else firstn bytes (block key nonce ctr)                                                      (* exactly 64, or fewer through tmp *)
  end.
Definition asm_stream (len : nat) : list Z := asm_loop (len / 64 + 1) 0 len.

Lemma firstn_app_long {A} (a b : list A) n : length a <= n -> firstn n (a ++ b) = a ++ firstn (n - length a) b.
Proof. intros H. rewrite firstn_app. rewrite firstn_all2 by exact H. reflexivity. Qed.

Lemma asm_loop_spec : forall fuel ctr bytes, bytes / 64 + 1 <= fuel ->
  asm_loop fuel ctr bytes = firstn bytes (blocks key nonce ctr (bytes / 64 + 1)).
Proof.
  induction fuel as [|f IH]; intros ctr bytes Hf; [lia|]. cbn [asm_loop].
  destruct (Nat.leb_spec 256 bytes) as [H256|H256].
  - (* four blocks *)
    assert (E : bytes / 64 + 1 = 4 + ((bytes - 256) / 64 + 1)).
    { pose proof (Nat.div_add (bytes - 256) 4 64 ltac:(lia)) as DA. replace (bytes - 256 + 4 * 64) with bytes in DA by lia. lia. }
    assert (Hx : (bytes - 256) / 64 + 1 <= f) by (clear - E Hf; set (X := (bytes - 256) / 64) in *; set (Y := bytes / 64) in *; clearbody X Y; lia).
    rewrite IH by exact Hx. rewrite E, (blocks_app key nonce ctr 4 ((bytes - 256) / 64 + 1)). rewrite firstn_app_long by (rewrite blocks_length; clear - H256; lia).
    rewrite blocks_length. replace (bytes - 64 * 4) with (bytes - 256) by (clear; lia). reflexivity.
  - destruct (Nat.eqb_spec bytes 0) as [->|H0]; [reflexivity|].
    destruct (Nat.ltb_spec 64 bytes) as [H64|H64].
    + assert (E : bytes / 64 + 1 = 1 + ((bytes - 64) / 64 + 1)).
      { pose proof (Nat.div_add (bytes - 64) 1 64 ltac:(lia)) as DA. replace (bytes - 64 + 1 * 64) with bytes in DA by lia. lia. }
      assert (Hx : (bytes - 64) / 64 + 1 <= f) by (clear - E Hf; set (X := (bytes - 64) / 64) in *; set (Y := bytes / 64) in *; clearbody X Y; lia).
      rewrite IH by exact Hx. rewrite E, (blocks_app key nonce ctr 1 ((bytes - 64) / 64 + 1)). cbn [blocks]. rewrite app_nil_r.
      rewrite firstn_app_long by (rewrite block_length; clear - H64; lia). rewrite block_length. reflexivity.
    + (* last block: bytes in 1..64 *)
      destruct (Nat.eq_dec bytes 64) as [->|Hne].
      * change (64 / 64 + 1) with 2. cbn [blocks]. rewrite (firstn_app_long (block key nonce ctr)) by (rewrite block_length; lia).
        rewrite block_length. change (64 - 64) with 0. rewrite firstn_O, app_nil_r. apply firstn_all2. rewrite block_length. lia.
      * rewrite (Nat.div_small bytes 64) by lia. cbn [Nat.add blocks]. rewrite app_nil_r. reflexivity.
Qed.

Theorem asm_stream_is_stream len : asm_stream len = stream key nonce len.
Proof. unfold asm_stream, stream. apply asm_loop_spec. lia. Qed.
End Loop.
Print Assumptions asm_stream_is_stream.
