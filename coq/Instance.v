From Coq Require Import ZArith Lia List Arith.
From NTT Require Import Functors Algebra Layer Transform Rev Inverse.
Import ListNotations.
Local Open Scope Z_scope.

(* A concrete, closed instance of Appendix O: the first 16-bit table row, degree 8, tables built the way
   core::initialize builds them.  It shows that the hypotheses are satisfiable by the real parameters
   (non-vacuity) and lets the checked model be run against the real library's output. *)
Definition p := 15361.  Definition w := 16.  Definition k0 := 2%nat.          (* n = 2^(k0+1) = 8 *)
Definition g := 4989.                                                          (* tabulated 1024-th root *)
Fixpoint powm (b : Z) (e : nat) : Z := match e with O => 1 | S e' => (b * powm b e') mod p end.
Definition phi := powm g 64.            (* g^(maxdeg/n) = g^(512/8) *)
Definition phi' := powm phi 15.         (* phi^(2n-1) *)
Definition ninv := (15331 * 64) mod p.  (* invkMaxPolyDegree * (maxdeg/n) *)
Definition om := phi * phi.   Definition om' := phi' * phi'.
Definition tws (lvl : nat) : list Z := map (fun i => powm ((phi * phi) mod p) (2 ^ lvl * i)) (seq 0 (2 ^ (3 - lvl - 1))).
Definition twsi (lvl : nat) : list Z := map (fun i => powm ((phi' * phi') mod p) (2 ^ lvl * i)) (seq 0 (2 ^ (3 - lvl - 1))).
Definition phis : list Z := map (fun i => powm phi i) (seq 0 8).
Definition cs : list Z := map (fun i => (ninv * powm phi' i) mod p) (seq 0 8).

Lemma Hphi : cg p (pw phi (2 ^ S k0)) (-1).            Proof. vm_compute. reflexivity. Qed.
Lemma Hinv : cg p (phi * phi') 1.                      Proof. vm_compute. reflexivity. Qed.
Lemma Hninv : cg p (ninv * Z.of_nat (2 ^ S k0)) 1.     Proof. vm_compute. reflexivity. Qed.

Ltac small_cases := repeat match goal with
  | H : (?i < _)%nat |- _ => is_var i; destruct i; [| try (exfalso; simpl in H; lia)]
  end.
Lemma tws_ok : forall lvl i, (lvl < S k0)%nat -> (i < 2 ^ (S k0 - lvl - 1))%nat ->
  0 <= nth i (tws lvl) 0 < p /\ cg p (nth i (tws lvl) 0) (pw (phi * phi) (2 ^ lvl * i)).
Proof. intros lvl i Hl Hi. unfold k0 in *.
  destruct lvl as [|[|[|lvl]]]; [| | | lia]; simpl in Hi;
  repeat (destruct i as [|i]; [vm_compute; repeat split; congruence |]); exfalso; lia. Qed.
Lemma twsi_ok : forall lvl i, (lvl < S k0)%nat -> (i < 2 ^ (S k0 - lvl - 1))%nat ->
  0 <= nth i (twsi lvl) 0 < p /\ cg p (nth i (twsi lvl) 0) (pw (phi' * phi') (2 ^ lvl * i)).
Proof. intros lvl i Hl Hi. unfold k0 in *.
  destruct lvl as [|[|[|lvl]]]; [| | | lia]; simpl in Hi;
  repeat (destruct i as [|i]; [vm_compute; repeat split; congruence |]); exfalso; lia. Qed.
Lemma phis_ok : forall i, (i < 2 ^ S k0)%nat -> cg p (nth i phis 0) (pw phi i).
Proof. intros i Hi. unfold k0 in *. simpl in Hi. repeat (destruct i as [|i]; [vm_compute; reflexivity |]). exfalso; lia. Qed.
Lemma cs_ok : forall i, (i < 2 ^ S k0)%nat -> cg p (nth i cs 0) (ninv * pw phi' i).
Proof. intros i Hi. unfold k0 in *. simpl in Hi. repeat (destruct i as [|i]; [vm_compute; reflexivity |]). exfalso; lia. Qed.

(* the closed theorems for this configuration: no hypotheses left except the input lengths *)
Theorem product_15361_deg8 a b : length a = 8%nat -> length b = 8%nat ->
  inv w p k0 twsi cs (pointwise p k0 (fwd w p k0 tws phis a) (fwd w p k0 tws phis b)) = negacyclic p k0 a b.
Proof.
  apply (ntt_product w ltac:(reflexivity) p ltac:(reflexivity) ltac:(vm_compute; congruence) k0 phi phi' ninv
           Hphi Hinv Hninv tws twsi tws_ok twsi_ok phis cs phis_ok cs_ok).
Qed.
Print Assumptions product_15361_deg8.

(* run the checked model on the inputs of the probe and compare with what the real library printed *)
Definition a_in := [3; 5690; 11377; 1703; 7390; 13077; 3403; 9090].
Definition b_in := [11; 4554; 2822; 10176; 11255; 6059; 9949; 7564].
Example forward_matches_library : fwd w p k0 tws phis a_in = [7469; 12413; 6176; 2160; 4334; 3724; 10584; 14608].
Proof. vm_compute. reflexivity. Qed.
Example product_matches_library :
  inv w p k0 twsi cs (pointwise p k0 (fwd w p k0 tws phis a_in) (fwd w p k0 tws phis b_in)) = [2135; 605; 6806; 3629; 43; 373; 4300; 6861].
Proof. vm_compute. reflexivity. Qed.
Example tables_match_library : phis = [1; 3666; 14042; 3261; 3968; 15182; 4309; 5686] /\ ninv = 13441.
Proof. vm_compute. split; reflexivity. Qed.
