From Coq Require Import ZArith Lia List Morphisms Setoid Arith.
Local Open Scope Z_scope.

Section Mod.
Variable p : Z.
Hypothesis Hp : 0 < p.

Definition cg (a b : Z) := a mod p = b mod p.
Local Infix "==" := cg (at level 70).

Global Instance cg_equiv : Equivalence cg.
Proof. split; unfold cg; congruence. Qed.
Global Instance add_cg : Proper (cg ==> cg ==> cg) Z.add.
Proof. intros a b H c d H'. unfold cg in *. rewrite Z.add_mod, H, H', <- Z.add_mod by lia. reflexivity. Qed.
Global Instance sub_cg : Proper (cg ==> cg ==> cg) Z.sub.
Proof. intros a b H c d H'. unfold cg in *. rewrite Zminus_mod, H, H', <- Zminus_mod. reflexivity. Qed.
Global Instance mul_cg : Proper (cg ==> cg ==> cg) Z.mul.
Proof. intros a b H c d H'. unfold cg in *. rewrite Z.mul_mod, H, H', <- Z.mul_mod by lia. reflexivity. Qed.
Global Instance opp_cg : Proper (cg ==> cg) Z.opp.
Proof. intros a b H. change (- a) with (0 - a). change (- b) with (0 - b). now rewrite H. Qed.

Fixpoint pw (w : Z) (e : nat) : Z := match e with O => 1 | S e' => w * pw w e' end.
Lemma pw_add w a b : pw w (a + b) = pw w a * pw w b.
Proof. induction a; cbn [pw Nat.add]; [ring | rewrite IHa; ring]. Qed.
Lemma pw_mul w a b : pw w (a * b) = pw (pw w a) b.
Proof. induction b; cbn [pw]. - now rewrite Nat.mul_0_r. - rewrite <- IHb, <- pw_add. f_equal. lia. Qed.
Global Instance pw_cg : Proper (cg ==> eq ==> cg) pw.
Proof. intros a b H e e' <-. induction e; cbn [pw]; [reflexivity | now rewrite IHe, H]. Qed.
Lemma pw_1 e : pw 1 e = 1. Proof. induction e; cbn [pw]; lia. Qed.
Lemma pw_m1_even e : pw (-1) (2 * e) = 1.
Proof. rewrite pw_mul. cbn [pw]. replace (-1 * (-1 * 1)) with 1 by lia. apply pw_1. Qed.

Fixpoint sum (n : nat) (f : nat -> Z) : Z := match n with O => 0 | S n' => sum n' f + f n' end.
Lemma sum_cg n f g : (forall i, (i < n)%nat -> f i == g i) -> sum n f == sum n g.
Proof. induction n; intros H; cbn [sum]; [reflexivity|]. rewrite IHn, (H n) by (intros; auto with arith). reflexivity. Qed.
Lemma sum_ext n f g : (forall i, (i < n)%nat -> f i = g i) -> sum n f = sum n g.
Proof. induction n; intros H; cbn [sum]; [reflexivity|]. rewrite IHn, (H n) by (intros; auto with arith). reflexivity. Qed.
Lemma sum_add n f g : sum n (fun i => f i + g i) = sum n f + sum n g.
Proof. induction n; cbn [sum]; [ring | rewrite IHn; ring]. Qed.
Lemma sum_sub n f g : sum n (fun i => f i - g i) = sum n f - sum n g.
Proof. induction n; cbn [sum]; [ring | rewrite IHn; ring]. Qed.
Lemma sum_scale n c f : sum n (fun i => f i * c) = sum n f * c.
Proof. induction n; cbn [sum]; [ring | rewrite IHn; ring]. Qed.
Lemma sum_even_odd m f : sum (2 * m) f = sum m (fun t => f (2 * t)%nat) + sum m (fun t => f (2 * t + 1)%nat).
Proof. induction m; [reflexivity|]. replace (2 * S m)%nat with (S (S (2 * m))) by lia. cbn [sum].
  rewrite IHm. replace (S (2*m)) with (2*m+1)%nat by lia. ring. Qed.

(* bit reversal on w bits *)
Fixpoint rev (w : nat) (r : nat) : nat :=
  match w with O => O | S w' => (2 ^ w' * (r mod 2) + rev w' (r / 2))%nat end.
Lemma rev_even w r : rev (S w) (2 * r) = rev w r.
Proof. cbn [rev]. replace ((2 * r) mod 2)%nat with 0%nat by (symmetry; rewrite Nat.mul_comm; apply Nat.mod_mul; lia).
  replace (2 * r / 2)%nat with r by (symmetry; rewrite Nat.mul_comm; apply Nat.div_mul; lia). lia. Qed.
Lemma rev_odd w r : rev (S w) (2 * r + 1) = (2 ^ w + rev w r)%nat.
Proof. cbn [rev]. replace ((2 * r + 1) mod 2)%nat with 1%nat.
  2:{ symmetry. rewrite Nat.add_comm, Nat.mul_comm, Nat.mod_add by lia. reflexivity. }
  replace ((2 * r + 1) / 2)%nat with r.
  2:{ symmetry. rewrite Nat.add_comm, Nat.mul_comm, Nat.div_add by lia. reflexivity. } lia. Qed.


(* geometric sums and orthogonality of a principal 2^k-th root, no field needed *)
Lemma sum_shift m n f : sum (m + n) f = sum m f + sum n (fun i => f (m + i)%nat).
Proof. induction n; cbn [sum]. - rewrite Nat.add_0_r. ring.
  - replace (m + S n)%nat with (S (m + n)) by lia. cbn [sum]. rewrite IHn. ring. Qed.

Lemma geom_double x m : sum (2 * m) (fun i => pw x i) = (1 + pw x m) * sum m (fun i => pw x i).
Proof. replace (2 * m)%nat with (m + m)%nat by lia. rewrite sum_shift.
  rewrite (sum_ext m (fun i => pw x (m + i)) (fun i => pw x i * pw x m)).
  2:{ intros i _. rewrite pw_add. ring. } rewrite sum_scale. change (fun i : nat => pw x i) with (pw x). ring. Qed.

Lemma pw_m1_odd e : pw (-1) (2 * e + 1) = -1.
Proof. rewrite pw_add, pw_m1_even. cbn [pw]. ring. Qed.

Lemma pw_pw_comm w a b : pw (pw w a) b = pw (pw w b) a.
Proof. rewrite <- !pw_mul. f_equal. lia. Qed.

Lemma orth : forall k om j, pw om (2 ^ k) == -1 -> (0 < j < 2 ^ S k)%nat ->
  sum (2 ^ S k) (fun i => pw om (i * j)) == 0.
Proof.
  induction k as [|k IH]; intros om j Hom Hj.
  - (* n = 2, j = 1 *) assert (j = 1)%nat by (cbn in Hj; lia). subst j. cbn [Nat.pow sum Nat.mul Nat.add pw].
    cbn in Hom. unfold cg in *. replace (0 + 1 + om * 1) with (1 + om * 1) by ring.
    rewrite Z.add_mod, Hom, <- Z.add_mod by lia. reflexivity.
  - destruct (Nat.Even_or_Odd j) as [[j' Ej]|[j' Oj]].
    + (* j = 2 j' : use om^2 *) subst j.
      assert (Hj' : (0 < j' < 2 ^ S k)%nat) by (cbn [Nat.pow] in *; lia).
      assert (Hom2 : pw (pw om 2) (2 ^ k) == -1).
      { rewrite <- pw_mul. replace (2 * 2 ^ k)%nat with (2 ^ S k)%nat by (cbn; lia). exact Hom. }
      specialize (IH (pw om 2) j' Hom2 Hj').
      replace (2 ^ S (S k))%nat with (2 ^ S k + 2 ^ S k)%nat by (cbn [Nat.pow]; lia).
      rewrite sum_shift.
      assert (E1 : forall i, pw om (i * (2 * j')) = pw (pw om 2) (i * j')).
      { intros i. rewrite <- pw_mul. f_equal. lia. }
      rewrite (sum_ext _ _ (fun i => pw (pw om 2) (i * j'))) by (intros; apply E1).
      rewrite IH.
      rewrite (sum_cg _ _ (fun i => pw (pw om 2) (i * j'))).
      * rewrite IH. reflexivity.
      * intros i _. rewrite E1. replace ((2 ^ S k + i) * j')%nat with (2 ^ S k * j' + i * j')%nat by lia.
        rewrite pw_add. rewrite (pw_mul (pw om 2) (2 ^ S k) j').
        rewrite <- (pw_mul om 2 (2 ^ S k)). replace (2 * 2 ^ S k)%nat with (2 ^ S k * 2)%nat by lia.
        rewrite (pw_mul om (2 ^ S k) 2), Hom. cbn [pw]. replace (-1 * (-1 * 1)) with 1 by ring.
        rewrite pw_1. unfold cg. f_equal. ring.
    + (* j odd: factor (1 + x^(n/2)) with x = om^j *) subst j.
      replace (2 ^ S (S k))%nat with (2 * 2 ^ S k)%nat by (cbn [Nat.pow]; lia).
      rewrite (sum_ext _ _ (fun i => pw (pw om (2 * j' + 1)) i)).
      2:{ intros i _. rewrite <- pw_mul. f_equal. lia. }
      rewrite geom_double. rewrite pw_pw_comm, Hom, pw_m1_odd. unfold cg. f_equal; try ring.
Qed.


(* ---- inverse DFT: sum_r (sum_t a_t w^(t r)) w'^(r s) = n a_s, for w w' = 1 and w^(n/2) = -1 ---- *)
Lemma pw_mul_base x y e : pw (x * y) e = pw x e * pw y e.
Proof. induction e; cbn [pw]; [ring | rewrite IHe; ring]. Qed.

Lemma sum_swap m n f : sum m (fun i => sum n (fun j => f i j)) = sum n (fun j => sum m (fun i => f i j)).
Proof. induction m; cbn [sum].
  - induction n; cbn [sum]; [reflexivity | rewrite <- IHn; ring].
  - rewrite IHm, <- sum_add. reflexivity. Qed.

Lemma sum_const n c : sum n (fun _ => c) = Z.of_nat n * c.
Proof. induction n; cbn [sum]; [ring | rewrite IHn, Nat2Z.inj_succ; ring]. Qed.

Lemma sum_single n s f v : (s < n)%nat -> f s == v -> (forall t, (t < n)%nat -> t <> s -> f t == 0) -> sum n f == v.
Proof.
  induction n; intros Hs Hv H0; [lia|]. cbn [sum].
  destruct (Nat.eq_dec s n) as [->|Hne].
  - rewrite Hv. rewrite (sum_cg n f (fun _ => 0)). 2:{ intros t Ht. apply H0; lia. }
    rewrite sum_const. unfold cg. f_equal. ring.
  - rewrite (H0 n) by lia. rewrite IHn; auto; try lia. unfold cg. f_equal. ring.
Qed.

Lemma inv_dft k om om' (a : nat -> Z) s :
  pw om (2 ^ k) == -1 -> om * om' == 1 -> (s < 2 ^ S k)%nat ->
  sum (2 ^ S k) (fun r => sum (2 ^ S k) (fun t => a t * pw om (t * r)) * pw om' (r * s))
  == Z.of_nat (2 ^ S k) * a s.
Proof.
  intros Hom Hinv Hs. set (n := (2 ^ S k)%nat) in *.
  assert (Hom' : pw om' (2 ^ k) == -1).
  { assert (E : pw (om * om') (2 ^ k) == 1) by (rewrite Hinv; rewrite pw_1; reflexivity).
    rewrite pw_mul_base, Hom in E.
    transitivity (-1 * (-1 * pw om' (2 ^ k))); [unfold cg; f_equal; ring|].
    rewrite E. unfold cg; f_equal; ring. }
  rewrite (sum_ext n _ (fun r => sum n (fun t => a t * (pw om (t * r) * pw om' (r * s))))).
  2:{ intros r _. rewrite <- sum_scale. apply sum_ext. intros t _. ring. }
  rewrite sum_swap.
  rewrite (sum_ext n _ (fun t => a t * sum n (fun r => pw om (t * r) * pw om' (r * s)))).
  2:{ intros t _. rewrite Z.mul_comm, <- sum_scale. apply sum_ext. intros r _. ring. }
  assert (One : forall e, pw om e * pw om' e == 1).
  { intros e. rewrite <- pw_mul_base, Hinv. rewrite pw_1. reflexivity. }
  apply (sum_single n s).
  - exact Hs.
  - (* t = s : every term is 1 *)
    rewrite (sum_cg n _ (fun _ => 1)).
    2:{ intros r _. replace (r * s)%nat with (s * r)%nat by lia. apply One. }
    rewrite sum_const. unfold cg. f_equal. ring.
  - intros t Ht Hts.
    assert (Z0 : sum n (fun r => pw om (t * r) * pw om' (r * s)) == 0).
    { destruct (Nat.lt_ge_cases s t) as [L|L].
      + (* t > s : reduces to sum_r om^(r (t-s)) *)
        rewrite (sum_cg n _ (fun r => pw om (r * (t - s)))).
        2:{ intros r _. replace (t * r)%nat with (r * (t - s) + r * s)%nat by nia. rewrite pw_add.
            rewrite <- Z.mul_assoc, One. unfold cg. f_equal. ring. }
        apply orth; [exact Hom | fold n; lia].
      + (* t < s : reduces to sum_r om'^(r (s-t)) *)
        rewrite (sum_cg n _ (fun r => pw om' (r * (s - t)))).
        2:{ intros r _. replace (r * s)%nat with (t * r + r * (s - t))%nat by nia. rewrite pw_add.
            rewrite Z.mul_assoc, One. unfold cg. f_equal. ring. }
        apply orth; [exact Hom' | fold n; lia]. }
    rewrite Z0. unfold cg. f_equal. ring.
Qed.


(* ---- evaluation at a root of X^n + 1 is multiplicative for the negacyclic product ---- *)
Definition negacyc (n : nat) (a b : nat -> Z) (k : nat) : Z :=
  sum n (fun i => if (i <=? k)%nat then a i * b (k - i)%nat else - (a i * b (n + k - i)%nat)).

Lemma sum_rotate n i g : (i <= n)%nat -> sum n g = sum (n - i) (fun j => g (i + j)%nat) + sum i g.
Proof. intros Hi. replace n with (i + (n - i))%nat at 1 by lia. rewrite sum_shift. ring. Qed.

Lemma negacyc_eval n psi a b :
  pw psi n == -1 ->
  sum n (fun k => negacyc n a b k * pw psi k) == sum n (fun i => a i * pw psi i) * sum n (fun j => b j * pw psi j).
Proof.
  intros Hpsi. unfold negacyc.
  (* push psi^k inside, swap the two sums *)
  rewrite (sum_ext n _ (fun k => sum n (fun i => (if (i <=? k)%nat then a i * b (k - i)%nat else - (a i * b (n + k - i)%nat)) * pw psi k))).
  2:{ intros k _. now rewrite sum_scale. }
  rewrite sum_swap.
  rewrite <- sum_scale.
  apply sum_cg. intros i Hi.
  (* fixed i : split k >= i (j = k - i) and k < i (j = n + k - i) *)
  match goal with |- cg (sum n ?f) _ => set (F := f) end.
  rewrite (sum_rotate n i F ltac:(lia)).
  rewrite (sum_rotate n (n - i) (fun j => b j * pw psi j) ltac:(lia)).
  replace (n - (n - i))%nat with i by lia.
  assert (H1 : sum (n - i) (fun j => F (i + j)%nat) == a i * pw psi i * sum (n - i) (fun j => b j * pw psi j)).
  { rewrite Z.mul_comm, <- sum_scale. apply sum_cg. intros j Hj. unfold F.
    replace (i <=? i + j)%nat with true by (symmetry; apply Nat.leb_le; lia).
    replace (i + j - i)%nat with j by lia. rewrite pw_add. unfold cg; f_equal; try ring. }
  assert (H2 : sum i F == a i * pw psi i * sum i (fun j => b (n - i + j)%nat * pw psi (n - i + j))).
  { rewrite Z.mul_comm, <- sum_scale. apply sum_cg. intros k Hk. unfold F.
    replace (i <=? k)%nat with false by (symmetry; apply Nat.leb_gt; lia).
    replace (n + k - i)%nat with (n - i + k)%nat by lia.
    assert (E : pw psi (n - i + k) * pw psi i == - pw psi k).
    { rewrite <- pw_add. replace (n - i + k + i)%nat with (n + k)%nat by lia. rewrite pw_add, Hpsi. unfold cg; f_equal; try ring. }
    transitivity (a i * b (n - i + k)%nat * (- pw psi k)); [unfold cg; f_equal; ring|].
    rewrite <- E. unfold cg; f_equal; try ring. }
  rewrite H1, H2. unfold cg; f_equal; try ring.
Qed.

Variable om : Z.
Variable k : nat.
Hypothesis Hhalf : forall k', k = S k' -> pw om (2 ^ k') == -1.

(* Y w r i = sum_{t < 2^w} a (i + N t) * om^((i + N t) * rev w r),  N = 2^(k-w) *)
Variable a : nat -> Z.
Definition Y (w r i : nat) : Z :=
  sum (2 ^ w) (fun t => a (i + 2 ^ (k - w) * t)%nat * pw om ((i + 2 ^ (k - w) * t) * rev w r)).

Lemma step_even w r i : (w < k)%nat ->
  Y (S w) (2 * r) i == Y w r i + Y w r (i + 2 ^ (k - S w)).
Proof.
  intros Hw. unfold Y. rewrite rev_even.
  replace (2 ^ S w)%nat with (2 * 2 ^ w)%nat by (simpl; lia).
  rewrite sum_even_odd. 
  assert (HN : (2 ^ (k - w) = 2 * 2 ^ (k - S w))%nat).
  { replace (k - w)%nat with (S (k - S w)) by lia. simpl; lia. }
  apply add_cg; apply sum_cg; intros t _; rewrite HN.
  - replace (i + 2 ^ (k - S w) * (2 * t))%nat with (i + 2 * 2 ^ (k - S w) * t)%nat by lia. reflexivity.
  - replace (i + 2 ^ (k - S w) * (2 * t + 1))%nat with (i + 2 ^ (k - S w) + 2 * 2 ^ (k - S w) * t)%nat by lia. reflexivity.
Qed.

Lemma step_odd w r i k' : k = S k' -> (w < k)%nat -> 
  Y (S w) (2 * r + 1) i == (Y w r i - Y w r (i + 2 ^ (k - S w))) * pw om (2 ^ w * i).
Proof.
  intros Hk Hw. unfold Y. rewrite rev_odd.
  replace (2 ^ S w)%nat with (2 * 2 ^ w)%nat by (simpl; lia).
  rewrite sum_even_odd.
  assert (HN : (2 ^ (k - w) = 2 * 2 ^ (k - S w))%nat).
  { replace (k - w)%nat with (S (k - S w)) by lia. simpl; lia. }
  assert (Hn : (2 ^ w * 2 ^ (k - S w) = 2 ^ k')%nat).
  { rewrite <- Nat.pow_add_r. f_equal. lia. }
  rewrite <- sum_sub, <- sum_scale.
  set (M := (2 ^ (k - S w))%nat) in *.
  rewrite <- sum_add. apply sum_cg; intros t _. rewrite HN.
  (* even t' = 2t *)
  replace (i + M * (2 * t))%nat with (i + 2 * M * t)%nat by lia.
  replace (i + M * (2 * t + 1))%nat with (i + M + 2 * M * t)%nat by lia.
  set (R := rev w r).
  replace ((i + 2 * M * t) * (2 ^ w + R))%nat with ((i + 2 * M * t) * R + 2 ^ w * i + 2 * (2 ^ k' * t))%nat by nia.
  replace ((i + M + 2 * M * t) * (2 ^ w + R))%nat with ((i + M + 2 * M * t) * R + 2 ^ w * i + 2 ^ k' * (2 * t + 1))%nat by nia.
  rewrite !pw_add.
  rewrite (pw_mul om (2 ^ k') (2 * t + 1)), (Hhalf k' Hk).
  replace (2 * (2 ^ k' * t))%nat with (2 ^ k' * (2 * t))%nat by lia.
  rewrite (pw_mul om (2 ^ k') (2 * t)), (Hhalf k' Hk).
  rewrite pw_m1_even. rewrite Nat.add_comm with (n := (2*t)%nat), pw_add, pw_m1_even. simpl pw.
  unfold cg. f_equal. ring.
Qed.

(* ---- the layered iteration itself, on index functions ---- *)
(* one layer with block size N (even) and twiddles tw: the first half of each block gets the sums,
   the second half the twiddled differences -- exactly ntt_loop's body on pairs (i, i+N/2) *)
Definition layer_fn (N : nat) (tw : nat -> Z) (f : nat -> Z) : nat -> Z :=
  fun idx => let i := (idx mod N)%nat in
    if (i <? N / 2)%nat then f idx + f (idx + N / 2)%nat
    else (f (idx - N / 2)%nat - f idx) * tw (i - N / 2)%nat.

Fixpoint layers (w : nat) : nat -> Z :=
  match w with
  | O => a
  | S w' => layer_fn (2 ^ (k - w')) (fun i => pw om (2 ^ w' * i)) (layers w')
  end.

Lemma pow2_pos n : (0 < 2 ^ n)%nat.
Proof. induction n; simpl; lia. Qed.

Lemma layers_inv : forall w, (w <= k)%nat -> forall r i, (r < 2 ^ w)%nat -> (i < 2 ^ (k - w))%nat ->
  layers w (2 ^ (k - w) * r + i) == Y w r i.
Proof.
  induction w as [|w IH]; intros Hw r i Hr Hi.
  - (* no layer yet: block 0 is the whole input *)
    assert (r = 0)%nat by (simpl in Hr; lia). subst r. unfold Y. cbn [layers Nat.pow sum rev].
    rewrite Nat.mul_0_r, !Nat.add_0_r, Nat.mul_0_r. cbn [pw Nat.add]. unfold cg. f_equal. ring.
  - destruct k as [|k'] eqn:Ek; [lia|]. rewrite <- Ek in *.
    assert (Hw' : (w < k)%nat) by lia.
    assert (HN : (2 ^ (k - w) = 2 * 2 ^ (k - S w))%nat).
    { replace (k - w)%nat with (S (k - S w)) by lia. simpl; lia. }
    set (N' := (2 ^ (k - S w))%nat) in *.
    assert (HN' : (0 < N')%nat) by apply pow2_pos.
    cbn [layers]. unfold layer_fn. rewrite HN.
    replace (2 * N' / 2)%nat with N' by (rewrite Nat.mul_comm, Nat.div_mul; lia).
    assert (Hr2 : (2 ^ S w = 2 * 2 ^ w)%nat) by (simpl; lia).
    destruct (Nat.Even_or_Odd r) as [[r0 Er]|[r0 Er]]; subst r.
    + (* even block 2*r0 : first half of block r0 of the previous layer *)
      assert (Hr0 : (r0 < 2 ^ w)%nat) by lia.
      replace (N' * (2 * r0) + i)%nat with (2 * N' * r0 + i)%nat by lia.
      replace ((2 * N' * r0 + i) mod (2 * N'))%nat with i.
      2:{ symmetry. rewrite Nat.add_comm, Nat.mul_comm. rewrite Nat.mod_add by lia. apply Nat.mod_small. lia. }
      replace (i <? N')%nat with true by (symmetry; apply Nat.ltb_lt; lia).
      rewrite <- HN.
      rewrite (IH ltac:(lia) r0 i Hr0 ltac:(lia)).
      replace (2 ^ (k - w) * r0 + i + N')%nat with (2 ^ (k - w) * r0 + (i + N'))%nat by lia.
      rewrite (IH ltac:(lia) r0 (i + N')%nat Hr0 ltac:(lia)).
      symmetry. apply step_even. lia.
    + (* odd block 2*r0+1 : second half of block r0 of the previous layer *)
      assert (Hr0 : (r0 < 2 ^ w)%nat) by lia.
      replace (N' * (2 * r0 + 1) + i)%nat with (2 * N' * r0 + (N' + i))%nat by lia.
      replace ((2 * N' * r0 + (N' + i)) mod (2 * N'))%nat with (N' + i)%nat.
      2:{ symmetry. rewrite Nat.add_comm, Nat.mul_comm. rewrite Nat.mod_add by lia. apply Nat.mod_small. lia. }
      replace (N' + i <? N')%nat with false by (symmetry; apply Nat.ltb_ge; lia).
      replace (N' + i - N')%nat with i by lia.
      replace (2 * N' * r0 + (N' + i) - N')%nat with (2 * N' * r0 + i)%nat by lia.
      rewrite <- HN.
      rewrite (IH ltac:(lia) r0 i Hr0 ltac:(lia)).
      replace (2 ^ (k - w) * r0 + (N' + i))%nat with (2 ^ (k - w) * r0 + (i + N'))%nat by lia.
      rewrite (IH ltac:(lia) r0 (i + N')%nat Hr0 ltac:(lia)).
      symmetry. apply (step_odd w r0 i k'); auto.
Qed.

(* all k layers: position r holds the DFT coefficient of index rev_k r *)
Theorem dif_is_dft_bitrev : forall r, (r < 2 ^ k)%nat ->
  layers k r == sum (2 ^ k) (fun t => a t * pw om (t * rev k r)).
Proof.
  intros r Hr. pose proof (layers_inv k ltac:(lia) r 0%nat Hr) as H.
  rewrite Nat.sub_diag in H. cbn [Nat.pow] in H. specialize (H ltac:(lia)).
  replace (1 * r + 0)%nat with r in H by lia. rewrite H. unfold Y.
  rewrite Nat.sub_diag. cbn [Nat.pow]. apply sum_cg. intros t _.
  replace (0 + 1 * t)%nat with t by lia. reflexivity.
Qed.
End Mod.
Print Assumptions dif_is_dft_bitrev.
Print Assumptions orth.
Print Assumptions inv_dft.
Print Assumptions negacyc_eval.
