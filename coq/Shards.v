(* C06: sharding of the 64-bit table check over 16 files (parallel make). *)
From Coq Require Import ZArith List Arith.
From NTT Require Import NumTheoryMC TablesOK.
From NTT.gen Require Import Params.
Import ListNotations.

Definition chunk {A} (c i : nat) (l : list A) : list A := firstn c (skipn (i * c) l).
Definition nshards := 16%nat.
Definition csz64 : nat := Nat.div (length rows64 + 15) 16.
Definition K16 := 9%nat.   Definition T16 := 0%nat.
Definition K32 := 15%nat.  Definition T32 := 0%nat.
Definition K64 := 20%nat.  Definition T64 := 1023%nat.
Definition shard_ok (i : nat) : bool := forallb (row_ok w64 bits64 K64 T64) (chunk csz64 i rows64).

Lemma forallb_concat {A} (f : A -> bool) (ls : list (list A)) :
  forallb (forallb f) ls = true -> forallb f (concat ls) = true.
Proof.
  induction ls as [|l ls IH]; cbn [forallb concat]; intros H; [reflexivity|].
  apply andb_prop in H. destruct H as [H1 H2]. rewrite forallb_app, H1, IH by assumption. reflexivity.
Qed.
