(* The big-integer side of nfl::poly (GMP::GMP(), GMP::poly2mpz, GMP::mpz2poly) translated from include/nfl/gmp.hpp (gen/GenGmp.v, GMP
   calls given their documented meaning in GmpSem.v) computes the executable model of CRTExec.v on which C04 is stated: the product of
   the moduli, the shift and the Shoup value, the lifting integers; the lift of every coefficient with its reduction; the residues. *)
From Coq Require Import ZArith Znumtheory List Lia Bool Arith.
From NTT Require Import CRT CRTExec CxxSem MemSem GmpSem LoopSpec GaussSetSpec.
Import ListNotations.
Local Open Scope Z_scope.

Definition ctor_sh (w : Z) (nmoduli : Z) (P : list Z) (moduli_product : Z) (bits_in_moduli_product : Z) (shift_modulus_shoup : Z) (modulus_shoup : Z) (bits_in_modulus_shoup : Z) (lifting_integers : list Z) :=
  (let moduli_product := 1 in (bind (for_up 0 nmoduli 1 (fun cm moduli_product => (let moduli_product := (moduli_product * (tabP P cm)) in Some moduli_product)) moduli_product) (fun moduli_product => (let bits_in_moduli_product := (gmp_sizeinbase2 moduli_product) in (let shift_modulus_shoup := (uw 64 ((uw 64 ((uw 64 (bits_in_moduli_product + w)) + (Z.log2 nmoduli))) + 1)) in (let modulus_shoup := 0 in (let modulus_shoup := (2 ^ shift_modulus_shoup) in (bind (gmp_tdiv_q modulus_shoup moduli_product) (fun q_1 => (let modulus_shoup := q_1 in (let bits_in_modulus_shoup := (gmp_sizeinbase2 modulus_shoup) in (let quotient := 0 in (let current_modulus := 0 in (let quotient := 0 in (let current_modulus := 0 in (bind (for_up 0 nmoduli 1 (fun cm '(current_modulus, quotient, lifting_integers) => (let current_modulus := (tabP P cm) in (bind (gmp_divexact moduli_product current_modulus) (fun q_2 => (let quotient := q_2 in (bind (st lifting_integers cm 0) (fun lifting_integers => (bind (gmp_invert quotient current_modulus) (fun q_3 => (bind (st lifting_integers cm q_3) (fun lifting_integers => (bind (ld lifting_integers cm) (fun z_4 => (bind (st lifting_integers cm (z_4 * quotient)) (fun lifting_integers => Some (current_modulus, quotient, lifting_integers)))))))))))))))) (current_modulus, quotient, lifting_integers)) (fun '(current_modulus, quotient, lifting_integers) => Some (moduli_product, bits_in_moduli_product, shift_modulus_shoup, modulus_shoup, bits_in_modulus_shoup, quotient, current_modulus, lifting_integers)))))))))))))))))).
Definition p2m_sh (degree : Z) (nmoduli : Z) (shift_modulus_shoup : Z) (bits_in_modulus_shoup : Z) (rop : list Z) (op : list Z) (lifting_integers : list Z) (modulus_shoup : Z) (moduli_product : Z) :=
  (let tmp := 0 in (let tmp := 0 in (bind (for_up 0 degree 1 (fun i '(rop, tmp) => (bind (st rop i 0) (fun rop => (bind (for_up 0 nmoduli 1 (fun cm rop => (bind (ld op (uw 64 ((uw 64 (cm * degree)) + i))) (fun w_1 => (bind (if (negb (w_1 =? 0)) then (bind (ld rop i) (fun z_2 => (bind (ld lifting_integers cm) (fun z_3 => (bind (ld op (uw 64 ((uw 64 (cm * degree)) + i))) (fun w_4 => (bind (st rop i (z_2 + z_3 * w_4)) (fun rop => Some rop)))))))) else Some rop) (fun rop => Some rop))))) rop) (fun rop => (bind (ld rop i) (fun z_5 => (let tmp := (z_5 * modulus_shoup) in (let tmp := (gmp_tdiv_q_2exp tmp shift_modulus_shoup) in (bind (ld rop i) (fun z_6 => (bind (st rop i (z_6 - tmp * moduli_product)) (fun rop => (bind (ld rop i) (fun z_7 => (bind (if ((gmp_cmp z_7 moduli_product) >=? 0) then (bind (ld rop i) (fun z_8 => (bind (st rop i (z_8 - moduli_product)) (fun rop => Some rop)))) else Some rop) (fun rop => Some (rop, tmp)))))))))))))))))) (rop, tmp)) (fun '(rop, tmp) => Some (tmp, rop))))).
Definition m2p_sh (stw : Z -> Z) (degree : Z) (nmoduli : Z) (P : list Z) (rop : list Z) (poly_mpz : list Z) :=
  (bind (for_up 0 nmoduli 1 (fun cm rop => (bind (for_up 0 degree 1 (fun i rop => (bind (ld poly_mpz i) (fun z_2 => (bind (gmp_fdiv_ui z_2 (tabP P cm)) (fun r_1 => (bind (st rop (uw 64 ((uw 64 (cm * degree)) + i)) (stw r_1)) (fun rop => Some rop))))))) rop) (fun rop => Some rop))) rop) (fun rop => Some rop)).

(* ---- small facts ---- *)
Lemma upd_upd k a b (l : list Z) : upd k b (upd k a l) = upd k b l.
Proof. revert k; induction l as [|x l IH]; intros k; [destruct k; reflexivity|]. destruct k as [|k]; cbn [upd]; [reflexivity|]. rewrite IH. reflexivity. Qed.
Lemma upd_same k a (l : list Z) : (k < length l)%nat -> nth k (upd k a l) 0 = a.
Proof. intros H. rewrite upd_nth. rewrite Nat.eqb_refl. assert (E : (k <? length l)%nat = true) by (apply Nat.ltb_lt; exact H). rewrite E. reflexivity. Qed.
Lemma filled_nth_next F d k : (k < length d)%nat -> nth k (filled F d k) 0 = nth k d 0.
Proof. intros H. unfold filled. rewrite app_nth2 by (rewrite map_length, seq_length; lia). rewrite map_length, seq_length. rewrite Layer.nth_skipn. f_equal. lia. Qed.
Lemma prod_snoc l x : prod (l ++ [x]) = prod l * x.
Proof. unfold prod. induction l as [|a l IH]; cbn [app fold_right]; [ring|]. rewrite IH. ring. Qed.
Lemma firstn_S_snoc (l : list Z) j : (j < length l)%nat -> firstn (S j) l = firstn j l ++ [nth j l 0].
Proof. apply SamplerSpec.firstn_S_nth'. Qed.
Lemma gmp_cmp_ge a b : (gmp_cmp a b >=? 0) = (a >=? b).
Proof. unfold gmp_cmp. rewrite Z.geb_leb, (Z.geb_leb a b). destruct (Z.compare_spec a b); [subst; symmetry; apply Z.leb_le; lia | symmetry; apply Z.leb_gt; lia | symmetry; apply Z.leb_le; lia]. Qed.

(* ================= mpz2poly: residues of big integers, row after row ================= *)
Section M2P.
Variable bits : Z.
Hypothesis Hbits : 8 <= bits <= 64.
Variable stw : Z -> Z.
Hypothesis Hstw : forall c, 0 <= c < 2 ^ bits -> stw c = c.
Variables (n nm : nat) (P vals data0 : list Z).
Hypothesis Hd : length data0 = (nm * n)%nat.
Hypothesis Hv : length vals = n.
Hypothesis Hsmall : Z.of_nat (nm * n) < 2 ^ 61.
Hypothesis Hn : (0 < n)%nat.
Hypothesis Hn61 : Z.of_nat n < 2 ^ 61.
Hypothesis HPl : (nm <= length P)%nat.
Hypothesis HPr : Forall (fun p => 0 < p < 2 ^ bits) (firstn nm P).

Definition Hm (k : nat) : Z := nth (k mod n) vals 0 mod nth (k / n) P 0.

Lemma m2p_row cm : (cm < nm)%nat ->
  for_up 0 (Z.of_nat n) 1 (fun i rop => (bind (ld vals i) (fun z_2 => (bind (gmp_fdiv_ui z_2 (tabP P (Z.of_nat cm))) (fun r_1 => (bind (st rop (uw 64 ((uw 64 (Z.of_nat cm * Z.of_nat n)) + i)) (stw r_1)) (fun rop => Some rop))))))) (filled Hm data0 (n * cm))
  = Some (filled Hm data0 (n * S cm)).
Proof.
  intros Hc. assert (E0 : (n * cm = n * cm + 0)%nat) by lia. rewrite E0 at 1. replace (n * S cm)%nat with (n * cm + n)%nat by lia.
  rewrite (for_up_steps (fun i : nat => filled Hm data0 (n * cm + i)) n); try lia; [reflexivity|].
  intros i Hi. replace (0 + 1 * Z.of_nat i) with (Z.of_nat i) by lia. cbv beta.
  assert (Hk : (n * cm + i < nm * n)%nat) by nia.
  rewrite ld_some by lia. cbn [bind]. rewrite Nat2Z.id. unfold tabP. rewrite Nat2Z.id.
  pose proof (nth_firstn_in' (fun p => 0 < p < 2 ^ bits) nm P cm HPr HPl Hc) as Rp. cbv beta in Rp.
  unfold gmp_fdiv_ui. destruct (Z.eqb_spec (nth cm P 0) 0) as [E|_]; [lia|]. cbn [bind].
  assert (Eidx : uw 64 (uw 64 (Z.of_nat cm * Z.of_nat n) + Z.of_nat i) = Z.of_nat (n * cm + i)).
  { rewrite (uw_small 64 (Z.of_nat cm * Z.of_nat n)) by nia. rewrite uw_small by nia. nia. }
  rewrite Eidx. pose proof (Z.mod_pos_bound (nth i vals 0) (nth cm P 0) ltac:(lia)) as Rm.
  rewrite Hstw by lia. rewrite st_some by (rewrite filled_length by lia; lia). cbn [bind]. rewrite Nat2Z.id.
  assert (HF : Hm (n * cm + i) = nth i vals 0 mod nth cm P 0).
  { unfold Hm. destruct (BoundedSpec.divmod_of n cm i Hi) as [D M]. rewrite D, M. reflexivity. }
  rewrite <- HF. rewrite filled_step by lia. replace (S (n * cm + i)) with (n * cm + S i)%nat by lia. reflexivity.
Qed.

Theorem m2p_ok : m2p_sh stw (Z.of_nat n) (Z.of_nat nm) P data0 vals = Some (map Hm (seq 0 (nm * n))).
Proof.
  unfold m2p_sh. assert (Hm61 : Z.of_nat nm < 2 ^ 61) by nia.
  assert (Estart : data0 = filled Hm data0 (n * 0)) by (rewrite Nat.mul_0_r; reflexivity). rewrite Estart at 1.
  rewrite (for_up_steps (fun cm : nat => filled Hm data0 (n * cm)) nm); try lia.
  - cbn [bind]. f_equal. replace (n * nm)%nat with (length data0) by lia. rewrite filled_all. rewrite Hd. reflexivity.
  - intros cm Hc. replace (0 + 1 * Z.of_nat cm) with (Z.of_nat cm) by lia. cbv beta. rewrite (m2p_row cm Hc). reflexivity.
Qed.
(* word (cm, i) of the result is the residue of value i modulo modulus cm: the model's mpz2poly_coef *)
Lemma m2p_word cm i : (cm < nm)%nat -> (i < n)%nat -> nth (cm * n + i) (map Hm (seq 0 (nm * n))) 0 = nth cm (mpz2poly_coef (firstn nm P) (nth i vals 0)) 0.
Proof.
  intros Hc Hi. rewrite tabz_nth by nia. unfold Hm. replace (cm * n + i)%nat with (n * cm + i)%nat by lia.
  destruct (BoundedSpec.divmod_of n cm i Hi) as [D M]. rewrite D, M.
  unfold mpz2poly_coef. rewrite (nth_indep (map (fun p => nth i vals 0 mod p) (firstn nm P)) 0 ((fun p => nth i vals 0 mod p) 0)) by (rewrite map_length, firstn_length; lia).
  rewrite (map_nth (fun p => nth i vals 0 mod p)). rewrite Layer.nth_firstn. assert (E : (cm <? nm)%nat = true) by (apply Nat.ltb_lt; exact Hc). rewrite E. reflexivity.
Qed.
End M2P.

(* ================= poly2mpz: lift of every coefficient ================= *)
Definition red_gen (Q s ms x : Z) : Z := let t := Z.quot (x * ms) (2 ^ s) in let r := x - t * Q in if r >=? Q then r - Q else r.
Lemma red_gen_reduceQ Q s x : 0 < Q -> 0 <= s -> 0 <= x -> red_gen Q s (2 ^ s / Q) x = reduceQ Q s x.
Proof.
  intros HQ Hs Hx. unfold red_gen, reduceQ. cbv zeta. assert (0 < 2 ^ s) by (apply Z.pow_pos_nonneg; lia).
  assert (0 <= 2 ^ s / Q) by (apply Z.div_pos; lia). rewrite Z.quot_div_nonneg by nia. reflexivity.
Qed.
Lemma accl_firstn_S rs Ls : forall j, (j < length rs)%nat -> (j < length Ls)%nat ->
  accl (firstn (S j) rs) Ls = accl (firstn j rs) Ls + (if nth j rs 0 =? 0 then 0 else nth j rs 0 * nth j Ls 0).
Proof.
  revert Ls. induction rs as [|r rs IH]; intros Ls j Hr HL; [cbn in Hr; lia|]. destruct Ls as [|l Ls]; [cbn in HL; lia|].
  destruct j as [|j]; [cbn [firstn accl nth]; destruct rs; cbn [accl firstn]; lia|].
  change (firstn (S (S j)) (r :: rs)) with (r :: firstn (S j) rs). change (firstn (S j) (r :: rs)) with (r :: firstn j rs). cbn [accl nth].
  rewrite IH by (cbn in Hr, HL; lia). lia.
Qed.
Lemma accl_all rs Ls : accl (firstn (length rs) rs) Ls = accl rs Ls. Proof. rewrite firstn_all. reflexivity. Qed.

Section P2M.
Variables (n nm : nat) (op Ls rop0 : list Z) (Q s ms : Z).
Hypothesis Hop : length op = (nm * n)%nat.
Hypothesis HLs : length Ls = nm.
Hypothesis Hr0 : length rop0 = n.
Hypothesis Hsmall : Z.of_nat (nm * n) < 2 ^ 61.
Hypothesis Hn61 : Z.of_nat n < 2 ^ 61.
Hypothesis Hnm61 : Z.of_nat nm < 2 ^ 61.

Definition col (i : nat) : list Z := map (fun cm => nth (cm * n + i) op 0) (seq 0 nm).
Definition Gv (i : nat) : Z := red_gen Q s ms (accl (col i) Ls).
Lemma col_len i : length (col i) = nm. Proof. unfold col. apply tabz_length. Qed.

Lemma acc_loop i (R : list Z) : (i < n)%nat -> length R = n ->
  for_up 0 (Z.of_nat nm) 1 (fun cm rop => (bind (ld op (uw 64 ((uw 64 (cm * Z.of_nat n)) + Z.of_nat i))) (fun w_1 => (bind (if (negb (w_1 =? 0)) then (bind (ld rop (Z.of_nat i)) (fun z_2 => (bind (ld Ls cm) (fun z_3 => (bind (ld op (uw 64 ((uw 64 (cm * Z.of_nat n)) + Z.of_nat i))) (fun w_4 => (bind (st rop (Z.of_nat i) (z_2 + z_3 * w_4)) (fun rop => Some rop)))))))) else Some rop) (fun rop => Some rop))))) (upd i 0 R)
  = Some (upd i (accl (col i) Ls) R).
Proof.
  intros Hi HR.
  assert (E0 : upd i 0 R = upd i (accl (firstn 0 (col i)) Ls) R) by reflexivity. rewrite E0.
  rewrite <- (accl_all (col i) Ls). rewrite col_len.
  rewrite (for_up_steps (fun j : nat => upd i (accl (firstn j (col i)) Ls) R) nm); try lia; [reflexivity|].
  intros cm Hc. replace (0 + 1 * Z.of_nat cm) with (Z.of_nat cm) by lia. cbv beta.
  assert (Hk : (cm * n + i < nm * n)%nat) by nia.
  assert (Eidx : uw 64 (uw 64 (Z.of_nat cm * Z.of_nat n) + Z.of_nat i) = Z.of_nat (cm * n + i)).
  { rewrite (uw_small 64 (Z.of_nat cm * Z.of_nat n)) by nia. rewrite uw_small by nia. nia. }
  rewrite Eidx. rewrite ld_some by lia. cbn [bind]. rewrite Nat2Z.id.
  rewrite accl_firstn_S by (rewrite ?col_len; lia).
  assert (Ec : nth cm (col i) 0 = nth (cm * n + i) op 0) by (unfold col; rewrite tabz_nth by exact Hc; reflexivity). rewrite Ec.
  destruct (Z.eqb_spec (nth (cm * n + i) op 0) 0) as [Ez|Ez]; cbn [negb bind].
  - rewrite Z.add_0_r. reflexivity.
  - rewrite ld_some by (rewrite upd_length; lia). cbn [bind]. rewrite Nat2Z.id. rewrite upd_same by lia.
    rewrite ld_some by lia. cbn [bind]. rewrite Nat2Z.id.
    rewrite st_some by (rewrite upd_length; lia). cbn [bind]. rewrite Nat2Z.id. rewrite upd_upd. f_equal. f_equal. ring.
Qed.

Definition tmpf (j : nat) : Z := match j with O => 0 | S j' => Z.quot (accl (col j') Ls * ms) (2 ^ s) end.

Theorem p2m_ok bms : p2m_sh (Z.of_nat n) (Z.of_nat nm) s bms rop0 op Ls ms Q = Some (tmpf n, map Gv (seq 0 n)).
Proof.
  unfold p2m_sh. cbv zeta.
  assert (E0 : (rop0, 0) = (filled Gv rop0 0, tmpf 0)) by reflexivity. rewrite E0.
  rewrite (for_up_steps (fun i : nat => (filled Gv rop0 i, tmpf i)) n); try lia.
  - cbn [bind]. f_equal. f_equal. rewrite <- Hr0 at 1. rewrite filled_all. rewrite Hr0. reflexivity.
  - intros i Hi. replace (0 + 1 * Z.of_nat i) with (Z.of_nat i) by lia. cbv beta iota.
    rewrite st_some by (rewrite filled_length by lia; lia). cbn [bind]. rewrite Nat2Z.id.
    rewrite (acc_loop i (filled Gv rop0 i) Hi) by (rewrite filled_length by lia; lia). cbn [bind].
    set (A := accl (col i) Ls).
    assert (HL : length (upd i A (filled Gv rop0 i)) = n) by (rewrite upd_length, filled_length by lia; lia).
    rewrite ld_some by lia. cbn [bind]. rewrite Nat2Z.id. rewrite upd_same by (rewrite filled_length by lia; lia).
    unfold gmp_tdiv_q_2exp.
    rewrite st_some by lia. cbn [bind]. rewrite Nat2Z.id. rewrite upd_upd.
    rewrite ld_some by (rewrite upd_length, filled_length by lia; lia). cbn [bind]. rewrite Nat2Z.id. rewrite upd_same by (rewrite filled_length by lia; lia).
    rewrite gmp_cmp_ge.
    assert (EG : Gv i = (if A - Z.quot (A * ms) (2 ^ s) * Q >=? Q then A - Z.quot (A * ms) (2 ^ s) * Q - Q else A - Z.quot (A * ms) (2 ^ s) * Q)) by reflexivity.
    destruct (A - Z.quot (A * ms) (2 ^ s) * Q >=? Q) eqn:EC.
    + rewrite st_some by (rewrite upd_length, filled_length by lia; lia). cbn [bind]. rewrite Nat2Z.id. rewrite upd_upd. rewrite <- EG.
      rewrite filled_step by lia. reflexivity.
    + cbn [bind]. rewrite <- EG. rewrite filled_step by lia. reflexivity.
Qed.
End P2M.

(* ================= GMP::GMP(): product, shift, Shoup value, lifting integers ================= *)
Lemma prod_pos l : (forall i, (i < length l)%nat -> 0 < nth i l 1) -> 0 < prod l.
Proof.
  unfold prod. induction l as [|a l IH]; intros H; cbn [fold_right]; [lia|].
  assert (0 < a) by (apply (H 0%nat); cbn; lia). assert (0 < fold_right Z.mul 1 l) by (apply IH; intros i Hi; apply (H (S i)); cbn; lia). nia.
Qed.
Lemma nth_tab_opt (f : nat -> option Z) n j : (j < n)%nat -> nth j (map f (seq 0 n)) None = f j.
Proof. intros H. rewrite (nth_indep _ None (f 0%nat)) by (rewrite map_length, seq_length; exact H). rewrite map_nth. rewrite seq_nth by exact H. reflexivity. Qed.

Section CTOR.
Variable w : Z.
Variables (m : nat) (P : list Z).
Definition ps := firstn m P.
Hypothesis Hw : 0 <= w.
Hypothesis HPl : (m <= length P)%nat.
Hypothesis Hpos : forall i, (i < m)%nat -> 1 < nth i ps 1.
Hypothesis Hm61 : Z.of_nat m < 2 ^ 61.
Hypothesis Hshift : shiftQ w ps < 2 ^ 62.
Variable invs : list Z.
Hypothesis Hinv : all_some (modinvs ps) = Some invs.

Lemma ps_len : length ps = m. Proof. unfold ps. rewrite firstn_length. lia. Qed.
Lemma ps_nth j : (j < m)%nat -> nth j P 0 = nth j ps 1.
Proof. intros Hj. unfold ps. rewrite (nth_indep (firstn m P) 1 0) by (rewrite firstn_length; lia). rewrite Layer.nth_firstn. assert (E : (j <? m)%nat = true) by (apply Nat.ltb_lt; exact Hj). rewrite E. reflexivity. Qed.
Lemma Qpos : 0 < prod ps. Proof. apply prod_pos. intros i Hi. rewrite ps_len in Hi. specialize (Hpos i Hi). lia. Qed.
Definition Fl (i : nat) : Z := (prod ps / nth i ps 1) * nth i invs 0.
Lemma lifting_is : lifting ps = Some (map Fl (seq 0 m)).
Proof. unfold lifting. rewrite Hinv. cbn [option_map]. rewrite ps_len. reflexivity. Qed.

Definition curf (j : nat) : Z := match j with O => 0 | S j' => nth j' ps 1 end.
Definition quotf (j : nat) : Z := match j with O => 0 | S j' => prod ps / nth j' ps 1 end.

Variable L0 : list Z.
Hypothesis HL0 : length L0 = m.

Theorem ctor_ok mp0 b0 s0 ms0 b20 :
  ctor_sh w (Z.of_nat m) P mp0 b0 s0 ms0 b20 L0 =
  Some (prod ps, Z.log2 (prod ps) + 1, shiftQ w ps, 2 ^ shiftQ w ps / prod ps, gmp_sizeinbase2 (2 ^ shiftQ w ps / prod ps), quotf m, curf m, map Fl (seq 0 m)).
Proof.
  unfold ctor_sh. cbv zeta. pose proof Qpos as HQ. pose proof ps_len as Hlen.
  (* the product of the moduli *)
  assert (Loop1 : for_up 0 (Z.of_nat m) 1 (fun cm moduli_product => Some (moduli_product * tabP P cm)) 1 = Some (prod (firstn m ps))).
  { apply (for_up_steps (fun j : nat => prod (firstn j ps)) m); try lia.
    intros j Hj. replace (0 + 1 * Z.of_nat j) with (Z.of_nat j) by lia. cbv beta. unfold tabP. rewrite Nat2Z.id.
    rewrite firstn_S_snoc by lia. rewrite prod_snoc. rewrite ps_nth by exact Hj. rewrite (nth_indep ps 0 1) by lia. reflexivity. }
  assert (Efn : firstn m ps = ps) by (rewrite <- Hlen; apply firstn_all). rewrite Efn in Loop1. rewrite Loop1. cbn [bind].
  (* sizes *)
  assert (Eb : gmp_sizeinbase2 (prod ps) = Z.log2 (prod ps) + 1).
  { unfold gmp_sizeinbase2. destruct (Z.eqb_spec (prod ps) 0); [lia|]. rewrite Z.abs_eq by lia. reflexivity. }
  rewrite Eb. pose proof (Z.log2_nonneg (prod ps)) as Hl2. pose proof (Z.log2_nonneg (Z.of_nat m)) as Hl2m.
  assert (Es : uw 64 (uw 64 (uw 64 (Z.log2 (prod ps) + 1 + w) + Z.log2 (Z.of_nat m)) + 1) = shiftQ w ps).
  { unfold shiftQ in *. rewrite Hlen in *. rewrite (uw_small 64 (Z.log2 (prod ps) + 1 + w)) by lia. rewrite (uw_small 64 (Z.log2 (prod ps) + 1 + w + Z.log2 (Z.of_nat m))) by lia. apply uw_small. lia. }
  rewrite Es. assert (Hs0 : 0 <= shiftQ w ps) by (unfold shiftQ; rewrite Hlen; lia).
  assert (Hp2 : 0 < 2 ^ shiftQ w ps) by (apply Z.pow_pos_nonneg; lia).
  unfold gmp_tdiv_q. destruct (Z.eqb_spec (prod ps) 0); [lia|]. cbn [bind]. rewrite Z.quot_div_nonneg by lia.
  (* the lifting integers *)
  assert (E1 : (0, 0, L0) = (curf 0, quotf 0, filled Fl L0 0)) by reflexivity. rewrite E1.
  rewrite (for_up_steps (fun j : nat => (curf j, quotf j, filled Fl L0 j)) m); try lia.
  - cbn [bind]. f_equal. f_equal. rewrite <- HL0 at 1. rewrite filled_all. rewrite HL0. reflexivity.
  - intros j Hj. replace (0 + 1 * Z.of_nat j) with (Z.of_nat j) by lia. cbv beta iota. unfold tabP. rewrite Nat2Z.id. rewrite (ps_nth j Hj).
    pose proof (Hpos j Hj) as Hpj.
    assert (Eq : prod ps = nth j ps 1 * others j ps) by (apply prod_others; lia).
    assert (Emod : prod ps mod nth j ps 1 = 0) by (rewrite Eq, Z.mul_comm; apply Z.mod_mul; lia).
    assert (Ediv : prod ps / nth j ps 1 = others j ps) by (rewrite Eq at 1; rewrite Z.mul_comm; apply Z.div_mul; lia).
    unfold gmp_divexact. destruct (Z.eqb_spec (nth j ps 1) 0); [lia|]. rewrite Emod. cbn [orb negb Z.eqb bind].
    rewrite st_some by (rewrite filled_length by lia; lia). cbn [bind]. rewrite Nat2Z.id.
    destruct (all_some_nth (modinvs ps) invs j Hinv) as [Enth _]; [unfold modinvs; rewrite map_length, seq_length; lia|].
    unfold modinvs in Enth. rewrite nth_tab_opt in Enth by lia.
    unfold gmp_invert. rewrite Ediv. rewrite Enth. cbn [bind].
    rewrite st_some by (rewrite upd_length, filled_length by lia; lia). cbn [bind]. rewrite Nat2Z.id. rewrite upd_upd.
    rewrite ld_some by (rewrite upd_length, filled_length by lia; lia). cbn [bind]. rewrite Nat2Z.id. rewrite upd_same by (rewrite filled_length by lia; lia).
    rewrite st_some by (rewrite upd_length, filled_length by lia; lia). cbn [bind]. rewrite Nat2Z.id. rewrite upd_upd.
    replace (nth j invs 0 * others j ps) with (Fl j) by (unfold Fl; rewrite Ediv; ring).
    rewrite filled_step by lia. unfold curf, quotf. rewrite Ediv. reflexivity.
Qed.
End CTOR.
