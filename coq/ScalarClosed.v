(* C03: the functor theorems closed over the tables generated from params.hpp on this run. *)
From Coq Require Import ZArith Znumtheory Lia List Bool.
From NTT Require Import Functors ScalarOps NumTheoryMC TablesOK Shards C06Closed.
From NTT.gen Require Import Params.
Import ListNotations.
Local Open Scope Z_scope.

(* ---------- closing over the generated tables ---------- *)
Lemma row_valid_Hrow w bits maxdeg r : 3 < w -> bits = w - 2 -> row_valid w bits maxdeg r -> Hrow w (fst (fst (fst r))).
Proof.
  intros Hw Hb Hv. destruct Hv as [_ Hs _ _ _ _ _ _ _ _]. subst bits. split; [exact Hw|].
  replace (w - 3) with (w - 2 - 1) by lia. exact Hs.
Qed.

Theorem functors_exact_tables :
  (forall r, In r rows16 -> functors_exact 16 (fst (fst (fst r)))) /\
  (forall r, In r rows32 -> functors_exact 32 (fst (fst (fst r)))) /\
  (forall r, In r rows64 -> functors_exact 64 (fst (fst (fst r)))).
Proof.
  destruct tables_valid as (T16 & T32 & T64).
  assert (W1 : w16 = 16) by reflexivity. assert (W2 : w32 = 32) by reflexivity. assert (W3 : w64 = 64) by reflexivity.
  split; [|split]; intros r Hr; apply functors_exact_of_row.
  - apply (row_valid_Hrow 16 bits16 maxdeg16); [lia | rewrite (tv_bits _ _ _ _ _ T16), W1; reflexivity | rewrite <- W1; apply (tv_rows _ _ _ _ _ T16 r Hr)].
  - apply (row_valid_Hrow 32 bits32 maxdeg32); [lia | rewrite (tv_bits _ _ _ _ _ T32), W2; reflexivity | rewrite <- W2; apply (tv_rows _ _ _ _ _ T32 r Hr)].
  - apply (row_valid_Hrow 64 bits64 maxdeg64); [lia | rewrite (tv_bits _ _ _ _ _ T64), W3; reflexivity | rewrite <- W3; apply (tv_rows _ _ _ _ _ T64 r Hr)].
Qed.

Theorem functors64_tables : forall r, In r rows64 ->
  let p := fst (fst (fst r)) in let pn := snd (fst (fst r)) in
  (forall x y, 0 <= x < p -> 0 <= y < p -> mulmod64 p pn x y = (x * y) mod p) /\
  (forall z x y, 0 <= z < p -> 0 <= x < p -> 0 <= y < p -> muladd64 p pn z x y = (x * y + z) mod p).
Proof.
  intros r Hr p pn. pose proof newton64_ok as N. rewrite forallb_forall in N. specialize (N r Hr).
  destruct r as [[[p' pn'] g] ik]. cbn [fst snd] in p, pn. subst p pn.
  repeat (apply andb_true_iff in N; destruct N as [N ?]).
  repeat match goal with
  | h : (_ <=? _) = true |- _ => apply Z.leb_le in h
  | h : (_ <? _) = true |- _ => apply Z.ltb_lt in h
  | h : (_ =? _) = true |- _ => apply Z.eqb_eq in h
  end.
  assert (HR : Hrow64 p' pn') by (unfold Hrow64; change B128 with (2 ^ 128); lia).
  destruct HR as (A1 & A2 & A3). split; intros.
  - apply mulmod64_correct; assumption.
  - apply muladd64_correct; [unfold Hrow64; auto | assumption..].
Qed.
