(* poly::set(value_type v, bool reduce_coeffs) of the source (through the initializer-list overload and the translated list setter): the constant
   polynomial -- v (reduced or verbatim) at coefficient 0 of every modulus, zero elsewhere; v = 0 gives the zero polynomial. *)
From Coq Require Import ZArith List Lia Bool Arith.
From NTT Require Import Setters CxxSem MemSem SetterSpec GenSetterEq.
From NTT.gen Require Import GenLoop.
Import ListNotations.
Local Open Scope Z_scope.

Section Scalar.
Variables (bits : Z) (n nm : nat) (P data0 : list Z) (v : Z) (reduce : bool) (fuel : nat).
Variable setl : nat -> Z -> list Z -> list Z -> Z -> Z -> bool -> Z -> list Z -> option SS.
Definition scal_sh : option (list Z) :=
  (if (v =? 0) then Some (fill_all data0 (Z.of_nat n * Z.of_nat nm) 0) else (bind (setl fuel (Z.of_nat n) data0 (v :: nil) 0 1 reduce (Z.of_nat nm) P) (fun '(_data, _, _) => Some _data))).
Hypothesis Hn : (1 <= n)%nat.
Hypothesis Hd : length data0 = (nm * n)%nat.
Hypothesis Hsetl : option_map (fun s : SS => fst (fst s)) (setl fuel (Z.of_nat n) data0 [v] (Z.of_nat 0) (Z.of_nat 1) reduce (Z.of_nat nm) P) = set_list n nm (fun cm => nth cm P 0) reduce (firstn (1 - 0) (skipn 0 [v])) data0.

Theorem scalar_ok : exists res, scal_sh = Some res /\ length res = (nm * n)%nat /\
  forall cm i, (cm < nm)%nat -> (i < n)%nat -> nth (cm * n + i) res 0 = if (i =? 0)%nat then red (fun cm => nth cm P 0) reduce cm v else 0.
Proof.
  unfold scal_sh. destruct (Z.eqb_spec v 0) as [E0|Ne].
  - subst v. exists (fill_all data0 (Z.of_nat n * Z.of_nat nm) 0). split; [reflexivity|].
    assert (Ef : fill_all data0 (Z.of_nat n * Z.of_nat nm) 0 = repeat 0 (nm * n)).
    { unfold fill_all. replace (Z.to_nat (Z.of_nat n * Z.of_nat nm)) with (nm * n)%nat by lia. rewrite skipn_all2 by lia. apply app_nil_r. }
    rewrite Ef. split; [apply repeat_length|]. intros cm i Hc Hi. rewrite nth_repeat. destruct (i =? 0)%nat; [|reflexivity]. unfold red. destruct reduce; [|reflexivity]. symmetry. apply Zmod_0_l.
  - change (Z.of_nat 0) with 0 in Hsetl. change (Z.of_nat 1) with 1 in Hsetl. cbn [Nat.sub skipn firstn] in Hsetl.
    destruct (set_short n nm (fun cm => nth cm P 0) reduce [v] data0) as (res & E & L & R); [cbn [length]; lia | cbn [length]; destruct (Nat.eq_dec nm 1); [right; assumption | left; nia] |].
    rewrite E in Hsetl. destruct (setl fuel (Z.of_nat n) data0 [v] 0 1 reduce (Z.of_nat nm) P) as [[[d a] b]|]; [|discriminate Hsetl]. cbn [option_map fst] in Hsetl. injection Hsetl as ->.
    exists res. cbn [bind]. split; [reflexivity|]. split; [exact L|]. intros cm i Hc Hi. rewrite (R cm i Hc Hi). cbn [length].
    destruct i as [|i]; [reflexivity|]. cbn [Nat.ltb Nat.leb Nat.eqb]. reflexivity.
Qed.
End Scalar.

Lemma scal_u16_shape fuel degree _data v r nmoduli P : gen_set_scalar_u16 fuel degree _data v r nmoduli P =
  (if (v =? 0) then Some (fill_all _data (degree * nmoduli) 0) else (bind (gen_set_list_u16 fuel degree _data (v :: nil) 0 1 r nmoduli P) (fun '(_data, _, _) => Some _data))). Proof. reflexivity. Qed.
Lemma scal_u32_shape fuel degree _data v r nmoduli P : gen_set_scalar_u32 fuel degree _data v r nmoduli P =
  (if (v =? 0) then Some (fill_all _data (degree * nmoduli) 0) else (bind (gen_set_list_u32 fuel degree _data (v :: nil) 0 1 r nmoduli P) (fun '(_data, _, _) => Some _data))). Proof. reflexivity. Qed.
Lemma scal_u64_shape fuel degree _data v r nmoduli P : gen_set_scalar_u64 fuel degree _data v r nmoduli P =
  (if (v =? 0) then Some (fill_all _data (degree * nmoduli) 0) else (bind (gen_set_list_u64 fuel degree _data (v :: nil) 0 1 r nmoduli P) (fun '(_data, _, _) => Some _data))). Proof. reflexivity. Qed.

Definition const_poly (n nm : nat) (P : list Z) (reduce : bool) (v : Z) (res : list Z) : Prop :=
  length res = (nm * n)%nat /\ forall cm i, (cm < nm)%nat -> (i < n)%nat -> nth (cm * n + i) res 0 = if (i =? 0)%nat then red (fun cm => nth cm P 0) reduce cm v else 0.

Theorem source_set_scalar n nm P data0 v reduce fuel : (1 <= n)%nat -> length data0 = (nm * n)%nat -> Z.of_nat (nm * n) < 2 ^ 61 -> Z.of_nat n < 2 ^ 61 -> Z.of_nat nm < 2 ^ 61 -> (n < fuel)%nat -> (nm <= length P)%nat ->
  (Forall (fun p => 0 < p < 2 ^ 16) (firstn nm P) -> 0 <= v < 2 ^ 16 -> exists res, gen_set_scalar_u16 fuel (Z.of_nat n) data0 v reduce (Z.of_nat nm) P = Some res /\ const_poly n nm P reduce v res) /\
  (Forall (fun p => 0 < p < 2 ^ 32) (firstn nm P) -> 0 <= v < 2 ^ 32 -> exists res, gen_set_scalar_u32 fuel (Z.of_nat n) data0 v reduce (Z.of_nat nm) P = Some res /\ const_poly n nm P reduce v res) /\
  (Forall (fun p => 0 < p < 2 ^ 64) (firstn nm P) -> 0 <= v < 2 ^ 64 -> exists res, gen_set_scalar_u64 fuel (Z.of_nat n) data0 v reduce (Z.of_nat nm) P = Some res /\ const_poly n nm P reduce v res).
Proof.
  intros Hn Hd Hs Hn6 Hnm6 Hf HPl.
  assert (Lv : (0 <= 1 <= length [v])%nat) by (cbn [length]; lia).
  assert (Ll : Z.of_nat (length [v]) < 2 ^ 61) by (cbn [length]; reflexivity).
  split; [|split]; intros HP Hv.
  - rewrite scal_u16_shape. apply (scalar_ok n nm P data0 v reduce fuel gen_set_list_u16 Hn Hd).
    apply (source_set_list_u16 n nm P [v] data0 0 1 reduce fuel Lv Hd Hs Hn6 Hnm6 Ll Hf HPl HP). constructor; [exact Hv | constructor].
  - rewrite scal_u32_shape. apply (scalar_ok n nm P data0 v reduce fuel gen_set_list_u32 Hn Hd).
    apply (source_set_list_u32 n nm P [v] data0 0 1 reduce fuel Lv Hd Hs Hn6 Hnm6 Ll Hf HPl HP). constructor; [exact Hv | constructor].
  - rewrite scal_u64_shape. apply (scalar_ok n nm P data0 v reduce fuel gen_set_list_u64 Hn Hd).
    apply (source_set_list_u64 n nm P [v] data0 0 1 reduce fuel Lv Hd Hs Hn6 Hnm6 Ll Hf HPl HP). constructor; [exact Hv | constructor].
Qed.
