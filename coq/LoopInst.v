(* The loop structure of the transforms, part 5: instantiation at a limb width w and a modulus p -- the butterfly is Functors.bfly_lazy,
   the fused layers Fused.fused, and on the tables as the library lays them out (FlatTable.flat, with the Shoup companions) the
   translated poly::core::ntt computes Structural.ntt_core, the model on which the algebraic theorems (C01/C02) are stated. *)
From Coq Require Import ZArith List Lia Bool Arith.
From NTT Require Import Functors Fused Layer Transform Structural Tables FlatTable CxxSem MemSem LoopSpec LoopRun.
Import ListNotations.
Local Open Scope Z_scope.

Lemma pairs_ext bf bf' : forall lo hi i, (forall j a b, (i <= j < i + length lo)%nat -> bf j a b = bf' j a b) -> pairs bf i lo hi = pairs bf' i lo hi.
Proof.
  induction lo as [|a lo IH]; intros [|b hi] i H; cbn [pairs]; try reflexivity.
  rewrite (IH hi (S i)) by (intros j a' b' Hj; apply H; cbn [length]; lia). rewrite (H i a b) by (cbn [length]; lia). reflexivity.
Qed.
Lemma blocks_ext bf bf' h : (forall j a b, (j < h)%nat -> bf j a b = bf' j a b) -> forall M x, blocks bf M h x = blocks bf' M h x.
Proof.
  intros H. induction M as [|M IH]; intros x; cbn [blocks]; [reflexivity|]. rewrite IH. f_equal. unfold block.
  rewrite (pairs_ext bf bf'); [reflexivity|]. intros j a b Hj. apply H. rewrite firstn_length in Hj. lia.
Qed.

Lemma pows_range p wv : 0 < p -> forall cnt cur, 0 <= cur < p -> Forall (fun v => 0 <= v < p) (pows p wv cnt cur).
Proof. intros Hp. induction cnt as [|c IH]; intros cur Hc; cbn [pows]; constructor; [exact Hc|]. apply IH. apply Z.mod_pos_bound. exact Hp. Qed.
Lemma flat_range p k : 1 < p -> forall om, Forall (fun v => 0 <= v < p) (flat p k om).
Proof.
  intros Hp. unfold flat. induction k as [|k IH]; intros om; cbn [prep concat]; [constructor|].
  apply Forall_app. split; [apply pows_range; lia | apply IH].
Qed.
Lemma shoup_range w p l : 0 < w -> 0 < p -> Forall (fun v => 0 <= v < p) l -> Forall (fun v => 0 <= v < 2 ^ w) (map (fun v => (v * 2 ^ w) / p) l).
Proof.
  intros Hw Hp F. assert (0 < 2 ^ w) by (apply Z.pow_pos_nonneg; lia).
  induction F as [|v l Hv F IH]; cbn [map]; constructor; [|exact IH].
  split; [apply Z.div_pos; nia | apply Z.div_lt_upper_bound; nia].
Qed.
Lemma off_mul k a : forall lvl, (a + lvl <= k)%nat -> exists q, off k lvl = (2 ^ a * q)%nat.
Proof.
  induction lvl as [|l IH]; intros H; [exists 0%nat; cbn [off]; lia|].
  destruct (IH ltac:(lia)) as [q Hq]. exists (q + 2 ^ (k - l - 1 - a))%nat. cbn [off]. rewrite Hq.
  replace (k - l - 1)%nat with (a + (k - l - 1 - a))%nat at 1 by lia. rewrite Nat.pow_add_r. lia.
Qed.


Definition strict1 (p v : Z) : Z := if v >=? p then v - p else v.

Section Inst.
Variable w : Z.
Hypothesis Hw : 1 < w.
Variable p : Z.
Hypothesis Hp : 0 < p.
Hypothesis H4p : 4 * p <= 2 ^ w.
Let Rx (v : Z) : Prop := 0 <= v < 2 ^ w.
Let Rwt (v : Z) : Prop := 0 <= v < p.
Definition bf4 (a b wi wt : Z) : Z * Z := bfly_lazy w p wt wi a b.
Lemma Bpos : 0 < 2 ^ w. Proof. apply Z.pow_pos_nonneg; lia. Qed.
Lemma bf4_out a b wi wt : Rx (fst (bf4 a b wi wt)) /\ Rx (snd (bf4 a b wi wt)).
Proof. pose proof Bpos. unfold bf4, bfly_lazy, Rx. cbv zeta. cbn [fst snd]. unfold wr. split; apply Z.mod_pos_bound; assumption. Qed.
Lemma fused_out w1 w1' u0 u1 u2 u3 : let '(z0, z1, z2, z3) := fused w p w1 w1' u0 u1 u2 u3 in Rx z0 /\ Rx z1 /\ Rx z2 /\ Rx z3.
Proof. pose proof Bpos. unfold fused, ladd, lsub, wrp, Rx. cbv zeta. repeat split; apply Z.mod_pos_bound; assumption. Qed.

Variable k : nat.
Hypothesis Hk : (k <= 30)%nat.
Variables W W' : list Z.
Hypothesis HW : Forall Rwt W.
Hypothesis HW' : Forall Rx W'.
Hypothesis HWl : (2 ^ k - 1 <= length W)%nat.
Hypothesis HWl' : (2 ^ k - 1 <= length W')%nat.

(* the kernels: what GenEq.v / GenVecEq.v prove about the generated ones *)
Variable sk : Z -> Z -> Z -> Z -> Z -> option (Z * Z).
Hypothesis Hsk : forall a b wi wt, Rx a -> Rx b -> Rx wi -> Rwt wt -> sk p a b wi wt = Some (bf4 a b wi wt).
Variable deg2k : Z -> Z -> Z -> option (Z * Z).
Hypothesis Hdeg2 : forall u0 u1, Rx u0 -> Rx u1 -> deg2k p u0 u1 = Some (strict1 p (ladd w p u0 u1), strict1 p (lsub w p u0 u1)).
Variable fusedk : Z -> Z -> Z -> Z -> Z -> Z -> Z -> option (Z * Z * Z * Z).
Hypothesis Hfused : forall u0 u1 u2 u3 w1' w1, Rx u0 -> Rx u1 -> Rx u2 -> Rx u3 -> Rx w1' -> Rwt w1 -> fusedk p u0 u1 u2 u3 w1' w1 = Some (fused w p w1 w1' u0 u1 u2 u3).
Variable strictk : Z -> Z -> option Z.
Hypothesis Hstrict : forall v, Rx v -> strictk p v = Some (strict1 p v).

Lemma pow_half a : (1 <= a)%nat -> (2 ^ a = 2 * 2 ^ (a - 1))%nat.
Proof. intros H. replace a with (S (a - 1)) at 1 by lia. apply Nat.pow_succ_r'. Qed.

(* rows done by the scalar body *)
Ltac side lvl :=
  first [ assumption
        | apply Nat.neq_0_lt_0, Nat.pow_nonzero; lia
        | match goal with |- length _ = _ => etransitivity; [eassumption | symmetry; apply pow2_split; lia] end
        | match goal with |- Z.of_nat _ < 2 ^ 62 => rewrite pow2_split by lia; rewrite pow2_Z; apply Z.pow_lt_mono_r; lia end
        | lia ].
Lemma rowok_s2 lvl : (lvl + 2 < k)%nat -> RowOK bf4 W W' k Rx (row_s2 sk p W W' 0) lvl.
Proof.
  intros Hl x Hx Fx r Hr. pose proof (off_fits k lvl ltac:(lia)).
  eapply (row_s2_ok bf4 W W' Rx Rx Rwt) with (n := (2 ^ (k - lvl - 2))%nat); try side lvl.
  rewrite (pow_half (k - lvl - 1)) by lia. f_equal. f_equal. lia.
Qed.
Lemma rowok_s1 lvl : (lvl < k)%nat -> RowOK bf4 W W' k Rx (row_s1 sk p W W' 0) lvl.
Proof.
  intros Hl x Hx Fx r Hr. pose proof (off_fits k lvl ltac:(lia)).
  eapply (row_s1_ok bf4 W W' Rx Rx Rwt); try side lvl.
Qed.

(* rows done by vector kernels: L = 2^a elements per register *)
Definition kern_hyp (bits : Z) (words : nat) (vkp : Z -> list Z -> list Z -> list Z -> list Z -> list Z * list Z) : Prop :=
  forall A B I Wt, length A = elts bits words -> length B = elts bits words -> length I = elts bits words -> length Wt = elts bits words ->
  Forall Rx A -> Forall Rx B -> Forall Rx I -> Forall Rwt Wt ->
  let r := vkp p (enc bits A) (enc bits B) (enc bits I) (enc bits Wt) in
  dec bits (fst r) = map fst (zip4 bf4 A B I Wt) /\ dec bits (snd r) = map snd (zip4 bf4 A B I Wt).
Lemma pow_split a b : (a <= b)%nat -> (2 ^ b = 2 ^ a * 2 ^ (b - a))%nat.
Proof. intros H. rewrite <- Nat.pow_add_r. f_equal. lia. Qed.
Lemma rowok_v bits words vkp a lvl : elts bits words = (2 ^ a)%nat -> kern_hyp bits words vkp -> (a + lvl + 1 <= k)%nat ->
  RowOK bf4 W W' k Rx (row_v bits words (Z.of_nat (elts bits words)) vkp p W W' 0) lvl.
Proof.
  intros HL HK Hl x Hx Fx r Hr. pose proof (off_fits k lvl ltac:(lia)).
  destruct (off_mul k a lvl ltac:(lia)) as [woq Hwo].
  eapply (row_v_ok bf4 W W' Rx Rx Rwt) with (woq := woq) (q := (2 ^ (k - lvl - 1 - a))%nat); try side lvl.
  all: rewrite ?HL; first [exact Hwo | exact HK | apply pow_split; lia | apply Nat.neq_0_lt_0, Nat.pow_nonzero; lia].
Qed.
Lemma rowok_avx2 bits vk8 vk4 a lvl : elts bits 4 = (2 ^ a)%nat -> elts bits 8 = (2 * elts bits 4)%nat -> kern_hyp bits 8 vk8 -> kern_hyp bits 4 vk4 -> (a + lvl + 1 <= k)%nat ->
  RowOK bf4 W W' k Rx (row_avx2 bits (Z.of_nat (elts bits 8)) vk8 vk4 p W W' 0) lvl.
Proof.
  intros HL4 HL8 HK8 HK4 Hl x Hx Fx r Hr. pose proof (off_fits k lvl ltac:(lia)).
  assert (P4 : (0 < elts bits 4)%nat) by (rewrite HL4; apply Nat.neq_0_lt_0, Nat.pow_nonzero; lia).
  assert (E8 : elts bits 8 = (2 ^ S a)%nat) by (rewrite HL8, HL4, Nat.pow_succ_r'; reflexivity).
  destruct (Nat.eq_dec (k - lvl - 1) a) as [Eq|Ne].
  - (* blocks of two SSE registers: the AVX2 loop is empty *)
    destruct (off_mul k (S a) lvl ltac:(lia)) as [woq Hwo].
    eapply (row_avx2_half bf4 W W' Rx Rx Rwt) with (woq := woq); try side lvl.
    all: rewrite ?E8; first [exact Hwo | exact HK4 | rewrite HL4, Eq; reflexivity].
  - destruct (off_mul k (S a) lvl ltac:(lia)) as [woq Hwo].
    eapply (row_avx2_full bf4 W W' Rx Rx Rwt) with (woq := woq) (q := (2 ^ (k - lvl - 1 - S a))%nat); try side lvl.
    all: rewrite ?E8; first [exact Hwo | exact HK8 | apply pow_split; lia].
Qed.

Definition result (x0 : list Z) : list Z :=
  map (strict1 p) (fpass (fused w p) (2 ^ (k - 2)) (nth (off k (k - 2) + 1) W 0) (nth (off k (k - 2) + 1) W' 0) (upto bf4 W W' k (k - 2) x0)).

(* serial build *)
Theorem ntt_serial_inst x0 : (2 <= k)%nat -> length x0 = (2 ^ k)%nat -> Forall Rx x0 ->
  ntt_sh (run_serial_sh sk) deg2k fusedk strictk (Z.of_nat (2 ^ k)) x0 0 W 0 W' 0 p =
  Some ((result x0, Z.of_nat (2 ^ k), Z.of_nat (off k (k - 2)), Z.of_nat (off k (k - 2))), true).
Proof.
  intros Hk2 Hx Fx.
  apply (ntt_ok (fused w p) (strict1 p) bf4 W W' k Rx Rx Rwt HW HW' HWl HWl' Hk
           (run_serial_sh sk) deg2k fusedk strictk p bf4_out); try assumption.
  - intros _ y Hy Fy. apply (run_serial_ok bf4 W W' k Rx bf4_out HWl HWl' Hk sk p y Hk2); try assumption.
    intros lvl Hl. apply rowok_s2. lia.
  - apply fused_out.
Qed.
(* SSE / AVX2 builds: given the vector rows *)
Theorem ntt_simd_inst ROWV x0 : (3 <= k)%nat -> (forall lvl, (lvl < k - 3)%nat -> RowOK bf4 W W' k Rx (ROWV p W W' 0) lvl) -> length x0 = (2 ^ k)%nat -> Forall Rx x0 ->
  ntt_sh (run_simd_sh ROWV sk) deg2k fusedk strictk (Z.of_nat (2 ^ k)) x0 0 W 0 W' 0 p =
  Some ((result x0, Z.of_nat (2 ^ k), Z.of_nat (off k (k - 2)), Z.of_nat (off k (k - 2))), true).
Proof.
  intros Hk3 HR Hx Fx.
  apply (ntt_ok (fused w p) (strict1 p) bf4 W W' k Rx Rx Rwt HW HW' HWl HWl' Hk
           (run_simd_sh ROWV sk) deg2k fusedk strictk p bf4_out); try assumption; try lia.
  - intros _ y Hy Fy. apply (run_simd_ok bf4 W W' k Rx bf4_out HWl HWl' Hk ROWV sk p y Hk3); try assumption.
    apply rowok_s1. lia.
  - apply fused_out.
Qed.
End Inst.

(* ---- on the library's tables: the level-indexed tables of the transform model are the flat arrays at the offsets the code computes ---- *)
Section OnTables.
Variable w : Z.
Variable p : Z.
Variable k : nat.
Variable om : Z.
Variables padW padW' : list Z.          (* what follows the tables in the arrays (the library's arrays have 2*degree cells) *)
Let tws (lvl : nat) : list Z := nth lvl (prep p k om) [].
Let W := flat p k om ++ padW.
Let W' := map (fun v => (v * 2 ^ w) / p) (flat p k om) ++ padW'.

Lemma run_layers_snoc j : forall lvl x, run_layers w p k tws lvl (S j) x = blocks (bfL w p tws (lvl + j)) (2 ^ (lvl + j)) (2 ^ (k - (lvl + j) - 1)) (run_layers w p k tws lvl j x).
Proof.
  induction j as [|j IH]; intros lvl x.
  - cbn [run_layers]. rewrite Nat.add_0_r. reflexivity.
  - change (run_layers w p k tws lvl (S (S j)) x) with (run_layers w p k tws (S lvl) (S j) (blocks (bfL w p tws lvl) (2 ^ lvl) (2 ^ (k - lvl - 1)) x)).
    rewrite IH. replace (S lvl + j)%nat with (lvl + S j)%nat by lia. reflexivity.
Qed.
Lemma W_nth i : (i + 1 < 2 ^ k)%nat -> nth i W 0 = nth i (flat p k om) 0.
Proof. intros Hi. unfold W. apply app_nth1. pose proof (flat_length p k om). lia. Qed.
Lemma W'_nth i : (i + 1 < 2 ^ k)%nat -> nth i W' 0 = (nth i W 0 * 2 ^ w) / p.
Proof.
  intros Hi. rewrite W_nth by exact Hi. unfold W'. rewrite app_nth1 by (rewrite map_length; pose proof (flat_length p k om); lia).
  change 0 with ((fun v => v * 2 ^ w / p) 0) at 1. apply map_nth.
Qed.
Lemma upto_run_layers j x : (j <= k)%nat -> upto (bf4 w p) W W' k j x = run_layers w p k tws 0 j x.
Proof.
  induction j as [|j IH]; intros Hj; [reflexivity|]. rewrite run_layers_snoc. cbn [upto Nat.add]. rewrite IH by lia. unfold lay.
  apply blocks_ext. intros i a b Hi. pose proof (off_fits k j ltac:(lia)). unfold bfm, bfL, bf4. rewrite W'_nth, W_nth by lia. rewrite flat_level by lia. reflexivity.
Qed.
Lemma fpass_fused_pass M w1 w1' : forall y, fpass (fused w p) M w1 w1' y = fused_pass w p M w1 w1' y.
Proof. induction M as [|M IH]; intros y; [reflexivity|]. destruct y as [|u0 [|u1 [|u2 [|u3 rest]]]]; cbn [fpass fused_pass]; reflexivity. Qed.

Theorem result_is_ntt_core x0 : (2 <= k)%nat -> result w p k W W' x0 = ntt_core w p k tws x0.
Proof.
  intros Hk2. unfold ntt_core.
  assert (G : forall kk, kk = k -> result w p k W W' x0 = ntt_core_at w p k tws kk x0); [|apply G; reflexivity].
  intros kk Hkk. destruct kk as [|[|k2]]; try lia. cbn [ntt_core_at]. unfold result.
  replace (k - 2)%nat with k2 by lia.
  pose proof (off_fits k k2 ltac:(lia)) as OF. replace (k - k2 - 1)%nat with 1%nat in OF by lia. cbn [Nat.pow Nat.mul] in OF.
  rewrite upto_run_layers by lia. rewrite fpass_fused_pass. rewrite W'_nth, W_nth by lia.
  assert (E : nth (off k k2 + 1) (flat p k om) 0 = nth 1 (tws k2) 0).
  { unfold tws. apply flat_level; [lia|]. replace (k - k2 - 1)%nat with 1%nat by lia. cbn. lia. }
  rewrite E. reflexivity.
Qed.
End OnTables.
