(* C08: comparison functors in the SSE/AVX2 builds.  eqmod / neqmod apply C++ == / != to __m128i / __m256i values; GCC's vector extension
   compares them as vectors of 64-bit lanes and yields all-ones / zero per LANE, whatever the limb width.  A lane of g = 64/w limbs is
   "equal" iff all its g limbs are.  The all-of / any-of scans over the stored limbs still decide whole-polynomial equality. *)
From Coq Require Import ZArith Lia List Arith Bool.
Import ListNotations.
Local Open Scope Z_scope.

Section V.
Variable g : nat.                       (* limbs per 64-bit lane: 1, 2 or 4 *)
Hypothesis Hg : (0 < g)%nat.
Variables x y : nat -> Z.               (* the stored limbs of the two operands *)
Variable n : nat.                       (* number of limbs scanned; a multiple of the vector width, hence of g *)
Hypothesis Hn : exists m, n = (m * g)%nat.
Variable ones : Z.  Hypothesis Hones : ones <> 0.

Definition lane_equal (i : nat) : bool := forallb (fun j => x j =? y j) (seq (g * (i / g)) g).
Definition veq (i : nat) : Z := if lane_equal i then ones else 0.        (* limb i of  (x == y)  *)
Definition vne (i : nat) : Z := if lane_equal i then 0 else ones.        (* limb i of  (x != y)  *)

Lemma in_own_lane i : In i (seq (g * (i / g)) g).
Proof. apply in_seq. pose proof (Nat.div_mod i g ltac:(lia)). pose proof (Nat.mod_upper_bound i g ltac:(lia)). lia. Qed.
Lemma lane_inside i j : (i < n)%nat -> In j (seq (g * (i / g)) g) -> (j < n)%nat.
Proof.
  intros Hi Hj. apply in_seq in Hj. destruct Hn as [m ->].
  assert (i / g < m)%nat by (apply Nat.div_lt_upper_bound; lia). nia.
Qed.

(* all-of scan of (x == y): every limb non-zero  <->  the operands are equal limb for limb *)
Theorem veq_all : (forall i, (i < n)%nat -> veq i <> 0) <-> (forall i, (i < n)%nat -> x i = y i).
Proof.
  split.
  - intros H i Hi. specialize (H i Hi). unfold veq in H. destruct (lane_equal i) eqn:E; [|congruence].
    unfold lane_equal in E. rewrite forallb_forall in E. apply Z.eqb_eq. apply E. apply in_own_lane.
  - intros H i Hi. unfold veq. replace (lane_equal i) with true; [exact Hones|]. symmetry. unfold lane_equal. apply forallb_forall.
    intros j Hj. apply Z.eqb_eq. apply H. apply (lane_inside i j Hi Hj).
Qed.

(* any-of scan of (x != y): some limb non-zero  <->  some limb differs *)
Theorem vne_any : (exists i, (i < n)%nat /\ vne i <> 0) <-> (exists i, (i < n)%nat /\ x i <> y i).
Proof.
  split.
  - intros [i [Hi H]]. unfold vne in H. destruct (lane_equal i) eqn:E; [congruence|].
    unfold lane_equal in E. apply not_true_iff_false in E. rewrite forallb_forall in E.
    assert (X : exists j, In j (seq (g * (i / g)) g) /\ x j <> y j).
    { clear - E. induction (seq (g * (i / g)) g) as [|a l IH].
      - exfalso. apply E. intros j [].
      - destruct (Z.eqb_spec (x a) (y a)) as [Ea|Ea].
        + destruct IH as [j [Hj Hd]].
          * intros Hall. apply E. intros j [<-|Hj]; [now apply Z.eqb_eq | now apply Hall].
          * exists j. split; [now right | exact Hd].
        + exists a. split; [now left | exact Ea]. }
    destruct X as [j [Hj Hd]]. exists j. split; [apply (lane_inside i j Hi Hj) | exact Hd].
  - intros [i [Hi Hd]]. exists i. split; [exact Hi|]. unfold vne. replace (lane_equal i) with false; [exact Hones|].
    symmetry. apply not_true_iff_false. unfold lane_equal. rewrite forallb_forall. intros H. apply Hd. apply Z.eqb_eq. apply H. apply in_own_lane.
Qed.

(* the two scans are complementary *)
Corollary veq_vne_complementary : (forall i, (i < n)%nat -> veq i <> 0) <-> ~ (exists i, (i < n)%nat /\ vne i <> 0).
Proof.
  rewrite veq_all, vne_any. split.
  - intros H [i [Hi Hd]]. apply Hd. now apply H.
  - intros H i Hi. destruct (Z.eq_dec (x i) (y i)); [assumption|]. exfalso. apply H. now exists i.
Qed.
End V.
Print Assumptions veq_vne_complementary.
