From Coq Require Import ZArith Lia List Bool.
Import ListNotations.
Local Open Scope Z_scope.

(* ---- C09/C12: the bounded sampler (amplifier 1) ---- *)
(* tmp = rnd & mask;  if (tmp >= 2B-1) tmp -= 2B-1;  stored = tmp >= B ? p + tmp - (2B-1) : tmp *)
Definition bnd_tmp (b B word : Z) : Z := let t := word mod 2 ^ b in if t >=? 2 * B - 1 then t - (2 * B - 1) else t.
Definition bnd_val (B tmp : Z) : Z := if tmp >=? B then tmp - (2 * B - 1) else tmp.            (* the signed integer meant *)
Definition bnd_store (p B tmp : Z) : Z := if tmp >=? B then p + tmp - (2 * B - 1) else tmp.     (* what is written for modulus p *)

Theorem bounded_consistent b B p word : 0 < b -> 1 <= B -> 2 ^ (b - 1) <= 2 * B - 1 < 2 ^ b -> B <= p ->
  let tmp := bnd_tmp b B word in let v := bnd_val B tmp in
  - (B - 1) <= v <= B - 1 /\ 0 <= bnd_store p B tmp < p /\ bnd_store p B tmp = v mod p.
Proof.
  intros Hb HB Hm Hp. unfold bnd_tmp, bnd_val, bnd_store.
  assert (E : 2 ^ b = 2 * 2 ^ (b - 1)) by (rewrite <- Z.pow_succ_r by lia; f_equal; lia).
  pose proof (Z.mod_pos_bound word (2 ^ b) ltac:(lia)) as Hw. set (t := word mod 2 ^ b) in *.
  destruct (Z.geb_spec t (2 * B - 1)).
  - destruct (Z.geb_spec (t - (2 * B - 1)) B); (split; [lia|]); (split; [lia|]).
    + apply (Z.mod_unique_pos _ p (-1)); lia.
    + symmetry. apply Z.mod_small. lia.
  - destruct (Z.geb_spec t B); (split; [lia|]); (split; [lia|]).
    + apply (Z.mod_unique_pos _ p (-1)); lia.
    + symmetry. apply Z.mod_small. lia.
Qed.

(* ---- C09/C12: the ternary sampler, all 256 thresholds x all 256 bytes (a finite domain: vm_compute is a proof) ---- *)
Definition zo_val (rho byte : Z) : Z := if byte <=? rho then (if Z.testbit byte 1 then 1 else -1) else 0.   (* repaired encoding *)
Definition bytes := map Z.of_nat (seq 0 256).
Definition cnt (f : Z -> bool) := Z.of_nat (length (filter f bytes)).
Definition zo_ok (rho : Z) : bool :=
  (cnt (fun y => negb (zo_val rho y =? 0)) =? rho + 1) &&
  (Z.abs (cnt (fun y => zo_val rho y =? 1) - cnt (fun y => zo_val rho y =? -1)) <=? 2).
Theorem ternary_all_rho : forallb zo_ok bytes = true /\
  cnt (fun y => zo_val 127 y =? 1) = cnt (fun y => zo_val 127 y =? -1).
Proof. split; vm_compute; reflexivity. Qed.
Corollary ternary_rho rho : In rho bytes -> zo_ok rho = true.
Proof. intros H. exact (proj1 (forallb_forall zo_ok bytes) (proj1 ternary_all_rho) rho H). Qed.

(* the pinned tree writes pm + (byte & 2) with pm = p - 1: the value p + 1 is not a canonical residue *)
Definition zo_store_pinned (p rho byte : Z) : Z := if byte <=? rho then (p - 1) + Z.land byte 2 else 0.
Theorem ternary_pinned_refuted p : 1 < p -> exists byte, 0 <= byte < 256 /\ ~ (zo_store_pinned p 255 byte < p).
Proof. intros Hp. exists 2. split; [lia|]. unfold zo_store_pinned. simpl. lia. Qed.
Print Assumptions bounded_consistent.
Print Assumptions ternary_rho.
