(* C01/C02: the twiddle tables as ONE array (omegas[cm] / invomegas[cm]) walked by pointer arithmetic: prep_wtab writes the levels one
   after the other, ntt_loop advances  wtab += N/2  after each layer, the fused layers read  wtab[1].  The level-indexed view used by
   the transform model (nth lvl (prep ...)) is that flat array at the offsets the code computes. *)
From Coq Require Import ZArith Lia List Arith.
From NTT Require Import Tables.
Import ListNotations.

Section Flat.
Variable p : Z.
Definition flat (k : nat) (om : Z) : list Z := concat (prep p k om).
(* the pointer after lvl iterations of `wtab += N/2`, N = degree >> w *)
Fixpoint off (k lvl : nat) : nat := match lvl with O => 0 | S l => off k l + 2 ^ (k - l - 1) end.

Lemma pows_length wv cnt cur : length (pows p wv cnt cur) = cnt.
Proof. revert cur; induction cnt; intros; simpl; auto. Qed.
Lemma prep_length k om : length (prep p k om) = k.
Proof. revert om; induction k; intros; simpl; auto. Qed.
Lemma level_length : forall k om lvl, (lvl < k)%nat -> length (nth lvl (prep p k om) []) = (2 ^ (k - lvl - 1))%nat.
Proof.
  induction k as [|k IH]; intros om lvl H; [lia|]. cbn [prep]. destruct lvl as [|lvl]; cbn [nth].
  - rewrite pows_length. f_equal. lia.
  - rewrite IH by lia. f_equal.
Qed.

Lemma off_closed k lvl : (lvl <= k)%nat -> (off k lvl + 2 ^ (k - lvl) = 2 ^ k)%nat.
Proof.
  induction lvl as [|l IH]; intros H; cbn [off]; [now rewrite Nat.sub_0_r|].
  specialize (IH ltac:(lia)). replace (k - l)%nat with (S (k - l - 1)) in IH by lia. rewrite Nat.pow_succ_r' in IH.
  replace (k - S l)%nat with (k - l - 1)%nat by lia. lia.
Qed.

(* reading entry i of level lvl = reading the flat array at the advanced pointer *)
Theorem flat_level : forall k om lvl i, (lvl < k)%nat -> (i < 2 ^ (k - lvl - 1))%nat ->
  nth (off k lvl + i) (flat k om) 0%Z = nth i (nth lvl (prep p k om) []) 0%Z.
Proof.
  unfold flat. induction k as [|k IH]; intros om lvl i Hl Hi; [lia|]. cbn [prep concat].
  destruct lvl as [|lvl].
  - cbn [off nth]. rewrite app_nth1; [reflexivity|]. rewrite pows_length. assert (Hk : (2 ^ (S k - 0 - 1) = 2 ^ k)%nat) by (f_equal; lia). lia.
  - cbn [nth].
    assert (E : off (S k) (S lvl) = (2 ^ k + off k lvl)%nat).
    { clear. induction lvl as [|l IHl]; [cbn [off]; replace (S k - 0 - 1)%nat with k by lia; lia|].
      change (off (S k) (S (S l))) with (off (S k) (S l) + 2 ^ (S k - S l - 1))%nat. rewrite IHl. cbn [off].
      replace (S k - S l - 1)%nat with (k - l - 1)%nat by lia. lia. }
    rewrite E. rewrite app_nth2 by (rewrite pows_length; lia). rewrite pows_length.
    replace (2 ^ k + off k lvl + i - 2 ^ k)%nat with (off k lvl + i)%nat by lia.
    apply IH; [lia|]. replace (k - lvl - 1)%nat with (S k - S lvl - 1)%nat by lia. exact Hi.
Qed.

(* the whole table fits the array: degree - 1 entries *)
Theorem flat_length k om : (length (flat k om) + 1 = 2 ^ k)%nat.
Proof.
  unfold flat. revert om. induction k as [|k IH]; intros om; [reflexivity|]. cbn [prep concat]. rewrite app_length, pows_length.
  specialize (IH ((om * om) mod p)%Z). rewrite Nat.pow_succ_r'. lia.
Qed.

(* wtab[1] read by the fused last two layers after J = k-2 advances *)
Corollary flat_fused_twiddle k2 om :
  nth (off (S (S k2)) k2 + 1) (flat (S (S k2)) om) 0%Z = nth 1 (nth k2 (prep p (S (S k2)) om) []) 0%Z.
Proof. apply flat_level; [lia|]. replace (S (S k2) - k2 - 1)%nat with 1%nat by lia. simpl. lia. Qed.
End Flat.
Print Assumptions flat_level.
