(* poly::operator bool() of the source (std::find_if over all stored words with the lambda v != 0, compared with end()): true exactly when
   some stored word is non-zero -- the conversion C08 speaks about, for a plain polynomial. *)
From Coq Require Import ZArith List Lia Bool.
From NTT Require Import CxxSem MemSem.
From NTT.gen Require Import GenLoop.
Import ListNotations.
Local Open Scope Z_scope.

Lemma find_from_spec pred : forall l i, 0 <= i -> let r := find_from pred l i in i <= r <= i + Z.of_nat (length l) /\ ((r =? i + Z.of_nat (length l)) = negb (existsb pred l)).
Proof.
  induction l as [|a l IH]; intros i Hi; cbn [find_from length existsb].
  - cbv zeta. split; [lia|]. replace (i + Z.of_nat 0) with i by lia. rewrite Z.eqb_refl. reflexivity.
  - destruct (pred a) eqn:E; cbv zeta.
    + split; [lia|]. cbn [orb negb]. apply Z.eqb_neq. lia.
    + destruct (IH (i + 1) ltac:(lia)) as [R1 R2]. cbv zeta in R1, R2. split; [lia|]. cbn [orb]. rewrite <- R2. f_equal. lia.
Qed.
Theorem poly_bool_ok (pred : Z -> bool) (n : Z) (data : list Z) : 0 <= n <= Z.of_nat (length data) ->
  bind (find_if pred data 0 n) (fun r_ => Some (negb (r_ =? n))) = Some (existsb pred (firstn (Z.to_nat n) data)).
Proof.
  intros Hn. unfold find_if. replace ((0 <=? 0) && (0 <=? n) && (n <=? Z.of_nat (length data))) with true by (symmetry; rewrite !andb_true_iff; repeat split; apply Z.leb_le; lia).
  cbn [bind Z.to_nat skipn]. rewrite Z.sub_0_r. f_equal.
  destruct (find_from_spec pred (firstn (Z.to_nat n) data) 0 ltac:(lia)) as [_ R]. cbv zeta in R. rewrite firstn_length in R.
  replace (0 + Z.of_nat (Nat.min (Z.to_nat n) (length data))) with n in R by lia. rewrite R. apply negb_involutive.
Qed.
Theorem source_poly_bool n nm data : (nm * n <= length data)%nat ->
  let any := Some (existsb (fun v => negb (v =? 0)) (firstn (nm * n) data)) in
  gen_poly_bool_u16 (Z.of_nat n) (Z.of_nat nm) data = any /\ gen_poly_bool_u32 (Z.of_nat n) (Z.of_nat nm) data = any /\ gen_poly_bool_u64 (Z.of_nat n) (Z.of_nat nm) data = any.
Proof.
  intros H any. unfold any. replace (nm * n)%nat with (Z.to_nat (Z.of_nat n * Z.of_nat nm)) by lia.
  repeat split; apply poly_bool_ok; lia.
Qed.
