(* Rebasing the translated bit-reversal permutation: a run of gen_permut that succeeds with destination y and source x at offset 0 succeeds
   with the destination inside py ++ y ++ sy at |py| and the source inside px ++ x ++ sx at |px|, writes the same words and leaves py, sy
   alone.  (core::inv_ntt is called by invntt_pow_invphi on row cm of _data.) *)
From Coq Require Import ZArith List Lia Bool.
From NTT Require Import CxxSem MemSem PermSem Rebase.
From NTT.gen Require Import GenPerm.
Import ListNotations.
Local Open Scope Z_scope.

Section PR.
Variables py sy px sx : list Z.
Notation Ly := (Z.of_nat (length py)).
Notation Lx := (Z.of_nat (length px)).

Lemma fold_none L x xo yo : fold_left (fun acc ri => bind acc (fun y => bind (ld x (xo + snd ri)) (fun v => st y (yo + fst ri) v))) L None = None.
Proof. induction L as [|ri L IH]; cbn [fold_left bind]; [reflexivity | exact IH]. Qed.

Lemma run_leaves_rb L : forall y x y', run_leaves L y 0 x 0 = Some y' -> run_leaves L (emb py sy y) Ly (emb px sx x) Lx = Some (emb py sy y').
Proof.
  unfold run_leaves. induction L as [|ri L IH]; intros y x y' H; cbn [fold_left bind] in H |- *.
  - injection H as <-. reflexivity.
  - rewrite Z.add_0_l in H. destruct (ld x (snd ri)) as [v|] eqn:E1; cbn [bind] in H; [|cbn [bind] in H; rewrite fold_none in H; discriminate H].
    rewrite (ld_rb px sx _ _ _ E1). cbn [bind]. rewrite Z.add_0_l in H.
    destruct (st y (fst ri) v) as [y1|] eqn:E2; [|cbn [bind] in H; rewrite fold_none in H; discriminate H].
    rewrite (st_rb py sy _ _ _ _ E2). apply IH. exact H.
Qed.

Lemma copy_rb degree Pt y x y' : gen_permut_copy degree Pt y 0 x 0 = Some y' -> gen_permut_copy degree Pt (emb py sy y) Ly (emb px sx x) Lx = Some (emb py sy y').
Proof.
  unfold gen_permut_copy. intros H.
  match type of H with bind ?e _ = _ => destruct e as [y1|] eqn:E1; [|cbn [bind] in H; discriminate H] end. cbn [bind] in H. injection H as <-.
  match goal with |- bind ?fu _ = _ => assert (Ex : fu = Some (emb py sy y1)) end.
  { eapply (for_up_rel (emb py sy)); [|exact E1]. intros i s s' Hs. cbv beta in Hs |- *.
    destruct (ld Pt i) as [pi|]; [|cbn [bind] in Hs; discriminate Hs]. cbn [bind] in Hs |- *. rewrite Z.add_0_l in Hs.
    destruct (ld x pi) as [v|] eqn:E2; [|cbn [bind] in Hs; discriminate Hs]. rewrite (ld_rb px sx _ _ _ E2). cbn [bind] in Hs |- *. rewrite Z.add_0_l in Hs.
    destruct (st s i v) as [s1|] eqn:E3; [|cbn [bind] in Hs; discriminate Hs]. rewrite (st_rb py sy _ _ _ _ E3). cbn [bind] in Hs |- *. injection Hs as <-. reflexivity. }
  rewrite Ex. reflexivity.
Qed.

Theorem permut_rb fuel degree y x y' : gen_permut fuel degree y 0 x 0 = Some y' -> gen_permut fuel degree (emb py sy y) Ly (emb px sx x) Lx = Some (emb py sy y').
Proof.
  unfold gen_permut. destruct (degree <=? 1024).
  - destruct (leaves_of gen_permut_leaves degree) as [L|]; [|cbn [bind]; discriminate]. cbn [bind]. apply run_leaves_rb.
  - match goal with |- bind ?e _ = _ -> _ => destruct e as [Pt|]; [|cbn [bind]; discriminate] end. cbn [bind]. apply copy_rb.
Qed.
End PR.
