(* The list setter translated from the source equals Setters.set_list, the model of C15, for the three limb types. *)
From Coq Require Import ZArith List Lia Bool Arith.
From NTT Require Import Setters CxxSem MemSem SetterSpec.
From NTT.gen Require Import GenLoop.
Import ListNotations.
Local Open Scope Z_scope.

Definition redk16 (v p : Z) : option Z := bind (chk 32 (v mod p)) (fun s => Some s).
Lemma setl_u16_shape : gen_set_list_u16 = setl_sh redk16 (fun c => uw 16 c). Proof. reflexivity. Qed.
Lemma setl_u32_shape : gen_set_list_u32 = setl_sh (fun v p => Some (v mod p)) (fun c => c). Proof. reflexivity. Qed.
Lemma setl_u64_shape : gen_set_list_u64 = setl_sh (fun v p => Some (v mod p)) (fun c => c). Proof. reflexivity. Qed.

Lemma redk16_ok v p : 0 <= v < 2 ^ 16 -> 0 < p < 2 ^ 16 -> redk16 v p = Some (v mod p).
Proof.
  intros Hv Hp. unfold redk16. pose proof (Z.mod_pos_bound v p ltac:(lia)). change (2 ^ 16) with 65536 in *.
  rewrite chk_ok by (change (2 ^ (32 - 1)) with 2147483648; lia). reflexivity.
Qed.

Section Inst.
Variables (n nm : nat) (P vals data0 : list Z) (f l : nat) (reduce : bool) (fuel : nat).
Hypothesis Hfl : (f <= l <= length vals)%nat.
Hypothesis Hd : length data0 = (nm * n)%nat.
Hypothesis Hsmall : Z.of_nat (nm * n) < 2 ^ 61.
Hypothesis Hn61 : Z.of_nat n < 2 ^ 61.
Hypothesis Hnm61 : Z.of_nat nm < 2 ^ 61.
Hypothesis Hl61 : Z.of_nat (length vals) < 2 ^ 61.
Hypothesis Hfuel : (n < fuel)%nat.
Hypothesis HPl : (nm <= length P)%nat.
Let out := set_list n nm (fun cm => nth cm P 0) reduce (firstn (l - f) (skipn f vals)) data0.
Let res (o : option SS) := option_map (fun s : SS => fst (fst s)) o.

Theorem source_set_list_u16 : Forall (fun p => 0 < p < 2 ^ 16) (firstn nm P) -> Forall (fun v => 0 <= v < 2 ^ 16) vals ->
  res (gen_set_list_u16 fuel (Z.of_nat n) data0 vals (Z.of_nat f) (Z.of_nat l) reduce (Z.of_nat nm) P) = out.
Proof.
  intros HP HV. rewrite setl_u16_shape. apply (setter_is_model 16); try assumption; try lia; [exact redk16_ok|].
  intros c Hc. apply uw_small. exact Hc.
Qed.
Theorem source_set_list_u32 : Forall (fun p => 0 < p < 2 ^ 32) (firstn nm P) -> Forall (fun v => 0 <= v < 2 ^ 32) vals ->
  res (gen_set_list_u32 fuel (Z.of_nat n) data0 vals (Z.of_nat f) (Z.of_nat l) reduce (Z.of_nat nm) P) = out.
Proof. intros HP HV. rewrite setl_u32_shape. apply (setter_is_model 32); try assumption; try lia; reflexivity. Qed.
Theorem source_set_list_u64 : Forall (fun p => 0 < p < 2 ^ 64) (firstn nm P) -> Forall (fun v => 0 <= v < 2 ^ 64) vals ->
  res (gen_set_list_u64 fuel (Z.of_nat n) data0 vals (Z.of_nat f) (Z.of_nat l) reduce (Z.of_nat nm) P) = out.
Proof. intros HP HV. rewrite setl_u64_shape. apply (setter_is_model 64); try assumption; try lia; reflexivity. Qed.
End Inst.
