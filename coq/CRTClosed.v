(* C04 closed over the generated tables: every non-empty prefix of a valid table is an admissible CRT basis. *)
From Coq Require Import ZArith Znumtheory Lia List Arith.
From NTT Require Import Layer CRT CRTExec NumTheoryMC TablesOK Shards C06Closed.
From NTT.gen Require Import Params.
Import ListNotations.
Local Open Scope Z_scope.

Definition Pcol (r : Z * Z * Z * Z) : Z := fst (fst (fst r)).
Definition basis (m : nat) (rows : list (Z * Z * Z * Z)) : list Z := map Pcol (firstn m rows).

Lemma basis_nth m rows i : (i < length (basis m rows))%nat -> nth i (basis m rows) 1 = Pcol (nth i rows (0,0,0,0)) /\ (i < length rows)%nat /\ (i < m)%nat.
Proof.
  unfold basis. rewrite map_length, firstn_length. intros Hi.
  rewrite (nth_indep _ 1 (Pcol (0,0,0,0))) by (rewrite map_length, firstn_length; exact Hi).
  rewrite map_nth. split; [|lia].
  rewrite nth_firstn. replace (i <? m)%nat with true by (symmetry; apply Nat.ltb_lt; lia). reflexivity.
Qed.

Theorem basis_admissible w bits maxdeg nmod rows m : 2 <= bits -> bits <= w -> table_valid w bits maxdeg nmod rows ->
  (forall i, (i < length (basis m rows))%nat -> 1 < nth i (basis m rows) 1 < 2 ^ w) /\
  (forall a b, (a < length (basis m rows))%nat -> (b < length (basis m rows))%nat -> a <> b -> rel_prime (nth a (basis m rows) 1) (nth b (basis m rows) 1)).
Proof.
  intros Hb Hbw T. split.
  - intros i Hi. destruct (basis_nth m rows i Hi) as (E & Hl & _). rewrite E.
    pose proof (tv_rows _ _ _ _ _ T _ (nth_In rows (0,0,0,0) Hl)) as V. destruct V as [Vp Vs _ _ _ _ _ _ _ _].
    apply prime_ge_2 in Vp. unfold Pcol. assert (2 ^ bits <= 2 ^ w) by (apply Z.pow_le_mono_r; lia). lia.
  - intros a b Ha Hb' Hab. destruct (basis_nth m rows a Ha) as (Ea & La & _). destruct (basis_nth m rows b Hb') as (Eb & Lb & _).
    rewrite Ea, Eb. apply (table_pairwise_coprime w bits maxdeg nmod rows T a b La Lb Hab).
Qed.

(* for every table generated on this run and every number m >= 1 of moduli in use: the lift of any canonical residue vector
   exists, lies in [0,Q) and is congruent to every residue *)
Theorem lift_tables :
  forall (wb : Z * Z * list (Z * Z * Z * Z)), In wb [(w16, bits16, rows16); (w32, bits32, rows32); (w64, bits64, rows64)] ->
  let '(w, bits, rows) := wb in
  forall m, basis m rows <> [] ->
  forall rs, length rs = length (basis m rows) -> (forall i, (i < length (basis m rows))%nat -> 0 <= nth i rs 0 < nth i (basis m rows) 1) ->
  exists x, poly2mpz_coef w (basis m rows) rs = Some x /\ 0 <= x < prod (basis m rows) /\
            forall j, (j < length (basis m rows))%nat -> x mod nth j (basis m rows) 1 = nth j rs 0.
Proof.
  destruct tables_valid as (T16 & T32 & T64).
  intros wb H. cbn [In] in H. destruct H as [<-|[<-|[<-|[]]]]; intros m Hne rs Hl Hr.
  - destruct (basis_admissible w16 bits16 maxdeg16 nmod16 rows16 m ltac:(vm_compute; discriminate) ltac:(vm_compute; discriminate) T16) as [A B].
    apply poly2mpz_total; auto. vm_compute; discriminate.
  - destruct (basis_admissible w32 bits32 maxdeg32 nmod32 rows32 m ltac:(vm_compute; discriminate) ltac:(vm_compute; discriminate) T32) as [A B].
    apply poly2mpz_total; auto. vm_compute; discriminate.
  - destruct (basis_admissible w64 bits64 maxdeg64 nmod64 rows64 m ltac:(vm_compute; discriminate) ltac:(vm_compute; discriminate) T64) as [A B].
    apply poly2mpz_total; auto. vm_compute; discriminate.
Qed.
Print Assumptions lift_tables.
