From Coq Require Import ZArith Lia List.
From NTT Require Import Functors.
Import ListNotations.
Local Open Scope Z_scope.

(* Lane-exact semantics of the few intrinsics used by addmod<uint32_t, simd::sse / avx2>; a vector is the
   list of its lanes (4 or 8 lanes of width w = 32; the proofs do not depend on the lane count). *)
Section Lanes.
Variable w : Z.
Hypothesis Hw : 1 < w.
Let B := 2 ^ w.
Definition sgn (x : Z) : Z := if x <? 2 ^ (w - 1) then x else x - B.          (* two's complement view of a lane *)
Fixpoint map2 (f : Z -> Z -> Z) (a b : list Z) : list Z :=
  match a, b with x :: a', y :: b' => f x y :: map2 f a' b' | _, _ => [] end.
Definition mm_set1 (n : nat) (v : Z) : list Z := repeat (v mod B) n.          (* _mm_set1_epi32 *)
Definition mm_add := map2 (fun x y => (x + y) mod B).                          (* _mm_add_epi32 *)
Definition mm_sub := map2 (fun x y => (x - y) mod B).                          (* _mm_sub_epi32 *)
Definition mm_and := map2 Z.land.                                              (* _mm_and_si128 *)
Definition mm_cmpgt := map2 (fun x y => if sgn x >? sgn y then B - 1 else 0).  (* _mm_cmpgt_epi32: signed, all-ones / zero *)

(* addmod<uint32_t, simd::sse>::operator() *)
Definition addmod_vec (p : Z) (x y : list Z) : list Z :=
  let n := length x in
  let sse_p := mm_set1 n p in
  let sse_pc := mm_set1 n (p - 2 ^ (w - 1) - 1) in
  let sse_80 := mm_set1 n (2 ^ (w - 1)) in
  let z := mm_add x y in
  let cmp := mm_cmpgt (mm_sub z sse_80) sse_pc in
  mm_sub z (mm_and cmp sse_p).

Lemma B_split : B = 2 * 2 ^ (w - 1).
Proof. unfold B. rewrite <- Z.pow_succ_r by lia. f_equal. lia. Qed.

(* the unsigned comparison z >= p done with a signed compare after flipping the top bit *)
Lemma cmp_trick p z : 0 < p < B -> 0 <= z < B ->
  (sgn ((z - 2 ^ (w - 1)) mod B) >? sgn ((p - 2 ^ (w - 1) - 1) mod B)) = (z >=? p).
Proof.
  intros Hp Hz. pose proof B_split as E. assert (P : 0 < 2 ^ (w - 1)) by (apply Z.pow_pos_nonneg; lia).
  assert (S1 : sgn ((z - 2 ^ (w - 1)) mod B) = z - 2 ^ (w - 1)).
  { unfold sgn. destruct (Z.ltb_spec z (2 ^ (w - 1))).
    - replace ((z - 2 ^ (w - 1)) mod B) with (z - 2 ^ (w - 1) + B) by (apply (Z.mod_unique_pos _ B (-1)); lia).
      destruct (Z.ltb_spec (z - 2 ^ (w - 1) + B) (2 ^ (w - 1))); lia.
    - rewrite Z.mod_small by lia. destruct (Z.ltb_spec (z - 2 ^ (w - 1)) (2 ^ (w - 1))); lia. }
  assert (S2 : sgn ((p - 2 ^ (w - 1) - 1) mod B) = p - 1 - 2 ^ (w - 1)).
  { unfold sgn. destruct (Z.ltb_spec (p - 1) (2 ^ (w - 1))).
    - replace ((p - 2 ^ (w - 1) - 1) mod B) with (p - 2 ^ (w - 1) - 1 + B) by (apply (Z.mod_unique_pos _ B (-1)); lia).
      destruct (Z.ltb_spec (p - 2 ^ (w - 1) - 1 + B) (2 ^ (w - 1))); lia.
    - rewrite Z.mod_small by lia. destruct (Z.ltb_spec (p - 2 ^ (w - 1) - 1) (2 ^ (w - 1))); lia. }
  rewrite S1, S2. destruct (Z.gtb_spec (z - 2 ^ (w - 1)) (p - 1 - 2 ^ (w - 1))); destruct (Z.geb_spec z p); lia.
Qed.

Lemma land_ones x : 0 <= x < B -> Z.land (B - 1) x = x.
Proof. intros Hx. replace (B - 1) with (Z.ones w) by (rewrite Z.ones_equiv; unfold B; lia).
  rewrite Z.land_comm, Z.land_ones by lia. apply Z.mod_small. exact Hx. Qed.

(* every lane of the vector kernel computes the scalar functor of Appendix D *)
Theorem addmod_vec_lanes p : 0 < p -> 2 * p <= B -> forall x y, length x = length y ->
  Forall (fun v => 0 <= v < p) x -> Forall (fun v => 0 <= v < p) y ->
  addmod_vec p x y = map2 (addmod w p) x y.
Proof.
  intros Hp HB. unfold addmod_vec.
  assert (G : forall n x y, length x = length y -> (length x <= n)%nat ->
     Forall (fun v => 0 <= v < p) x -> Forall (fun v => 0 <= v < p) y ->
     mm_sub (mm_add x y) (mm_and (mm_cmpgt (mm_sub (mm_add x y) (firstn (length x) (mm_set1 n (2 ^ (w - 1)))))
                                           (firstn (length x) (mm_set1 n (p - 2 ^ (w - 1) - 1))))
                                 (firstn (length x) (mm_set1 n p))) = map2 (addmod w p) x y).
  { induction n as [|n IH]; intros x y L Ln Fx Fy.
    - destruct x; simpl in Ln; [|lia]. destruct y; [reflexivity | discriminate].
    - destruct x as [|a x], y as [|b y]; try discriminate; [reflexivity|].
      inversion Fx; subst. inversion Fy; subst. simpl in L, Ln.
      unfold mm_set1. cbn [repeat length firstn mm_add mm_sub mm_and mm_cmpgt map2].
      f_equal.
      + (* one lane *)
        pose proof B_split as E. assert (P : 0 < 2 ^ (w - 1)) by (apply Z.pow_pos_nonneg; lia).
        fold B. rewrite (Z.mod_small (2 ^ (w - 1)) B) by lia. rewrite (Z.mod_small p B) by lia.
        rewrite (Z.mod_small (a + b) B) by lia.
        rewrite cmp_trick by lia. unfold addmod, wr. fold B. rewrite (Z.mod_small (a + b) B) by lia.
        destruct (Z.geb_spec (a + b) p).
        * rewrite land_ones by lia. reflexivity.
        * rewrite Z.land_0_l. reflexivity.
      + apply (IH x y); auto; lia. }
  intros x y L Fx Fy. specialize (G (length x) x y L ltac:(lia) Fx Fy).
  unfold mm_set1 in *. rewrite !firstn_all2 in G by (rewrite repeat_length; lia). exact G.
Qed.
End Lanes.
Print Assumptions addmod_vec_lanes.
