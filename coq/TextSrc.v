(* operator<<(std::ostream&, poly const&) READ FROM THE SOURCE (gen/GenText.v) appends exactly Text.print: "{ ", the stored words in order in decimal,
   each followed by the limb-width suffix ("U", "UL", "ULL" for 16-, 32-, 64-bit limbs), separated by ", ", and " }" -- the form Text.parse reads
   back (C16_text_parses_back). *)
From Coq Require Import NArith List Lia Bool.
From NTT Require Import Text.
From NTT.gen Require Import GenText.
Import ListNotations.
Local Open Scope N_scope.

Lemma fold_print (term : list N) : forall data first outs,
  fold_left (fun (st_ : bool * list N) (v : N) => let '(first, outs) := st_ in let '(first0, outs0) := if first then (false, outs ++ dec v) else (first, ((outs ++ term) ++ [44; 32]) ++ dec v) in (first0, outs0)) data (first, outs)
  = (first && (match data with [] => true | _ => false end), outs ++ loop term first data).
Proof.
  induction data as [|v r IH]; intros first outs; cbn [fold_left loop]; [rewrite andb_true_r, app_nil_r; reflexivity|].
  destruct first.
  - rewrite IH. cbn [andb]. rewrite <- app_assoc. reflexivity.
  - rewrite IH. cbn [andb]. rewrite <- !app_assoc. reflexivity.
Qed.
Lemma print_shape term data :
  (let outs := @nil N in let first := true in let outs := outs ++ [123; 32] in
   let '(first, outs) := fold_left (fun (st_ : bool * list N) (v : N) => let '(first, outs) := st_ in let '(first0, outs0) := if first then (false, outs ++ dec v) else (first, ((outs ++ term) ++ [44; 32]) ++ dec v) in (first0, outs0)) data (first, outs) in
   (outs ++ term) ++ [32; 125]) = print term data.
Proof. cbv zeta. rewrite fold_print. unfold print. cbn [app]. rewrite <- !app_assoc. reflexivity. Qed.

Theorem source_print : (forall data, gen_print_u16 data = print [85] data) /\ (forall data, gen_print_u32 data = print [85; 76] data) /\ (forall data, gen_print_u64 data = print [85; 76; 76] data).
Proof. split; [|split]; intros data; [unfold gen_print_u16 | unfold gen_print_u32 | unfold gen_print_u64]; cbv zeta; rewrite fold_print; unfold print; cbn [app]; rewrite <- !app_assoc; reflexivity. Qed.

(* hence the printed form parses back to the stored words *)
Theorem source_print_parses_back : forall ws, ws <> [] ->
  parse [85] (gen_print_u16 ws) = Some ws /\ parse [85; 76] (gen_print_u32 ws) = Some ws /\ parse [85; 76; 76] (gen_print_u64 ws) = Some ws.
Proof.
  intros ws H. destruct source_print as (A & B & C). rewrite A, B, C.
  repeat split; apply parse_print; try assumption; eexists; reflexivity.
Qed.
Example source_print_example : gen_print_u32 [0; 42; 1073479681] = [123; 32; 48; 85; 76; 44; 32; 52; 50; 85; 76; 44; 32; 49; 48; 55; 51; 52; 55; 57; 54; 56; 49; 85; 76; 32; 125].
Proof. vm_compute. reflexivity. Qed.
