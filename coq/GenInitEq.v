From Coq Require Import ZArith List Lia Bool Arith.
From NTT Require Import CxxSem MemSem InitSpec.
From NTT.gen Require Import Gen GenLoop.
Local Open Scope Z_scope.
Definition mmc16 (P Pn : list Z) (cm a b : Z) := gen_mulmod_u16 (tabP P cm) a b.
Definition mmc32 (P Pn : list Z) (cm a b : Z) := gen_mulmod_u32 (tabP P cm) a b.
Definition mmc64 (P Pn : list Z) (cm a b : Z) := gen_mulmod_u64 (tabP P cm) (tabP Pn cm) a b.
Definition prepc16 (P Pn : list Z) fuel degree arr o1 o2 w cm := gen_prep_wtab1_u16 fuel degree arr o1 o2 w cm (tabP P cm).
Definition prepc32 (P Pn : list Z) fuel degree arr o1 o2 w cm := gen_prep_wtab1_u32 fuel degree arr o1 o2 w cm (tabP P cm).
Definition prepc64 (P Pn : list Z) fuel degree arr o1 o2 w cm := gen_prep_wtab1_u64 fuel degree arr o1 o2 w cm (tabP P cm) (tabP Pn cm).
Lemma init_u16_shape fuel degree om iom ph sph ipd ipi sipi nm roots P invk : gen_initialize_u16 fuel degree om iom ph sph ipd ipi sipi nm roots P invk = init_sh 16 9 512 (fun v => uw 16 v) mmc16 prepc16 fuel degree om iom ph sph ipd ipi sipi nm roots P nil invk.
Proof. reflexivity. Qed.
Lemma init_u32_shape fuel degree om iom ph sph ipd ipi sipi nm roots P invk : gen_initialize_u32 fuel degree om iom ph sph ipd ipi sipi nm roots P invk = init_sh 32 15 32768 (fun v => uw 32 v) mmc32 prepc32 fuel degree om iom ph sph ipd ipi sipi nm roots P nil invk.
Proof. reflexivity. Qed.
Lemma init_u64_shape fuel degree om iom ph sph ipd ipi sipi nm roots P Pn invk : gen_initialize_u64 fuel degree om iom ph sph ipd ipi sipi nm roots P Pn invk = init_sh 64 20 1048576 (fun v => v) mmc64 prepc64 fuel degree om iom ph sph ipd ipi sipi nm roots P Pn invk.
Proof. reflexivity. Qed.

From NTT Require Import Functors ScalarOps Tables FlatTable NTTInst PrepSpec PrepSpec1 GenEq LoopRun.
Import ListNotations.

Lemma prep1_u16_shape : gen_prep_wtab1_u16 = prep1_sh 16 gen_mulmod_u16. Proof. reflexivity. Qed.
Lemma prep1_u32_shape : gen_prep_wtab1_u32 = prep1_sh 32 gen_mulmod_u32. Proof. reflexivity. Qed.
Lemma prep1_u64_shape : gen_prep_wtab1_u64 = fun fuel degree a ao bo w cm p pn => prep1_sh 64 (fun p' x y => gen_mulmod_u64 p' pn x y) fuel degree a ao bo w cm p. Proof. reflexivity. Qed.

(* the statement for one limb type: after initialize() every row of every table is the model's (NTTInst) table of its modulus *)
Definition init_statement (bits : Z) (K : nat) (rowok : nat -> Prop)
  (run : nat -> Z -> list Z -> list Z -> list Z -> list Z -> list Z -> list Z -> list Z -> Z -> option StI) (P roots invk : list Z) : Prop :=
  forall (k0 nm fuel : nat) (ph0 sph0 ipd0 ipi0 sipi0 om0 iom0 : list Z), let n := (2 ^ S k0)%nat in
  (S k0 <= K)%nat -> (S k0 < fuel)%nat -> Z.of_nat nm < 2 ^ 28 -> (forall cm, (cm < nm)%nat -> rowok cm) ->
  length ph0 = (nm * n)%nat -> length sph0 = (nm * n)%nat -> length ipd0 = nm -> length ipi0 = (nm * n)%nat -> length sipi0 = (nm * n)%nat ->
  length om0 = (nm * (n * 2))%nat -> length iom0 = (nm * (n * 2))%nat ->
  exists ph sph ipd ipi sipi om iom, run fuel (Z.of_nat n) om0 iom0 ph0 sph0 ipd0 ipi0 sipi0 (Z.of_nat nm) = Some (ph, sph, ipd, ipi, sipi, om, iom) /\
  (length ph = (nm * n)%nat /\ length sph = (nm * n)%nat /\ length ipd = nm /\ length ipi = (nm * n)%nat /\ length sipi = (nm * n)%nat /\ length om = (nm * (n * 2))%nat /\ length iom = (nm * (n * 2))%nat) /\
  forall c, (c < nm)%nat -> let p := nth c P 0 in let g := nth c roots 0 in let ik := nth c invk 0 in let sh := map (shoup bits p) in
    nth c ipd 0 = ninv p ik K k0 /\
    (forall i, (i < n)%nat -> nth (c * n + i) ph 0 = nth i (phis p g K k0) 0 /\ nth (c * n + i) sph 0 = nth i (sh (phis p g K k0)) 0 /\
                              nth (c * n + i) ipi 0 = nth i (cs p g ik K k0) 0 /\ nth (c * n + i) sipi 0 = nth i (sh (cs p g ik K k0)) 0) /\
    (forall i, (i < n - 1)%nat -> nth (c * (n * 2) + i) om 0 = nth i (flat p (S k0) (omega p g K k0)) 0 /\ nth (c * (n * 2) + n + i) om 0 = nth i (sh (flat p (S k0) (omega p g K k0))) 0 /\
                                  nth (c * (n * 2) + i) iom 0 = nth i (flat p (S k0) (invomega p g K k0)) 0 /\ nth (c * (n * 2) + n + i) iom 0 = nth i (sh (flat p (S k0) (invomega p g K k0))) 0).

Section Any.
Variable bits : Z.
Hypothesis Hbits : 0 < bits.
Variable K : nat.
Hypothesis HK : (K <= 30)%nat.
Variable castw : Z -> Z.
Hypothesis Hcast : forall v, 0 <= v < 2 ^ bits -> castw v = v.
Variable mmc : list Z -> list Z -> Z -> Z -> Z -> option Z.
Variable prepc : list Z -> list Z -> nat -> Z -> list Z -> Z -> Z -> Z -> Z -> option (list Z * Z * Z).
Variables (P Pn roots invk : list Z).
Variable rowok : nat -> Prop.
Hypothesis Rp : forall cm, rowok cm -> 2 ^ Z.of_nat K < nth cm P 0 < 2 ^ bits.
Hypothesis Rg : forall cm, rowok cm -> 0 <= nth cm roots 0 < nth cm P 0.
Hypothesis Rik : forall cm, rowok cm -> 0 <= nth cm invk 0 < nth cm P 0.
Hypothesis Rmm : forall cm x y, rowok cm -> 0 <= x < nth cm P 0 -> 0 <= y < nth cm P 0 -> mmc P Pn (Z.of_nat cm) x y = Some ((x * y) mod nth cm P 0).
Hypothesis Rprep : forall cm k fuel H A0 B0 w0, rowok cm -> (k <= 30)%nat -> (k < fuel)%nat -> (2 ^ k - 1 <= length A0)%nat -> (2 ^ k - 1 <= length B0)%nat -> Z.of_nat (length H + length A0 + length B0) < 2 ^ 62 -> 0 <= w0 < nth cm P 0 ->
  exists o1 o2, prepc P Pn fuel (Z.of_nat (2 ^ k)) (H ++ A0 ++ B0) (Z.of_nat (length H)) (Z.of_nat (length H + length A0)) w0 (Z.of_nat cm) =
  Some ((H ++ flat (nth cm P 0) k w0) ++ skipn (2 ^ k - 1) A0 ++ map (shoup bits (nth cm P 0)) (flat (nth cm P 0) k w0) ++ skipn (2 ^ k - 1) B0, o1, o2).

Theorem init_any : init_statement bits K rowok (fun fuel degree om iom ph sph ipd ipi sipi nm => init_sh bits (Z.of_nat K) (2 ^ Z.of_nat K) castw mmc prepc fuel degree om iom ph sph ipd ipi sipi nm roots P Pn invk) P roots invk.
Proof.
  intros k0 nm fuel ph0 sph0 ipd0 ipi0 sipi0 om0 iom0 n HkK Hfu Hnm Hrows L1 L2 L3 L4 L5 L6 L7.
  assert (A1 : forall cm, (cm < nm)%nat -> 2 ^ Z.of_nat K < nth cm P 0 < 2 ^ bits) by (intros; apply Rp; auto).
  assert (A2 : forall cm, (cm < nm)%nat -> 0 <= nth cm roots 0 < nth cm P 0) by (intros; apply Rg; auto).
  assert (A3 : forall cm, (cm < nm)%nat -> 0 <= nth cm invk 0 < nth cm P 0) by (intros; apply Rik; auto).
  assert (A4 : forall cm x y, (cm < nm)%nat -> 0 <= x < nth cm P 0 -> 0 <= y < nth cm P 0 -> mmc P Pn (Z.of_nat cm) x y = Some ((x * y) mod nth cm P 0)) by (intros; apply Rmm; auto).
  assert (A5 : forall cm fuel H A0 B0 w0, (cm < nm)%nat -> (S k0 < fuel)%nat -> (2 ^ S k0 - 1 <= length A0)%nat -> (2 ^ S k0 - 1 <= length B0)%nat -> Z.of_nat (length H + length A0 + length B0) < 2 ^ 62 -> 0 <= w0 < nth cm P 0 ->
     exists o1 o2, prepc P Pn fuel (Z.of_nat (2 ^ S k0)) (H ++ A0 ++ B0) (Z.of_nat (length H)) (Z.of_nat (length H + length A0)) w0 (Z.of_nat cm) =
       Some ((H ++ flat (nth cm P 0) (S k0) w0) ++ skipn (2 ^ S k0 - 1) A0 ++ map (shoup bits (nth cm P 0)) (flat (nth cm P 0) (S k0) w0) ++ skipn (2 ^ S k0 - 1) B0, o1, o2)).
  { intros cm fu H A0 B0 w0 Hc Hf HA HB Hs Hw. apply Rprep; auto. lia. }
  destruct (init_all bits Hbits K castw Hcast mmc prepc k0 HkK HK nm P Pn roots invk A1 A2 A3 A4 A5 fuel Hfu ph0 sph0 ipd0 ipi0 sipi0 om0 iom0 L1 L2 L3 L4 L5 L6 L7 Hnm)
    as (ph & sph & ipd & ipi & sipi & om & iom & E & Lens & Rows).
  exists ph, sph, ipd, ipi, sipi, om, iom. split; [exact E|]. split; [exact Lens|]. intros c Hc p g ik sh. exact (Rows c Hc).
Qed.
End Any.

(* ---- the three limb types ---- *)
Definition rowok16 (P roots invk : list Z) (cm : nat) : Prop := Hrow 16 (nth cm P 0) /\ 0 <= nth cm roots 0 < nth cm P 0 /\ 0 <= nth cm invk 0 < nth cm P 0.
Definition rowok32 (P roots invk : list Z) (cm : nat) : Prop := Hrow 32 (nth cm P 0) /\ 0 <= nth cm roots 0 < nth cm P 0 /\ 0 <= nth cm invk 0 < nth cm P 0.
Definition rowok64 (P Pn roots invk : list Z) (cm : nat) : Prop := Hrow64 (nth cm P 0) (nth cm Pn 0) /\ 0 <= nth cm roots 0 < nth cm P 0 /\ 0 <= nth cm invk 0 < nth cm P 0.

Theorem source_initialize_u32 P roots invk : init_statement 32 15 (rowok32 P roots invk) (fun fuel degree om iom ph sph ipd ipi sipi nm => gen_initialize_u32 fuel degree om iom ph sph ipd ipi sipi nm roots P invk) P roots invk.
Proof.
  assert (G : init_statement 32 15 (rowok32 P roots invk) (fun fuel degree om iom ph sph ipd ipi sipi nm => init_sh 32 (Z.of_nat 15) (2 ^ Z.of_nat 15) (fun v => uw 32 v) mmc32 prepc32 fuel degree om iom ph sph ipd ipi sipi nm roots P nil invk) P roots invk).
  { apply (init_any 32 ltac:(lia) 15 ltac:(lia) (fun v => uw 32 v) ltac:(intros v Hv; apply uw_small; exact Hv) mmc32 prepc32 P nil roots invk (rowok32 P roots invk)).
    - intros cm (H & _ & _). destruct H as (_ & Hlo & Hhi). change (2 ^ (32 - 3)) with 536870912 in Hlo. change (2 ^ (32 - 2)) with 1073741824 in Hhi. change (2 ^ Z.of_nat 15) with 32768. change (2 ^ 32) with 4294967296. lia.
    - intros cm (_ & H & _). exact H.
    - intros cm (_ & _ & H). exact H.
    - intros cm x y (H & _ & _) Hx Hy. unfold mmc32, tabP. rewrite Nat2Z.id. destruct (Hrow_facts 32 _ H) as (Hp & H4 & _ & H2 & HpB). rewrite gen_mulmod32. f_equal. apply mulmod_gen_correct; assumption.
    - intros cm k fuel H A0 B0 w0 (Hr & _ & _) Hk Hf HA HB Hs Hw. unfold prepc32, tabP. rewrite Nat2Z.id. rewrite prep1_u32_shape.
      destruct (Hrow_facts 32 _ Hr) as (Hp & H4 & _ & H2 & HpB).
      assert (P1 : 1 < nth cm P 0) by (destruct Hr as (_ & Hlo & _); change (2 ^ (32 - 3)) with 536870912 in Hlo; lia).
      eexists; eexists. apply (prep1_ok 32 ltac:(lia) (nth cm P 0) P1 HpB gen_mulmod_u32); try assumption.
      intros x y Hx Hy. rewrite gen_mulmod32. f_equal. apply mulmod_gen_correct; assumption. }
  intros k0 nm fuel ph0 sph0 ipd0 ipi0 sipi0 om0 iom0 n. specialize (G k0 nm fuel ph0 sph0 ipd0 ipi0 sipi0 om0 iom0). cbv zeta in G. cbv beta in G. cbv zeta beta.
  intros. destruct G as (ph & sph & ipd & ipi & sipi & om & iom & E & Rows); try assumption.
  exists ph, sph, ipd, ipi, sipi, om, iom. split; [rewrite init_u32_shape; exact E | exact Rows].
Qed.
Theorem source_initialize_u16 P roots invk : init_statement 16 9 (rowok16 P roots invk) (fun fuel degree om iom ph sph ipd ipi sipi nm => gen_initialize_u16 fuel degree om iom ph sph ipd ipi sipi nm roots P invk) P roots invk.
Proof.
  assert (G : init_statement 16 9 (rowok16 P roots invk) (fun fuel degree om iom ph sph ipd ipi sipi nm => init_sh 16 (Z.of_nat 9) (2 ^ Z.of_nat 9) (fun v => uw 16 v) mmc16 prepc16 fuel degree om iom ph sph ipd ipi sipi nm roots P nil invk) P roots invk).
  { apply (init_any 16 ltac:(lia) 9 ltac:(lia) (fun v => uw 16 v) ltac:(intros v Hv; apply uw_small; exact Hv) mmc16 prepc16 P nil roots invk (rowok16 P roots invk)).
    - intros cm (H & _ & _). destruct H as (_ & Hlo & Hhi). change (2 ^ (16 - 3)) with 8192 in Hlo. change (2 ^ (16 - 2)) with 16384 in Hhi. change (2 ^ Z.of_nat 9) with 512. change (2 ^ 16) with 65536. lia.
    - intros cm (_ & H & _). exact H.
    - intros cm (_ & _ & H). exact H.
    - intros cm x y (H & _ & _) Hx Hy. unfold mmc16, tabP. rewrite Nat2Z.id. destruct (Hrow_facts 16 _ H) as (Hp & H4 & _ & H2 & HpB). rewrite gen_mulmod16. f_equal. apply mulmod_gen_correct; assumption.
    - intros cm k fuel H A0 B0 w0 (Hr & _ & _) Hk Hf HA HB Hs Hw. unfold prepc16, tabP. rewrite Nat2Z.id. rewrite prep1_u16_shape.
      destruct (Hrow_facts 16 _ Hr) as (Hp & H4 & _ & H2 & HpB).
      assert (P1 : 1 < nth cm P 0) by (destruct Hr as (_ & Hlo & _); change (2 ^ (16 - 3)) with 8192 in Hlo; lia).
      eexists; eexists. apply (prep1_ok 16 ltac:(lia) (nth cm P 0) P1 HpB gen_mulmod_u16); try assumption.
      intros x y Hx Hy. rewrite gen_mulmod16. f_equal. apply mulmod_gen_correct; assumption. }
  intros k0 nm fuel ph0 sph0 ipd0 ipi0 sipi0 om0 iom0 n. specialize (G k0 nm fuel ph0 sph0 ipd0 ipi0 sipi0 om0 iom0). cbv zeta in G. cbv beta in G. cbv zeta beta.
  intros. destruct G as (ph & sph & ipd & ipi & sipi & om & iom & E & Rows); try assumption.
  exists ph, sph, ipd, ipi, sipi, om, iom. split; [rewrite init_u16_shape; exact E | exact Rows].
Qed.
Theorem source_initialize_u64 P Pn roots invk : init_statement 64 20 (rowok64 P Pn roots invk) (fun fuel degree om iom ph sph ipd ipi sipi nm => gen_initialize_u64 fuel degree om iom ph sph ipd ipi sipi nm roots P Pn invk) P roots invk.
Proof.
  assert (G : init_statement 64 20 (rowok64 P Pn roots invk) (fun fuel degree om iom ph sph ipd ipi sipi nm => init_sh 64 (Z.of_nat 20) (2 ^ Z.of_nat 20) (fun v => v) mmc64 prepc64 fuel degree om iom ph sph ipd ipi sipi nm roots P Pn invk) P roots invk).
  { apply (init_any 64 ltac:(lia) 20 ltac:(lia) (fun v => v) ltac:(reflexivity) mmc64 prepc64 P Pn roots invk (rowok64 P Pn roots invk)).
    - intros cm (H & _ & _). destruct H as (Hp & _ & _). change (2 ^ 61) with 2305843009213693952 in Hp. change (2 ^ 62) with 4611686018427387904 in Hp. change (2 ^ Z.of_nat 20) with 1048576. change (2 ^ 64) with 18446744073709551616. lia.
    - intros cm (_ & H & _). exact H.
    - intros cm (_ & _ & H). exact H.
    - intros cm x y (H & _ & _) Hx Hy. unfold mmc64, tabP. rewrite Nat2Z.id. rewrite gen_mulmod64. f_equal. destruct H as (Hp & Hpn & Hpn'). apply mulmod64_correct; assumption.
    - intros cm k fuel H A0 B0 w0 (Hr & _ & _) Hk Hf HA HB Hs Hw. unfold prepc64, tabP. rewrite Nat2Z.id. rewrite prep1_u64_shape.
      assert (Hp := Hr). destruct Hp as (Hp & _ & _).
      assert (P1 : 1 < nth cm P 0) by (change (2 ^ 61) with 2305843009213693952 in Hp; lia).
      assert (HpB : nth cm P 0 < 2 ^ 64) by (change (2 ^ 62) with 4611686018427387904 in Hp; change (2 ^ 64) with 18446744073709551616; lia).
      eexists; eexists. apply (prep1_ok 64 ltac:(lia) (nth cm P 0) P1 HpB (fun p' x y => gen_mulmod_u64 p' (nth cm Pn 0) x y)); try assumption.
      intros x y Hx Hy. rewrite gen_mulmod64. f_equal. destruct Hr as (Hp' & Hpn & Hpn'). apply mulmod64_correct; assumption. }
  intros k0 nm fuel ph0 sph0 ipd0 ipi0 sipi0 om0 iom0 n. specialize (G k0 nm fuel ph0 sph0 ipd0 ipi0 sipi0 om0 iom0). cbv zeta in G. cbv beta in G. cbv zeta beta.
  intros. destruct G as (ph & sph & ipd & ipi & sipi & om & iom & E & Rows); try assumption.
  exists ph, sph, ipd, ipi, sipi, om, iom. split; [rewrite init_u64_shape; exact E | exact Rows].
Qed.
