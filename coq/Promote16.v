(* C03: the 16-bit functors as C++ evaluates them -- operands promoted to (32-bit signed) int, unsigned 32-bit arithmetic where a
   cast to the greater type is written, the result truncated when stored into uint16_t.  Signed overflow is undefined behaviour:
   the promoted model returns None there.  Theorem: under the table-row hypothesis the promoted computation never overflows and
   returns exactly the word of the limb-width model (Functors.v at w = 16), for every 16-bit x and canonical y / twiddle. *)
From Coq Require Import ZArith Lia.
From NTT Require Import Functors ScalarOps.
Local Open Scope Z_scope.

Definition int_ok (v : Z) : bool := (- 2 ^ 31 <=? v) && (v <? 2 ^ 31).
Definition bindi (v : Z) (k : Z -> option Z) : option Z := if int_ok v then k v else None.       (* an int-typed subexpression *)
Definition u16 (v : Z) : Z := v mod 2 ^ 16.                                                        (* store into uint16_t *)
Definition u32 (v : Z) : Z := v mod 2 ^ 32.                                                        (* unsigned 32-bit arithmetic *)

(* addmod<uint16_t>:  const T z = x + y;  return z - ((z >= p) ? p : 0); *)
Definition addmod16 (p x y : Z) : option Z :=
  bindi (x + y) (fun s => let z := u16 s in bindi (z - (if z >=? p then p else 0)) (fun r => Some (u16 r))).
(* submod<uint16_t>:  addmod(x, static_cast<T>(p - y)) *)
Definition submod16 (p x y : Z) : option Z := bindi (p - y) (fun d => addmod16 p x (u16 d)).
(* mulmod_shoup<uint16_t>:  T q = ((uint32_t) x * yprime) >> 16;  uint32_t res = x * y - q * p;  return res - ((res >= p) ? p : 0); *)
Definition mulmod_shoup16 (p x y y' : Z) : option Z :=
  let q := u16 (u32 (x * y') / 2 ^ 16) in
  bindi (x * y) (fun a => bindi (q * p) (fun b => bindi (a - b) (fun d =>
    let res := u32 d in Some (u16 (u32 (res - (if res >=? p then p else 0))))))).
(* the butterfly of ntt_loop_body<serial, uint16_t> *)
Definition bfly16 (p wt wt' a b : Z) : option (Z * Z) :=
  match bindi (a + b) (fun s => let t0 := u16 s in bindi (2 * p) (fun pp => bindi (t0 - (if t0 >=? pp then pp else 0)) (fun r => Some (u16 r)))) with
  | None => None
  | Some s =>
      match bindi (a - b) (fun d => bindi (2 * p) (fun pp => bindi (d + pp) (fun t => Some (u16 t)))) with
      | None => None
      | Some t1 =>
          let q := u16 (u32 (t1 * wt') / 2 ^ 16) in
          match bindi (t1 * wt) (fun m1 => bindi (q * p) (fun m2 => bindi (m1 - m2) (fun d => Some (u16 d)))) with
          | None => None
          | Some d => Some (s, d)
          end
      end
  end.

Ltac ok := match goal with |- context [int_ok ?v] => replace (int_ok v) with true by (symmetry; unfold int_ok; apply andb_true_intro; split; [apply Z.leb_le | apply Z.ltb_lt]; lia) end.

Lemma bindi_ok v k : - 2 ^ 31 <= v < 2 ^ 31 -> bindi v k = k v.
Proof. intros H. unfold bindi, int_ok. destruct (Z.leb_spec (- 2 ^ 31) v); destruct (Z.ltb_spec v (2 ^ 31)); try lia. reflexivity. Qed.

Theorem addmod16_ok p x y : 0 <= p < 2 ^ 16 -> 0 <= x < 2 ^ 16 -> 0 <= y < 2 ^ 16 -> addmod16 p x y = Some (addmod 16 p x y).
Proof.
  intros Hp Hx Hy. unfold addmod16, addmod, wr, u16. change (2 ^ 16) with 65536 in *.
  rewrite bindi_ok by (change (2 ^ 31) with 2147483648; lia).
  pose proof (Z.mod_pos_bound (x + y) 65536 ltac:(lia)).
  rewrite bindi_ok by (change (2 ^ 31) with 2147483648; destruct (_ >=? _); lia). reflexivity.
Qed.

Theorem submod16_ok p x y : 0 <= p < 2 ^ 16 -> 0 <= x < 2 ^ 16 -> 0 <= y < 2 ^ 16 -> submod16 p x y = Some (submod 16 p x y).
Proof.
  intros Hp Hx Hy. unfold submod16, submod. rewrite bindi_ok by (change (2 ^ 31) with 2147483648; change (2 ^ 16) with 65536 in *; lia).
  unfold u16, wr. apply addmod16_ok; auto. apply Z.mod_pos_bound. lia.
Qed.

(* any 16-bit x (also non-canonical), y a canonical residue with its Shoup companion *)
Theorem mulmod_shoup16_ok p x y : Hrow 16 p -> 0 <= x < 2 ^ 16 -> 0 <= y < p ->
  mulmod_shoup16 p x y ((y * 2 ^ 16) / p) = Some (mulmod_shoup 16 p x y ((y * 2 ^ 16) / p)).
Proof.
  intros H Hx Hy. destruct (Hrow_facts 16 p H) as (Hp & H4 & _ & H2 & HpB).
  pose proof (shoup_range (2 ^ 16) p y x Hp ltac:(lia) Hy Hx) as [R _]. cbv zeta in R.
  unfold mulmod_shoup16, mulmod_shoup, wr, u16, u32.
  set (y' := y * 2 ^ 16 / p) in *.
  assert (Y' : 0 <= y' < 2 ^ 16).
  { unfold y'. split; [apply Z.div_pos; lia|]. apply Z.div_lt_upper_bound; [lia|]. change (2 ^ 16) with 65536 in *. nia. }
  assert (XY' : 0 <= x * y' < 2 ^ 32) by (change (2 ^ 16) with 65536 in *; change (2 ^ 32) with 4294967296; nia).
  rewrite (Z.mod_small (x * y') (2 ^ 32)) by lia.
  set (q := x * y' / 2 ^ 16) in *.
  assert (Q : 0 <= q < 2 ^ 16) by (unfold q; split; [apply Z.div_pos; lia | apply Z.div_lt_upper_bound; [lia|]; change (2 ^ 16 * 2 ^ 16) with (2 ^ 32); lia]).
  rewrite (Z.mod_small q (2 ^ 16)) by lia.
  change (2 ^ 16) with 65536 in *. change (2 ^ 32) with 4294967296 in *.
  assert (XY : 0 <= x * y < 16384 * 65536) by nia. assert (QP : 0 <= q * p < 16384 * 65536) by nia.
  rewrite !bindi_ok by (change (2 ^ 31) with 2147483648; lia).
  set (r := x * y - q * p) in *.
  rewrite (Z.mod_small r 4294967296) by lia.
  (* limb-width side: 16-bit wraps of the same quantities *)
  assert (W : ((x * y) mod 65536 - (q * p) mod 65536) mod 65536 = r).
  { pose proof (Z.div_mod (x * y) 65536 ltac:(lia)). pose proof (Z.div_mod (q * p) 65536 ltac:(lia)).
    replace ((x * y) mod 65536 - (q * p) mod 65536) with (r + ((q * p) / 65536 - (x * y) / 65536) * 65536) by (unfold r; lia).
    rewrite Z.mod_add by lia. apply Z.mod_small. lia. }
  rewrite W. f_equal.
  destruct (Z.geb_spec r p); rewrite (Z.mod_small _ 4294967296) by lia; reflexivity.
Qed.

(* the scalar butterfly on ALL 16-bit operands, canonical twiddle with its Shoup companion *)
Theorem bfly16_ok p wt a b : Hrow 16 p -> 0 <= wt < p -> 0 <= a < 2 ^ 16 -> 0 <= b < 2 ^ 16 ->
  bfly16 p wt ((wt * 2 ^ 16) / p) a b = Some (bfly_lazy 16 p wt ((wt * 2 ^ 16) / p) a b).
Proof.
  intros H Hwt Ha Hb. destruct (Hrow_facts 16 p H) as (Hp & H4 & _ & H2 & HpB).
  unfold bfly16, bfly_lazy, wr, u16, u32. set (wt' := wt * 2 ^ 16 / p).
  assert (W' : 0 <= wt' < 2 ^ 16).
  { unfold wt'. split; [apply Z.div_pos; lia|]. apply Z.div_lt_upper_bound; [lia|]. change (2 ^ 16) with 65536 in *. nia. }
  change (2 ^ 16) with 65536 in *. change (2 ^ 32) with 4294967296.
  pose proof (Z.mod_pos_bound (a + b) 65536 ltac:(lia)) as M0.
  rewrite !bindi_ok by (change (2 ^ 31) with 2147483648; try destruct (_ >=? _); lia).
  set (t1 := ((a - b) mod 65536 + 2 * p) mod 65536).
  assert (E1 : (a - b + 2 * p) mod 65536 = t1).
  { unfold t1. rewrite Zplus_mod_idemp_l. reflexivity. }
  rewrite E1. pose proof (Z.mod_pos_bound ((a - b) mod 65536 + 2 * p) 65536 ltac:(lia)) as T1. fold t1 in T1.
  assert (TW : 0 <= t1 * wt' < 4294967296) by nia.
  rewrite (Z.mod_small (t1 * wt') 4294967296) by lia.
  set (q := t1 * wt' / 65536).
  assert (Q : 0 <= q < 65536) by (unfold q; split; [apply Z.div_pos; lia | apply Z.div_lt_upper_bound; lia]).
  rewrite (Z.mod_small q 65536) by lia.
  assert (A1 : 0 <= t1 * wt < 16384 * 65536) by nia. assert (A2 : 0 <= q * p < 16384 * 65536) by nia.
  rewrite !bindi_ok by (change (2 ^ 31) with 2147483648; lia).
  f_equal. f_equal. rewrite <- Zminus_mod. reflexivity.
Qed.
Print Assumptions bfly16_ok.
Lemma addsub16_ok p x y : 0 <= p < 2 ^ 16 -> 0 <= x < 2 ^ 16 -> 0 <= y < 2 ^ 16 ->
  addmod16 p x y = Some (addmod 16 p x y) /\ submod16 p x y = Some (submod 16 p x y).
Proof. intros Hp Hx Hy. exact (conj (addmod16_ok p x y Hp Hx Hy) (submod16_ok p x y Hp Hx Hy)). Qed.
