(* poly::set(It first, It last, bool reduce_coeffs) translated from the source (instantiated at It = const value_type*, the instance behind
   the initializer_list and pointer setters and constructors) is the executable model Setters.set_list on which C15 is stated: the
   size check that throws, the per-modulus rewind of the source iterator unless exactly degree*nmoduli values are given, the copy loop
   `i < degree && viter < last` with the optional reduction, the zero padding. *)
From Coq Require Import ZArith List Lia Bool Arith.
From NTT Require Import Setters CxxSem MemSem LoopSpec GaussSetSpec.
Import ListNotations.
Local Open Scope Z_scope.

Definition SS := (list Z * Z * Z)%type.
Definition setl_sh (redk : Z -> Z -> option Z) (stw : Z -> Z) (fuel : nat) (degree : Z) (_data : list Z) (vals : list Z) (first_o : Z) (last_o : Z) (reduce_coeffs : bool) (nmoduli : Z) (P : list Z) : option SS :=
  (let viter_o := 0 in (let iter_o := 0 in (bind (dist vals first_o last_o) (fun dist_1 => (let size_2 := (uw 64 dist_1) in (bind (if ((size_2 >? degree) && (negb (size_2 =? (uw 64 (degree * nmoduli))))) then None else Some (_data, viter_o, iter_o)) (fun '(_data, viter_o, iter_o) => (let iter_o := 0 in (let viter_o := first_o in (bind (for_up 0 nmoduli 1 (fun cm_3 '(_data, viter_o, iter_o) => (let p_4 := (tabP P cm_3) in (bind (if (negb (size_2 =? (uw 64 (degree * nmoduli)))) then (let viter_o := first_o in Some (_data, viter_o, iter_o)) else Some (_data, viter_o, iter_o)) (fun '(_data, viter_o, iter_o) => (let i_5 := 0 in (bind (while_fuel fuel (fun '(_data, viter_o, iter_o, i_6) => ((i_6 <? degree) && (viter_o <? last_o))) (fun '(_data, viter_o, iter_o, i_6) => (bind (if reduce_coeffs then (bind (ld vals viter_o) (fun ld_7 => redk ld_7 p_4)) else (bind (ld vals viter_o) (fun ld_8 => Some ld_8))) (fun c_9 => (bind (st _data iter_o (stw c_9)) (fun _data => (let i_10 := (uw 64 (i_6 + 1)) in (let viter_o := (viter_o + 1) in (let iter_o := (iter_o + 1) in Some (_data, viter_o, iter_o, i_10))))))))) (_data, viter_o, iter_o, i_5)) (fun '(_data, viter_o, iter_o, i_11) => (bind (while_fuel fuel (fun '(_data, viter_o, iter_o, i_12) => (i_12 <? degree)) (fun '(_data, viter_o, iter_o, i_12) => (bind (st _data iter_o 0) (fun _data => (let i_13 := (uw 64 (i_12 + 1)) in (let iter_o := (iter_o + 1) in Some (_data, viter_o, iter_o, i_13)))))) (_data, viter_o, iter_o, i_11)) (fun '(_data, viter_o, iter_o, i_14) => Some (_data, viter_o, iter_o)))))))))) (_data, viter_o, iter_o)) (fun '(_data, viter_o, iter_o) => Some (_data, viter_o, iter_o)))))))))))).

(* a while loop whose state is a function of the iteration count *)
Lemma while_steps {S} (Q : nat -> S) c body k : forall fuel j, (k - j < fuel)%nat -> (j <= k)%nat ->
  (forall i, (j <= i < k)%nat -> c (Q i) = true /\ body (Q i) = Some (Q (Datatypes.S i))) -> c (Q k) = false ->
  while_fuel fuel c body (Q j) = Some (Q k).
Proof.
  induction fuel as [|fu IH]; intros j Hf Hj H Hk; [lia|]. cbn [while_fuel].
  destruct (Nat.eq_dec j k) as [->|Hne]; [rewrite Hk; reflexivity|].
  destruct (H j ltac:(lia)) as [Hc Hb]. rewrite Hc, Hb. cbn [bind]. apply IH; try lia; [intros i Hi; apply H; lia | exact Hk].
Qed.

Lemma tab_nth_id (R : list Z) : map (fun k => nth k R 0) (seq 0 (length R)) = R.
Proof. apply nth_ext0; [apply tabz_length|]. rewrite tabz_length. intros i Hi. apply tabz_nth. exact Hi. Qed.

Section Setter.
Variable bits : Z.
Hypothesis Hbits : 8 <= bits <= 64.
Variable redk : Z -> Z -> option Z.
Variable stw : Z -> Z.
Variable Rv : Z -> Prop.                                    (* what the source values are: limbs for the list setter, any integer for set_mpz *)
Hypothesis Hredk : forall v p, Rv v -> 0 < p < 2 ^ bits -> redk v p = Some (v mod p).
Hypothesis Hstw : forall c, 0 <= c < 2 ^ bits -> stw c = c.
Variables (n nm : nat) (P vals data0 : list Z) (f l : nat) (reduce : bool) (fuel : nat).
Hypothesis Hfl : (f <= l <= length vals)%nat.
Hypothesis Hd : length data0 = (nm * n)%nat.
Hypothesis Hsmall : Z.of_nat (nm * n) < 2 ^ 61.
Hypothesis Hn61 : Z.of_nat n < 2 ^ 61.
Hypothesis Hnm61 : Z.of_nat nm < 2 ^ 61.
Hypothesis Hl61 : Z.of_nat (length vals) < 2 ^ 61.
Hypothesis Hfuel : (n < fuel)%nat.
Hypothesis HPl : (nm <= length P)%nat.
Hypothesis HPr : Forall (fun p => 0 < p < 2 ^ bits) (firstn nm P).
Hypothesis Hvr : Forall Rv vals.
Hypothesis Hnored : reduce = false -> forall v, Rv v -> 0 <= v < 2 ^ bits.     (* values stored without reduction are limbs *)

Definition sz := (l - f)%nat.
Definition vs := firstn sz (skipn f vals).
Definition Pf := fun cm : nat => nth cm P 0.
Definition full := (sz =? n * nm)%nat.
Definition R := slices n Pf reduce full 0 nm vs vs.
Definition F := fun k : nat => nth k R 0.
Definition cpy := if full then n else sz.
Definition v0 := fun cm : nat => if full then (f + cm * n)%nat else f.
Definition vit := fun cm : nat => if full then (f + cm * n)%nat else (if (cm =? 0)%nat then f else (f + sz)%nat).

Lemma vs_len : length vs = sz.
Proof. unfold vs. rewrite firstn_length, skipn_length. unfold sz. lia. Qed.
Lemma vs_nth i : (i < sz)%nat -> nth i vs 0 = nth (f + i) vals 0.
Proof. intros Hi. unfold vs. rewrite Layer.nth_firstn. assert (E : (i <? sz)%nat = true) by (apply Nat.ltb_lt; exact Hi). rewrite E. apply Layer.nth_skipn. Qed.
Lemma R_len : length R = (nm * n)%nat. Proof. unfold R. apply slices_length. Qed.
Lemma vals_rng i : (i < length vals)%nat -> Rv (nth i vals 0).
Proof. intros Hi. exact (Forall_nth_R Rv vals i Hvr Hi). Qed.
Lemma P_rng cm : (cm < nm)%nat -> 0 < nth cm P 0 < 2 ^ bits.
Proof. intros Hc. exact (nth_firstn_in' (fun p => 0 < p < 2 ^ bits) nm P cm HPr HPl Hc). Qed.

Hypothesis Hnt : (sz <= n)%nat \/ sz = (n * nm)%nat.       (* the size check passes *)

Lemma full_spec : full = true -> sz = (n * nm)%nat. Proof. unfold full. intros H. apply Nat.eqb_eq. exact H. Qed.
Lemma notfull_spec : full = false -> (sz <= n)%nat /\ sz <> (n * nm)%nat.
Proof. unfold full. intros H. apply Nat.eqb_neq in H. destruct Hnt; [split; assumption | contradiction]. Qed.
Lemma cpy_le : (cpy <= n)%nat.
Proof. unfold cpy. destruct full eqn:E; [lia | apply notfull_spec in E; lia]. Qed.
Lemma v0_cpy cm : (cm < nm)%nat -> (v0 cm + cpy <= l)%nat.
Proof.
  intros Hc. unfold v0, cpy. destruct full eqn:E.
  - apply full_spec in E. unfold sz in E. nia.
  - unfold sz. lia.
Qed.
(* the words the copy loop writes, and the padding *)
Lemma F_copy cm i : (cm < nm)%nat -> (i < cpy)%nat -> F (cm * n + i) = red Pf reduce cm (nth (v0 cm + i) vals 0).
Proof.
  intros Hc Hi. pose proof cpy_le as Hcn. unfold F, R. rewrite slices_nth by lia. cbv zeta. rewrite Nat.add_0_l.
  unfold v0, cpy in *. destruct full eqn:E.
  - apply full_spec in E. rewrite skipn_length, vs_len. assert (Hlt : (i <? sz - cm * n)%nat = true) by (apply Nat.ltb_lt; nia). rewrite Hlt.
    rewrite Setters.nth_skipn. rewrite vs_nth by nia. f_equal. f_equal. lia.
  - rewrite vs_len. assert (Hlt : (i <? sz)%nat = true) by (apply Nat.ltb_lt; exact Hi). rewrite Hlt. rewrite vs_nth by exact Hi. reflexivity.
Qed.
Lemma F_pad cm i : (cm < nm)%nat -> (cpy <= i < n)%nat -> F (cm * n + i) = 0.
Proof.
  intros Hc Hi. unfold F, R. rewrite slices_nth by lia. cbv zeta. unfold cpy in Hi. destruct full eqn:E; [lia|].
  rewrite vs_len. assert (Hlt : (i <? sz)%nat = false) by (apply Nat.ltb_ge; lia). rewrite Hlt. reflexivity.
Qed.

Definition Q1 (cm j : nat) : list Z * Z * Z * Z := (filled F data0 (cm * n + j), Z.of_nat (v0 cm + j), Z.of_nat (cm * n + j), Z.of_nat j).
Definition Q2 (cm j : nat) : list Z * Z * Z * Z := (filled F data0 (cm * n + j), Z.of_nat (v0 cm + cpy), Z.of_nat (cm * n + j), Z.of_nat j).

Lemma copy_loop cm : (cm < nm)%nat ->
  (let ST1 := Q1 cm 0 in (while_fuel fuel (fun '(_data, viter_o, iter_o, i_6) => ((i_6 <? (Z.of_nat n)) && (viter_o <? (Z.of_nat l)))) (fun '(_data, viter_o, iter_o, i_6) => (bind (if reduce then (bind (ld vals viter_o) (fun ld_7 => redk ld_7 (nth cm P 0))) else (bind (ld vals viter_o) (fun ld_8 => Some ld_8))) (fun c_9 => (bind (st _data iter_o (stw c_9)) (fun _data => (let i_10 := (uw 64 (i_6 + 1)) in (let viter_o := (viter_o + 1) in (let iter_o := (iter_o + 1) in Some (_data, viter_o, iter_o, i_10))))))))) ST1)) = Some (Q1 cm cpy).
Proof.
  intros Hc. cbv zeta. pose proof cpy_le as Hcn. pose proof (v0_cpy cm Hc) as Hvl.
  apply (while_steps (Q1 cm)); try lia.
  - intros i Hi. unfold Q1. cbv beta iota. split.
    + apply andb_true_iff. split; apply Z.ltb_lt; lia.
    + assert (Hk : (cm * n + i < nm * n)%nat) by nia.
      rewrite ld_some by lia. rewrite Nat2Z.id.
      pose proof (vals_rng (v0 cm + i) ltac:(lia)) as HRv. pose proof (P_rng cm Hc) as Rp.
      assert (Ec : (if reduce then bind (Some (nth (v0 cm + i) vals 0)) (fun ld_7 => redk ld_7 (nth cm P 0)) else bind (Some (nth (v0 cm + i) vals 0)) (fun ld_8 => Some ld_8)) = Some (F (cm * n + i))).
      { rewrite F_copy by lia. unfold red, Pf. destruct (Bool.bool_dec reduce true) as [Er|Er]; [rewrite Er | apply Bool.not_true_is_false in Er; rewrite Er]; cbn [bind]; [apply Hredk; assumption | reflexivity]. }
      rewrite Ec. cbn [bind].
      assert (RF : 0 <= F (cm * n + i) < 2 ^ bits).
      { rewrite F_copy by lia. unfold red, Pf. destruct (Bool.bool_dec reduce true) as [Er|Er]; [rewrite Er | apply Bool.not_true_is_false in Er; rewrite Er; exact (Hnored Er _ HRv)]. pose proof (Z.mod_pos_bound (nth (v0 cm + i) vals 0) (nth cm P 0) ltac:(lia)). lia. }
      rewrite Hstw by exact RF. rewrite st_some by (rewrite filled_length by lia; lia). cbn [bind]. rewrite Nat2Z.id.
      rewrite filled_step by lia. cbv zeta. rewrite uw_small by lia. f_equal. f_equal; [f_equal; [f_equal; [f_equal; lia | lia] | lia] | lia].
  - unfold Q1. cbv beta iota. apply andb_false_iff. unfold cpy, v0 in *. destruct full eqn:E.
    + left. apply Z.ltb_ge. lia.
    + right. apply Z.ltb_ge. unfold sz in *. lia.
Qed.

Lemma pad_loop cm : (cm < nm)%nat ->
  (let ST2 := Q2 cm cpy in (while_fuel fuel (fun '(_data, viter_o, iter_o, i_12) => (i_12 <? (Z.of_nat n))) (fun '(_data, viter_o, iter_o, i_12) => (bind (st _data iter_o 0) (fun _data => (let i_13 := (uw 64 (i_12 + 1)) in (let iter_o := (iter_o + 1) in Some (_data, viter_o, iter_o, i_13)))))) ST2)) = Some (Q2 cm n).
Proof.
  intros Hc. cbv zeta. pose proof cpy_le as Hcn.
  apply (while_steps (Q2 cm)); try lia.
  - intros i Hi. unfold Q2. cbv beta iota. split; [apply Z.ltb_lt; lia|].
    assert (Hk : (cm * n + i < nm * n)%nat) by nia.
    rewrite st_some by (rewrite filled_length by lia; lia). cbn [bind]. rewrite Nat2Z.id.
    rewrite <- (F_pad cm i Hc ltac:(lia)). rewrite filled_step by lia. cbv zeta. rewrite uw_small by lia.
    f_equal. f_equal; [f_equal; [f_equal; f_equal; lia | lia] | lia].
  - unfold Q2. cbv beta iota. apply Z.ltb_ge. lia.
Qed.

Definition Pst (cm : nat) : SS := (filled F data0 (cm * n), Z.of_nat (vit cm), Z.of_nat (cm * n)).

Theorem setter_ok : setl_sh redk stw fuel (Z.of_nat n) data0 vals (Z.of_nat f) (Z.of_nat l) reduce (Z.of_nat nm) P = Some (R, Z.of_nat (vit nm), Z.of_nat (nm * n)).
Proof.
  unfold setl_sh. cbv zeta.
  assert (Ed : dist vals (Z.of_nat f) (Z.of_nat l) = Some (Z.of_nat sz)).
  { unfold dist. replace ((0 <=? Z.of_nat f) && (Z.of_nat f <=? Z.of_nat l) && (Z.of_nat l <=? Z.of_nat (length vals))) with true.
    - f_equal. unfold sz. lia.
    - symmetry. rewrite !andb_true_iff. repeat split; apply Z.leb_le; lia. }
  rewrite Ed. cbn [bind]. assert (Hsz61 : Z.of_nat sz < 2 ^ 61) by (unfold sz; lia).
  rewrite (uw_small 64 (Z.of_nat sz)) by lia. rewrite (uw_small 64 (Z.of_nat n * Z.of_nat nm)) by nia.
  assert (Efull : (Z.of_nat sz =? Z.of_nat n * Z.of_nat nm) = full).
  { unfold full. destruct (Nat.eqb_spec sz (n * nm)) as [E|E]; [apply Z.eqb_eq; nia | apply Z.eqb_neq; nia]. }
  rewrite Efull.
  assert (Enothrow : ((Z.of_nat sz >? Z.of_nat n) && negb full) = false).
  { apply andb_false_iff. destruct full eqn:E; [right; reflexivity|]. left. apply notfull_spec in E. rewrite Z.gtb_ltb. apply Z.ltb_ge. lia. }
  rewrite Enothrow. cbn [bind].
  assert (E0 : (data0, Z.of_nat f, 0) = Pst 0).
  { unfold Pst, vit. cbn [Nat.mul Nat.eqb]. rewrite Nat.add_0_r. destruct full; reflexivity. }
  rewrite E0.
  rewrite (for_up_steps Pst nm); try lia.
  - cbn [bind]. unfold Pst. f_equal. f_equal. f_equal. rewrite <- Hd. rewrite filled_all. rewrite Hd, <- R_len. apply tab_nth_id.
  - intros cm Hc. replace (0 + 1 * Z.of_nat cm) with (Z.of_nat cm) by lia. unfold Pst at 1. cbv beta iota. unfold tabP. rewrite Nat2Z.id.
    (* rewind of the source iterator *)
    assert (Erw : (if negb full then Some (filled F data0 (cm * n), Z.of_nat f, Z.of_nat (cm * n)) else Some (filled F data0 (cm * n), Z.of_nat (vit cm), Z.of_nat (cm * n)))
                  = Some (filled F data0 (cm * n), Z.of_nat (v0 cm), Z.of_nat (cm * n))).
    { unfold vit, v0. destruct full; reflexivity. }
    rewrite Erw. cbn [bind].
    pose proof (copy_loop cm Hc) as CL. cbv zeta in CL. unfold Q1 at 1 in CL. rewrite !Nat.add_0_r in CL. change (Z.of_nat 0) with 0 in CL. rewrite CL. clear CL.
    unfold Q1. cbn [bind].
    pose proof (pad_loop cm Hc) as PL. cbv zeta in PL. unfold Q2 at 1 in PL. rewrite PL. clear PL. unfold Q2. cbn [bind].
    unfold Pst. f_equal. f_equal; [f_equal; [f_equal; lia|] | lia].
    unfold vit, v0, cpy. destruct full; [lia|]. destruct (Nat.eqb_spec (Datatypes.S cm) 0); lia.
Qed.
End Setter.

(* the size check: more than degree values but not exactly degree*nmoduli -> throws (no result), nothing written *)
Theorem setter_throws redk stw fuel (n nm : nat) (data0 vals : list Z) (f l : nat) reduce P : (f <= l <= length vals)%nat -> Z.of_nat (length vals) < 2 ^ 61 -> Z.of_nat (nm * n) < 2 ^ 61 ->
  (n < l - f)%nat -> (l - f)%nat <> (n * nm)%nat ->
  setl_sh redk stw fuel (Z.of_nat n) data0 vals (Z.of_nat f) (Z.of_nat l) reduce (Z.of_nat nm) P = None.
Proof.
  intros Hfl Hl61 Hs Hgt Hne. unfold setl_sh. cbv zeta.
  assert (Ed : dist vals (Z.of_nat f) (Z.of_nat l) = Some (Z.of_nat (l - f))).
  { unfold dist. replace ((0 <=? Z.of_nat f) && (Z.of_nat f <=? Z.of_nat l) && (Z.of_nat l <=? Z.of_nat (length vals))) with true.
    - f_equal. lia.
    - symmetry. rewrite !andb_true_iff. repeat split; apply Z.leb_le; lia. }
  rewrite Ed. cbn [bind]. rewrite (uw_small 64 (Z.of_nat (l - f))) by lia. rewrite (uw_small 64 (Z.of_nat n * Z.of_nat nm)) by nia.
  replace (Z.of_nat (l - f) >? Z.of_nat n) with true by (symmetry; rewrite Z.gtb_ltb; apply Z.ltb_lt; lia).
  replace (Z.of_nat (l - f) =? Z.of_nat n * Z.of_nat nm) with false by (symmetry; apply Z.eqb_neq; nia).
  reflexivity.
Qed.

(* both cases together: the translated setter is Setters.set_list *)
Theorem setter_is_model_gen bits redk stw (Rv : Z -> Prop) (n nm : nat) (P vals data0 : list Z) (f l : nat) reduce fuel : 8 <= bits <= 64 ->
  (forall v p, Rv v -> 0 < p < 2 ^ bits -> redk v p = Some (v mod p)) -> (forall c, 0 <= c < 2 ^ bits -> stw c = c) ->
  (f <= l <= length vals)%nat -> length data0 = (nm * n)%nat -> Z.of_nat (nm * n) < 2 ^ 61 -> Z.of_nat n < 2 ^ 61 -> Z.of_nat nm < 2 ^ 61 -> Z.of_nat (length vals) < 2 ^ 61 ->
  (n < fuel)%nat -> (nm <= length P)%nat -> Forall (fun p => 0 < p < 2 ^ bits) (firstn nm P) -> Forall Rv vals -> (reduce = false -> forall v, Rv v -> 0 <= v < 2 ^ bits) ->
  option_map (fun s : SS => fst (fst s)) (setl_sh redk stw fuel (Z.of_nat n) data0 vals (Z.of_nat f) (Z.of_nat l) reduce (Z.of_nat nm) P)
  = set_list n nm (fun cm => nth cm P 0) reduce (firstn (l - f) (skipn f vals)) data0.
Proof.
  intros Hb Hr Hs Hfl Hd Hsm Hn Hnm Hl Hfu HPl HPr Hvr Hnr. unfold set_list.
  assert (Elen : length (firstn (l - f) (skipn f vals)) = (l - f)%nat) by (rewrite firstn_length, skipn_length; lia). rewrite Elen.
  destruct ((n <? l - f)%nat && negb (l - f =? n * nm)%nat) eqn:E.
  - apply andb_true_iff in E. destruct E as [E1 E2]. apply Nat.ltb_lt in E1. apply negb_true_iff in E2. apply Nat.eqb_neq in E2.
    rewrite setter_throws by assumption. reflexivity.
  - assert (Hnt : (l - f <= n)%nat \/ (l - f)%nat = (n * nm)%nat).
    { apply andb_false_iff in E. destruct E as [E|E]; [left; apply Nat.ltb_ge; exact E | right; apply negb_false_iff in E; apply Nat.eqb_eq; exact E]. }
    rewrite (setter_ok bits Hb redk stw Rv Hr Hs n nm P vals data0 f l reduce fuel) by assumption. reflexivity.
Qed.
Theorem setter_is_model bits redk stw (n nm : nat) (P vals data0 : list Z) (f l : nat) reduce fuel : 8 <= bits <= 64 ->
  (forall v p, 0 <= v < 2 ^ bits -> 0 < p < 2 ^ bits -> redk v p = Some (v mod p)) -> (forall c, 0 <= c < 2 ^ bits -> stw c = c) ->
  (f <= l <= length vals)%nat -> length data0 = (nm * n)%nat -> Z.of_nat (nm * n) < 2 ^ 61 -> Z.of_nat n < 2 ^ 61 -> Z.of_nat nm < 2 ^ 61 -> Z.of_nat (length vals) < 2 ^ 61 ->
  (n < fuel)%nat -> (nm <= length P)%nat -> Forall (fun p => 0 < p < 2 ^ bits) (firstn nm P) -> Forall (fun v => 0 <= v < 2 ^ bits) vals ->
  option_map (fun s : SS => fst (fst s)) (setl_sh redk stw fuel (Z.of_nat n) data0 vals (Z.of_nat f) (Z.of_nat l) reduce (Z.of_nat nm) P)
  = set_list n nm (fun cm => nth cm P 0) reduce (firstn (l - f) (skipn f vals)) data0.
Proof.
  intros Hb Hr Hs Hfl Hd Hsm Hn Hnm Hl Hfu HPl HPr Hvr.
  apply (setter_is_model_gen bits redk stw (fun v => 0 <= v < 2 ^ bits)); try assumption. intros _ v Hv. exact Hv.
Qed.
