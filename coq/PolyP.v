From Coq Require Import List Arith Lia Bool.
Import ListNotations.

(* Copy-on-write handles (poly_p): H handle slots over a heap of reference-counted cells.
   Refinement: observable value of every handle = the same operation sequence on plain values. *)
Section COW.
Variable V : Type.
Variable H : nat.                               (* number of handle slots *)

Record st := { hs : nat -> option nat;          (* handle -> cell (None = moved-from / destroyed) *)
               cnt : nat -> nat;                (* reference count, 0 = not allocated / freed *)
               val : nat -> option V;           (* cell content, None = freed *)
               next : nat;                      (* bump allocator *)
               frees : nat -> nat }.            (* ghost: how often each cell was freed *)

Inductive op :=
| Create (h : nat) (v : V)        (* h must be empty *)
| Copy (h g : nat)                (* h := g   (copy-assign, or copy-construct if h empty) *)
| Move (h g : nat)                (* h := std::move(g) *)
| Write (h : nat) (f : V -> V)    (* any non-const access: detach, then mutate *)
| Destroy (h : nat).

Definition set {A} (f : nat -> A) (k : nat) (v : A) : nat -> A := fun i => if i =? k then v else f i.

(* drop one reference to cell c; free it when the count reaches zero *)
Definition release (s : st) (oc : option nat) : st :=
  match oc with
  | None => s
  | Some c => if cnt s c =? 1
              then {| hs := hs s; cnt := set (cnt s) c 0; val := set (val s) c None; next := next s; frees := set (frees s) c (S (frees s c)) |}
              else {| hs := hs s; cnt := set (cnt s) c (cnt s c - 1); val := val s; next := next s; frees := frees s |}
  end.

Definition step (s : st) (o : op) : st :=
  match o with
  | Create h v =>
      let c := next s in
      {| hs := set (hs s) h (Some c); cnt := set (cnt s) c 1; val := set (val s) c (Some v); next := S c; frees := frees s |}
  | Copy h g =>
      if h =? g then s else
      match hs s g with
      | None => s                                   (* excluded by the discipline; no-op *)
      | Some c =>
          let s1 := release s (hs s h) in
          {| hs := set (hs s1) h (Some c); cnt := set (cnt s1) c (S (cnt s1 c)); val := val s1; next := next s1; frees := frees s1 |}
      end
  | Move h g =>
      if h =? g then s else
      let s1 := release s (hs s h) in
      {| hs := set (set (hs s1) h (hs s g)) g None; cnt := cnt s1; val := val s1; next := next s1; frees := frees s1 |}
  | Write h f =>
      match hs s h with
      | None => s
      | Some c =>
          match val s c with
          | None => s
          | Some v =>
            if cnt s c =? 1
            then {| hs := hs s; cnt := cnt s; val := set (val s) c (Some (f v)); next := next s; frees := frees s |}
            else let c' := next s in                  (* detach: clone, then mutate the clone *)
                 {| hs := set (hs s) h (Some c'); cnt := set (set (cnt s) c (cnt s c - 1)) c' 1;
                    val := set (val s) c' (Some (f v)); next := S c'; frees := frees s |}
          end
      end
  | Destroy h =>
      let s1 := release s (hs s h) in
      {| hs := set (hs s1) h None; cnt := cnt s1; val := val s1; next := next s1; frees := frees s1 |}
  end.

(* specification: plain values *)
Definition spec_step (vs : nat -> option V) (o : op) : nat -> option V :=
  match o with
  | Create h v => set vs h (Some v)
  | Copy h g => if h =? g then vs else match vs g with None => vs | Some v => set vs h (Some v) end
  | Move h g => if h =? g then vs else set (set vs h (vs g)) g None
  | Write h f => match vs h with None => vs | Some v => set vs h (Some (f v)) end
  | Destroy h => set vs h None
  end.

Definition abs (s : st) : nat -> option V := fun h => match hs s h with None => None | Some c => val s c end.

(* discipline: handle ids in range; Create only on an empty slot *)
Definition ok_op (s : st) (o : op) : Prop :=
  match o with
  | Create h _ => h < H /\ hs s h = None
  | Copy h g | Move h g => h < H /\ g < H
  | Write h _ | Destroy h => h < H
  end.

Definition refs (s : st) (c : nat) : nat := length (filter (fun h => match hs s h with Some c' => c' =? c | None => false end) (seq 0 H)).

Record Inv (s : st) : Prop := {
  I_cnt : forall c, cnt s c = refs s c;
  I_live : forall c, (cnt s c = 0 <-> val s c = None);
  I_next : forall c, next s <= c -> cnt s c = 0 /\ frees s c = 0;
  I_range : forall h, H <= h -> hs s h = None;
  I_free : forall c, frees s c <= 1 /\ (cnt s c > 0 -> frees s c = 0)
}.

Lemma set_same {A} (f : nat -> A) k v : set f k v k = v. Proof. unfold set. now rewrite Nat.eqb_refl. Qed.
Lemma set_other {A} (f : nat -> A) k v i : i <> k -> set f k v i = f i.
Proof. intros N. unfold set. destruct (i =? k) eqn:E; [apply Nat.eqb_eq in E; congruence | reflexivity]. Qed.

(* counting references when one handle slot changes *)
Definition tgt (o : option nat) (c : nat) : nat := match o with Some c' => if c' =? c then 1 else 0 | None => 0 end.
Lemma count_set (hsf : nat -> option nat) h o c n : 
  length (filter (fun x => match set hsf h o x with Some c' => c' =? c | None => false end) (seq 0 n)) + (if h <? n then tgt (hsf h) c else 0)
  = length (filter (fun x => match hsf x with Some c' => c' =? c | None => false end) (seq 0 n)) + (if h <? n then tgt o c else 0).
Proof.
  induction n; [reflexivity|]. rewrite seq_S, !filter_app, !app_length. simpl.
  destruct (Nat.eq_dec n h) as [->|N].
  - rewrite set_same. replace (h <? S h) with true by (symmetry; apply Nat.ltb_lt; lia).
    replace (h <? h) with false in IHn by (symmetry; apply Nat.ltb_ge; lia).
    unfold tgt. destruct o as [c1|], (hsf h) as [c2|]; try destruct (c1 =? c); try destruct (c2 =? c); simpl; lia.
  - rewrite set_other by auto.
    destruct (h <? n) eqn:E1.
    + replace (h <? S n) with true by (symmetry; apply Nat.ltb_lt; apply Nat.ltb_lt in E1; lia). lia.
    + replace (h <? S n) with false by (symmetry; apply Nat.ltb_ge; apply Nat.ltb_ge in E1; lia). lia.
Qed.

Lemma refs_set s h o c (hs' := set (hs s) h o) cn vl nx fr : h < H ->
  refs {| hs := hs'; cnt := cn; val := vl; next := nx; frees := fr |} c + tgt (hs s h) c = refs s c + tgt o c.
Proof. intros Hh. unfold refs. simpl. pose proof (count_set (hs s) h o c H) as E.
  replace (h <? H) with true in E by (symmetry; apply Nat.ltb_lt; auto). exact E. Qed.


(* ---- consequences of the counting invariant ---- *)
Lemma in_refs s c h : h < H -> hs s h = Some c -> refs s c >= 1.
Proof. intros Hh E. unfold refs.
  assert (I : In h (filter (fun h => match hs s h with Some c' => c' =? c | None => false end) (seq 0 H))).
  { apply filter_In. split; [apply in_seq; lia | rewrite E; apply Nat.eqb_refl]. }
  destruct (filter _ _); [destruct I | simpl; lia]. Qed.

Lemma two_refs s c h g : h < H -> g < H -> h <> g -> hs s h = Some c -> hs s g = Some c -> refs s c >= 2.
Proof. intros Hh Hg N E1 E2. unfold refs.
  set (P := fun x => match hs s x with Some c' => c' =? c | None => false end).
  assert (ND : NoDup (filter P (seq 0 H))) by (apply NoDup_filter, seq_NoDup).
  assert (I1 : In h (filter P (seq 0 H))) by (apply filter_In; split; [apply in_seq; lia | unfold P; rewrite E1; apply Nat.eqb_refl]).
  assert (I2 : In g (filter P (seq 0 H))) by (apply filter_In; split; [apply in_seq; lia | unfold P; rewrite E2; apply Nat.eqb_refl]).
  destruct (filter P (seq 0 H)) as [|x [|y l]]; simpl in *; try tauto; lia. Qed.

Lemma handle_range s : Inv s -> forall h c, hs s h = Some c -> h < H.
Proof. intros I h c E. destruct (Nat.lt_ge_cases h H); auto. rewrite (I_range _ I h) in E by auto. discriminate. Qed.

Lemma points_live s : Inv s -> forall h c, hs s h = Some c -> cnt s c >= 1.
Proof. intros I h c E. rewrite (I_cnt _ I). eapply in_refs; eauto. eapply handle_range; eauto. Qed.

Lemma unique_owner s : Inv s -> forall h g c, hs s h = Some c -> hs s g = Some c -> cnt s c = 1 -> g = h.
Proof. intros I h g c E1 E2 C. destruct (Nat.eq_dec g h); auto. exfalso.
  pose proof (two_refs s c h g (handle_range s I _ _ E1) (handle_range s I _ _ E2) ltac:(auto) E1 E2) as T.
  rewrite <- (I_cnt _ I) in T. lia. Qed.

Lemma fresh_unreferenced s : Inv s -> forall g, hs s g <> Some (next s).
Proof. intros I g E. pose proof (points_live s I _ _ E). destruct (I_next _ I (next s) ltac:(lia)). lia. Qed.

(* ---- refinement: each step commutes with abs ---- *)
Lemma abs_release s oc g : Inv s -> (forall c, oc = Some c -> hs s g = Some c -> cnt s c <> 1) -> abs (release s oc) g = abs s g.
Proof. intros I Hn. unfold release. destruct oc as [c|]; auto. destruct (cnt s c =? 1) eqn:E; unfold abs; simpl; auto.
  destruct (hs s g) as [c'|] eqn:Eg; auto. destruct (Nat.eq_dec c' c) as [->|N]; [|now rewrite set_other].
  apply Nat.eqb_eq in E. exfalso. eapply Hn; eauto. Qed.

Lemma release_hs s oc : hs (release s oc) = hs s.
Proof. unfold release. destruct oc; auto. destruct (_ =? _); auto. Qed.

Lemma abs_release2 s oc g : Inv s -> (forall c, oc = Some c -> hs s g = Some c -> cnt s c <> 1) ->
  match hs s g with Some c => val (release s oc) c | None => None end = abs s g.
Proof. intros I Hn. pose proof (abs_release s oc g I Hn) as AR. unfold abs in AR at 1. now rewrite release_hs in AR. Qed.

Theorem step_refines s o : Inv s -> ok_op s o -> forall g, abs (step s o) g = spec_step (abs s) o g.
Proof.
  intros I OK g. destruct o as [h v|h g0|h g0|h f|h]; simpl in *.
  - (* Create *) destruct OK as [Hh Hn]. unfold abs at 1. simpl. unfold set at 1 3.
    destruct (g =? h) eqn:E.
    + simpl. now rewrite set_same.
    + unfold abs. destruct (hs s g) as [c|] eqn:Eg; auto. rewrite set_other; auto.
      intro; subst c. eapply fresh_unreferenced; eauto.
  - (* Copy *) destruct (h =? g0) eqn:Ehg; auto. apply Nat.eqb_neq in Ehg.
    unfold abs at 2. destruct (hs s g0) as [c|] eqn:Eg0; auto.
    pose proof (points_live s I _ _ Eg0) as Lc.
    destruct (val s c) as [vc|] eqn:Evc. 2:{ apply (I_live _ I) in Evc. lia. }
    unfold abs at 1. simpl. rewrite release_hs. unfold set at 1 2.
    destruct (g =? h) eqn:E.
    + (* the copied-to handle sees c's value; c itself was not freed by the release *)
      unfold release. destruct (hs s h) as [c0|] eqn:Eh; simpl; [|exact Evc].
      destruct (cnt s c0 =? 1) eqn:E1; simpl; auto.
      destruct (Nat.eq_dec c c0) as [->|N]; [|now rewrite set_other].
      apply Nat.eqb_eq in E1. pose proof (unique_owner s I h g0 c0 Eh Eg0 E1). congruence.
    + apply Nat.eqb_neq in E. apply abs_release2; auto.
      intros c0 Eh Eg C. pose proof (unique_owner s I h g c0 Eh Eg C). congruence.
  - (* Move *) destruct (h =? g0) eqn:Ehg; auto. apply Nat.eqb_neq in Ehg.
    unfold abs at 1. simpl. rewrite release_hs. unfold set at 1 2 3 4.
    destruct (g =? g0) eqn:E0; auto.
    destruct (g =? h) eqn:E.
    + (* h now sees what g0 saw; that cell was not freed by the release *)
      unfold abs. destruct (hs s g0) as [c|] eqn:Eg0; auto.
      unfold release. destruct (hs s h) as [c0|] eqn:Eh; simpl; auto.
      destruct (cnt s c0 =? 1) eqn:E1; simpl; auto.
      destruct (Nat.eq_dec c c0) as [->|N]; [|now rewrite set_other].
      apply Nat.eqb_eq in E1. pose proof (unique_owner s I h g0 c0 Eh Eg0 E1). congruence.
    + apply Nat.eqb_neq in E. apply abs_release2; auto.
      intros c0 Eh Eg C. pose proof (unique_owner s I h g c0 Eh Eg C). congruence.
  - (* Write *) unfold abs at 2. destruct (hs s h) as [c|] eqn:Eh; auto.
    destruct (val s c) as [v|] eqn:Ev; auto.
    destruct (cnt s c =? 1) eqn:E1; unfold abs at 1; simpl.
    + apply Nat.eqb_eq in E1. unfold set at 2. destruct (g =? h) eqn:E.
      * apply Nat.eqb_eq in E. subst g. rewrite Eh. now rewrite set_same.
      * apply Nat.eqb_neq in E. unfold abs. destruct (hs s g) as [c'|] eqn:Eg; auto. rewrite set_other; auto.
        intro; subst c'. pose proof (unique_owner s I h g c Eh Eg E1). congruence.
    + unfold set at 1 3. destruct (g =? h) eqn:E.
      * simpl. now rewrite set_same.
      * unfold abs. destruct (hs s g) as [c'|] eqn:Eg; auto. rewrite set_other; auto.
        intro; subst c'. eapply fresh_unreferenced; eauto.
  - (* Destroy *) unfold abs at 1. simpl. rewrite release_hs. unfold set at 1 2.
    destruct (g =? h) eqn:E; auto. apply Nat.eqb_neq in E.
    apply abs_release2; auto.
    intros c0 Eh Eg C. pose proof (unique_owner s I h g c0 Eh Eg C). congruence.
Qed.


(* ---- the invariant is preserved ---- *)
Lemma refs_hs_only s' s : hs s' = hs s -> forall c, refs s' c = refs s c.
Proof. intros E c. unfold refs. now rewrite E. Qed.

Lemma release_cnt s oc c : (forall c0, oc = Some c0 -> cnt s c0 >= 1) -> cnt (release s oc) c = cnt s c - tgt oc c.
Proof. intros L. unfold release, tgt. destruct oc as [c0|]; [|lia]. specialize (L c0 eq_refl).
  destruct (cnt s c0 =? 1) eqn:E; simpl; unfold set; destruct (c =? c0) eqn:Ec.
  - apply Nat.eqb_eq in E, Ec. subst. rewrite Nat.eqb_refl. lia.
  - rewrite Nat.eqb_sym, Ec. lia.
  - apply Nat.eqb_eq in Ec. subst. rewrite Nat.eqb_refl. lia.
  - rewrite Nat.eqb_sym, Ec. lia. Qed.

Lemma release_next s oc : next (release s oc) = next s.
Proof. unfold release. destruct oc; auto. destruct (_ =? _); auto. Qed.

Lemma release_live s oc : Inv s -> (forall c0, oc = Some c0 -> cnt s c0 >= 1) ->
  forall c, (cnt (release s oc) c = 0 <-> val (release s oc) c = None).
Proof. intros I L c. unfold release. destruct oc as [c0|]; [|apply (I_live _ I)]. specialize (L c0 eq_refl).
  destruct (cnt s c0 =? 1) eqn:E; simpl; unfold set; destruct (c =? c0) eqn:Ec; try apply (I_live _ I).
  - tauto.
  - apply Nat.eqb_neq in E. apply Nat.eqb_eq in Ec. subst. pose proof (I_live _ I c0) as [_ H2]. split; intros H0; [lia|]. specialize (H2 H0). lia. Qed.

Lemma release_frees s oc : Inv s -> (forall c0, oc = Some c0 -> cnt s c0 >= 1) ->
  forall c, frees (release s oc) c <= 1 /\ (cnt (release s oc) c > 0 -> frees (release s oc) c = 0) /\
            (next s <= c -> frees (release s oc) c = 0).
Proof. intros I L c. pose proof (I_free _ I c) as [F1 F2]. pose proof (I_next _ I c) as Nx.
  unfold release. destruct oc as [c0|]; [|repeat split; auto; tauto]. specialize (L c0 eq_refl).
  destruct (cnt s c0 =? 1) eqn:E; simpl; unfold set; destruct (c =? c0) eqn:Ec; repeat split; auto; try tauto; try lia.
  - apply Nat.eqb_eq in Ec. subst. rewrite F2 by lia. lia.
  - apply Nat.eqb_eq in Ec. subst. intros Hn. destruct (Nx Hn). lia.
  - apply Nat.eqb_eq in Ec. subst. intros _. apply F2. lia. Qed.

Lemma tgt_le_cnt s : Inv s -> forall h c, tgt (hs s h) c <= cnt s c.
Proof. intros I h c. unfold tgt. destruct (hs s h) as [c'|] eqn:E; [|lia]. destruct (c' =? c) eqn:Ec; [|lia].
  apply Nat.eqb_eq in Ec. subst. eapply points_live; eauto. Qed.

Theorem step_inv s o : Inv s -> ok_op s o -> Inv (step s o).
Proof.
  intros I OK.
  assert (L : forall h c0, hs s h = Some c0 -> cnt s c0 >= 1) by (intros; eapply points_live; eauto).
  destruct o as [h v|h g|h g|h f|h]; simpl in *.
  - (* Create *) destruct OK as [Hh Hn]. destruct (I_next _ I (next s) ltac:(lia)) as [C0 F0].
    split; simpl.
    + intros c. pose proof (refs_set s h (Some (next s)) c (set (cnt s) (next s) 1) (set (val s) (next s) (Some v)) (S (next s)) (frees s) Hh) as R.
      rewrite Hn in R. simpl in R. unfold set at 1. unfold tgt in R. rewrite Nat.eqb_sym in R.
      destruct (c =? next s) eqn:E; rewrite (I_cnt _ I) in *; [apply Nat.eqb_eq in E; subst|]; lia.
    + intros c. unfold set. destruct (c =? next s); [split; [lia | discriminate] | apply (I_live _ I)].
    + intros c Hc. unfold set. replace (c =? next s) with false by (symmetry; apply Nat.eqb_neq; lia). apply (I_next _ I). lia.
    + intros g Hg. unfold set. replace (g =? h) with false by (symmetry; apply Nat.eqb_neq; lia). now apply (I_range _ I).
    + intros c. unfold set. destruct (c =? next s) eqn:E; [apply Nat.eqb_eq in E; subst; lia | apply (I_free _ I)].
  - (* Copy *) destruct OK as [Hh Hg]. destruct (h =? g) eqn:Ehg; auto. apply Nat.eqb_neq in Ehg.
    destruct (hs s g) as [c1|] eqn:Eg; auto.
    set (s1 := release s (hs s h)).
    assert (L1 : forall c0, hs s h = Some c0 -> cnt s c0 >= 1) by (intros; eapply L; eauto).
    split; simpl.
    + intros c. pose proof (refs_set s h (Some c1) c (cnt s) (val s) (next s) (frees s) Hh) as R. 
      rewrite (refs_hs_only _ {| hs := set (hs s) h (Some c1); cnt := cnt s; val := val s; next := next s; frees := frees s |})
        by (simpl; unfold s1; now rewrite release_hs).
      unfold s1. unfold set at 1. rewrite !release_cnt by auto.
      pose proof (tgt_le_cnt s I h c). pose proof (tgt_le_cnt s I h c1).
      assert (T1 : tgt (Some c1) c = if c =? c1 then 1 else 0) by (unfold tgt; now rewrite Nat.eqb_sym).
      rewrite ?(I_cnt _ I) in *. destruct (c =? c1) eqn:E; [apply Nat.eqb_eq in E; subst|]; lia.
    + intros c. unfold s1. pose proof (release_live s (hs s h) I L1 c) as RL.
      unfold set. destruct (c =? c1) eqn:E; auto. apply Nat.eqb_eq in E. subst c.
      (* c1 is still referenced by g, so it was not freed *)
      rewrite release_cnt in * by auto. pose proof (L g c1 Eg).
      assert (tgt (hs s h) c1 < cnt s c1 \/ tgt (hs s h) c1 = 0).
      { unfold tgt. destruct (hs s h) as [c0|] eqn:Eh; auto. destruct (c0 =? c1) eqn:E01; auto. apply Nat.eqb_eq in E01. subst c0.
        left. pose proof (two_refs s c1 h g Hh Hg Ehg Eh Eg). rewrite <- ?(I_cnt _ I) in *. lia. }
      split; [lia|]. intros Vn. apply RL in Vn. lia.
    + intros c Hc. unfold s1 in *. rewrite release_next in Hc. unfold set.
      destruct (I_next _ I c Hc) as [C0 F0].
      assert (c <> c1) by (intro; subst; pose proof (L g c1 Eg); lia).
      replace (c =? c1) with false by (symmetry; apply Nat.eqb_neq; auto).
      rewrite release_cnt by auto. split; [lia|]. apply (release_frees s (hs s h) I L1 c). auto.
    + intros x Hx. unfold s1. rewrite release_hs. unfold set. replace (x =? h) with false by (symmetry; apply Nat.eqb_neq; lia). now apply (I_range _ I).
    + intros c. unfold s1. pose proof (release_frees s (hs s h) I L1 c) as (F1 & F2 & _). split; auto.
      unfold set. destruct (c =? c1) eqn:E; auto. apply Nat.eqb_eq in E. subst c. intros _.
      (* c1 was live before (referenced by g): never freed, and release did not free it *)
      destruct (I_free _ I c1) as [_ F0]. specialize (F0 (L g c1 Eg)).
      unfold release. destruct (hs s h) as [c0|] eqn:Eh; auto. destruct (cnt s c0 =? 1) eqn:E1; simpl; auto.
      unfold set. destruct (c1 =? c0) eqn:E01; auto. apply Nat.eqb_eq in E01, E1. subst c0.
      pose proof (unique_owner s I h g c1 Eh Eg E1). congruence.
  - (* Move *) destruct OK as [Hh Hg]. destruct (h =? g) eqn:Ehg; auto. apply Nat.eqb_neq in Ehg.
    set (s1 := release s (hs s h)).
    assert (L1 : forall c0, hs s h = Some c0 -> cnt s c0 >= 1) by (intros; eapply L; eauto).
    split; simpl.
    + intros c.
      rewrite (refs_hs_only _ {| hs := set (set (hs s) h (hs s g)) g None; cnt := cnt s; val := val s; next := next s; frees := frees s |})
        by (simpl; unfold s1; now rewrite release_hs).
      unfold s1. rewrite release_cnt by auto.
      pose proof (refs_set s h (hs s g) c (cnt s) (val s) (next s) (frees s) Hh) as R1.
      set (sm := {| hs := set (hs s) h (hs s g); cnt := cnt s; val := val s; next := next s; frees := frees s |}) in *.
      pose proof (refs_set sm g None c (cnt s) (val s) (next s) (frees s) Hg) as R2.
      simpl in R2. rewrite (set_other (hs s) h (hs s g) g) in R2 by auto.
      pose proof (tgt_le_cnt s I h c). rewrite ?(I_cnt _ I) in *. lia.
    + apply (release_live s (hs s h) I L1).
    + intros c Hc. unfold s1 in *. rewrite release_next in Hc. destruct (I_next _ I c Hc) as [C0 F0].
      rewrite release_cnt by auto. split; [lia|]. apply (release_frees s (hs s h) I L1 c). auto.
    + intros x Hx. unfold s1. rewrite release_hs. unfold set.
      replace (x =? g) with false by (symmetry; apply Nat.eqb_neq; lia). replace (x =? h) with false by (symmetry; apply Nat.eqb_neq; lia). now apply (I_range _ I).
    + intros c. pose proof (release_frees s (hs s h) I L1 c) as (F1 & F2 & _). split; auto.
  - (* Write *) destruct (hs s h) as [c|] eqn:Eh; auto. destruct (val s c) as [v|] eqn:Ev; auto.
    destruct (cnt s c =? 1) eqn:E1.
    + (* in place *) split; simpl; try apply I.
      intros c'. unfold set. destruct (c' =? c) eqn:E; [|apply (I_live _ I)]. apply Nat.eqb_eq in E, E1. subst. split; [lia|discriminate].
    + (* detach *) apply Nat.eqb_neq in E1. pose proof (L h c Eh) as Lc. destruct (I_next _ I (next s) ltac:(lia)) as [C0 F0].
      assert (Nc : c <> next s) by (intro; subst; lia).
      split; simpl.
      * intros c'. pose proof (refs_set s h (Some (next s)) c' (cnt s) (val s) (next s) (frees s) OK) as R.
        rewrite (refs_hs_only _ {| hs := set (hs s) h (Some (next s)); cnt := cnt s; val := val s; next := next s; frees := frees s |}) by reflexivity.
        rewrite Eh in R. unfold tgt in R. rewrite (Nat.eqb_sym (next s) c') in R. rewrite (Nat.eqb_sym c c') in R.
        unfold set in *. rewrite ?(I_cnt _ I) in *.
        destruct (c' =? next s) eqn:En; destruct (c' =? c) eqn:Ec; try (apply Nat.eqb_eq in En); try (apply Nat.eqb_eq in Ec); subst; try congruence; lia.
      * intros c'. unfold set. destruct (c' =? next s) eqn:En; [split; [lia|discriminate]|].
        destruct (c' =? c) eqn:Ec; [|apply (I_live _ I)]. apply Nat.eqb_eq in Ec. subst. rewrite Ev. split; [lia|discriminate].
      * intros c' Hc'. unfold set. replace (c' =? next s) with false by (symmetry; apply Nat.eqb_neq; lia).
        destruct (I_next _ I c' ltac:(lia)) as [C0' F0']. destruct (c' =? c) eqn:Ec; [apply Nat.eqb_eq in Ec; subst; lia|]. auto.
      * intros x Hx. unfold set. replace (x =? h) with false by (symmetry; apply Nat.eqb_neq; lia). now apply (I_range _ I).
      * intros c'. destruct (I_free _ I c') as [F1 F2]. split; auto. unfold set.
        destruct (c' =? next s) eqn:En; [apply Nat.eqb_eq in En; subst; auto|].
        destruct (c' =? c) eqn:Ec; [apply Nat.eqb_eq in Ec; subst; intros; apply F2; lia | auto].
  - (* Destroy *) set (s1 := release s (hs s h)).
    assert (L1 : forall c0, hs s h = Some c0 -> cnt s c0 >= 1) by (intros; eapply L; eauto).
    split; simpl.
    + intros c.
      rewrite (refs_hs_only _ {| hs := set (hs s) h None; cnt := cnt s; val := val s; next := next s; frees := frees s |})
        by (simpl; unfold s1; now rewrite release_hs).
      unfold s1. rewrite release_cnt by auto.
      pose proof (refs_set s h None c (cnt s) (val s) (next s) (frees s) OK) as R. simpl in R.
      pose proof (tgt_le_cnt s I h c). rewrite ?(I_cnt _ I) in *. lia.
    + apply (release_live s (hs s h) I L1).
    + intros c Hc. unfold s1 in *. rewrite release_next in Hc. destruct (I_next _ I c Hc) as [C0 F0].
      rewrite release_cnt by auto. split; [lia|]. apply (release_frees s (hs s h) I L1 c). auto.
    + intros x Hx. unfold s1. rewrite release_hs. unfold set. destruct (x =? h); auto. now apply (I_range _ I).
    + intros c. pose proof (release_frees s (hs s h) I L1 c) as (F1 & F2 & _). split; auto.
Qed.


(* ---- whole histories ---- *)
Fixpoint ok_run (s : st) (ops : list op) : Prop :=
  match ops with [] => True | o :: r => ok_op s o /\ ok_run (step s o) r end.
Definition run (s : st) (ops : list op) : st := fold_left step ops s.
Definition spec_run (vs : nat -> option V) (ops : list op) := fold_left spec_step ops vs.

Definition init : st := {| hs := fun _ => None; cnt := fun _ => 0; val := fun _ => None; next := 0; frees := fun _ => 0 |}.
Lemma init_inv : Inv init.
Proof. split; simpl; auto; try (intros; split; auto; lia); try tauto.
  intros c. unfold refs. simpl. induction (seq 0 H); auto. Qed.

Lemma spec_step_ext vs vs' o : (forall g, vs g = vs' g) -> forall g, spec_step vs o g = spec_step vs' o g.
Proof. intros E g. destruct o; simpl; unfold set; rewrite ?E;
  repeat match goal with
         | |- context [if ?b then _ else _] => destruct b
         | |- context [match vs' ?x with _ => _ end] => destruct (vs' x)
         end; rewrite ?E; auto. Qed.

Theorem run_refines : forall ops s, Inv s -> ok_run s ops ->
  Inv (run s ops) /\ forall g, abs (run s ops) g = spec_run (abs s) ops g.
Proof.
  induction ops as [|o r IH]; intros s I OK; simpl in *; [auto|]. destruct OK as [O1 O2].
  destruct (IH (step s o) (step_inv s o I O1) O2) as [I' R]. split; auto.
  intros g. rewrite R. clear R I' IH O2.
  assert (E : forall g, abs (step s o) g = spec_step (abs s) o g) by (apply step_refines; auto).
  revert E. generalize (abs (step s o)) (spec_step (abs s) o). induction r as [|o' r IHr]; intros v1 v2 E; simpl; auto.
  apply IHr. apply spec_step_ext. exact E. Qed.

(* storage: every cell is freed at most once, and once no handle is left nothing is leaked *)
Corollary no_double_free ops : ok_run init ops -> forall c, frees (run init ops) c <= 1.
Proof. intros OK c. destruct (run_refines ops init init_inv OK) as [I _]. apply (I_free _ I). Qed.

Corollary no_leak ops : ok_run init ops -> (forall h, hs (run init ops) h = None) -> forall c, val (run init ops) c = None.
Proof. intros OK E c. destruct (run_refines ops init init_inv OK) as [I _]. apply (I_live _ I). rewrite (I_cnt _ I).
  unfold refs. induction (seq 0 H); simpl; auto. now rewrite E. Qed.

End COW.
Print Assumptions step_refines.
Print Assumptions run_refines.
Print Assumptions no_leak.
