From Coq Require Import List Arith Lia Bool.
Import ListNotations.

(* C17: operations on private objects (reading only immutable shared tables, which are therefore just part
   of the functions) give every thread its sequential results under EVERY schedule. *)
Section Determinism.
Variable V : Type.
Definition store := nat -> V.                       (* object id -> value *)

Record op := { foot : nat -> bool; run : store -> store }.
(* an operation writes only its footprint and depends only on its footprint *)
Definition well_behaved (o : op) : Prop :=
  (forall s i, foot o i = false -> run o s i = s i) /\
  (forall s s', (forall i, foot o i = true -> s i = s' i) -> forall i, foot o i = true -> run o s i = run o s' i).

Variable T : nat.                                   (* number of threads *)
Variable region : nat -> nat -> bool.               (* region t i: object i is private to thread t *)
Hypothesis disjoint : forall t u i, t <> u -> region t i = true -> region u i = false.
Variable prog : nat -> list op.                     (* program of each thread *)
Hypothesis prog_ok : forall t o, In o (prog t) -> well_behaved o /\ forall i, foot o i = true -> region t i = true.

Definition run_seq (l : list op) (s : store) : store := fold_left (fun s o => run o s) l s.

(* global state: the store and, per thread, how many of its operations have run *)
Definition gstate := (store * (nat -> nat))%type.
Definition step (t : nat) (g : gstate) : gstate :=
  let '(s, pc) := g in
  match nth_error (prog t) (pc t) with
  | None => g                                                   (* thread finished: no-op *)
  | Some o => (run o s, fun u => if u =? t then S (pc t) else pc u)
  end.
Definition exec (sched : list nat) (g : gstate) : gstate := fold_left (fun g t => step t g) sched g.

Variable init : store.
Definition Inv (g : gstate) : Prop :=
  forall t i, region t i = true -> fst g i = run_seq (firstn (snd g t) (prog t)) init i.

Lemma run_seq_snoc l o s : run_seq (l ++ [o]) s = run o (run_seq l s).
Proof. unfold run_seq. now rewrite fold_left_app. Qed.

Lemma firstn_S_nth {A} (l : list A) k x : nth_error l k = Some x -> firstn (S k) l = firstn k l ++ [x].
Proof. revert k; induction l as [|a l IH]; intros [|k] H; simpl in *; try discriminate.
  - now inversion H. - f_equal. now apply IH. Qed.

Lemma step_inv t g : Inv g -> Inv (step t g).
Proof.
  destruct g as [s pc]. intros I. unfold step. destruct (nth_error (prog t) (pc t)) as [o|] eqn:E; [|exact I].
  destruct (prog_ok t o (nth_error_In _ _ E)) as [[W1 W2] Hf].
  intros u i Hr. cbn [fst snd].
  destruct (Nat.eq_dec u t) as [->|N].
  - rewrite Nat.eqb_refl. rewrite (firstn_S_nth _ _ _ E), run_seq_snoc.
    destruct (foot o i) eqn:Fi.
    + apply W2; auto.
    + rewrite !W1 by auto. apply (I t i Hr).
  - replace (u =? t) with false by (symmetry; apply Nat.eqb_neq; auto).
    rewrite W1; [apply (I u i Hr)|]. destruct (foot o i) eqn:Fi; auto.
    specialize (Hf i Fi). rewrite (disjoint t u i ltac:(auto) Hf) in Hr. discriminate.
Qed.

Theorem exec_inv sched : Inv (exec sched (init, fun _ => 0)).
Proof.
  unfold exec. assert (I0 : Inv (init, fun _ : nat => 0)) by (intros t i _; reflexivity).
  revert I0. generalize (init, fun _ : nat => 0). induction sched as [|t r IH]; intros g I; simpl; auto.
  apply IH. now apply step_inv.
Qed.

(* whatever the schedule, once a thread has run all its operations its objects hold its sequential result *)
Corollary deterministic sched t i : region t i = true ->
  let g := exec sched (init, fun _ => 0) in
  (length (prog t) <= snd g t) -> fst g i = run_seq (prog t) init i.
Proof. intros Hr g Hd. pose proof (exec_inv sched t i Hr) as E. fold g in E. rewrite E. now rewrite firstn_all2. Qed.
End Determinism.
Print Assumptions deterministic.
