(* core::initialize() translated from the source (gen_initialize_uN): for every modulus the powers of phi and their Shoup companions, the
   inverse of the degree, the table n^-1 phi^-i, and -- through prep_wtab with both pointers in ONE array -- the twiddle tables of the forward
   and inverse transforms, are the tables of NTTInst.v, the model the transform theorems (C01/C02) are stated on. *)
From Coq Require Import ZArith List Lia Bool Arith.
From NTT Require Import Layer Tables FlatTable NTTInst CxxSem MemSem LoopSpec LoopRun PrepSpec PrepSpec1 GaussSetSpec.
Import ListNotations.
Local Open Scope Z_scope.

Definition StI := (list Z * list Z * list Z * list Z * list Z * list Z * list Z)%type.
Definition init_sh (bits KK MAXDEG : Z) (castw : Z -> Z) (mmc : list Z -> list Z -> Z -> Z -> Z -> option Z) (prepc : list Z -> list Z -> nat -> Z -> list Z -> Z -> Z -> Z -> Z -> option (list Z * Z * Z))
  (fuel : nat) (degree : Z) (omegas : list Z) (invomegas : list Z) (phis : list Z) (shoupphis : list Z) (invpolyDegree : list Z) (invpoly_times_invphis : list Z) (shoupinvpoly_times_invphis : list Z) (nmoduli : Z) (primitive_roots : list Z) (P : list Z) (Pn : list Z) (invkMaxPolyDegree : list Z) : option StI :=
  (bind (for_up 0 nmoduli 1 (fun currentModulus_1 '(phis, shoupphis, invpolyDegree, invpoly_times_invphis, shoupinvpoly_times_invphis, omegas, invomegas) => (let phi_2 := (tabP primitive_roots currentModulus_1) in (bind (for_up 0 (uw 64 (KK - (Z.log2 degree))) 1 (fun i_3 '(phis, shoupphis, invpolyDegree, invpoly_times_invphis, shoupinvpoly_times_invphis, omegas, invomegas, phi_4) => (bind (mmc P Pn currentModulus_1 phi_4 phi_4) (fun r_5 => (let phi_6 := r_5 in Some (phis, shoupphis, invpolyDegree, invpoly_times_invphis, shoupinvpoly_times_invphis, omegas, invomegas, phi_6))))) (phis, shoupphis, invpolyDegree, invpoly_times_invphis, shoupinvpoly_times_invphis, omegas, invomegas, phi_2)) (fun '(phis, shoupphis, invpolyDegree, invpoly_times_invphis, shoupinvpoly_times_invphis, omegas, invomegas, phi_7) => (let temp_8 := 1 in (bind (for_up 0 degree 1 (fun i_9 '(phis, shoupphis, invpolyDegree, invpoly_times_invphis, shoupinvpoly_times_invphis, omegas, invomegas, temp_10) => (bind (st phis ((currentModulus_1 * degree) + i_9) temp_10) (fun phis => (bind (st shoupphis ((currentModulus_1 * degree) + i_9) (uw bits ((uw (2 * bits) (temp_10 * 2 ^ bits)) / (tabP P currentModulus_1)))) (fun shoupphis => (bind (mmc P Pn currentModulus_1 temp_10 phi_7) (fun r_11 => (let temp_12 := r_11 in Some (phis, shoupphis, invpolyDegree, invpoly_times_invphis, shoupinvpoly_times_invphis, omegas, invomegas, temp_12))))))))) (phis, shoupphis, invpolyDegree, invpoly_times_invphis, shoupinvpoly_times_invphis, omegas, invomegas, temp_8)) (fun '(phis, shoupphis, invpolyDegree, invpoly_times_invphis, shoupinvpoly_times_invphis, omegas, invomegas, temp_13) => (bind (ld phis ((currentModulus_1 * degree) + (uw 64 (degree - 1)))) (fun ld_14 => (bind (mmc P Pn currentModulus_1 temp_13 ld_14) (fun r_15 => (let invphi_16 := r_15 in (bind (mmc P Pn currentModulus_1 (tabP invkMaxPolyDegree currentModulus_1) (castw (MAXDEG / degree))) (fun r_17 => (bind (st invpolyDegree (0 + currentModulus_1) r_17) (fun invpolyDegree => (bind (ld invpolyDegree (0 + currentModulus_1)) (fun ld_18 => (let temp_19 := ld_18 in (bind (for_up 0 degree 1 (fun i_20 '(phis, shoupphis, invpolyDegree, invpoly_times_invphis, shoupinvpoly_times_invphis, omegas, invomegas, temp_21) => (bind (st invpoly_times_invphis ((currentModulus_1 * degree) + i_20) temp_21) (fun invpoly_times_invphis => (bind (st shoupinvpoly_times_invphis ((currentModulus_1 * degree) + i_20) (uw bits ((uw (2 * bits) (temp_21 * 2 ^ bits)) / (tabP P currentModulus_1)))) (fun shoupinvpoly_times_invphis => (bind (mmc P Pn currentModulus_1 temp_21 invphi_16) (fun r_22 => (let temp_23 := r_22 in Some (phis, shoupphis, invpolyDegree, invpoly_times_invphis, shoupinvpoly_times_invphis, omegas, invomegas, temp_23))))))))) (phis, shoupphis, invpolyDegree, invpoly_times_invphis, shoupinvpoly_times_invphis, omegas, invomegas, temp_19)) (fun '(phis, shoupphis, invpolyDegree, invpoly_times_invphis, shoupinvpoly_times_invphis, omegas, invomegas, temp_24) => (bind (mmc P Pn currentModulus_1 phi_7 phi_7) (fun r_25 => (let omega_26 := r_25 in (bind (prepc P Pn fuel degree omegas (currentModulus_1 * (degree * 2)) ((currentModulus_1 * (degree * 2)) + degree) omega_26 currentModulus_1) (fun '(omegas, _, _) => (bind (mmc P Pn currentModulus_1 invphi_16 invphi_16) (fun r_27 => (let invomega_28 := r_27 in (bind (prepc P Pn fuel degree invomegas (currentModulus_1 * (degree * 2)) ((currentModulus_1 * (degree * 2)) + degree) invomega_28 currentModulus_1) (fun '(invomegas, _, _) => Some (phis, shoupphis, invpolyDegree, invpoly_times_invphis, shoupinvpoly_times_invphis, omegas, invomegas)))))))))))))))))))))))))))))))) (phis, shoupphis, invpolyDegree, invpoly_times_invphis, shoupinvpoly_times_invphis, omegas, invomegas)) (fun '(phis, shoupphis, invpolyDegree, invpoly_times_invphis, shoupinvpoly_times_invphis, omegas, invomegas) => Some (phis, shoupphis, invpolyDegree, invpoly_times_invphis, shoupinvpoly_times_invphis, omegas, invomegas))).

(* ---- list facts ---- *)
Lemma splice_step base j (vs X0 : list Z) : (base + j < length X0)%nat -> (j < length vs)%nat ->
  st (splice base (firstn j vs) X0) (Z.of_nat (base + j)) (nth j vs 0) = Some (splice base (firstn (S j) vs) X0).
Proof.
  intros Hb Hj. unfold splice. rewrite !firstn_length. replace (Nat.min j (length vs)) with j by lia. replace (Nat.min (S j) (length vs)) with (S j) by lia.
  rewrite app_assoc. assert (Lp : length (firstn base X0 ++ firstn j vs) = (base + j)%nat) by (rewrite app_length, !firstn_length; lia).
  rewrite <- Lp at 2. rewrite st_append by (apply skipn_nonnil; lia). f_equal.
  rewrite (SamplerSpec.firstn_S_nth' vs j Hj). rewrite <- SamplerSpec.skipn_S_tl'. rewrite <- !app_assoc. replace (base + S j)%nat with (S (base + j)) by lia. reflexivity.
Qed.
Lemma splice_nil base (X0 : list Z) : (base <= length X0)%nat -> splice base [] X0 = X0.
Proof. intros H. unfold splice. cbn [length app]. rewrite Nat.add_0_r. apply firstn_skipn. Qed.
Lemma splice_len base vs (X0 : list Z) : (base + length vs <= length X0)%nat -> length (splice base vs X0) = length X0.
Proof. apply splice_length. Qed.
Lemma pows_len p wv : forall c s, length (pows p wv c s) = c. Proof. induction c as [|c IH]; intros s; cbn [pows length]; [reflexivity | rewrite IH; reflexivity]. Qed.

(* what prep_wtab (both pointers in one array) leaves, as two splices *)
Lemma firstn_exact (a b : list Z) : firstn (length a) (a ++ b) = a.
Proof. rewrite <- (Nat.add_0_r (length a)). rewrite firstn_app_2. cbn [firstn]. apply app_nil_r. Qed.
Lemma skipn_exact (a b : list Z) c : skipn (length a + c) (a ++ b) = skipn c b.
Proof. induction a as [|x a IH]; [reflexivity|]. cbn [length app Nat.add skipn]. exact IH. Qed.
Lemma prep_res_splice (H A0 B0 fl sh : list Z) : length fl = length sh -> (length fl <= length A0)%nat -> (length sh <= length B0)%nat ->
  (H ++ fl) ++ skipn (length fl) A0 ++ sh ++ skipn (length sh) B0 = splice (length H) fl (splice (length H + length A0) sh (H ++ A0 ++ B0)).
Proof.
  intros Hl HA HB.
  assert (E1 : splice (length H + length A0) sh (H ++ A0 ++ B0) = H ++ A0 ++ sh ++ skipn (length sh) B0).
  { unfold splice. set (X := H ++ A0). assert (LX : length X = (length H + length A0)%nat) by (unfold X; apply app_length).
    replace (H ++ A0 ++ B0) with (X ++ B0) by (unfold X; rewrite <- app_assoc; reflexivity). rewrite <- LX.
    rewrite firstn_exact, skipn_exact. unfold X. rewrite <- !app_assoc. reflexivity. }
  rewrite E1. unfold splice. rewrite firstn_exact, skipn_exact.
  rewrite skipn_app. replace (length fl - length A0)%nat with 0%nat by lia. cbn [skipn]. rewrite <- !app_assoc. reflexivity.
Qed.

Section Init.
Variable bits : Z.
Hypothesis Hbits : 0 < bits.
Variable K : nat.
Variable castw : Z -> Z.
Hypothesis Hcast : forall v, 0 <= v < 2 ^ bits -> castw v = v.
Variable mmc : list Z -> list Z -> Z -> Z -> Z -> option Z.
Variable prepc : list Z -> list Z -> nat -> Z -> list Z -> Z -> Z -> Z -> Z -> option (list Z * Z * Z).
Variable k0 : nat.
Notation k := (S k0).
Notation n := (2 ^ S k0)%nat.
Hypothesis HkK : (S k0 <= K)%nat.
Hypothesis HK : (K <= 30)%nat.
Variables (nm : nat) (P Pn roots invk : list Z).
Notation pc := (fun cm : nat => nth cm P 0).
Notation gc := (fun cm : nat => nth cm roots 0).
Notation ikc := (fun cm : nat => nth cm invk 0).
Hypothesis Hp : forall cm, (cm < nm)%nat -> 2 ^ Z.of_nat K < pc cm < 2 ^ bits.
Hypothesis Hg : forall cm, (cm < nm)%nat -> 0 <= gc cm < pc cm.
Hypothesis Hik : forall cm, (cm < nm)%nat -> 0 <= ikc cm < pc cm.
Hypothesis Hmm : forall cm x y, (cm < nm)%nat -> 0 <= x < pc cm -> 0 <= y < pc cm -> mmc P Pn (Z.of_nat cm) x y = Some ((x * y) mod pc cm).
Hypothesis Hprep : forall cm fuel H A0 B0 w0, (cm < nm)%nat -> (k < fuel)%nat -> (n - 1 <= length A0)%nat -> (n - 1 <= length B0)%nat -> Z.of_nat (length H + length A0 + length B0) < 2 ^ 62 -> 0 <= w0 < pc cm ->
  exists o1 o2, prepc P Pn fuel (Z.of_nat n) (H ++ A0 ++ B0) (Z.of_nat (length H)) (Z.of_nat (length H + length A0)) w0 (Z.of_nat cm) =
  Some ((H ++ flat (pc cm) k w0) ++ skipn (n - 1) A0 ++ map (shoup bits (pc cm)) (flat (pc cm) k w0) ++ skipn (n - 1) B0, o1, o2).

Lemma n_pos : (0 < n)%nat. Proof. apply Nat.neq_0_lt_0, Nat.pow_nonzero. lia. Qed.
Lemma n_small : Z.of_nat n <= 2 ^ 30.
Proof. rewrite pow2_Z. apply Z.pow_le_mono_r; lia. Qed.
Lemma p_gt1 cm : (cm < nm)%nat -> 1 < pc cm.
Proof. intros H. pose proof (Hp cm H). assert (0 < 2 ^ Z.of_nat K) by (apply Z.pow_pos_nonneg; lia). lia. Qed.

(* ---- the row of modulus cm, as NTTInst defines it ---- *)
Definition PHI (cm : nat) : Z := phi (pc cm) (gc cm) K k0.
Definition PHIS (cm : nat) : list Z := phis (pc cm) (gc cm) K k0.
Definition INVPHI (cm : nat) : Z := invphi (pc cm) (gc cm) K k0.
Definition NINV (cm : nat) : Z := ninv (pc cm) (ikc cm) K k0.
Definition CS (cm : nat) : list Z := cs (pc cm) (gc cm) (ikc cm) K k0.
Definition OMEGA (cm : nat) : Z := omega (pc cm) (gc cm) K k0.
Definition INVOMEGA (cm : nat) : Z := invomega (pc cm) (gc cm) K k0.
Definition SH (cm : nat) (l : list Z) : list Z := map (shoup bits (pc cm)) l.

(* ---- the squarings of the tabulated root ---- *)
Lemma sqs_snoc p j : forall x, sqs p (S j) x = mulm p (sqs p j x) (sqs p j x).
Proof. induction j as [|j IH]; intros x; [reflexivity|]. change (sqs p (S (S j)) x) with (sqs p (S j) (mulm p x x)). rewrite IH. reflexivity. Qed.
Lemma sqs_range p j x : 1 < p -> 0 <= x < p -> 0 <= sqs p j x < p.
Proof. intros Hp1 Hx. destruct j as [|j]; [exact Hx|]. rewrite sqs_snoc. unfold mulm. apply Z.mod_pos_bound. lia. Qed.

Lemma L1 cm (S7 : StI) : (cm < nm)%nat -> let '(phis, shoupphis, invpolyDegree, invpoly_times_invphis, shoupinvpoly_times_invphis, omegas, invomegas) := S7 in
  (for_up 0 (uw 64 ((Z.of_nat K) - (Z.log2 (Z.of_nat n)))) 1 (fun i_3 '(phis, shoupphis, invpolyDegree, invpoly_times_invphis, shoupinvpoly_times_invphis, omegas, invomegas, phi_4) => (bind (mmc P Pn (Z.of_nat cm) phi_4 phi_4) (fun r_5 => (let phi_6 := r_5 in Some (phis, shoupphis, invpolyDegree, invpoly_times_invphis, shoupinvpoly_times_invphis, omegas, invomegas, phi_6))))) (phis, shoupphis, invpolyDegree, invpoly_times_invphis, shoupinvpoly_times_invphis, omegas, invomegas, gc cm))
  = Some (phis, shoupphis, invpolyDegree, invpoly_times_invphis, shoupinvpoly_times_invphis, omegas, invomegas, PHI cm).
Proof.
  intros Hc. destruct S7 as [[[[[[a1 a2] a3] a4] a5] a6] a7].
  assert (El : Z.log2 (Z.of_nat n) = Z.of_nat k) by (rewrite pow2_Z; apply Z.log2_pow2; lia).
  rewrite El. rewrite uw_small by lia. replace (Z.of_nat K - Z.of_nat k) with (Z.of_nat (K - k)) by lia.
  pose proof (p_gt1 cm Hc) as Hp1. pose proof (Hg cm Hc) as Hgc.
  rewrite (for_up_steps (fun j : nat => (a1, a2, a3, a4, a5, a6, a7, sqs (pc cm) j (gc cm))) (K - k)); try lia; [reflexivity|].
  intros j Hj. cbv beta iota. pose proof (sqs_range (pc cm) j (gc cm) Hp1 Hgc) as Rs.
  rewrite Hmm by (try exact Hc; exact Rs). cbn [bind]. rewrite sqs_snoc. reflexivity.
Qed.

Lemma curs_range p wv start j : 1 < p -> 0 <= start < p -> 0 <= curs p wv start j < p.
Proof. intros Hp1 Hs. destruct j as [|j]; cbn [curs]; [exact Hs | apply Z.mod_pos_bound; lia]. Qed.
Lemma nth_map_shoup p (l : list Z) j : (j < length l)%nat -> nth j (map (shoup bits p) l) 0 = shoup bits p (nth j l 0).
Proof. intros H. rewrite (nth_indep _ 0 (shoup bits p 0)) by (rewrite map_length; exact H). apply map_nth. Qed.
Lemma firstn_map_comm (f : Z -> Z) l j : firstn j (map f l) = map f (firstn j l). Proof. apply firstn_map. Qed.

Lemma L2 cm (a1 a2 a3 a4 a5 a6 a7 : list Z) (wv start : Z) : (cm < nm)%nat -> 0 <= wv < pc cm -> 0 <= start < pc cm ->
  (cm * n + n <= length a1)%nat -> (cm * n + n <= length a2)%nat -> Z.of_nat (length a1) < 2 ^ 62 -> Z.of_nat (length a2) < 2 ^ 62 ->
  (for_up 0 (Z.of_nat n) 1 (fun i_9 '(phis, shoupphis, invpolyDegree, invpoly_times_invphis, shoupinvpoly_times_invphis, omegas, invomegas, temp_10) => (bind (st phis (((Z.of_nat cm) * (Z.of_nat n)) + i_9) temp_10) (fun phis => (bind (st shoupphis (((Z.of_nat cm) * (Z.of_nat n)) + i_9) (uw bits ((uw (2 * bits) (temp_10 * 2 ^ bits)) / (tabP P (Z.of_nat cm))))) (fun shoupphis => (bind (mmc P Pn (Z.of_nat cm) temp_10 wv) (fun r_11 => (let temp_12 := r_11 in Some (phis, shoupphis, invpolyDegree, invpoly_times_invphis, shoupinvpoly_times_invphis, omegas, invomegas, temp_12))))))))) (a1, a2, a3, a4, a5, a6, a7, start))
  = Some (splice (cm * n) (pows (pc cm) wv n start) a1, splice (cm * n) (SH cm (pows (pc cm) wv n start)) a2, a3, a4, a5, a6, a7, curs (pc cm) wv start n).
Proof.
  intros Hc Hwv Hst Hl1 Hl2 Hs1 Hs2. pose proof (p_gt1 cm Hc) as Hp1. pose proof (Hp cm Hc) as Hpc. pose proof n_small as Hns.
  set (vs := pows (pc cm) wv n start). assert (Lvs : length vs = n) by (unfold vs; apply pows_len).
  set (Q := fun j : nat => (splice (cm * n) (firstn j vs) a1, splice (cm * n) (firstn j (SH cm vs)) a2, a3, a4, a5, a6, a7, curs (pc cm) wv start j)).
  assert (E0 : (a1, a2, a3, a4, a5, a6, a7, start) = Q 0%nat) by (unfold Q; cbn [firstn curs]; rewrite !splice_nil by lia; reflexivity).
  rewrite E0. rewrite (for_up_steps Q n); try lia.
  - unfold Q. rewrite !firstn_all2 by (unfold SH; rewrite ?map_length; lia). reflexivity.
  - intros j Hj. unfold Q at 1. cbv beta iota. replace (0 + 1 * Z.of_nat j) with (Z.of_nat j) by lia.
    replace (Z.of_nat cm * Z.of_nat n + Z.of_nat j) with (Z.of_nat (cm * n + j)) by lia.
    pose proof (curs_range (pc cm) wv start j Hp1 Hst) as Rc.
    assert (Ev : curs (pc cm) wv start j = nth j vs 0) by (unfold vs; symmetry; apply (pows_cur bits); exact Hj).
    rewrite Ev at 1. rewrite splice_step by lia. cbn [bind].
    unfold tabP. rewrite Nat2Z.id. rewrite (shoup_small bits Hbits (pc cm) Hp1 (proj2 Hpc)) by exact Rc.
    assert (Es : shoup bits (pc cm) (curs (pc cm) wv start j) = nth j (SH cm vs) 0) by (unfold SH; rewrite nth_map_shoup by lia; rewrite Ev; reflexivity).
    rewrite Es. rewrite splice_step by (unfold SH; rewrite ?map_length; lia). cbn [bind].
    rewrite Hmm by (try exact Hc; try exact Rc; exact Hwv). cbn [bind]. reflexivity.
Qed.

Lemma L3 cm (a1 a2 a3 a4 a5 a6 a7 : list Z) (wv start : Z) : (cm < nm)%nat -> 0 <= wv < pc cm -> 0 <= start < pc cm ->
  (cm * n + n <= length a4)%nat -> (cm * n + n <= length a5)%nat -> Z.of_nat (length a4) < 2 ^ 62 -> Z.of_nat (length a5) < 2 ^ 62 ->
  (for_up 0 (Z.of_nat n) 1 (fun i_20 '(phis, shoupphis, invpolyDegree, invpoly_times_invphis, shoupinvpoly_times_invphis, omegas, invomegas, temp_21) => (bind (st invpoly_times_invphis (((Z.of_nat cm) * (Z.of_nat n)) + i_20) temp_21) (fun invpoly_times_invphis => (bind (st shoupinvpoly_times_invphis (((Z.of_nat cm) * (Z.of_nat n)) + i_20) (uw bits ((uw (2 * bits) (temp_21 * 2 ^ bits)) / (tabP P (Z.of_nat cm))))) (fun shoupinvpoly_times_invphis => (bind (mmc P Pn (Z.of_nat cm) temp_21 wv) (fun r_22 => (let temp_23 := r_22 in Some (phis, shoupphis, invpolyDegree, invpoly_times_invphis, shoupinvpoly_times_invphis, omegas, invomegas, temp_23))))))))) (a1, a2, a3, a4, a5, a6, a7, start))
  = Some (a1, a2, a3, splice (cm * n) (pows (pc cm) wv n start) a4, splice (cm * n) (SH cm (pows (pc cm) wv n start)) a5, a6, a7, curs (pc cm) wv start n).
Proof.
  intros Hc Hwv Hst Hl1 Hl2 Hs1 Hs2. pose proof (p_gt1 cm Hc) as Hp1. pose proof (Hp cm Hc) as Hpc. pose proof n_small as Hns.
  set (vs := pows (pc cm) wv n start). assert (Lvs : length vs = n) by (unfold vs; apply pows_len).
  set (Q := fun j : nat => (a1, a2, a3, splice (cm * n) (firstn j vs) a4, splice (cm * n) (firstn j (SH cm vs)) a5, a6, a7, curs (pc cm) wv start j)).
  assert (E0 : (a1, a2, a3, a4, a5, a6, a7, start) = Q 0%nat) by (unfold Q; cbn [firstn curs]; rewrite !splice_nil by lia; reflexivity).
  rewrite E0. rewrite (for_up_steps Q n); try lia.
  - unfold Q. rewrite !firstn_all2 by (unfold SH; rewrite ?map_length; lia). reflexivity.
  - intros j Hj. unfold Q at 1. cbv beta iota. replace (0 + 1 * Z.of_nat j) with (Z.of_nat j) by lia.
    replace (Z.of_nat cm * Z.of_nat n + Z.of_nat j) with (Z.of_nat (cm * n + j)) by lia.
    pose proof (curs_range (pc cm) wv start j Hp1 Hst) as Rc.
    assert (Ev : curs (pc cm) wv start j = nth j vs 0) by (unfold vs; symmetry; apply (pows_cur bits); exact Hj).
    rewrite Ev at 1. rewrite splice_step by lia. cbn [bind].
    unfold tabP. rewrite Nat2Z.id. rewrite (shoup_small bits Hbits (pc cm) Hp1 (proj2 Hpc)) by exact Rc.
    assert (Es : shoup bits (pc cm) (curs (pc cm) wv start j) = nth j (SH cm vs) 0) by (unfold SH; rewrite nth_map_shoup by lia; rewrite Ev; reflexivity).
    rewrite Es. rewrite splice_step by (unfold SH; rewrite ?map_length; lia). cbn [bind].
    rewrite Hmm by (try exact Hc; try exact Rc; exact Hwv). cbn [bind]. reflexivity.
Qed.

Lemma last_pow_curs p wv : forall cnt c0, last_pow p cnt wv c0 = curs p wv c0 cnt.
Proof.
  induction cnt as [|c IH]; intros c0; [reflexivity|]. cbn [last_pow]. rewrite IH. unfold mulm. rewrite curs_shift. reflexivity.
Qed.
Lemma upd_same' j a (l : list Z) : (j < length l)%nat -> nth j (upd j a l) 0 = a.
Proof. intros H. rewrite upd_nth. rewrite Nat.eqb_refl. assert (E : (j <? length l)%nat = true) by (apply Nat.ltb_lt; exact H). rewrite E. reflexivity. Qed.
Lemma pows_range p wv c start j : 1 < p -> 0 <= start < p -> (j < c)%nat -> 0 <= nth j (pows p wv c start) 0 < p.
Proof. intros Hp1 Hs Hj. rewrite (pows_cur bits) by exact Hj. apply curs_range; assumption. Qed.

Variable fuel : nat.
Hypothesis Hfuel : (k < fuel)%nat.
Variables (ph0 sph0 ipd0 ipi0 sipi0 om0 iom0 : list Z).
Hypothesis Lph : length ph0 = (nm * n)%nat.
Hypothesis Lsph : length sph0 = (nm * n)%nat.
Hypothesis Lipd : length ipd0 = nm.
Hypothesis Lipi : length ipi0 = (nm * n)%nat.
Hypothesis Lsipi : length sipi0 = (nm * n)%nat.
Hypothesis Lom : length om0 = (nm * (n * 2))%nat.
Hypothesis Liom : length iom0 = (nm * (n * 2))%nat.
Hypothesis Hnm : Z.of_nat nm < 2 ^ 28.

Definition FL (cm : nat) (wv : Z) : list Z := flat (pc cm) k wv.
Definition step_st (c : nat) (S7 : StI) : StI :=
  let '(a1, a2, a3, a4, a5, a6, a7) := S7 in
  (splice (c * n) (PHIS c) a1, splice (c * n) (SH c (PHIS c)) a2, upd c (NINV c) a3, splice (c * n) (CS c) a4, splice (c * n) (SH c (CS c)) a5,
   splice (c * (n * 2)) (FL c (OMEGA c)) (splice (c * (n * 2) + n) (SH c (FL c (OMEGA c))) a6),
   splice (c * (n * 2)) (FL c (INVOMEGA c)) (splice (c * (n * 2) + n) (SH c (FL c (INVOMEGA c))) a7)).
Fixpoint ST (c : nat) : StI := match c with O => (ph0, sph0, ipd0, ipi0, sipi0, om0, iom0) | S c' => step_st c' (ST c') end.

Definition lens_ok (S7 : StI) : Prop := let '(a1, a2, a3, a4, a5, a6, a7) := S7 in
  length a1 = (nm * n)%nat /\ length a2 = (nm * n)%nat /\ length a3 = nm /\ length a4 = (nm * n)%nat /\ length a5 = (nm * n)%nat /\ length a6 = (nm * (n * 2))%nat /\ length a7 = (nm * (n * 2))%nat.
Lemma PHIS_len c : length (PHIS c) = n. Proof. unfold PHIS, phis. apply pows_len. Qed.
Lemma CS_len c : length (CS c) = n. Proof. unfold CS, cs. apply pows_len. Qed.
Lemma FL_len c wv : length (FL c wv) = (n - 1)%nat. Proof. unfold FL. pose proof (flat_length (pc c) k wv) as X. cbv beta in X. rewrite <- X. symmetry. apply Nat.add_sub. Qed.
Lemma step_lens c S7 : (c < nm)%nat -> lens_ok S7 -> lens_ok (step_st c S7).
Proof.
  intros Hc. destruct S7 as [[[[[[a1 a2] a3] a4] a5] a6] a7]. unfold lens_ok, step_st. intros (H1 & H2 & H3 & H4 & H5 & H6 & H7). pose proof n_pos.
  repeat split; rewrite ?upd_length; try assumption;
   repeat (rewrite splice_length; [| unfold SH; rewrite ?map_length, ?PHIS_len, ?CS_len, ?FL_len, ?splice_length; unfold SH; rewrite ?map_length, ?FL_len; nia]); assumption.
Qed.
Lemma ST_lens c : (c <= nm)%nat -> lens_ok (ST c).
Proof. induction c as [|c IH]; intros Hc; [cbn [ST]; unfold lens_ok; repeat split; assumption|]. cbn [ST]. apply step_lens; [lia | apply IH; lia]. Qed.

(* one modulus *)
Lemma row_iter cm S7 : (cm < nm)%nat -> lens_ok S7 ->
  (fun currentModulus_1 '(phis, shoupphis, invpolyDegree, invpoly_times_invphis, shoupinvpoly_times_invphis, omegas, invomegas) => (let phi_2 := (tabP roots currentModulus_1) in (bind (for_up 0 (uw 64 ((Z.of_nat K) - (Z.log2 (Z.of_nat n)))) 1 (fun i_3 '(phis, shoupphis, invpolyDegree, invpoly_times_invphis, shoupinvpoly_times_invphis, omegas, invomegas, phi_4) => (bind (mmc P Pn currentModulus_1 phi_4 phi_4) (fun r_5 => (let phi_6 := r_5 in Some (phis, shoupphis, invpolyDegree, invpoly_times_invphis, shoupinvpoly_times_invphis, omegas, invomegas, phi_6))))) (phis, shoupphis, invpolyDegree, invpoly_times_invphis, shoupinvpoly_times_invphis, omegas, invomegas, phi_2)) (fun '(phis, shoupphis, invpolyDegree, invpoly_times_invphis, shoupinvpoly_times_invphis, omegas, invomegas, phi_7) => (let temp_8 := 1 in (bind (for_up 0 (Z.of_nat n) 1 (fun i_9 '(phis, shoupphis, invpolyDegree, invpoly_times_invphis, shoupinvpoly_times_invphis, omegas, invomegas, temp_10) => (bind (st phis ((currentModulus_1 * (Z.of_nat n)) + i_9) temp_10) (fun phis => (bind (st shoupphis ((currentModulus_1 * (Z.of_nat n)) + i_9) (uw bits ((uw (2 * bits) (temp_10 * 2 ^ bits)) / (tabP P currentModulus_1)))) (fun shoupphis => (bind (mmc P Pn currentModulus_1 temp_10 phi_7) (fun r_11 => (let temp_12 := r_11 in Some (phis, shoupphis, invpolyDegree, invpoly_times_invphis, shoupinvpoly_times_invphis, omegas, invomegas, temp_12))))))))) (phis, shoupphis, invpolyDegree, invpoly_times_invphis, shoupinvpoly_times_invphis, omegas, invomegas, temp_8)) (fun '(phis, shoupphis, invpolyDegree, invpoly_times_invphis, shoupinvpoly_times_invphis, omegas, invomegas, temp_13) => (bind (ld phis ((currentModulus_1 * (Z.of_nat n)) + (uw 64 ((Z.of_nat n) - 1)))) (fun ld_14 => (bind (mmc P Pn currentModulus_1 temp_13 ld_14) (fun r_15 => (let invphi_16 := r_15 in (bind (mmc P Pn currentModulus_1 (tabP invk currentModulus_1) (castw ((2 ^ Z.of_nat K) / (Z.of_nat n)))) (fun r_17 => (bind (st invpolyDegree (0 + currentModulus_1) r_17) (fun invpolyDegree => (bind (ld invpolyDegree (0 + currentModulus_1)) (fun ld_18 => (let temp_19 := ld_18 in (bind (for_up 0 (Z.of_nat n) 1 (fun i_20 '(phis, shoupphis, invpolyDegree, invpoly_times_invphis, shoupinvpoly_times_invphis, omegas, invomegas, temp_21) => (bind (st invpoly_times_invphis ((currentModulus_1 * (Z.of_nat n)) + i_20) temp_21) (fun invpoly_times_invphis => (bind (st shoupinvpoly_times_invphis ((currentModulus_1 * (Z.of_nat n)) + i_20) (uw bits ((uw (2 * bits) (temp_21 * 2 ^ bits)) / (tabP P currentModulus_1)))) (fun shoupinvpoly_times_invphis => (bind (mmc P Pn currentModulus_1 temp_21 invphi_16) (fun r_22 => (let temp_23 := r_22 in Some (phis, shoupphis, invpolyDegree, invpoly_times_invphis, shoupinvpoly_times_invphis, omegas, invomegas, temp_23))))))))) (phis, shoupphis, invpolyDegree, invpoly_times_invphis, shoupinvpoly_times_invphis, omegas, invomegas, temp_19)) (fun '(phis, shoupphis, invpolyDegree, invpoly_times_invphis, shoupinvpoly_times_invphis, omegas, invomegas, temp_24) => (bind (mmc P Pn currentModulus_1 phi_7 phi_7) (fun r_25 => (let omega_26 := r_25 in (bind (prepc P Pn fuel (Z.of_nat n) omegas (currentModulus_1 * ((Z.of_nat n) * 2)) ((currentModulus_1 * ((Z.of_nat n) * 2)) + (Z.of_nat n)) omega_26 currentModulus_1) (fun '(omegas, _, _) => (bind (mmc P Pn currentModulus_1 invphi_16 invphi_16) (fun r_27 => (let invomega_28 := r_27 in (bind (prepc P Pn fuel (Z.of_nat n) invomegas (currentModulus_1 * ((Z.of_nat n) * 2)) ((currentModulus_1 * ((Z.of_nat n) * 2)) + (Z.of_nat n)) invomega_28 currentModulus_1) (fun '(invomegas, _, _) => Some (phis, shoupphis, invpolyDegree, invpoly_times_invphis, shoupinvpoly_times_invphis, omegas, invomegas)))))))))))))))))))))))))))))))) (Z.of_nat cm) S7 = Some (step_st cm S7).
Proof.
  intros Hc HL. destruct S7 as [[[[[[a1 a2] a3] a4] a5] a6] a7]. destruct HL as (H1 & H2 & H3 & H4 & H5 & H6 & H7). cbv beta iota zeta.
  pose proof (p_gt1 cm Hc) as Hp1. pose proof (Hp cm Hc) as Hpc. pose proof n_small as Hns. pose proof n_pos as Hnp. pose proof (Hg cm Hc) as Hgc. pose proof (Hik cm Hc) as Hikc.
  assert (Hnm' : (cm * n + n <= nm * n)%nat) by nia.
  assert (Hbig : Z.of_nat (nm * (n * 2)) < 2 ^ 62) by nia.
  (* phi *)
  unfold tabP at 1. rewrite Nat2Z.id.
  pose proof (L1 cm (a1, a2, a3, a4, a5, a6, a7) Hc) as E1. cbv beta iota zeta in E1. rewrite E1; clear E1. cbn [bind].
  assert (Rphi : 0 <= PHI cm < pc cm) by (unfold PHI, phi; apply sqs_range; assumption).
  (* powers of phi *)
  pose proof (L2 cm a1 a2 a3 a4 a5 a6 a7 (PHI cm) 1 Hc Rphi ltac:(lia) ltac:(rewrite H1; nia) ltac:(rewrite H2; nia) ltac:(rewrite H1; nia) ltac:(rewrite H2; nia)) as E2'. cbv beta iota zeta in E2'. rewrite E2'; clear E2'. cbn [bind].
  assert (EP : pows (nth cm P 0) (PHI cm) n 1 = PHIS cm) by reflexivity. rewrite !EP.
  (* invphi *)
  rewrite uw_small by lia. replace (Z.of_nat cm * Z.of_nat n + (Z.of_nat n - 1)) with (Z.of_nat (cm * n + (n - 1))) by lia.
  rewrite ld_some by (rewrite splice_length by (rewrite PHIS_len; lia); lia). cbn [bind]. rewrite Nat2Z.id.
  rewrite splice_nth by (rewrite PHIS_len; lia). rewrite PHIS_len.
  assert (Eb : ((cm * n <=? cm * n + (n - 1)) && (cm * n + (n - 1) <? cm * n + n))%nat = true) by (apply andb_true_iff; split; [apply Nat.leb_le | apply Nat.ltb_lt]; lia).
  rewrite Eb. replace (cm * n + (n - 1) - cm * n)%nat with (n - 1)%nat by lia.
  assert (Rpn : 0 <= curs (pc cm) (PHI cm) 1 n < pc cm) by (apply curs_range; lia).
  assert (Rlast : 0 <= nth (n - 1) (PHIS cm) 0 < pc cm) by (unfold PHIS, phis; apply pows_range; lia).
  rewrite Hmm by assumption. cbn [bind].
  assert (Einv : (curs (pc cm) (PHI cm) 1 n * nth (n - 1) (PHIS cm) 0) mod pc cm = INVPHI cm).
  { unfold INVPHI, invphi, phi_n, mulm. rewrite last_pow_curs. reflexivity. }
  rewrite Einv. assert (Rinv : 0 <= INVPHI cm < pc cm) by (rewrite <- Einv; apply Z.mod_pos_bound; lia).
  (* the inverse of the degree *)
  unfold tabP at 1. rewrite Nat2Z.id.
  assert (E2 : 2 ^ Z.of_nat K / Z.of_nat n = 2 ^ Z.of_nat (K - k)).
  { rewrite pow2_Z. rewrite <- Z.pow_sub_r by lia. f_equal. lia. }
  rewrite E2. assert (R2 : 0 < 2 ^ Z.of_nat (K - k) <= 2 ^ Z.of_nat K) by (split; [apply Z.pow_pos_nonneg; lia | apply Z.pow_le_mono_r; lia]).
  rewrite Hcast by lia. rewrite Hmm by (try exact Hc; try exact Hikc; lia). cbn [bind].
  fold (mulm (pc cm) (ikc cm) (2 ^ Z.of_nat (K - k))). change (mulm (pc cm) (ikc cm) (2 ^ Z.of_nat (K - k))) with (NINV cm).
  assert (Rninv : 0 <= NINV cm < pc cm) by (unfold NINV, ninv, mulm; apply Z.mod_pos_bound; lia).
  replace (0 + Z.of_nat cm) with (Z.of_nat cm) by lia.
  rewrite st_some by lia. cbn [bind]. rewrite Nat2Z.id. rewrite ld_some by (rewrite upd_length; lia). cbn [bind]. rewrite Nat2Z.id. rewrite upd_same' by lia.
  (* n^-1 * invphi^i *)
  pose proof (L3 cm (splice (cm * n) (PHIS cm) a1) (splice (cm * n) (SH cm (PHIS cm)) a2) (upd cm (NINV cm) a3) a4 a5 a6 a7 (INVPHI cm) (NINV cm) Hc Rinv Rninv ltac:(rewrite H4; nia) ltac:(rewrite H5; nia) ltac:(rewrite H4; nia) ltac:(rewrite H5; nia)) as E3'. cbv beta iota zeta in E3'. rewrite E3'; clear E3'. cbn [bind].
  assert (EC : pows (nth cm P 0) (INVPHI cm) n (NINV cm) = CS cm) by reflexivity. rewrite !EC.
  (* omega and its tables *)
  rewrite Hmm by assumption. cbn [bind]. fold (mulm (pc cm) (PHI cm) (PHI cm)). change (mulm (pc cm) (PHI cm) (PHI cm)) with (OMEGA cm).
  assert (Rom : 0 <= OMEGA cm < pc cm) by (unfold OMEGA, omega, mulm; apply Z.mod_pos_bound; lia).
  assert (Split : forall a : list Z, length a = (nm * (n * 2))%nat -> exists Hh A0 B0, a = Hh ++ A0 ++ B0 /\ length Hh = (cm * (n * 2))%nat /\ length A0 = n /\ length B0 = (nm * (n * 2) - cm * (n * 2) - n)%nat).
  { intros a La. exists (firstn (cm * (n * 2)) a), (firstn n (skipn (cm * (n * 2)) a)), (skipn n (skipn (cm * (n * 2)) a)).
    split; [rewrite !firstn_skipn; reflexivity|]. rewrite !firstn_length, !skipn_length. nia. }
  assert (PrepStep : forall (a : list Z) wv, length a = (nm * (n * 2))%nat -> 0 <= wv < pc cm -> exists o1 o2,
            prepc P Pn fuel (Z.of_nat n) a (Z.of_nat cm * (Z.of_nat n * 2)) (Z.of_nat cm * (Z.of_nat n * 2) + Z.of_nat n) wv (Z.of_nat cm)
            = Some (splice (cm * (n * 2)) (FL cm wv) (splice (cm * (n * 2) + n) (SH cm (FL cm wv)) a), o1, o2)).
  { intros a wv La Rw. destruct (Split a La) as (Hh & A0 & B0 & Ea & LH & LA & LB).
    destruct (Hprep cm fuel Hh A0 B0 wv Hc Hfuel ltac:(lia) ltac:(nia) ltac:(nia) Rw) as (o1 & o2 & Epr). exists o1, o2.
    replace (Z.of_nat cm * (Z.of_nat n * 2)) with (Z.of_nat (length Hh)) by (rewrite LH; lia).
    replace (Z.of_nat (length Hh) + Z.of_nat n) with (Z.of_nat (length Hh + length A0)) by (rewrite LA; lia).
    rewrite Ea at 1. rewrite Epr. f_equal. f_equal. f_equal.
    pose proof (FL_len cm wv) as Lf.
    assert (Ls : length (SH cm (FL cm wv)) = (n - 1)%nat) by (unfold SH; rewrite map_length; exact Lf).
    pose proof (prep_res_splice Hh A0 B0 (FL cm wv) (SH cm (FL cm wv)) ltac:(rewrite Lf, Ls; reflexivity) ltac:(rewrite Lf; nia) ltac:(rewrite Ls; nia)) as X.
    rewrite Lf, Ls in X. rewrite <- Ea, LH, LA in X. exact X. }
  destruct (PrepStep a6 (OMEGA cm) H6 Rom) as (o1 & o2 & Ep1). rewrite Ep1. cbn [bind].
  rewrite Hmm by assumption. cbn [bind]. fold (mulm (pc cm) (INVPHI cm) (INVPHI cm)). change (mulm (pc cm) (INVPHI cm) (INVPHI cm)) with (INVOMEGA cm).
  assert (Riom : 0 <= INVOMEGA cm < pc cm) by (unfold INVOMEGA, invomega, mulm; apply Z.mod_pos_bound; lia).
  destruct (PrepStep a7 (INVOMEGA cm) H7 Riom) as (o3 & o4 & Ep2). rewrite Ep2. cbn [bind].
  reflexivity.
Qed.

Theorem init_ok : init_sh bits (Z.of_nat K) (2 ^ Z.of_nat K) castw mmc prepc fuel (Z.of_nat n) om0 iom0 ph0 sph0 ipd0 ipi0 sipi0 (Z.of_nat nm) roots P Pn invk = Some (ST nm).
Proof.
  unfold init_sh. change (ph0, sph0, ipd0, ipi0, sipi0, om0, iom0) with (ST 0).
  rewrite (for_up_steps ST nm); try lia.
  - cbn [bind]. destruct (ST nm) as [[[[[[a1 a2] a3] a4] a5] a6] a7]. reflexivity.
  - intros cm Hc. replace (0 + 1 * Z.of_nat cm) with (Z.of_nat cm) by lia. exact (row_iter cm (ST cm) Hc (ST_lens cm ltac:(lia))).
Qed.

(* ---- what the arrays hold at the end: every row is the model's table of its modulus ---- *)
Lemma rows_generic (X : nat -> list Z) (r off r' : nat) (rowval : nat -> nat -> Z) : (off + r' <= r)%nat ->
  (forall m j, (m < nm)%nat -> (j < m * r \/ (m + 1) * r <= j)%nat -> nth j (X (S m)) 0 = nth j (X m) 0) ->
  (forall m i, (m < nm)%nat -> (i < r')%nat -> nth (m * r + off + i) (X (S m)) 0 = rowval m i) ->
  forall c i, (c < nm)%nat -> (i < r')%nat -> nth (c * r + off + i) (X nm) 0 = rowval c i.
Proof.
  intros Hor Hkeep Hset c i Hc Hi.
  assert (G : forall d, (c + 1 + d <= nm)%nat -> nth (c * r + off + i) (X (c + 1 + d)%nat) 0 = rowval c i).
  { induction d as [|d IH]; intros Hd.
    - replace (c + 1 + 0)%nat with (S c) by lia. apply Hset; assumption.
    - replace (c + 1 + S d)%nat with (S (c + 1 + d)) by lia. rewrite Hkeep by nia. apply IH. lia. }
  replace nm with (c + 1 + (nm - c - 1))%nat at 1 by lia. apply G. lia.
Qed.

Definition c1 (s : StI) : list Z := let '(a1, _, _, _, _, _, _) := s in a1.
Definition c2 (s : StI) : list Z := let '(_, a2, _, _, _, _, _) := s in a2.
Definition c3 (s : StI) : list Z := let '(_, _, a3, _, _, _, _) := s in a3.
Definition c4 (s : StI) : list Z := let '(_, _, _, a4, _, _, _) := s in a4.
Definition c5 (s : StI) : list Z := let '(_, _, _, _, a5, _, _) := s in a5.
Definition c6 (s : StI) : list Z := let '(_, _, _, _, _, a6, _) := s in a6.
Definition c7 (s : StI) : list Z := let '(_, _, _, _, _, _, a7) := s in a7.

Lemma splice_keep b vs (m : list Z) j : (b + length vs <= length m)%nat -> (j < b \/ b + length vs <= j)%nat -> nth j (splice b vs m) 0 = nth j m 0.
Proof.
  intros Hl Hj. rewrite splice_nth by exact Hl. destruct (Nat.leb_spec b j); cbn [andb]; [|reflexivity]. destruct (Nat.ltb_spec j (b + length vs)); [lia | reflexivity].
Qed.
Lemma splice_hit b vs (m : list Z) i : (b + length vs <= length m)%nat -> (i < length vs)%nat -> nth (b + i) (splice b vs m) 0 = nth i vs 0.
Proof.
  intros Hl Hi. rewrite splice_nth by exact Hl. assert (E : ((b <=? b + i) && (b + i <? b + length vs))%nat = true) by (apply andb_true_iff; split; [apply Nat.leb_le | apply Nat.ltb_lt]; lia).
  rewrite E. f_equal. lia.
Qed.
Lemma SH_len c l : length (SH c l) = length l. Proof. unfold SH. apply map_length. Qed.

(* generic instance: a component updated by ONE splice per step at offset m*r *)
Lemma comp_rows (comp : StI -> list Z) (r : nat) (V : nat -> list Z) (len : nat) : (forall c, length (V c) = len) -> (len <= r)%nat ->
  (forall m, (m <= nm)%nat -> length (comp (ST m)) = (nm * r)%nat) ->
  (forall m, (m < nm)%nat -> comp (ST (S m)) = splice (m * r) (V m) (comp (ST m))) ->
  forall c i, (c < nm)%nat -> (i < len)%nat -> nth (c * r + i) (comp (ST nm)) 0 = nth i (V c) 0.
Proof.
  intros HV Hlr HL Hstep c i Hc Hi.
  pose proof (rows_generic (fun m => comp (ST m)) r 0 len (fun c i => nth i (V c) 0) ltac:(lia)) as G. cbv beta in G.
  replace (c * r + i)%nat with (c * r + 0 + i)%nat by lia. apply G; try assumption.
  - intros m j Hm Hj. rewrite Hstep by exact Hm. apply splice_keep; rewrite ?HV, ?HL by lia; nia.
  - intros m i0 Hm Hi0. rewrite Hstep by exact Hm. rewrite Nat.add_0_r. apply splice_hit; rewrite ?HV, ?HL by lia; nia.
Qed.

Lemma ST_S m : ST (S m) = step_st m (ST m). Proof. reflexivity. Qed.
Ltac st_split m := let X := fresh "X" in pose proof (ST_lens m ltac:(lia)) as X; rewrite ?ST_S; destruct (ST m) as [[[[[[a1 a2] a3] a4] a5] a6] a7]; cbn [c1 c2 c3 c4 c5 c6 c7 step_st]; destruct X as (H1 & H2 & H3 & H4 & H5 & H6 & H7).

Theorem phis_rows c i : (c < nm)%nat -> (i < n)%nat -> nth (c * n + i) (c1 (ST nm)) 0 = nth i (PHIS c) 0.
Proof. apply (comp_rows c1 n PHIS n PHIS_len ltac:(lia)); [intros m Hm; st_split m; assumption | intros m Hm; st_split m; reflexivity]. Qed.
Theorem shoupphis_rows c i : (c < nm)%nat -> (i < n)%nat -> nth (c * n + i) (c2 (ST nm)) 0 = nth i (SH c (PHIS c)) 0.
Proof. apply (comp_rows c2 n (fun c => SH c (PHIS c)) n ltac:(intros; cbv beta; rewrite SH_len; apply PHIS_len) ltac:(lia)); [intros m Hm; st_split m; assumption | intros m Hm; st_split m; reflexivity]. Qed.
Theorem cs_rows c i : (c < nm)%nat -> (i < n)%nat -> nth (c * n + i) (c4 (ST nm)) 0 = nth i (CS c) 0.
Proof. apply (comp_rows c4 n CS n CS_len ltac:(lia)); [intros m Hm; st_split m; assumption | intros m Hm; st_split m; reflexivity]. Qed.
Theorem shoupcs_rows c i : (c < nm)%nat -> (i < n)%nat -> nth (c * n + i) (c5 (ST nm)) 0 = nth i (SH c (CS c)) 0.
Proof. apply (comp_rows c5 n (fun c => SH c (CS c)) n ltac:(intros; cbv beta; rewrite SH_len; apply CS_len) ltac:(lia)); [intros m Hm; st_split m; assumption | intros m Hm; st_split m; reflexivity]. Qed.
Theorem ninv_rows c : (c < nm)%nat -> nth c (c3 (ST nm)) 0 = NINV c.
Proof.
  intros Hc. pose proof (rows_generic (fun m => c3 (ST m)) 1 0 1 (fun c _ => NINV c) ltac:(lia)) as G. cbv beta in G.
  replace c with (c * 1 + 0 + 0)%nat at 1 by lia. apply G; try lia.
  - intros m j Hm Hj. st_split m. rewrite upd_nth. destruct (Nat.eqb_spec j m); [lia | reflexivity].
  - intros m i0 Hm Hi0. st_split m. replace (m * 1 + 0 + i0)%nat with m by lia. apply upd_same'. lia.
Qed.
(* the twiddle tables: level tables at the start of row c (2n words per modulus), their Shoup companions n words further -- where core::ntt reads them *)
Theorem omegas_rows c i : (c < nm)%nat -> (i < n - 1)%nat ->
  nth (c * (n * 2) + i) (c6 (ST nm)) 0 = nth i (FL c (OMEGA c)) 0 /\ nth (c * (n * 2) + n + i) (c6 (ST nm)) 0 = nth i (SH c (FL c (OMEGA c))) 0.
Proof.
  intros Hc Hi. pose proof n_pos as Hnp. split.
  - pose proof (rows_generic (fun m => c6 (ST m)) (n * 2) 0 (n - 1) (fun c i => nth i (FL c (OMEGA c)) 0) ltac:(lia)) as G. cbv beta in G.
    replace (c * (n * 2) + i)%nat with (c * (n * 2) + 0 + i)%nat by lia. apply G; try assumption.
    + intros m j Hm Hj. st_split m. rewrite !splice_keep; rewrite ?splice_length, ?SH_len, ?FL_len; rewrite ?SH_len, ?FL_len; try nia; try reflexivity.
    + intros m i0 Hm Hi0. st_split m. rewrite Nat.add_0_r. apply splice_hit; rewrite ?splice_length, ?SH_len, ?FL_len; rewrite ?SH_len, ?FL_len; nia.
  - pose proof (rows_generic (fun m => c6 (ST m)) (n * 2) n (n - 1) (fun c i => nth i (SH c (FL c (OMEGA c))) 0) ltac:(lia)) as G. cbv beta in G.
    apply G; try assumption.
    + intros m j Hm Hj. st_split m. rewrite !splice_keep; rewrite ?splice_length, ?SH_len, ?FL_len; rewrite ?SH_len, ?FL_len; try nia; try reflexivity.
    + intros m i0 Hm Hi0. st_split m. rewrite splice_keep by (rewrite ?splice_length, ?SH_len, ?FL_len; rewrite ?SH_len, ?FL_len; nia).
      replace (m * (n * 2) + n + i0)%nat with ((m * (n * 2) + n) + i0)%nat by lia. apply splice_hit; rewrite ?SH_len, ?FL_len; nia.
Qed.
Theorem invomegas_rows c i : (c < nm)%nat -> (i < n - 1)%nat ->
  nth (c * (n * 2) + i) (c7 (ST nm)) 0 = nth i (FL c (INVOMEGA c)) 0 /\ nth (c * (n * 2) + n + i) (c7 (ST nm)) 0 = nth i (SH c (FL c (INVOMEGA c))) 0.
Proof.
  intros Hc Hi. pose proof n_pos as Hnp. split.
  - pose proof (rows_generic (fun m => c7 (ST m)) (n * 2) 0 (n - 1) (fun c i => nth i (FL c (INVOMEGA c)) 0) ltac:(lia)) as G. cbv beta in G.
    replace (c * (n * 2) + i)%nat with (c * (n * 2) + 0 + i)%nat by lia. apply G; try assumption.
    + intros m j Hm Hj. st_split m. rewrite !splice_keep; rewrite ?splice_length, ?SH_len, ?FL_len; rewrite ?SH_len, ?FL_len; try nia; try reflexivity.
    + intros m i0 Hm Hi0. st_split m. rewrite Nat.add_0_r. apply splice_hit; rewrite ?splice_length, ?SH_len, ?FL_len; rewrite ?SH_len, ?FL_len; nia.
  - pose proof (rows_generic (fun m => c7 (ST m)) (n * 2) n (n - 1) (fun c i => nth i (SH c (FL c (INVOMEGA c))) 0) ltac:(lia)) as G. cbv beta in G.
    apply G; try assumption.
    + intros m j Hm Hj. st_split m. rewrite !splice_keep; rewrite ?splice_length, ?SH_len, ?FL_len; rewrite ?SH_len, ?FL_len; try nia; try reflexivity.
    + intros m i0 Hm Hi0. st_split m. rewrite splice_keep by (rewrite ?splice_length, ?SH_len, ?FL_len; rewrite ?SH_len, ?FL_len; nia).
      replace (m * (n * 2) + n + i0)%nat with ((m * (n * 2) + n) + i0)%nat by lia. apply splice_hit; rewrite ?SH_len, ?FL_len; nia.
Qed.

Theorem init_all : exists ph sph ipd ipi sipi om iom,
  init_sh bits (Z.of_nat K) (2 ^ Z.of_nat K) castw mmc prepc fuel (Z.of_nat n) om0 iom0 ph0 sph0 ipd0 ipi0 sipi0 (Z.of_nat nm) roots P Pn invk = Some (ph, sph, ipd, ipi, sipi, om, iom) /\
  lens_ok (ph, sph, ipd, ipi, sipi, om, iom) /\
  forall c, (c < nm)%nat ->
    nth c ipd 0 = NINV c /\
    (forall i, (i < n)%nat -> nth (c * n + i) ph 0 = nth i (PHIS c) 0 /\ nth (c * n + i) sph 0 = nth i (SH c (PHIS c)) 0 /\
                              nth (c * n + i) ipi 0 = nth i (CS c) 0 /\ nth (c * n + i) sipi 0 = nth i (SH c (CS c)) 0) /\
    (forall i, (i < n - 1)%nat -> nth (c * (n * 2) + i) om 0 = nth i (FL c (OMEGA c)) 0 /\ nth (c * (n * 2) + n + i) om 0 = nth i (SH c (FL c (OMEGA c))) 0 /\
                                  nth (c * (n * 2) + i) iom 0 = nth i (FL c (INVOMEGA c)) 0 /\ nth (c * (n * 2) + n + i) iom 0 = nth i (SH c (FL c (INVOMEGA c))) 0).
Proof.
  exists (c1 (ST nm)), (c2 (ST nm)), (c3 (ST nm)), (c4 (ST nm)), (c5 (ST nm)), (c6 (ST nm)), (c7 (ST nm)). split; [|split].
  - rewrite init_ok. destruct (ST nm) as [[[[[[a1 a2] a3] a4] a5] a6] a7]. reflexivity.
  - pose proof (ST_lens nm (Nat.le_refl nm)) as X. destruct (ST nm) as [[[[[[a1 a2] a3] a4] a5] a6] a7]. exact X.
  - intros c Hc. split; [apply ninv_rows; exact Hc|]. split.
    + intros i Hi. repeat split; [apply phis_rows | apply shoupphis_rows | apply cs_rows | apply shoupcs_rows]; assumption.
    + intros i Hi. destruct (omegas_rows c i Hc Hi) as [O1 O2]. destruct (invomegas_rows c i Hc Hi) as [O3 O4]. repeat split; assumption.
Qed.
End Init.
