(* C10 — Gaussian sampler: inverse-CDF structure.  Statements only (GaussDecode.v, GaussExec.v, GaussTail.v). *)
From Coq Require Import ZArith List Reals.
From NTT Require Import GaussDecode GaussExec GaussTail GaussCert.
Local Open Scope Z_scope.

(* depth 1: first-word table + full comparison in flagged cells = vmin + number of barriers <= the input string *)
Theorem C10_decode_depth1 : forall vmin barriers s, s <> nil -> (forall b, In b barriers -> length b = length s) -> sorted barriers ->
  decode1 vmin barriers s = vmin + count (fun b => lex_le b s) barriers.
Proof. exact decode1_is_count. Qed.
Print Assumptions C10_decode_depth1.

(* depth 2: two-word table + full comparison in doubly flagged cells = the same count *)
Theorem C10_decode_depth2 : forall vmin barriers s, (2 <= length s)%nat -> (forall b, In b barriers -> length b = length s) -> sorted barriers ->
  (if flag2 barriers (hd0 s) (snd0 s) then val2 vmin barriers (hd0 s) (snd0 s) + prefix_count (list2 barriers (hd0 s) (snd0 s)) s else val2 vmin barriers (hd0 s) (snd0 s))
  = decode_spec vmin barriers s.
Proof. exact decode2_is_count. Qed.
Print Assumptions C10_decode_depth2.

(* the output is a monotone step function of the random input string *)
Theorem C10_monotone : forall vmin barriers s t, length s = length t -> (forall b, In b barriers -> length b = length s) -> lex_le s t = true ->
  decode_spec vmin barriers s <= decode_spec vmin barriers t.
Proof. exact decode_spec_monotone. Qed.
Print Assumptions C10_monotone.

(* statistical distance: for a table distribution supported on the window, the total variation to D_{Z,sigma,c}
   (normaliser = window sum + the two infinite tails) is bounded by a FINITE expression in which the tail mass ranges over
   [0, geometric tail bound]; a generated file (gen/GaussCert_*.v) proves that finite inequality with Interval for the
   barrier table dumped from the real sampler on this run *)
Theorem C10_tv_reduction : forall a c : R, (0 < a)%R -> forall (vmin : Z) (qs : list R),
  (0 <= c - IZR (vmin - 1))%R -> (0 <= IZR (vmin + Z.of_nat (length qs)) - c)%R -> forall eps : R,
  (forall T : R, (0 <= T <= GaussCert.tb a (c - IZR (vmin - 1)) + GaussCert.tb a (IZR (vmin + Z.of_nat (length qs)) - c))%R ->
     (/ 2 * (GaussCert.wsum 0 qs (fun i q => Rabs (q - GaussCert.rhoZ a c (vmin + Z.of_nat i) / (GaussCert.W a c vmin qs + T))) + T / (GaussCert.W a c vmin qs + T)) <= eps)%R) ->
  (GaussCert.TV a c vmin qs <= eps)%R.
Proof. exact GaussCert.TV_le_of_cert. Qed.
Print Assumptions C10_tv_reduction.
