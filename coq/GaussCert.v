(* C10: total variation between the distribution induced by a barrier table and the discrete Gaussian D_{Z,sigma,c},
   reduced to a FINITE real inequality (which a generated file then proves with Interval for the table dumped on this run).

   The table distribution is supported on the window vmin .. vmin+n-1 with probabilities q 0 .. q (n-1).
   rho v = exp(-a (v-c)^2), a = 1/(2 sigma^2);  S = sum over Z of rho = W + tailL + tailR with W the window sum and the two
   tails Coquelicot series;  D v = rho v / S.   TV = 1/2 ( sum_window |q_i - D (vmin+i)| + sum_{v outside} D v ). *)
From Coq Require Import Reals Lra Lia List ZArith.
From Coquelicot Require Import Coquelicot.
From NTT Require Import GaussTail.
Import ListNotations.
Open Scope R_scope.

Section Cert.
Variables a c : R.
Hypothesis Ha : 0 < a.
Variable vmin : Z.
Variable qs : list R.                                   (* table probabilities, in window order *)
Let n := length qs.

Definition rhoZ (v : Z) : R := exp (- a * (IZR v - c) ^ 2).
Fixpoint wsum (i : nat) (l : list R) (f : nat -> R -> R) : R := match l with [] => 0 | q :: r => f i q + wsum (S i) r f end.
Definition W : R := wsum 0 qs (fun i _ => rhoZ (vmin + Z.of_nat i)).
Definition tailR : R := Series (fun k => rhoZ (vmin + Z.of_nat n + Z.of_nat k)).
Definition tailL : R := Series (fun k => rhoZ (vmin - 1 - Z.of_nat k)).
Definition Snorm : R := W + tailL + tailR.
Definition TV : R := / 2 * (wsum 0 qs (fun i q => Rabs (q - rhoZ (vmin + Z.of_nat i) / Snorm)) + (tailL + tailR) / Snorm).

(* the centre lies inside the window (true for every table the sampler builds: the window is centred on round(c)) *)
Hypothesis HcL : 0 <= c - IZR (vmin - 1).
Hypothesis HcR : 0 <= IZR (vmin + Z.of_nat n) - c.

Definition tb (t0 : R) : R := exp (- a * t0 ^ 2) / (1 - exp (- a * (2 * t0 + 1))).

Lemma series_rho_bounds t0 : 0 <= t0 -> 0 <= Series (rho a t0) <= tb t0.
Proof.
  intros Ht. split.
  - replace 0 with (0 * Series (rho a t0)) by ring. rewrite <- Series_scal_l.
    apply Series_le; [|apply (ex_rho a t0 Ha Ht)].
    intros k. pose proof (rho_le a t0 Ha k) as [R0 _]. lra.
  - pose proof (tail_bound a t0 Ha Ht) as T. unfold r in T. exact T.
Qed.

Lemma tailR_bound : 0 <= tailR <= tb (IZR (vmin + Z.of_nat n) - c).
Proof.
  set (t0 := IZR (vmin + Z.of_nat n) - c).
  assert (E : forall k, rhoZ (vmin + Z.of_nat n + Z.of_nat k) = rho a t0 k).
  { intros k. unfold rhoZ, rho, t0. f_equal. rewrite (plus_IZR _ (Z.of_nat k)), <- INR_IZR_INZ. ring. }
  unfold tailR. rewrite (Series_ext _ (rho a t0) E). apply series_rho_bounds. exact HcR.
Qed.

Lemma tailL_bound : 0 <= tailL <= tb (c - IZR (vmin - 1)).
Proof.
  set (t0 := c - IZR (vmin - 1)).
  assert (E : forall k, rhoZ (vmin - 1 - Z.of_nat k) = rho a t0 k).
  { intros k. unfold rhoZ, rho, t0. f_equal. rewrite (minus_IZR _ (Z.of_nat k)), <- INR_IZR_INZ. ring. }
  unfold tailL. rewrite (Series_ext _ (rho a t0) E). apply series_rho_bounds. exact HcL.
Qed.

(* reduction to a finite inequality: if the expression with the tail mass T replaced by ANY value in [0, TbL + TbR]
   is below eps, then the total variation is below eps *)
Theorem TV_le_of_cert eps :
  (forall T, 0 <= T <= tb (c - IZR (vmin - 1)) + tb (IZR (vmin + Z.of_nat n) - c) ->
     / 2 * (wsum 0 qs (fun i q => Rabs (q - rhoZ (vmin + Z.of_nat i) / (W + T))) + T / (W + T)) <= eps) ->
  TV <= eps.
Proof.
  intros H. pose proof tailL_bound as [L0 L1]. pose proof tailR_bound as [R0 R1].
  specialize (H (tailL + tailR) ltac:(lra)). unfold TV, Snorm.
  replace (W + tailL + tailR) with (W + (tailL + tailR)) by ring. exact H.
Qed.
End Cert.
Print Assumptions TV_le_of_cert.
