(* C01/C02: the STRUCTURE of core::ntt as written in the library -- degree-2 special case; log2(n)-2 generic Harvey layers
   (ntt_loop), then the hand-fused last two layers on groups of four words, then the strict reduction -- and its equality
   with the generic layer-by-layer transform (Transform.ntt_list) that the algebraic theorems are stated on. *)
From Coq Require Import ZArith Lia List Arith Morphisms Setoid.
From NTT Require Import Functors Algebra Layer Transform Fused.
Import ListNotations.
Local Open Scope Z_scope.

(* two layers of the index-function iteration on one group of four *)
Lemma m4 r c : (c < 4)%nat -> ((4 * r + c) mod 4 = c)%nat.
Proof. intros H. replace (4 * r + c)%nat with (c + r * 4)%nat by lia. rewrite Nat.mod_add by lia. apply Nat.mod_small. lia. Qed.
Lemma m2 r c : ((4 * r + c) mod 2 = c mod 2)%nat.
Proof. replace (4 * r + c)%nat with (c + (2 * r) * 2)%nat by lia. apply Nat.mod_add. lia. Qed.

Lemma two_layers_block (f t4 t2 : nat -> Z) r :
  let h := layer_fn 2 t2 (layer_fn 4 t4 f) in let b := (4 * r)%nat in
  h (b + 0)%nat = (f (b + 0)%nat + f (b + 2)%nat) + (f (b + 1)%nat + f (b + 3)%nat) /\
  h (b + 1)%nat = ((f (b + 0)%nat + f (b + 2)%nat) - (f (b + 1)%nat + f (b + 3)%nat)) * t2 0%nat /\
  h (b + 2)%nat = (f (b + 0)%nat - f (b + 2)%nat) * t4 0%nat + (f (b + 1)%nat - f (b + 3)%nat) * t4 1%nat /\
  h (b + 3)%nat = ((f (b + 0)%nat - f (b + 2)%nat) * t4 0%nat - (f (b + 1)%nat - f (b + 3)%nat) * t4 1%nat) * t2 0%nat.
Proof.
  cbv zeta. unfold layer_fn. change (4 / 2)%nat with 2%nat. change (2 / 2)%nat with 1%nat.
  replace (4 * r + 0 + 1)%nat with (4 * r + 1)%nat by lia. replace (4 * r + 1 - 1)%nat with (4 * r + 0)%nat by lia.
  replace (4 * r + 2 + 1)%nat with (4 * r + 3)%nat by lia. replace (4 * r + 3 - 1)%nat with (4 * r + 2)%nat by lia.
  rewrite !m2. rewrite !m4 by lia.
  change (0 mod 2)%nat with 0%nat. change (1 mod 2)%nat with 1%nat. change (2 mod 2)%nat with 0%nat. change (3 mod 2)%nat with 1%nat.
  cbn [Nat.ltb Nat.leb Nat.sub].
  replace (4 * r + 0 + 2)%nat with (4 * r + 2)%nat by lia. replace (4 * r + 1 + 2)%nat with (4 * r + 3)%nat by lia.
  replace (4 * r + 2 - 2)%nat with (4 * r + 0)%nat by lia. replace (4 * r + 3 - 2)%nat with (4 * r + 1)%nat by lia.
  repeat split.
Qed.

Section Structural.
Variable w : Z.  Hypothesis Hw : 0 < w.
Variable p : Z.  Hypothesis Hp : 0 < p.  Hypothesis H4p : 4 * p <= 2 ^ w.

(* the loop `for (r = 0; r < M; r++, x += 4)` of core::ntt *)
Fixpoint fused_pass (M : nat) (w1 w1' : Z) (x : list Z) : list Z :=
  match M, x with
  | S M', u0 :: u1 :: u2 :: u3 :: rest =>
      let '(z0, z1, z2, z3) := fused w p w1 w1' u0 u1 u2 u3 in z0 :: z1 :: z2 :: z3 :: fused_pass M' w1 w1' rest
  | _, _ => []
  end.

Lemma fused_pass_length M w1 w1' x : length x = (4 * M)%nat -> length (fused_pass M w1 w1' x) = (4 * M)%nat.
Proof.
  revert x. induction M as [|M IH]; intros x H; [reflexivity|].
  destruct x as [|u0 [|u1 [|u2 [|u3 rest]]]]; simpl in H; try lia.
  cbn [fused_pass]. destruct (fused w p w1 w1' u0 u1 u2 u3) as [[[z0 z1] z2] z3]. cbn [length]. rewrite IH by lia. lia.
Qed.

Lemma fused_pass_nth M w1 w1' x r : length x = (4 * M)%nat -> (r < M)%nat ->
  let b := (4 * r)%nat in
  let '(z0, z1, z2, z3) := fused w p w1 w1' (nth (b + 0) x 0) (nth (b + 1) x 0) (nth (b + 2) x 0) (nth (b + 3) x 0) in
  let y := fused_pass M w1 w1' x in
  nth (b + 0) y 0 = z0 /\ nth (b + 1) y 0 = z1 /\ nth (b + 2) y 0 = z2 /\ nth (b + 3) y 0 = z3.
Proof.
  revert x r. induction M as [|M IH]; intros x r H Hr; [lia|]. cbv zeta.
  destruct x as [|u0 [|u1 [|u2 [|u3 rest]]]]; simpl in H; try lia.
  cbn [fused_pass]. destruct r as [|r].
  - cbn [Nat.mul Nat.add nth]. destruct (fused w p w1 w1' u0 u1 u2 u3) as [[[z0 z1] z2] z3]. cbn [nth]. auto.
  - specialize (IH rest r ltac:(lia) ltac:(lia)). cbv zeta in IH.
    replace (4 * S r + 0)%nat with (S (S (S (S (4 * r + 0))))) by lia. replace (4 * S r + 1)%nat with (S (S (S (S (4 * r + 1))))) by lia.
    replace (4 * S r + 2)%nat with (S (S (S (S (4 * r + 2))))) by lia. replace (4 * S r + 3)%nat with (S (S (S (S (4 * r + 3))))) by lia.
    cbn [nth]. destruct (fused w p w1 w1' u0 u1 u2 u3) as [[[y0 y1] y2] y3].
    destruct (fused w p w1 w1' (nth (4 * r + 0) rest 0) (nth (4 * r + 1) rest 0) (nth (4 * r + 2) rest 0) (nth (4 * r + 3) rest 0)) as [[[z0 z1] z2] z3].
    cbn [nth]. exact IH.
Qed.

Variable om : Z.
Variable k2 : nat.
Let k := S (S k2).
Hypothesis Hhalf : forall k', k = S k' -> cg p (pw om (2 ^ k')) (-1).
Variable tws : nat -> list Z.
Hypothesis tws_ok : forall lvl i, (lvl < k)%nat -> (i < 2 ^ (k - lvl - 1))%nat ->
  0 <= nth i (tws lvl) 0 < p /\ cg p (nth i (tws lvl) 0) (pw om (2 ^ lvl * i)).
Variable a : nat -> Z.

Local Notation w1 := (nth 1 (tws k2) 0).
Local Instance cgE : Equivalence (cg p) := cg_equiv p.
Local Instance cgA : Proper (cg p ==> cg p ==> cg p) Z.add := add_cg p Hp.
Local Instance cgS : Proper (cg p ==> cg p ==> cg p) Z.sub := sub_cg p.
Local Instance cgM : Proper (cg p ==> cg p ==> cg p) Z.mul := mul_cg p Hp.

(* the fused pass takes the invariant of layer k-2 to the invariant of layer k, as two generic layers would *)
Lemma fused_InvL y : InvL p om k a k2 y -> InvL p om k a k (fused_pass (2 ^ k2) w1 ((w1 * 2 ^ w) / p) y).
Proof.
  intros [Hlen Hy].
  assert (E4 : (2 ^ k = 4 * 2 ^ k2)%nat) by (unfold k; rewrite !Nat.pow_succ_r'; lia).
  split; [rewrite fused_pass_length; lia|].
  intros idx Hidx.
  pose proof (Nat.div_mod idx 4 ltac:(lia)) as Edm. set (r := (idx / 4)%nat) in *. set (c := (idx mod 4)%nat) in *.
  assert (Hc : (c < 4)%nat) by (apply Nat.mod_upper_bound; lia).
  assert (Hr : (r < 2 ^ k2)%nat) by (apply Nat.div_lt_upper_bound; lia).
  pose proof (fused_pass_nth (2 ^ k2) w1 ((w1 * 2 ^ w) / p) y r ltac:(lia) Hr) as FN. cbv zeta in FN.
  destruct (Hy (4 * r + 0)%nat ltac:(lia)) as [R0 C0]. destruct (Hy (4 * r + 1)%nat ltac:(lia)) as [R1 C1].
  destruct (Hy (4 * r + 2)%nat ltac:(lia)) as [R2 C2]. destruct (Hy (4 * r + 3)%nat ltac:(lia)) as [R3 C3].
  destruct (tws_ok k2 1%nat ltac:(unfold k; lia) ltac:(unfold k; replace (S (S k2) - k2 - 1)%nat with 1%nat by lia; simpl; lia)) as [Rw Cw].
  pose proof (fused_correct w Hw p Hp H4p w1 _ _ _ _ Rw R0 R1 R2 R3) as FC.
  destruct (fused w p w1 (w1 * 2 ^ w / p) (nth (4 * r + 0) y 0) (nth (4 * r + 1) y 0) (nth (4 * r + 2) y 0) (nth (4 * r + 3) y 0)) as [[[z0 z1] z2] z3].
  destruct FN as (N0 & N1 & N2 & N3). destruct FC as ((Z0 & D0) & (Z1 & D1) & (Z2 & D2) & (Z3 & D3)).
  (* the reference: two steps of the index-function iteration *)
  assert (LK : forall j, layers om k a k j = layer_fn 2 (fun i => pw om (2 ^ S k2 * i)) (layer_fn 4 (fun i => pw om (2 ^ k2 * i)) (layers om k a k2)) j).
  { intros j. unfold k at 2. cbn [layers]. replace (k - S k2)%nat with 1%nat by (unfold k; lia). replace (k - k2)%nat with 2%nat by (unfold k; lia). reflexivity. }
  pose proof (two_layers_block (layers om k a k2) (fun i => pw om (2 ^ k2 * i)) (fun i => pw om (2 ^ S k2 * i)) r) as TL. cbv zeta in TL.
  destruct TL as (T0 & T1 & T2 & T3).
  assert (P0 : pw om (2 ^ k2 * 0) = 1) by (rewrite Nat.mul_0_r; reflexivity).
  assert (P0' : pw om (2 ^ S k2 * 0) = 1) by (rewrite Nat.mul_0_r; reflexivity).
  rewrite Nat.mul_1_r in T2, T3. rewrite P0 in T2, T3. rewrite P0' in T1, T3. rewrite Nat.mul_1_r in Cw.
  assert (Hcases : c = 0%nat \/ c = 1%nat \/ c = 2%nat \/ c = 3%nat) by lia.
  rewrite Edm, LK.
  change (nth (4 * r + 0) y 0 mod p = layers om k a k2 (4 * r + 0) mod p) with (cg p (nth (4 * r + 0) y 0) (layers om k a k2 (4 * r + 0))) in C0.
  fold (cg p z0 (nth (4 * r + 0) y 0 + nth (4 * r + 2) y 0 + (nth (4 * r + 1) y 0 + nth (4 * r + 3) y 0))) in D0.
  fold (cg p z1 (nth (4 * r + 0) y 0 + nth (4 * r + 2) y 0 - (nth (4 * r + 1) y 0 + nth (4 * r + 3) y 0))) in D1.
  fold (cg p z2 (nth (4 * r + 0) y 0 - nth (4 * r + 2) y 0 + (nth (4 * r + 1) y 0 - nth (4 * r + 3) y 0) * w1)) in D2.
  fold (cg p z3 (nth (4 * r + 0) y 0 - nth (4 * r + 2) y 0 - (nth (4 * r + 1) y 0 - nth (4 * r + 3) y 0) * w1)) in D3.
  destruct Hcases as [-> | [-> | [-> | ->]]].
  - rewrite N0, T0. split; [exact Z0|]. rewrite D0, C0, C1, C2, C3. reflexivity.
  - rewrite N1, T1. split; [exact Z1|]. rewrite D1, C0, C1, C2, C3, Z.mul_1_r. reflexivity.
  - rewrite N2, T2. split; [exact Z2|]. rewrite D2, C0, C1, C2, C3, Cw, Z.mul_1_r. reflexivity.
  - rewrite N3, T3. split; [exact Z3|]. rewrite D3, C0, C1, C2, C3, Cw, !Z.mul_1_r. reflexivity.
Qed.
End Structural.

Section Core.
Variable w : Z.  Hypothesis Hw : 0 < w.
Variable p : Z.  Hypothesis Hp : 0 < p.  Hypothesis H4p : 4 * p <= 2 ^ w.
Variable om : Z.
Variable k : nat.
Hypothesis Hhalf : forall k', k = S k' -> cg p (pw om (2 ^ k')) (-1).
Variable tws : nat -> list Z.
Hypothesis tws_ok : forall lvl i, (lvl < k)%nat -> (i < 2 ^ (k - lvl - 1))%nat ->
  0 <= nth i (tws lvl) 0 < p /\ cg p (nth i (tws lvl) 0) (pw om (2 ^ lvl * i)).

(* core::ntt, as structured in the source *)
Definition ntt_core_at (kk : nat) (x : list Z) : list Z :=
  match kk with
  | O => x                                                                                  (* degree 1: returns at once *)
  | S O => match x with [u0; u1] => strict p [ladd w p u0 u1; lsub w p u0 u1] | _ => x end  (* degree 2: special case *)
  | S (S k2) => let w1 := nth 1 (tws k2) 0 in                                               (* wtab[1] after ntt_loop advanced the pointers *)
                strict p (fused_pass w p (2 ^ k2) w1 ((w1 * 2 ^ w) / p) (run_layers w p k tws 0 k2 x))
  end.
Definition ntt_core (x : list Z) : list Z := ntt_core_at k x.

Local Instance cgE' : Equivalence (cg p) := cg_equiv p.
Local Instance cgA' : Proper (cg p ==> cg p ==> cg p) Z.add := add_cg p Hp.
Local Instance cgS' : Proper (cg p ==> cg p ==> cg p) Z.sub := sub_cg p.
Local Instance cgM' : Proper (cg p ==> cg p ==> cg p) Z.mul := mul_cg p Hp.

Lemma strict_final a y : InvL p om k a k y ->
  length (strict p y) = (2 ^ k)%nat /\
  forall j, (j < 2 ^ k)%nat -> nth j (strict p y) 0 = (sum (2 ^ k) (fun t => a t * pw om (t * rev k j))) mod p.
Proof.
  intros [L I]. unfold strict. split; [now rewrite map_length|].
  intros j Hj. destruct (I j Hj) as [R C].
  set (f := fun v : Z => if v >=? p then v - p else v).
  rewrite (nth_indep (map f y) 0 (f 0)) by (rewrite map_length; lia).
  rewrite map_nth. unfold f.
  pose proof (dif_is_dft_bitrev p Hp om k Hhalf a j Hj) as D. unfold cg in *. rewrite <- D, <- C.
  destruct (Z.geb_spec (nth j y 0) p).
  - apply (Z.mod_unique_pos _ p 1); lia.
  - symmetry. apply Z.mod_small. lia.
Qed.

Lemma ntt_core_at_correct kk a x : kk = k -> (1 <= k)%nat ->
  length x = (2 ^ k)%nat -> (forall idx, (idx < 2 ^ k)%nat -> 0 <= nth idx x 0 < 2 * p /\ nth idx x 0 = a idx) ->
  length (ntt_core_at kk x) = (2 ^ k)%nat /\
  forall j, (j < 2 ^ k)%nat -> nth j (ntt_core_at kk x) 0 = (sum (2 ^ k) (fun t => a t * pw om (t * rev k j))) mod p.
Proof.
  intros Ek Hk Hlen Hx.
  assert (I0 : InvL p om k a 0 x).
  { split; auto. intros idx Hidx. destruct (Hx idx Hidx) as [R E]. split; auto. cbn [layers]. rewrite E. reflexivity. }
  unfold ntt_core_at. destruct kk as [|[|k2]]; [lia| |].
  - (* degree 2 *)
    rewrite <- Ek in Hlen, Hx. destruct x as [|u0 [|u1 [|u2 rest]]]; simpl in Hlen; try lia.
    apply strict_final. rewrite <- Ek.
    destruct (Hx 0%nat ltac:(simpl; lia)) as [R0 E0]. destruct (Hx 1%nat ltac:(simpl; lia)) as [R1 E1]. cbn [nth] in R0, E0, R1, E1.
    destruct (ladd_ok w Hw p Hp H4p u0 u1 R0 R1) as [Ra Ca]. destruct (lsub_ok w Hw p Hp H4p u0 u1 R0 R1) as [Rb Cb].
    split; [reflexivity|]. intros idx Hidx. cbn [layers]. unfold layer_fn. change (2 ^ (1 - 0))%nat with 2%nat. change (2 / 2)%nat with 1%nat.
    assert (Hc : idx = 0%nat \/ idx = 1%nat) by (simpl in Hidx; lia). destruct Hc as [-> | ->]; cbn [nth Nat.modulo Nat.divmod Nat.ltb Nat.leb fst snd Nat.sub Nat.add].
    + split; [exact Ra|]. unfold cg. rewrite Ca, E0, E1. reflexivity.
    + split; [exact Rb|]. unfold cg. rewrite Cb, E0, E1. cbn [Nat.mul pw]. rewrite Z.mul_1_r. reflexivity.
  - (* degree >= 4: k-2 generic layers, then the fused pass *)
    apply strict_final.
    pose proof (run_InvL w Hw p Hp H4p om k tws tws_ok a k2 0%nat x ltac:(lia) I0) as RI. cbn [Nat.add] in RI.
    pose proof Hhalf as Hh. pose proof tws_ok as Ht. revert RI. rewrite <- Ek in Hh, Ht |- *. intros RI.
    apply (fused_InvL w Hw p Hp H4p om k2 tws Ht a). exact RI.
Qed.

Theorem ntt_core_correct a x : (1 <= k)%nat ->
  length x = (2 ^ k)%nat -> (forall idx, (idx < 2 ^ k)%nat -> 0 <= nth idx x 0 < 2 * p /\ nth idx x 0 = a idx) ->
  length (ntt_core x) = (2 ^ k)%nat /\
  forall j, (j < 2 ^ k)%nat -> nth j (ntt_core x) 0 = (sum (2 ^ k) (fun t => a t * pw om (t * rev k j))) mod p.
Proof. apply ntt_core_at_correct. reflexivity. Qed.

(* the structured transform IS the generic layer-by-layer transform on every admissible input *)
Theorem ntt_core_eq x : (1 <= k)%nat -> length x = (2 ^ k)%nat -> (forall idx, (idx < 2 ^ k)%nat -> 0 <= nth idx x 0 < 2 * p) ->
  ntt_core x = ntt_list w p k tws x.
Proof.
  intros Hk Hlen Hx.
  assert (Hx' : forall idx, (idx < 2 ^ k)%nat -> 0 <= nth idx x 0 < 2 * p /\ nth idx x 0 = (fun i => nth i x 0) idx) by (intros; split; auto).
  destruct (ntt_core_correct (fun i => nth i x 0) x Hk Hlen Hx') as [L1 N1].
  destruct (ntt_list_correct w Hw p Hp H4p om k Hhalf tws tws_ok (fun i => nth i x 0) x Hlen Hx') as [L2 N2].
  apply (nth_ext _ _ 0 0); [congruence|]. intros j Hj. rewrite L1 in Hj. rewrite N1, N2 by exact Hj. reflexivity.
Qed.
End Core.
Print Assumptions ntt_core_eq.
