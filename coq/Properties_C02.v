(* C02 — forward and inverse transforms are exact inverses, linear and canonical.
   Statements only.  Model: NTTInst.v (tables as core::initialize() builds them from a table row; lazily reduced
   Harvey butterflies with machine-word wrap; final strict reduction), proofs: Transform.v, Inverse.v, NTTClosed.v, NTTTables.v.
   Tables: gen/Params.v regenerated from params.hpp on this run. *)
From Coq Require Import ZArith List.
From NTT Require Import Functors Algebra Inverse NTTInst NTTClosed NTTTables Shards Permut Tables FlatTable Fused GenEq.
From NTT.gen Require Gen GenLoop.
From NTT Require Structural GenLoopEq ScalarOps GenPrepEq InitSpec GenInitEq PrepSpec PermSem PermSrc InvNttSrc Frame InvNttAll SourceModel PowPhiSrc InvPowPhiSrc RoundTripSrc.
From NTT.gen Require GenPerm.
From NTT.gen Require Import Params.
Local Open Scope Z_scope.

(* for every row of every table and every degree n = 2^(k0+1), 2 <= n <= maxdeg, all canonical inputs:
   inv (fwd x) = x, fwd (inv y) = y, fwd x is canonical, fwd is additive mod p (and the product theorem of C01) *)
Theorem C02_transforms_all_rows_all_degrees :
  transform_ok 16 K16 rows16 /\ transform_ok 32 K32 rows32 /\ transform_ok 64 K64 rows64.
Proof. exact transform_ok_tables. Qed.
Print Assumptions C02_transforms_all_rows_all_degrees.

(* degree 1: both transforms are the identity on canonical words *)
Theorem C02_degree1 : forall w K rows bits nmod, TablesOK.table_valid w bits (2 ^ Z.of_nat K) nmod rows ->
  forall r, In r rows -> let '(p, _, _, ik) := r in
  forall x, Forall (fun v => 0 <= v < p) x -> ntt_fwd1 p x = x /\ ntt_inv1 p ik K x = x.
Proof. exact degree1_tables. Qed.
Print Assumptions C02_degree1.

(* open forms: any modulus / root / inverse satisfying the arithmetic hypotheses, any degree *)
Theorem C02_inv_fwd_open : forall w p g ik K k0, 0 < w -> 1 < p -> 4 * p <= 2 ^ w ->
  (g ^ (2 ^ Z.of_nat K)) mod p = p - 1 -> (ik * 2 ^ Z.of_nat K) mod p = 1 -> (S k0 <= K)%nat ->
  forall x, canonical p k0 x -> ntt_inv w p g ik K k0 (ntt_fwd w p g K k0 x) = x.
Proof. exact closed_inv_fwd. Qed.
Print Assumptions C02_inv_fwd_open.

Theorem C02_fwd_inv_open : forall w p g ik K k0, 0 < w -> 1 < p -> 4 * p <= 2 ^ w ->
  (g ^ (2 ^ Z.of_nat K)) mod p = p - 1 -> (ik * 2 ^ Z.of_nat K) mod p = 1 -> (S k0 <= K)%nat ->
  forall y, canonical p k0 y -> ntt_fwd w p g K k0 (ntt_inv w p g ik K k0 y) = y.
Proof. exact closed_fwd_inv. Qed.
Print Assumptions C02_fwd_inv_open.

(* the structure of core::ntt, open form: equal to the generic layer-by-layer transform for ANY words of the right length
   (forward: the twist already reduces) / any canonical words (inverse) *)
Theorem C02_structure_fwd_open : forall w p g K k0, 0 < w -> 1 < p -> 4 * p <= 2 ^ w ->
  (g ^ (2 ^ Z.of_nat K)) mod p = p - 1 -> (S k0 <= K)%nat ->
  forall x, length x = (2 ^ S k0)%nat -> ntt_fwd_s w p g K k0 x = ntt_fwd w p g K k0 x.
Proof. exact closed_struct_fwd. Qed.
Print Assumptions C02_structure_fwd_open.

Theorem C02_structure_inv_open : forall w p g ik K k0, 0 < w -> 1 < p -> 4 * p <= 2 ^ w ->
  (g ^ (2 ^ Z.of_nat K)) mod p = p - 1 -> (S k0 <= K)%nat ->
  forall y, canonical p k0 y -> ntt_inv_s w p g ik K k0 y = ntt_inv w p g ik K k0 y.
Proof. exact closed_struct_inv. Qed.
Print Assumptions C02_structure_inv_open.

(* the bit-reversal copy of inv_ntt: both implementations of permut.hpp (the shift-loop table for large degrees, the unrolled template
   recursion scattering into an uninitialised array for degree <= 1024) are the model's BR *)
Theorem C02_permut_table : forall k0 x, perm_table k0 x = BR k0 x.
Proof. exact perm_table_BR. Qed.
Print Assumptions C02_permut_table.
Theorem C02_permut_unrolled : forall k0 x, perm_unrolled k0 x = BR k0 x.
Proof. exact perm_unrolled_BR. Qed.
Print Assumptions C02_permut_unrolled.

(* the twiddle tables are ONE array walked by pointer arithmetic (prep_wtab writes level after level; ntt_loop does wtab += N/2 per layer;
   the fused layers read wtab[1]): the level-indexed view of the model is that array at exactly those offsets, and it fits (degree-1 entries) *)
Theorem C02_flat_table : forall p k om lvl i, (lvl < k)%nat -> (i < 2 ^ (k - lvl - 1))%nat ->
  nth (off k lvl + i) (flat p k om) 0 = nth i (nth lvl (prep p k om) nil) 0.
Proof. exact flat_level. Qed.
Print Assumptions C02_flat_table.
Theorem C02_flat_table_fits : forall p k om, (length (flat p k om) + 1 = 2 ^ k)%nat.
Proof. exact flat_length. Qed.
Print Assumptions C02_flat_table_fits.
Theorem C02_flat_fused_twiddle : forall p k2 om,
  nth (off (S (S k2)) k2 + 1) (flat p (S (S k2)) om) 0 = nth 1 (nth k2 (prep p (S (S k2)) om) nil) 0.
Proof. exact flat_fused_twiddle. Qed.
Print Assumptions C02_flat_fused_twiddle.

(* non-vacuity: the model run on a real row reproduces the words the real library printed (degree 8, p = 15361) *)
Example C02_nonvacuous :
  ntt_fwd 16 15361 4989 9 2 (3 :: 5690 :: 11377 :: 1703 :: 7390 :: 13077 :: 3403 :: 9090 :: nil)
  = 7469 :: 12413 :: 6176 :: 2160 :: 4334 :: 3724 :: 10584 :: 14608 :: nil.
Proof. vm_compute. reflexivity. Qed.
Example C02_nonvacuous_structure :
  ntt_fwd_s 16 15361 4989 9 2 (3 :: 5690 :: 11377 :: 1703 :: 7390 :: 13077 :: 3403 :: 9090 :: nil)
  = 7469 :: 12413 :: 6176 :: 2160 :: 4334 :: 3724 :: 10584 :: 14608 :: nil.
Proof. vm_compute. reflexivity. Qed.

(* THE SOURCE ITSELF (gen/Gen.v, translated from the C++ on every run): the scalar Harvey butterfly of ntt_loop_body, the hand-fused
   last two layers and the degree-2 special case of core::ntt are, word for word, the components the structured model is built from *)
Theorem C02_source_butterfly : forall p a b wt wt',
  (0 <= p < 2 ^ 14 -> 0 <= a < 2 ^ 16 -> 0 <= b < 2 ^ 16 -> 0 <= wt < 2 ^ 14 -> 0 <= wt' < 2 ^ 16 -> Gen.gen_bfly_u16 p a b wt' wt = Some (bfly_lazy 16 p wt wt' a b)) /\
  (0 <= 2 * p < 2 ^ 32 -> 0 <= wt' < 2 ^ 32 -> Gen.gen_bfly_u32 p a b wt' wt = Some (bfly_lazy 32 p wt wt' a b)) /\
  (0 <= 2 * p < 2 ^ 64 -> 0 <= wt' < 2 ^ 64 -> Gen.gen_bfly_u64 p a b wt' wt = Some (bfly_lazy 64 p wt wt' a b)).
Proof. intros p a b wt wt'. exact (conj (GenEq.gen_bfly16 p a b wt wt') (conj (GenEq.gen_bfly32 p a b wt wt') (GenEq.gen_bfly64 p a b wt wt'))). Qed.
Print Assumptions C02_source_butterfly.
Theorem C02_source_fused_layers : forall p u0 u1 u2 u3 w1 w1',
  (0 <= p < 2 ^ 14 -> 0 <= u0 < 2 ^ 16 -> 0 <= u1 < 2 ^ 16 -> 0 <= u2 < 2 ^ 16 -> 0 <= u3 < 2 ^ 16 -> 0 <= w1 < 2 ^ 14 -> 0 <= w1' < 2 ^ 16 ->
     Gen.gen_fused_u16 p u0 u1 u2 u3 w1' w1 = Some (Fused.fused 16 p w1 w1' u0 u1 u2 u3)) /\
  (0 <= 2 * p < 2 ^ 32 -> 0 <= w1' < 2 ^ 32 -> Gen.gen_fused_u32 p u0 u1 u2 u3 w1' w1 = Some (Fused.fused 32 p w1 w1' u0 u1 u2 u3)) /\
  (0 <= 2 * p < 2 ^ 64 -> 0 <= w1' < 2 ^ 64 -> Gen.gen_fused_u64 p u0 u1 u2 u3 w1' w1 = Some (Fused.fused 64 p w1 w1' u0 u1 u2 u3)).
Proof. intros p u0 u1 u2 u3 w1 w1'. exact (conj (GenEq.gen_fused16 p u0 u1 u2 u3 w1 w1') (conj (GenEq.gen_fused32 p u0 u1 u2 u3 w1 w1') (GenEq.gen_fused64 p u0 u1 u2 u3 w1 w1'))). Qed.
Print Assumptions C02_source_fused_layers.
Theorem C02_source_degree2 : forall p u0 u1,
  (0 <= p < 2 ^ 14 -> 0 <= u0 < 2 ^ 16 -> 0 <= u1 < 2 ^ 16 -> Gen.gen_deg2_u16 p u0 u1 = Some (GenEq.strict1 p (Fused.ladd 16 p u0 u1), GenEq.strict1 p (Fused.lsub 16 p u0 u1))) /\
  (0 <= 2 * p < 2 ^ 32 -> Gen.gen_deg2_u32 p u0 u1 = Some (GenEq.strict1 p (Fused.ladd 32 p u0 u1), GenEq.strict1 p (Fused.lsub 32 p u0 u1))) /\
  (0 <= 2 * p < 2 ^ 64 -> Gen.gen_deg2_u64 p u0 u1 = Some (GenEq.strict1 p (Fused.ladd 64 p u0 u1), GenEq.strict1 p (Fused.lsub 64 p u0 u1))).
Proof. intros p u0 u1. exact (conj (GenEq.gen_deg2_16 p u0 u1) (conj (GenEq.gen_deg2_32 p u0 u1) (GenEq.gen_deg2_64 p u0 u1))). Qed.
Print Assumptions C02_source_degree2.
(* THE LOOPS OF THE SOURCE (gen/GenLoop.v, translated by tools/cxxloop2coq.py on every run): poly::core::ntt with ntt_loop<serial>::run --
   loop bounds, the index expressions N*r+i(+N/2), the table pointers advancing by N/2 per layer, the last two layers four by four, the
   final strict reduction, every array access bounds-checked -- computes, on the tables as the library lays them out (one flat array per
   table, Shoup companions beside it, reduced data behind them), exactly Structural.ntt_core, the model the theorems above are stated on.
   Any degree 4..2^30. *)
Theorem C02_source_loops_serial : forall k p om padW padW' x0, (2 <= k <= 30)%nat -> 1 < p -> List.Forall (fun v => 0 <= v < p) padW -> length x0 = (2 ^ k)%nat ->
  let W := (FlatTable.flat p k om ++ padW)%list in let W' := fun w => (List.map (fun v => (v * 2 ^ w) / p) (FlatTable.flat p k om) ++ padW')%list in
  let tws := fun lvl => List.nth lvl (Tables.prep p k om) nil in
  (p < 2 ^ 14 -> List.Forall (fun v => 0 <= v < 2 ^ 16) padW' -> List.Forall (fun v => 0 <= v < 2 ^ 16) x0 ->
     GenLoop.gen_ntt_serial_u16 (Z.of_nat (2 ^ k)) x0 0 W 0 (W' 16) 0 p =
     Some ((Structural.ntt_core 16 p k tws x0, Z.of_nat (2 ^ k), Z.of_nat (FlatTable.off k (k - 2)), Z.of_nat (FlatTable.off k (k - 2))), true)) /\
  (4 * p <= 2 ^ 32 -> List.Forall (fun v => 0 <= v < 2 ^ 32) padW' -> List.Forall (fun v => 0 <= v < 2 ^ 32) x0 ->
     GenLoop.gen_ntt_serial_u32 (Z.of_nat (2 ^ k)) x0 0 W 0 (W' 32) 0 p =
     Some ((Structural.ntt_core 32 p k tws x0, Z.of_nat (2 ^ k), Z.of_nat (FlatTable.off k (k - 2)), Z.of_nat (FlatTable.off k (k - 2))), true)) /\
  (4 * p <= 2 ^ 64 -> List.Forall (fun v => 0 <= v < 2 ^ 64) padW' -> List.Forall (fun v => 0 <= v < 2 ^ 64) x0 ->
     GenLoop.gen_ntt_serial_u64 (Z.of_nat (2 ^ k)) x0 0 W 0 (W' 64) 0 p =
     Some ((Structural.ntt_core 64 p k tws x0, Z.of_nat (2 ^ k), Z.of_nat (FlatTable.off k (k - 2)), Z.of_nat (FlatTable.off k (k - 2))), true)).
Proof. exact GenLoopEq.source_loops_serial. Qed.
Print Assumptions C02_source_loops_serial.
(* THE TABLE PREPARATION OF THE SOURCE (prep_wtab: a while loop halving K, a for loop writing  *wtab++ = wi; *wtabshoup++ = (wi << w) / p;
   wi = mulmod(wi, w), then w = mulmod(w, w)): for every table row it fills the two arrays with FlatTable.flat and its Shoup companions (and
   leaves the rest of the arrays alone), never writing outside them; and on those arrays core::ntt of every build is the model's transform. *)
Theorem C02_source_tables : forall fuel k om A0 B0 cm, (k <= 30)%nat -> (k < fuel)%nat -> (2 ^ k - 1 <= length A0)%nat -> (2 ^ k - 1 <= length B0)%nat ->
  (forall p, ScalarOps.Hrow 16 p -> 0 <= om < p ->
     GenLoop.gen_prep_wtab_u16 fuel (Z.of_nat (2 ^ k)) A0 0 B0 0 om cm p = Some (GenPrepEq.tables_of 16 p k om A0 B0, Z.of_nat (2 ^ k - 1), Z.of_nat (2 ^ k - 1))) /\
  (forall p, ScalarOps.Hrow 32 p -> 0 <= om < p ->
     GenLoop.gen_prep_wtab_u32 fuel (Z.of_nat (2 ^ k)) A0 0 B0 0 om cm p = Some (GenPrepEq.tables_of 32 p k om A0 B0, Z.of_nat (2 ^ k - 1), Z.of_nat (2 ^ k - 1))) /\
  (forall p pn, ScalarOps.Hrow64 p pn -> 0 <= om < p ->
     GenLoop.gen_prep_wtab_u64 fuel (Z.of_nat (2 ^ k)) A0 0 B0 0 om cm p pn = Some (GenPrepEq.tables_of 64 p k om A0 B0, Z.of_nat (2 ^ k - 1), Z.of_nat (2 ^ k - 1))).
Proof.
  exact (fun fuel k om A0 B0 cm Hk Hf HA HB => conj (fun p H Hom => GenPrepEq.prep_u16_ok fuel k p om A0 B0 cm H Hom Hk Hf HA HB)
    (conj (fun p H Hom => GenPrepEq.prep_u32_ok fuel k p om A0 B0 cm H Hom Hk Hf HA HB) (fun p pn H Hom => GenPrepEq.prep_u64_ok fuel k p pn om A0 B0 cm H Hom Hk Hf HA HB))).
Qed.
Print Assumptions C02_source_tables.
Theorem C02_source_tables_then_transform_u32 : forall fuel k p om A0 B0 cm x0, ScalarOps.Hrow 32 p -> 0 <= om < p -> (3 <= k <= 30)%nat -> (k < fuel)%nat ->
  (2 ^ k - 1 <= length A0)%nat -> (2 ^ k - 1 <= length B0)%nat -> List.Forall (fun v => 0 <= v < p) (List.skipn (2 ^ k - 1) A0) -> List.Forall (fun v => 0 <= v < 2 ^ 32) (List.skipn (2 ^ k - 1) B0) ->
  length x0 = (2 ^ k)%nat -> List.Forall (fun v => 0 <= v < 2 ^ 32) x0 ->
  let out := Some ((Structural.ntt_core 32 p k (fun lvl => List.nth lvl (Tables.prep p k om) nil) x0, Z.of_nat (2 ^ k), Z.of_nat (FlatTable.off k (k - 2)), Z.of_nat (FlatTable.off k (k - 2))), true) in
  GenPrepEq.after_prep (GenLoop.gen_prep_wtab_u32 fuel (Z.of_nat (2 ^ k)) A0 0 B0 0 om cm p) (fun WA WB =>
    GenLoop.gen_ntt_serial_u32 (Z.of_nat (2 ^ k)) x0 0 WA 0 WB 0 p = out /\ GenLoop.gen_ntt_sse_u32 (Z.of_nat (2 ^ k)) x0 0 WA 0 WB 0 p = out /\ GenLoop.gen_ntt_avx2_u32 (Z.of_nat (2 ^ k)) x0 0 WA 0 WB 0 p = out).
Proof. exact GenPrepEq.source_tables_then_transform_u32. Qed.
Print Assumptions C02_source_tables_then_transform_u32.
Theorem C02_source_tables_then_transform_u16 : forall fuel k p om A0 B0 cm x0, ScalarOps.Hrow 16 p -> 0 <= om < p -> (3 <= k <= 30)%nat -> (k < fuel)%nat ->
  (2 ^ k - 1 <= length A0)%nat -> (2 ^ k - 1 <= length B0)%nat -> List.Forall (fun v => 0 <= v < p) (List.skipn (2 ^ k - 1) A0) -> List.Forall (fun v => 0 <= v < 2 ^ 16) (List.skipn (2 ^ k - 1) B0) ->
  length x0 = (2 ^ k)%nat -> List.Forall (fun v => 0 <= v < 2 ^ 16) x0 ->
  let out := Some ((Structural.ntt_core 16 p k (fun lvl => List.nth lvl (Tables.prep p k om) nil) x0, Z.of_nat (2 ^ k), Z.of_nat (FlatTable.off k (k - 2)), Z.of_nat (FlatTable.off k (k - 2))), true) in
  GenPrepEq.after_prep (GenLoop.gen_prep_wtab_u16 fuel (Z.of_nat (2 ^ k)) A0 0 B0 0 om cm p) (fun WA WB =>
    GenLoop.gen_ntt_serial_u16 (Z.of_nat (2 ^ k)) x0 0 WA 0 WB 0 p = out /\ GenLoop.gen_ntt_sse_u16 (Z.of_nat (2 ^ k)) x0 0 WA 0 WB 0 p = out /\ GenLoop.gen_ntt_avx2_u16 (Z.of_nat (2 ^ k)) x0 0 WA 0 WB 0 p = out).
Proof. exact GenPrepEq.source_tables_then_transform_u16. Qed.
Print Assumptions C02_source_tables_then_transform_u16.
Theorem C02_source_tables_then_transform_u64 : forall fuel k p pn om A0 B0 cm x0, ScalarOps.Hrow64 p pn -> 0 <= om < p -> (3 <= k <= 30)%nat -> (k < fuel)%nat ->
  (2 ^ k - 1 <= length A0)%nat -> (2 ^ k - 1 <= length B0)%nat -> List.Forall (fun v => 0 <= v < p) (List.skipn (2 ^ k - 1) A0) -> List.Forall (fun v => 0 <= v < 2 ^ 64) (List.skipn (2 ^ k - 1) B0) ->
  length x0 = (2 ^ k)%nat -> List.Forall (fun v => 0 <= v < 2 ^ 64) x0 ->
  let out := Some ((Structural.ntt_core 64 p k (fun lvl => List.nth lvl (Tables.prep p k om) nil) x0, Z.of_nat (2 ^ k), Z.of_nat (FlatTable.off k (k - 2)), Z.of_nat (FlatTable.off k (k - 2))), true) in
  GenPrepEq.after_prep (GenLoop.gen_prep_wtab_u64 fuel (Z.of_nat (2 ^ k)) A0 0 B0 0 om cm p pn) (fun WA WB =>
    GenLoop.gen_ntt_serial_u64 (Z.of_nat (2 ^ k)) x0 0 WA 0 WB 0 p = out /\ GenLoop.gen_ntt_sse_u64 (Z.of_nat (2 ^ k)) x0 0 WA 0 WB 0 p = out /\ GenLoop.gen_ntt_avx2_u64 (Z.of_nat (2 ^ k)) x0 0 WA 0 WB 0 p = out).
Proof. exact GenPrepEq.source_tables_then_transform_u64. Qed.
Print Assumptions C02_source_tables_then_transform_u64.

(* core::initialize() OF THE SOURCE, translated by tools/cxxloop2coq.py on every run (gen_initialize_uN): the loop over the moduli; the
   squarings of the tabulated root; the tables phis / shoupphis (two-dimensional member arrays, flat index cm*degree + i); invphi from
   phis[cm][degree-1]; invpolyDegree[cm]; the table invpoly_times_invphis and its Shoup companion; and the twiddle tables through prep_wtab
   called with BOTH pointers inside one array (omegas[cm] and shoupomegas[cm] = omegas[cm] + degree: the pointer-array members are tracked as
   aliases, the callee is translated with the two pointers in one array -- gen_prep_wtab1_uN -- and proved to write the two regions and
   nothing else: PrepSpec1.v).  For any degree n = 2^(k0+1) <= maxdeg, any number of moduli and any initial contents of the arrays, every
   access stays inside its array and at the end, for every modulus c and index i, the arrays hold exactly the tables of NTTInst.v -- the
   model all transform theorems (the C01_product and C02_transforms theorems) are stated on: phis, cs (= n^-1 invphi^i), ninv, and the flat twiddle
   tables (FlatTable.flat of omega / invomega) at the start of row c of omegas / invomegas with their Shoup companions n words further,
   which is where ntt_pow_phi / invntt_pow_invphi pass them to core::ntt. *)
Theorem C02_source_initialize : forall P Pn roots invk,
  GenInitEq.init_statement 16 9 (GenInitEq.rowok16 P roots invk) (fun fuel degree om iom ph sph ipd ipi sipi nm => GenLoop.gen_initialize_u16 fuel degree om iom ph sph ipd ipi sipi nm roots P invk) P roots invk /\
  GenInitEq.init_statement 32 15 (GenInitEq.rowok32 P roots invk) (fun fuel degree om iom ph sph ipd ipi sipi nm => GenLoop.gen_initialize_u32 fuel degree om iom ph sph ipd ipi sipi nm roots P invk) P roots invk /\
  GenInitEq.init_statement 64 20 (GenInitEq.rowok64 P Pn roots invk) (fun fuel degree om iom ph sph ipd ipi sipi nm => GenLoop.gen_initialize_u64 fuel degree om iom ph sph ipd ipi sipi nm roots P Pn invk) P roots invk.
Proof. exact (fun P Pn roots invk => conj (GenInitEq.source_initialize_u16 P roots invk) (conj (GenInitEq.source_initialize_u32 P roots invk) (GenInitEq.source_initialize_u64 P Pn roots invk))). Qed.
Print Assumptions C02_source_initialize.
(* what init_statement says, unfolded *)
Theorem C02_source_initialize_statement : forall bits K rowok run P roots invk, GenInitEq.init_statement bits K rowok run P roots invk <->
  (forall (k0 nm fuel : nat) (ph0 sph0 ipd0 ipi0 sipi0 om0 iom0 : list Z), let n := (2 ^ S k0)%nat in
   (S k0 <= K)%nat -> (S k0 < fuel)%nat -> Z.of_nat nm < 2 ^ 28 -> (forall cm, (cm < nm)%nat -> rowok cm) ->
   length ph0 = (nm * n)%nat -> length sph0 = (nm * n)%nat -> length ipd0 = nm -> length ipi0 = (nm * n)%nat -> length sipi0 = (nm * n)%nat ->
   length om0 = (nm * (n * 2))%nat -> length iom0 = (nm * (n * 2))%nat ->
   exists ph sph ipd ipi sipi om iom, run fuel (Z.of_nat n) om0 iom0 ph0 sph0 ipd0 ipi0 sipi0 (Z.of_nat nm) = Some (ph, sph, ipd, ipi, sipi, om, iom) /\
   (length ph = (nm * n)%nat /\ length sph = (nm * n)%nat /\ length ipd = nm /\ length ipi = (nm * n)%nat /\ length sipi = (nm * n)%nat /\ length om = (nm * (n * 2))%nat /\ length iom = (nm * (n * 2))%nat) /\
   forall c, (c < nm)%nat -> let p := nth c P 0 in let g := nth c roots 0 in let ik := nth c invk 0 in let sh := map (PrepSpec.shoup bits p) in
     nth c ipd 0 = NTTInst.ninv p ik K k0 /\
     (forall i, (i < n)%nat -> nth (c * n + i) ph 0 = nth i (NTTInst.phis p g K k0) 0 /\ nth (c * n + i) sph 0 = nth i (sh (NTTInst.phis p g K k0)) 0 /\
                               nth (c * n + i) ipi 0 = nth i (NTTInst.cs p g ik K k0) 0 /\ nth (c * n + i) sipi 0 = nth i (sh (NTTInst.cs p g ik K k0)) 0) /\
     (forall i, (i < n - 1)%nat -> nth (c * (n * 2) + i) om 0 = nth i (FlatTable.flat p (S k0) (NTTInst.omega p g K k0)) 0 /\
                                   nth (c * (n * 2) + n + i) om 0 = nth i (sh (FlatTable.flat p (S k0) (NTTInst.omega p g K k0))) 0 /\
                                   nth (c * (n * 2) + i) iom 0 = nth i (FlatTable.flat p (S k0) (NTTInst.invomega p g K k0)) 0 /\
                                   nth (c * (n * 2) + n + i) iom 0 = nth i (sh (FlatTable.flat p (S k0) (NTTInst.invomega p g K k0))) 0)).
Proof. intros. unfold GenInitEq.init_statement. split; intros H; exact H. Qed.
Print Assumptions C02_source_initialize_statement.

(* THE BIT-REVERSAL PERMUTATION OF THE SOURCE (include/nfl/permut.hpp), translated by tools/cxxperm2coq.py on every run into gen/GenPerm.v:
   for every degree 2..1024 the list of assignments y[r] = x[I] the template recursion r_set<0,1,degree> executes, in execution order (walked
   through the instantiated specialisations; r = r_loop<1,degree,0,I>::value evaluated by following the initialisers); for larger degrees
   the constructor of permut_compute (the table: a for loop around the shift loop  r = (r << 1) | (ii & 1); ii >>= 1; h = h << 1, in a
   16- or 32-bit index type with its integer promotions) and the copy loop y[i] = x[P(i)]; the dispatch between them and the index type
   probed by static_asserts.  For EVERY degree 2^k, k = 1..30, any source of at least 2^k words and any destination of at least 2^k words,
   all accesses are in bounds and the destination's first 2^k words become the model's BR (Inverse.v) of the source, the rest is untouched. *)
Theorem C02_source_permut : forall k0 fuel (x y : list Z), let n := (2 ^ S k0)%nat in (S k0 <= 30)%nat -> (S k0 < fuel)%nat -> (n <= length x)%nat -> (n <= length y)%nat ->
  GenPerm.gen_permut fuel (Z.of_nat n) y 0 x 0 = Some (BR k0 x ++ skipn n y).
Proof. exact PermSrc.permut_ok. Qed.
Print Assumptions C02_source_permut.
(* core::inv_ntt OF THE SOURCE, every build and limb type (the nine translations gen_inv_ntt_<build>_uN: bit-reversal copy of x into the local
   array y[degree+1], core::ntt on it, bit-reversal copy back): for every degree 2^k, k = 3..30, the caller's array becomes
   BR (ntt_core (BR x)) -- Structural.ntt_core being what C05_source_loops_all_builds shows the translated core::ntt computes (equal to the
   model's ntt_list, C02_structure_inv_open), so this is the inner part of the model's inverse transform (Inverse.inv, NTTInst) -- every
   access in bounds, the scratch array's extra word untouched (Frame.v: a successful run of the translated core::ntt on x succeeds on
   x ++ pad and leaves pad alone), both table pointers as they were. *)
Theorem C02_source_inv_ntt : forall k0 p om padW padW' fuel invK, (3 <= S k0 <= 30)%nat -> 1 < p -> List.Forall (fun v => 0 <= v < p) padW -> (S k0 < fuel)%nat ->
  let k := S k0 in let n := (2 ^ k)%nat in
  let W := (FlatTable.flat p k om ++ padW)%list in let W' := fun w => (List.map (fun v => (v * 2 ^ w) / p) (FlatTable.flat p k om) ++ padW')%list in
  let tws := fun lvl => List.nth lvl (Tables.prep p k om) nil in
  let out w x y0 := Some ((BR k0 (Structural.ntt_core w p k tws (BR k0 x)), (Structural.ntt_core w p k tws (BR k0 x) ++ List.skipn n y0)%list, 0, 0), true) in
  (p < 2 ^ 14 -> List.Forall (fun v => 0 <= v < 2 ^ 16) padW' -> forall x y0, length x = n -> List.Forall (fun v => 0 <= v < 2 ^ 16) x -> length y0 = S n ->
     GenLoop.gen_inv_ntt_serial_u16 fuel (Z.of_nat n) x 0 W 0 (W' 16) 0 invK p y0 = out 16 x y0 /\
     GenLoop.gen_inv_ntt_sse_u16 fuel (Z.of_nat n) x 0 W 0 (W' 16) 0 invK p y0 = out 16 x y0 /\
     GenLoop.gen_inv_ntt_avx2_u16 fuel (Z.of_nat n) x 0 W 0 (W' 16) 0 invK p y0 = out 16 x y0) /\
  (4 * p <= 2 ^ 32 -> List.Forall (fun v => 0 <= v < 2 ^ 32) padW' -> forall x y0, length x = n -> List.Forall (fun v => 0 <= v < 2 ^ 32) x -> length y0 = S n ->
     GenLoop.gen_inv_ntt_serial_u32 fuel (Z.of_nat n) x 0 W 0 (W' 32) 0 invK p y0 = out 32 x y0 /\
     GenLoop.gen_inv_ntt_sse_u32 fuel (Z.of_nat n) x 0 W 0 (W' 32) 0 invK p y0 = out 32 x y0 /\
     GenLoop.gen_inv_ntt_avx2_u32 fuel (Z.of_nat n) x 0 W 0 (W' 32) 0 invK p y0 = out 32 x y0) /\
  (4 * p <= 2 ^ 64 -> List.Forall (fun v => 0 <= v < 2 ^ 64) padW' -> forall x y0, length x = n -> List.Forall (fun v => 0 <= v < 2 ^ 64) x -> length y0 = S n ->
     GenLoop.gen_inv_ntt_serial_u64 fuel (Z.of_nat n) x 0 W 0 (W' 64) 0 invK p y0 = out 64 x y0 /\
     GenLoop.gen_inv_ntt_sse_u64 fuel (Z.of_nat n) x 0 W 0 (W' 64) 0 invK p y0 = out 64 x y0 /\
     GenLoop.gen_inv_ntt_avx2_u64 fuel (Z.of_nat n) x 0 W 0 (W' 64) 0 invK p y0 = out 64 x y0).
Proof. exact InvNttAll.source_inv_ntt_all_builds. Qed.
Print Assumptions C02_source_inv_ntt.

(* THE EXTRACTED TRANSFORM PAIR OVER THE TRANSLATED SOURCE.  ntt_fwd_s / ntt_inv_s (NTTInst.v) are the model that is extracted and run
   against the library and on which the theorems at the top of this file are stated (through C02_structure_*_open).  On tables laid out as
   core::initialize() lays them out (C02_source_initialize: FlatTable.flat of omega / invomega, the Shoup companions, anything after them):
     - the translated core::ntt of every build, applied to the twisted input (the expression  op * phis  of ntt_pow_phi), returns ntt_fwd_s x;
     - ntt_inv_s y is the pointwise multiplication by invpoly_times_invphis (cs) of what the translated core::inv_ntt of every build returns.
   Left to the hand model and the correspondence: those two expression-template statements (C07) and the loop over the moduli. *)
Theorem C02_source_forward_is_model : forall p g K k0 padW padW', (3 <= S k0 <= 30)%nat -> 1 < p -> List.Forall (fun v => 0 <= v < p) padW ->
  let k := S k0 in let n := (2 ^ k)%nat in let om := omega p g K k0 in
  let W := (FlatTable.flat p k om ++ padW)%list in let W' := fun w => (List.map (fun v => (v * 2 ^ w) / p) (FlatTable.flat p k om) ++ padW')%list in
  (p < 2 ^ 14 -> List.Forall (fun v => 0 <= v < 2 ^ 16) padW' -> forall x, let tx := Inverse.twist p k0 (phis p g K k0) x in
     let out := Some ((ntt_fwd_s 16 p g K k0 x, Z.of_nat n, Z.of_nat (FlatTable.off k (k - 2)), Z.of_nat (FlatTable.off k (k - 2))), true) in
     GenLoop.gen_ntt_serial_u16 (Z.of_nat n) tx 0 W 0 (W' 16) 0 p = out /\ GenLoop.gen_ntt_sse_u16 (Z.of_nat n) tx 0 W 0 (W' 16) 0 p = out /\ GenLoop.gen_ntt_avx2_u16 (Z.of_nat n) tx 0 W 0 (W' 16) 0 p = out) /\
  (4 * p <= 2 ^ 32 -> List.Forall (fun v => 0 <= v < 2 ^ 32) padW' -> forall x, let tx := Inverse.twist p k0 (phis p g K k0) x in
     let out := Some ((ntt_fwd_s 32 p g K k0 x, Z.of_nat n, Z.of_nat (FlatTable.off k (k - 2)), Z.of_nat (FlatTable.off k (k - 2))), true) in
     GenLoop.gen_ntt_serial_u32 (Z.of_nat n) tx 0 W 0 (W' 32) 0 p = out /\ GenLoop.gen_ntt_sse_u32 (Z.of_nat n) tx 0 W 0 (W' 32) 0 p = out /\ GenLoop.gen_ntt_avx2_u32 (Z.of_nat n) tx 0 W 0 (W' 32) 0 p = out) /\
  (4 * p <= 2 ^ 64 -> List.Forall (fun v => 0 <= v < 2 ^ 64) padW' -> forall x, let tx := Inverse.twist p k0 (phis p g K k0) x in
     let out := Some ((ntt_fwd_s 64 p g K k0 x, Z.of_nat n, Z.of_nat (FlatTable.off k (k - 2)), Z.of_nat (FlatTable.off k (k - 2))), true) in
     GenLoop.gen_ntt_serial_u64 (Z.of_nat n) tx 0 W 0 (W' 64) 0 p = out /\ GenLoop.gen_ntt_sse_u64 (Z.of_nat n) tx 0 W 0 (W' 64) 0 p = out /\ GenLoop.gen_ntt_avx2_u64 (Z.of_nat n) tx 0 W 0 (W' 64) 0 p = out).
Proof. exact (fun p g K k0 padW padW' Hk Hp HpW => SourceModel.source_forward_is_model p g K k0 padW padW' Hk Hp HpW). Qed.
Print Assumptions C02_source_forward_is_model.
Theorem C02_source_inverse_is_model : forall p g ik K k0 padW padW' fuel invK, (3 <= S k0 <= 30)%nat -> 1 < p -> List.Forall (fun v => 0 <= v < p) padW -> (S k0 < fuel)%nat ->
  let k := S k0 in let n := (2 ^ k)%nat in let om := invomega p g K k0 in
  let W := (FlatTable.flat p k om ++ padW)%list in let W' := fun w => (List.map (fun v => (v * 2 ^ w) / p) (FlatTable.flat p k om) ++ padW')%list in
  let ok := fun (w : Z) (y : list Z) (r : option (list Z * list Z * Z * Z * bool)) => exists z y1, r = Some ((z, y1, 0, 0), true) /\
    ntt_inv_s w p g ik K k0 y = Inverse.tab k0 (fun i => (List.nth i z 0 * List.nth i (cs p g ik K k0) 0) mod p) in
  (p < 2 ^ 14 -> List.Forall (fun v => 0 <= v < 2 ^ 16) padW' -> forall y y0, length y = n -> List.Forall (fun v => 0 <= v < 2 ^ 16) y -> length y0 = S n ->
     ok 16 y (GenLoop.gen_inv_ntt_serial_u16 fuel (Z.of_nat n) y 0 W 0 (W' 16) 0 invK p y0) /\ ok 16 y (GenLoop.gen_inv_ntt_sse_u16 fuel (Z.of_nat n) y 0 W 0 (W' 16) 0 invK p y0) /\ ok 16 y (GenLoop.gen_inv_ntt_avx2_u16 fuel (Z.of_nat n) y 0 W 0 (W' 16) 0 invK p y0)) /\
  (4 * p <= 2 ^ 32 -> List.Forall (fun v => 0 <= v < 2 ^ 32) padW' -> forall y y0, length y = n -> List.Forall (fun v => 0 <= v < 2 ^ 32) y -> length y0 = S n ->
     ok 32 y (GenLoop.gen_inv_ntt_serial_u32 fuel (Z.of_nat n) y 0 W 0 (W' 32) 0 invK p y0) /\ ok 32 y (GenLoop.gen_inv_ntt_sse_u32 fuel (Z.of_nat n) y 0 W 0 (W' 32) 0 invK p y0) /\ ok 32 y (GenLoop.gen_inv_ntt_avx2_u32 fuel (Z.of_nat n) y 0 W 0 (W' 32) 0 invK p y0)) /\
  (4 * p <= 2 ^ 64 -> List.Forall (fun v => 0 <= v < 2 ^ 64) padW' -> forall y y0, length y = n -> List.Forall (fun v => 0 <= v < 2 ^ 64) y -> length y0 = S n ->
     ok 64 y (GenLoop.gen_inv_ntt_serial_u64 fuel (Z.of_nat n) y 0 W 0 (W' 64) 0 invK p y0) /\ ok 64 y (GenLoop.gen_inv_ntt_sse_u64 fuel (Z.of_nat n) y 0 W 0 (W' 64) 0 invK p y0) /\ ok 64 y (GenLoop.gen_inv_ntt_avx2_u64 fuel (Z.of_nat n) y 0 W 0 (W' 64) 0 invK p y0)).
Proof. exact (fun p g ik K k0 padW padW' fuel invK Hk Hp HpW Hf => SourceModel.source_inverse_is_model p g K k0 padW padW' Hk Hp HpW ik fuel invK Hf). Qed.
Print Assumptions C02_source_inverse_is_model.

(* core::ntt_pow_phi OF THE SOURCE, whole function, every build and limb type (gen_ntt_pow_phi_<build>_uN, translated on every run: the loop
   over the moduli calling the translated core::ntt on row cm of _data with omegas[cm] and the pointer-array member shoupomegas[cm], read
   as omegas[cm] + degree -- the form in which core::initialize() of the source sets it; the expression-template statement
   op = shoup(op * phis, shoupphis) as the oracle ExprSem.expr_shoup_mul: element-wise translated mulmod_shoup, C07's meaning).
   On arrays described POINTWISE exactly as C02_source_initialize describes what core::initialize() leaves (tables_of_init below), for any
   number of moduli and any degree 2^k, k = 4..30, canonical input rows: row c of the polynomial becomes NTTInst.ntt_fwd_s of row c -- the
   extracted forward transform of C01/C02.  Each iteration is C05_source_loops_anywhere at offsets cm*degree, cm*2*degree, cm*2*degree+degree. *)
Theorem C02_source_ntt_pow_phi : forall K k0 nm P roots data ph sph om, (4 <= S k0 <= 30)%nat -> Z.of_nat nm < 2 ^ 28 ->
  length data = (nm * 2 ^ S k0)%nat -> (nm * 2 ^ S k0 <= length ph)%nat -> (nm * 2 ^ S k0 <= length sph)%nat -> (nm * (2 * 2 ^ S k0) <= length om)%nat ->
  let n := (2 ^ S k0)%nat in let row := fun c => List.firstn n (List.skipn (c * n) data) in
  (forall c, (c < nm)%nat -> List.Forall (fun v => 0 <= v < List.nth c P 0) (row c)) ->
  let tables := fun bits => forall c, (c < nm)%nat -> let p := List.nth c P 0 in let g := List.nth c roots 0 in let shp := List.map (fun v => (v * 2 ^ bits) / p) in
     (forall i, (i < n)%nat -> List.nth (c * n + i) ph 0 = List.nth i (phis p g K k0) 0 /\ List.nth (c * n + i) sph 0 = List.nth i (shp (phis p g K k0)) 0) /\
     (forall i, (i < n - 1)%nat -> List.nth (c * (n * 2) + i) om 0 = List.nth i (FlatTable.flat p (S k0) (omega p g K k0)) 0 /\
                                   List.nth (c * (n * 2) + n + i) om 0 = List.nth i (shp (FlatTable.flat p (S k0) (omega p g K k0))) 0) in
  let out := fun bits => Some (List.concat (List.map (fun c => ntt_fwd_s bits (List.nth c P 0) (List.nth c roots 0) K k0 (row c)) (List.seq 0 nm))) in
  ((forall c, (c < nm)%nat -> ScalarOps.Hrow 16 (List.nth c P 0)) -> tables 16 ->
     GenLoop.gen_ntt_pow_phi_serial_u16 (Z.of_nat n) (Z.of_nat nm) data ph sph om P = out 16 /\ GenLoop.gen_ntt_pow_phi_sse_u16 (Z.of_nat n) (Z.of_nat nm) data ph sph om P = out 16 /\ GenLoop.gen_ntt_pow_phi_avx2_u16 (Z.of_nat n) (Z.of_nat nm) data ph sph om P = out 16) /\
  ((forall c, (c < nm)%nat -> ScalarOps.Hrow 32 (List.nth c P 0)) -> tables 32 ->
     GenLoop.gen_ntt_pow_phi_serial_u32 (Z.of_nat n) (Z.of_nat nm) data ph sph om P = out 32 /\ GenLoop.gen_ntt_pow_phi_sse_u32 (Z.of_nat n) (Z.of_nat nm) data ph sph om P = out 32 /\ GenLoop.gen_ntt_pow_phi_avx2_u32 (Z.of_nat n) (Z.of_nat nm) data ph sph om P = out 32) /\
  ((forall c, (c < nm)%nat -> ScalarOps.Hrow 64 (List.nth c P 0)) -> tables 64 ->
     GenLoop.gen_ntt_pow_phi_serial_u64 (Z.of_nat n) (Z.of_nat nm) data ph sph om P = out 64 /\ GenLoop.gen_ntt_pow_phi_sse_u64 (Z.of_nat n) (Z.of_nat nm) data ph sph om P = out 64 /\ GenLoop.gen_ntt_pow_phi_avx2_u64 (Z.of_nat n) (Z.of_nat nm) data ph sph om P = out 64).
Proof. exact PowPhiSrc.source_ntt_pow_phi_pointwise. Qed.
Print Assumptions C02_source_ntt_pow_phi.

(* core::invntt_pow_invphi OF THE SOURCE, whole function, every build and limb type (gen_invntt_pow_invphi_<build>_uN: the loop over the moduli
   calling the translated core::inv_ntt on row cm of _data with invomegas[cm], shoupinvomegas[cm] (read as invomegas[cm] + degree, the form in
   which core::initialize() sets it) and invpolyDegree[cm]; then the expression-template statement op = shoup(op * invpoly_times_invphis,
   shoupinvpoly_times_invphis) as the oracle ExprSem.expr_shoup_mul).  On arrays described pointwise as C02_source_initialize describes what
   core::initialize() leaves, for a row (p, g) with g^(maxdeg) = -1 mod p (C06: every row of the tables), any number of moduli, any degree 2^k,
   k = 4..30, canonical rows: row c becomes NTTInst.ntt_inv_s of row c -- the extracted inverse transform of C01/C02.  With
   C02_source_ntt_pow_phi, C02_structure_*_open and C02_inv_fwd_open / C02_fwd_inv_open this is the round trip on the translated source,
   up to the meaning of the two expression-template statements (C07). *)
Theorem C02_source_invntt_pow_invphi : forall K k0 nm fuel P roots invk data iom ipd ipi sipi y0, (4 <= S k0 <= 30)%nat -> (S k0 <= K)%nat -> Z.of_nat nm < 2 ^ 28 -> (S k0 < fuel)%nat ->
  length data = (nm * 2 ^ S k0)%nat -> (nm <= length ipd)%nat -> (nm * 2 ^ S k0 <= length ipi)%nat -> (nm * 2 ^ S k0 <= length sipi)%nat -> (nm * (2 * 2 ^ S k0) <= length iom)%nat ->
  length y0 = S (2 ^ S k0) ->
  let n := (2 ^ S k0)%nat in let row := fun c => List.firstn n (List.skipn (c * n) data) in
  (forall c, (c < nm)%nat -> List.Forall (fun v => 0 <= v < List.nth c P 0) (row c)) ->
  (forall c, (c < nm)%nat -> (List.nth c roots 0 ^ (2 ^ Z.of_nat K)) mod List.nth c P 0 = List.nth c P 0 - 1) ->
  let tables := fun bits => forall c, (c < nm)%nat -> let p := List.nth c P 0 in let g := List.nth c roots 0 in let ik := List.nth c invk 0 in let shp := List.map (fun v => (v * 2 ^ bits) / p) in
     (forall i, (i < n)%nat -> List.nth (c * n + i) ipi 0 = List.nth i (cs p g ik K k0) 0 /\ List.nth (c * n + i) sipi 0 = List.nth i (shp (cs p g ik K k0)) 0) /\
     (forall i, (i < n - 1)%nat -> List.nth (c * (n * 2) + i) iom 0 = List.nth i (FlatTable.flat p (S k0) (invomega p g K k0)) 0 /\
                                   List.nth (c * (n * 2) + n + i) iom 0 = List.nth i (shp (FlatTable.flat p (S k0) (invomega p g K k0))) 0) in
  let ok := fun bits (r : option (list Z * list Z)) => exists yf, r = Some (List.concat (List.map (fun c => ntt_inv_s bits (List.nth c P 0) (List.nth c roots 0) (List.nth c invk 0) K k0 (row c)) (List.seq 0 nm)), yf) in
  ((forall c, (c < nm)%nat -> ScalarOps.Hrow 16 (List.nth c P 0)) -> tables 16 ->
     ok 16 (GenLoop.gen_invntt_pow_invphi_serial_u16 fuel (Z.of_nat n) (Z.of_nat nm) data iom ipd ipi sipi P y0) /\ ok 16 (GenLoop.gen_invntt_pow_invphi_sse_u16 fuel (Z.of_nat n) (Z.of_nat nm) data iom ipd ipi sipi P y0) /\ ok 16 (GenLoop.gen_invntt_pow_invphi_avx2_u16 fuel (Z.of_nat n) (Z.of_nat nm) data iom ipd ipi sipi P y0)) /\
  ((forall c, (c < nm)%nat -> ScalarOps.Hrow 32 (List.nth c P 0)) -> tables 32 ->
     ok 32 (GenLoop.gen_invntt_pow_invphi_serial_u32 fuel (Z.of_nat n) (Z.of_nat nm) data iom ipd ipi sipi P y0) /\ ok 32 (GenLoop.gen_invntt_pow_invphi_sse_u32 fuel (Z.of_nat n) (Z.of_nat nm) data iom ipd ipi sipi P y0) /\ ok 32 (GenLoop.gen_invntt_pow_invphi_avx2_u32 fuel (Z.of_nat n) (Z.of_nat nm) data iom ipd ipi sipi P y0)) /\
  ((forall c, (c < nm)%nat -> ScalarOps.Hrow 64 (List.nth c P 0)) -> tables 64 ->
     ok 64 (GenLoop.gen_invntt_pow_invphi_serial_u64 fuel (Z.of_nat n) (Z.of_nat nm) data iom ipd ipi sipi P y0) /\ ok 64 (GenLoop.gen_invntt_pow_invphi_sse_u64 fuel (Z.of_nat n) (Z.of_nat nm) data iom ipd ipi sipi P y0) /\ ok 64 (GenLoop.gen_invntt_pow_invphi_avx2_u64 fuel (Z.of_nat n) (Z.of_nat nm) data iom ipd ipi sipi P y0)).
Proof. exact InvPowPhiSrc.source_invntt_pow_invphi. Qed.
Print Assumptions C02_source_invntt_pow_invphi.

(* THE ROUND TRIP ON THE TRANSLATED SOURCE.  core::initialize(), core::ntt_pow_phi and core::invntt_pow_invphi -- each translated from the source
   on this run (every build; the one expression-template statement of the two transforms with the meaning fixed in ExprSem.v) -- run one after
   the other return the polynomial they started from: for any initial contents of the seven table arrays and of inv_ntt's scratch array,
   any number of moduli, any degree 2^k with 4 <= k <= log2 maxdeg, any polynomial with canonical rows, and table rows (p, g, ik) in the
   range of the limb type with g^maxdeg = -1 and ik * maxdeg = 1 modulo p (C06 proves this of every row of the tables of the source).
   Composition of C02_source_initialize, C02_source_ntt_pow_phi, C02_source_invntt_pow_invphi with the closed theorems on the extracted pair. *)
Theorem C02_source_round_trip_u16 : forall P roots invk k0 nm fuel ph0 sph0 ipd0 ipi0 sipi0 om0 iom0 data y0, (4 <= S k0 <= 9)%nat -> (S k0 < fuel)%nat -> Z.of_nat nm < 2 ^ 28 ->
  let n := (2 ^ S k0)%nat in
  length ph0 = (nm * n)%nat -> length sph0 = (nm * n)%nat -> length ipd0 = nm -> length ipi0 = (nm * n)%nat -> length sipi0 = (nm * n)%nat -> length om0 = (nm * (n * 2))%nat -> length iom0 = (nm * (n * 2))%nat ->
  (length data = (nm * n)%nat /\ forall c, (c < nm)%nat -> List.Forall (fun v => 0 <= v < List.nth c P 0) (List.firstn n (List.skipn (c * n) data))) -> length y0 = S n ->
  (forall c, (c < nm)%nat -> GenInitEq.rowok16 P roots invk c /\ (List.nth c roots 0 ^ (2 ^ Z.of_nat 9)) mod List.nth c P 0 = List.nth c P 0 - 1 /\ (List.nth c invk 0 * 2 ^ Z.of_nat 9) mod List.nth c P 0 = 1) ->
  let rt := fun (fwd : list Z -> option (list Z)) (invf : list Z -> option (list Z * list Z)) => exists d1 yf, fwd data = Some d1 /\ invf d1 = Some (data, yf) in
  exists ph sph ipd ipi sipi om iom, GenLoop.gen_initialize_u16 fuel (Z.of_nat n) om0 iom0 ph0 sph0 ipd0 ipi0 sipi0 (Z.of_nat nm) roots P invk = Some (ph, sph, ipd, ipi, sipi, om, iom) /\
    rt (fun d => GenLoop.gen_ntt_pow_phi_serial_u16 (Z.of_nat n) (Z.of_nat nm) d ph sph om P) (fun d => GenLoop.gen_invntt_pow_invphi_serial_u16 fuel (Z.of_nat n) (Z.of_nat nm) d iom ipd ipi sipi P y0) /\
    rt (fun d => GenLoop.gen_ntt_pow_phi_sse_u16 (Z.of_nat n) (Z.of_nat nm) d ph sph om P) (fun d => GenLoop.gen_invntt_pow_invphi_sse_u16 fuel (Z.of_nat n) (Z.of_nat nm) d iom ipd ipi sipi P y0) /\
    rt (fun d => GenLoop.gen_ntt_pow_phi_avx2_u16 (Z.of_nat n) (Z.of_nat nm) d ph sph om P) (fun d => GenLoop.gen_invntt_pow_invphi_avx2_u16 fuel (Z.of_nat n) (Z.of_nat nm) d iom ipd ipi sipi P y0).
Proof. exact (fun P roots invk k0 nm fuel ph0 sph0 ipd0 ipi0 sipi0 om0 iom0 data y0 Hk Hf Hnm L1 L2 L3 L4 L5 L6 L7 Hd Hy HR => RoundTripSrc.source_round_trip_u16 P roots invk k0 nm fuel ph0 sph0 ipd0 ipi0 sipi0 om0 iom0 data y0 (proj1 Hk) Hf Hnm L1 L2 L3 L4 L5 L6 L7 Hd Hy (proj2 Hk) HR). Qed.
Print Assumptions C02_source_round_trip_u16.
Theorem C02_source_round_trip_u32 : forall P roots invk k0 nm fuel ph0 sph0 ipd0 ipi0 sipi0 om0 iom0 data y0, (4 <= S k0 <= 15)%nat -> (S k0 < fuel)%nat -> Z.of_nat nm < 2 ^ 28 ->
  let n := (2 ^ S k0)%nat in
  length ph0 = (nm * n)%nat -> length sph0 = (nm * n)%nat -> length ipd0 = nm -> length ipi0 = (nm * n)%nat -> length sipi0 = (nm * n)%nat -> length om0 = (nm * (n * 2))%nat -> length iom0 = (nm * (n * 2))%nat ->
  (length data = (nm * n)%nat /\ forall c, (c < nm)%nat -> List.Forall (fun v => 0 <= v < List.nth c P 0) (List.firstn n (List.skipn (c * n) data))) -> length y0 = S n ->
  (forall c, (c < nm)%nat -> GenInitEq.rowok32 P roots invk c /\ (List.nth c roots 0 ^ (2 ^ Z.of_nat 15)) mod List.nth c P 0 = List.nth c P 0 - 1 /\ (List.nth c invk 0 * 2 ^ Z.of_nat 15) mod List.nth c P 0 = 1) ->
  let rt := fun (fwd : list Z -> option (list Z)) (invf : list Z -> option (list Z * list Z)) => exists d1 yf, fwd data = Some d1 /\ invf d1 = Some (data, yf) in
  exists ph sph ipd ipi sipi om iom, GenLoop.gen_initialize_u32 fuel (Z.of_nat n) om0 iom0 ph0 sph0 ipd0 ipi0 sipi0 (Z.of_nat nm) roots P invk = Some (ph, sph, ipd, ipi, sipi, om, iom) /\
    rt (fun d => GenLoop.gen_ntt_pow_phi_serial_u32 (Z.of_nat n) (Z.of_nat nm) d ph sph om P) (fun d => GenLoop.gen_invntt_pow_invphi_serial_u32 fuel (Z.of_nat n) (Z.of_nat nm) d iom ipd ipi sipi P y0) /\
    rt (fun d => GenLoop.gen_ntt_pow_phi_sse_u32 (Z.of_nat n) (Z.of_nat nm) d ph sph om P) (fun d => GenLoop.gen_invntt_pow_invphi_sse_u32 fuel (Z.of_nat n) (Z.of_nat nm) d iom ipd ipi sipi P y0) /\
    rt (fun d => GenLoop.gen_ntt_pow_phi_avx2_u32 (Z.of_nat n) (Z.of_nat nm) d ph sph om P) (fun d => GenLoop.gen_invntt_pow_invphi_avx2_u32 fuel (Z.of_nat n) (Z.of_nat nm) d iom ipd ipi sipi P y0).
Proof. exact (fun P roots invk k0 nm fuel ph0 sph0 ipd0 ipi0 sipi0 om0 iom0 data y0 Hk Hf Hnm L1 L2 L3 L4 L5 L6 L7 Hd Hy HR => RoundTripSrc.source_round_trip_u32 P roots invk k0 nm fuel ph0 sph0 ipd0 ipi0 sipi0 om0 iom0 data y0 (proj1 Hk) Hf Hnm L1 L2 L3 L4 L5 L6 L7 Hd Hy (proj2 Hk) HR). Qed.
Print Assumptions C02_source_round_trip_u32.
Theorem C02_source_round_trip_u64 : forall P Pn roots invk k0 nm fuel ph0 sph0 ipd0 ipi0 sipi0 om0 iom0 data y0, (4 <= S k0 <= 20)%nat -> (S k0 < fuel)%nat -> Z.of_nat nm < 2 ^ 28 ->
  let n := (2 ^ S k0)%nat in
  length ph0 = (nm * n)%nat -> length sph0 = (nm * n)%nat -> length ipd0 = nm -> length ipi0 = (nm * n)%nat -> length sipi0 = (nm * n)%nat -> length om0 = (nm * (n * 2))%nat -> length iom0 = (nm * (n * 2))%nat ->
  (length data = (nm * n)%nat /\ forall c, (c < nm)%nat -> List.Forall (fun v => 0 <= v < List.nth c P 0) (List.firstn n (List.skipn (c * n) data))) -> length y0 = S n ->
  (forall c, (c < nm)%nat -> GenInitEq.rowok64 P Pn roots invk c /\ (List.nth c roots 0 ^ (2 ^ Z.of_nat 20)) mod List.nth c P 0 = List.nth c P 0 - 1 /\ (List.nth c invk 0 * 2 ^ Z.of_nat 20) mod List.nth c P 0 = 1) ->
  let rt := fun (fwd : list Z -> option (list Z)) (invf : list Z -> option (list Z * list Z)) => exists d1 yf, fwd data = Some d1 /\ invf d1 = Some (data, yf) in
  exists ph sph ipd ipi sipi om iom, GenLoop.gen_initialize_u64 fuel (Z.of_nat n) om0 iom0 ph0 sph0 ipd0 ipi0 sipi0 (Z.of_nat nm) roots P Pn invk = Some (ph, sph, ipd, ipi, sipi, om, iom) /\
    rt (fun d => GenLoop.gen_ntt_pow_phi_serial_u64 (Z.of_nat n) (Z.of_nat nm) d ph sph om P) (fun d => GenLoop.gen_invntt_pow_invphi_serial_u64 fuel (Z.of_nat n) (Z.of_nat nm) d iom ipd ipi sipi P y0) /\
    rt (fun d => GenLoop.gen_ntt_pow_phi_sse_u64 (Z.of_nat n) (Z.of_nat nm) d ph sph om P) (fun d => GenLoop.gen_invntt_pow_invphi_sse_u64 fuel (Z.of_nat n) (Z.of_nat nm) d iom ipd ipi sipi P y0) /\
    rt (fun d => GenLoop.gen_ntt_pow_phi_avx2_u64 (Z.of_nat n) (Z.of_nat nm) d ph sph om P) (fun d => GenLoop.gen_invntt_pow_invphi_avx2_u64 fuel (Z.of_nat n) (Z.of_nat nm) d iom ipd ipi sipi P y0).
Proof. exact (fun P Pn roots invk k0 nm fuel ph0 sph0 ipd0 ipi0 sipi0 om0 iom0 data y0 Hk Hf Hnm L1 L2 L3 L4 L5 L6 L7 Hd Hy HR => RoundTripSrc.source_round_trip_u64 P roots invk k0 nm fuel ph0 sph0 ipd0 ipi0 sipi0 om0 iom0 data y0 (proj1 Hk) Hf Hnm L1 L2 L3 L4 L5 L6 L7 Hd Hy Pn (proj2 Hk) HR). Qed.
Print Assumptions C02_source_round_trip_u64.

(* non-vacuity of the round trip: the three translated functions RUN (vm_compute) on row 0 of the 16-bit table (p = 15361, g = 4989,
   ik = 15331: C06_nonvacuous), degree 16, zeroed table arrays: the polynomial comes back *)
Example C02_source_round_trip_nonvacuous :
  let z := fun k => List.repeat 0 k in
  let dat := (3 :: 5690 :: 11377 :: 1703 :: 7390 :: 13077 :: 3403 :: 9090 :: 1 :: 0 :: 15360 :: 2 :: 7 :: 15000 :: 12 :: 9999 :: nil) in
  match GenLoop.gen_initialize_u16 8%nat 16 (z 32%nat) (z 32%nat) (z 16%nat) (z 16%nat) (z 1%nat) (z 16%nat) (z 16%nat) 1 (4989 :: nil) (15361 :: nil) (15331 :: nil) with
  | Some (ph, sph, ipd, ipi, sipi, om, iom) =>
     match GenLoop.gen_ntt_pow_phi_serial_u16 16 1 dat ph sph om (15361 :: nil) with
     | Some d1 => match GenLoop.gen_invntt_pow_invphi_serial_u16 8%nat 16 1 d1 iom ipd ipi sipi (15361 :: nil) (z 17%nat) with Some (d2, _) => d1 <> dat /\ d2 = dat | None => False end
     | None => False end
  | None => False end.
Proof. vm_compute. split; [discriminate | reflexivity]. Qed.

(* EVERYTHING THE PROPERTY SAYS, ON THE TRANSLATED SOURCE.  transforms_ok (unfolded in C02_source_transforms_statement below): on polynomials with
   canonical rows the translated ntt_pow_phi and invntt_pow_invphi (after the translated initialize(), any initial contents of the arrays)
   both return canonical rows, are inverse to each other in both orders, the forward transform is additive, and transform - multiply row by row -
   transform back is the negacyclic product -- every build, every limb type, any number of moduli, degree 2^4 .. maxdeg. *)
Theorem C02_source_transforms_statement : forall P k0 nm fwd invf, RoundTripSrc.transforms_ok P k0 nm fwd invf <->
  (let n := (2 ^ S k0)%nat in let row := fun (d : list Z) c => List.firstn n (List.skipn (c * n) d) in
   let can := fun d => length d = (nm * n)%nat /\ forall c, (c < nm)%nat -> List.Forall (fun v => 0 <= v < List.nth c P 0) (row d c) in
   (forall d, can d -> exists d1, fwd d = Some d1 /\ can d1) /\
   (forall d y0, can d -> length y0 = S n -> exists d1 yf, invf d y0 = Some (d1, yf) /\ can d1) /\
   (forall d y0, can d -> length y0 = S n -> exists d1 yf, fwd d = Some d1 /\ invf d1 y0 = Some (d, yf)) /\
   (forall d y0, can d -> length y0 = S n -> exists d1 yf, invf d y0 = Some (d1, yf) /\ fwd d1 = Some d) /\
   (forall a b s, can a -> can b -> can s -> (forall c j, (c < nm)%nat -> (j < n)%nat -> List.nth j (row s c) 0 = (List.nth j (row a c) 0 + List.nth j (row b c) 0) mod List.nth c P 0) ->
      exists A B S', fwd a = Some A /\ fwd b = Some B /\ fwd s = Some S' /\ forall c j, (c < nm)%nat -> (j < n)%nat -> List.nth j (row S' c) 0 = (List.nth j (row A c) 0 + List.nth j (row B c) 0) mod List.nth c P 0) /\
   (forall a b y0, can a -> can b -> length y0 = S n -> exists A B yf, fwd a = Some A /\ fwd b = Some B /\
      invf (List.concat (List.map (fun c => ntt_mul (List.nth c P 0) k0 (row A c) (row B c)) (List.seq 0 nm))) y0 = Some (List.concat (List.map (fun c => nega_spec (List.nth c P 0) k0 (row a c) (row b c)) (List.seq 0 nm)), yf))).
Proof. intros. split; intros H; exact H. Qed.
Print Assumptions C02_source_transforms_statement.
Theorem C02_source_transforms_u16 : forall P roots invk k0 nm fuel ph0 sph0 ipd0 ipi0 sipi0 om0 iom0, (4 <= S k0 <= 9)%nat -> (S k0 < fuel)%nat -> Z.of_nat nm < 2 ^ 28 ->
  let n := (2 ^ S k0)%nat in
  length ph0 = (nm * n)%nat -> length sph0 = (nm * n)%nat -> length ipd0 = nm -> length ipi0 = (nm * n)%nat -> length sipi0 = (nm * n)%nat -> length om0 = (nm * (n * 2))%nat -> length iom0 = (nm * (n * 2))%nat ->
  (forall c, (c < nm)%nat -> GenInitEq.rowok16 P roots invk c /\ (List.nth c roots 0 ^ (2 ^ Z.of_nat 9)) mod List.nth c P 0 = List.nth c P 0 - 1 /\ (List.nth c invk 0 * 2 ^ Z.of_nat 9) mod List.nth c P 0 = 1) ->
  exists ph sph ipd ipi sipi om iom, GenLoop.gen_initialize_u16 fuel (Z.of_nat n) om0 iom0 ph0 sph0 ipd0 ipi0 sipi0 (Z.of_nat nm) roots P invk = Some (ph, sph, ipd, ipi, sipi, om, iom) /\
    RoundTripSrc.transforms_ok P k0 nm (fun d => GenLoop.gen_ntt_pow_phi_serial_u16 (Z.of_nat n) (Z.of_nat nm) d ph sph om P) (fun d y0 => GenLoop.gen_invntt_pow_invphi_serial_u16 fuel (Z.of_nat n) (Z.of_nat nm) d iom ipd ipi sipi P y0) /\
    RoundTripSrc.transforms_ok P k0 nm (fun d => GenLoop.gen_ntt_pow_phi_sse_u16 (Z.of_nat n) (Z.of_nat nm) d ph sph om P) (fun d y0 => GenLoop.gen_invntt_pow_invphi_sse_u16 fuel (Z.of_nat n) (Z.of_nat nm) d iom ipd ipi sipi P y0) /\
    RoundTripSrc.transforms_ok P k0 nm (fun d => GenLoop.gen_ntt_pow_phi_avx2_u16 (Z.of_nat n) (Z.of_nat nm) d ph sph om P) (fun d y0 => GenLoop.gen_invntt_pow_invphi_avx2_u16 fuel (Z.of_nat n) (Z.of_nat nm) d iom ipd ipi sipi P y0).
Proof. exact (fun P roots invk k0 nm fuel ph0 sph0 ipd0 ipi0 sipi0 om0 iom0 Hk Hf Hnm L1 L2 L3 L4 L5 L6 L7 HR => RoundTripSrc.source_transforms_u16 P roots invk k0 nm fuel ph0 sph0 ipd0 ipi0 sipi0 om0 iom0 (proj1 Hk) Hf Hnm L1 L2 L3 L4 L5 L6 L7 (proj2 Hk) HR). Qed.
Print Assumptions C02_source_transforms_u16.
Theorem C02_source_transforms_u32 : forall P roots invk k0 nm fuel ph0 sph0 ipd0 ipi0 sipi0 om0 iom0, (4 <= S k0 <= 15)%nat -> (S k0 < fuel)%nat -> Z.of_nat nm < 2 ^ 28 ->
  let n := (2 ^ S k0)%nat in
  length ph0 = (nm * n)%nat -> length sph0 = (nm * n)%nat -> length ipd0 = nm -> length ipi0 = (nm * n)%nat -> length sipi0 = (nm * n)%nat -> length om0 = (nm * (n * 2))%nat -> length iom0 = (nm * (n * 2))%nat ->
  (forall c, (c < nm)%nat -> GenInitEq.rowok32 P roots invk c /\ (List.nth c roots 0 ^ (2 ^ Z.of_nat 15)) mod List.nth c P 0 = List.nth c P 0 - 1 /\ (List.nth c invk 0 * 2 ^ Z.of_nat 15) mod List.nth c P 0 = 1) ->
  exists ph sph ipd ipi sipi om iom, GenLoop.gen_initialize_u32 fuel (Z.of_nat n) om0 iom0 ph0 sph0 ipd0 ipi0 sipi0 (Z.of_nat nm) roots P invk = Some (ph, sph, ipd, ipi, sipi, om, iom) /\
    RoundTripSrc.transforms_ok P k0 nm (fun d => GenLoop.gen_ntt_pow_phi_serial_u32 (Z.of_nat n) (Z.of_nat nm) d ph sph om P) (fun d y0 => GenLoop.gen_invntt_pow_invphi_serial_u32 fuel (Z.of_nat n) (Z.of_nat nm) d iom ipd ipi sipi P y0) /\
    RoundTripSrc.transforms_ok P k0 nm (fun d => GenLoop.gen_ntt_pow_phi_sse_u32 (Z.of_nat n) (Z.of_nat nm) d ph sph om P) (fun d y0 => GenLoop.gen_invntt_pow_invphi_sse_u32 fuel (Z.of_nat n) (Z.of_nat nm) d iom ipd ipi sipi P y0) /\
    RoundTripSrc.transforms_ok P k0 nm (fun d => GenLoop.gen_ntt_pow_phi_avx2_u32 (Z.of_nat n) (Z.of_nat nm) d ph sph om P) (fun d y0 => GenLoop.gen_invntt_pow_invphi_avx2_u32 fuel (Z.of_nat n) (Z.of_nat nm) d iom ipd ipi sipi P y0).
Proof. exact (fun P roots invk k0 nm fuel ph0 sph0 ipd0 ipi0 sipi0 om0 iom0 Hk Hf Hnm L1 L2 L3 L4 L5 L6 L7 HR => RoundTripSrc.source_transforms_u32 P roots invk k0 nm fuel ph0 sph0 ipd0 ipi0 sipi0 om0 iom0 (proj1 Hk) Hf Hnm L1 L2 L3 L4 L5 L6 L7 (proj2 Hk) HR). Qed.
Print Assumptions C02_source_transforms_u32.
Theorem C02_source_transforms_u64 : forall P Pn roots invk k0 nm fuel ph0 sph0 ipd0 ipi0 sipi0 om0 iom0, (4 <= S k0 <= 20)%nat -> (S k0 < fuel)%nat -> Z.of_nat nm < 2 ^ 28 ->
  let n := (2 ^ S k0)%nat in
  length ph0 = (nm * n)%nat -> length sph0 = (nm * n)%nat -> length ipd0 = nm -> length ipi0 = (nm * n)%nat -> length sipi0 = (nm * n)%nat -> length om0 = (nm * (n * 2))%nat -> length iom0 = (nm * (n * 2))%nat ->
  (forall c, (c < nm)%nat -> GenInitEq.rowok64 P Pn roots invk c /\ (List.nth c roots 0 ^ (2 ^ Z.of_nat 20)) mod List.nth c P 0 = List.nth c P 0 - 1 /\ (List.nth c invk 0 * 2 ^ Z.of_nat 20) mod List.nth c P 0 = 1) ->
  exists ph sph ipd ipi sipi om iom, GenLoop.gen_initialize_u64 fuel (Z.of_nat n) om0 iom0 ph0 sph0 ipd0 ipi0 sipi0 (Z.of_nat nm) roots P Pn invk = Some (ph, sph, ipd, ipi, sipi, om, iom) /\
    RoundTripSrc.transforms_ok P k0 nm (fun d => GenLoop.gen_ntt_pow_phi_serial_u64 (Z.of_nat n) (Z.of_nat nm) d ph sph om P) (fun d y0 => GenLoop.gen_invntt_pow_invphi_serial_u64 fuel (Z.of_nat n) (Z.of_nat nm) d iom ipd ipi sipi P y0) /\
    RoundTripSrc.transforms_ok P k0 nm (fun d => GenLoop.gen_ntt_pow_phi_sse_u64 (Z.of_nat n) (Z.of_nat nm) d ph sph om P) (fun d y0 => GenLoop.gen_invntt_pow_invphi_sse_u64 fuel (Z.of_nat n) (Z.of_nat nm) d iom ipd ipi sipi P y0) /\
    RoundTripSrc.transforms_ok P k0 nm (fun d => GenLoop.gen_ntt_pow_phi_avx2_u64 (Z.of_nat n) (Z.of_nat nm) d ph sph om P) (fun d y0 => GenLoop.gen_invntt_pow_invphi_avx2_u64 fuel (Z.of_nat n) (Z.of_nat nm) d iom ipd ipi sipi P y0).
Proof. exact (fun P Pn roots invk k0 nm fuel ph0 sph0 ipd0 ipi0 sipi0 om0 iom0 Hk Hf Hnm L1 L2 L3 L4 L5 L6 L7 HR => RoundTripSrc.source_transforms_u64 P roots invk k0 nm fuel ph0 sph0 ipd0 ipi0 sipi0 om0 iom0 (proj1 Hk) Hf Hnm L1 L2 L3 L4 L5 L6 L7 Pn (proj2 Hk) HR). Qed.
Print Assumptions C02_source_transforms_u64.
