(* The definitions GENERATED from the C++ source (gen/Gen.v, tools/cxx2coq.py) equal the hand-written models the theorems are stated on.
   A semantic change of a translated function breaks one of these proofs at build time. *)
From Coq Require Import ZArith Znumtheory Bool Lia.
From NTT Require Import Functors ScalarOps Fused CxxSem.
From NTT.gen Require Import Gen.
Local Open Scope Z_scope.

(* ---------- helpers ---------- *)
Lemma uw_uw b c v : 0 <= b <= c -> uw b (uw c v) = uw b v.
Proof.
  intros H. unfold uw. symmetry. apply Zmod_div_mod; try (apply Z.pow_pos_nonneg; lia).
  exists (2 ^ (c - b)). rewrite <- Z.pow_add_r by lia. f_equal. lia.
Qed.
Lemma uw_idem b v : uw b (uw b v) = uw b v.
Proof. unfold uw. destruct (Z.eq_dec (2 ^ b) 0) as [E|E]; [rewrite E, !Zmod_0_r; reflexivity | apply Z.mod_mod; exact E]. Qed.
Lemma uw_shr w a : 0 <= w -> 0 <= a < 2 ^ (2 * w) -> uw w (uw (2 * w) a / 2 ^ w) = a / 2 ^ w.
Proof.
  intros Hw Ha. rewrite (uw_small (2 * w)) by exact Ha. apply uw_small.
  assert (P : 0 < 2 ^ w) by (apply Z.pow_pos_nonneg; lia).
  split; [apply Z.div_pos; lia|]. apply Z.div_lt_upper_bound; [lia|]. rewrite <- Z.pow_add_r by lia. replace (w + w) with (2 * w) by lia. lia.
Qed.
Lemma mul_range w a b : 0 <= w -> 0 <= a < 2 ^ w -> 0 <= b < 2 ^ w -> 0 <= a * b < 2 ^ (2 * w).
Proof. intros Hw Ha Hb. replace (2 * w) with (w + w) by lia. rewrite Z.pow_add_r by lia. nia. Qed.
Lemma sw_uw w x : sw w (uw w x) = sgnw w (uw w x).
Proof. unfold sw, sgnw. rewrite (uw_idem w x : uw w x mod 2 ^ w = uw w x). reflexivity. Qed.

(* ---------- 32- and 64-bit limbs: unsigned arithmetic only ---------- *)
Section Pure.
Variable w : Z.
Hypothesis Hw : 0 < w.

(* shapes shared by the two widths; instantiated below by `exact` after unfolding *)
Lemma mulshoup_shape p x y y' : 0 <= x < 2 ^ w -> 0 <= y' < 2 ^ w ->
  (let q := uw w (uw (2 * w) (x * y') / 2 ^ w) in let res := uw w (uw w (x * y) - uw w (q * p)) in uw w (uw (2 * w) (res - (if res >=? p then p else 0))))
  = mulmod_shoup w p x y y'.
Proof.
  intros Hx Hy'. cbv zeta. rewrite uw_shr by (try lia; apply mul_range; lia). rewrite uw_uw by lia. reflexivity.
Qed.
Lemma muladdshoup_shape p rop x y y' : 0 <= x < 2 ^ w -> 0 <= y' < 2 ^ w ->
  (let q := uw w (uw (2 * w) (x * y') / 2 ^ w) in let rop' := uw w (rop + uw w (uw w (x * y) - uw w (q * p))) in uw w (rop' - (if rop' >=? p then p else 0)))
  = muladd_shoup w p rop x y y'.
Proof. intros Hx Hy'. cbv zeta. rewrite uw_shr by (try lia; apply mul_range; lia). reflexivity. Qed.
Lemma bfly_shape p a b wt' wt : 0 <= 2 * p < 2 ^ w -> 0 <= wt' < 2 ^ w ->
  (let t0 := uw w (a + b) in let s := uw w (t0 - (if t0 >=? uw w (2 * p) then uw w (2 * p) else 0)) in
   let t1 := uw w (uw w (a - b) + uw w (2 * p)) in let q := uw w (uw (2 * w) (t1 * wt') / 2 ^ w) in
   let d := uw w (uw w (t1 * wt) - uw w (q * p)) in (s, d)) = bfly_lazy w p wt wt' a b.
Proof.
  intros Hp Hwt. cbv zeta. rewrite !(uw_small w (2 * p)) by exact Hp.
  rewrite uw_shr by (try lia; apply mul_range; try lia; apply uw_range; lia). reflexivity.
Qed.
Lemma fused_shape p u0 u1 u2 u3 w1' w1 : 0 <= 2 * p < 2 ^ w -> 0 <= w1' < 2 ^ w ->
  (let pp := uw w (2 * p) in
   let v0 := uw w (u0 + u2) in let v0 := uw w (v0 - (if v0 >=? pp then pp else 0)) in
   let v2 := uw w (u0 - u2) in let v2 := uw w (v2 + (if sw w v2 <? 0 then pp else 0)) in
   let v1 := uw w (u1 + u3) in let v1 := uw w (v1 - (if v1 >=? pp then pp else 0)) in
   let t := uw w (uw w (u1 - u3) + pp) in let q := uw w (uw (2 * w) (t * w1') / 2 ^ w) in
   let v3 := uw w (uw w (t * w1) - uw w (q * p)) in
   let z0 := uw w (v0 + v1) in let z0 := uw w (z0 - (if z0 >=? pp then pp else 0)) in
   let z1 := uw w (v0 - v1) in let z1 := uw w (z1 + (if sw w z1 <? 0 then pp else 0)) in
   let z2 := uw w (v2 + v3) in let z2 := uw w (z2 - (if z2 >=? pp then pp else 0)) in
   let z3 := uw w (v2 - v3) in let z3 := uw w (z3 + (if sw w z3 <? 0 then pp else 0)) in
   (z0, z1, z2, z3)) = fused w p w1 w1' u0 u1 u2 u3.
Proof.
  intros Hp Hw1. cbv zeta. rewrite !(uw_small w (2 * p)) by exact Hp. rewrite !sw_uw.
  rewrite uw_shr by (try lia; apply mul_range; try lia; apply uw_range; lia).
  cbv beta iota zeta delta [fused ladd lsub bfly_lazy wrp wr uw snd sgnw]. reflexivity.
Qed.
End Pure.

(* ---------- instantiation at 32 and 64 bits: every equality is about the GENERATED definition ---------- *)
Theorem gen_addmod32 p x y : gen_addmod_u32 p x y = Some (addmod 32 p x y).  Proof. reflexivity. Qed.
Theorem gen_addmod64 p x y : gen_addmod_u64 p x y = Some (addmod 64 p x y).  Proof. reflexivity. Qed.
Theorem gen_submod32 p x y : gen_submod_u32 p x y = Some (submod 32 p x y).  Proof. reflexivity. Qed.
Theorem gen_submod64 p x y : gen_submod_u64 p x y = Some (submod 64 p x y).  Proof. reflexivity. Qed.
Theorem gen_mulmod16 p x y : gen_mulmod_u16 p x y = Some (mulmod_gen 16 p x y).  Proof. reflexivity. Qed.
Theorem gen_mulmod32 p x y : gen_mulmod_u32 p x y = Some (mulmod_gen 32 p x y).  Proof. reflexivity. Qed.
Theorem gen_muladd16 p z x y : gen_muladd_u16 p z x y = Some (muladd_gen 16 p z x y).  Proof. reflexivity. Qed.
Theorem gen_muladd32 p z x y : gen_muladd_u32 p z x y = Some (muladd_gen 32 p z x y).  Proof. reflexivity. Qed.

Theorem gen_mulmod_shoup32 p x y y' : 0 <= x < 2 ^ 32 -> 0 <= y' < 2 ^ 32 -> gen_mulmod_shoup_u32 p x y y' = Some (mulmod_shoup 32 p x y y').
Proof. intros Hx Hy. unfold gen_mulmod_shoup_u32. cbv zeta. f_equal. exact (mulshoup_shape 32 ltac:(lia) p x y y' Hx Hy). Qed.
Theorem gen_mulmod_shoup64 p x y y' : 0 <= x < 2 ^ 64 -> 0 <= y' < 2 ^ 64 -> gen_mulmod_shoup_u64 p x y y' = Some (mulmod_shoup 64 p x y y').
Proof. intros Hx Hy. unfold gen_mulmod_shoup_u64. cbv zeta. f_equal. exact (mulshoup_shape 64 ltac:(lia) p x y y' Hx Hy). Qed.
Theorem gen_muladd_shoup32 p z x y y' : 0 <= x < 2 ^ 32 -> 0 <= y' < 2 ^ 32 -> gen_muladd_shoup_u32 p z x y y' = Some (muladd_shoup 32 p z x y y').
Proof. intros Hx Hy. unfold gen_muladd_shoup_u32. cbv zeta. f_equal. exact (muladdshoup_shape 32 ltac:(lia) p z x y y' Hx Hy). Qed.
Theorem gen_muladd_shoup64 p z x y y' : 0 <= x < 2 ^ 64 -> 0 <= y' < 2 ^ 64 -> gen_muladd_shoup_u64 p z x y y' = Some (muladd_shoup 64 p z x y y').
Proof. intros Hx Hy. unfold gen_muladd_shoup_u64. cbv zeta. f_equal. exact (muladdshoup_shape 64 ltac:(lia) p z x y y' Hx Hy). Qed.

Theorem gen_bfly32 p a b wt wt' : 0 <= 2 * p < 2 ^ 32 -> 0 <= wt' < 2 ^ 32 -> gen_bfly_u32 p a b wt' wt = Some (bfly_lazy 32 p wt wt' a b).
Proof. intros Hp Hwt. unfold gen_bfly_u32. cbv zeta. f_equal. exact (bfly_shape 32 ltac:(lia) p a b wt' wt Hp Hwt). Qed.
Theorem gen_bfly64 p a b wt wt' : 0 <= 2 * p < 2 ^ 64 -> 0 <= wt' < 2 ^ 64 -> gen_bfly_u64 p a b wt' wt = Some (bfly_lazy 64 p wt wt' a b).
Proof. intros Hp Hwt. unfold gen_bfly_u64. cbv zeta. f_equal. exact (bfly_shape 64 ltac:(lia) p a b wt' wt Hp Hwt). Qed.
Theorem gen_fused32 p u0 u1 u2 u3 w1 w1' : 0 <= 2 * p < 2 ^ 32 -> 0 <= w1' < 2 ^ 32 -> gen_fused_u32 p u0 u1 u2 u3 w1' w1 = Some (fused 32 p w1 w1' u0 u1 u2 u3).
Proof. intros Hp Hw1. unfold gen_fused_u32. cbv zeta. f_equal. exact (fused_shape 32 ltac:(lia) p u0 u1 u2 u3 w1' w1 Hp Hw1). Qed.
Theorem gen_fused64 p u0 u1 u2 u3 w1 w1' : 0 <= 2 * p < 2 ^ 64 -> 0 <= w1' < 2 ^ 64 -> gen_fused_u64 p u0 u1 u2 u3 w1' w1 = Some (fused 64 p w1 w1' u0 u1 u2 u3).
Proof. intros Hp Hw1. unfold gen_fused_u64. cbv zeta. f_equal. exact (fused_shape 64 ltac:(lia) p u0 u1 u2 u3 w1' w1 Hp Hw1). Qed.

(* ---------- 64-bit Barrett-Newton product ---------- *)
Lemma barrett_shape p pn x y :
  (let res := uw 128 (x * y) in let q := uw 128 (uw 128 (pn * (res / 2 ^ 64)) + uw 128 (res * 2 ^ 2)) in
   let r := uw 64 (uw 128 (res - uw 128 (q / 2 ^ 64 * p))) in if r >=? p then uw 64 (r - p) else r) = mulmod64 p pn x y.
Proof.
  cbv zeta. unfold mulmod64, B64, B128, uw.
  set (res := (x * y) mod 2 ^ 128).
  assert (Q : ((pn * (res / 2 ^ 64)) mod 2 ^ 128 + (res * 2 ^ 2) mod 2 ^ 128) mod 2 ^ 128 = (pn * (res / 2 ^ 64) + (4 * res) mod 2 ^ 128) mod 2 ^ 128).
  { rewrite Zplus_mod_idemp_l. replace (res * 2 ^ 2) with (4 * res) by (change (2 ^ 2) with 4; ring). reflexivity. }
  rewrite Q. set (q := (pn * (res / 2 ^ 64) + (4 * res) mod 2 ^ 128) mod 2 ^ 128).
  assert (R : ((res - (q / 2 ^ 64 * p) mod 2 ^ 128) mod 2 ^ 128) mod 2 ^ 64 = (res - q / 2 ^ 64 * p) mod 2 ^ 64).
  { rewrite <- (Zmod_div_mod (2 ^ 64) (2 ^ 128)) by (try lia; exists (2 ^ 64); reflexivity).
    rewrite Zminus_mod. rewrite <- (Zmod_div_mod (2 ^ 64) (2 ^ 128) (q / 2 ^ 64 * p)) by (try lia; exists (2 ^ 64); reflexivity).
    rewrite <- Zminus_mod. reflexivity. }
  rewrite R. set (r := (res - q / 2 ^ 64 * p) mod 2 ^ 64).
  assert (Hr : 0 <= r < 2 ^ 64) by (apply Z.mod_pos_bound; lia).
  destruct (r >=? p); [reflexivity|]. symmetry. apply Z.mod_small. exact Hr.
Qed.
Theorem gen_mulmod64 p pn x y : gen_mulmod_u64 p pn x y = Some (mulmod64 p pn x y).
Proof.
  unfold gen_mulmod_u64. cbv zeta. rewrite <- barrett_shape. cbv zeta.
  destruct (uw 64 (uw 128 (uw 128 (x * y) - uw 128 (uw 128 (uw 128 (pn * (uw 128 (x * y) / 2 ^ 64)) + uw 128 (uw 128 (x * y) * 2 ^ 2)) / 2 ^ 64 * p))) >=? p); reflexivity.
Qed.
Theorem gen_muladd64 p pn z x y : gen_muladd_u64 p pn z x y = Some (muladd64 p pn z x y).
Proof.
  unfold gen_muladd_u64, muladd64. cbv zeta. rewrite <- barrett_shape. cbv zeta. unfold B64.
  set (r := uw 64 (uw 128 (uw 128 (x * y) - uw 128 (uw 128 (uw 128 (pn * (uw 128 (x * y) / 2 ^ 64)) + uw 128 (uw 128 (x * y) * 2 ^ 2)) / 2 ^ 64 * p)))).
  destruct (r >=? p); cbn [bind]; fold (uw 64 (uw 64 (r - p) + z)); fold (uw 64 (r + z)).
  - set (r2 := uw 64 (uw 64 (r - p) + z)). assert (H2 : 0 <= r2 < 2 ^ 64) by (apply uw_range; lia).
    destruct (r2 >=? p); cbn [bind]; f_equal; try reflexivity; symmetry; apply Z.mod_small; exact H2.
  - set (r2 := uw 64 (r + z)). assert (H2 : 0 <= r2 < 2 ^ 64) by (apply uw_range; lia).
    destruct (r2 >=? p); cbn [bind]; f_equal; try reflexivity; symmetry; apply Z.mod_small; exact H2.
Qed.

(* ---------- compute_shoup: the while loop ---------- *)
Lemma while_reduce w f p : forall x, while1 f (fun x => x >=? p) (fun x => Some (uw w (x - p))) x = reduce_loop w f p x.
Proof. induction f as [|f IH]; intros x; cbn [while1 reduce_loop]; [reflexivity|]. destruct (x >=? p); [cbn [bind]; apply IH | reflexivity]. Qed.
Lemma reduce_loop_range w f p : 0 < w -> 0 < p -> forall x x', 0 <= x < 2 ^ w -> reduce_loop w f p x = Some x' -> 0 <= x' < 2 ^ w.
Proof.
  intros Hw Hp. induction f as [|f IH]; intros x x' Hx E; cbn [reduce_loop] in E; [discriminate|].
  destruct (x >=? p); [|injection E as <-; exact Hx]. apply (IH (wr w (x - p))); [|exact E]. apply Z.mod_pos_bound. apply Z.pow_pos_nonneg; lia.
Qed.
Lemma cshoup_shape w p x : 0 < w -> 0 < p -> 0 <= x < 2 ^ w ->
  bind (reduce_loop w 9 p x) (fun x' => Some (uw w (uw (2 * w) (x' * 2 ^ w) / p))) = compute_shoup w p x.
Proof.
  intros Hw Hp Hx. unfold compute_shoup. destruct (reduce_loop w 9 p x) as [x'|] eqn:E; [|reflexivity]. cbn [bind].
  pose proof (reduce_loop_range w 9 p Hw Hp x x' Hx E) as R.
  rewrite (uw_small (2 * w)); [reflexivity|]. replace (2 * w) with (w + w) by lia. rewrite Z.pow_add_r by lia. nia.
Qed.
Theorem gen_compute_shoup32 p x : 0 < p -> 0 <= x < 2 ^ 32 -> gen_compute_shoup_u32 9 p x = compute_shoup 32 p x.
Proof. intros Hp Hx. unfold gen_compute_shoup_u32. cbv zeta. rewrite (while_reduce 32). apply (cshoup_shape 32); lia. Qed.
Theorem gen_compute_shoup64 p x : 0 < p -> 0 <= x < 2 ^ 64 -> gen_compute_shoup_u64 9 p x = compute_shoup 64 p x.
Proof. intros Hp Hx. unfold gen_compute_shoup_u64. cbv zeta. rewrite (while_reduce 64). apply (cshoup_shape 64); lia. Qed.

(* ---------- the degree-2 special case ---------- *)
Definition strict1 (p v : Z) : Z := if v >=? p then v - p else v.
Lemma deg2_shape w p u0 u1 : 0 < w -> 0 <= 2 * p < 2 ^ w -> 0 <= p ->
  (let pp := uw w (2 * p) in
   let t0 := uw w (u0 + u1) in let t1 := uw w (u0 - u1) in
   let t0 := uw w (t0 - (if t0 >=? pp then pp else 0)) in let t1 := uw w (t1 + (if sw w t1 <? 0 then pp else 0)) in
   (uw w (t0 - (if t0 >=? p then p else 0)), uw w (t1 - (if t1 >=? p then p else 0))))
  = (strict1 p (ladd w p u0 u1), strict1 p (lsub w p u0 u1)).
Proof.
  intros Hw Hp Hp0. cbv zeta. rewrite !(uw_small w (2 * p)) by exact Hp. rewrite !sw_uw. unfold ladd, lsub, strict1. cbv zeta. change (wrp w) with (uw w).
  set (a := uw w (uw w (u0 + u1) - (if uw w (u0 + u1) >=? 2 * p then 2 * p else 0))).
  set (b := uw w (uw w (u0 - u1) + (if sgnw w (uw w (u0 - u1)) <? 0 then 2 * p else 0))).
  assert (Ha : 0 <= a < 2 ^ w) by (apply uw_range; lia). assert (Hb : 0 <= b < 2 ^ w) by (apply uw_range; lia).
  f_equal.
  - destruct (Z.geb_spec a p); [apply uw_small; lia | rewrite Z.sub_0_r; apply uw_small; lia].
  - destruct (Z.geb_spec b p); [apply uw_small; lia | rewrite Z.sub_0_r; apply uw_small; lia].
Qed.
Theorem gen_deg2_32 p u0 u1 : 0 <= 2 * p < 2 ^ 32 -> gen_deg2_u32 p u0 u1 = Some (strict1 p (ladd 32 p u0 u1), strict1 p (lsub 32 p u0 u1)).
Proof. intros Hp. unfold gen_deg2_u32. cbv zeta. f_equal. apply (deg2_shape 32); lia. Qed.
Theorem gen_deg2_64 p u0 u1 : 0 <= 2 * p < 2 ^ 64 -> gen_deg2_u64 p u0 u1 = Some (strict1 p (ladd 64 p u0 u1), strict1 p (lsub 64 p u0 u1)).
Proof. intros Hp. unfold gen_deg2_u64. cbv zeta. f_equal. apply (deg2_shape 64); lia. Qed.

(* ================= 16-bit limbs: operands are promoted to int; every signed operation carries an overflow check ================= *)
From NTT Require Promote16.
Lemma bind_some {A B} (v : A) (k : A -> option B) : bind (Some v) k = k v.
Proof. reflexivity. Qed.

(* discharge an int-range side condition: every abstracted 16-bit value has its range in the context *)
Ltac int_range :=
  change (2 ^ (32 - 1)) with 2147483648;
  repeat match goal with |- context [if ?c then _ else _] => destruct c end;
  first [lia | nia].

(* walk through generated code: name every let-bound value (recording the range of 16-bit stores), discharge every signed-overflow check *)
Ltac walk :=
  repeat first
  [ lazymatch goal with
    | |- (let x := uw 16 ?e in @?b x) = ?r =>
        let y := fresh "v" in let E := fresh "E" in let R := fresh "R" in
        pose (y := uw 16 e); assert (E : y = uw 16 e) by reflexivity; assert (R : 0 <= y < 65536) by (apply (uw_range 16); lia);
        change (b y = r); cbv beta; clearbody y
    | |- (let x := ?e in @?b x) = ?r =>
        let y := fresh "v" in let E := fresh "E" in
        pose (y := e); assert (E : y = e) by reflexivity; change (b y = r); cbv beta; clearbody y
    end
  | lazymatch goal with
    | |- bind (chk 32 ?v) ?k = ?r => rewrite (chk_ok 32 v) by int_range; rewrite bind_some; cbv beta
    | |- bind (Some ?v) ?k = ?r => rewrite bind_some; cbv beta
    end ].

Theorem gen_addmod16 p x y : 0 <= p < 2 ^ 16 -> 0 <= x < 2 ^ 16 -> 0 <= y < 2 ^ 16 -> gen_addmod_u16 p x y = Some (addmod 16 p x y).
Proof.
  intros Hp Hx Hy. change (2 ^ 16) with 65536 in *. cbv beta delta [gen_addmod_u16]. walk. subst. reflexivity.
Qed.

Theorem gen_submod16 p x y : 0 <= p < 2 ^ 16 -> 0 <= x < 2 ^ 16 -> 0 <= y < 2 ^ 16 -> gen_submod_u16 p x y = Some (submod 16 p x y).
Proof.
  intros Hp Hx Hy. cbv beta delta [gen_submod_u16]. change (2 ^ 16) with 65536 in *. walk.
  rewrite gen_addmod16 by (change (2 ^ 16) with 65536; try lia; apply (uw_range 16); lia). rewrite bind_some. subst. reflexivity.
Qed.

(* ---- arithmetic on wrapped values ---- *)
Lemma uw_sub b a c : uw b (uw b a - uw b c) = uw b (a - c).
Proof. unfold uw. destruct (Z.eq_dec (2 ^ b) 0) as [E|E]; [rewrite E, !Zmod_0_r; reflexivity|]. rewrite <- Zminus_mod. reflexivity. Qed.
Lemma uw_add_l b a c : uw b (uw b a + c) = uw b (a + c).
Proof. unfold uw. destruct (Z.eq_dec (2 ^ b) 0) as [E|E]; [rewrite E, !Zmod_0_r; reflexivity|]. rewrite Zplus_mod_idemp_l. reflexivity. Qed.
Lemma uw_add_r b a c : uw b (a + uw b c) = uw b (a + c).
Proof. unfold uw. destruct (Z.eq_dec (2 ^ b) 0) as [E|E]; [rewrite E, !Zmod_0_r; reflexivity|]. rewrite Zplus_mod_idemp_r. reflexivity. Qed.

(* mulmod_shoup<uint16_t>: `res` is a 32-bit value there; with the Shoup companion of y it is below 2p and the limb-width model agrees *)
Theorem gen_mulmod_shoup16 p x y : Hrow 16 p -> 0 <= x < 2 ^ 16 -> 0 <= y < p ->
  gen_mulmod_shoup_u16 p x y ((y * 2 ^ 16) / p) = Some (mulmod_shoup 16 p x y ((y * 2 ^ 16) / p)).
Proof.
  intros H Hx Hy. destruct (Hrow_facts 16 p H) as (Hp & H4 & _ & H2 & HpB).
  pose proof (shoup_range (2 ^ 16) p y x Hp ltac:(lia) Hy Hx) as [R _]. cbv zeta in R.
  set (y' := y * 2 ^ 16 / p) in *.
  assert (Y' : 0 <= y' < 2 ^ 16).
  { unfold y'. split; [apply Z.div_pos; lia|]. apply Z.div_lt_upper_bound; [lia|]. change (2 ^ 16) with 65536 in *. nia. }
  assert (Q0 : uw 16 (uw 32 (x * y') / 2 ^ 16) = x * y' / 2 ^ 16).
  { exact (uw_shr 16 (x * y') ltac:(lia) ltac:(change (2 ^ (2 * 16)) with 4294967296; change (2 ^ 16) with 65536 in *; nia)). }
  cbv beta delta [gen_mulmod_shoup_u16]. change (2 ^ 16) with 65536 in Hx, Y', HpB, H2, H4.
  walk. subst. rewrite !Q0. f_equal.
  set (q := x * y' / 2 ^ 16) in *.
  assert (Q : 0 <= q < 65536) by (unfold q; change (2 ^ 16) with 65536; split; [apply Z.div_pos; nia | apply Z.div_lt_upper_bound; nia]).
  set (r0 := x * y - q * p) in *.
  rewrite (uw_small 32 r0) by (change (2 ^ 32) with 4294967296; lia).
  assert (W : wr 16 (wr 16 (x * y) - wr 16 (q * p)) = r0).
  { unfold wr. rewrite <- Zminus_mod. apply Z.mod_small. change (2 ^ 16) with 65536. unfold r0. lia. }
  unfold mulmod_shoup. cbv zeta. fold q. rewrite W. unfold wr, uw.
  destruct (Z.geb_spec r0 p).
  - rewrite (Z.mod_small p (2 ^ 32)) by (change (2 ^ 32) with 4294967296; lia). rewrite (Z.mod_small (r0 - p) (2 ^ 32)) by (change (2 ^ 32) with 4294967296; lia). reflexivity.
  - rewrite (Z.mod_small 0 (2 ^ 32)) by (change (2 ^ 32) with 4294967296; lia). rewrite (Z.mod_small (r0 - 0) (2 ^ 32)) by (change (2 ^ 32) with 4294967296; lia). reflexivity.
Qed.

(* lazy multiply-add: everything is truncated to 16 bits at the end, no Shoup hypothesis needed for the equality *)
Theorem gen_muladd_shoup16 p z x y y' : 0 <= p < 2 ^ 14 -> 0 <= z < 2 ^ 16 -> 0 <= x < 2 ^ 16 -> 0 <= y < 2 ^ 14 -> 0 <= y' < 2 ^ 16 ->
  gen_muladd_shoup_u16 p z x y y' = Some (muladd_shoup 16 p z x y y').
Proof.
  intros Hp Hz Hx Hy Hy'. change (2 ^ 16) with 65536 in *. change (2 ^ 14) with 16384 in *.
  cbv beta delta [gen_muladd_shoup_u16]. walk. subst. f_equal.
  rewrite <- (muladdshoup_shape 16 ltac:(lia) p z x y y') by (change (2 ^ 16) with 65536; lia). cbv zeta.
  rewrite uw_sub, uw_add_r. reflexivity.
Qed.

Theorem gen_bfly16 p a b wt wt' : 0 <= p < 2 ^ 14 -> 0 <= a < 2 ^ 16 -> 0 <= b < 2 ^ 16 -> 0 <= wt < 2 ^ 14 -> 0 <= wt' < 2 ^ 16 ->
  gen_bfly_u16 p a b wt' wt = Some (bfly_lazy 16 p wt wt' a b).
Proof.
  intros Hp Ha Hb Hwt Hwt'. change (2 ^ 16) with 65536 in *. change (2 ^ 14) with 16384 in *.
  cbv beta delta [gen_bfly_u16]. walk. subst. f_equal.
  rewrite <- (bfly_shape 16 ltac:(lia) p a b wt' wt) by (change (2 ^ 16) with 65536; lia). cbv zeta.
  rewrite !(uw_small 16 (2 * p)) by (change (2 ^ 16) with 65536; lia). rewrite (uw_add_l 16 (a - b) (2 * p)). change (2 * 16) with 32.
  set (t := uw 16 (a - b + 2 * p)). set (q := uw 16 (uw 32 (t * wt') / 2 ^ 16)). rewrite (uw_sub 16 (t * wt) (q * p)). reflexivity.
Qed.

Theorem gen_fused16 p u0 u1 u2 u3 w1 w1' : 0 <= p < 2 ^ 14 -> 0 <= u0 < 2 ^ 16 -> 0 <= u1 < 2 ^ 16 -> 0 <= u2 < 2 ^ 16 -> 0 <= u3 < 2 ^ 16 ->
  0 <= w1 < 2 ^ 14 -> 0 <= w1' < 2 ^ 16 -> gen_fused_u16 p u0 u1 u2 u3 w1' w1 = Some (fused 16 p w1 w1' u0 u1 u2 u3).
Proof.
  intros Hp H0 H1 H2 H3 Hw Hw'. change (2 ^ 16) with 65536 in *. change (2 ^ 14) with 16384 in *.
  cbv beta delta [gen_fused_u16]. walk. subst. f_equal.
  rewrite <- (fused_shape 16 ltac:(lia) p u0 u1 u2 u3 w1' w1) by (change (2 ^ 16) with 65536; lia). cbv zeta.
  rewrite !(uw_small 16 (2 * p)) by (change (2 ^ 16) with 65536; lia). rewrite (uw_add_l 16 (u1 - u3) (2 * p)). change (2 * 16) with 32.
  set (t := uw 16 (u1 - u3 + 2 * p)). set (q := uw 16 (uw 32 (t * w1') / 2 ^ 16)). rewrite (uw_sub 16 (t * w1) (q * p)). reflexivity.
Qed.

Theorem gen_deg2_16 p u0 u1 : 0 <= p < 2 ^ 14 -> 0 <= u0 < 2 ^ 16 -> 0 <= u1 < 2 ^ 16 ->
  gen_deg2_u16 p u0 u1 = Some (strict1 p (ladd 16 p u0 u1), strict1 p (lsub 16 p u0 u1)).
Proof.
  intros Hp H0 H1. change (2 ^ 16) with 65536 in *. change (2 ^ 14) with 16384 in *.
  cbv beta delta [gen_deg2_u16]. walk. subst. f_equal.
  rewrite <- (deg2_shape 16 p u0 u1) by (change (2 ^ 16) with 65536; lia). cbv zeta.
  rewrite !(uw_small 16 (2 * p)) by (change (2 ^ 16) with 65536; lia). reflexivity.
Qed.

(* compute_shoup<uint16_t>: the loop body subtracts in int *)
Lemma while_reduce16 f p : 0 <= p -> forall x, 0 <= x < 65536 ->
  while1 f (fun x => x >=? p) (fun x => bind (chk 32 (x - p)) (fun s => Some (uw 16 s))) x = reduce_loop 16 f p x.
Proof.
  intros Hp. induction f as [|f IH]; intros x Hx; cbn [while1 reduce_loop]; [reflexivity|].
  destruct (Z.geb_spec x p); [|reflexivity].
  rewrite chk_ok by (change (2 ^ (32 - 1)) with 2147483648; lia). rewrite bind_some. rewrite bind_some.
  apply IH. apply (uw_range 16). lia.
Qed.
Theorem gen_compute_shoup16 p x : 0 < p -> 0 <= x < 2 ^ 16 -> gen_compute_shoup_u16 9 p x = compute_shoup 16 p x.
Proof.
  intros Hp Hx. change (2 ^ 16) with 65536 in *. unfold gen_compute_shoup_u16. cbv zeta.
  rewrite (while_reduce16 9 p ltac:(lia) x Hx). apply (cshoup_shape 16); [lia | lia | change (2 ^ 16) with 65536; lia].
Qed.
