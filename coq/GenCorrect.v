(* C03 stated about the definitions GENERATED FROM THE C++ SOURCE (gen/Gen.v): for every row of every generated table the translated
   functors compute the exact modular values (never hitting undefined behaviour), by composing GenEq.v with the model theorems. *)
From Coq Require Import ZArith Znumtheory Lia List Bool.
From NTT Require Import Functors ScalarOps ScalarClosed Fused CxxSem GenEq.
From NTT.gen Require Import Params Gen.
Import ListNotations.
Local Open Scope Z_scope.

Record source_exact (w p : Z)
  (gadd gsub gmul : Z -> Z -> Z -> option Z) (gcsh : nat -> Z -> Z -> option Z) (gmsh : Z -> Z -> Z -> Z -> option Z)
  (gmads : Z -> Z -> Z -> Z -> Z -> option Z) : Prop := {
  se_add : forall x y, 0 <= x < p -> 0 <= y < p -> gadd p x y = Some ((x + y) mod p);
  se_sub : forall x y, 0 <= x < p -> 0 <= y < p -> gsub p x y = Some ((x - y) mod p);
  se_csh : forall y, 0 <= y < 2 ^ w -> gcsh 9%nat p y = Some (((y mod p) * 2 ^ w) / p);
  se_msh : forall x y, 0 <= x < p -> 0 <= y < p -> gmsh p x y ((y * 2 ^ w) / p) = Some ((x * y) mod p);
  se_mads : forall z x y, 0 <= z < p -> 0 <= x < p -> 0 <= y < p ->
            exists r, gmads p z x y ((y * 2 ^ w) / p) = Some r /\ 0 <= r < 2 * p /\ r mod p = (x * y + z) mod p
}.

Lemma shoup_word w p y : Hrow w p -> 0 <= y < p -> 0 <= (y * 2 ^ w) / p < 2 ^ w.
Proof.
  intros H Hy. destruct (Hrow_facts w p H) as (Hp & _). destruct H as (Hw & _).
  assert (0 < 2 ^ w) by (apply Z.pow_pos_nonneg; lia). split; [apply Z.div_pos; nia | apply Z.div_lt_upper_bound; nia].
Qed.

Theorem source_exact16 p : Hrow 16 p -> source_exact 16 p gen_addmod_u16 gen_submod_u16 gen_mulmod_u16 gen_compute_shoup_u16 gen_mulmod_shoup_u16 gen_muladd_shoup_u16.
Proof.
  intros H. pose proof (functors_exact_of_row 16 p H) as F. destruct (Hrow_facts 16 p H) as (Hp & H4 & _ & H2 & HpB).
  assert (P14 : p < 2 ^ 14) by (destruct H as (_ & _ & ?); exact H).
  constructor; intros.
  - rewrite gen_addmod16 by lia. f_equal. apply (fe_add _ _ F); assumption.
  - rewrite gen_submod16 by lia. f_equal. apply (fe_sub _ _ F); assumption.
  - rewrite gen_compute_shoup16 by lia. apply (fe_csh _ _ F); assumption.
  - rewrite gen_mulmod_shoup16 by (try assumption; lia). f_equal. apply (fe_msh _ _ F); assumption.
  - pose proof (shoup_word 16 p y H ltac:(lia)). rewrite gen_muladd_shoup16 by lia. eexists. split; [reflexivity|]. apply (fe_mads _ _ F); assumption.
Qed.
Theorem source_exact32 p : Hrow 32 p -> source_exact 32 p gen_addmod_u32 gen_submod_u32 gen_mulmod_u32 gen_compute_shoup_u32 gen_mulmod_shoup_u32 gen_muladd_shoup_u32.
Proof.
  intros H. pose proof (functors_exact_of_row 32 p H) as F. destruct (Hrow_facts 32 p H) as (Hp & H4 & _ & H2 & HpB).
  constructor; intros.
  - rewrite gen_addmod32. f_equal. apply (fe_add _ _ F); assumption.
  - rewrite gen_submod32. f_equal. apply (fe_sub _ _ F); assumption.
  - rewrite gen_compute_shoup32 by lia. apply (fe_csh _ _ F); assumption.
  - pose proof (shoup_word 32 p y H ltac:(lia)). rewrite gen_mulmod_shoup32 by lia. f_equal. apply (fe_msh _ _ F); assumption.
  - pose proof (shoup_word 32 p y H ltac:(lia)). rewrite gen_muladd_shoup32 by lia. eexists. split; [reflexivity|]. apply (fe_mads _ _ F); assumption.
Qed.
Theorem source_exact64 p : Hrow 64 p -> source_exact 64 p gen_addmod_u64 gen_submod_u64 (fun p x y => None) gen_compute_shoup_u64 gen_mulmod_shoup_u64 gen_muladd_shoup_u64.
Proof.
  intros H. pose proof (functors_exact_of_row 64 p H) as F. destruct (Hrow_facts 64 p H) as (Hp & H4 & _ & H2 & HpB).
  constructor; intros.
  - rewrite gen_addmod64. f_equal. apply (fe_add _ _ F); assumption.
  - rewrite gen_submod64. f_equal. apply (fe_sub _ _ F); assumption.
  - rewrite gen_compute_shoup64 by lia. apply (fe_csh _ _ F); assumption.
  - pose proof (shoup_word 64 p y H ltac:(lia)). rewrite gen_mulmod_shoup64 by lia. f_equal. apply (fe_msh _ _ F); assumption.
  - pose proof (shoup_word 64 p y H ltac:(lia)). rewrite gen_muladd_shoup64 by lia. eexists. split; [reflexivity|]. apply (fe_mads _ _ F); assumption.
Qed.

(* division-based product and multiply-add *)
Theorem source_mul16 p : Hrow 16 p -> forall z x y, 0 <= z < p -> 0 <= x < p -> 0 <= y < p ->
  gen_mulmod_u16 p x y = Some ((x * y) mod p) /\ gen_muladd_u16 p z x y = Some ((x * y + z) mod p).
Proof. intros H z x y Hz Hx Hy. pose proof (functors_exact_of_row 16 p H) as F. rewrite gen_mulmod16, gen_muladd16. split; f_equal; [apply (fe_mul _ _ F) | apply (fe_mad _ _ F)]; assumption. Qed.
Theorem source_mul32 p : Hrow 32 p -> forall z x y, 0 <= z < p -> 0 <= x < p -> 0 <= y < p ->
  gen_mulmod_u32 p x y = Some ((x * y) mod p) /\ gen_muladd_u32 p z x y = Some ((x * y + z) mod p).
Proof. intros H z x y Hz Hx Hy. pose proof (functors_exact_of_row 32 p H) as F. rewrite gen_mulmod32, gen_muladd32. split; f_equal; [apply (fe_mul _ _ F) | apply (fe_mad _ _ F)]; assumption. Qed.
Theorem source_mul64 p pn : Hrow64 p pn -> forall z x y, 0 <= z < p -> 0 <= x < p -> 0 <= y < p ->
  gen_mulmod_u64 p pn x y = Some ((x * y) mod p) /\ gen_muladd_u64 p pn z x y = Some ((x * y + z) mod p).
Proof.
  intros H z x y Hz Hx Hy. rewrite gen_mulmod64, gen_muladd64. pose proof H as (A1 & A2 & A3).
  split; f_equal; [apply mulmod64_correct | apply muladd64_correct]; assumption.
Qed.

(* closed over the tables generated from params.hpp on this run *)
Theorem source_exact_tables :
  (forall r, In r rows16 -> let p := fst (fst (fst r)) in
     source_exact 16 p gen_addmod_u16 gen_submod_u16 gen_mulmod_u16 gen_compute_shoup_u16 gen_mulmod_shoup_u16 gen_muladd_shoup_u16 /\
     forall z x y, 0 <= z < p -> 0 <= x < p -> 0 <= y < p -> gen_mulmod_u16 p x y = Some ((x * y) mod p) /\ gen_muladd_u16 p z x y = Some ((x * y + z) mod p)) /\
  (forall r, In r rows32 -> let p := fst (fst (fst r)) in
     source_exact 32 p gen_addmod_u32 gen_submod_u32 gen_mulmod_u32 gen_compute_shoup_u32 gen_mulmod_shoup_u32 gen_muladd_shoup_u32 /\
     forall z x y, 0 <= z < p -> 0 <= x < p -> 0 <= y < p -> gen_mulmod_u32 p x y = Some ((x * y) mod p) /\ gen_muladd_u32 p z x y = Some ((x * y + z) mod p)) /\
  (forall r, In r rows64 -> let p := fst (fst (fst r)) in let pn := snd (fst (fst r)) in
     source_exact 64 p gen_addmod_u64 gen_submod_u64 (fun p x y => None) gen_compute_shoup_u64 gen_mulmod_shoup_u64 gen_muladd_shoup_u64 /\
     forall z x y, 0 <= z < p -> 0 <= x < p -> 0 <= y < p -> gen_mulmod_u64 p pn x y = Some ((x * y) mod p) /\ gen_muladd_u64 p pn z x y = Some ((x * y + z) mod p)).
Proof.
  pose proof functors_exact_tables as (F16 & F32 & F64).
  destruct C06Closed.tables_valid as (T16 & T32 & T64).
  assert (W1 : w16 = 16) by reflexivity. assert (W2 : w32 = 32) by reflexivity. assert (W3 : w64 = 64) by reflexivity.
  split; [|split]; intros r Hr.
  - assert (H : Hrow 16 (fst (fst (fst r)))).
    { apply (row_valid_Hrow 16 bits16 maxdeg16); [lia | rewrite (TablesOK.tv_bits _ _ _ _ _ T16), W1; reflexivity | rewrite <- W1; apply (TablesOK.tv_rows _ _ _ _ _ T16 r Hr)]. }
    cbv zeta. split; [apply source_exact16; exact H | apply source_mul16; exact H].
  - assert (H : Hrow 32 (fst (fst (fst r)))).
    { apply (row_valid_Hrow 32 bits32 maxdeg32); [lia | rewrite (TablesOK.tv_bits _ _ _ _ _ T32), W2; reflexivity | rewrite <- W2; apply (TablesOK.tv_rows _ _ _ _ _ T32 r Hr)]. }
    cbv zeta. split; [apply source_exact32; exact H | apply source_mul32; exact H].
  - assert (H : Hrow 64 (fst (fst (fst r)))).
    { apply (row_valid_Hrow 64 bits64 maxdeg64); [lia | rewrite (TablesOK.tv_bits _ _ _ _ _ T64), W3; reflexivity | rewrite <- W3; apply (TablesOK.tv_rows _ _ _ _ _ T64 r Hr)]. }
    cbv zeta. split; [apply source_exact64; exact H|].
    pose proof (functors64_tables r Hr) as G. cbv zeta in G. destruct G as [G1 G2].
    intros z x y Hz Hx Hy. rewrite gen_mulmod64, gen_muladd64. split; f_equal; [apply G1 | apply G2]; assumption.
Qed.
Print Assumptions source_exact_tables.
