From Coq Require Import ZArith Lia List.
Import ListNotations.
Local Open Scope Z_scope.

(* Salsa20/20 as specified by Bernstein ("Salsa20 specification"), on 32-bit words as Z *)
Definition W32 := 2 ^ 32.
Definition add32 (a b : Z) : Z := (a + b) mod W32.
Definition rotl (x : Z) (c : Z) : Z := ((x * 2 ^ c) mod W32) + (x / 2 ^ (32 - c)).
Definition qr (y : Z * Z * Z * Z) : Z * Z * Z * Z :=
  let '(y0, y1, y2, y3) := y in
  let z1 := Z.lxor y1 (rotl (add32 y0 y3) 7) in
  let z2 := Z.lxor y2 (rotl (add32 z1 y0) 9) in
  let z3 := Z.lxor y3 (rotl (add32 z2 z1) 13) in
  let z0 := Z.lxor y0 (rotl (add32 z3 z2) 18) in
  (z0, z1, z2, z3).

Definition get (x : list Z) (i : nat) : Z := nth i x 0.
Definition rowround (y : list Z) : list Z :=
  let '(z0, z1, z2, z3) := qr (get y 0, get y 1, get y 2, get y 3) in
  let '(z5, z6, z7, z4) := qr (get y 5, get y 6, get y 7, get y 4) in
  let '(z10, z11, z8, z9) := qr (get y 10, get y 11, get y 8, get y 9) in
  let '(z15, z12, z13, z14) := qr (get y 15, get y 12, get y 13, get y 14) in
  [z0; z1; z2; z3; z4; z5; z6; z7; z8; z9; z10; z11; z12; z13; z14; z15].
Definition columnround (x : list Z) : list Z :=
  let '(y0, y4, y8, y12) := qr (get x 0, get x 4, get x 8, get x 12) in
  let '(y5, y9, y13, y1) := qr (get x 5, get x 9, get x 13, get x 1) in
  let '(y10, y14, y2, y6) := qr (get x 10, get x 14, get x 2, get x 6) in
  let '(y15, y3, y7, y11) := qr (get x 15, get x 3, get x 7, get x 11) in
  [y0; y1; y2; y3; y4; y5; y6; y7; y8; y9; y10; y11; y12; y13; y14; y15].
Definition doubleround (x : list Z) : list Z := rowround (columnround x).
Fixpoint iter {A} (f : A -> A) (n : nat) (a : A) : A := match n with O => a | S n' => f (iter f n' a) end.
Fixpoint map2 (f : Z -> Z -> Z) (a b : list Z) : list Z := match a, b with x :: a', y :: b' => f x y :: map2 f a' b' | _, _ => [] end.
Definition core (x : list Z) : list Z := map2 add32 x (iter doubleround 10 x).

(* little-endian words <-> bytes *)
Definition word_of (b0 b1 b2 b3 : Z) : Z := b0 + 256 * b1 + 65536 * b2 + 16777216 * b3.
Fixpoint words (bs : list Z) : list Z := match bs with b0 :: b1 :: b2 :: b3 :: r => word_of b0 b1 b2 b3 :: words r | _ => [] end.
Definition bytes_of (x : Z) : list Z := [x mod 256; (x / 256) mod 256; (x / 65536) mod 256; (x / 16777216) mod 256].
Definition sigma : list Z := words [101; 120; 112; 97; 110; 100; 32; 51; 50; 45; 98; 121; 116; 101; 32; 107].   (* "expand 32-byte k" *)

(* one 64-byte block of the keystream: key 32 bytes, nonce 8 bytes, 64-bit block counter *)
Definition block (key nonce : list Z) (ctr : Z) : list Z :=
  let k := words key in let nw := words nonce in
  let c0 := ctr mod W32 in let c1 := (ctr / W32) mod W32 in
  let inp := [get sigma 0; get k 0; get k 1; get k 2; get k 3; get sigma 1; get nw 0; get nw 1; c0; c1; get sigma 2; get k 4; get k 5; get k 6; get k 7; get sigma 3] in
  flat_map bytes_of (core inp).

Fixpoint blocks (key nonce : list Z) (ctr : Z) (n : nat) : list Z :=
  match n with O => [] | S n' => block key nonce ctr ++ blocks key nonce (ctr + 1) n' end.
Definition stream (key nonce : list Z) (len : nat) : list Z := firstn len (blocks key nonce 0 (len / 64 + 1)).

(* vectors from the specification *)
Example qr_vec1 : qr (0, 0, 0, 0) = (0, 0, 0, 0). Proof. reflexivity. Qed.
Example qr_vec2 : qr (1, 0, 0, 0) = (134250821, 128, 66048, 542113792).   (* 0x08008145 0x80 0x10200 0x20500000 *)
Proof. vm_compute. reflexivity. Qed.
Example core_zero : core (repeat 0 16) = repeat 0 16. Proof. vm_compute. reflexivity. Qed.

(* structure: every block is 64 bytes; a shorter request is a prefix of a longer one *)
Lemma bytes_of_length x : length (bytes_of x) = 4%nat. Proof. reflexivity. Qed.
Lemma flat_map_bytes_length l : length (flat_map bytes_of l) = (4 * length l)%nat.
Proof. induction l; simpl; auto. rewrite IHl. lia. Qed.
Lemma blocks_app key nonce ctr a b : blocks key nonce ctr (a + b) = blocks key nonce ctr a ++ blocks key nonce (ctr + Z.of_nat a) b.
Proof. revert ctr; induction a as [|a IH]; intros ctr; simpl plus; cbn [blocks].
  - now rewrite Z.add_0_r.
  - rewrite IH, <- app_assoc. do 3 f_equal. lia. Qed.

(* length and prefix structure *)
Lemma rowround_length y : length (rowround y) = 16%nat.
Proof. unfold rowround. repeat (destruct (qr _) as [[[? ?] ?] ?]). reflexivity. Qed.
Lemma core_length x : length x = 16%nat -> length (core x) = 16%nat.
Proof. intros H. unfold core. assert (L : length (iter doubleround 10 x) = 16%nat) by (cbn [iter]; unfold doubleround; apply rowround_length).
  revert L H. generalize (iter doubleround 10 x). intros y. revert y. 
  assert (G : forall a b : list Z, length a = length b -> length (map2 add32 a b) = length a).
  { induction a as [|u a IH]; intros [|v b] E; simpl in *; try discriminate; auto. }
  intros y Ly Lx. rewrite G; lia. Qed.
Lemma block_length key nonce ctr : length (block key nonce ctr) = 64%nat.
Proof. unfold block. rewrite flat_map_bytes_length, core_length; reflexivity. Qed.
Lemma blocks_length key nonce ctr n : length (blocks key nonce ctr n) = (64 * n)%nat.
Proof. revert ctr; induction n; intros; cbn [blocks]; auto. rewrite app_length, block_length, IHn. lia. Qed.

(* a request for len bytes returns exactly len bytes, and they are the first len bytes of any longer request *)
Theorem stream_length key nonce len : length (stream key nonce len) = len.
Proof. unfold stream. rewrite firstn_length, blocks_length. pose proof (Nat.div_mod len 64 ltac:(lia)). pose proof (Nat.mod_upper_bound len 64 ltac:(lia)). lia. Qed.
Theorem stream_prefix key nonce len len' : (len <= len')%nat -> stream key nonce len = firstn len (stream key nonce len').
Proof.
  intros H. unfold stream. rewrite firstn_firstn, Nat.min_l by lia.
  set (n := (len / 64 + 1)%nat). set (n' := (len' / 64 + 1)%nat).
  assert (Hn : (n <= n')%nat) by (unfold n, n'; pose proof (Nat.div_le_mono len len' 64 ltac:(lia) H); lia).
  replace n' with (n + (n' - n))%nat by lia. rewrite blocks_app, firstn_app, blocks_length.
  replace (len - 64 * n)%nat with 0%nat. 2:{ unfold n. pose proof (Nat.div_mod len 64 ltac:(lia)). pose proof (Nat.mod_upper_bound len 64 ltac:(lia)). lia. }
  now rewrite firstn_O, app_nil_r.
Qed.

(* against the repository's assembly (Appendix A probe: fixed key, request number i uses nonce LE64(i)) *)
Definition key_probe : list Z := [1; 8; 15; 22; 29; 36; 43; 50; 57; 64; 71; 78; 85; 92; 99; 106; 113; 120; 127; 134; 141; 148; 155; 162; 169; 176; 183; 190; 197; 204; 211; 218].
Example asm_request2_len63 : stream key_probe [2;0;0;0;0;0;0;0] 63 = [162; 173; 231; 109; 125; 145; 51; 141; 224; 60; 179; 22; 252; 17; 184; 178; 74; 7; 156; 185; 170; 58; 36; 162; 125; 230; 31; 48; 160; 43; 172; 71; 37; 213; 35; 217; 221; 110; 237; 193; 217; 73; 8; 2; 232; 67; 212; 94; 7; 186; 34; 166; 182; 48; 177; 44; 146; 155; 162; 18; 184; 74; 145].
Proof. vm_compute. reflexivity. Qed.
Example asm_request4_len65 : stream key_probe [4;0;0;0;0;0;0;0] 65 = [205; 214; 69; 21; 199; 215; 129; 217; 208; 186; 26; 7; 12; 172; 23; 228; 13; 29; 34; 4; 53; 194; 139; 219; 170; 55; 233; 52; 71; 129; 219; 22; 8; 163; 149; 231; 88; 245; 211; 170; 36; 175; 200; 26; 11; 149; 62; 188; 249; 7; 72; 60; 247; 246; 180; 235; 243; 196; 105; 233; 53; 199; 45; 166; 26].
Proof. vm_compute. reflexivity. Qed.
Print Assumptions stream_prefix.
