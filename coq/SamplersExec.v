(* C09/C12: executable models of the samplers of nfl::poly as functions of the TAPE (the bytes nfl::fastrandombytes
   delivers, in request order), for the repaired library (ternary / fixed-weight signs store 1, reservoir index in [0,k]). *)
From Coq Require Import ZArith Lia List Arith Bool.
From NTT Require Import Small Samplers.
Import ListNotations.
Local Open Scope Z_scope.

(* ---------- tape helpers ---------- *)
Fixpoint le_word (bs : list Z) : Z := match bs with [] => 0 | b :: r => b + 256 * le_word r end.
Fixpoint words_of (wb : nat) (cnt : nat) (tape : list Z) : list Z :=       (* cnt little-endian words of wb bytes *)
  match cnt with O => [] | S c => le_word (firstn wb tape) :: words_of wb c (skipn wb tape) end.

Definition mask_bits (x : Z) : Z := Z.log2 x + 1.                           (* (int)(floor(log2(x)) + 1) *)

(* ---------- uniform ---------- *)
(* fastrandombytes(data, sizeof(poly)); per modulus: tmp = word & mask; if (tmp >= p) tmp -= p *)
Definition set_uniform (w : Z) (n : nat) (ps : list Z) (tape : list Z) : list Z :=
  let wb := Z.to_nat (w / 8) in
  let ws := words_of wb (n * length ps) tape in
  concat (map (fun cm => let p := nth cm ps 1 in
                         map (fun i => uni_decode (mask_bits p) p (nth (cm * n + i) ws 0)) (seq 0 n)) (seq 0 (length ps))).

(* ---------- bounded (non_uniform) ---------- *)
(* one word per coefficient; the value is written for every modulus; arithmetic is done in 64 bits and truncated to the limb *)
Definition bnd_store_amp (w p B A tmp : Z) : Z :=
  if tmp >=? B then ((p + tmp * A - (2 * B - 1) * A) mod 2 ^ 64) mod 2 ^ w else ((tmp * A) mod 2 ^ 64) mod 2 ^ w.
Definition set_bounded (w : Z) (n : nat) (ps : list Z) (B A : Z) (tape : list Z) : option (list Z) :=
  if existsb (fun p => B >=? p) ps then None                                  (* throws *)
  else
    let wb := Z.to_nat (w / 8) in
    let ws := words_of wb n tape in
    let b := mask_bits (2 * B - 1) in
    Some (concat (map (fun p => map (fun x => bnd_store_amp w p B A (bnd_tmp b B x)) ws) ps)).

(* ---------- ternary (ZO_dist), repaired encoding ---------- *)
Definition zo_store (p rho byte : Z) : Z := if byte <=? rho then (if Z.testbit byte 1 then 1 else p - 1) else 0.
Definition set_zo (n : nat) (ps : list Z) (rho : Z) (tape : list Z) : list Z :=
  let bs := firstn n tape in concat (map (fun p => map (zo_store p rho) bs) ps).

(* ---------- Gaussian wrapper: noise vector (signed words) -> residues ---------- *)
Definition sgn (w v : Z) : Z := if v <? 2 ^ (w - 1) then v else v - 2 ^ w.   (* (signed_value_type) of a stored word *)
Definition gauss_store (w p A noise : Z) : Z :=
  let v := sgn w ((sgn w noise * A) mod 2 ^ w) in                            (* rnd[i] *= amplifier, in the signed limb type *)
  if v <? 0 then (p + v) mod 2 ^ w else v.
Definition set_gauss (w : Z) (ps : list Z) (A : Z) (noise : list Z) : list Z :=
  concat (map (fun p => map (gauss_store w p A) noise) ps).

(* ---------- fixed Hamming weight (hwt_dist), repaired reservoir ---------- *)
(* state of the rejection/reservoir loop: the slot array `hitted`, the unread part of the current 8h-byte refill *)
Definition W64 := 2 ^ 64.
Fixpoint set_nth (l : list Z) (i : nat) (v : Z) : list Z :=
  match l, i with [] , _ => [] | _ :: t, O => v :: t | x :: t, S i' => x :: set_nth t i' v end.

(* draw one index in [0, k] by rejection from 64-bit words; `buf` = unread words of the current refill, `tape` = rest.
   fuel bounds the number of words examined (the loop has no bound of its own) *)
Fixpoint draw (fuel : nat) (h : nat) (k1 : Z) (buf tape : list Z) : option (Z * list Z * list Z) :=
  match fuel with
  | O => None
  | S f =>
      let '(buf', tape') := match buf with [] => (words_of 8 h tape, skipn (8 * h) tape) | _ => (buf, tape) end in
      match buf' with
      | [] => None
      | x :: rest =>
          let rs := (W64 - 1) / k1 in
          if x <? rs * k1 then Some (x mod k1, rest, tape') else draw f h k1 rest tape'
      end
  end.

Fixpoint reservoir (fuel : nat) (h : nat) (ks : list Z) (hit : list Z) (buf tape : list Z) : option (list Z * list Z) :=
  match ks with
  | [] => Some (hit, tape)
  | k :: ks' =>
      match draw fuel h (k + 1) buf tape with
      | None => None
      | Some (pos, buf', tape') =>
          let hit' := if pos <? Z.of_nat h then set_nth hit (Z.to_nat pos) k else hit in
          reservoir fuel h ks' hit' buf' tape'
      end
  end.

Fixpoint insert (x : Z) (l : list Z) : list Z := match l with [] => [x] | y :: t => if x <=? y then x :: l else y :: insert x t end.
Definition sort (l : list Z) : list Z := fold_right insert [] l.

Definition set_hwt (n : nat) (ps : list Z) (h : nat) (tape : list Z) : option (list Z) :=
  let hit0 := map Z.of_nat (seq 0 h) in
  let ks := map Z.of_nat (seq h (n - h)) in
  match reservoir (length tape + 1) h ks hit0 [] tape with
  | None => None
  | Some (hit, tape') =>
      let pos := sort hit in
      let signs := words_of 8 h tape' in
      Some (concat (map (fun p =>
              map (fun i => match find (fun pj => fst pj =? Z.of_nat i) (combine pos signs) with
                            | Some (_, s) => if Z.testbit s 1 then 1 else p - 1
                            | None => 0 end) (seq 0 n)) ps))
  end.

(* ================= theorems ================= *)

(* uniform: every stored word canonical (whatever the tape) *)
Theorem uniform_word_canonical p word : 1 < p -> 0 <= uni_decode (mask_bits p) p word < p.
Proof.
  intros Hp. apply uni_canonical.
  - unfold mask_bits. pose proof (Z.log2_nonneg p). lia.
  - unfold mask_bits. replace (Z.log2 p + 1 - 1) with (Z.log2 p) by lia.
    destruct (Z.log2_spec p ltac:(lia)) as [L1 L2]. replace (Z.log2 p + 1) with (Z.succ (Z.log2 p)) by lia. lia.
Qed.

(* bounded with amplifier: one signed value v per coefficient, |v| <= B-1, stored as (A*v) mod p for EVERY modulus, canonical *)
Theorem bounded_amp_consistent w p B A word : 8 <= w <= 64 -> 1 <= B -> 1 <= A -> B < p -> p < 2 ^ w -> A * (B - 1) < p ->
  let tmp := bnd_tmp (mask_bits (2 * B - 1)) B word in let v := bnd_val B tmp in
  - (B - 1) <= v <= B - 1 /\ 0 <= bnd_store_amp w p B A tmp < p /\ bnd_store_amp w p B A tmp = (A * v) mod p.
Proof.
  intros Hw HB HA HBp Hpw HAB tmp v.
  assert (Hb : 0 < mask_bits (2 * B - 1)) by (unfold mask_bits; pose proof (Z.log2_nonneg (2 * B - 1)); lia).
  assert (Hm : 2 ^ (mask_bits (2 * B - 1) - 1) <= 2 * B - 1 < 2 ^ mask_bits (2 * B - 1)).
  { unfold mask_bits. replace (Z.log2 (2 * B - 1) + 1 - 1) with (Z.log2 (2 * B - 1)) by lia.
    destruct (Z.log2_spec (2 * B - 1) ltac:(lia)) as [L1 L2]. replace (Z.log2 (2 * B - 1) + 1) with (Z.succ (Z.log2 (2 * B - 1))) by lia. lia. }
  destruct (bounded_consistent (mask_bits (2 * B - 1)) B p word Hb HB Hm ltac:(lia)) as (Hv & _ & _). fold tmp in Hv. fold v in Hv.
  split; [exact Hv|].
  assert (P64 : 2 ^ w <= 2 ^ 64) by (apply Z.pow_le_mono_r; lia).
  assert (P0 : 0 < 2 ^ w) by (apply Z.pow_pos_nonneg; lia).
  assert (T : 0 <= tmp < 2 * B - 1).
  { unfold tmp, bnd_tmp. set (b := mask_bits (2 * B - 1)) in *.
    assert (E2 : 2 ^ b = 2 * 2 ^ (b - 1)) by (rewrite <- Z.pow_succ_r by lia; f_equal; lia).
    pose proof (Z.mod_pos_bound word (2 ^ b) ltac:(lia)) as Hwd. destruct (Z.geb_spec (word mod 2 ^ b) (2 * B - 1)); lia. }
  unfold bnd_store_amp. unfold v, bnd_val in *. revert Hv. destruct (Z.geb_spec tmp B); intros Hv.
  - (* negative value v = tmp - (2B-1) in [-(B-1), -1] *)
    assert (E : p + tmp * A - (2 * B - 1) * A = p + A * (tmp - (2 * B - 1))) by ring. rewrite E.
    assert (D1 : A * (tmp - (2 * B - 1)) <= - A) by nia.
    assert (D2 : - (A * (B - 1)) <= A * (tmp - (2 * B - 1))) by nia.
    assert (R : 0 <= p + A * (tmp - (2 * B - 1)) < p) by lia.
    rewrite (Z.mod_small _ (2 ^ 64)) by lia. rewrite (Z.mod_small _ (2 ^ w)) by lia.
    split; [exact R|]. apply (Z.mod_unique_pos _ p (-1)); lia.
  - assert (R : 0 <= tmp * A < p) by nia.
    rewrite (Z.mod_small _ (2 ^ 64)) by lia. rewrite (Z.mod_small _ (2 ^ w)) by lia.
    split; [exact R|]. rewrite Z.mul_comm. symmetry. apply Z.mod_small. lia.
Qed.

(* ternary: stored word = (signed value) mod p, canonical, for every modulus; counts proved in Samplers.ternary_all_rho *)
Theorem zo_store_consistent p rho byte : 2 < p -> 0 <= zo_store p rho byte < p /\ zo_store p rho byte = (zo_val rho byte) mod p.
Proof.
  intros Hp. unfold zo_store, zo_val. destruct (byte <=? rho); [|split; [lia | reflexivity]].
  destruct (Z.testbit byte 1).
  - split; [lia|]. symmetry. apply Z.mod_small. lia.
  - split; [lia|]. apply (Z.mod_unique_pos _ p (-1)); lia.
Qed.

(* Gaussian wrapper: for a noise value whose amplified magnitude stays below the modulus and the signed range *)
Theorem gauss_store_consistent w p A z : 8 <= w -> 0 < p < 2 ^ (w - 1) -> - 2 ^ (w - 1) <= z < 2 ^ (w - 1) -> 1 <= A -> - p < z * A < p ->
  let noise := z mod 2 ^ w in 0 <= gauss_store w p A noise < p /\ gauss_store w p A noise = (z * A) mod p.
Proof.
  intros Hw Hp Hz HA HzA noise.
  assert (E : 2 ^ w = 2 * 2 ^ (w - 1)) by (rewrite <- Z.pow_succ_r by lia; f_equal; lia).
  assert (P : 0 < 2 ^ (w - 1)) by (apply Z.pow_pos_nonneg; lia).
  assert (S1 : forall x, - 2 ^ (w - 1) <= x < 2 ^ (w - 1) -> sgn w (x mod 2 ^ w) = x).
  { intros x Hx. unfold sgn. destruct (Z_lt_le_dec x 0).
    - assert (M : x mod 2 ^ w = x + 2 ^ w) by (symmetry; apply (Z.mod_unique_pos _ _ (-1)); lia).
      rewrite M. destruct (Z.ltb_spec (x + 2 ^ w) (2 ^ (w - 1))); lia.
    - rewrite Z.mod_small by lia. destruct (Z.ltb_spec x (2 ^ (w - 1))); lia. }
  unfold gauss_store, noise. rewrite (S1 z Hz). rewrite (S1 (z * A)) by lia.
  destruct (Z.ltb_spec (z * A) 0).
  - rewrite Z.mod_small by lia. split; [lia|]. apply (Z.mod_unique_pos _ p (-1)); lia.
  - split; [lia|]. symmetry. apply Z.mod_small. lia.
Qed.

(* rejection step of the reservoir: an accepted word yields an index in [0, k], and every index has exactly rs accepted words *)
Theorem draw_accept_range x k1 : 0 < k1 -> 0 <= x -> 0 <= x mod k1 < k1.
Proof. intros. apply Z.mod_pos_bound. lia. Qed.
Theorem draw_preimages k1 r : 0 < k1 <= W64 -> 0 <= r < k1 ->
  let rs := (W64 - 1) / k1 in
  forall x, (0 <= x < rs * k1 /\ x mod k1 = r) <-> (exists q, 0 <= q < rs /\ x = q * k1 + r).
Proof.
  intros Hk Hr rs x. split.
  - intros [[X0 X1] Xm]. exists (x / k1). pose proof (Z.div_mod x k1 ltac:(lia)). split; [|lia].
    split; [apply Z.div_pos; lia|]. apply Z.div_lt_upper_bound; lia.
  - intros [q [Hq ->]]. split; [nia|]. replace (q * k1 + r) with (r + q * k1) by ring. rewrite Z.mod_add by lia. apply Z.mod_small. lia.
Qed.
