From Coq Require Import Lia List Arith Bool.
Import ListNotations.

(* nfl::randombytes against a scripted operating system.
   Events are the OS's answers, consumed in order:  open -> fails / succeeds;  read(k) -> -1, 0, or c bytes (1 <= c <= k). *)
Inductive ev := OpenFail | OpenOk | ReadErr | ReadZero | ReadData (bytes : list nat).
Record st := { fd_open : bool; opens_ok : nat; sleeps : nat; asked : list nat (* sizes passed to read(), newest first *) }.
Definition CHUNK : nat := Nat.pow 2 20.
Global Opaque CHUNK.   (* never let a proof evaluate a unary 2^20 *)

Definition note_read (s : st) (ask : nat) (slept : bool) : st :=
  {| fd_open := fd_open s; opens_ok := opens_ok s; sleeps := if slept then S (sleeps s) else sleeps s; asked := ask :: asked s |}.

Fixpoint read_loop (evs : list ev) (s : st) (remaining : nat) (out : list nat) : option (st * list nat * list ev) :=
  match remaining with
  | O => Some (s, out, evs)
  | _ =>
    let ask := Nat.min remaining CHUNK in
    match evs with
    | ReadErr :: r | ReadZero :: r => read_loop r (note_read s ask true) remaining out
    | ReadData bs :: r =>
        if andb (1 <=? length bs) (length bs <=? ask)
        then read_loop r (note_read s ask false) (remaining - length bs) (out ++ bs)
        else None                       (* an OS returning more than asked is outside the model *)
    | _ => None                         (* script exhausted (call still blocked) or wrong kind of answer *)
    end
  end.

Fixpoint open_loop (evs : list ev) (s : st) : option (st * list ev) :=
  if fd_open s then Some (s, evs) else
  match evs with
  | OpenFail :: r => open_loop r {| fd_open := false; opens_ok := opens_ok s; sleeps := S (sleeps s); asked := asked s |}
  | OpenOk :: r => Some ({| fd_open := true; opens_ok := S (opens_ok s); sleeps := sleeps s; asked := asked s |}, r)
  | _ => None
  end.

Definition randombytes (evs : list ev) (s : st) (xlen : nat) : option (st * list nat * list ev) :=
  match open_loop evs s with None => None | Some (s1, r) => read_loop r s1 xlen [] end.

(* the bytes the device actually delivered, in order *)
Fixpoint delivered (evs : list ev) : list nat :=
  match evs with [] => [] | ReadData bs :: r => bs ++ delivered r | _ :: r => delivered r end.
Lemma delivered_app a b : delivered (a ++ b) = delivered a ++ delivered b.
Proof. induction a as [|e a IH]; simpl; auto. destruct e; auto. now rewrite IH, app_assoc. Qed.

Definition Inv (s : st) : Prop := opens_ok s = if fd_open s then 1 else 0.

Lemma read_loop_spec : forall evs s remaining out s' res rest,
  read_loop evs s remaining out = Some (s', res, rest) ->
  (exists used, evs = used ++ rest /\ res = out ++ delivered used) /\ length res = length out + remaining /\
  fd_open s' = fd_open s /\ opens_ok s' = opens_ok s.
Proof.
  induction evs as [|e evs IH]; intros s remaining out s' res rest H.
  - destruct remaining; cbn [read_loop] in H; [|discriminate]. inversion H; subst. split; [exists []; simpl; now rewrite app_nil_r | auto].
  - destruct remaining as [|rem].
    + cbn [read_loop] in H. inversion H; subst. split; [exists []; simpl; now rewrite app_nil_r | auto].
    + cbn [read_loop] in H. destruct e; try discriminate.
      * apply IH in H. destruct H as ((used & E1 & E2) & E3 & E4 & E5). subst. split; [exists (ReadErr :: used); auto | auto].
      * apply IH in H. destruct H as ((used & E1 & E2) & E3 & E4 & E5). subst. split; [exists (ReadZero :: used); auto | auto].
      * destruct (andb _ _) eqn:C; [|discriminate]. apply andb_true_iff in C. destruct C as [C1 C2].
        apply Nat.leb_le in C1, C2. apply IH in H. destruct H as ((used & E1 & E2) & E3 & E4 & E5). subst.
        split; [exists (ReadData bytes :: used); simpl; split; auto; now rewrite app_assoc |].
        pose proof (Nat.le_min_l (S rem) CHUNK). cbn [fd_open opens_ok note_read] in *. repeat split; auto. rewrite !app_length in *. lia.
Qed.

Lemma open_loop_spec : forall evs s s' rest, Inv s -> open_loop evs s = Some (s', rest) ->
  Inv s' /\ fd_open s' = true /\ (exists used, evs = used ++ rest /\ delivered used = []) /\ asked s' = asked s.
Proof.
  induction evs as [|e evs IH]; intros s s' rest I H; simpl in H.
  - destruct (fd_open s) eqn:F; [|discriminate]. inversion H; subst. repeat split; auto. exists []; auto.
  - destruct (fd_open s) eqn:F.
    + inversion H; subst. repeat split; auto. exists []; auto.
    + destruct e; try discriminate.
      * apply IH in H; [|unfold Inv in *; simpl; rewrite F in I; auto]. destruct H as (I' & F' & (used & E1 & E2) & A). subst.
        repeat split; auto. exists (OpenFail :: used); auto.
      * inversion H; subst. unfold Inv in *. simpl. rewrite F in I. repeat split; auto; try lia. exists [OpenOk]; auto.
Qed.

(* one call: exactly xlen bytes, exactly the delivered ones, in order; at most one successful open ever *)
Theorem randombytes_correct evs s xlen s' out rest : Inv s -> randombytes evs s xlen = Some (s', out, rest) ->
  length out = xlen /\ (exists used, evs = used ++ rest /\ out = delivered used) /\ Inv s' /\ opens_ok s' <= 1.
Proof.
  intros I H. unfold randombytes in H. destruct (open_loop evs s) as [[s1 r]|] eqn:O; [|discriminate].
  destruct (open_loop_spec _ _ _ _ I O) as (I1 & F1 & (u1 & E1 & D1) & _).
  destruct (read_loop_spec _ _ _ _ _ _ _ H) as ((u2 & E2 & R) & L & F & Oc). subst.
  split; [simpl in L; simpl; lia|]. split.
  - exists (u1 ++ u2). rewrite app_assoc. split; auto. now rewrite delivered_app, D1.
  - unfold Inv in *. rewrite F, Oc. split; auto. rewrite I1, F1. lia.
Qed.

(* any number of calls in one process *)
Fixpoint calls (evs : list ev) (s : st) (lens : list nat) : option (st * list (list nat) * list ev) :=
  match lens with
  | [] => Some (s, [], evs)
  | l :: ls => match randombytes evs s l with None => None
               | Some (s1, out, r) => match calls r s1 ls with None => None | Some (s2, outs, r2) => Some (s2, out :: outs, r2) end end
  end.

Theorem calls_correct : forall lens evs s s' outs rest, Inv s -> calls evs s lens = Some (s', outs, rest) ->
  map (@length nat) outs = lens /\ (exists used, evs = used ++ rest /\ concat outs = delivered used) /\ opens_ok s' <= 1.
Proof.
  induction lens as [|l ls IH]; intros evs s s' outs rest I H; simpl in H.
  - inversion H; subst. repeat split; auto. exists []; auto. unfold Inv in I. destruct (fd_open s'); lia.
  - destruct (randombytes evs s l) as [[[s1 out] r]|] eqn:R; [|discriminate].
    destruct (calls r s1 ls) as [[[s2 outs'] r2]|] eqn:C; [|discriminate]. inversion H; subst.
    destruct (randombytes_correct _ _ _ _ _ _ I R) as (L & (u1 & E1 & D1) & I1 & _).
    destruct (IH _ _ _ _ _ I1 C) as (M & (u2 & E2 & D2) & O). subst.
    simpl. repeat split; auto. exists (u1 ++ u2). rewrite app_assoc, delivered_app, D2. auto.
Qed.
Print Assumptions calls_correct.

(* ---- progress: whatever failures are interleaved, enough (here: single-byte) deliveries make the call complete ---- *)
Definition unit_read (e : ev) : bool := match e with ReadErr | ReadZero => true | ReadData [_] => true | _ => false end.
Fixpoint deliveries (evs : list ev) : nat := match evs with [] => 0 | ReadData _ :: r => S (deliveries r) | _ :: r => deliveries r end.

Lemma CHUNK_pos : 1 <= CHUNK.
Proof. Local Transparent CHUNK. unfold CHUNK. change 1 with (2 ^ 0). apply Nat.pow_le_mono_r; lia. Local Opaque CHUNK. Qed.

Theorem read_progress : forall evs s remaining out, forallb unit_read evs = true -> remaining <= deliveries evs ->
  read_loop evs s remaining out <> None.
Proof.
  induction evs as [|e evs IH]; intros s remaining out Hu Hd.
  - simpl in Hd. assert (remaining = 0) by lia. subst. simpl. discriminate.
  - destruct remaining as [|rem]; [simpl; discriminate|].
    cbn [forallb] in Hu. apply andb_true_iff in Hu. destruct Hu as [He Hu].
    cbn [read_loop]. destruct e as [| | | |bs]; try discriminate.
    + apply IH; [exact Hu | simpl in Hd; exact Hd].
    + apply IH; [exact Hu | simpl in Hd; exact Hd].
    + destruct bs as [|b [|b2 bs]]; try discriminate. cbn [length].
      pose proof CHUNK_pos. replace (1 <=? 1) with true by reflexivity.
      replace (1 <=? Nat.min (S rem) CHUNK) with true by (symmetry; apply Nat.leb_le; apply Nat.min_glb; lia).
      cbn [andb]. apply IH; [exact Hu | simpl in Hd; lia].
Qed.

Theorem open_progress : forall k rest s, fd_open s = false ->
  exists s', open_loop (repeat OpenFail k ++ OpenOk :: rest) s = Some (s', rest) /\ fd_open s' = true /\ opens_ok s' = S (opens_ok s) /\ sleeps s' = k + sleeps s.
Proof.
  induction k as [|k IH]; intros rest s Hf.
  - cbn [repeat app open_loop]. rewrite Hf. eexists. split; [reflexivity|]. cbn. repeat split; reflexivity.
  - cbn [repeat app open_loop]. rewrite Hf.
    destruct (IH rest {| fd_open := false; opens_ok := opens_ok s; sleeps := S (sleeps s); asked := asked s |} eq_refl) as (s' & E & F & O & Sl).
    exists s'. split; [exact E|]. cbn in *. repeat split; auto. lia.
Qed.

(* a whole call completes on any script of the form: k failed opens, one successful open, then failures and single-byte deliveries *)
Corollary call_progress : forall k reads s xlen, fd_open s = false -> forallb unit_read reads = true -> xlen <= deliveries reads ->
  randombytes (repeat OpenFail k ++ OpenOk :: reads) s xlen <> None.
Proof.
  intros k reads s xlen Hf Hu Hd. unfold randombytes.
  destruct (open_progress k reads s Hf) as (s' & E & _). rewrite E. apply read_progress; assumption.
Qed.
Print Assumptions read_progress.
