From Coq Require Import ZArith Lia List.
Import ListNotations.
Local Open Scope Z_scope.

(* ---- C13: the 8-byte little-endian nonce of fastrandombytes and its increment ---- *)
Fixpoint le_decode (bs : list Z) : Z := match bs with [] => 0 | b :: r => b + 256 * le_decode r end.
Fixpoint le_encode (n : nat) (x : Z) : list Z := match n with O => [] | S n' => x mod 256 :: le_encode n' (x / 256) end.

Lemma le_decode_encode n x : 0 <= x < 256 ^ Z.of_nat n -> le_decode (le_encode n x) = x.
Proof.
  revert x; induction n as [|n IH]; intros x Hx.
  - cbn [le_encode le_decode]. change (256 ^ Z.of_nat 0) with 1 in Hx. lia.
  - cbn [le_encode le_decode]. rewrite Nat2Z.inj_succ, Z.pow_succ_r in Hx by lia.
    rewrite IH. + pose proof (Z.div_mod x 256 ltac:(lia)). lia.
    + split; [apply Z.div_pos; lia | apply Z.div_lt_upper_bound; lia].
Qed.
Lemma le_encode_bytes n x : Forall (fun b => 0 <= b < 256) (le_encode n x).
Proof. revert x; induction n; intros x; simpl; constructor; auto. apply Z.mod_pos_bound. lia. Qed.
Lemma le_encode_length n x : length (le_encode n x) = n.
Proof. revert x; induction n; intros; simpl; auto. Qed.
Lemma le_encode_decode bs : Forall (fun b => 0 <= b < 256) bs -> le_encode (length bs) (le_decode bs) = bs.
Proof. induction 1 as [|b r Hb Hr IH]; [reflexivity|]. cbn [le_encode le_decode length].
  replace (b + 256 * le_decode r) with (b + le_decode r * 256) by ring.
  rewrite Z.mod_add, Z.div_add by lia. rewrite Z.mod_small, Z.div_small by lia. rewrite Z.add_0_l. now rewrite IH. Qed.

(* the update in fastrandombytes: n = decode(nonce); n++ (64-bit); nonce = encode(n) *)
Definition nonce_step (bs : list Z) : list Z := le_encode 8 ((le_decode bs + 1) mod 2 ^ 64).
Fixpoint iter {A} (f : A -> A) (k : nat) (a : A) : A := match k with O => a | S k' => f (iter f k' a) end.

Theorem nonce_after k : Z.of_nat k < 2 ^ 64 -> iter nonce_step k (le_encode 8 0) = le_encode 8 (Z.of_nat k).
Proof.
  induction k as [|k IH]; intros Hk; [reflexivity|]. cbn [iter]. rewrite IH by lia. unfold nonce_step.
  rewrite le_decode_encode by (change (256 ^ Z.of_nat 8) with (2 ^ 64); lia).
  rewrite Z.mod_small by lia. f_equal. lia.
Qed.
(* distinct request numbers give distinct nonces *)
Corollary nonce_injective i j : Z.of_nat i < 2 ^ 64 -> Z.of_nat j < 2 ^ 64 ->
  iter nonce_step i (le_encode 8 0) = iter nonce_step j (le_encode 8 0) -> i = j.
Proof. intros Hi Hj E. rewrite !nonce_after in E by auto.
  apply (f_equal le_decode) in E. rewrite !le_decode_encode in E by (change (256 ^ Z.of_nat 8) with (2 ^ 64); lia). lia. Qed.

(* ---- C09/C12: the uniform sampler's per-word decoder and its exact preimages ---- *)
(* tmp = word & mask(b bits); if (tmp >= p) tmp -= p   with 2^(b-1) <= p < 2^b *)
Definition uni_decode (b p word : Z) : Z := let t := word mod 2 ^ b in if t >=? p then t - p else t.

Theorem uni_canonical b p word : 0 < b -> 2 ^ (b - 1) <= p < 2 ^ b -> 0 <= uni_decode b p word < p.
Proof. intros Hb Hp. unfold uni_decode. assert (E : 2 ^ b = 2 * 2 ^ (b - 1)) by (rewrite <- Z.pow_succ_r by lia; f_equal; lia).
  pose proof (Z.mod_pos_bound word (2 ^ b) ltac:(lia)). destruct (Z.geb_spec (word mod 2 ^ b) p); lia. Qed.

(* every residue r has exactly the preimages r and (if it fits) r + p among the b-bit words *)
Theorem uni_preimage b p t r : 0 < b -> 2 ^ (b - 1) <= p < 2 ^ b -> 0 <= t < 2 ^ b -> 0 <= r < p ->
  (uni_decode b p t = r <-> (t = r \/ t = r + p)).
Proof. intros Hb Hp Ht Hr. unfold uni_decode. rewrite Z.mod_small by lia.
  destruct (Z.geb_spec t p); split; intros; lia. Qed.
Corollary uni_multiplicity b p r : 0 < b -> 2 ^ (b - 1) <= p < 2 ^ b -> 0 <= r < p ->
  (* number of b-bit words decoding to r: 2 if r + p < 2^b, else 1 -- never 0, never more than 2 *)
  (r + p < 2 ^ b -> uni_decode b p r = r /\ uni_decode b p (r + p) = r) /\ uni_decode b p r = r.
Proof. intros Hb Hp Hr. assert (E : 2 ^ b = 2 * 2 ^ (b - 1)) by (rewrite <- Z.pow_succ_r by lia; f_equal; lia).
  split; [intros H; split|]; apply uni_preimage; auto; lia. Qed.
Print Assumptions nonce_injective.
Print Assumptions uni_preimage.
