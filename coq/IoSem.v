(* Byte-level stream calls of the raw serialisers, as tools/cxxloop2coq.py emits them (x86-64: limbs are little-endian in memory).
   obj_bytes wb m nbytes : the first nbytes bytes of the object representation of the array m of wb-byte limbs (None if the array is shorter);
   stream_read wb m nbytes s : istream::read(reinterpret_cast<char*>(m), nbytes) on a stream holding the bytes s -- all nbytes bytes are
   stored when available; otherwise the bytes present are stored (whole limbs and the low bytes of one more), failbit is set and the
   stream is exhausted.  Result: (array, rest of the stream, good). *)
From Coq Require Import ZArith List Bool.
From NTT Require Import CxxSem Serial.
Import ListNotations.
Local Open Scope Z_scope.

Definition obj_bytes (wb : nat) (m : list Z) (nbytes : Z) : option (list Z) :=
  if (0 <=? nbytes) && (nbytes <=? Z.of_nat (length m * wb)) then Some (firstn (Z.to_nat nbytes) (flat_map (le_encode wb) m)) else None.
Definition stream_read (wb : nat) (m : list Z) (nbytes : Z) (s : list Z) : option (list Z * list Z * bool) :=
  if (0 <=? nbytes) && (nbytes <=? Z.of_nat (length m * wb)) && (nbytes mod Z.of_nat wb =? 0) then
    let cnt := Z.to_nat (nbytes / Z.of_nat wb) in
    let '(ws, rest, ok) := deserialize wb cnt s in
    Some ((if ok then ws else overlay wb (firstn cnt m) s) ++ skipn cnt m, rest, ok)
  else None.
