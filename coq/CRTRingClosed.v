(* C04: the ring-isomorphism theorems closed over every generated table and every number of moduli in use *)
From Coq Require Import ZArith Znumtheory Lia List.
From NTT Require Import Algebra CRT CRTExec CRTRing CRTClosed TablesOK C06Closed.
From NTT.gen Require Import Params.
Import ListNotations.
Local Open Scope Z_scope.

Definition ring_ok (w : Z) (ps : list Z) : Prop :=
  (forall f, compat f -> forall ra rb xa xb, canon ps ra -> canon ps rb -> poly2mpz_coef w ps ra = Some xa -> poly2mpz_coef w ps rb = Some xb ->
     poly2mpz_coef w ps (rns_op ps f ra rb) = Some (f xa xb mod prod ps)) /\
  (forall n (A B : nat -> list Z) (XA XB : nat -> Z) k,
     (forall t, (t < n)%nat -> canon ps (A t) /\ poly2mpz_coef w ps (A t) = Some (XA t)) ->
     (forall t, (t < n)%nat -> canon ps (B t) /\ poly2mpz_coef w ps (B t) = Some (XB t)) -> (k < n)%nat ->
     poly2mpz_coef w ps (map (fun i => negacyc n (fun t => nth i (A t) 0) (fun t => nth i (B t) 0) k mod nth i ps 1) (seq 0 (length ps)))
       = Some (negacyc n XA XB k mod prod ps)).

Lemma ring_ok_of w ps : 0 <= w -> ps <> [] -> (forall i, (i < length ps)%nat -> 1 < nth i ps 1 < 2 ^ w) ->
  (forall i j, (i < length ps)%nat -> (j < length ps)%nat -> i <> j -> rel_prime (nth i ps 1) (nth j ps 1)) -> ring_ok w ps.
Proof.
  intros Hw Hne Hr Hc. split.
  - intros f Hf ra rb xa xb. apply (crt_ring_op w Hw ps Hne Hr Hc f ra rb xa xb Hf).
  - intros n A B XA XB k. apply (crt_negacyclic w Hw ps Hne Hr Hc n A B XA XB k).
Qed.

Theorem ring_tables :
  forall (wb : Z * Z * list (Z * Z * Z * Z)), In wb [(w16, bits16, rows16); (w32, bits32, rows32); (w64, bits64, rows64)] ->
  let '(w, bits, rows) := wb in forall m, basis m rows <> [] -> ring_ok w (basis m rows).
Proof.
  destruct tables_valid as (T16 & T32 & T64).
  intros wb H. cbn [In] in H. destruct H as [<-|[<-|[<-|[]]]]; intros m Hne.
  - destruct (basis_admissible w16 bits16 maxdeg16 nmod16 rows16 m ltac:(vm_compute; discriminate) ltac:(vm_compute; discriminate) T16) as [A B].
    apply ring_ok_of; auto. vm_compute; discriminate.
  - destruct (basis_admissible w32 bits32 maxdeg32 nmod32 rows32 m ltac:(vm_compute; discriminate) ltac:(vm_compute; discriminate) T32) as [A B].
    apply ring_ok_of; auto. vm_compute; discriminate.
  - destruct (basis_admissible w64 bits64 maxdeg64 nmod64 rows64 m ltac:(vm_compute; discriminate) ltac:(vm_compute; discriminate) T64) as [A B].
    apply ring_ok_of; auto. vm_compute; discriminate.
Qed.
Print Assumptions ring_tables.
