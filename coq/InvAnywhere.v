(* core::inv_ntt of the source where the library calls it: x is row cm of _data (px before, sx after), the tables are inside invomegas
   (possibly one array for both); the scratch array y is the function's own.  From the offset-0 theorem (InvNttAll), the rebasing of
   the translated core::ntt (Rebase / RebaseAll, here for the scratch array: no prefix) and of the translated permutation (PermRebase). *)
From Coq Require Import ZArith List Lia Bool Arith.
From NTT Require Import CxxSem MemSem LoopSpec LoopRun Structural Tables FlatTable Inverse Permut PermSem PermSrc InvNttSrc Frame InvNttAll Rebase RebaseAll PermRebase.
From NTT.gen Require Import GenPerm GenLoop.
Import ListNotations.
Local Open Scope Z_scope.

Section InvRb.
Variable ntt : Z -> list Z -> Z -> list Z -> Z -> list Z -> Z -> Z -> option (list Z * Z * Z * Z * bool).
Variable inv : nat -> Z -> list Z -> Z -> list Z -> Z -> list Z -> Z -> Z -> Z -> list Z -> option (list Z * list Z * Z * Z * bool).
Hypothesis Hinv : forall fuel degree x x_o w wo w' wo' invK p y, inv fuel degree x x_o w wo w' wo' invK p y =
  (if (degree =? 1) then Some ((x, y, wo, wo'), true) else (bind (gen_permut fuel degree y 0 x x_o) (fun y => (bind (ntt degree y 0 w wo w' wo' p) (fun '(y, _, _, _, ret_) => (bind (gen_permut fuel degree x x_o y 0) (fun x => Some ((x, y, wo, wo'), true)))))))).
Variables px sx pw pw' W W' T T' : list Z.
Hypothesis HN : NTTrb [] [] pw pw' W W' T T' ntt.
Notation Lx := (Z.of_nat (length px)).
Notation Lw := (Z.of_nat (length pw)).
Notation Lw' := (Z.of_nat (length pw')).

Lemma emb_nil y : emb [] [] y = y. Proof. unfold emb. cbn [app]. apply app_nil_r. Qed.

Lemma inv_rb fuel degree x invK p y0 x' y' : (degree =? 1) = false ->
  inv fuel degree x 0 W 0 W' 0 invK p y0 = Some ((x', y', 0, 0), true) ->
  inv fuel degree (emb px sx x) Lx T Lw T' Lw' invK p y0 = Some ((emb px sx x', y', Lw, Lw'), true).
Proof.
  intros Hd. rewrite !Hinv, Hd. intros H.
  destruct (gen_permut fuel degree y0 0 x 0) as [y1|] eqn:E1; [|cbn [bind] in H; discriminate H]. cbn [bind] in H.
  pose proof (permut_rb [] [] px sx fuel degree y0 x y1 E1) as E1'. rewrite !emb_nil in E1'. change (Z.of_nat (length (@nil Z))) with 0 in E1'. rewrite E1'. cbn [bind].
  destruct (ntt degree y1 0 W 0 W' 0 p) as [[[[[y2 a] b] c] r]|] eqn:E2; [|cbn [bind] in H; discriminate H]. cbn [bind] in H.
  pose proof (HN _ _ _ _ _ _ _ E2) as E2'. unfold r4b, r4 in E2'. cbn [fst snd] in E2'. rewrite !emb_nil in E2'. change (Z.of_nat (length (@nil Z))) with 0 in E2'. rewrite !Z.add_0_r in E2'. cbn [Z.add] in E2'.
  rewrite E2'. cbn [bind].
  destruct (gen_permut fuel degree x 0 y2 0) as [x1|] eqn:E3; [|cbn [bind] in H; discriminate H]. cbn [bind] in H.
  pose proof (permut_rb px sx [] [] fuel degree x y2 x1 E3) as E3'. rewrite !emb_nil in E3'. change (Z.of_nat (length (@nil Z))) with 0 in E3'. rewrite E3'. cbn [bind].
  injection H as <- <-. reflexivity.
Qed.
End InvRb.

Theorem source_inv_ntt_anywhere k0 p om padW padW' fuel invK px sx pw sw pw' sw' T : (3 <= S k0 <= 30)%nat -> 1 < p -> Forall (fun v => 0 <= v < p) padW -> (S k0 < fuel)%nat ->
  Z.of_nat (length pw) mod 16 = 0 -> Z.of_nat (length pw') mod 16 = 0 ->
  let n := (2 ^ S k0)%nat in let W := flat p (S k0) om ++ padW in let W' := fun w => map (fun v => (v * 2 ^ w) / p) (flat p (S k0) om) ++ padW' in
  let tws := fun lvl => nth lvl (prep p (S k0) om) nil in
  T = pw ++ W ++ sw ->
  let Lx := Z.of_nat (length px) in let Lw := Z.of_nat (length pw) in let Lw' := Z.of_nat (length pw') in
  let out w x y0 := Some ((px ++ BR k0 (ntt_core w p (S k0) tws (BR k0 x)) ++ sx, ntt_core w p (S k0) tws (BR k0 x) ++ skipn n y0, Lw, Lw'), true) in
  (p < 2 ^ 14 -> Forall (fun v => 0 <= v < 2 ^ 16) padW' -> forall T', T' = pw' ++ W' 16 ++ sw' -> forall x y0, length x = n -> Forall (fun v => 0 <= v < 2 ^ 16) x -> length y0 = S n ->
     gen_inv_ntt_serial_u16 fuel (Z.of_nat n) (px ++ x ++ sx) Lx T Lw T' Lw' invK p y0 = out 16 x y0 /\
     gen_inv_ntt_sse_u16 fuel (Z.of_nat n) (px ++ x ++ sx) Lx T Lw T' Lw' invK p y0 = out 16 x y0 /\
     gen_inv_ntt_avx2_u16 fuel (Z.of_nat n) (px ++ x ++ sx) Lx T Lw T' Lw' invK p y0 = out 16 x y0) /\
  (4 * p <= 2 ^ 32 -> Forall (fun v => 0 <= v < 2 ^ 32) padW' -> forall T', T' = pw' ++ W' 32 ++ sw' -> forall x y0, length x = n -> Forall (fun v => 0 <= v < 2 ^ 32) x -> length y0 = S n ->
     gen_inv_ntt_serial_u32 fuel (Z.of_nat n) (px ++ x ++ sx) Lx T Lw T' Lw' invK p y0 = out 32 x y0 /\
     gen_inv_ntt_sse_u32 fuel (Z.of_nat n) (px ++ x ++ sx) Lx T Lw T' Lw' invK p y0 = out 32 x y0 /\
     gen_inv_ntt_avx2_u32 fuel (Z.of_nat n) (px ++ x ++ sx) Lx T Lw T' Lw' invK p y0 = out 32 x y0) /\
  (4 * p <= 2 ^ 64 -> Forall (fun v => 0 <= v < 2 ^ 64) padW' -> forall T', T' = pw' ++ W' 64 ++ sw' -> forall x y0, length x = n -> Forall (fun v => 0 <= v < 2 ^ 64) x -> length y0 = S n ->
     gen_inv_ntt_serial_u64 fuel (Z.of_nat n) (px ++ x ++ sx) Lx T Lw T' Lw' invK p y0 = out 64 x y0 /\
     gen_inv_ntt_sse_u64 fuel (Z.of_nat n) (px ++ x ++ sx) Lx T Lw T' Lw' invK p y0 = out 64 x y0 /\
     gen_inv_ntt_avx2_u64 fuel (Z.of_nat n) (px ++ x ++ sx) Lx T Lw T' Lw' invK p y0 = out 64 x y0).
Proof.
  intros Hk Hp HpW Hf Aw Aw' n W W' tws HT Lx Lw Lw' out.
  pose proof (source_inv_ntt_all_builds k0 p om padW padW' fuel invK Hk Hp HpW Hf) as L. cbv zeta in L. unfold Wt, Wt', inv_out, Fc, twsf in L. fold W tws in L.
  destruct L as (L16 & L32 & L64).
  assert (D1 : (Z.of_nat n =? 1) = false).
  { apply Z.eqb_neq. unfold n. rewrite LoopRun.pow2_Z. assert (2 ^ 1 <= 2 ^ Z.of_nat (S k0)) by (apply Z.pow_le_mono_r; lia). change (2 ^ 1) with 2 in *. lia. }
  assert (A0 : Z.of_nat (length (@nil Z)) mod 16 = 0) by reflexivity.
  assert (G : forall w ntt inv T', T' = pw' ++ W' w ++ sw' ->
     (forall fuel degree x x_o w wo w' wo' invK p y, inv fuel degree x x_o w wo w' wo' invK p y =
       (if (degree =? 1) then Some ((x, y, wo, wo'), true) else (bind (gen_permut fuel degree y 0 x x_o) (fun y => (bind (ntt degree y 0 w wo w' wo' p) (fun '(y, _, _, _, ret_) => (bind (gen_permut fuel degree x x_o y 0) (fun x => Some ((x, y, wo, wo'), true))))))))) ->
     NTTrb [] [] pw pw' W (W' w) T T' ntt -> forall x y0,
     inv fuel (Z.of_nat n) x 0 W 0 (W' w) 0 invK p y0 = Some ((BR k0 (ntt_core w p (S k0) tws (BR k0 x)), ntt_core w p (S k0) tws (BR k0 x) ++ skipn n y0, 0, 0), true) ->
     inv fuel (Z.of_nat n) (px ++ x ++ sx) Lx T Lw T' Lw' invK p y0 = out w x y0).
  { intros w ntt inv T' HT' Hsh HN x y0 E. exact (inv_rb ntt inv Hsh px sx pw pw' W (W' w) T T' HN fuel (Z.of_nat n) x invK p y0 _ _ D1 E). }
  split; [|split]; intros H1 H2 T' HT' x y0 Hx HR Hy.
  - destruct (L16 H1 H2 x y0 Hx HR Hy) as (A & B & C). repeat split.
    + apply (G 16 gen_ntt_serial_u16 _ T' HT' inv_shape_serial_u16 (rb_ntt_serial_u16 [] [] pw sw pw' sw' W (W' 16) T T' HT HT') x y0 A).
    + apply (G 16 gen_ntt_sse_u16 _ T' HT' inv_shape_sse_u16 (rb_ntt_sse_u16 [] [] pw sw pw' sw' W (W' 16) T T' HT HT' A0 Aw Aw') x y0 B).
    + apply (G 16 gen_ntt_avx2_u16 _ T' HT' inv_shape_avx2_u16 (rb_ntt_avx2_u16 [] [] pw sw pw' sw' W (W' 16) T T' HT HT' A0 Aw Aw') x y0 C).
  - destruct (L32 H1 H2 x y0 Hx HR Hy) as (A & B & C). repeat split.
    + apply (G 32 gen_ntt_serial_u32 _ T' HT' inv_shape_serial_u32 (rb_ntt_serial_u32 [] [] pw sw pw' sw' W (W' 32) T T' HT HT') x y0 A).
    + apply (G 32 gen_ntt_sse_u32 _ T' HT' inv_shape_sse_u32 (rb_ntt_sse_u32 [] [] pw sw pw' sw' W (W' 32) T T' HT HT' A0 Aw Aw') x y0 B).
    + apply (G 32 gen_ntt_avx2_u32 _ T' HT' inv_shape_avx2_u32 (rb_ntt_avx2_u32 [] [] pw sw pw' sw' W (W' 32) T T' HT HT' A0 Aw Aw') x y0 C).
  - destruct (L64 H1 H2 x y0 Hx HR Hy) as (A & B & C). repeat split.
    + apply (G 64 gen_ntt_serial_u64 _ T' HT' inv_shape_serial_u64 (rb_ntt_serial_u64 [] [] pw sw pw' sw' W (W' 64) T T' HT HT') x y0 A).
    + apply (G 64 gen_ntt_sse_u64 _ T' HT' inv_shape_sse_u64 (rb_ntt_sse_u64 [] [] pw sw pw' sw' W (W' 64) T T' HT HT') x y0 B).
    + apply (G 64 gen_ntt_avx2_u64 _ T' HT' inv_shape_avx2_u64 (rb_ntt_avx2_u64 [] [] pw sw pw' sw' W (W' 64) T T' HT HT') x y0 C).
Qed.
