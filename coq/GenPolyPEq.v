(* The special members of poly_p, read from include/nfl/poly_p.hpp (gen/GenPolyP.v) over the shared_ptr operations of ShSem.v, ARE the
   operations of the handle/cell machine of PolyP.v on which C14 is proved (refinement to plain values for every history, no double free, no
   leak): every component of the state agrees (handle table, reference counts, cell contents, allocator, free counts). *)
From Coq Require Import List Arith Lia Bool.
From NTT Require Import PolyP ShSem.
From NTT.gen Require Import GenPolyP.

Section Eq.
Variable V : Type.
Variable H : nat.
Notation st := (st V).
Definition eqst (s t : st) : Prop :=
  (forall h, hs V s h = hs V t h) /\ (forall c, cnt V s c = cnt V t c) /\ (forall c, val V s c = val V t c) /\ next V s = next V t /\ (forall c, frees V s c = frees V t c).
Lemma eqst_refl s : eqst s s. Proof. repeat split. Qed.
Lemma eqst_abs s t : eqst s t -> forall h, abs V s h = abs V t h.
Proof. intros (A & _ & C & _) h. unfold abs. rewrite A. destruct (hs V t h); [apply C | reflexivity]. Qed.

Theorem make_is_create s h v : gen_pp_make s h v = step V s (Create V h v).
Proof. reflexivity. Qed.
Theorem assign_copy_is_copy s h g : gen_pp_assign_copy s h g = step V s (Copy V h g).
Proof. unfold gen_pp_assign_copy, sp_assign_copy, share. cbn [step]. destruct (h =? g); cbn [negb]; [reflexivity|]. destruct (hs V s g); reflexivity. Qed.
Theorem assign_move_is_move s h g : gen_pp_assign_move s h g = step V s (Move V h g).
Proof. unfold gen_pp_assign_move, sp_assign_move. cbn [step]. destruct (h =? g); reflexivity. Qed.
(* construction from another handle: the new object's slot h is empty *)
Theorem ctor_copy_is_copy s h g c : hs V s h = None -> h <> g -> hs V s g = Some c -> gen_pp_ctor_copy s h g = step V s (Copy V h g) /\ gen_pp_ctor_copy_nc s h g = step V s (Copy V h g).
Proof.
  intros Hh Hne Hg. unfold gen_pp_ctor_copy, gen_pp_ctor_copy_nc, sp_init_copy, share. cbn [step].
  replace (h =? g) with false by (symmetry; apply Nat.eqb_neq; exact Hne). rewrite Hg, Hh. cbn [release]. split; reflexivity.
Qed.
Theorem ctor_move_is_move s h g : hs V s h = None -> h <> g -> gen_pp_ctor_move s h g = step V s (Move V h g).
Proof.
  intros Hh Hne. unfold gen_pp_ctor_move, sp_init_move, steal. cbn [step].
  replace (h =? g) with false by (symmetry; apply Nat.eqb_neq; exact Hne). rewrite Hh. cbn [release]. reflexivity.
Qed.
Theorem destroy_is_destroy s h : gen_pp_destroy s h = step V s (Destroy V h).
Proof. reflexivity. Qed.

(* poly_obj() then a mutation through the reference: the model's Write (detach when shared, then mutate) *)
Theorem write_is_write s h f : Inv V H s -> eqst (gen_pp_write s h f) (step V s (Write V h f)).
Proof.
  intros I. unfold gen_pp_write, gen_pp_detach, sp_unique, sp_assign_clone, sp_mutate. cbn [step].
  destruct (hs V s h) as [c|] eqn:Eh.
  2:{ cbn [negb]. rewrite Eh. apply eqst_refl. }
  destruct (val V s c) as [v|] eqn:Ev.
  2:{ destruct (cnt V s c =? 1); cbn [negb]; rewrite Eh, Ev; apply eqst_refl. }
  destruct (cnt V s c =? 1) eqn:Ec; cbn [negb].
  - rewrite Eh, Ev. apply eqst_refl.
  - assert (Hc : c <> next V s).
    { pose proof (points_live V H s I _ _ Eh) as L. intros ->. destruct (I_next V H _ I (next V s) ltac:(lia)) as [Z _]. lia. }
    cbn [release hs cnt val next frees]. rewrite (set_other _ _ _ _ Hc). rewrite Ec.
    cbn [hs cnt val next frees]. rewrite set_same, set_same.
    repeat split; cbn [hs cnt val next frees].
    + intros c0. unfold set. destruct (c0 =? next V s) eqn:E1; destruct (c0 =? c) eqn:E2; try reflexivity.
      apply Nat.eqb_eq in E1, E2. subst. contradiction.
    + intros c0. unfold set. destruct (c0 =? next V s); reflexivity.
Qed.
End Eq.

(* ---- the forwarding members: tools/cxxpolyp2coq.py lists the members of the class template it has checked to be one-statement forwarders
   (same-named operation of poly_obj(), own parameters in order); the operations the other properties speak about are among them *)
From Coq Require Import String List.
Definition forwarders_needed : list string :=
  ("operator+" :: "operator-" :: "operator*" :: "operator==" :: "operator!=" :: "operator==(poly_p)" :: "operator!=(poly_p)" :: "operator()" :: "load" ::
   "ntt_pow_phi" :: "invntt_pow_invphi" :: "serialize_manually" :: "deserialize_manually" :: "serialize" :: "set" :: "set_mpz" :: "poly2mpz" :: "mpz2poly" ::
   "get_modulus" :: nil)%string.
Definition covered (need have : list string) : bool := forallb (fun m => existsb (String.eqb m) have) need.
Lemma covered_In need have : covered need have = true -> forall m, In m need -> In m have.
Proof.
  unfold covered. rewrite forallb_forall. intros H m Hm. specialize (H m Hm). apply existsb_exists in H. destruct H as [x [Hx E]]. apply String.eqb_eq in E. subst. exact Hx.
Qed.
Theorem forwarders_cover : (forall m, In m forwarders_needed -> In m gen_pp_forwarders) /\ (39 <= length gen_pp_forwarders)%nat.
Proof. split; [apply covered_In; vm_compute; reflexivity | vm_compute; repeat constructor]. Qed.
